use stevia::collections::*;
use stevia::types::*;
use stevia::pod::*;
use std::panic::catch_unwind;

fn d1() -> Result<(), String> {
    let mut data = vec![0u8; HashSetMut::<u64>::data_len(4)];
    let mut s = HashSetMut::<u64>::from_bytes_mut(&mut data);
    s.initialize(4);
    for v in 1..=4u64 { if !s.insert(v) { return Err(format!("insert {v}")); } }
    let mut live: Vec<u64> = (1..=4).collect();
    for v in [4u64,3,2,1] {
        if !s.remove(&v) { return Err(format!("remove({v}) returned false though present; size={}", s.size())); }
        live.retain(|x| *x != v);
        for w in &live { if !s.contains(w) { return Err(format!("after remove({v}) contains({w}) = false, size={}", s.size())); } }
    }
    Ok(())
}
fn d2() -> Result<(), String> {
    let mut mem = vec![0xA5u8; 1 + 1 + 4 + 1];
    for b in &mut mem[1..6] { *b = 0; }
    {
        let mut s = U8ArraySetMut::<u8>::from_bytes_mut(&mut mem[1..6]);
        s.insert(9); s.insert(5);
    }
    if mem[0] != 0xA5 || mem[6] != 0xA5 { return Err(format!("guard bytes modified: {:02x?}", mem)); }
    {
        let mut s = U8ArraySetMut::<u8>::from_bytes_mut(&mut mem[1..6]);
        s.insert(1); s.insert(2);
        s.take(&1);
    }
    if mem[5] == 0xA5 { return Err(format!("guard byte copied into buffer: {:02x?}", mem)); }
    Ok(())
}
fn d3() -> Result<(), String> {
    let mut data = vec![0u8; AVLTreeMut::<u64,u64>::data_len(4)];
    {
        let mut t = AVLTreeMut::<u64,u64>::from_bytes_mut(&mut data);
        t.initialize(4);
        t.insert(1,1); t.insert(2,2); t.remove(&1);
    }
    data.extend_from_slice(&vec![0u8; AVLTreeMut::<u64,u64>::data_len(2) - AVLTreeMut::<u64,u64>::data_len(0)]);
    let mut t = AVLTreeMut::<u64,u64>::from_bytes_mut(&mut data);
    let mut ok = 0;
    for k in 10..15u64 {
        if t.is_full() { break; }
        if t.insert(k,k).is_some() { ok += 1; } else { return Err(format!("insert refused when not full after {ok}")); }
    }
    if ok != 5 { return Err(format!("only {ok} inserts, cap {} len {}", t.capacity(), t.len())); }
    Ok(())
}
fn d4() -> Result<(), String> {
    let mut data = vec![0u8; AVLTreeMut::<u64,u64>::data_len(0)];
    let mut t = AVLTreeMut::<u64,u64>::from_bytes_mut(&mut data);
    t.initialize(0);
    if t.insert(1,1).is_some() { return Err("insert into cap 0 succeeded".into()); }
    let mut data = vec![0u8; U8AVLTreeMut::<u64,u64>::data_len(0)];
    let mut t = U8AVLTreeMut::<u64,u64>::from_bytes_mut(&mut data);
    t.initialize(0);
    if t.insert(1,1).is_some() { return Err("insert into cap 0 succeeded".into()); }
    Ok(())
}
fn d5() -> Result<(), String> {
    let mut data = vec![0u8; U8AVLTreeMut::<u8,u8>::data_len(255)];
    let mut t = U8AVLTreeMut::<u8,u8>::from_bytes_mut(&mut data);
    t.initialize(255);
    for k in 0..255u8 { if t.insert(k,k).is_none() { return Err(format!("insert {k} refused")); } }
    if !t.is_full() { return Err("not full".into()); }
    if t.insert(255,0).is_some() { return Err("256th insert succeeded".into()); }
    for k in 0..255u8 { if t.remove(&k) != Some(k) { return Err(format!("remove {k}")); } }
    for k in 0..255u8 { if t.insert(k,k).is_none() { return Err(format!("reinsert {k} refused")); } }
    Ok(())
}
fn d6() -> Result<(), String> {
    let data = vec![0u8; HashSet::<u64>::data_len(3)];
    let s = HashSet::<u64>::from_bytes(&data);
    if s.contains(&1) { return Err("contains".into()); }
    Ok(())
}
fn d7() -> Result<(), String> {
    let mut data = vec![0u8; 1 + 2*300 + 1];
    // align u16 values: prefix u8 at odd offset
    let off = if (data.as_ptr() as usize + 1) % 2 == 0 { 0 } else { 1 };
    let mut s = U8ArraySetMut::<u16>::from_bytes_mut(&mut data[off..off+1+600]);
    let mut n = 0;
    for v in 0..300u16 { if s.insert(v) { n += 1; } }
    if s.len() != n.min(255) { return Err(format!("len {} after {n} successful inserts", s.len())); }
    Ok(())
}
fn d8() -> Result<(), String> {
    let mut data = [0u8; 5];
    let mut p = U8PrefixStrMut::new(&mut data).map_err(|e| e.to_string())?;
    p.copy_from_str("abcé");
    let b = p.as_str().as_bytes().to_vec();
    std::str::from_utf8(&b).map_err(|e| format!("as_str() bytes {:02x?} invalid: {e}", b))?;
    Ok(())
}
fn d9() -> Result<(), String> {
    let mut data = [0u8; 257];
    let p = U8PrefixStrMut::new(&mut data).map_err(|e| e.to_string())?;
    if p.as_str().len() != 255 { return Err(format!("payload 256 recorded as {}", p.as_str().len())); }
    Ok(())
}
fn d10() -> Result<(), String> {
    let s = PodStr::<6>::from("ab").to_string();
    if s != "ab" { return Err(format!("{:?}", s)); }
    Ok(())
}
fn main() {
    let tests: Vec<(&str, fn() -> Result<(), String>)> = vec![("D1",d1),("D2",d2),("D3",d3),("D4",d4),("D5",d5),("D6",d6),("D7",d7),("D8",d8),("D9",d9),("D10",d10)];
    std::panic::set_hook(Box::new(|_| {}));
    for (n,f) in tests {
        match catch_unwind(f) {
            Ok(Ok(())) => println!("{n}: ok"),
            Ok(Err(e)) => println!("{n}: FAIL {e}"),
            Err(e) => println!("{n}: PANIC {}", e.downcast_ref::<String>().cloned().or(e.downcast_ref::<&str>().map(|s| s.to_string())).unwrap_or_default()),
        }
    }
}
