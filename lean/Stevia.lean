import Stevia.Basic
import Stevia.Model.Bytes
import Stevia.Model.Tree
import Stevia.Model.TreeLayout
import Stevia.Model.TreeCheck
