import Stevia.Basic
import Stevia.Model.Bytes
import Stevia.Model.Tree
import Stevia.Model.TreeLayout
import Stevia.Model.TreeCheck
import Stevia.Proofs.TreeDefs
import Stevia.Proofs.TreeAvl
import Stevia.Proofs.TreeLayoutRT
