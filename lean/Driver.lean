/-
  stevia_model — line-protocol driver (see /verif/DESIGN.md §2.3).

  Input (one harness run):
    cfg <collection> key=value ...
    S <id> <hex>                               a byte state of the implementation
    O <pre> <op> <args…> => <result> ; <post> ; <trace>
        <pre>  : state id, or `^` = the model's own current state
        <post> : state id, or `?` = not given

  For every `O` line the driver decodes the real pre-bytes with the model's
  decoder, runs the model's step, and compares: the result (`result`), the
  abstract contents of the decoded real post-state (`abs`), its executable
  well-formedness (`wf-*`), the whole decoded state (`state`), the exact bytes
  (`bytes`) and the comparison trace (`trace`).  Output: `M <line> <kind> …`
  per mismatch (first 40 in full) and a final `SUMMARY` line.
-/
import Stevia.ModelAll
import Std.Data.HashMap
open Stevia

structure Sys (σ : Type) where
  decode : Bytes → Except String σ
  encode : σ → Option Bytes
  step : σ → String → List Int → Option (σ × String)
  trace : σ → String → List Int → Option (List Int)
  absEq : σ → σ → Bool
  wf : σ → List String
  eq : σ → σ → Bool
  show_ : σ → String
  /-- labels for the model-side coverage histogram -/
  cover : σ → String → List Int → List String
  /-- merge consecutive comparisons with the same element before comparing traces -/
  mergeTrace : Bool := true
  /-- cross-check between two models of the same operation (functional vs literal): a description of the
      disagreement, if any -/
  selfCheck : σ → String → List Int → Option String := fun _ _ _ => none

structure Run (σ : Type) where
  table : Std.HashMap Nat (String × Except String σ) := {}
  cur : Option σ := none
  ops : Nat := 0
  states : Nat := 0
  mism : Nat := 0
  kinds : Std.HashMap String Nat := {}
  cover : Std.HashMap String Nat := {}
  printed : Nat := 0

def bump (m : Std.HashMap String Nat) (k : String) : Std.HashMap String Nat :=
  m.insert k (m.getD k 0 + 1)

def report {σ : Type} (r : Run σ) (line : Nat) (kind detail : String) (op : String := "-") : IO (Run σ) := do
  let r := { r with mism := r.mism + 1, kinds := bump r.kinds (kind ++ "/" ++ op) }
  if r.printed < 40 then
    IO.println s!"M {line} {kind} {op} | {detail}"
    return { r with printed := r.printed + 1 }
  else return r

/-- Harness trace `<5,>5,<3` → keys with consecutive duplicates merged, and the
    largest number of comparisons with one key. -/
def parseTraceRaw (t : String) : List Int :=
  ((t.splitOn ",").filter (· ≠ "")).map fun it => (String.ofList (it.toList.drop 1)).toInt?.getD 0

def parseTrace (t : String) : List Int × Nat := Id.run do
  let items := (t.splitOn ",").filter (· ≠ "")
  let mut keys : Array Int := #[]
  let mut runLen := 0
  let mut maxRun := 0
  for it in items do
    let k := (String.ofList (it.toList.drop 1)).toInt?.getD 0
    if keys.size > 0 && keys.back! == k then
      runLen := runLen + 1
    else
      keys := keys.push k
      runLen := 1
    if runLen > maxRun then maxRun := runLen
  return (keys.toList, maxRun)

/-- Arguments are decimal integers, or blobs `x01<hex>` (a sentinel byte, then the bytes), which
    are passed on as the integer value of the whole hex string. -/
def parseArg (w : String) : Option Int :=
  if w.startsWith "x" then
    (w.toList.drop 1).foldlM (fun (acc : Nat) c => (hexVal c).map (fun d => 16 * acc + d)) 0 |>.map Int.ofNat
  else w.toInt?

def parseInts (ws : List String) : Option (List Int) := ws.mapM parseArg

/-- Bytes of a blob argument (big-endian digits of the integer, sentinel byte dropped). -/
def blobBytes (x : Int) : ByteArray := Id.run do
  let mut n := x.toNat
  let mut out : List UInt8 := []
  while n > 0 do
    out := UInt8.ofNat (n % 256) :: out
    n := n / 256
  return ⟨(out.drop 1).toArray⟩

def hexBA (b : ByteArray) : String := hexOfBytes b.toList

def handleLine {σ : Type} (sys : Sys σ) (r : Run σ) (lineNo : Nat) (line : String) : IO (Run σ) := do
  if line.startsWith "S " then
    match line.splitOn " " with
    | [_, id, hx] =>
      match id.toNat?, bytesOfHex hx with
      | some i, some bs =>
        return { r with table := r.table.insert i (hx, sys.decode bs), states := r.states + 1 }
      | _, _ => report r lineNo "parse" line
    | [_, id] =>
      match id.toNat? with
      | some i => return { r with table := r.table.insert i ("", sys.decode []), states := r.states + 1 }
      | none => report r lineNo "parse" line
    | _ => report r lineNo "parse" line
  else if line.startsWith "O " then
    match line.splitOn " => " with
    | [lhs, rhs] =>
      let lw := (lhs.splitOn " ").filter (· ≠ "")
      let rparts := (rhs.splitOn ";").map (·.trimAscii.toString)
      match lw, rparts with
      | _ :: preTok :: op :: argWs, [res, postTok, trace] =>
        let some args := parseInts argWs | report r lineNo "parse" line
        let r := { r with ops := r.ops + 1 }
        -- pre-state
        let preE : Except String σ :=
          if preTok == "^" then
            match r.cur with
            | some s => .ok s
            | none => .error "no current model state"
          else match preTok.toNat? with
            | some i => match r.table[i]? with
              | some (_, d) => d
              | none => .error s!"unknown state {i}"
            | none => .error "bad pre token"
        match preE with
        | .error e => report { r with cur := none } lineNo "decode" s!"pre-state of `{op}`: {e}" op
        | .ok pre =>
          let some (post', res') := sys.step pre op args | report r lineNo "parse" s!"unknown op {op}"
          let mut r := r
          for c in sys.cover pre op args do
            r := { r with cover := bump r.cover c }
          match sys.selfCheck pre op args with
          | some msg => r ← report r lineNo "imp" s!"`{op} {args}` on {sys.show_ pre}: {msg}" op
          | none => pure ()
          if res' != "?" && res'.trimAscii.toString != res.trimAscii.toString then
            -- an insertion that succeeded on both sides but returned a different record index is a matter of
            -- the format (kind `slot`), not of the map/set behaviour (kind `result`)
            let kind := if op == "ins" && res.trimAscii.toString.startsWith "some " && res'.startsWith "some " then "slot" else "result"
            r ← report r lineNo kind s!"`{op} {args}` on {sys.show_ pre}: implementation {res}, model {res'}" op
          -- trace
          let tr := trace.trimAscii.toString
          if tr != "" then
            match sys.trace pre op args with
            | some path =>
              let (keys, maxRun) := if sys.mergeTrace then parseTrace tr else (parseTraceRaw tr, 0)
              if keys != path then
                r ← report r lineNo "trace" s!"`{op} {args}` on {sys.show_ pre}: compared with {keys}, model path {path}" op
              if maxRun > 2 then
                r ← report r lineNo "trace" s!"`{op} {args}`: a key was compared {maxRun} times" op
            | none => pure ()
          -- post-state
          let pt := postTok.trimAscii.toString
          if pt == "?" then
            return { r with cur := some post' }
          else
            match pt.toNat? >>= fun i => r.table[i]? with
            | none => report r lineNo "parse" s!"unknown post state {pt}"
            | some (hx, .error e) =>
              report { r with cur := some post' } lineNo "decode" s!"post-state of `{op} {args}` ({hx}): {e}" op
            | some (hx, .ok d) =>
              for w in sys.wf d do
                r ← report r lineNo ("wf-" ++ w) s!"after `{op} {args}`: {sys.show_ d}" op
              if !sys.absEq d post' then
                r ← report r lineNo "abs" s!"`{op} {args}` on {sys.show_ pre}: implementation {sys.show_ d}, model {sys.show_ post'}" op
              else if !sys.eq d post' then
                r ← report r lineNo "state" s!"`{op} {args}` on {sys.show_ pre}: implementation {sys.show_ d}, model {sys.show_ post'}" op
              else
                match sys.encode post' with
                | some bs =>
                  if hexOfBytes bs != hx then
                    r ← report r lineNo "bytes" s!"`{op} {args}`: implementation {hx}, model {hexOfBytes bs}" op
                | none => pure ()
              -- continue from the real state (keeps later lines meaningful after a mismatch)
              return { r with cur := some d }
      | _, _ => report r lineNo "parse" line
    | _ => report r lineNo "parse" line
  else return r

partial def loop {σ : Type} (sys : Sys σ) (h : IO.FS.Stream) (r : Run σ) (lineNo : Nat) : IO (Run σ) := do
  let line ← h.getLine
  if line.isEmpty then return r
  let l := line.trimAscii.toString
  let r ← handleLine sys r lineNo l
  loop sys h r (lineNo + 1)

def summary {σ : Type} (r : Run σ) : IO Unit := do
  let ks := r.kinds.toList.map (fun (k, v) => s!"{k}:{v}")
  let cs := (r.cover.toList.map (fun (k, v) => s!"{k}:{v}"))
  IO.println s!"COVER {" ".intercalate cs}"
  IO.println s!"SUMMARY ops={r.ops} states={r.states} mismatches={r.mism} kinds={",".intercalate ks}"

/-! ### Trees -/

def cfgVal (ws : List String) (k : String) : Option String :=
  ws.findSome? fun w => match w.splitOn "=" with
    | [a, b] => if a == k then some b else none
    | _ => none

def cfgNat (ws : List String) (k : String) (d : Nat) : Nat :=
  ((cfgVal ws k) >>= String.toNat?).getD d

def showT : T Int Nat → String
  | .nil => "."
  | .node i l k v h r => s!"({showT l} {k}:{v}@{i}h{h} {showT r})"

def showTree (s : TreeS) : String :=
  s!"[{showT s.root} size={s.size} cap={s.cap} free={s.free} seq={s.seq} slots={s.slots}]"

def treeCover (c : TreeCfg) (s : TreeS) (op : String) (args : List Int) : List String :=
  let m := s.openMut c
  match op, args with
  | "ins", [k, _] =>
    if (m.root.find k).isSome then ["ins:dup"] else if m.isFull then ["ins:full"]
    else
      let t' := m.root.ins 0 k 0
      ["ins:ok"] ++ (if t'.ht = m.root.ht then ["ins:height-same"] else ["ins:height-grows"]) ++
        (if m.free.isEmpty then ["ins:cursor"] else ["ins:recycled"])
  | "rem", [k] =>
    match m.root.find k with
    | none => ["rem:absent"]
    | some _ =>
      let t' := m.root.del k
      ["rem:ok"] ++ (if t'.ht = m.root.ht then ["rem:height-same"] else ["rem:height-shrinks"])
  | _, _ => []

/-- Functional model vs literal register-level transcription on one operation. -/
def treeSelfCheck (c : TreeCfg) (s : TreeS) (op : String) (args : List Int) : Option String :=
  let d : Rec Int Nat := ⟨0, 0, 0, 0, 0, 0⟩
  let m := s.openMut c
  let img := Imp.openMut c (s.image c 0 0)
  let cmp := fun (fimg : TreeImage Int Nat) (fres : String) (iimg : TreeImage Int Nat) (ires : String) =>
    if fimg == iimg && fres == ires then none
    else some s!"literal model gives {ires} / functional {fres}; images {if fimg == iimg then "equal" else "differ"}"
  match op, args with
  | "ins", [k, v] =>
    match m.insert c k v.toNat with
    | .ok (s', r) =>
      let (i', ir) := Imp.insert c d img k v.toNat
      cmp (s'.image c 0 0) (optStr toString r) i' (optStr toString ir)
    | .error _ => none
  | "rem", [k] =>
    match m.remove k with
    | .ok (s', r) =>
      let (i', ir) := Imp.remove d img k
      cmp (s'.image c 0 0) (optStr toString r) i' (optStr toString ir)
    | .error _ => none
  | "upd", [k, v] =>
    let (s', r) := m.update k v.toNat
    let (i', ir) := Imp.update d img k v.toNat
    cmp (s'.image c 0 0) (toString r) i' (toString ir)
  | "low", [] =>
    if optStr toString m.lowest == optStr toString (Imp.lowest d img) then none else some "lowest differs"
  | "get", [k] =>
    let fi := (m.root.find k).map (·.1)
    let ii := Imp.find d img k (img.recs.length + 1) img.hdr.root
    if fi == ii then none else some s!"find differs: {fi} vs {ii}"
  | _, _ => none

def treeSys (c : TreeCfg) (f : TreeFmt) : Sys TreeS where
  decode := fun bs =>
    match f.ofBytes bs with
    | none => .error "buffer is not header + whole records with zero padding"
    | some img =>
      match img.reachCount (2 * img.recs.length + 3) 0 [img.hdr.root] with
      | none => .error "tree links form a cycle, share a node or leave the buffer"
      | some _ =>
        match img.decode c 0 0 with
        | some s => .ok s
        | none => .error "not the layout of any tree state (dangling link, broken free list, or a slot that is neither live, recycled nor never used)"
  encode := fun s => if s.slots ≤ 64 then some (f.toBytes (s.image c 0 0)) else none
  step := fun s op args =>
    match op, args with
    | "dlen", [n] => some (s, toString (f.dataLen n.toNat))
    | _, _ => treeStep c s op args
  trace := fun s op args => treeTrace (if op.startsWith "r" && op != "rem" then s else s.openMut c) op args
  absEq := fun a b =>
    a.root.toList.map (·.2) == b.root.toList.map (·.2) && a.size == b.size && a.cap == b.cap
  wf := fun s =>
    (if T.sortedB s.root.keys then [] else ["bst"]) ++
    (if s.root.balB then [] else ["bal"]) ++
    (if s.seq = 0 || Tree.allocB c s then [] else ["alloc"])
  eq := fun a b => a == b
  show_ := showTree
  cover := treeCover c
  selfCheck := fun s op args => if s.slots ≤ 64 then treeSelfCheck c s op args else none

/-! ### Hash set -/

def showHSet (s : HSetS) : String :=
  s!"[chains={s.chains} size={s.size} cap={s.cap} free={s.free} seq={s.seq}]"

def hsetCover (hk : Nat) (s : HSetS) (op : String) (args : List Int) : List String :=
  match op, args with
  | "rem", [v] =>
    if s.cap = 0 then [] else
    let ch := s.chains.getD (s.bucket (hashOf hk) v.toNat) []
    match ch.findIdx? (fun e => e.2 == v.toNat) with
    | none => ["rem:absent"]
    | some 0 => if ch.length == 1 then ["rem:only"] else ["rem:head"]
    | some j => if j + 1 == ch.length then ["rem:tail"] else ["rem:middle"]
  | "ins", [v] =>
    if s.cap = 0 then [] else
    let ch := s.chains.getD (s.bucket (hashOf hk) v.toNat) []
    [s!"ins:chainlen{min ch.length 3}"]
  | _, _ => []

/-- Functional model vs literal register-level transcription on one hash-set operation. -/
def hsetSelfCheck (hk : Nat) (s : HSetS) (op : String) (args : List Int) : Option String :=
  let d : HRec Nat := ⟨0, 0, 0⟩
  let h := hashOf hk
  let img := s.image 0
  match op, args with
  | "ins", [v] =>
    match s.insert h v.toNat with
    | .ok (s', r) =>
      let (i', ir) := HImp.insert h d img v.toNat
      if s'.image 0 == i' && r == ir then none else some s!"literal insert gives {ir}, functional {r}; images {if s'.image 0 == i' then "equal" else "differ"}"
    | .error _ => none
  | "rem", [v] =>
    match s.remove h v.toNat with
    | .ok (s', r) =>
      let (i', ir) := HImp.remove h d img v.toNat
      if s'.image 0 == i' && r == ir then none else some s!"literal remove gives {ir}, functional {r}; images {if s'.image 0 == i' then "equal" else "differ"}"
    | .error _ => none
  | "has", [v] =>
    match s.contains h v.toNat with
    | .ok r => if r == HImp.contains h d img v.toNat then none else some "contains differs"
    | .error _ => none
  | "iter", [] => if s.iter == HImp.iter d img then none else some "iteration differs"
  | _, _ => none

def hsetSys (hk : Nat) (f : HFmt) : Sys HSetS where
  decode := fun bs =>
    match f.ofBytes bs with
    | none => .error "buffer is not header + whole records with zero padding"
    | some img =>
      match img.decode 0 with
      | some s => .ok s
      | none => .error "not the layout of any hash-set state (broken chain or free list, or a slot that is neither live, recycled nor never used)"
  encode := fun s => if s.slots ≤ 64 then some (f.toBytes (s.image 0)) else none
  step := fun s op args =>
    match op, args with
    | "dlen", [n] => some (s, toString (f.dataLen n.toNat))
    | _, _ => hsetStep hk s op args
  trace := fun _ _ _ => none
  absEq := fun a b =>
    a.members.mergeSort == b.members.mergeSort && a.size == b.size && a.cap == b.cap
  wf := fun s =>
    (if s.seq = 0 || s.allocB then [] else ["alloc"]) ++
    (if s.placedB (hashOf hk) then [] else ["placed"])
  eq := fun a b => a == b
  show_ := showHSet
  cover := hsetCover hk
  selfCheck := fun s op args => if s.slots ≤ 64 then hsetSelfCheck hk s op args else none

/-! ### Array sets -/

def showASet (s : ASetS) : String := s!"[len={s.len} vals={s.vals}]"

def asetCover (f : AFmt) (s : ASetS) (op : String) (args : List Int) : List String :=
  match op, args with
  | "get", [x] =>
    match s.indexP f.keyOf (f.keyOf x.toNat) with
    | .ok (_, ps) => [s!"probes{ps.length}"]
    | .error _ => []
  | _, _ => []

def asetSys (f : AFmt) : Sys ASetS where
  decode := fun bs =>
    match f.ofBytes bs with
    | none => .error "buffer is not a count followed by whole value slots"
    | some s => .ok s
  encode := fun s => if s.slots ≤ 256 then some (f.toBytes s) else none
  step := asetStep f
  trace := asetTrace f
  absEq := fun a b => a.view == b.view && a.slots == b.slots
  wf := fun s => if s.wfB f then [] else ["sorted"]
  eq := fun a b => a == b
  show_ := showASet
  cover := asetCover f
  mergeTrace := false

/-! ### Strings and pods: the state is the buffer itself -/

def baSys (step : ByteArray → String → List Int → Option (ByteArray × String)) : Sys ByteArray where
  decode := fun bs => .ok ⟨bs.toArray⟩
  encode := fun s => some s.toList
  step := step
  trace := fun _ _ _ => none
  absEq := fun a b => a.toList == b.toList
  wf := fun _ => []
  eq := fun a b => a.toList == b.toList
  show_ := fun s => "x" ++ hexBA s
  cover := fun _ _ _ => []

def pstrStep (w : Nat) (s : ByteArray) (op : String) (args : List Int) : Option (ByteArray × String) :=
  let P := 2 ^ (8 * w) - 1
  match op, args with
  | "new", [] =>
    match PStr.new w P s with
    | .error e => some (s, faultStr e)
    | .ok (b', r) => some (b', if r then "ok x" ++ hexBA (PStr.payload w b') ++ " s" ++ toString (PStr.size w b') else "err")
  | "upper", [] =>
    match PStr.new w P s with
    | .error e => some (s, faultStr e)
    | .ok (b', r) =>
      if r then
        -- make_ascii_uppercase through the &mut str: ASCII lowercase bytes of the payload lose bit 5
        let len := PStr.recLen w b'
        let up : ByteArray := ⟨(b'.toList.zipIdx.map fun (x, i) =>
          if w ≤ i ∧ i < w + len ∧ 97 ≤ x.toNat ∧ x.toNat ≤ 122 then UInt8.ofNat (x.toNat - 32) else x).toArray⟩
        some (up, "ok x" ++ hexBA (PStr.payload w up) ++ " s" ++ toString (PStr.size w up))
      else some (b', "err")
  | "copy", [blob] =>
    match PStr.new w P s with
    | .error e => some (s, faultStr e)
    | .ok (b', r) =>
      if r then
        match String.fromUTF8? (blobBytes blob) with
        | none => none
        | some str =>
          let b'' := PStr.copyFromStr w b' str
          some (b'', "ok x" ++ hexBA (PStr.payload w b'') ++ " s" ++ toString (PStr.size w b''))
      else some (b', "err")
  | "load", [] =>
    match PStr.fromBytes w s with
    | .error e => some (s, faultStr e)
    | .ok (some p) => some (s, "ok x" ++ hexBA p)
    | .ok none => some (s, "err")
  | "size", [] =>
    match PStr.fromBytes w s with
    | .error e => some (s, faultStr e)
    | .ok (some _) => some (s, toString (PStr.size w s))
    | .ok none => some (s, "err")
  | _, _ => none

def podstrStep (n : Nat) (s : ByteArray) (op : String) (args : List Int) : Option (ByteArray × String) :=
  match op, args with
  | "from", [blob] => some (PodStr.ofBytes n (blobBytes blob), "-")
  | "copyb", [blob] => some (PodStr.ofBytes n (blobBytes blob), "-")
  | "copy", [blob] => some (PodStr.ofBytes n (blobBytes blob), "-")
  | "asunchk", [] =>
    match PodStr.asStr s with
    | some t => some (s, "ok x" ++ hexBA t)
    | none => some (s, "err")
  | "asstr", [] =>
    match PodStr.asStr s with
    | some t => some (s, "ok x" ++ hexBA t)
    | none => some (s, "err")
  | "disp", [] =>
    match PodStr.display s with
    | some t => some (s, "x" ++ hexBA t)
    | none => some (s, "?")     -- lossy rendering of invalid text is not modelled
  | "load", [] =>
    match Pod.load n s with
    | .ok v => some (s, if v.toList == s.toList then "true" else "false")
    | .error e => some (s, faultStr e)
  | _, _ => none

def podIsSome (kind : Nat) (inner : ByteArray) : Bool :=
  if kind == 8 then inner.toList != List.replicate 8 255
  else if kind == 2 then inner.toList.headD 0 == 1
  else inner.toList.any (· != 0)

def podStep (kind n : Nat) (s : ByteArray) (op : String) (args : List Int) : Option (ByteArray × String) :=
  let boolStr := fun (b : Bool) => if b then "true" else "false"
  match op, args with
  | "bool", [] =>
    match Pod.load 1 s with
    | .ok v => some (s, boolStr (Pod.boolDecode (v.toList.headD 0)))
    | .error e => some (s, faultStr e)
  | "view", [] =>
    match Pod.load n s with
    | .ok v => some (s, "x" ++ hexBA v)
    | .error e => some (s, faultStr e)
  | "viewmis", [] =>
    -- the same bytes at offsets 0..7 past an 8-byte boundary: a view of the first `n` bytes where the inner type's
    -- alignment (4 for the `u32` wrapper, 1 otherwise) admits the address, a refusal elsewhere / when too short
    let align := if kind = 4 then 4 else 1
    let one := fun (off : Nat) =>
      match Pod.load n s with
      | .ok v => if off % align = 0 then "x" ++ hexBA v else "refused"
      | .error _ => "refused"
    some (s, ",".intercalate ((List.range 8).map one))
  | "setb", [b] =>
    match Pod.storeMut 1 s ⟨#[Pod.boolEncode (b != 0)]⟩ with
    | .ok s' => some (s', "-")
    | .error e => some (s, faultStr e)
  | "enc", [b] =>
    let e := Pod.boolEncode (b != 0)
    some (s, "x" ++ hexOfBytes [e] ++ " " ++ boolStr (Pod.boolDecode e))
  | "optval", [] =>
    match Pod.load n s with
    | .error e => some (s, faultStr e)
    | .ok v =>
      match Pod.optValue (podIsSome kind) v with
      | some x => some (s, "some x" ++ hexBA x)
      | none => some (s, "none")
  | "optset", [blob] =>
    match Pod.load n s with
    | .error e => some (s, faultStr e)
    | .ok v =>
      if (Pod.optValue (podIsSome kind) v).isSome then
        match Pod.storeMut n s (blobBytes blob) with
        | .ok s' => some (s', "true")
        | .error e => some (s, faultStr e)
      else some (s, "false")
  | "store", [blob] =>
    match Pod.storeMut n s (blobBytes blob) with
    | .ok s' => some (s', "-")
    | .error e => some (s, faultStr e)
  | _, _ => none

def main : IO Unit := do
  let h ← IO.getStdin
  let first ← h.getLine
  let ws := (first.trimAscii.toString.splitOn " ").filter (· ≠ "")
  match ws with
  | "cfg" :: "tree" :: rest =>
    let iw := cfgNat rest "iw" 4
    let key : Scalar := { size := cfgNat rest "ksz" 8, align := cfgNat rest "kal" 8, signed := cfgNat rest "ksg" 0 == 1 }
    let val : Scalar := { size := cfgNat rest "vsz" 8, align := cfgNat rest "val" 8, signed := false }
    let (c, f) := if iw == 1 then (cfgU8, TreeFmt.u8 key val) else (cfgU32, TreeFmt.u32 key val)
    let r ← loop (treeSys c f) h {} 2
    summary r
  | "cfg" :: "hset" :: rest =>
    let val : Scalar := { size := cfgNat rest "vsz" 8, align := cfgNat rest "val" 8, signed := false }
    let r ← loop (hsetSys (cfgNat rest "hk" 8) { val := val }) h {} 2
    summary r
  | "cfg" :: "aset" :: rest =>
    let f : AFmt := { pw := cfgNat rest "pw" 1, vsz := cfgNat rest "vsz" 1, keyBytes := cfgNat rest "kb" 1 }
    let r ← loop (asetSys f) h {} 2
    summary r
  | "cfg" :: "pstr" :: rest =>
    let r ← loop (baSys (pstrStep (cfgNat rest "w" 1))) h {} 2
    summary r
  | "cfg" :: "podstr" :: rest =>
    let r ← loop (baSys (podstrStep (cfgNat rest "n" 4))) h {} 2
    summary r
  | "cfg" :: "pod" :: rest =>
    let r ← loop (baSys (podStep (cfgNat rest "kind" 0) (cfgNat rest "size" 1))) h {} 2
    summary r
  | _ =>
    IO.println s!"M 1 parse unknown cfg line: {first}"
    IO.println "SUMMARY ops=0 states=0 mismatches=1 kinds=parse:1"
