/-
  Stevia.Basic — shared vocabulary of the model: the order class the trees are
  parametric in, and the fault kinds (the ways the Rust code can panic).

  No imports: everything under Stevia/Model and this file is core-only so that
  the driver links as a `lean_exe`.
-/
namespace Stevia

/-- A strict linear order with decidable `<`: all the AVL trees and the array
    set ever do with a key is compare it (`PartialOrd::lt/gt`, `Ord::cmp`). -/
class LinOrd (α : Type) extends LT α where
  decLt : ∀ a b : α, Decidable (a < b)
  irrefl : ∀ a : α, ¬ a < a
  trans : ∀ {a b c : α}, a < b → b < c → a < c
  tri : ∀ a b : α, a < b ∨ a = b ∨ b < a

instance {α : Type} [LinOrd α] (a b : α) : Decidable (a < b) := LinOrd.decLt a b

instance : LinOrd Nat where
  decLt := fun a b => inferInstanceAs (Decidable (a < b))
  irrefl := fun a => Nat.lt_irrefl a
  trans := fun h1 h2 => Nat.lt_trans h1 h2
  tri := fun a b => by omega

instance : LinOrd Int where
  decLt := fun a b => inferInstanceAs (Decidable (a < b))
  irrefl := fun a => Int.lt_irrefl a
  trans := fun h1 h2 => Int.lt_trans h1 h2
  tri := fun a b => by omega

namespace LinOrd
variable {α : Type} [LinOrd α]

theorem asymm {a b : α} (h : a < b) : ¬ b < a := fun h' => irrefl a (trans h h')

theorem ne_of_lt {a b : α} (h : a < b) : a ≠ b := fun e => by subst e; exact irrefl a h

theorem eq_of_not_lt {a b : α} (h1 : ¬ a < b) (h2 : ¬ b < a) : a = b := by
  rcases tri a b with h | h | h
  · exact absurd h h1
  · exact h
  · exact absurd h h2

end LinOrd

/-- The ways an operation of the Rust crate can fail to return normally.
    `overflow`: checked arithmetic (`+ 1`, `- 1`) with overflow checks on;
    `divZero`: `% capacity` with capacity 0; `panic`: an explicit `panic!`;
    `oob`: a bounds-checked index or slice outside the buffer. -/
inductive Fault where
  | overflow | divZero | panic | oob
deriving DecidableEq, Repr

def Fault.name : Fault → String
  | .overflow => "overflow" | .divZero => "divzero" | .panic => "panic" | .oob => "oob"

end Stevia
