/-
  Stevia.Model.TreeImpTerm — "the loop leaves by its own condition (or a `return`/`break`) before the fuel runs out".

  The translator renders every Rust `while`/`loop` as a fuel-bounded `for` and makes the translated function answer
  `none` when a loop is left only because the fuel is used up: a loop that would run on is never given a made-up
  value.  The predicates below say, for the loops of the tree files, that this does not happen; the bridge theorems
  have the form `translated = if <loops terminate> then some (literal model) else none`, and
  `Stevia/Proofs/TreeImpTerm.lean` proves the predicates on the layout of every well-formed state — which is the
  statement that the real loops terminate (within `records + 1` iterations) in every reachable state.
-/
import Stevia.Model.TreeImp

namespace Stevia
namespace Imp
variable {α β : Type} [LinOrd α]

/-- The `while reference_node != SENTINEL` descent of `find`. -/
def findT (d : Rec α β) (m : TreeImage α β) (key : α) : Nat → Nat → Bool
  | 0, _ => false
  | fuel + 1, node =>
    if node = 0 then true
    else if key < (rd d m node).key then findT d m key fuel (rd d m node).left
    else if (rd d m node).key < key then findT d m key fuel (rd d m node).right
    else true

omit [LinOrd α] in
/-- The `while left != SENTINEL` walk of `lowest` and of the in-order successor search of `remove`. -/
def leftT (d : Rec α β) (m : TreeImage α β) : Nat → Nat → Bool
  | 0, _ => false
  | fuel + 1, node => if (rd d m node).left ≠ 0 then leftT d m fuel (rd d m node).left else true

/-- The `loop` of `insert`: it reaches an empty link or the key. -/
def insertT (d : Rec α β) (m : TreeImage α β) (key : α) : Nat → Nat → Bool
  | 0, _ => false
  | fuel + 1, ref =>
    if key < (rd d m ref).key then
      if (rd d m ref).left = 0 then true else insertT d m key fuel (rd d m ref).left
    else if (rd d m ref).key < key then
      if (rd d m ref).right = 0 then true else insertT d m key fuel (rd d m ref).right
    else true

/-- The descent of `remove` (same shape as `find`). -/
def removeT (d : Rec α β) (m : TreeImage α β) (key : α) : Nat → Nat → Bool := findT d m key

/-- Both loops of `remove`. -/
def removeTerm (d : Rec α β) (m : TreeImage α β) (key : α) : Bool :=
  if m.hdr.root = 0 then true
  else
    removeT d m key (m.recs.length + 1) m.hdr.root &&
      (let nodeIndex := (removeDescend d m key (m.recs.length + 1) m.hdr.root [(none, none, m.hdr.root)]).1
       if nodeIndex = 0 then true
       else if (rd d m nodeIndex).left ≠ 0 ∧ (rd d m nodeIndex).right ≠ 0 then
         leftT d m (m.recs.length + 1) (rd d m nodeIndex).right
       else true)

/-- `insert` with the "tree is full" panic of `add` kept as `none` (`Imp.insert` reports it as a refusal). -/
def insertO (c : TreeCfg) (d : Rec α β) (m : TreeImage α β) (key : α) (value : β) : Option (TreeImage α β × Option Nat) :=
  if m.hdr.root = 0 then
    if isFull m then some (m, none)
    else (add c d m key value).map fun r => (setRoot r.1 r.2, some r.2)
  else
    match insertDescend d m key (m.recs.length + 1) m.hdr.root [(none, none, m.hdr.root)] with
    | none => some (m, none)
    | some (parent, branch, path) =>
      if isFull m then some (m, none)
      else (add c d m key value).map fun r => (rebalance d (updateChild d r.1 parent branch r.2) path, some r.2)

theorem insertO_getD (c : TreeCfg) (d : Rec α β) (m : TreeImage α β) (key : α) (value : β) :
    (insertO c d m key value).getD (m, none) = insert c d m key value := by
  unfold insertO insert
  by_cases hr : m.hdr.root = 0
  · simp only [hr, if_true]
    by_cases hf : isFull m = true
    · simp only [hf, if_true]; rfl
    · simp only [hf, if_false]
      cases add c d m key value <;> rfl
  · simp only [hr, if_false]
    cases insertDescend d m key (m.recs.length + 1) m.hdr.root [(none, none, m.hdr.root)] with
    | none => rfl
    | some r =>
      obtain ⟨parent, branch, path⟩ := r
      simp only []
      by_cases hf : isFull m = true
      · simp only [hf, if_true]; rfl
      · simp only [hf, if_false]
        cases add c d m key value <;> rfl

end Imp
end Stevia
