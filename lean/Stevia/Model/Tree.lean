/-
  Stevia.Model.Tree — executable model of `AVLTree(Mut)` / `U8AVLTree(Mut)`
  (src/collections/avl_tree.rs, u8_avl_tree.rs; the two files are the same text
  modulo the index type, see DESIGN.md §1).

  The state the proofs talk about is *structured*: a binary tree that carries,
  in every node, the storage slot (1-based record index) and the stored height
  register, plus the allocator (free list, cursor `seq`, capacity, size and the
  number of records `slots` in the buffer).  `Stevia.Model.TreeLayout` maps it
  to the registers / bytes of the documented format and decodes it back.

  The Rust code is iterative (descend recording a path, splice, then walk the
  path bottom-up with `rebalance`); the net effect is the recursive
  insert / delete-with-in-order-successor below (DESIGN.md §2.2).  That equality
  is not assumed: the correspondence check compares every byte after every
  transition.
-/
import Stevia.Basic

namespace Stevia

/-- Tree with slot index `i` and stored height register `h` in every node. -/
inductive T (α β : Type) where
  | nil : T α β
  | node (i : Nat) (l : T α β) (k : α) (v : β) (h : Nat) (r : T α β) : T α β
deriving DecidableEq, Repr

namespace T
variable {α β : Type}

/-- What `balance_factor` reads: 0 for SENTINEL, height register + 1 otherwise. -/
def ht : T α β → Nat
  | nil => 0
  | node _ _ _ _ h _ => h + 1

/-- The record index stored in a parent's register (0 = SENTINEL). -/
def slot : T α β → Nat
  | nil => 0
  | node i _ _ _ _ _ => i

def left : T α β → T α β
  | nil => nil
  | node _ l _ _ _ _ => l

def right : T α β → T α β
  | nil => nil
  | node _ _ _ _ _ r => r

/-- `update_height`: the register becomes `max` of the children's `ht`. -/
def mk (i : Nat) (l : T α β) (k : α) (v : β) (r : T α β) : T α β :=
  node i l k v (max (ht l) (ht r)) r

/-- `left_rotate(index)`. -/
def rotL : T α β → T α β
  | node i l k v _ (node j rl rk rv _ rr) => mk j (mk i l k v rl) rk rv rr
  | t => t

/-- `right_rotate(index)`. -/
def rotR : T α β → T α β
  | node i (node j ll lk lv _ lr) k v _ r => mk j ll lk lv (mk i lr k v r)
  | t => t

/-- One iteration of the `rebalance` loop at a path node. -/
def rebal (i : Nat) (l : T α β) (k : α) (v : β) (r : T α β) : T α β :=
  if ht r + 1 < ht l then
    rotR (mk i (if ht l.left < ht l.right then rotL l else l) k v r)
  else if ht l + 1 < ht r then
    rotL (mk i l k v (if ht r.right < ht r.left then rotR r else r))
  else mk i l k v r

variable [LinOrd α]

/-- Net effect of `insert` for an absent key: new leaf in slot `idx`, every node
    of the search path rebalanced on the way back. -/
def ins (idx : Nat) (k : α) (v : β) : T α β → T α β
  | nil => node idx nil k v 0 nil
  | node i l k' v' h r =>
    if k < k' then rebal i (ins idx k v l) k' v' r
    else if k' < k then rebal i l k' v' (ins idx k v r)
    else node i l k' v' h r

/-- Detach the leftmost node of the tree `node i l k v _ r`; every node of the
    left spine is rebalanced (the `inner_path` of `remove`). -/
def popMin (i : Nat) (l : T α β) (k : α) (v : β) (r : T α β) : (Nat × α × β) × T α β :=
  match l with
  | nil => ((i, k, v), r)
  | node li ll lk lv _ lr =>
    let p := popMin li ll lk lv lr
    (p.1, rebal i p.2 k v r)

/-- Net effect of `remove` for a present key. -/
def del (k : α) : T α β → T α β
  | nil => nil
  | node i l k' v' _ r =>
    if k < k' then rebal i (del k l) k' v' r
    else if k' < k then rebal i l k' v' (del k r)
    else
      match l, r with
      | nil, nil => nil
      | node li ll lk lv lh lr, nil => node li ll lk lv lh lr
      | nil, node ri rl rk rv rh rr => node ri rl rk rv rh rr
      | node li ll lk lv lh lr, node ri rl rk rv _ rr =>
        let p := popMin ri rl rk rv rr
        rebal p.1.1 (node li ll lk lv lh lr) p.1.2.1 p.1.2.2 p.2

/-- `find`: slot and value of the entry with key `k`. -/
def find (k : α) : T α β → Option (Nat × β)
  | nil => none
  | node i l k' v' _ r =>
    if k < k' then find k l else if k' < k then find k r else some (i, v')

/-- The keys the search for `k` is compared with, in order. -/
def path (k : α) : T α β → List α
  | nil => []
  | node _ l k' _ _ r =>
    k' :: (if k < k' then path k l else if k' < k then path k r else [])

/-- `get_mut` followed by a write of `v`. -/
def setVal (k : α) (v : β) : T α β → T α β
  | nil => nil
  | node i l k' v' h r =>
    if k < k' then node i (setVal k v l) k' v' h r
    else if k' < k then node i l k' v' h (setVal k v r)
    else node i l k' v h r

omit [LinOrd α] in
/-- `lowest`. -/
def minKey : T α β → Option α
  | nil => none
  | node _ nil k _ _ _ => some k
  | node _ l _ _ _ _ => minKey l

end T

namespace T
variable {α β : Type}

/-- In-order list of (slot, key, value). -/
def toList : T α β → List (Nat × α × β)
  | nil => []
  | node i l k v _ r => toList l ++ (i, k, v) :: toList r

def size : T α β → Nat
  | nil => 0
  | node _ l _ _ _ r => size l + 1 + size r

/-- True height (longest root-to-leaf path, in nodes). -/
def height : T α β → Nat
  | nil => 0
  | node _ l _ _ _ r => max (height l) (height r) + 1

end T

/-- Index-width configuration: `W` is the largest index value (255 / 2^32-1);
    `wrap` says the cursor is incremented with wrapping arithmetic (the u8
    variant) rather than checked arithmetic. -/
structure TreeCfg where
  W : Nat
  wrap : Bool
deriving Repr

def cfgU8 : TreeCfg := { W := 255, wrap := true }
def cfgU32 : TreeCfg := { W := 4294967295, wrap := false }

/-- Whole state of a tree buffer. `seq` is the *logical* cursor (its register is
    `seq % (W+1)`); `free` is the free list, head first; `slots` is the number of
    records in the buffer. -/
structure Tree (α β : Type) where
  root : T α β
  size : Nat
  cap : Nat
  free : List Nat
  seq : Nat
  slots : Nat
deriving DecidableEq, Repr

namespace Tree
variable {α β : Type}

/-- `initialize(capacity)` over a zero-filled buffer with `slots` records. -/
def init (slots cap : Nat) : Tree α β :=
  { root := .nil, size := 0, cap := cap, free := [], seq := 1, slots := slots }

/-- An all-zero buffer (never initialized) with `slots` records. -/
def zero (slots : Nat) : Tree α β :=
  { root := .nil, size := 0, cap := 0, free := [], seq := 0, slots := slots }

def len (s : Tree α β) : Nat := s.size
def capacity (s : Tree α β) : Nat := s.cap
def isFull (s : Tree α β) : Bool := s.size ≥ s.cap
def isEmpty (s : Tree α β) : Bool := s.size == 0
def lowest (s : Tree α β) : Option α := s.root.minKey

/-- `from_bytes_mut`: the only thing opening mutably ever does is raise the
    capacity to the number of records (`nodes.len() as uN`). -/
def openMut (c : TreeCfg) (s : Tree α β) : Tree α β :=
  if s.slots > s.cap then { s with cap := s.slots % (c.W + 1) } else s

/-- The buffer is extended by `n` zero-filled records (no handle is open). -/
def extend (n : Nat) (s : Tree α β) : Tree α β := { s with slots := s.slots + n }

/-- `add`: take a slot from the free list, else from the cursor. -/
def alloc (c : TreeCfg) (s : Tree α β) : Except Fault (Tree α β × Nat) :=
  match s.free with
  | i :: rest =>
    if i = 0 then .error .overflow            -- `node!(nodes, 0)`: 0 - 1
    else if i > s.slots then .error .oob
    else if s.size + 1 > c.W then .error .overflow
    else .ok ({ s with free := rest, size := s.size + 1 }, i)
  | [] =>
    if s.seq = 0 then .error .overflow        -- `sequence - 1`
    else if s.seq - 1 = s.cap then .error .panic  -- "tree is full"
    else if !c.wrap && s.seq + 1 > c.W then .error .overflow
    else if s.seq > s.slots then .error .oob
    else if s.size + 1 > c.W then .error .overflow
    else .ok ({ s with seq := s.seq + 1, size := s.size + 1 }, s.seq)

variable [LinOrd α]

def get (s : Tree α β) (k : α) : Option β := (s.root.find k).map (·.2)
def contains (s : Tree α β) (k : α) : Bool := (s.root.find k).isSome

/-- `insert`: `None` for a present key or a full tree, else the slot used. -/
def insert (c : TreeCfg) (s : Tree α β) (k : α) (v : β) :
    Except Fault (Tree α β × Option Nat) :=
  if (s.root.find k).isSome then .ok (s, none)
  else if s.isFull then .ok (s, none)
  else
    match alloc c s with
    | .error e => .error e
    | .ok (s', i) => .ok ({ s' with root := s'.root.ins i k v }, some i)

/-- `remove`: the stored value, the slot goes to the head of the free list. -/
def remove (s : Tree α β) (k : α) : Except Fault (Tree α β × Option β) :=
  match s.root.find k with
  | none => .ok (s, none)
  | some (i, v) =>
    if s.size = 0 then .error .overflow
    else .ok ({ s with root := s.root.del k, free := i :: s.free, size := s.size - 1 }, some v)

/-- `get_mut(k)` and, if it is `Some`, a write of `v` through the reference. -/
def update (s : Tree α β) (k : α) (v : β) : Tree α β × Bool :=
  match s.root.find k with
  | none => (s, false)
  | some _ => ({ s with root := s.root.setVal k v }, true)

end Tree

end Stevia
