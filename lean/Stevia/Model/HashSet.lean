/-
  Stevia.Model.HashSet — executable model of `HashSet(Mut)`
  (src/collections/hash_set.rs).

  Structured state: one chain per record index (`chains[b]` is bucket `b`'s
  chain, head first, as `(slot, value)` pairs), plus the same slot allocator
  as the trees (free list threaded through the `next` register, cursor `seq`).
  The hash function is a parameter: every theorem holds for every `hash`.
-/
import Stevia.Basic

namespace Stevia

structure HSet (β : Type) where
  chains : List (List (Nat × β))
  size : Nat
  cap : Nat
  free : List Nat
  seq : Nat
deriving DecidableEq, Repr

namespace HSet
variable {β : Type}

/-- Number of records in the buffer. -/
def slots (s : HSet β) : Nat := s.chains.length

/-- `initialize(capacity)` on a zero-filled buffer of `slots` records. -/
def init (slots cap : Nat) : HSet β :=
  { chains := List.replicate slots [], size := 0, cap := cap, free := [], seq := 1 }

/-- An all-zero buffer. -/
def zero (slots : Nat) : HSet β :=
  { chains := List.replicate slots [], size := 0, cap := 0, free := [], seq := 0 }

def capacity (s : HSet β) : Nat := s.cap
def isFull (s : HSet β) : Bool := s.size ≥ s.cap
def isEmpty (s : HSet β) : Bool := s.size == 0

/-- `hasher.finish() as u32 % capacity`. -/
def bucket (hash : β → Nat) (s : HSet β) (v : β) : Nat := (hash v % 4294967296) % s.cap

/-- All members, in iteration order (buckets `0..cap`, each chain head first). -/
def iter (s : HSet β) : List β := ((s.chains.take s.cap).flatMap id).map (·.2)

/-- All members (every chain). -/
def members (s : HSet β) : List β := (s.chains.flatMap id).map (·.2)

def liveSlots (s : HSet β) : List Nat := (s.chains.flatMap id).map (·.1)

/-- `add_node`: take a slot from the free list, else from the cursor. -/
def alloc (s : HSet β) : Except Fault (HSet β × Nat) :=
  match s.free with
  | i :: rest =>
    if i = 0 then .error .overflow
    else if i > s.slots then .error .oob
    else if s.size + 1 > 4294967295 then .error .overflow
    else .ok ({ s with free := rest, size := s.size + 1 }, i)
  | [] =>
    if s.seq = 0 then .error .overflow
    else if s.seq - 1 = s.cap then .error .panic
    else if s.seq + 1 > 4294967295 then .error .overflow
    else if s.seq > s.slots then .error .oob
    else if s.size + 1 > 4294967295 then .error .overflow
    else .ok ({ s with seq := s.seq + 1, size := s.size + 1 }, s.seq)

variable [DecidableEq β]

def chainHas (ch : List (Nat × β)) (v : β) : Bool := ch.any (fun e => e.2 == v)

/-- Remove the first entry holding `v` from a chain; returns its slot. -/
def chainRemove (v : β) : List (Nat × β) → Option (Nat × List (Nat × β))
  | [] => none
  | e :: rest =>
    if e.2 = v then some (e.1, rest)
    else match chainRemove v rest with
      | some (i, rest') => some (i, e :: rest')
      | none => none

/-- `contains`. -/
def contains (hash : β → Nat) (s : HSet β) (v : β) : Except Fault Bool :=
  if s.size = 0 then .ok false
  else if s.cap = 0 then .error .divZero
  else
    match s.chains[s.bucket hash v]? with
    | none => .error .oob
    | some ch => .ok (chainHas ch v)

/-- `insert`. -/
def insert (hash : β → Nat) (s : HSet β) (v : β) : Except Fault (HSet β × Bool) :=
  if s.size = s.cap then .ok (s, false)
  else if s.cap = 0 then .error .divZero
  else
    let b := s.bucket hash v
    match s.chains[b]? with
    | none => .error .oob
    | some ch =>
      if chainHas ch v then .ok (s, false)
      else match s.alloc with
        | .error e => .error e
        | .ok (s', i) => .ok ({ s' with chains := s'.chains.set b ((i, v) :: ch) }, true)

/-- `remove`. -/
def remove (hash : β → Nat) (s : HSet β) (v : β) : Except Fault (HSet β × Bool) :=
  if s.size = 0 then .ok (s, false)
  else if s.cap = 0 then .error .divZero
  else
    let b := s.bucket hash v
    match s.chains[b]? with
    | none => .error .oob
    | some ch =>
      match chainRemove v ch with
      | none => .ok (s, false)
      | some (i, ch') =>
        .ok ({ s with chains := s.chains.set b ch', free := i :: s.free, size := s.size - 1 }, true)

end HSet

/-! ### SipHash-1-3 with zero keys (`DefaultHasher::new()`), executable only -/

namespace Sip

def rotl (x : UInt64) (b : UInt64) : UInt64 := (x <<< b) ||| (x >>> (64 - b))

structure St where
  v0 : UInt64
  v1 : UInt64
  v2 : UInt64
  v3 : UInt64

def round (s : St) : St :=
  let v0 := s.v0 + s.v1
  let v1 := rotl s.v1 13
  let v1 := v1 ^^^ v0
  let v0 := rotl v0 32
  let v2 := s.v2 + s.v3
  let v3 := rotl s.v3 16
  let v3 := v3 ^^^ v2
  let v0 := v0 + v3
  let v3 := rotl v3 21
  let v3 := v3 ^^^ v0
  let v2 := v2 + v1
  let v1 := rotl v1 17
  let v1 := v1 ^^^ v2
  let v2 := rotl v2 32
  { v0 := v0, v1 := v1, v2 := v2, v3 := v3 }

def leWord (bs : List UInt8) : UInt64 :=
  (bs.zipIdx.foldl (fun acc (b, i) => acc ||| (b.toUInt64 <<< (8 * i).toUInt64)) 0)

def compress (s : St) (m : UInt64) : St :=
  let s := { s with v3 := s.v3 ^^^ m }
  let s := round s
  { s with v0 := s.v0 ^^^ m }

/-- SipHash-1-3 of a byte string with keys (0, 0). -/
def hash13 (msg : List UInt8) : UInt64 := Id.run do
  let mut s : St := { v0 := 0x736f6d6570736575, v1 := 0x646f72616e646f6d,
                      v2 := 0x6c7967656e657261, v3 := 0x7465646279746573 }
  let n := msg.length
  let full := n / 8
  for j in [0:full] do
    s := compress s (leWord ((msg.drop (8 * j)).take 8))
  let tail := msg.drop (8 * full)
  let last : UInt64 := leWord tail ||| ((n % 256).toUInt64 <<< 56)
  s := compress s last
  s := { s with v2 := s.v2 ^^^ 0xff }
  s := round s
  s := round s
  s := round s
  return s.v0 ^^^ s.v1 ^^^ s.v2 ^^^ s.v3

end Sip

end Stevia
