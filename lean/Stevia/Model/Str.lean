/-
  Stevia.Model.Str — executable model of the prefixed strings
  (`U8PrefixStr(Mut)`, `U16PrefixStr(Mut)`, src/types/prefix_str.rs), of
  `PodStr<N>` (src/pod/pod_str.rs) and of `PodBool`, `PodOption`,
  `ZeroCopy::load/load_mut` (src/pod/*.rs, src/lib.rs).

  Buffers are `ByteArray`s, Rust `&str` arguments are Lean `String`s (valid
  UTF-8 by construction, like `&str`); validity is core Lean's
  `ByteArray.validateUTF8` / `ByteArray.IsValidUTF8`.
-/
import Stevia.Basic
import Stevia.Model.Bytes

namespace Stevia

def zerosBA (n : Nat) : ByteArray := ⟨Array.replicate n 0⟩

def leBA (w x : Nat) : ByteArray := ⟨(leEnc w x).toArray⟩

def leOfBA (b : ByteArray) : Nat := leDec b.toList

/-- Largest char boundary of `s` that is `≤ n` (Rust: `while !s.is_char_boundary(n) { n -= 1 }`). -/
def floorBoundary (s : String) : Nat → Nat
  | 0 => 0
  | n + 1 => if (String.Pos.Raw.mk (n + 1)).isValid s then n + 1 else floorBoundary s n

namespace PStr

/-- The length recorded in the `w`-byte little-endian prefix. -/
def recLen (w : Nat) (buf : ByteArray) : Nat := leOfBA (buf.extract 0 w)

/-- The payload: `recLen` bytes after the prefix. -/
def payload (w : Nat) (buf : ByteArray) : ByteArray := buf.extract w (w + recLen w buf)

/-- `…Mut::new(data)`: records `min(len - w, P)` in the prefix, then validates the payload.
    Returns the buffer afterwards and whether the result is `Ok`. A buffer shorter than the
    prefix panics (slice index). -/
def new (w P : Nat) (buf : ByteArray) : Except Fault (ByteArray × Bool) :=
  if buf.size < w then .error .oob
  else
    let len := min (buf.size - w) P
    let buf' := leBA w len ++ buf.extract w buf.size
    .ok (buf', (buf'.extract w (w + len)).validateUTF8)

/-- `…::from_bytes(bytes)`: `Ok(payload)` iff the payload is valid UTF-8; panics when the
    buffer is shorter than the prefix or than the recorded length. -/
def fromBytes (w : Nat) (buf : ByteArray) : Except Fault (Option ByteArray) :=
  if buf.size < w then .error .oob
  else if buf.size - w < recLen w buf then .error .oob
  else
    let p := payload w buf
    .ok (if p.validateUTF8 then some p else none)

/-- `copy_from_str(s)` through a handle whose string length is the recorded length. -/
def copyFromStr (w : Nat) (buf : ByteArray) (s : String) : ByteArray :=
  let len := recLen w buf
  let n := floorBoundary s (min len s.utf8ByteSize)
  buf.extract 0 w ++ s.toByteArray.extract 0 n ++ zerosBA (len - n) ++ buf.extract (w + len) buf.size

/-- `size()`. -/
def size (w : Nat) (buf : ByteArray) : Nat := w + recLen w buf

end PStr

namespace PodStr

/-- `PodStr::<N>::from(s)` / `copy_from_str(s)`: the first `min(len, N)` bytes, then zeros. -/
def ofBytes (N : Nat) (src : ByteArray) : ByteArray :=
  src.extract 0 (min src.size N) ++ zerosBA (N - min src.size N)

def ofStr (N : Nat) (s : String) : ByteArray := ofBytes N s.toByteArray

/-- Index of the first NUL, or the size. -/
def endIndex (v : ByteArray) : Nat := (v.toList.findIdx? (· == 0)).getD v.size

/-- The text: everything before the first NUL. -/
def text (v : ByteArray) : ByteArray := v.extract 0 (endIndex v)

/-- `as_str()`: `Ok(text)` iff the text is valid UTF-8. -/
def asStr (v : ByteArray) : Option ByteArray := if (text v).validateUTF8 then some (text v) else none

/-- `Display`: renders the text (for valid text exactly it; the lossy rendering of invalid text
    is not modelled). -/
def display (v : ByteArray) : Option ByteArray := asStr v

end PodStr

namespace Pod

/-- `bool::from(PodBool)`. -/
def boolDecode (b : UInt8) : Bool := b != 0

/-- `PodBool::from(bool)`. -/
def boolEncode (x : Bool) : UInt8 := if x then 1 else 0

/-- `ZeroCopy::load(data)`: a view of exactly the first `n = size_of` bytes; panics if shorter. -/
def load (n : Nat) (data : ByteArray) : Except Fault ByteArray :=
  if data.size < n then .error .oob else .ok (data.extract 0 n)

/-- Writing `v` (`n` bytes) through `load_mut(data)`. -/
def storeMut (n : Nat) (data : ByteArray) (v : ByteArray) : Except Fault ByteArray :=
  if data.size < n then .error .oob else .ok (v.extract 0 n ++ data.extract n data.size)

/-- `PodOption::value()`: `Some(inner)` exactly when the inner value reports itself as some. -/
def optValue (isSome : ByteArray → Bool) (inner : ByteArray) : Option ByteArray :=
  if isSome inner then some inner else none

end Pod

end Stevia
