/-
  Stevia.Model.Fuel — fuel-bounded iteration for `do` notation.

  The Rust→Lean translator (tools/rust2lean.py) renders `while c { b }` as
  `for _ in Fuel.mk fuel do if ¬c then break; b` and `loop { b }` as the same without the test; `fuel` is the number
  of records + 1, which bounds every loop of the crate on well-formed images.  `Fuel.forIn` is plain structural
  recursion on the fuel, so the generated loops unfold by `rfl`/`simp only [Fuel.forIn]`.
-/
namespace Stevia

structure Fuel where
  n : Nat

/-- `n` iterations at most; `ForInStep.done` leaves the loop. -/
def Fuel.forIn {m : Type → Type} [Monad m] {σ : Type} (f : Unit → σ → m (ForInStep σ)) : Nat → σ → m σ
  | 0, s => pure s
  | n + 1, s => do
    match ← f () s with
    | .done s' => pure s'
    | .yield s' => Fuel.forIn f n s'

instance {m : Type → Type} [Monad m] : ForIn m Fuel Unit where
  forIn := fun fu init f => Fuel.forIn f fu.n init

end Stevia
