/-
  Stevia.Model.HashSetLayout — the documented hash-set format: header words
  `size, capacity, free_list_head, sequence` (32-bit) and records
  `{bucket head, next, value}`; record `b` (0-based) holds bucket `b`'s chain
  head and is storage slot `b + 1`.
-/
import Stevia.Model.HashSet
import Stevia.Model.Bytes
import Stevia.Model.TreeLayout
import Stevia.Model.TreeCheck

namespace Stevia

structure HRec (β : Type) where
  bucket : Nat
  next : Nat
  val : β
deriving DecidableEq, Repr

structure HHdr where
  size : Nat
  cap : Nat
  flh : Nat
  seq : Nat
deriving DecidableEq, Repr

structure HImage (β : Type) where
  hdr : HHdr
  recs : List (HRec β)
deriving DecidableEq, Repr

/-- Successor register of slot `i` inside one chain (0 terminates a chain). -/
def chainNext {β : Type} : List (Nat × β) → Nat → Option (Nat × β)
  | [], _ => none
  | [e], i => if i = e.1 then some (0, e.2) else none
  | e :: e' :: rest, i => if i = e.1 then some (e'.1, e.2) else chainNext (e' :: rest) i

/-- Look slot `i` up in all chains: its `next` register and value. -/
def chainsNext {β : Type} : List (List (Nat × β)) → Nat → Option (Nat × β)
  | [], _ => none
  | ch :: rest, i =>
    match chainNext ch i with
    | some r => some r
    | none => chainsNext rest i

namespace HSet
variable {β : Type}

def flhReg (s : HSet β) : Nat :=
  match s.free with
  | i :: _ => i
  | [] => s.seq

def hdr (s : HSet β) : HHdr := { size := s.size, cap := s.cap, flh := s.flhReg, seq := s.seq }

def headOf (ch : List (Nat × β)) : Nat :=
  match ch with
  | [] => 0
  | e :: _ => e.1

/-- Record `j` (0-based; storage slot `j + 1`). -/
def recAt (vd : β) (s : HSet β) (j : Nat) : HRec β :=
  let bucket := headOf (s.chains.getD j [])
  match chainsNext s.chains (j + 1) with
  | some (nxt, v) => { bucket := bucket, next := nxt, val := v }
  | none =>
    match freeNext s.seq s.free (j + 1) with
    | some nxt => { bucket := bucket, next := nxt, val := vd }
    | none => { bucket := bucket, next := 0, val := vd }

def image (vd : β) (s : HSet β) : HImage β :=
  { hdr := s.hdr, recs := (List.range s.slots).map (s.recAt vd) }

end HSet

namespace HImage
variable {β : Type}

/-- Follow one chain from slot `i`; `fuel` bounds its length. -/
def walkChain (img : HImage β) : Nat → Nat → Option (List (Nat × β))
  | _, 0 => some []
  | 0, _ + 1 => none
  | fuel + 1, i + 1 =>
    match img.recs[i]? with
    | none => none
    | some rc => (walkChain img fuel rc.next).map ((i + 1, rc.val) :: ·)

def walkFree (img : HImage β) (term : Nat) : Nat → Nat → Option (List Nat)
  | fuel, i =>
    if i = term then some []
    else match fuel with
      | 0 => none
      | fuel + 1 =>
        if i = 0 then none
        else match img.recs[i - 1]? with
          | none => none
          | some rc => (walkFree img term fuel rc.next).map (i :: ·)

def decodeCore (img : HImage β) : Option (HSet β) :=
  let n := img.recs.length
  match img.recs.mapM (fun rc => img.walkChain n rc.bucket), img.walkFree img.hdr.seq (n + 1) img.hdr.flh with
  | some chains, some fl =>
    some { chains := chains, size := img.hdr.size, cap := img.hdr.cap, free := fl, seq := img.hdr.seq }
  | _, _ => none

/-- The independent decoder: accepts exactly the images that are the layout of
    the state it rebuilds. -/
def decode [DecidableEq β] (vd : β) (img : HImage β) : Option (HSet β) :=
  match decodeCore img with
  | some s => if s.image vd = img then some s else none
  | none => none

end HImage

/-! ### Bytes -/

structure HFmt where
  val : Scalar
deriving Repr

namespace HFmt

def hdrSize (_ : HFmt) : Nat := 16
def valOff (f : HFmt) : Nat := alignUp 8 f.val.align
def recSize (f : HFmt) : Nat := alignUp (f.valOff + f.val.size) (max 4 f.val.align)
def dataLen (f : HFmt) (cap : Nat) : Nat := f.hdrSize + cap * f.recSize

def encRec (f : HFmt) (rc : HRec Nat) : Bytes :=
  let a := leEnc 4 rc.bucket ++ leEnc 4 rc.next ++ zeros (f.valOff - 8) ++ leEnc f.val.size rc.val
  a ++ zeros (f.recSize - (f.valOff + f.val.size))

def encHdr (_ : HFmt) (h : HHdr) : Bytes :=
  leEnc 4 h.size ++ leEnc 4 h.cap ++ leEnc 4 h.flh ++ leEnc 4 h.seq

def toBytes (f : HFmt) (img : HImage Nat) : Bytes :=
  f.encHdr img.hdr ++ img.recs.flatMap f.encRec

def decHdr (_ : HFmt) (bs : Bytes) : HHdr :=
  let w := fun j => leDec (TreeFmt.slice bs (j * 4) 4)
  { size := w 0, cap := w 1, flh := w 2, seq := w 3 }

def decRec (f : HFmt) (bs : Bytes) : HRec Nat :=
  { bucket := leDec (TreeFmt.slice bs 0 4), next := leDec (TreeFmt.slice bs 4 4),
    val := leDec (TreeFmt.slice bs f.valOff f.val.size) }

def ofBytes (f : HFmt) (bs : Bytes) : Option (HImage Nat) :=
  if bs.length < f.hdrSize then none
  else if f.recSize = 0 then none
  else if (bs.length - f.hdrSize) % f.recSize ≠ 0 then none
  else
    let img : HImage Nat :=
      { hdr := f.decHdr (bs.take f.hdrSize),
        recs := (TreeFmt.chunks f.recSize (bs.drop f.hdrSize)).map f.decRec }
    if f.toBytes img = bs then some img else none

end HFmt

/-! ### Executable checks and the driver step -/

namespace HSet
variable {β : Type}

def nodupB : List Nat → Bool
  | [] => true
  | a :: rest => !rest.contains a && nodupB rest

def allocB (s : HSet β) : Bool :=
  let used := s.liveSlots ++ s.free
  nodupB used && used.all (fun i => decide (1 ≤ i ∧ i < s.seq)) &&
    decide (used.length + 1 = s.seq) && decide (s.seq ≤ s.cap + 1) &&
    decide (s.cap ≤ s.slots) && decide (s.size = s.liveSlots.length)

/-- Every value sits in the chain of its bucket, no value twice. -/
def placedB [DecidableEq β] (hash : β → Nat) (s : HSet β) : Bool :=
  (s.chains.zipIdx.all fun (ch, b) => ch.all fun e => decide (b < s.cap) && decide (s.bucket hash e.2 = b)) &&
    (let ms := s.members; ms.zipIdx.all fun (v, j) => !(ms.take j).contains v)

end HSet

abbrev HSetS := HSet Nat

/-- Hash of a value as the Rust type hashes it. `kind`: 1/2/4/8/16 = unsigned
    integer of that many bytes; 32 = a 32-byte array; (`write_uN`, native-endian); 0 = the harness's
    weak-hash type (`write_u8(v & 1)`). -/
def hashOf (kind : Nat) (v : Nat) : Nat :=
  if kind = 0 then (Sip.hash13 [UInt8.ofNat (v % 2)]).toNat
  else if kind = 32 then
    -- `[u8; 32]` hashes as a slice: length prefix (`write_usize(32)`), then the bytes
    (Sip.hash13 (leEnc 8 32 ++ leEnc 32 v)).toNat
  else if kind > 100 then
    -- `[u8; n]` for `kind = 100 + n`
    (Sip.hash13 (leEnc 8 (kind - 100) ++ leEnc (kind - 100) v)).toNat
  else (Sip.hash13 (leEnc kind v)).toNat

def hsetStep (hk : Nat) (s : HSetS) (op : String) (args : List Int) : Option (HSetS × String) :=
  let boolStr := fun (b : Bool) => if b then "true" else "false"
  let h := hashOf hk
  match op, args with
  | "init", [cap] => some (HSet.init s.slots cap.toNat, "-")
  | "open", [] => some (s, "-")
  | "ins", [v] =>
    match s.insert h v.toNat with
    | .ok (s', r) => some (s', boolStr r)
    | .error e => some (s, faultStr e)
  | "rem", [v] =>
    match s.remove h v.toNat with
    | .ok (s', r) => some (s', boolStr r)
    | .error e => some (s, faultStr e)
  | "has", [v] =>
    match s.contains h v.toNat with
    | .ok r => some (s, boolStr r)
    | .error e => some (s, faultStr e)
  | "rhas", [v] =>
    match s.contains h v.toNat with
    | .ok r => some (s, boolStr r)
    | .error e => some (s, faultStr e)
  | "size", [] => some (s, toString s.size)
  | "rsize", [] => some (s, toString s.size)
  | "cap", [] => some (s, toString s.cap)
  | "rcap", [] => some (s, toString s.cap)
  | "full", [] => some (s, boolStr s.isFull)
  | "rfull", [] => some (s, boolStr s.isFull)
  | "empty", [] => some (s, boolStr s.isEmpty)
  | "rempty", [] => some (s, boolStr s.isEmpty)
  | "iter", [] => some (s, "[" ++ ",".intercalate (s.iter.map toString) ++ "]")
  | "fill", [base, lim] =>
    let rec go (fuel : Nat) (st : HSetS) (v : Nat) (n : Nat) : String :=
      match fuel with
      | 0 => toString n
      | fuel + 1 =>
        match st.insert h v with
        | .error e => faultStr e
        | .ok (_, false) => toString n
        | .ok (st', true) => go fuel st' (v + 1) (n + 1)
    some (s, go lim.toNat s base.toNat 0)
  | _, _ => none

end Stevia
