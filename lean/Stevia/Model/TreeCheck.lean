/-
  Stevia.Model.TreeCheck — executable (Bool-valued) well-formedness checks on a
  decoded tree state, and the string-level step function used by the driver.
  The `Prop` invariants the theorems use are in Stevia/Proofs; the two are
  connected there.
-/
import Stevia.Model.TreeLayout

namespace Stevia

namespace T
variable {α β : Type}

/-- Keys strictly ascending in-order. -/
def sortedB [LinOrd α] : List α → Bool
  | [] => true
  | [_] => true
  | a :: b :: rest => decide (a < b) && sortedB (b :: rest)

def keys (t : T α β) : List α := t.toList.map (·.2.1)

/-- Balanced, and every height register is exact. -/
def balB : T α β → Bool
  | nil => true
  | node _ l _ _ h r =>
    balB l && balB r && decide (ht l ≤ ht r + 1) && decide (ht r ≤ ht l + 1) &&
      decide (h = max (ht l) (ht r))

end T

namespace Tree
variable {α β : Type}

def nodupB : List Nat → Bool
  | [] => true
  | a :: rest => !rest.contains a && nodupB rest

/-- Allocator invariant, executable. -/
def allocB (c : TreeCfg) (s : Tree α β) : Bool :=
  let used := s.root.slots ++ s.free
  nodupB used && used.all (fun i => decide (1 ≤ i ∧ i < s.seq)) &&
    decide (used.length + 1 = s.seq) && decide (s.seq ≤ s.cap + 1) &&
    decide (s.cap ≤ s.slots) && decide (s.slots ≤ c.W) && decide (s.size = s.root.size)

end Tree

/-! ### Driver-side step (keys `Int`, values `Nat`) -/

abbrev TreeS := Tree Int Nat

def optStr {γ : Type} (f : γ → String) : Option γ → String
  | none => "none"
  | some x => "some " ++ f x

def faultStr (f : Fault) : String := "fault " ++ f.name

/-- `fill base lim`: insert fresh keys `base, base+1, …` until refused; count. -/
def fillCount (c : TreeCfg) : Nat → TreeS → Int → Nat → Except Fault Nat
  | 0, _, _, n => .ok n
  | fuel + 1, s, key, n =>
    match s.insert c key (1 + n) with
    | .error e => .error e
    | .ok (_, none) => .ok n
    | .ok (s', some _) => fillCount c fuel s' (key + 1) (n + 1)

/-- One operation of the line protocol. `none`: unknown operation. -/
def treeStep (c : TreeCfg) (s : TreeS) (op : String) (args : List Int) : Option (TreeS × String) :=
  let m := s.openMut c
  let boolStr := fun (b : Bool) => if b then "true" else "false"
  match op, args with
  | "init", [cap] => some (Tree.init s.slots cap.toNat, "-")
  | "open", [] => some (m, "-")
  | "ext", [n] => some (s.extend n.toNat, "-")
  | "ins", [k, v] =>
    match m.insert c k v.toNat with
    | .ok (s', r) => some (s', optStr toString r)
    | .error e => some (m, faultStr e)
  | "rem", [k] =>
    match m.remove k with
    | .ok (s', r) => some (s', optStr toString r)
    | .error e => some (m, faultStr e)
  | "get", [k] => some (m, optStr toString (m.get k))
  | "gmq", [k] => some (m, optStr toString (m.get k))
  | "has", [k] => some (m, boolStr (m.contains k))
  | "upd", [k, v] => let r := m.update k v.toNat; some (r.1, boolStr r.2)
  | "low", [] => some (m, optStr toString m.lowest)
  | "len", [] => some (m, toString m.len)
  | "cap", [] => some (m, toString m.capacity)
  | "full", [] => some (m, boolStr m.isFull)
  | "empty", [] => some (m, boolStr m.isEmpty)
  | "rget", [k] => some (s, optStr toString (s.get k))
  | "rhas", [k] => some (s, boolStr (s.contains k))
  | "rlow", [] => some (s, optStr toString s.lowest)
  | "rlen", [] => some (s, toString s.len)
  | "rcap", [] => some (s, toString s.capacity)
  | "rfull", [] => some (s, boolStr s.isFull)
  | "rempty", [] => some (s, boolStr s.isEmpty)
  | "dlen", [_] => some (s, "?")   -- answered by the driver, which knows the byte format
  | "fill", [base, lim] =>
    match fillCount c lim.toNat m base 0 with
    | .ok n => some (m, toString n)
    | .error e => some (m, faultStr e)
  | "initfill", [cap, base, lim] =>
    -- probe on a private copy through ONE handle: `initialize(cap)` (cap may be below the record count), then fill
    match fillCount c lim.toNat (Tree.init s.slots cap.toNat) base 0 with
    | .ok n => some (s, toString n)
    | .error e => some (s, faultStr e)
  | _, _ => none

/-- Keys the operation compares the sought key with (for the C06 trace tie). -/
def treeTrace (s : TreeS) (op : String) (args : List Int) : Option (List Int) :=
  match op, args with
  | "ins", [k, _] => some (s.root.path k)
  | "rem", [k] => some (s.root.path k)
  | "get", [k] => some (s.root.path k)
  | "gmq", [k] => some (s.root.path k)
  | "has", [k] => some (s.root.path k)
  | "upd", [k, _] => some (s.root.path k)
  | "rget", [k] => some (s.root.path k)
  | "rhas", [k] => some (s.root.path k)
  | _, _ => none

end Stevia
