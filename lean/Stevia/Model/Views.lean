/-
  Stevia.Model.Views — how every collection handle is cut out of the caller's buffer.
  `H` = size of the header (the allocator words, resp. the length prefix), `R` = size of one record (resp. one value).
  A buffer is accepted exactly when it is at least a header long and the remainder is a whole number of records; the
  handle then consists of the first `H` bytes and all the rest — nothing is derived from, or kept beside, the bytes.
  Core only.
-/
namespace Stevia

/-- `bytemuck::cast_slice` from bytes to records of `R` bytes: the length must be a multiple of `R`
    (a zero-sized record type accepts only the empty slice). -/
def castOk (R n : Nat) : Prop := if R = 0 then n = 0 else n % R = 0

instance (R n : Nat) : Decidable (castOk R n) := by unfold castOk; exact inferInstance

namespace View

/-- The two parts of an accepted buffer. -/
def split (H R : Nat) (bytes : ByteArray) : Option (ByteArray × ByteArray) :=
  if H ≤ bytes.size ∧ castOk R (bytes.size - H) then
    some (bytes.extract 0 H, bytes.extract H bytes.size)
  else none

/-- `data_len(capacity)`. -/
def dataLen (H R cap : Nat) : Nat := H + cap * R

/-- The word store behind `get_field`/`get_register`: the selected word (indexing panics outside the array). -/
def getWord (ws : List Nat) (i : Nat) : Option Nat := ws[i]?

/-- … and behind `set_field`/`set_register`: the selected word is overwritten, nothing else. -/
def setWord (ws : List Nat) (i v : Nat) : Option (List Nat) :=
  if i < ws.length then some (ws.set i v) else none

end View
end Stevia
