/-
  Stevia.Model.TreeImp — a *literal*, register-level transcription of the iterative algorithms of
  `avl_tree.rs` / `u8_avl_tree.rs` (insert, remove, add, remove_node, rebalance, rotations,
  update_child, update_height, balance_factor, find, lowest), operating directly on the image
  (header words + array of records) the way the Rust code does: indices, a recorded path of
  `(parent, branch, child)` entries, a bottom-up loop over that path.

  It exists to turn the claim "the net effect of the iterative code is the recursive insert /
  delete of `Stevia.Model.Tree`" (DESIGN.md §2.2) into something checked twice: the driver runs this
  model on every real transition as well (kind `imp`), and `Stevia/Proofs/TreeImpEq.lean` proves
  it equal to the functional model.  Loops that Rust writes as `loop`/`while` take fuel (the number
  of records + 1 always suffices on well-formed images).  Out-of-range indices read a default
  record and writes to them are dropped: faults are the business of the functional model.
-/
import Stevia.Model.TreeLayout

namespace Stevia
namespace Imp
variable {α β : Type}

/-- Path entry `(parent, branch, child)`; branch `false` = Left, `true` = Right. -/
abbrev Ancestor := Option Nat × Option Bool × Nat

/-- `node!(nodes, i)` (reading). -/
def rd (d : Rec α β) (m : TreeImage α β) (i : Nat) : Rec α β :=
  if i = 0 then d else m.recs.getD (i - 1) d

/-- `node!(nodes, i)` (writing through `f`). -/
def wr (m : TreeImage α β) (i : Nat) (f : Rec α β → Rec α β) : TreeImage α β :=
  if i = 0 then m else { m with recs := m.recs.modify (i - 1) f }

def setRoot (m : TreeImage α β) (v : Nat) : TreeImage α β := { m with hdr := { m.hdr with root := v } }

/-- `update_height(index)`. -/
def updateHeight (d : Rec α β) (m : TreeImage α β) (index : Nat) : TreeImage α β :=
  let left := (rd d m index).left
  let right := (rd d m index).right
  let height :=
    if left = 0 ∧ right = 0 then 0
    else
      let lh := if left ≠ 0 then (rd d m left).height else 0
      let rh := if right ≠ 0 then (rd d m right).height else 0
      max lh rh + 1
  wr m index fun r => { r with height := height }

/-- `update_child(parent, branch, child)`. -/
def updateChild (d : Rec α β) (m : TreeImage α β) (parent : Nat) (branch : Bool) (child : Nat) : TreeImage α β :=
  let m := wr m parent fun r => if branch then { r with right := child } else { r with left := child }
  updateHeight d m parent

/-- `balance_factor(left, right)`. -/
def balanceFactor (d : Rec α β) (m : TreeImage α β) (left right : Nat) : Int :=
  let lh : Int := if left ≠ 0 then ((rd d m left).height : Int) + 1 else 0
  let rh : Int := if right ≠ 0 then ((rd d m right).height : Int) + 1 else 0
  lh - rh

/-- `left_rotate(index)`: returns the new subtree root. -/
def leftRotate (d : Rec α β) (m : TreeImage α β) (index : Nat) : TreeImage α β × Nat :=
  let right := (rd d m index).right
  let rightLeft := (rd d m right).left
  let m := updateChild d m index true rightLeft
  let m := updateChild d m right false index
  (m, right)

/-- `right_rotate(index)`. -/
def rightRotate (d : Rec α β) (m : TreeImage α β) (index : Nat) : TreeImage α β × Nat :=
  let left := (rd d m index).left
  let leftRight := (rd d m left).right
  let m := updateChild d m index false leftRight
  let m := updateChild d m left true index
  (m, left)

/-- One iteration of the `rebalance` loop. -/
def rebalanceStep (d : Rec α β) (m : TreeImage α β) (e : Ancestor) : TreeImage α β :=
  let (parent, branch, child) := e
  let left := (rd d m child).left
  let right := (rd d m child).right
  let bf := balanceFactor d m left right
  let (m, index) : TreeImage α β × Option Nat :=
    if bf > 1 then
      let ll := (rd d m left).left
      let lr := (rd d m left).right
      let lbf := balanceFactor d m ll lr
      let m :=
        if lbf < 0 then
          let (m1, idx) := leftRotate d m left
          updateChild d m1 child false idx
        else m
      let (m2, idx2) := rightRotate d m child
      (m2, some idx2)
    else if bf < -1 then
      let rl := (rd d m right).left
      let rr := (rd d m right).right
      let rbf := balanceFactor d m rl rr
      let m :=
        if rbf > 0 then
          let (m1, idx) := rightRotate d m right
          updateChild d m1 child true idx
        else m
      let (m2, idx2) := leftRotate d m child
      (m2, some idx2)
    else (updateHeight d m child, none)
  match index with
  | none => m
  | some index =>
    match parent with
    | some p => updateChild d m p (branch.getD false) index
    | none => updateHeight d (setRoot m index) index

/-- `rebalance(path)`: the path is visited in reverse order. -/
def rebalance (d : Rec α β) (m : TreeImage α β) (path : List Ancestor) : TreeImage α β :=
  path.reverse.foldl (rebalanceStep d) m

def isFull (m : TreeImage α β) : Bool := m.hdr.size ≥ m.hdr.cap

/-- `add(key, value)`: `none` where the Rust panics ("tree is full"). Index arithmetic is modulo
    `W + 1` when `wrap` (the 8-bit file's `wrapping_add`). -/
def add (c : TreeCfg) (d : Rec α β) (m : TreeImage α β) (key : α) (value : β) : Option (TreeImage α β × Nat) :=
  let freeNode := m.hdr.flh
  let sequence := m.hdr.seq
  let inc := fun (x : Nat) => if c.wrap then (x + 1) % (c.W + 1) else x + 1
  let dec := fun (x : Nat) => if c.wrap then (x + c.W) % (c.W + 1) else x - 1
  let m? : Option (TreeImage α β) :=
    if freeNode = sequence then
      if dec sequence = m.hdr.cap then none
      else some { m with hdr := { m.hdr with seq := inc sequence, flh := inc sequence } }
    else some { m with hdr := { m.hdr with flh := (rd d m freeNode).height } }
  match m? with
  | none => none
  | some m =>
    let m := wr m freeNode fun r => { r with key := key, val := value, height := 0 }
    some ({ m with hdr := { m.hdr with size := m.hdr.size + 1 } }, freeNode)

/-- `remove_node(index)`: returns the value. -/
def removeNode (d : Rec α β) (m : TreeImage α β) (index : Nat) : TreeImage α β × β :=
  let value := (rd d m index).val
  let flh := m.hdr.flh
  let m := wr m index fun _ => { left := 0, right := 0, height := flh, pad := 0, key := d.key, val := d.val }
  ({ m with hdr := { m.hdr with flh := index, size := m.hdr.size - 1 } }, value)

variable [LinOrd α]

/-- `find(key)`. -/
def find (d : Rec α β) (m : TreeImage α β) (key : α) : Nat → Nat → Option Nat
  | 0, _ => none
  | fuel + 1, node =>
    if node = 0 then none
    else
      let current := (rd d m node).key
      if key < current then find d m key fuel (rd d m node).left
      else if current < key then find d m key fuel (rd d m node).right
      else some node

/-- `lowest()`. -/
def lowestGo (d : Rec α β) (m : TreeImage α β) : Nat → Nat → Nat
  | 0, node => node
  | fuel + 1, node => if (rd d m node).left ≠ 0 then lowestGo d m fuel (rd d m node).left else node

def lowest (d : Rec α β) (m : TreeImage α β) : Option α :=
  if m.hdr.root = 0 then none else some (rd d m (lowestGo d m (m.recs.length + 1) m.hdr.root)).key

/-- The descent loop of `insert`: `none` = key present; otherwise the parent, the branch and the path. -/
def insertDescend (d : Rec α β) (m : TreeImage α β) (key : α) :
    Nat → Nat → List Ancestor → Option (Nat × Bool × List Ancestor)
  | 0, _, _ => none
  | fuel + 1, ref, path =>
    let currentKey := (rd d m ref).key
    let parent := ref
    if key < currentKey then
      let next := (rd d m parent).left
      if next = 0 then some (parent, false, path)
      else insertDescend d m key fuel next (path ++ [(some parent, some false, next)])
    else if currentKey < key then
      let next := (rd d m parent).right
      if next = 0 then some (parent, true, path)
      else insertDescend d m key fuel next (path ++ [(some parent, some true, next)])
    else none

/-- `insert(key, value)`: the image afterwards and the returned index (`none` = refused). A panic of
    `add` ("tree is full" although `is_full()` was false) is reported as refused with the image unchanged. -/
def insert (c : TreeCfg) (d : Rec α β) (m : TreeImage α β) (key : α) (value : β) : TreeImage α β × Option Nat :=
  let root := m.hdr.root
  if root = 0 then
    if isFull m then (m, none)
    else match add c d m key value with
      | none => (m, none)
      | some (m1, r) => (setRoot m1 r, some r)
  else
    match insertDescend d m key (m.recs.length + 1) root [(none, none, root)] with
    | none => (m, none)
    | some (parent, branch, path) =>
      if isFull m then (m, none)
      else match add c d m key value with
        | none => (m, none)
        | some (m1, node) =>
          let m2 := updateChild d m1 parent branch node
          (rebalance d m2 path, some node)

/-- The descent loop of `remove`: the node found (0 = absent) and the path (ending with the node's own entry). -/
def removeDescend (d : Rec α β) (m : TreeImage α β) (key : α) : Nat → Nat → List Ancestor → Nat × List Ancestor
  | 0, node, path => (node, path)
  | fuel + 1, node, path =>
    if node = 0 then (node, path)
    else
      let currentKey := (rd d m node).key
      let parent := node
      if key < currentKey then
        let next := (rd d m parent).left
        removeDescend d m key fuel next (path ++ [(some parent, some false, next)])
      else if currentKey < key then
        let next := (rd d m parent).right
        removeDescend d m key fuel next (path ++ [(some parent, some true, next)])
      else (node, path)

/-- The walk to the leftmost descendant of `right`: (leftmost, its parent or 0, inner path). -/
def leftmostWalk (d : Rec α β) (m : TreeImage α β) : Nat → Nat → Nat → List Ancestor → Nat × Nat × List Ancestor
  | 0, leftmost, parent, inner => (leftmost, parent, inner)
  | fuel + 1, leftmost, parent, inner =>
    let next := (rd d m leftmost).left
    if next ≠ 0 then leftmostWalk d m fuel next leftmost (inner ++ [(some leftmost, some false, next)])
    else (leftmost, parent, inner)

/-- `remove(key)`. -/
def remove (d : Rec α β) (m : TreeImage α β) (key : α) : TreeImage α β × Option β :=
  let root := m.hdr.root
  if root = 0 then (m, none)
  else
    let (nodeIndex, path) := removeDescend d m key (m.recs.length + 1) root [(none, none, root)]
    if nodeIndex = 0 then (m, none)
    else
      let left := (rd d m nodeIndex).left
      let right := (rd d m nodeIndex).right
      let (m1, path1, replacement) : TreeImage α β × List Ancestor × Nat :=
        if left ≠ 0 ∧ right ≠ 0 then
          let (leftmost, leftmostParent, inner) := leftmostWalk d m (m.recs.length + 1) right 0 []
          let ma := if leftmostParent ≠ 0 then updateChild d m leftmostParent false (rd d m leftmost).right else m
          let mb := updateChild d ma leftmost false left
          let mc := if right ≠ leftmost then updateChild d mb leftmost true right else mb
          let last := path.getLast?.getD (none, none, 0)
          let pathInit := path.dropLast
          let md := match last.1 with
            | some p => updateChild d mc p (last.2.1.getD false) leftmost
            | none => mc
          let pa := pathInit ++ [(last.1, last.2.1, leftmost)]
          let pb := if right ≠ leftmost then pa ++ [(some leftmost, some true, right)] else pa
          let pc := pb ++ inner.dropLast
          (md, pc, leftmost)
        else
          let child := if left = 0 ∧ right = 0 then 0 else if left ≠ 0 then left else right
          let last := path.getLast?.getD (none, none, 0)
          let pathInit := path.dropLast
          match last.1 with
          | some p =>
            let ma := updateChild d m p (last.2.1.getD false) child
            let pa := if child ≠ 0 then pathInit ++ [(some p, last.2.1, child)] else pathInit
            (ma, pa, child)
          | none => (m, pathInit, child)
      let m2 := if nodeIndex = m1.hdr.root then setRoot m1 replacement else m1
      let m3 := rebalance d m2 path1
      let (m4, v) := removeNode d m3 nodeIndex
      (m4, some v)

/-- `get_mut(key)` + write. -/
def update (d : Rec α β) (m : TreeImage α β) (key : α) (value : β) : TreeImage α β × Bool :=
  match find d m key (m.recs.length + 1) m.hdr.root with
  | none => (m, false)
  | some i => (wr m i fun r => { r with val := value }, true)

/-- `from_bytes_mut`: raise the capacity to the number of records. -/
def openMut (c : TreeCfg) (m : TreeImage α β) : TreeImage α β :=
  if m.recs.length > m.hdr.cap then { m with hdr := { m.hdr with cap := m.recs.length % (c.W + 1) } } else m

end Imp
end Stevia
