/-
  Stevia.Model.HashSetImpTerm — "the loop leaves by its own condition (or a `return`) before the fuel runs out", for the
  loops of `hash_set.rs` (see Stevia/Model/TreeImpTerm.lean for the rationale), and `insert` with the "set is full"
  panic of `add_node` kept as `none`.
-/
import Stevia.Model.HashSetImp

namespace Stevia
namespace HImp
variable {β : Type} [DecidableEq β]

/-- The `while current != SENTINEL` chain scan of `contains`, `insert` and `remove`. -/
def scanT (d : HRec β) (m : HImage β) (v : β) : Nat → Nat → Bool
  | 0, _ => false
  | fuel + 1, current =>
    if current = 0 then true
    else if (rd d m current).val = v then true
    else scanT d m v fuel (rd d m current).next

omit [DecidableEq β] in
/-- The `while self.node == SENTINEL` bucket skip of the iterator (`cap` = the capacity as the iterator reads it). -/
def skipT (d : HRec β) (m : HImage β) (cap : Nat) : Nat → Nat → Nat → Bool
  | 0, _, _ => false
  | fuel + 1, bucket, node =>
    if node ≠ 0 then true
    else if cap < bucket + 1 then true
    else skipT d m cap fuel (bucket + 1) (rd d m (bucket + 1)).bucket

/-- `insert` with the panic of `add_node` kept as `none` (`HImp.insert` reports it as a refusal). -/
def insertO (hash : β → Nat) (d : HRec β) (m : HImage β) (v : β) : Option (HImage β × Bool) :=
  if m.hdr.size = m.hdr.cap then some (m, false)
  else
    let index := bucketIndex hash m v
    let head := (rdB d m index).bucket
    if scan d m v (m.recs.length + 1) head then some (m, false)
    else (addNode d m v).map fun r =>
      (wr (wrB r.1 index fun x => { x with bucket := r.2 }) r.2 fun x => { x with next := head }, true)

theorem insertO_getD (hash : β → Nat) (d : HRec β) (m : HImage β) (v : β) :
    (insertO hash d m v).getD (m, false) = insert hash d m v := by
  unfold insertO insert
  by_cases h0 : m.hdr.size = m.hdr.cap
  · simp only [h0, if_true]; rfl
  · simp only [h0, if_false]
    by_cases hs : scan d m v (m.recs.length + 1) (rdB d m (bucketIndex hash m v)).bucket = true
    · simp only [hs, if_true]; rfl
    · simp only [hs, if_false]
      cases addNode d m v <;> rfl

end HImp
end Stevia
