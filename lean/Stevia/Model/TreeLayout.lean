/-
  Stevia.Model.TreeLayout — the documented tree format.

  * `Tree.image`   : structured state → header words + one record per slot,
                     defined *by lookup* (no array writes).
  * `TreeImage.decode` : the independent decoder — walks root/left/right with
                     fuel, follows the free-list threading through the height
                     register until it meets `sequence`, then accepts only if
                     the image is exactly the layout of what it rebuilt.
  * `TreeImage.toBytes` / `ofBytes` : little-endian words, `repr(C)` offsets.
-/
import Stevia.Model.Tree
import Stevia.Model.Bytes

namespace Stevia

/-- One record: registers `[left, right, height, pad]`, key, value. -/
structure Rec (α β : Type) where
  left : Nat
  right : Nat
  height : Nat
  pad : Nat
  key : α
  val : β
deriving DecidableEq, Repr

/-- Header words `root, size, capacity, free_list_head, sequence` + padding
    (one word for the 32-bit tree, three bytes for the 8-bit tree, read as one
    little-endian number). -/
structure Hdr where
  root : Nat
  size : Nat
  cap : Nat
  flh : Nat
  seq : Nat
  pad : Nat
deriving DecidableEq, Repr

structure TreeImage (α β : Type) where
  hdr : Hdr
  recs : List (Rec α β)
deriving DecidableEq, Repr

namespace T
variable {α β : Type}

/-- The subtree whose root occupies slot `i` (first in pre-order). -/
def sub (i : Nat) : T α β → Option (T α β)
  | nil => none
  | node j l k v h r =>
    if i = j then some (node j l k v h r)
    else match sub i l with
      | some t => some t
      | none => sub i r

def slots (t : T α β) : List Nat := t.toList.map (·.1)

end T

/-- Successor of `i` on the free list `fl` whose terminator is `term`. -/
def freeNext (term : Nat) : List Nat → Nat → Option Nat
  | [], _ => none
  | [a], i => if i = a then some term else none
  | a :: b :: rest, i => if i = a then some b else freeNext term (b :: rest) i

namespace Tree
variable {α β : Type}

def seqReg (c : TreeCfg) (s : Tree α β) : Nat := s.seq % (c.W + 1)

def flhReg (c : TreeCfg) (s : Tree α β) : Nat :=
  match s.free with
  | i :: _ => i
  | [] => s.seqReg c

def hdr (c : TreeCfg) (s : Tree α β) : Hdr :=
  { root := s.root.slot, size := s.size, cap := s.cap, flh := s.flhReg c,
    seq := s.seqReg c, pad := 0 }

/-- The record stored in slot `i` (1-based): a live node, a recycled slot
    (all zero / default except the threading register), or never used. -/
def recAt (c : TreeCfg) (kd : α) (vd : β) (s : Tree α β) (i : Nat) : Rec α β :=
  match s.root.sub i with
  | some (.node _ l k v h r) =>
    { left := l.slot, right := r.slot, height := h, pad := 0, key := k, val := v }
  | _ =>
    match freeNext (s.seqReg c) s.free i with
    | some nxt => { left := 0, right := 0, height := nxt, pad := 0, key := kd, val := vd }
    | none => { left := 0, right := 0, height := 0, pad := 0, key := kd, val := vd }

/-- Register-level layout. `kd`/`vd` are `K::default()` / `V::default()`, which
    for the `Pod` integer types are the all-zero values. -/
def image (c : TreeCfg) (kd : α) (vd : β) (s : Tree α β) : TreeImage α β :=
  { hdr := s.hdr c, recs := (List.range s.slots).map fun j => s.recAt c kd vd (j + 1) }

end Tree

namespace TreeImage
variable {α β : Type}

def recAt? (img : TreeImage α β) (i : Nat) : Option (Rec α β) :=
  if i = 0 then none else img.recs[i - 1]?

/-- Rebuild the subtree rooted at slot `i`; `fuel` bounds the depth. -/
def walk (img : TreeImage α β) : Nat → Nat → Option (T α β)
  | _, 0 => some .nil
  | 0, _ + 1 => none
  | fuel + 1, i + 1 =>
    match img.recs[i]? with
    | none => none
    | some rc =>
      match walk img fuel rc.left, walk img fuel rc.right with
      | some l, some r => some (.node (i + 1) l rc.key rc.val rc.height r)
      | _, _ => none

/-- Follow the free list from `i` until the terminator `term`. -/
def walkFree (img : TreeImage α β) (term : Nat) : Nat → Nat → Option (List Nat)
  | fuel, i =>
    if i = term then some []
    else match fuel with
      | 0 => none
      | fuel + 1 =>
        match img.recAt? i with
        | none => none
        | some rc => (walkFree img term fuel rc.height).map (i :: ·)

/-- Logical cursor from its register: only a tree of the maximum capacity of a
    wrapping index type can have handed out slot `W`, leaving register 0. -/
def seqOfReg (c : TreeCfg) (cap seqReg : Nat) : Nat :=
  if c.wrap && seqReg == 0 && cap == c.W then c.W + 1 else seqReg

/-- Executable guard against exponential blow-up of `walk` on corrupted images:
    count the nodes reachable from the root, giving up beyond `budget`. -/
def reachCount (img : TreeImage α β) : Nat → Nat → List Nat → Option Nat
  | _, n, [] => some n
  | 0, _, _ => none
  | budget + 1, n, i :: stack =>
    if i = 0 then reachCount img budget n stack
    else match img.recs[i - 1]? with
      | none => none
      | some rc => reachCount img budget (n + 1) (rc.left :: rc.right :: stack)

/-- Structural part of decoding (no strictness check). -/
def decodeCore (c : TreeCfg) (img : TreeImage α β) : Option (Tree α β) :=
  let n := img.recs.length
  match img.walk n img.hdr.root, img.walkFree img.hdr.seq (n + 1) img.hdr.flh with
  | some t, some fl =>
    some { root := t, size := img.hdr.size, cap := img.hdr.cap, free := fl,
           seq := seqOfReg c img.hdr.cap img.hdr.seq, slots := n }
  | _, _ => none

/-- The independent decoder: accepts exactly the images that are the layout of
    the state it rebuilds (so every slot is live, recycled or never used and
    every unused register/byte is zero). -/
def decode [DecidableEq α] [DecidableEq β] (c : TreeCfg) (kd : α) (vd : β)
    (img : TreeImage α β) : Option (Tree α β) :=
  match decodeCore c img with
  | some s => if s.image c kd vd = img then some s else none
  | none => none

end TreeImage

/-! ### Bytes -/

/-- Byte-level shape of a tree buffer: index width in bytes, header padding in
    bytes, key and value scalars. -/
structure TreeFmt where
  iw : Nat
  hdrPad : Nat
  key : Scalar
  val : Scalar
deriving Repr

namespace TreeFmt

def hdrSize (f : TreeFmt) : Nat := 5 * f.iw + f.hdrPad
def keyOff (f : TreeFmt) : Nat := alignUp (4 * f.iw) f.key.align
def valOff (f : TreeFmt) : Nat := alignUp (f.keyOff + f.key.size) f.val.align
def recAlign (f : TreeFmt) : Nat := max f.iw (max f.key.align f.val.align)
def recSize (f : TreeFmt) : Nat := alignUp (f.valOff + f.val.size) f.recAlign
/-- `data_len(capacity)`. -/
def dataLen (f : TreeFmt) (cap : Nat) : Nat := f.hdrSize + cap * f.recSize

def u8 (key val : Scalar) : TreeFmt := { iw := 1, hdrPad := 3, key := key, val := val }
def u32 (key val : Scalar) : TreeFmt := { iw := 4, hdrPad := 4, key := key, val := val }

def encKey (f : TreeFmt) (k : Int) : Bytes :=
  if f.key.signed then leEncInt f.key.size k else leEnc f.key.size k.toNat
def decKey (f : TreeFmt) (bs : Bytes) : Int :=
  if f.key.signed then leDecInt bs else (leDec bs : Int)

def encRec (f : TreeFmt) (rc : Rec Int Nat) : Bytes :=
  let regs := leEnc f.iw rc.left ++ leEnc f.iw rc.right ++ leEnc f.iw rc.height ++ leEnc f.iw rc.pad
  let a := regs ++ zeros (f.keyOff - 4 * f.iw) ++ f.encKey rc.key
  let b := a ++ zeros (f.valOff - (f.keyOff + f.key.size)) ++ leEnc f.val.size rc.val
  b ++ zeros (f.recSize - (f.valOff + f.val.size))

def encHdr (f : TreeFmt) (h : Hdr) : Bytes :=
  leEnc f.iw h.root ++ leEnc f.iw h.size ++ leEnc f.iw h.cap ++ leEnc f.iw h.flh ++
    leEnc f.iw h.seq ++ leEnc f.hdrPad h.pad

def toBytes (f : TreeFmt) (img : TreeImage Int Nat) : Bytes :=
  f.encHdr img.hdr ++ img.recs.flatMap f.encRec

def slice (bs : Bytes) (off len : Nat) : Bytes := (bs.drop off).take len

def decHdr (f : TreeFmt) (bs : Bytes) : Hdr :=
  let w := fun j => leDec (slice bs (j * f.iw) f.iw)
  { root := w 0, size := w 1, cap := w 2, flh := w 3, seq := w 4,
    pad := leDec (slice bs (5 * f.iw) f.hdrPad) }

def decRec (f : TreeFmt) (bs : Bytes) : Rec Int Nat :=
  let w := fun j => leDec (slice bs (j * f.iw) f.iw)
  { left := w 0, right := w 1, height := w 2, pad := w 3,
    key := f.decKey (slice bs f.keyOff f.key.size),
    val := leDec (slice bs f.valOff f.val.size) }

/-- Split the bytes after the header into records of `n` bytes (array slicing, so large buffers
    stay linear). -/
def chunks (n : Nat) (bs : Bytes) : List Bytes :=
  if n = 0 then []
  else
    let arr := bs.toArray
    (List.range (arr.size / n)).map fun j => (arr.extract (j * n) (j * n + n)).toList

/-- Parse a buffer; `none` if its size is not header + whole records. The
    parsed image re-encodes to exactly the same bytes or is rejected, so that
    padding bytes inside records are checked to be zero as well. -/
def ofBytes (f : TreeFmt) (bs : Bytes) : Option (TreeImage Int Nat) :=
  if bs.length < f.hdrSize then none
  else if f.recSize = 0 then none
  else if (bs.length - f.hdrSize) % f.recSize ≠ 0 then none
  else
    let img : TreeImage Int Nat :=
      { hdr := f.decHdr (bs.take f.hdrSize),
        recs := (chunks f.recSize (bs.drop f.hdrSize)).map f.decRec }
    if f.toBytes img = bs then some img else none

end TreeFmt

end Stevia
