/-
  Stevia.Model.ArraySetLayout — array-set bytes (native-endian count followed by
  the value slots) and the driver step.
-/
import Stevia.Model.ArraySet
import Stevia.Model.Bytes
import Stevia.Model.TreeLayout
import Stevia.Model.TreeCheck

namespace Stevia

/-- Prefix width in bytes, value size in bytes, and the number of low bytes of
    a value that form its ordering key (`keyBytes = size` for plain integers). -/
structure AFmt where
  pw : Nat
  vsz : Nat
  keyBytes : Nat
deriving Repr

namespace AFmt

def prefixMax (f : AFmt) : Nat := 2 ^ (8 * f.pw) - 1
def keyOf (f : AFmt) (v : Nat) : Nat := v % 2 ^ (8 * f.keyBytes)

def toBytes (f : AFmt) (s : ASet Nat) : Bytes :=
  leEnc f.pw s.len ++ s.vals.flatMap (leEnc f.vsz)

def ofBytes (f : AFmt) (bs : Bytes) : Option (ASet Nat) :=
  if bs.length < f.pw then none
  else if f.vsz = 0 then none
  else if (bs.length - f.pw) % f.vsz ≠ 0 then none
  else some { len := leDec (bs.take f.pw), vals := (TreeFmt.chunks f.vsz (bs.drop f.pw)).map leDec }

end AFmt

abbrev ASetS := ASet Nat

namespace ASet

/-- Executable invariant: `len ≤ slots`, `len ≤ P`, view strictly ascending by key. -/
def wfB (f : AFmt) (s : ASetS) : Bool :=
  decide (s.len ≤ s.slots) && decide (s.len ≤ f.prefixMax) && T.sortedB (s.view.map f.keyOf)

end ASet

def listStr (l : List Nat) : String := "[" ++ ",".intercalate (l.map toString) ++ "]"

def asetStep (f : AFmt) (s : ASetS) (op : String) (args : List Int) : Option (ASetS × String) :=
  let boolStr := fun (b : Bool) => if b then "true" else "false"
  let key := f.keyOf
  let P := f.prefixMax
  let ex := fun {γ : Type} (r : Except Fault γ) (k : γ → ASetS × String) =>
    match r with
    | .ok x => some (k x)
    | .error e => some (s, faultStr e)
  match op, args with
  | "open", [] => some (s, "-")
  | "ext", [n] => some (s.extend 0 n.toNat, "-")
  | "ins", [x] => ex (s.insert key P x.toNat) fun r => (r.1, boolStr r.2)
  | "rem", [x] => ex (s.take key (key x.toNat)) fun r => (r.1, boolStr r.2.isSome)
  | "take", [x] => ex (s.take key (key x.toNat)) fun r => (r.1, optStr toString r.2)
  | "get", [x] => ex (s.get key (key x.toNat)) fun r => (s, optStr toString r)
  | "gmq", [x] => ex (s.get key (key x.toNat)) fun r => (s, optStr toString r)
  | "rget", [x] => ex (s.get key (key x.toNat)) fun r => (s, optStr toString r)
  | "has", [x] => ex (s.contains key (key x.toNat)) fun r => (s, boolStr r)
  | "rhas", [x] => ex (s.contains key (key x.toNat)) fun r => (s, boolStr r)
  | "upd", [x, y] => ex (s.update key (key x.toNat) y.toNat) fun r => (r.1, boolStr r.2)
  | "len", [] => some (s, toString s.len)
  | "rlen", [] => some (s, toString s.len)
  | "full", [] => some (s, boolStr (s.isFull P))
  | "rfull", [] => some (s, boolStr (s.isFull P))
  | "empty", [] => some (s, boolStr s.isEmpty)
  | "rempty", [] => some (s, boolStr s.isEmpty)
  | "view", [] => if s.len ≤ s.slots then some (s, listStr s.view) else some (s, faultStr .oob)
  | "rview", [] => if s.len ≤ s.slots then some (s, listStr s.view) else some (s, faultStr .oob)
  | "fill", [base, lim] =>
    let rec go (fuel : Nat) (st : ASetS) (v : Nat) (n : Nat) : String :=
      match fuel with
      | 0 => toString n
      | fuel + 1 =>
        match st.insert key P v with
        | .error e => faultStr e
        | .ok (_, false) => toString n
        | .ok (st', true) => go fuel st' (v + 1) (n + 1)
    some (s, go lim.toNat s base.toNat 0)
  | _, _ => none

/-- Elements the lookup compares the sought value with (in order, repeats included). -/
def asetTrace (f : AFmt) (s : ASetS) (op : String) (args : List Int) : Option (List Int) :=
  let probe := fun (x : Int) =>
    match s.indexP f.keyOf (f.keyOf x.toNat) with
    | .ok (_, ps) => some (ps.map fun p => ((s.vals.getD p 0 : Nat) : Int))
    | .error _ => none
  match op, args with
  | "get", [x] => probe x
  | "rget", [x] => probe x
  | "gmq", [x] => probe x
  | "has", [x] => probe x
  | "rhas", [x] => probe x
  | _, _ => none

end Stevia
