/-
  Stevia.Model.Bytes — little-endian words, `repr(C)` field offsets, hex.
  Core only.
-/
namespace Stevia

abbrev Bytes := List UInt8

/-- `n`-byte little-endian encoding of `x mod 2^(8n)`. -/
def leEnc : Nat → Nat → Bytes
  | 0, _ => []
  | n + 1, x => UInt8.ofNat (x % 256) :: leEnc n (x / 256)

/-- Little-endian value of a byte string. -/
def leDec : Bytes → Nat
  | [] => 0
  | b :: bs => b.toNat + 256 * leDec bs

/-- Two's complement encoding of an integer on `n` bytes. -/
def leEncInt (n : Nat) (x : Int) : Bytes :=
  leEnc n (x % (2 ^ (8 * n) : Nat)).toNat

/-- Two's complement decoding. -/
def leDecInt (bs : Bytes) : Int :=
  let u := leDec bs
  let n := bs.length
  if n = 0 then 0
  else if u < 2 ^ (8 * n - 1) then (u : Int) else (u : Int) - (2 ^ (8 * n) : Nat)

def alignUp (x a : Nat) : Nat := if a = 0 then x else (x + a - 1) / a * a

/-- Scalar field descriptor: size, alignment, signedness. -/
structure Scalar where
  size : Nat
  align : Nat
  signed : Bool
deriving Repr, DecidableEq

def zeros (n : Nat) : Bytes := List.replicate n 0

def hexDigit (n : Nat) : Char :=
  if n < 10 then Char.ofNat (48 + n) else Char.ofNat (87 + n)

def hexOfBytes (bs : Bytes) : String :=
  String.ofList (bs.flatMap fun b => [hexDigit (b.toNat / 16), hexDigit (b.toNat % 16)])

def hexVal (c : Char) : Option Nat :=
  if '0' ≤ c ∧ c ≤ '9' then some (c.toNat - 48)
  else if 'a' ≤ c ∧ c ≤ 'f' then some (c.toNat - 87)
  else if 'A' ≤ c ∧ c ≤ 'F' then some (c.toNat - 55)
  else none

/-- Hex string to bytes (iterative, so large buffers do not overflow the stack). -/
def bytesOfHex (s : String) : Option Bytes := Id.run do
  let cs := s.toList.toArray
  if cs.size % 2 ≠ 0 then return none
  let mut out : Array UInt8 := Array.mkEmpty (cs.size / 2)
  for j in [0:cs.size / 2] do
    match hexVal cs[2 * j]!, hexVal cs[2 * j + 1]! with
    | some x, some y => out := out.push (UInt8.ofNat (16 * x + y))
    | _, _ => return none
  return some out.toList

end Stevia
