/-
  Stevia.Model.ArraySet — executable model of `U{8,16,32,64}ArraySet(Mut)`
  (src/collections/array_set.rs).

  State: the length prefix and *all* value slots of the buffer, including the
  stale elements beyond `len` (the shifts leave them and the bytes are compared
  exactly).  Elements are ordered through a key projection `key : α → κ`
  (`Ord::cmp` may ignore part of the value).  `P` is the largest value the
  prefix type can hold.
-/
import Stevia.Basic

namespace Stevia

structure ASet (α : Type) where
  len : Nat
  vals : List α
deriving DecidableEq, Repr

/-- Outcome of `index`: found at a position, or the insertion point. -/
inductive Idx where
  | found (i : Nat)
  | absent (i : Nat)
deriving DecidableEq, Repr

namespace ASet
variable {α κ : Type}

def slots (s : ASet α) : Nat := s.vals.length

/-- The slice the set dereferences to. -/
def view (s : ASet α) : List α := s.vals.take s.len

def isEmpty (s : ASet α) : Bool := s.len == 0

/-- `is_full`: no free slot, or the prefix cannot count one more element. -/
def isFull (P : Nat) (s : ASet α) : Bool := s.len == s.slots || s.len ≥ P

/-- `ptr::copy(ptr.add(src), ptr.add(dst), cnt)` on the value slots; `oob` if
    either range leaves the slice (the Rust would be undefined behaviour). -/
def copyWithin (vals : List α) (src dst cnt : Nat) : Except Fault (List α) :=
  if src + cnt > vals.length ∨ dst + cnt > vals.length then .error .oob
  else .ok (vals.take dst ++ (vals.drop src).take cnt ++ vals.drop (dst + cnt))

variable [LinOrd κ]

/-- The binary-search loop of `index`, with the list of probed positions.
    `fuel` bounds the iterations (`len + 1` always suffices, see proofs). -/
def search (key : α → κ) (vals : List α) (x : κ) :
    Nat → Nat → Nat → List Nat → Except Fault (Idx × List Nat)
  | 0, s, _, ps => .ok (.absent s, ps)
  | fuel + 1, s, e, ps =>
    if s ≤ e then
      let m := s + (e - s) / 2
      match vals[m]? with
      | none => .error .oob
      | some y =>
        if x < key y then
          if e = s then .ok (.absent s, ps ++ [m])
          else search key vals x fuel s (m - 1) (ps ++ [m])
        else if key y < x then search key vals x fuel (m + 1) e (ps ++ [m])
        else .ok (.found m, ps ++ [m])
    else .ok (.absent s, ps)

/-- `index(value)` with its probe sequence. -/
def indexP (key : α → κ) (s : ASet α) (x : κ) : Except Fault (Idx × List Nat) :=
  if s.len = 0 then .ok (.absent 0, [])
  else search key s.vals x (s.len + 1) 0 (s.len - 1) []

def index (key : α → κ) (s : ASet α) (x : κ) : Except Fault Idx :=
  (indexP key s x).map (·.1)

/-- `get`: the stored element equal (in key) to `x`. -/
def get (key : α → κ) (s : ASet α) (x : κ) : Except Fault (Option α) :=
  match index key s x with
  | .error e => .error e
  | .ok (.found i) => match s.vals[i]? with
    | some y => .ok (some y)
    | none => .error .oob
  | .ok (.absent _) => .ok none

def contains (key : α → κ) (s : ASet α) (x : κ) : Except Fault Bool :=
  (get key s x).map (·.isSome)

/-- `insert`. -/
def insert (key : α → κ) (P : Nat) (s : ASet α) (x : α) : Except Fault (ASet α × Bool) :=
  if s.isFull P then .ok (s, false)
  else match index key s (key x) with
    | .error e => .error e
    | .ok (.found _) => .ok (s, false)
    | .ok (.absent i) =>
      match copyWithin s.vals i (i + 1) (s.len - i) with
      | .error e => .error e
      | .ok vals' =>
        if i < vals'.length then .ok ({ len := s.len + 1, vals := vals'.set i x }, true)
        else .error .oob

/-- `take`. -/
def take (key : α → κ) (s : ASet α) (x : κ) : Except Fault (ASet α × Option α) :=
  if s.len = 0 then .ok (s, none)
  else match index key s x with
    | .error e => .error e
    | .ok (.absent _) => .ok (s, none)
    | .ok (.found i) =>
      match s.vals[i]? with
      | none => .error .oob
      | some y =>
        if i < s.len - 1 then
          match copyWithin s.vals (i + 1) i (s.len - i - 1) with
          | .error e => .error e
          | .ok vals' => .ok ({ len := s.len - 1, vals := vals' }, some y)
        else .ok ({ s with len := s.len - 1 }, some y)

/-- `get_mut(x)` followed by a write of `y` through the reference. -/
def update (key : α → κ) (s : ASet α) (x : κ) (y : α) : Except Fault (ASet α × Bool) :=
  match index key s x with
  | .error e => .error e
  | .ok (.found i) => .ok ({ s with vals := s.vals.set i y }, true)
  | .ok (.absent _) => .ok (s, false)

omit [LinOrd κ] in
/-- The buffer is extended by `n` zero-filled slots. -/
def extend (d : α) (n : Nat) (s : ASet α) : ASet α := { s with vals := s.vals ++ List.replicate n d }

end ASet
end Stevia
