/-
  Stevia.Model.HashSetImp — literal, register-level transcription of `hash_set.rs` (contains,
  insert, remove, add_node, remove_node, the iterator of the read-only view) on the image
  (header words + array of `{bucket, next, value}` records), the way the Rust code works: indices
  and `while current != SENTINEL` loops (with fuel).  Cross-checked by the driver against the
  functional model on every real transition, and proved equal to it in Stevia/Proofs/HashSetImpEq.lean.
-/
import Stevia.Model.HashSetLayout

namespace Stevia
namespace HImp
variable {β : Type}

/-- `node!(nodes, i)` (1-based). -/
def rd (d : HRec β) (m : HImage β) (i : Nat) : HRec β := if i = 0 then d else m.recs.getD (i - 1) d

def wr (m : HImage β) (i : Nat) (f : HRec β → HRec β) : HImage β :=
  if i = 0 then m else { m with recs := m.recs.modify (i - 1) f }

/-- `bucket_node!(nodes, b)` (0-based). -/
def rdB (d : HRec β) (m : HImage β) (b : Nat) : HRec β := m.recs.getD b d

def wrB (m : HImage β) (b : Nat) (f : HRec β → HRec β) : HImage β := { m with recs := m.recs.modify b f }

/-- `hasher.finish() as u32 % capacity`. -/
def bucketIndex (hash : β → Nat) (m : HImage β) (v : β) : Nat := (hash v % 4294967296) % m.hdr.cap

variable [DecidableEq β]

/-- The `while current != SENTINEL` scan of `contains` / `insert`. -/
def scan (d : HRec β) (m : HImage β) (v : β) : Nat → Nat → Bool
  | 0, _ => false
  | fuel + 1, current =>
    if current = 0 then false
    else if (rd d m current).val = v then true
    else scan d m v fuel (rd d m current).next

/-- `contains(value)` (after the repair: an empty set contains nothing). -/
def contains (hash : β → Nat) (d : HRec β) (m : HImage β) (v : β) : Bool :=
  if m.hdr.size = 0 then false
  else scan d m v (m.recs.length + 1) (rdB d m (bucketIndex hash m v)).bucket

/-- `add_node(value)`: `none` where the Rust panics ("set is full"). -/
def addNode (d : HRec β) (m : HImage β) (v : β) : Option (HImage β × Nat) :=
  let freeNode := m.hdr.flh
  let sequence := m.hdr.seq
  let m? : Option (HImage β) :=
    if freeNode = sequence then
      if sequence - 1 = m.hdr.cap then none
      else some { m with hdr := { m.hdr with seq := sequence + 1, flh := sequence + 1 } }
    else some { m with hdr := { m.hdr with flh := (rd d m freeNode).next } }
  match m? with
  | none => none
  | some m =>
    let m := wr m freeNode fun r => { r with val := v, next := 0 }
    some ({ m with hdr := { m.hdr with size := m.hdr.size + 1 } }, freeNode)

/-- `insert(value)`. -/
def insert (hash : β → Nat) (d : HRec β) (m : HImage β) (v : β) : HImage β × Bool :=
  if m.hdr.size = m.hdr.cap then (m, false)
  else
    let index := bucketIndex hash m v
    let head := (rdB d m index).bucket
    if scan d m v (m.recs.length + 1) head then (m, false)
    else match addNode d m v with
      | none => (m, false)
      | some (m1, node) =>
        let m2 := wrB m1 index fun r => { r with bucket := node }
        let m3 := wr m2 node fun r => { r with next := head }
        (m3, true)

/-- `remove_node(index)`. -/
def removeNode (d : HRec β) (m : HImage β) (index : Nat) : HImage β :=
  let flh := m.hdr.flh
  let m := wr m index fun r => { r with val := d.val, next := flh }
  { m with hdr := { m.hdr with flh := index, size := m.hdr.size - 1 } }

/-- The unlink loop of `remove`: (found, image). -/
def removeScan (d : HRec β) (m : HImage β) (v : β) (index : Nat) : Nat → Nat → Nat → HImage β × Bool
  | 0, _, _ => (m, false)
  | fuel + 1, current, previous =>
    if current = 0 then (m, false)
    else
      let node := rd d m current
      if node.val = v then
        let m1 :=
          if previous = 0 then wrB m index fun r => { r with bucket := node.next }
          else wr m previous fun r => { r with next := node.next }
        (removeNode d m1 current, true)
      else removeScan d m v index fuel node.next current

/-- `remove(value)`. -/
def remove (hash : β → Nat) (d : HRec β) (m : HImage β) (v : β) : HImage β × Bool :=
  if m.hdr.size = 0 then (m, false)
  else
    let index := bucketIndex hash m v
    let head := (rdB d m index).bucket
    removeScan d m v index (m.recs.length + 1) head 0

omit [DecidableEq β] in
/-- One chain, as the iterator walks it. -/
def chainVals (d : HRec β) (m : HImage β) : Nat → Nat → List β
  | 0, _ => []
  | fuel + 1, node => if node = 0 then [] else (rd d m node).val :: chainVals d m fuel (rd d m node).next

omit [DecidableEq β] in
/-- The iterator of the read-only view: buckets `1..=capacity`, each chain head first. -/
def iter (d : HRec β) (m : HImage β) : List β :=
  (List.range m.hdr.cap).flatMap fun b => chainVals d m (m.recs.length + 1) (rdB d m b).bucket

end HImp
end Stevia
