/-
  Stevia.Proofs.TreeImpLoop — zipper contexts, one full iteration of the `rebalance` loop including
  the fix-up of the parent register / root word, and the loop over a recorded path.
-/
import Stevia.Proofs.TreeImpRebal

namespace Stevia
variable {α β : Type}

/-- One level of a zipper: the node `i` (key, value, stale height register `h`), on which side
    the hole is (`dir = true`: the hole is the right child) and the other child. -/
structure Frame (α β : Type) where
  i : Nat
  k : α
  v : β
  h : Nat
  dir : Bool
  sib : T α β

namespace Frame

/-- Put a tree into the hole of the frame. -/
def fill (fr : Frame α β) (t : T α β) : T α β :=
  if fr.dir then .node fr.i fr.sib fr.k fr.v fr.h t else .node fr.i t fr.k fr.v fr.h fr.sib

/-- Put a tree into the hole and rebalance the node. -/
def rebalFill (fr : Frame α β) (t : T α β) : T α β :=
  if fr.dir then T.rebal fr.i fr.sib fr.k fr.v t else T.rebal fr.i t fr.k fr.v fr.sib

/-- The record of the frame's node when its hole register is `s`. -/
def rc (fr : Frame α β) (s : Nat) : Rec α β :=
  if fr.dir then ⟨fr.sib.slot, s, fr.h, 0, fr.k, fr.v⟩ else ⟨s, fr.sib.slot, fr.h, 0, fr.k, fr.v⟩

theorem fill_ne_nil (fr : Frame α β) (t : T α β) : fr.fill t ≠ .nil := by
  unfold fill; split <;> simp

@[simp] theorem slot_fill (fr : Frame α β) (t : T α β) : (fr.fill t).slot = fr.i := by
  unfold fill; split <;> rfl

theorem slots_fill_perm (fr : Frame α β) (t : T α β) :
    (fr.fill t).slots.Perm (t.slots ++ fr.i :: fr.sib.slots) := by
  unfold fill
  split
  · rw [T.slots_node]
    exact List.perm_append_comm.trans List.perm_middle.symm
  · rw [T.slots_node]

end Frame

/-- `rebal` of a node, as a function of the whole node. -/
def T.rebalT : T α β → T α β
  | .nil => .nil
  | .node c l k v _ r => T.rebal c l k v r

theorem Frame.rebalFill_eq (fr : Frame α β) (h' : Nat) (t : T α β) :
    fr.rebalFill t = T.rebalT ({ fr with h := h' }.fill t) := by
  unfold Frame.rebalFill Frame.fill
  cases fr.dir <;> rfl

theorem T.slots_rebalT (t : T α β) : t.rebalT.slots = t.slots := by
  cases t with
  | nil => rfl
  | node c l k v h r => simp [T.rebalT, T.slots_rebal]

/-- Plug a tree into a context (innermost frame first). -/
def plug : List (Frame α β) → T α β → T α β
  | [], t => t
  | fr :: ctx, t => plug ctx (fr.fill t)

/-- Walk the context outwards, rebalancing every node (what `rebalance` computes). -/
def up : List (Frame α β) → T α β → T α β
  | [], t => t
  | fr :: ctx, t => up ctx (fr.rebalFill t)

/-- The memory holds the records of the frames (with `s` in the innermost hole) and represents the
    siblings. -/
def RepCtx (f : Nat → Rec α β) : List (Frame α β) → Nat → Prop
  | [], _ => True
  | fr :: ctx, s => f fr.i = fr.rc s ∧ Rep f fr.sib ∧ RepCtx f ctx fr.i

/-- Slots of the frames and their siblings. -/
def slotsC : List (Frame α β) → List Nat
  | [] => []
  | fr :: ctx => fr.i :: fr.sib.slots ++ slotsC ctx

/-- The recorded path, innermost entry first (i.e. in the order `rebalance` visits it). -/
def pathOf : List (Frame α β) → Nat → List Imp.Ancestor
  | [], s => [(none, none, s)]
  | fr :: ctx, s => (some fr.i, some fr.dir, s) :: pathOf ctx fr.i

/-- Slot of the root of `plug ctx t` when `t.slot = s`. -/
def rootSlot : List (Frame α β) → Nat → Nat
  | [], s => s
  | fr :: ctx, _ => rootSlot ctx fr.i

theorem RepCtx.congr {f g : Nat → Rec α β} {ctx : List (Frame α β)} {s : Nat}
    (h : ∀ x ∈ slotsC ctx, g x = f x) (hr : RepCtx f ctx s) : RepCtx g ctx s := by
  induction ctx generalizing s with
  | nil => trivial
  | cons fr ctx ih =>
    obtain ⟨h1, h2, h3⟩ := hr
    refine ⟨(h fr.i (by simp [slotsC])).trans h1, h2.congr (fun x hx => h x (by simp [slotsC, hx])),
      ih (fun x hx => h x (by simp [slotsC, hx])) h3⟩

theorem slot_plug (ctx : List (Frame α β)) (t : T α β) : (plug ctx t).slot = rootSlot ctx t.slot := by
  induction ctx generalizing t with
  | nil => rfl
  | cons fr ctx ih => simp [plug, rootSlot, ih]

theorem slots_plug_perm (ctx : List (Frame α β)) (t : T α β) :
    (plug ctx t).slots.Perm (t.slots ++ slotsC ctx) := by
  induction ctx generalizing t with
  | nil => simp [plug, slotsC]
  | cons fr ctx ih =>
    simp only [plug, slotsC]
    refine (ih (fr.fill t)).trans ?_
    refine ((fr.slots_fill_perm t).append_right _).trans ?_
    simp

theorem rep_plug {f : Nat → Rec α β} (ctx : List (Frame α β)) (t : T α β) :
    Rep f (plug ctx t) ↔ Rep f t ∧ RepCtx f ctx t.slot := by
  induction ctx generalizing t with
  | nil => simp [plug, RepCtx]
  | cons fr ctx ih =>
    simp only [plug, RepCtx, ih, Frame.slot_fill]
    unfold Frame.fill Frame.rc
    cases fr.dir
    · simp only [Bool.false_eq_true, if_false, Rep, T.rc]
      constructor
      · rintro ⟨⟨h1, h2, h3⟩, h4⟩; exact ⟨h2, h1, h3, h4⟩
      · rintro ⟨h2, h1, h3, h4⟩; exact ⟨⟨h1, h2, h3⟩, h4⟩
    · simp only [if_true, Rep, T.rc]
      constructor
      · rintro ⟨⟨h1, h2, h3⟩, h4⟩; exact ⟨h3, h1, h2, h4⟩
      · rintro ⟨h3, h1, h2, h4⟩; exact ⟨⟨h1, h2, h3⟩, h4⟩

/-- `update_child` at the node of a frame: the hole gets the tree `L`, the height register of the
    frame's node is recomputed. -/
theorem updateChild_fill (d : Rec α β) (hdr : Hdr) (n : Nat) (f : Nat → Rec α β)
    (fr : Frame α β) {a : Nat} {L : T α β}
    (hp : 1 ≤ fr.i ∧ fr.i ≤ n) (hfr : f fr.i = fr.rc a) (hL : Rep f L) (hsib : Rep f fr.sib)
    (hLin : L.In n) (hsin : fr.sib.In n) (hpL : fr.i ∉ L.slots) (hps : fr.i ∉ fr.sib.slots) :
    ∃ h', Imp.updateChild d (mkImg hdr n f) fr.i fr.dir L.slot =
        mkImg hdr n (upd f fr.i (({ fr with h := h' } : Frame α β).rc L.slot)) ∧
      Rep (upd f fr.i (({ fr with h := h' } : Frame α β).rc L.slot)) ({ fr with h := h' }.fill L) := by
  unfold Frame.rc at hfr
  unfold Frame.fill Frame.rc
  cases hdir : fr.dir
  · simp only [hdir, Bool.false_eq_true, if_false] at hfr ⊢
    obtain ⟨e2, r2⟩ := updateChild_left_rep d hdr n f (L := L) (R := fr.sib) hp hfr hL hsib hLin hsin hpL hps
    exact ⟨_, e2, r2⟩
  · simp only [hdir, if_true] at hfr ⊢
    obtain ⟨e2, r2⟩ := updateChild_right_rep d hdr n f (L := fr.sib) (R := L) hp hfr hsib hL hsin hLin hps hpL
    exact ⟨_, e2, r2⟩

/-! ### One iteration, with a parent -/

theorem rebalanceStep_rep_some (d : Rec α β) (hdr : Hdr) (n : Nat) (f : Nat → Rec α β)
    {c h : Nat} {l r : T α β} {k : α} {v : β} (fr : Frame α β)
    (hr : Rep f (.node c l k v h r)) (hfr : f fr.i = fr.rc c) (hsib : Rep f fr.sib)
    (hnd : ((T.node c l k v h r).slots ++ fr.i :: fr.sib.slots).Nodup)
    (hin : ∀ x ∈ (T.node c l k v h r).slots ++ fr.i :: fr.sib.slots, 1 ≤ x ∧ x ≤ n) :
    ∃ f' h', Imp.rebalanceStep d (mkImg hdr n f) (some fr.i, some fr.dir, c) = mkImg hdr n f' ∧
      Rep f' ({ fr with h := h' }.fill (T.rebal c l k v r)) ∧
      ∀ x, x ∉ (T.node c l k v h r).slots → x ≠ fr.i → f' x = f x := by
  have hnd' := List.nodup_append.1 hnd
  have hint : (T.node c l k v h r).In n := fun x hx => hin x (List.mem_append_left _ hx)
  have hins : fr.sib.In n := fun x hx => hin x (by simp [hx])
  have hpin : 1 ≤ fr.i ∧ fr.i ≤ n := hin fr.i (by simp)
  have hpt : fr.i ∉ (T.node c l k v h r).slots := fun hm => hnd'.2.2 _ hm _ (by simp) rfl
  have hps : fr.i ∉ fr.sib.slots := (List.nodup_cons.1 hnd'.2.1).1
  have hdisj : ∀ x ∈ fr.sib.slots, x ∉ (T.node c l k v h r).slots :=
    fun x hx hm => hnd'.2.2 _ hm _ (by simp [hx]) rfl
  obtain ⟨f1, o, e1, r1, fr1, ho, _⟩ := rebalCore_rep d hdr n f hr hnd'.1 hint
  have hsl : (T.rebal c l k v r).slots = (T.node c l k v h r).slots := by
    rw [T.slots_rebal, T.slots_node]
  have hf1p : f1 fr.i = fr.rc c := by rw [fr1 _ hpt]; exact hfr
  have hsib1 : Rep f1 fr.sib := hsib.congr (fun x hx => fr1 x (hdisj x hx))
  have hTin : (T.rebal c l k v r).In n := T.In.of_slots_eq hsl hint
  rw [Imp.rebalanceStep_eq, e1]
  cases o with
  | none =>
    simp only [Option.getD_none] at ho
    refine ⟨f1, fr.h, rfl, ?_, fun x hx _ => fr1 x hx⟩
    unfold Frame.fill
    unfold Frame.rc at hf1p
    cases hdir : fr.dir
    · simp only [hdir, Bool.false_eq_true, if_false] at hf1p ⊢
      exact ⟨by rw [hf1p]; unfold T.rc; rw [← ho], r1, hsib1⟩
    · simp only [hdir, if_true] at hf1p ⊢
      exact ⟨by rw [hf1p]; unfold T.rc; rw [← ho], hsib1, r1⟩
  | some idx =>
    simp only [Option.getD_some] at ho
    subst ho
    dsimp only
    unfold Frame.rc at hf1p
    unfold Frame.fill
    cases hdir : fr.dir
    · simp only [hdir, Bool.false_eq_true, if_false] at hf1p ⊢
      obtain ⟨e2, r2⟩ := updateChild_left_rep d hdr n f1 (L := T.rebal c l k v r) (R := fr.sib) hpin hf1p
        r1 hsib1 hTin hins (by rw [hsl]; exact hpt) hps
      refine ⟨_, _, e2, r2, ?_⟩
      intro x hx hxp
      rw [upd_ne _ _ hxp, fr1 x hx]
    · simp only [hdir, if_true] at hf1p ⊢
      obtain ⟨e2, r2⟩ := updateChild_right_rep d hdr n f1 (L := fr.sib) (R := T.rebal c l k v r) hpin hf1p
        hsib1 r1 hins hTin hps (by rw [hsl]; exact hpt)
      refine ⟨_, _, e2, r2, ?_⟩
      intro x hx hxp
      rw [upd_ne _ _ hxp, fr1 x hx]

/-! ### One iteration at the root -/

theorem rebalanceStep_rep_none (d : Rec α β) (hdr : Hdr) (n : Nat) (f : Nat → Rec α β)
    {c h : Nat} {l r : T α β} {k : α} {v : β}
    (hr : Rep f (.node c l k v h r)) (hnd : (T.node c l k v h r).slots.Nodup)
    (hin : (T.node c l k v h r).In n) (hroot : hdr.root = c) :
    ∃ f', Imp.rebalanceStep d (mkImg hdr n f) (none, none, c) =
        mkImg { hdr with root := (T.rebal c l k v r).slot } n f' ∧
      Rep f' (T.rebal c l k v r) ∧
      ∀ x, x ∉ (T.node c l k v h r).slots → f' x = f x := by
  obtain ⟨f1, o, e1, r1, fr1, ho, hmk⟩ := rebalCore_rep d hdr n f hr hnd hin
  have hsl : (T.rebal c l k v r).slots = (T.node c l k v h r).slots := by
    rw [T.slots_rebal, T.slots_node]
  rw [Imp.rebalanceStep_eq, e1]
  cases o with
  | none =>
    simp only [Option.getD_none] at ho
    refine ⟨f1, ?_, r1, fr1⟩
    dsimp only
    rw [← ho, ← hroot]
  | some idx =>
    simp only [Option.getD_some] at ho
    subst ho
    dsimp only
    obtain ⟨j, l', k', v', r', hT⟩ := hmk (by simp)
    rw [hT] at r1 hsl ⊢
    have hnd1 : (T.mk j l' k' v' r').slots.Nodup := by rw [hsl]; exact hnd
    have hin1 : (T.mk j l' k' v' r').In n := T.In.of_slots_eq hsl hin
    rw [T.slots_mk] at hnd1
    simp only [List.nodup_append, List.nodup_cons, List.mem_cons] at hnd1
    obtain ⟨e2, _⟩ := updateHeight_rep d { hdr with root := j } n f1 r1 hin1 (by grind) (by grind)
    refine ⟨f1, ?_, r1, fr1⟩
    rw [setRoot_mkImg]
    simp only [T.slot_mk]
    rw [e2]
    have : T.rc l' k' v' (max l'.ht r'.ht) r' = f1 j := r1.1.symm
    rw [this, upd_self]

/-! ### The loop -/

theorem rebalance_loop (d : Rec α β) (n : Nat) :
    ∀ (ctx : List (Frame α β)) (hdr : Hdr) (f : Nat → Rec α β) (t : T α β), t ≠ .nil →
      Rep f t → RepCtx f ctx t.slot → (t.slots ++ slotsC ctx).Nodup →
      (∀ x ∈ t.slots ++ slotsC ctx, 1 ≤ x ∧ x ≤ n) → hdr.root = rootSlot ctx t.slot →
      ∃ f', (pathOf ctx t.slot).foldl (Imp.rebalanceStep d) (mkImg hdr n f) =
          mkImg { hdr with root := (up ctx t.rebalT).slot } n f' ∧
        Rep f' (up ctx t.rebalT) ∧
        (up ctx t.rebalT).slots.Perm (t.slots ++ slotsC ctx) ∧
        ∀ x, x ∉ t.slots ++ slotsC ctx → f' x = f x := by
  intro ctx
  induction ctx with
  | nil =>
    intro hdr f t hne hr _ hnd hin hroot
    cases t with
    | nil => exact absurd rfl hne
    | node c l k v h r =>
      simp only [slotsC, List.append_nil] at hnd hin
      obtain ⟨f', e, r', fr'⟩ := rebalanceStep_rep_none d hdr n f hr hnd hin hroot
      refine ⟨f', ?_, r', ?_, ?_⟩
      · simpa [pathOf, up, T.rebalT] using e
      · simp [up, T.rebalT, slotsC, T.slots_rebal]
      · simpa [slotsC] using fr'
  | cons fr ctx ih =>
    intro hdr f t hne hr hc hnd hin hroot
    cases t with
    | nil => exact absurd rfl hne
    | node c l k v h r =>
      obtain ⟨hfr, hsib, hc'⟩ := hc
      have hnd0 := hnd
      simp only [slotsC] at hnd hin
      rw [← List.append_assoc] at hnd hin
      obtain ⟨f1, h', e1, r1, fr1⟩ := rebalanceStep_rep_some d hdr n f fr hr hfr hsib
        (List.nodup_append.1 hnd).1 (fun x hx => hin x (List.mem_append_left _ hx))
      -- the new focus
      have hperm : (({ fr with h := h' } : Frame α β).fill (T.rebal c l k v r)).slots.Perm
          ((T.node c l k v h r).slots ++ fr.i :: fr.sib.slots) := by
        refine (Frame.slots_fill_perm _ _).trans ?_
        rw [T.slots_rebal, T.slots_node]
      have hperm2 := hperm.append_right (slotsC ctx)
      have hdisj := (List.nodup_append.1 hnd).2.2
      have hc1 : RepCtx f1 ctx fr.i := hc'.congr (fun x hx => fr1 x
        (fun hm => hdisj x (List.mem_append_left _ hm) x hx rfl)
        (fun e => hdisj x (List.mem_append_right _ (by simp [e])) x hx rfl))
      obtain ⟨f2, e2, r2, p2, fr2⟩ := ih hdr f1 _ (Frame.fill_ne_nil _ _) r1
        (by simpa using hc1) (hperm2.nodup_iff.2 hnd)
        (fun x hx => hin x (hperm2.mem_iff.1 hx)) (by simpa [rootSlot] using hroot)
      simp only [Frame.slot_fill] at e2
      refine ⟨f2, ?_, ?_, ?_, ?_⟩
      · simp only [pathOf, List.foldl_cons, T.slot_node, e1, up, T.rebalT]
        rw [fr.rebalFill_eq h']
        exact e2
      · simp only [up, T.rebalT]
        rw [fr.rebalFill_eq h']
        exact r2
      · simp only [up, T.rebalT]
        rw [fr.rebalFill_eq h']
        refine p2.trans (hperm2.trans ?_)
        simp [slotsC]
      · intro x hx
        have hx' : x ∉ ((T.node c l k v h r).slots ++ fr.i :: fr.sib.slots) ++ slotsC ctx := by
          simpa [slotsC] using hx
        rw [fr2 x (fun hm => hx' (hperm2.mem_iff.1 hm))]
        simp only [List.mem_append, List.mem_cons, not_or] at hx'
        exact fr1 x hx'.1.1 hx'.1.2.1

end Stevia
