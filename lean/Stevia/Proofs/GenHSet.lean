/-
  Stevia.Proofs.GenHSet — translator output for `hash_set.rs` (`Stevia.GenH.*`, regenerated from the source on every
  run) = literal model `Stevia.HImp.*`.  `hash` is the value's `DefaultHasher` digest (`hasher.finish()`), a
  parameter of everything.  Every statement is an unconditional equality of functions.
-/
import Stevia.Generated.HSet
import Stevia.Proofs.GenLemmas
import Stevia.Model.HashSetImpTerm

namespace Stevia
open HImp
variable {β : Type} [DecidableEq β]
set_option linter.unusedSectionVars false
set_option linter.unusedSimpArgs false

theorem HImp.wr_wr (m : HImage β) (i : Nat) (f g : HRec β → HRec β) :
    HImp.wr (HImp.wr m i f) i g = HImp.wr m i (g ∘ f) := by
  unfold HImp.wr
  split
  · rfl
  · simp [List.modify_modify_eq]

@[simp] theorem HImp.wr_hdr (m : HImage β) (i : Nat) (f : HRec β → HRec β) : (HImp.wr m i f).hdr = m.hdr := by
  unfold HImp.wr; split <;> rfl

namespace GenH

theorem capacity_eq (hash : β → Nat) (d : HRec β) (m : HImage β) : capacity hash d m = m.hdr.cap := rfl
theorem size_eq (hash : β → Nat) (d : HRec β) (m : HImage β) : size hash d m = m.hdr.size := rfl
theorem is_full_eq (hash : β → Nat) (d : HRec β) (m : HImage β) :
    is_full hash d m = decide (m.hdr.size ≥ m.hdr.cap) := rfl
theorem is_empty_eq (hash : β → Nat) (d : HRec β) (m : HImage β) :
    is_empty hash d m = decide (m.hdr.size = 0) := rfl

/-- `contains`: the translated scan answers what the literal scan answers, provided it leaves by its own condition
    within the fuel (`HImp.scanT`); otherwise the translation fails. -/
theorem contains_eq (hash : β → Nat) (d : HRec β) (m : HImage β) (v : β) :
    contains hash d m v =
      if m.hdr.size = 0 ∨ HImp.scanT d m v (m.recs.length + 1) (rdB d m (bucketIndex hash m v)).bucket = true
      then some (HImp.contains hash d m v) else none := by
  unfold contains HImp.contains
  simp only [forIn, is_empty_eq, bucketIndex, decide_eq_true_eq]
  by_cases h0 : m.hdr.size = 0
  · simp only [h0, true_or, if_true]; rfl
  · simp only [h0, false_or, if_false]
    generalize m.recs.length + 1 = fuel
    generalize (rdB d m (hash v % 4294967296 % m.hdr.cap)).bucket = cur
    induction fuel generalizing cur with
    | zero => rfl
    | succ n ih =>
      simp only [Fuel.forIn, scan, HImp.scanT]
      by_cases hc : cur = 0
      · simp only [hc, ne_eq, not_true_eq_false, not_false_eq_true, if_true, pure_bind]; rfl
      · by_cases hv : (rd d m cur).val = v
        · simp only [hc, hv, ne_eq, not_false_eq_true, not_true_eq_false, if_true, if_false, pure_bind]; rfl
        · simp only [hc, hv, ne_eq, not_false_eq_true, not_true_eq_false, if_true, if_false, pure_bind]
          exact ih _

theorem add_node_eq (hash : β → Nat) (d : HRec β) (m : HImage β) (v : β) :
    add_node hash d m v = HImp.addNode d m v := by
  simp only [add_node, HImp.addNode]
  -- (the capacity test may be an `if .. { panic! }` or an `assert!` of its negation)
  by_cases h1 : m.hdr.flh = m.hdr.seq
  · simp only [h1, if_true, eq_self]
    by_cases h2 : m.hdr.seq - 1 = m.hdr.cap
    · simp only [h2, ne_eq, not_true_eq_false, not_false_eq_true, Decidable.not_not, if_true, if_false, eq_self]
      first | done | rfl
    · simp only [h2, ne_eq, not_true_eq_false, not_false_eq_true, Decidable.not_not, if_true, if_false, bind, Option.bind,
        pure, HImp.wr_wr]
      first | done | rfl
  · simp only [h1, bind, Option.bind, pure, if_false, HImp.wr_wr]
    rfl

theorem remove_node_eq (hash : β → Nat) (d : HRec β) (m : HImage β) (i : Nat) (hi : i ≠ 0) :
    remove_node hash d m i = (HImp.removeNode d m i, some (rd d m i).val) := by
  simp only [remove_node, HImp.removeNode, Id.run, bind, pure, hi, if_false, HImp.wr_wr, HImp.wr_hdr]
  rfl

/-- The state `(early result, current, left by its condition)` of the scan loop of `insert` after `n` iterations. -/
def scanSt (d : HRec β) (m : HImage β) (v : β) :
    Nat → Option (HImage β × Bool) × Nat × Bool → Option (HImage β × Bool) × Nat × Bool
  | 0, s => s
  | n + 1, s =>
    if s.2.1 = 0 then (none, s.2.1, true)
    else if (rd d m s.2.1).val = v then (some (m, false), s.2.1, s.2.2)
    else scanSt d m v n (none, (rd d m s.2.1).next, s.2.2)

theorem scanSt_spec (d : HRec β) (m : HImage β) (v : β) (n cur : Nat) :
    ((scanSt d m v n (none, cur, false)).1 = if scan d m v n cur then some (m, false) else none) ∧
    (scan d m v n cur = false → (scanSt d m v n (none, cur, false)).2.2 = HImp.scanT d m v n cur) ∧
    (scan d m v n cur = true → HImp.scanT d m v n cur = true) := by
  induction n generalizing cur with
  | zero => exact ⟨rfl, fun _ => rfl, fun h => by simp [scan] at h⟩
  | succ n ih =>
    simp only [scanSt, scan, HImp.scanT]
    by_cases hc : cur = 0
    · simp [hc]
    · by_cases hv : (rd d m cur).val = v
      · simp [hc, hv]
      · simp only [hc, hv, if_false]; exact ih _

theorem insert_eq (hash : β → Nat) (d : HRec β) (m : HImage β) (v : β) :
    insert hash d m v =
      if m.hdr.size = m.hdr.cap ∨ HImp.scanT d m v (m.recs.length + 1) (rdB d m (bucketIndex hash m v)).bucket = true
      then HImp.insertO hash d m v else none := by
  unfold insert HImp.insertO
  simp only [forIn, size_eq, capacity_eq, add_node_eq, bucketIndex]
  by_cases h0 : m.hdr.size = m.hdr.cap
  · simp only [h0, true_or, if_true]; rfl
  · simp only [h0, false_or, if_false]
    rw [Fuel.forIn_eq_of_opt _ (scanSt d m v) (fun s => rfl)]
    · obtain ⟨h1, h2, h3⟩ := scanSt_spec d m v (m.recs.length + 1) (rdB d m (hash v % 4294967296 % m.hdr.cap)).bucket
      simp only [Option.bind_eq_bind, Option.bind_some, h1]
      by_cases hs : scan d m v (m.recs.length + 1) (rdB d m (hash v % 4294967296 % m.hdr.cap)).bucket = true
      · simp only [hs, h3 hs, if_true]; rfl
      · have hs' : scan d m v (m.recs.length + 1) (rdB d m (hash v % 4294967296 % m.hdr.cap)).bucket = false := by
          simpa using hs
        simp only [hs', Bool.false_eq_true, if_false, h2 hs']
        by_cases hT : HImp.scanT d m v (m.recs.length + 1) (rdB d m (hash v % 4294967296 % m.hdr.cap)).bucket = true
        · simp only [hT, not_true_eq_false, if_false, if_true]
          cases HImp.addNode d m v <;> rfl
        · simp only [hT, Bool.false_eq_true, not_false_eq_true, if_true, if_false]; rfl
    · intro n s
      obtain ⟨r, cur, ex⟩ := s
      simp only [scanSt]
      by_cases hc : cur = 0
      · simp only [hc, ne_eq, not_true_eq_false, not_false_eq_true, if_true]; rfl
      · by_cases hv : (rd d m cur).val = v
        · simp only [hc, hv, ne_eq, not_false_eq_true, not_true_eq_false, if_true, if_false]; rfl
        · simp only [hc, hv, ne_eq, not_false_eq_true, not_true_eq_false, if_true, if_false]; rfl

/-- The state `(early result, image, current, previous, left by its condition)` of the unlink loop of `remove`. -/
def remSt (d : HRec β) (v : β) (index : Nat) :
    Nat → Option (HImage β × Bool) × HImage β × Nat × Nat × Bool →
      Option (HImage β × Bool) × HImage β × Nat × Nat × Bool
  | 0, s => s
  | n + 1, s =>
    let mm := s.2.1
    let cur := s.2.2.1
    let prev := s.2.2.2.1
    if cur = 0 then (none, mm, cur, prev, true)
    else if (rd d mm cur).val = v then
      let m1 :=
        if prev = 0 then wrB mm index fun r => { r with bucket := (rd d mm cur).next }
        else wr mm prev fun r => { r with next := (rd d mm cur).next }
      (some (HImp.removeNode d m1 cur, true), HImp.removeNode d m1 cur, cur, prev, s.2.2.2.2)
    else remSt d v index n (none, mm, (rd d mm cur).next, cur, s.2.2.2.2)

theorem remSt_spec (d : HRec β) (v : β) (index : Nat) (mm : HImage β) (n cur prev : Nat) :
    (match (remSt d v index n (none, mm, cur, prev, false)).1 with
      | some r => some r
      | none => if (remSt d v index n (none, mm, cur, prev, false)).2.2.2.2 = true
          then some ((remSt d v index n (none, mm, cur, prev, false)).2.1, false) else none)
    = if HImp.scanT d mm v n cur then some (removeScan d mm v index n cur prev) else none := by
  induction n generalizing cur prev with
  | zero => rfl
  | succ n ih =>
    simp only [remSt, removeScan, HImp.scanT]
    by_cases hc : cur = 0
    · simp [hc]
    · by_cases hv : (rd d mm cur).val = v
      · simp [hc, hv]
      · simp only [hc, hv, if_false]; exact ih _ _

/-- `remove`: the translation is the literal `remove`, provided the chain scan leaves by its own condition (or finds
    the value) within the fuel; otherwise it fails. -/
theorem remove_eq (hash : β → Nat) (d : HRec β) (m : HImage β) (v : β) :
    remove hash d m v =
      if m.hdr.size = 0 ∨ HImp.scanT d m v (m.recs.length + 1) (rdB d m (bucketIndex hash m v)).bucket = true
      then some (HImp.remove hash d m v) else none := by
  unfold remove HImp.remove
  simp only [forIn, is_empty_eq, bucketIndex, decide_eq_true_eq]
  by_cases h0 : m.hdr.size = 0
  · simp only [h0, true_or, if_true]; rfl
  · simp only [h0, false_or, if_false]
    rw [Fuel.forIn_eq_of_opt _ (remSt d v (hash v % 4294967296 % m.hdr.cap)) (fun s => rfl)]
    · have := remSt_spec d v (hash v % 4294967296 % m.hdr.cap) m (m.recs.length + 1)
        (rdB d m (hash v % 4294967296 % m.hdr.cap)).bucket 0
      simp only [Option.bind_eq_bind, Option.bind_some]
      rw [← this]
      cases (remSt d v (hash v % 4294967296 % m.hdr.cap) (m.recs.length + 1)
        (none, m, (rdB d m (hash v % 4294967296 % m.hdr.cap)).bucket, 0, false)).1 with
      | some r => rfl
      | none =>
        simp only []
        by_cases hx : (remSt d v (hash v % 4294967296 % m.hdr.cap) (m.recs.length + 1)
          (none, m, (rdB d m (hash v % 4294967296 % m.hdr.cap)).bucket, 0, false)).2.2.2.2 = true
        · simp only [hx, not_true_eq_false, if_false, if_true]; rfl
        · simp only [hx, not_false_eq_true, if_true, if_false]; rfl
    · intro n s
      obtain ⟨r, mm, cur, prev, ex⟩ := s
      simp only [remSt]
      by_cases hc : cur = 0
      · simp only [hc, ne_eq, not_true_eq_false, not_false_eq_true, if_true]; rfl
      · by_cases hv : (rd d mm cur).val = v
        · by_cases hp : prev = 0
          · simp only [hc, hv, hp, ne_eq, not_false_eq_true, not_true_eq_false, if_true, if_false,
              remove_node_eq hash d _ _ hc, Option.isSome_some]
            rfl
          · simp only [hc, hv, hp, ne_eq, not_false_eq_true, not_true_eq_false, if_true, if_false,
              remove_node_eq hash d _ _ hc, Option.isSome_some]
            rfl
        · simp only [hc, hv, ne_eq, not_false_eq_true, not_true_eq_false, if_true, if_false]; rfl

end GenH
end Stevia
