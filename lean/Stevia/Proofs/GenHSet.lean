/-
  Stevia.Proofs.GenHSet — translator output for `hash_set.rs` (`Stevia.GenH.*`, regenerated from the source on every
  run) = literal model `Stevia.HImp.*`.  `hash` is the value's `DefaultHasher` digest (`hasher.finish()`), a
  parameter of everything.  Every statement is an unconditional equality of functions.
-/
import Stevia.Generated.HSet
import Stevia.Proofs.GenLemmas

namespace Stevia
open HImp
variable {β : Type} [DecidableEq β]
set_option linter.unusedSectionVars false
set_option linter.unusedSimpArgs false

theorem HImp.wr_wr (m : HImage β) (i : Nat) (f g : HRec β → HRec β) :
    HImp.wr (HImp.wr m i f) i g = HImp.wr m i (g ∘ f) := by
  unfold HImp.wr
  split
  · rfl
  · simp [List.modify_modify_eq]

@[simp] theorem HImp.wr_hdr (m : HImage β) (i : Nat) (f : HRec β → HRec β) : (HImp.wr m i f).hdr = m.hdr := by
  unfold HImp.wr; split <;> rfl

namespace GenH

theorem capacity_eq (hash : β → Nat) (d : HRec β) (m : HImage β) : capacity hash d m = m.hdr.cap := rfl
theorem size_eq (hash : β → Nat) (d : HRec β) (m : HImage β) : size hash d m = m.hdr.size := rfl
theorem is_full_eq (hash : β → Nat) (d : HRec β) (m : HImage β) :
    is_full hash d m = decide (m.hdr.size ≥ m.hdr.cap) := rfl
theorem is_empty_eq (hash : β → Nat) (d : HRec β) (m : HImage β) :
    is_empty hash d m = decide (m.hdr.size = 0) := rfl

/-- The scan loop shared by `contains` and `insert`. -/
theorem contains_eq (hash : β → Nat) (d : HRec β) (m : HImage β) (v : β) :
    contains hash d m v = HImp.contains hash d m v := by
  unfold contains HImp.contains
  simp only [forIn, Id.run, is_empty_eq, bucketIndex, decide_eq_true_eq]
  by_cases h0 : m.hdr.size = 0
  · simp only [h0, if_true]; rfl
  · simp only [h0, if_false]
    generalize m.recs.length + 1 = fuel
    generalize (rdB d m (hash v % 4294967296 % m.hdr.cap)).bucket = cur
    induction fuel generalizing cur with
    | zero => rfl
    | succ n ih =>
      simp only [Fuel.forIn, scan, ← ih]
      repeat' split
      all_goals first | rfl | simp_all

theorem add_node_eq (hash : β → Nat) (d : HRec β) (m : HImage β) (v : β) :
    add_node hash d m v = HImp.addNode d m v := by
  simp only [add_node, HImp.addNode]
  by_cases h1 : m.hdr.flh = m.hdr.seq
  · simp only [h1, if_true]
    split
    · rfl
    · simp only [bind, Option.bind, pure, HImp.wr_wr]
      rfl
  · simp only [h1, bind, Option.bind, pure, if_false, HImp.wr_wr]
    rfl

theorem remove_node_eq (hash : β → Nat) (d : HRec β) (m : HImage β) (i : Nat) (hi : i ≠ 0) :
    remove_node hash d m i = (HImp.removeNode d m i, some (rd d m i).val) := by
  simp only [remove_node, HImp.removeNode, Id.run, bind, pure, hi, if_false, HImp.wr_wr, HImp.wr_hdr]
  rfl

/-- The state of the scan loop of `insert` after `n` iterations. -/
def scanSt (d : HRec β) (m : HImage β) (v : β) :
    Nat → Option (HImage β × Bool) × Nat → Option (HImage β × Bool) × Nat
  | 0, s => s
  | n + 1, s =>
    if s.2 = 0 then (none, s.2)
    else if (rd d m s.2).val = v then (some (m, false), s.2)
    else scanSt d m v n (none, (rd d m s.2).next)

theorem scanSt_fst (d : HRec β) (m : HImage β) (v : β) (n cur : Nat) :
    (scanSt d m v n (none, cur)).1 = if scan d m v n cur then some (m, false) else none := by
  induction n generalizing cur with
  | zero => rfl
  | succ n ih =>
    simp only [scanSt, scan]
    by_cases hc : cur = 0
    · simp [hc]
    · by_cases hv : (rd d m cur).val = v
      · simp [hc, hv]
      · simp only [hc, hv, if_false]; exact ih _

theorem insert_eq (hash : β → Nat) (d : HRec β) (m : HImage β) (v : β) :
    (insert hash d m v).getD (m, false) = HImp.insert hash d m v := by
  unfold insert HImp.insert
  simp only [forIn, size_eq, capacity_eq, add_node_eq, bucketIndex]
  by_cases h0 : m.hdr.size = m.hdr.cap
  · simp only [h0, if_true]; rfl
  · simp only [h0, if_false]
    rw [Fuel.forIn_eq_of_opt _ (scanSt d m v) (fun s => rfl)]
    · simp only [Option.bind_eq_bind, Option.bind_some, scanSt_fst]
      by_cases hs : scan d m v (m.recs.length + 1) (rdB d m (hash v % 4294967296 % m.hdr.cap)).bucket = true
      · simp only [hs, if_true]; rfl
      · simp only [hs, if_false]
        cases HImp.addNode d m v <;> rfl
    · intro n s
      obtain ⟨r, cur⟩ := s
      simp only [scanSt]
      by_cases hc : cur = 0
      · simp only [hc, ne_eq, not_true_eq_false, not_false_eq_true, if_true]; rfl
      · by_cases hv : (rd d m cur).val = v
        · simp only [hc, hv, ne_eq, not_false_eq_true, not_true_eq_false, if_true, if_false]; rfl
        · simp only [hc, hv, ne_eq, not_false_eq_true, not_true_eq_false, if_true, if_false]; rfl

/-- The state `(early result, image, current, previous)` of the unlink loop of `remove` after `n` iterations. -/
def remSt (d : HRec β) (v : β) (index : Nat) :
    Nat → Option (HImage β × Bool) × HImage β × Nat × Nat → Option (HImage β × Bool) × HImage β × Nat × Nat
  | 0, s => s
  | n + 1, s =>
    let mm := s.2.1
    let cur := s.2.2.1
    let prev := s.2.2.2
    if cur = 0 then (none, mm, cur, prev)
    else if (rd d mm cur).val = v then
      let m1 :=
        if prev = 0 then wrB mm index fun r => { r with bucket := (rd d mm cur).next }
        else wr mm prev fun r => { r with next := (rd d mm cur).next }
      (some (HImp.removeNode d m1 cur, true), HImp.removeNode d m1 cur, cur, prev)
    else remSt d v index n (none, mm, (rd d mm cur).next, cur)

theorem remSt_spec (d : HRec β) (v : β) (index : Nat) (mm : HImage β) (n cur prev : Nat) :
    (match (remSt d v index n (none, mm, cur, prev)).1 with
      | some r => r
      | none => ((remSt d v index n (none, mm, cur, prev)).2.1, false)) = removeScan d mm v index n cur prev := by
  induction n generalizing cur prev with
  | zero => rfl
  | succ n ih =>
    simp only [remSt, removeScan]
    by_cases hc : cur = 0
    · simp [hc]
    · by_cases hv : (rd d mm cur).val = v
      · simp [hc, hv]
      · simp only [hc, hv, if_false]; exact ih _ _

theorem remove_eq (hash : β → Nat) (d : HRec β) (m : HImage β) (v : β) :
    remove hash d m v = HImp.remove hash d m v := by
  unfold remove HImp.remove
  simp only [forIn, Id.run, is_empty_eq, bucketIndex, decide_eq_true_eq]
  by_cases h0 : m.hdr.size = 0
  · simp only [h0, if_true]; rfl
  · simp only [h0, if_false]
    rw [Fuel.forIn_eq_of _ (remSt d v (hash v % 4294967296 % m.hdr.cap)) (fun s => rfl)]
    · simp only [pure_bind]
      have := remSt_spec d v (hash v % 4294967296 % m.hdr.cap) m (m.recs.length + 1)
        (rdB d m (hash v % 4294967296 % m.hdr.cap)).bucket 0
      rw [← this]
      cases (remSt d v (hash v % 4294967296 % m.hdr.cap) (m.recs.length + 1)
        (none, m, (rdB d m (hash v % 4294967296 % m.hdr.cap)).bucket, 0)).1 <;> rfl
    · intro n s
      obtain ⟨r, mm, cur, prev⟩ := s
      simp only [remSt]
      by_cases hc : cur = 0
      · simp only [hc, ne_eq, not_true_eq_false, not_false_eq_true, if_true]; rfl
      · by_cases hv : (rd d mm cur).val = v
        · by_cases hp : prev = 0
          · simp only [hc, hv, hp, ne_eq, not_false_eq_true, not_true_eq_false, if_true, if_false,
              remove_node_eq hash d _ _ hc, Option.isSome_some]
            rfl
          · simp only [hc, hv, hp, ne_eq, not_false_eq_true, not_true_eq_false, if_true, if_false,
              remove_node_eq hash d _ _ hc, Option.isSome_some]
            rfl
        · simp only [hc, hv, ne_eq, not_false_eq_true, not_true_eq_false, if_true, if_false]; rfl

end GenH
end Stevia
