/-
  Stevia.Proofs.GenHSetRun — simulation of the functional hash-set model by the translated source (`hash_set.rs`,
  `Stevia.GenH.*`) over whole histories: from the layout of any well-formed set (in particular from `initialize` on a
  zero-filled buffer), running the translated operations yields at every step `some` of the model's answer and ends in
  the layout of the model's final state.
-/
import Stevia.Proofs.GenHSet
import Stevia.Proofs.HashSetImpTerm
import Stevia.Proofs.GenInit

namespace Stevia
variable {γ : Type} [DecidableEq γ]

namespace GenH

/-- One operation of the translated source on an image, with its answer. -/
def stepImg (hash : γ → Nat) (d : HRec γ) (m : HImage γ) : SetOp γ → Option (HImage γ × SetOut)
  | .insert v => (insert hash d m v).map fun r => (r.1, .bool r.2)
  | .remove v => (remove hash d m v).map fun r => (r.1, .bool r.2)
  | .contains v => (contains hash d m v).map fun r => (m, .bool r)
  | .size => some (m, .nat (size hash d m))
  | .isEmpty => some (m, .bool (is_empty hash d m))
  | .isFull => some (m, .bool (is_full hash d m))

def runImg (hash : γ → Nat) (d : HRec γ) : HImage γ → List (SetOp γ) → Option (HImage γ × List SetOut)
  | m, [] => some (m, [])
  | m, op :: ops => (stepImg hash d m op).bind fun r => (runImg hash d r.1 ops).map fun q => (q.1, r.2 :: q.2)

theorem insert_refines (hash : γ → Nat) (vd : γ) (s s' : HSet γ) (h : s.Inv hash) (v : γ) (r : Bool)
    (hi : s.insert hash v = .ok (s', r)) :
    insert hash (HImp.dflt vd) (s.image vd) v = some (s'.image vd, r) := by
  have hlen : (s.image vd).recs.length = s.slots := HSet.image_recs_length vd s
  rw [insert_eq, HImp.insertO_image hash vd s h v, HImp.insert_eq hash vd s s' h v r hi, hlen]
  by_cases hfull : (s.image vd).hdr.size = (s.image vd).hdr.cap
  · simp only [hfull, true_or, if_true]
  · have hc : s.cap ≠ 0 := by
      intro hc0
      have hle := h.size_le_cap
      have : s.size = s.cap := by omega
      exact hfull this
    simp only [HImp.scanT_image_cap hash vd s h v hc, or_true, if_true]

theorem remove_refines (hash : γ → Nat) (vd : γ) (s s' : HSet γ) (h : s.Inv hash) (v : γ) (r : Bool)
    (hr : s.remove hash v = .ok (s', r)) :
    remove hash (HImp.dflt vd) (s.image vd) v = some (s'.image vd, r) := by
  have hlen : (s.image vd).recs.length = s.slots := HSet.image_recs_length vd s
  have hsize : (s.image vd).hdr.size = s.size := rfl
  rw [remove_eq, HImp.remove_eq hash vd s s' h v r hr, hlen, hsize]
  rcases HImp.scanT_image hash vd s h v with h0 | hT
  · simp only [h0, true_or, if_true]
  · simp only [hT, or_true, if_true]

theorem contains_refines (hash : γ → Nat) (vd : γ) (s : HSet γ) (h : s.Inv hash) (v : γ) (b : Bool)
    (hc : s.contains hash v = .ok b) :
    contains hash (HImp.dflt vd) (s.image vd) v = some b := by
  have hlen : (s.image vd).recs.length = s.slots := HSet.image_recs_length vd s
  have hsize : (s.image vd).hdr.size = s.size := rfl
  have he := HImp.contains_eq hash vd s h v
  rw [hc] at he
  cases he
  rw [contains_eq, hlen, hsize]
  rcases HImp.scanT_image hash vd s h v with h0 | hT
  · simp only [h0, true_or, if_true]
  · simp only [hT, or_true, if_true]

/-- Single step: the translated operation on the layout of a well-formed set answers `some` of the model's next
    layout and answer. -/
theorem step_refines (hash : γ → Nat) (vd : γ) (s : HSet γ) (h : s.Inv hash) (op : SetOp γ) :
    ∃ s' o, s.setStep hash op = .ok (s', o) ∧ s'.Inv hash ∧
      stepImg hash (HImp.dflt vd) (s.image vd) op = some (s'.image vd, o) := by
  obtain ⟨s', hstep, hinv, _, _⟩ := HSet.setStep_refines h s.members (List.Perm.refl _) op
  refine ⟨s', _, hstep, hinv, ?_⟩
  cases op with
  | insert v =>
    simp only [HSet.setStep] at hstep
    cases hi : s.insert hash v with
    | error e => rw [hi] at hstep; cases hstep
    | ok pr =>
      obtain ⟨s1, r⟩ := pr
      rw [hi] at hstep
      simp only [Except.map, Except.ok.injEq, Prod.mk.injEq] at hstep
      obtain ⟨e1, e2⟩ := hstep
      subst e1
      simp only [stepImg, insert_refines hash vd s s1 h v r hi, Option.map_some, e2]
  | remove v =>
    simp only [HSet.setStep] at hstep
    cases hi : s.remove hash v with
    | error e => rw [hi] at hstep; cases hstep
    | ok pr =>
      obtain ⟨s1, r⟩ := pr
      rw [hi] at hstep
      simp only [Except.map, Except.ok.injEq, Prod.mk.injEq] at hstep
      obtain ⟨e1, e2⟩ := hstep
      subst e1
      simp only [stepImg, remove_refines hash vd s s1 h v r hi, Option.map_some, e2]
  | contains v =>
    simp only [HSet.setStep] at hstep
    cases hi : s.contains hash v with
    | error e => rw [hi] at hstep; cases hstep
    | ok b =>
      rw [hi] at hstep
      simp only [Except.map, Except.ok.injEq, Prod.mk.injEq] at hstep
      obtain ⟨e1, e2⟩ := hstep
      subst e1
      simp only [stepImg, contains_refines hash vd s h v b hi, Option.map_some, e2]
  | size =>
    simp only [HSet.setStep, Except.ok.injEq, Prod.mk.injEq] at hstep
    obtain ⟨e1, e2⟩ := hstep
    subst e1
    simp only [stepImg, ← e2]; rfl
  | isEmpty =>
    simp only [HSet.setStep, Except.ok.injEq, Prod.mk.injEq] at hstep
    obtain ⟨e1, e2⟩ := hstep
    subst e1
    simp only [stepImg, ← e2]
    show some (_, SetOut.bool (decide (s.size = 0))) = some (_, SetOut.bool (s.size == 0))
    by_cases h0 : s.size = 0 <;> simp [h0]
  | isFull =>
    simp only [HSet.setStep, Except.ok.injEq, Prod.mk.injEq] at hstep
    obtain ⟨e1, e2⟩ := hstep
    subst e1
    simp only [stepImg, ← e2]; rfl

/-- **Whole histories**: whatever the model answers over a history from a well-formed set, the translated source run
    on the layout answers the same, step by step, and ends in the layout of the model's final state. -/
theorem run_refines (hash : γ → Nat) (vd : γ) (s : HSet γ) (h : s.Inv hash) (ops : List (SetOp γ)) :
    ∃ s' outs, s.setRun hash ops = .ok (s', outs) ∧ s'.Inv hash ∧
      runImg hash (HImp.dflt vd) (s.image vd) ops = some (s'.image vd, outs) := by
  induction ops generalizing s with
  | nil => exact ⟨s, [], rfl, h, rfl⟩
  | cons op ops ih =>
    obtain ⟨s1, o, hstep, hinv, himg⟩ := step_refines hash vd s h op
    obtain ⟨s', outs, hrun, hinv', himg'⟩ := ih s1 hinv
    refine ⟨s', o :: outs, ?_, hinv', ?_⟩
    · simp only [HSet.setRun, hstep, hrun]
    · simp only [runImg, himg, Option.bind_some, himg', Option.map_some]

end GenH
end Stevia
