/-
  Stevia.Proofs.GenTreeBal32 — translator output for `avl_tree.rs` (`Stevia.Gen32.*`, regenerated from the source on
  every run) = literal model `Stevia.Imp.*` at the 32-bit configuration: height registers, child links, balance factor, rotations and the bottom-up `rebalance` loop.
  Every statement is an unconditional equality of functions; a source change that alters what one of these
  functions computes makes its proof fail.
-/
import Stevia.Generated.Avl32Bal
import Stevia.Proofs.GenLemmas

namespace Stevia
open Imp
variable {α β : Type} [LinOrd α]
set_option linter.unusedSectionVars false
set_option linter.unusedSimpArgs false

namespace Gen32

theorem update_height_eq (d : Rec α β) (m : TreeImage α β) (i : Nat) :
    update_height d m i = Imp.updateHeight d m i := by
  simp only [update_height, Imp.updateHeight, Id.run, pure, bind]
  first
  | done
  | (split <;> rfl)
  | (repeat' split
     all_goals (first | rfl | simp_all | omega))

theorem update_child_eq (d : Rec α β) (m : TreeImage α β) (p : Nat) (b : Bool) (ch : Nat) :
    update_child d m p b ch = Imp.updateChild d m p b ch := by
  simp only [update_child, Imp.updateChild, Id.run, pure, bind, update_height_eq]
  first
  | done
  | (cases b <;> rfl)

theorem balance_factor_eq (d : Rec α β) (m : TreeImage α β) (l r : Nat) :
    balance_factor d m l r = Imp.balanceFactor d m l r := by
  first
  | rfl
  | -- the computation split over extracted helpers (`@[simp]`, emitted by the translator): unfold and compare by cases
    (simp [balance_factor, Imp.balanceFactor, Id.run]
     repeat' split
     all_goals (first | rfl | omega | (simp only [pure, Pure.pure] at *; omega) | simp_all))

theorem left_rotate_eq (d : Rec α β) (m : TreeImage α β) (i : Nat) :
    left_rotate d m i = Imp.leftRotate d m i := by
  simp only [left_rotate, Imp.leftRotate, Id.run, pure, bind, update_child_eq]

theorem right_rotate_eq (d : Rec α β) (m : TreeImage α β) (i : Nat) :
    right_rotate d m i = Imp.rightRotate d m i := by
  simp only [right_rotate, Imp.rightRotate, Id.run, pure, bind, update_child_eq]

theorem rebalance_eq (d : Rec α β) (m : TreeImage α β) (path : List Ancestor) :
    rebalance d m path = Imp.rebalance d m path := by
  unfold rebalance Imp.rebalance
  simp only [Id.run, bind, pure]
  rw [forIn_eq_foldl_of _ _ _ (Imp.rebalanceStep d)]
  · rfl
  · intro e m
    obtain ⟨parent, branch, child⟩ := e
    simp only [Imp.rebalanceStep, balance_factor_eq, left_rotate_eq, right_rotate_eq, update_child_eq, update_height_eq,
      gt_iff_lt]
    by_cases h1 : 1 < balanceFactor d m (rd d m child).left (rd d m child).right
    · by_cases h2 : balanceFactor d m (rd d m (rd d m child).left).left (rd d m (rd d m child).left).right < 0 <;>
        cases parent <;> simp [h1, h2, default, setRoot] <;> rfl
    · by_cases h3 : balanceFactor d m (rd d m child).left (rd d m child).right < -1
      · by_cases h4 : 0 < balanceFactor d m (rd d m (rd d m child).right).left (rd d m (rd d m child).right).right <;>
          cases parent <;> simp [h1, h3, h4, default, setRoot] <;> rfl
      · simp [h1, h3] <;> rfl

end Gen32
end Stevia
