/-
  Stevia.Proofs.TreeImpRep — "the memory `f` represents the tree `t`": every node of `t` has its
  record in `f` at its slot.  Reads of the literal model on represented trees, and the read-only
  algorithms (`find`, `lowest`) plus the in-place value write.
-/
import Stevia.Proofs.TreeImpMem

namespace Stevia
variable {α β : Type}

/-- The record of a live node. -/
def T.rc (l : T α β) (k : α) (v : β) (h : Nat) (r : T α β) : Rec α β :=
  ⟨l.slot, r.slot, h, 0, k, v⟩

/-- `f` holds the record of every node of `t` at the node's slot. -/
def Rep (f : Nat → Rec α β) : T α β → Prop
  | .nil => True
  | .node i l k v h r => f i = T.rc l k v h r ∧ Rep f l ∧ Rep f r

/-- All slots of the tree are valid record indices. -/
def T.In (n : Nat) (t : T α β) : Prop := ∀ i ∈ t.slots, 1 ≤ i ∧ i ≤ n

namespace T

@[simp] theorem slot_nil : (T.nil : T α β).slot = 0 := rfl
@[simp] theorem slot_node (i : Nat) (l : T α β) (k : α) (v : β) (h : Nat) (r : T α β) :
    (T.node i l k v h r).slot = i := rfl
@[simp] theorem slot_mk (i : Nat) (l : T α β) (k : α) (v : β) (r : T α β) :
    (T.mk i l k v r).slot = i := rfl
@[simp] theorem left_node (i : Nat) (l : T α β) (k : α) (v : β) (h : Nat) (r : T α β) :
    (T.node i l k v h r).left = l := rfl
@[simp] theorem right_node (i : Nat) (l : T α β) (k : α) (v : β) (h : Nat) (r : T α β) :
    (T.node i l k v h r).right = r := rfl

theorem in_nil (n : Nat) : (T.nil : T α β).In n := by intro i hi; simp at hi

theorem In.left {n i : Nat} {l : T α β} {k : α} {v : β} {h : Nat} {r : T α β}
    (hin : (node i l k v h r).In n) : l.In n := fun j hj => hin j (by simp [hj])

theorem In.right {n i : Nat} {l : T α β} {k : α} {v : β} {h : Nat} {r : T α β}
    (hin : (node i l k v h r).In n) : r.In n := fun j hj => hin j (by simp [hj])

theorem In.root {n i : Nat} {l : T α β} {k : α} {v : β} {h : Nat} {r : T α β}
    (hin : (node i l k v h r).In n) : 1 ≤ i ∧ i ≤ n := hin i (by simp)

theorem In.node {n i : Nat} {l : T α β} {k : α} {v : β} {h : Nat} {r : T α β}
    (hi : 1 ≤ i ∧ i ≤ n) (hl : l.In n) (hr : r.In n) : (node i l k v h r).In n := by
  intro j hj
  simp only [slots_node, List.mem_append, List.mem_cons] at hj
  rcases hj with hj | rfl | hj
  · exact hl j hj
  · exact hi
  · exact hr j hj

theorem In.slot_le {n : Nat} {t : T α β} (hin : t.In n) : t.slot ≤ n := by
  cases t with
  | nil => simp [slot]
  | node i l k v h r => exact hin.root.2

theorem In.slot_eq_zero {n : Nat} {t : T α β} (hin : t.In n) : t.slot = 0 ↔ t = nil := by
  cases t with
  | nil => simp [slot]
  | node i l k v h r => have := hin.root; simp [slot]; omega

theorem In.of_slots_eq {n : Nat} {t t' : T α β} (h : t'.slots = t.slots) (hin : t.In n) : t'.In n := by
  intro i hi; rw [h] at hi; exact hin i hi

end T

theorem Rep.congr {f g : Nat → Rec α β} {t : T α β} (h : ∀ i ∈ t.slots, g i = f i) (hr : Rep f t) :
    Rep g t := by
  induction t with
  | nil => trivial
  | node i l k v hh r ihl ihr =>
    obtain ⟨h1, h2, h3⟩ := hr
    exact ⟨(h i (by simp)).trans h1, ihl (fun j hj => h j (by simp [hj])) h2,
      ihr (fun j hj => h j (by simp [hj])) h3⟩

theorem Rep.upd_of_not_mem {f : Nat → Rec α β} {t : T α β} {i : Nat} (rc : Rec α β)
    (hni : i ∉ t.slots) (hr : Rep f t) : Rep (upd f i rc) t :=
  hr.congr fun j hj => upd_ne _ _ (fun e => hni (e ▸ hj))

theorem Rep.of_isSub {f : Nat → Rec α β} {t t' : T α β} (hr : Rep f t) (hs : T.IsSub t' t) : Rep f t' := by
  induction hs with
  | refl => exact hr
  | left _ ih => exact ih hr.2.1
  | right _ ih => exact ih hr.2.2

/-- The layout represents the tree of the state. -/
theorem Tree.rep_recAt (c : TreeCfg) (kd : α) (vd : β) (s : Tree α β) (hnd : s.root.slots.Nodup) :
    Rep (s.recAt c kd vd) s.root := by
  suffices h : ∀ t' : T α β, T.IsSub t' s.root → Rep (s.recAt c kd vd) t' from h _ (.refl _)
  intro t'
  induction t' with
  | nil => intro _; trivial
  | node i l k v hh r ihl ihr =>
    intro hs
    exact ⟨(Tree.recAt_node c kd vd s hnd hs).2, ihl (T.IsSub.trans (.left (.refl _)) hs),
      ihr (T.IsSub.trans (.right (.refl _)) hs)⟩

theorem Rep.hgt_slot {f : Nat → Rec α β} {t : T α β} {n : Nat} (hr : Rep f t) (hin : t.In n) :
    hgt f t.slot = t.ht := by
  cases t with
  | nil => simp [hgt, T.slot]
  | node i l k v h r =>
    have := hin.root
    simp [hgt, T.slot, hr.1, T.rc, show i ≠ 0 by omega]

/-- Reading a node of a represented tree. -/
theorem Rep.rd {f : Nat → Rec α β} {n i : Nat} {l : T α β} {k : α} {v : β} {h : Nat} {r : T α β}
    (hr : Rep f (.node i l k v h r)) (hin : (T.node i l k v h r).In n) (d : Rec α β) (hdr : Hdr) :
    Imp.rd d (mkImg hdr n f) i = T.rc l k v h r := by
  rw [rd_mkImg d hdr n f hin.root.1 hin.root.2, hr.1]

/-- If `f` represents `t` and holds the allocator records of `s'` elsewhere, the image is the layout. -/
theorem mkImg_eq_image (c : TreeCfg) (kd : α) (vd : β) (s' : Tree α β) (f : Nat → Rec α β)
    (hnd : s'.root.slots.Nodup) (hr : Rep f s'.root)
    (hfree : ∀ j, 1 ≤ j → j ≤ s'.slots → j ∉ s'.root.slots → f j = s'.recAt c kd vd j) :
    mkImg (s'.hdr c) s'.slots f = s'.image c kd vd := by
  rw [Tree.image_eq_mkImg]
  apply mkImg_congr
  intro j h1 h2
  by_cases hm : j ∈ s'.root.slots
  · obtain ⟨l, k, v, hh, r, hs⟩ := T.exists_isSub_of_mem_slots hm
    rw [(Tree.recAt_node c kd vd s' hnd hs).2]
    exact (hr.of_isSub hs).1
  · exact hfree j h1 h2 hm

/-- The record of a slot that is not a tree node: recycled or never used. -/
def Tree.freeRec (c : TreeCfg) (kd : α) (vd : β) (s : Tree α β) (j : Nat) : Rec α β :=
  match freeNext (s.seqReg c) s.free j with
  | some nxt => { left := 0, right := 0, height := nxt, pad := 0, key := kd, val := vd }
  | none => { left := 0, right := 0, height := 0, pad := 0, key := kd, val := vd }

/-- Outside the tree the record depends only on the allocator. -/
theorem Tree.recAt_of_not_mem (c : TreeCfg) (kd : α) (vd : β) (s : Tree α β) {j : Nat}
    (h : j ∉ s.root.slots) : s.recAt c kd vd j = s.freeRec c kd vd j := by
  unfold Tree.recAt Tree.freeRec
  rw [T.sub_none h]
  cases freeNext (s.seqReg c) s.free j <;> rfl

section Find
variable [LinOrd α]

theorem find_rep (d : Rec α β) (hdr : Hdr) (n : Nat) (f : Nat → Rec α β) (key : α) :
    ∀ (t : T α β) (fuel : Nat), Rep f t → t.In n → t.height ≤ fuel →
      Imp.find d (mkImg hdr n f) key fuel t.slot = (t.find key).map (·.1) := by
  intro t
  induction t with
  | nil =>
    intro fuel _ _ _
    cases fuel <;> simp [Imp.find, T.slot, T.find]
  | node i l k v h r ihl ihr =>
    intro fuel hr hin hf
    simp only [T.height] at hf
    obtain ⟨fuel, rfl⟩ : ∃ f', fuel = f' + 1 := ⟨fuel - 1, by omega⟩
    have hi := hin.root
    simp only [Imp.find, T.slot, T.find, hr.rd hin d hdr, T.rc, if_neg (show i ≠ 0 by omega)]
    split
    · exact ihl fuel hr.2.1 hin.left (by omega)
    · split
      · exact ihr fuel hr.2.2 hin.right (by omega)
      · rfl

end Find

/-- `lowestGo` walks to the node holding the minimum key. -/
theorem lowestGo_rep (d : Rec α β) (hdr : Hdr) (n : Nat) (f : Nat → Rec α β) :
    ∀ (l : T α β) (i : Nat) (k : α) (v : β) (h : Nat) (r : T α β) (fuel : Nat),
      Rep f (.node i l k v h r) → (T.node i l k v h r).In n → (T.node i l k v h r).height ≤ fuel + 1 →
      some (Imp.rd d (mkImg hdr n f) (Imp.lowestGo d (mkImg hdr n f) fuel i)).key =
        (T.node i l k v h r).minKey := by
  intro l
  induction l with
  | nil =>
    intro i k v h r fuel hr hin _
    cases fuel with
    | zero => simp [Imp.lowestGo, T.minKey, hr.rd hin d hdr, T.rc]
    | succ fuel => simp [Imp.lowestGo, T.minKey, hr.rd hin d hdr, T.rc, T.slot]
  | node li ll lk lv lh lr ihl _ =>
    intro i k v h r fuel hr hin hf
    simp only [T.height] at hf
    obtain ⟨fuel, rfl⟩ : ∃ f', fuel = f' + 1 := ⟨fuel - 1, by omega⟩
    have hli := hin.left.root
    simp only [Imp.lowestGo, hr.rd hin d hdr, T.rc, T.slot, T.minKey]
    rw [if_pos (by omega)]
    exact ihl li lk lv lh lr fuel hr.2.1 hin.left (by simp only [T.height]; omega)

section SetVal
variable [LinOrd α]

theorem T.slots_setVal (k : α) (v : β) (t : T α β) : (t.setVal k v).slots = t.slots := by
  induction t with
  | nil => rfl
  | node i l k' v' h r ihl ihr =>
    simp only [T.setVal]
    split
    · simp [ihl]
    · split
      · simp [ihr]
      · simp

theorem T.slot_setVal (k : α) (v : β) (t : T α β) : (t.setVal k v).slot = t.slot := by
  cases t with
  | nil => rfl
  | node i l k' v' h r =>
    simp only [T.setVal]
    split
    · rfl
    · split <;> rfl

theorem T.find_mem_slots {k : α} {t : T α β} {i : Nat} {v : β} (h : t.find k = some (i, v)) :
    i ∈ t.slots := by
  induction t with
  | nil => simp [T.find] at h
  | node j l k' v' hh r ihl ihr =>
    simp only [T.find] at h
    split at h
    · simp [ihl h]
    · split at h
      · simp [ihr h]
      · cases h; simp

/-- Writing the value of the found node represents `setVal`. -/
theorem rep_setVal (f : Nat → Rec α β) (key : α) (val : β) :
    ∀ (t : T α β) (i : Nat) (v0 : β), Rep f t → t.slots.Nodup → t.find key = some (i, v0) →
      Rep (upd f i { f i with val := val }) (t.setVal key val) := by
  intro t
  induction t with
  | nil => intro i v0 _ _ h; simp [T.find] at h
  | node j l k' v' hh r ihl ihr =>
    intro i v0 hr hnd hf
    rw [T.slots_node, List.nodup_append, List.nodup_cons] at hnd
    obtain ⟨hndl, ⟨hjr, hndr⟩, hdisj⟩ := hnd
    simp only [T.find] at hf
    simp only [T.setVal]
    split
    · rename_i hlt
      rw [if_pos hlt] at hf
      have hm := T.find_mem_slots hf
      have hij : j ≠ i := fun e => hdisj i hm j (by simp) e.symm
      have hir : i ∉ r.slots := fun h' => hdisj i hm i (by simp [h']) rfl
      refine ⟨?_, ihl i v0 hr.2.1 hndl hf, hr.2.2.upd_of_not_mem _ hir⟩
      rw [upd_ne _ _ hij, hr.1]
      simp [T.rc, T.slot_setVal]
    · rename_i hlt
      rw [if_neg hlt] at hf
      split
      · rename_i hgt
        rw [if_pos hgt] at hf
        have hm := T.find_mem_slots hf
        have hij : j ≠ i := fun e => hjr (e ▸ hm)
        have hil : i ∉ l.slots := fun h' => hdisj i h' i (by simp [hm]) rfl
        refine ⟨?_, hr.2.1.upd_of_not_mem _ hil, ihr i v0 hr.2.2 hndr hf⟩
        rw [upd_ne _ _ hij, hr.1]
        simp [T.rc, T.slot_setVal]
      · rename_i hgt
        rw [if_neg hgt] at hf
        cases hf
        have hil : j ∉ l.slots := fun h' => hdisj j h' j (by simp) rfl
        refine ⟨?_, hr.2.1.upd_of_not_mem _ hil, hr.2.2.upd_of_not_mem _ hjr⟩
        rw [upd_same, hr.1]
        rfl

end SetVal

end Stevia
