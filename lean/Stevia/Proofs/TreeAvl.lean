/-
  Stevia.Proofs.TreeAvl — the AVL core: rotations preserve the in-order list,
  insertion / deletion preserve balance with exact height registers and act on
  the in-order list as the sorted-list reference operations.
-/
import Stevia.Proofs.TreeDefs

namespace Stevia
namespace T
variable {α β : Type}

theorem size_eq_length (t : T α β) : size t = (toList t).length := by
  sorry

theorem toList_rebal (i : Nat) (l : T α β) (k : α) (v : β) (r : T α β) :
    toList (rebal i l k v r) = toList l ++ (i, k, v) :: toList r := by
  sorry

theorem rebal_bal {i : Nat} {l : T α β} {k : α} {v : β} {r : T α β}
    (hl : Bal l) (hr : Bal r) (h1 : ht l ≤ ht r + 2) (h2 : ht r ≤ ht l + 2) :
    Bal (rebal i l k v r) := by
  sorry

theorem ht_eq_height {t : T α β} (hb : Bal t) : ht t = height t := by
  sorry

theorem minNodes_le_size {t : T α β} (hb : Bal t) : minNodes (ht t) ≤ size t := by
  sorry

theorem minKey_eq (t : T α β) : minKey t = (toList t).head?.map (·.2.1) := by
  sorry

variable [LinOrd α]

theorem bst_iff_sorted (t : T α β) : Bst t ↔ SortedE (toList t) := by
  sorry

theorem find_eq_findL {t : T α β} (hb : Bst t) (k : α) : find k t = findL k (toList t) := by
  sorry

theorem toList_ins {t : T α β} (hb : Bst t) (idx : Nat) (k : α) (v : β) (hf : find k t = none) :
    toList (ins idx k v t) = insL (idx, k, v) (toList t) := by
  sorry

theorem ins_bal {t : T α β} (hb : Bal t) (idx : Nat) (k : α) (v : β) :
    Bal (ins idx k v t) ∧ (ht (ins idx k v t) = ht t ∨ ht (ins idx k v t) = ht t + 1) := by
  sorry

theorem toList_del {t : T α β} (hb : Bst t) (k : α) :
    toList (del k t) = delL k (toList t) := by
  sorry

theorem del_bal {t : T α β} (hb : Bal t) (k : α) :
    Bal (del k t) ∧ (ht (del k t) = ht t ∨ ht (del k t) + 1 = ht t) := by
  sorry

theorem toList_setVal {t : T α β} (hb : Bst t) (k : α) (v : β) :
    toList (setVal k v t) = setL k v (toList t) := by
  sorry

theorem setVal_bal {t : T α β} (hb : Bal t) (k : α) (v : β) :
    Bal (setVal k v t) ∧ ht (setVal k v t) = ht t := by
  sorry

theorem path_length_le (t : T α β) (k : α) : (path k t).length ≤ height t := by
  sorry

end T

section ListLemmas
variable {α β : Type} [LinOrd α]

theorem sorted_insL {l : List (Entry α β)} (hs : SortedE l) (e : Entry α β)
    (hf : findL e.2.1 l = none) : SortedE (insL e l) := by
  sorry

theorem sorted_delL {l : List (Entry α β)} (hs : SortedE l) (k : α) : SortedE (delL k l) := by
  sorry

theorem sorted_setL {l : List (Entry α β)} (hs : SortedE l) (k : α) (v : β) :
    SortedE (setL k v l) := by
  sorry

theorem length_insL (e : Entry α β) (l : List (Entry α β)) : (insL e l).length = l.length + 1 := by
  sorry

theorem length_delL {l : List (Entry α β)} {k : α} {x : Nat × β} (hf : findL k l = some x) :
    (delL k l).length + 1 = l.length := by
  sorry

theorem delL_of_none {l : List (Entry α β)} {k : α} (hf : findL k l = none) : delL k l = l := by
  sorry

theorem length_setL (k : α) (v : β) (l : List (Entry α β)) : (setL k v l).length = l.length := by
  sorry

theorem perm_insL (e : Entry α β) (l : List (Entry α β)) : (insL e l).Perm (e :: l) := by
  sorry

theorem perm_delL {l : List (Entry α β)} {k : α} {i : Nat} {v : β} (hf : findL k l = some (i, v)) :
    l.Perm ((i, k, v) :: delL k l) := by
  sorry

theorem findL_insL_self {l : List (Entry α β)} (hs : SortedE l) (e : Entry α β)
    (hf : findL e.2.1 l = none) : findL e.2.1 (insL e l) = some (e.1, e.2.2) := by
  sorry

theorem findL_insL_other {l : List (Entry α β)} (e : Entry α β) {k : α}
    (hk : k < e.2.1 ∨ e.2.1 < k) : findL k (insL e l) = findL k l := by
  sorry

theorem findL_delL_self {l : List (Entry α β)} (hs : SortedE l) (k : α) : findL k (delL k l) = none := by
  sorry

theorem findL_delL_other {l : List (Entry α β)} (hs : SortedE l) {k k' : α}
    (hk : k' < k ∨ k < k') : findL k' (delL k l) = findL k' l := by
  sorry

end ListLemmas
end Stevia
