/-
  Stevia.Proofs.TreeAvl — the AVL core: rotations preserve the in-order list,
  insertion / deletion preserve balance with exact height registers and act on
  the in-order list as the sorted-list reference operations.
-/
import Stevia.Proofs.TreeDefs

namespace Stevia

section ListLemmas
variable {α β : Type} [LinOrd α]

theorem length_insL (e : Entry α β) (l : List (Entry α β)) : (insL e l).length = l.length + 1 := by
  induction l with
  | nil => simp [insL]
  | cons x rest ih => simp only [insL]; split <;> simp [ih]

theorem perm_insL (e : Entry α β) (l : List (Entry α β)) : (insL e l).Perm (e :: l) := by
  induction l with
  | nil => simp [insL]
  | cons x rest ih =>
    simp only [insL]; split
    · exact List.Perm.refl _
    · exact (List.Perm.cons x ih).trans (List.Perm.swap e x rest)

theorem mem_insL {e y : Entry α β} {l : List (Entry α β)} : y ∈ insL e l ↔ y = e ∨ y ∈ l := by
  rw [(perm_insL e l).mem_iff, List.mem_cons]

theorem mem_delL {k : α} {y : Entry α β} {l : List (Entry α β)} (h : y ∈ delL k l) : y ∈ l := by
  induction l with
  | nil => simp [delL] at h
  | cons x rest ih =>
    simp only [delL] at h
    split at h
    · rcases List.mem_cons.1 h with h | h
      · exact h ▸ List.mem_cons_self
      · exact List.mem_cons_of_mem _ (ih h)
    · exact List.mem_cons_of_mem _ h

theorem mem_setL {k : α} {v : β} {y : Entry α β} {l : List (Entry α β)} (h : y ∈ setL k v l) :
    ∃ y' ∈ l, y'.2.1 = y.2.1 := by
  induction l with
  | nil => simp [setL] at h
  | cons x rest ih =>
    simp only [setL] at h
    split at h
    · rcases List.mem_cons.1 h with h | h
      · exact ⟨x, List.mem_cons_self, by rw [h]⟩
      · obtain ⟨y', hy', e⟩ := ih h
        exact ⟨y', List.mem_cons_of_mem _ hy', e⟩
    · rcases List.mem_cons.1 h with h | h
      · exact ⟨x, List.mem_cons_self, by rw [h]⟩
      · exact ⟨y, List.mem_cons_of_mem _ h, rfl⟩

theorem findL_none_of_gt {k : α} {r : List (Entry α β)} (h : ∀ y ∈ r, k < y.2.1) :
    findL k r = none := by
  induction r with
  | nil => rfl
  | cons x rest ih =>
    have hx : k < x.2.1 := h x List.mem_cons_self
    simp only [findL, hx, or_true, if_true]
    exact ih (fun y hy => h y (List.mem_cons_of_mem _ hy))

theorem delL_of_none {l : List (Entry α β)} {k : α} (hf : findL k l = none) : delL k l = l := by
  induction l with
  | nil => rfl
  | cons x rest ih =>
    by_cases h : x.2.1 < k ∨ k < x.2.1
    · simp only [findL, h, if_true] at hf
      simp only [delL, h, if_true, ih hf]
    · simp [findL, h] at hf

theorem sorted_insL {l : List (Entry α β)} (hs : SortedE l) (e : Entry α β)
    (hf : findL e.2.1 l = none) : SortedE (insL e l) := by
  induction l with
  | nil => simp [insL, SortedE]
  | cons x rest ih =>
    by_cases h : x.2.1 < e.2.1 ∨ e.2.1 < x.2.1
    · simp only [findL, h, if_true] at hf
      obtain ⟨h1, h2⟩ := hs
      simp only [insL]
      split
      · rename_i hlt
        refine ⟨?_, h1, h2⟩
        intro e' he'
        rcases List.mem_cons.1 he' with rfl | he'
        · exact hlt
        · exact LinOrd.trans hlt (h1 e' he')
      · rename_i hnlt
        have hxe : x.2.1 < e.2.1 := h.resolve_right hnlt
        refine ⟨?_, ih h2 hf⟩
        intro e' he'
        rcases mem_insL.1 he' with rfl | he'
        · exact hxe
        · exact h1 e' he'
    · simp [findL, h] at hf

theorem sorted_delL {l : List (Entry α β)} (hs : SortedE l) (k : α) : SortedE (delL k l) := by
  induction l with
  | nil => simp [delL, SortedE]
  | cons x rest ih =>
    obtain ⟨h1, h2⟩ := hs
    simp only [delL]
    split
    · exact ⟨fun e' he' => h1 e' (mem_delL he'), ih h2⟩
    · exact h2

theorem sorted_setL {l : List (Entry α β)} (hs : SortedE l) (k : α) (v : β) :
    SortedE (setL k v l) := by
  induction l with
  | nil => simp [setL, SortedE]
  | cons x rest ih =>
    obtain ⟨h1, h2⟩ := hs
    simp only [setL]
    split
    · refine ⟨fun e' he' => ?_, ih h2⟩
      obtain ⟨y', hy', e⟩ := mem_setL he'
      exact e ▸ h1 y' hy'
    · exact ⟨h1, h2⟩

theorem length_delL {l : List (Entry α β)} {k : α} {x : Nat × β} (hf : findL k l = some x) :
    (delL k l).length + 1 = l.length := by
  induction l with
  | nil => simp [findL] at hf
  | cons y rest ih =>
    by_cases h : y.2.1 < k ∨ k < y.2.1
    · simp only [findL, h, if_true] at hf
      simp only [delL, h, if_true, List.length_cons, ih hf]
    · simp [delL, h]

theorem length_setL (k : α) (v : β) (l : List (Entry α β)) : (setL k v l).length = l.length := by
  induction l with
  | nil => rfl
  | cons x rest ih => simp only [setL]; split <;> simp [ih]

theorem perm_delL {l : List (Entry α β)} {k : α} {i : Nat} {v : β} (hf : findL k l = some (i, v)) :
    l.Perm ((i, k, v) :: delL k l) := by
  induction l with
  | nil => simp [findL] at hf
  | cons x rest ih =>
    by_cases h : x.2.1 < k ∨ k < x.2.1
    · simp only [findL, h, if_true] at hf
      simp only [delL, h, if_true]
      exact (List.Perm.cons x (ih hf)).trans (List.Perm.swap _ _ _)
    · simp only [findL, h, if_false, Option.some.injEq, Prod.mk.injEq] at hf
      have hk : x.2.1 = k := LinOrd.eq_of_not_lt (fun a => h (Or.inl a)) (fun a => h (Or.inr a))
      simp only [delL, h, if_false]
      obtain ⟨xi, xk, xv⟩ := x
      simp only at hf hk
      obtain ⟨rfl, rfl⟩ := hf
      subst hk
      exact List.Perm.refl _

theorem findL_insL_self {l : List (Entry α β)} (hs : SortedE l) (e : Entry α β)
    (hf : findL e.2.1 l = none) : findL e.2.1 (insL e l) = some (e.1, e.2.2) := by
  have hirr : ¬ (e.2.1 < e.2.1 ∨ e.2.1 < e.2.1) := fun h => LinOrd.irrefl _ (h.elim id id)
  induction l with
  | nil => simp only [insL, findL, hirr, if_false]
  | cons x rest ih =>
    by_cases h : x.2.1 < e.2.1 ∨ e.2.1 < x.2.1
    · simp only [findL, h, if_true] at hf
      simp only [insL]
      split
      · simp only [findL, hirr, if_false]
      · simp only [findL, h, if_true]
        exact ih hs.2 hf
    · simp [findL, h] at hf

theorem findL_insL_other {l : List (Entry α β)} (e : Entry α β) {k : α}
    (hk : k < e.2.1 ∨ e.2.1 < k) : findL k (insL e l) = findL k l := by
  have hk' : e.2.1 < k ∨ k < e.2.1 := hk.symm
  induction l with
  | nil => simp only [insL, findL, hk', if_true]
  | cons x rest ih =>
    simp only [insL]
    split
    · simp only [findL, hk', if_true]
    · simp only [findL, ih]

theorem findL_delL_self {l : List (Entry α β)} (hs : SortedE l) (k : α) : findL k (delL k l) = none := by
  induction l with
  | nil => rfl
  | cons x rest ih =>
    by_cases h : x.2.1 < k ∨ k < x.2.1
    · simp only [delL, h, if_true, findL]
      exact ih hs.2
    · simp only [delL, h, if_false]
      have hk : x.2.1 = k := LinOrd.eq_of_not_lt (fun a => h (Or.inl a)) (fun a => h (Or.inr a))
      exact findL_none_of_gt (fun y hy => hk ▸ hs.1 y hy)

theorem findL_delL_other {l : List (Entry α β)} (hs : SortedE l) {k k' : α}
    (hk : k' < k ∨ k < k') : findL k' (delL k l) = findL k' l := by
  induction l with
  | nil => rfl
  | cons x rest ih =>
    by_cases h : x.2.1 < k ∨ k < x.2.1
    · simp only [delL, h, if_true, findL, ih hs.2]
    · simp only [delL, h, if_false]
      have hk2 : x.2.1 = k := LinOrd.eq_of_not_lt (fun a => h (Or.inl a)) (fun a => h (Or.inr a))
      have : x.2.1 < k' ∨ k' < x.2.1 := by rw [hk2]; exact hk.symm
      simp only [findL, this, if_true]

theorem setL_of_none {l : List (Entry α β)} {k : α} {v : β} (hf : findL k l = none) :
    setL k v l = l := by
  induction l with
  | nil => rfl
  | cons x rest ih =>
    by_cases h : x.2.1 < k ∨ k < x.2.1
    · simp only [findL, h, if_true] at hf
      simp only [setL, h, if_true, ih hf]
    · simp [findL, h] at hf

theorem findL_append_of_lt {k : α} {l r : List (Entry α β)} (h : ∀ x ∈ l, x.2.1 < k) :
    findL k (l ++ r) = findL k r := by
  induction l with
  | nil => rfl
  | cons x rest ih =>
    have hx : x.2.1 < k := h x List.mem_cons_self
    simp only [List.cons_append, findL, hx, true_or, if_true]
    exact ih (fun y hy => h y (List.mem_cons_of_mem _ hy))

theorem findL_append_of_gt {k : α} {l r : List (Entry α β)} (h : ∀ y ∈ r, k < y.2.1) :
    findL k (l ++ r) = findL k l := by
  induction l with
  | nil => exact findL_none_of_gt h
  | cons x rest ih => simp only [List.cons_append, findL, ih]

theorem insL_append_of_lt {e : Entry α β} {l r : List (Entry α β)} (h : ∀ x ∈ l, x.2.1 < e.2.1) :
    insL e (l ++ r) = l ++ insL e r := by
  induction l with
  | nil => rfl
  | cons x rest ih =>
    have hx : ¬ e.2.1 < x.2.1 := LinOrd.asymm (h x List.mem_cons_self)
    simp only [List.cons_append, insL, hx, if_false]
    rw [ih (fun y hy => h y (List.mem_cons_of_mem _ hy))]

theorem insL_append_cons_of_gt {e x : Entry α β} {l r : List (Entry α β)} (h : e.2.1 < x.2.1) :
    insL e (l ++ x :: r) = insL e l ++ x :: r := by
  induction l with
  | nil => simp only [List.nil_append, insL, h, if_true, List.cons_append]
  | cons y rest ih =>
    simp only [List.cons_append, insL]
    split
    · rfl
    · rw [ih]; rfl

theorem delL_append_of_lt {k : α} {l r : List (Entry α β)} (h : ∀ x ∈ l, x.2.1 < k) :
    delL k (l ++ r) = l ++ delL k r := by
  induction l with
  | nil => rfl
  | cons x rest ih =>
    have hx : x.2.1 < k := h x List.mem_cons_self
    simp only [List.cons_append, delL, hx, true_or, if_true]
    rw [ih (fun y hy => h y (List.mem_cons_of_mem _ hy))]

theorem delL_append_of_gt {k : α} {l r : List (Entry α β)} (h : ∀ y ∈ r, k < y.2.1) :
    delL k (l ++ r) = delL k l ++ r := by
  induction l with
  | nil => exact delL_of_none (findL_none_of_gt h)
  | cons x rest ih =>
    simp only [List.cons_append, delL]
    split
    · rw [ih]; rfl
    · rfl

theorem setL_append_of_lt {k : α} {v : β} {l r : List (Entry α β)} (h : ∀ x ∈ l, x.2.1 < k) :
    setL k v (l ++ r) = l ++ setL k v r := by
  induction l with
  | nil => rfl
  | cons x rest ih =>
    have hx : x.2.1 < k := h x List.mem_cons_self
    simp only [List.cons_append, setL, hx, true_or, if_true]
    rw [ih (fun y hy => h y (List.mem_cons_of_mem _ hy))]

theorem setL_append_of_gt {k : α} {v : β} {l r : List (Entry α β)} (h : ∀ y ∈ r, k < y.2.1) :
    setL k v (l ++ r) = setL k v l ++ r := by
  induction l with
  | nil => exact setL_of_none (findL_none_of_gt h)
  | cons x rest ih =>
    simp only [List.cons_append, setL]
    split
    · rw [ih]; rfl
    · rfl

end ListLemmas

namespace T
variable {α β : Type}

theorem size_eq_length (t : T α β) : size t = (toList t).length := by
  induction t with
  | nil => rfl
  | node i l k v h r ihl ihr => simp [size, toList, ihl, ihr]; omega

@[simp] theorem ht_nil : ht (nil : T α β) = 0 := rfl

@[simp] theorem ht_node (i : Nat) (l : T α β) (k : α) (v : β) (h : Nat) (r : T α β) :
    ht (node i l k v h r) = h + 1 := rfl

@[simp] theorem ht_mk (i : Nat) (l : T α β) (k : α) (v : β) (r : T α β) :
    ht (mk i l k v r) = max (ht l) (ht r) + 1 := rfl

@[simp] theorem toList_mk (i : Nat) (l : T α β) (k : α) (v : β) (r : T α β) :
    toList (mk i l k v r) = toList l ++ (i, k, v) :: toList r := rfl

theorem toList_rotL (t : T α β) : toList (rotL t) = toList t := by
  unfold rotL; split <;> simp [toList]

theorem toList_rotR (t : T α β) : toList (rotR t) = toList t := by
  unfold rotR; split <;> simp [toList]

theorem toList_rebal (i : Nat) (l : T α β) (k : α) (v : β) (r : T α β) :
    toList (rebal i l k v r) = toList l ++ (i, k, v) :: toList r := by
  unfold rebal
  split
  · rw [toList_rotR, toList_mk]; split
    · rw [toList_rotL]
    · rfl
  · split
    · rw [toList_rotL, toList_mk]; split
      · rw [toList_rotR]
      · rfl
    · rfl

theorem bal_mk {i : Nat} {l : T α β} {k : α} {v : β} {r : T α β}
    (hl : Bal l) (hr : Bal r) (h1 : ht l ≤ ht r + 1) (h2 : ht r ≤ ht l + 1) :
    Bal (mk i l k v r) := ⟨hl, hr, h1, h2, rfl⟩

theorem rebal_mid {i : Nat} {l : T α β} {k : α} {v : β} {r : T α β}
    (h1 : ht l ≤ ht r + 1) (h2 : ht r ≤ ht l + 1) :
    rebal i l k v r = mk i l k v r := by
  unfold rebal
  rw [if_neg (by omega), if_neg (by omega)]

theorem rebal_left {i : Nat} {l : T α β} {k : α} {v : β} {r : T α β}
    (hl : Bal l) (hr : Bal r) (h : ht l = ht r + 2) :
    Bal (rebal i l k v r) ∧ (ht (rebal i l k v r) = ht l ∨ ht (rebal i l k v r) = ht l + 1) := by
  unfold rebal
  rw [if_pos (by omega)]
  cases l with
  | nil => simp [ht] at h
  | node j ll lk lv lh lr =>
    by_cases hc : ht ll < ht lr
    · simp only [left, right, hc, if_true]
      cases lr with
      | nil => simp [ht] at hc
      | node m lrl lrk lrv lrh lrr =>
        simp only [rotL, rotR, mk, Bal, ht] at *
        grind
    · simp only [left, right, hc, if_false]
      simp only [rotR, mk, Bal, ht] at *
      grind

theorem rebal_right {i : Nat} {l : T α β} {k : α} {v : β} {r : T α β}
    (hl : Bal l) (hr : Bal r) (h : ht r = ht l + 2) :
    Bal (rebal i l k v r) ∧ (ht (rebal i l k v r) = ht r ∨ ht (rebal i l k v r) = ht r + 1) := by
  unfold rebal
  rw [if_neg (by omega), if_pos (by omega)]
  cases r with
  | nil => simp [ht] at h
  | node j rl rk rv rh rr =>
    by_cases hc : ht rr < ht rl
    · simp only [left, right, hc, if_true]
      cases rl with
      | nil => simp [ht] at hc
      | node m rll rlk rlv rlh rlr =>
        simp only [rotL, rotR, mk, Bal, ht] at *
        grind
    · simp only [left, right, hc, if_false]
      simp only [rotL, mk, Bal, ht] at *
      grind

theorem rebal_bal {i : Nat} {l : T α β} {k : α} {v : β} {r : T α β}
    (hl : Bal l) (hr : Bal r) (h1 : ht l ≤ ht r + 2) (h2 : ht r ≤ ht l + 2) :
    Bal (rebal i l k v r) := by
  by_cases h3 : ht l = ht r + 2
  · exact (rebal_left hl hr h3).1
  · by_cases h4 : ht r = ht l + 2
    · exact (rebal_right hl hr h4).1
    · rw [rebal_mid (by omega) (by omega)]
      exact bal_mk hl hr (by omega) (by omega)

/-- Everything `ins` / `del` / `popMin` need to know about one `rebal` step. -/
theorem rebal_spec {i : Nat} {l : T α β} {k : α} {v : β} {r : T α β}
    (hl : Bal l) (hr : Bal r) (h1 : ht l ≤ ht r + 2) (h2 : ht r ≤ ht l + 2) :
    Bal (rebal i l k v r) ∧
    ((ht l ≤ ht r + 1 ∧ ht r ≤ ht l + 1 ∧ ht (rebal i l k v r) = max (ht l) (ht r) + 1) ∨
     ((ht l = ht r + 2 ∨ ht r = ht l + 2) ∧
       (ht (rebal i l k v r) = max (ht l) (ht r) ∨ ht (rebal i l k v r) = max (ht l) (ht r) + 1))) := by
  refine ⟨rebal_bal hl hr h1 h2, ?_⟩
  by_cases h3 : ht l = ht r + 2
  · have := (rebal_left (i := i) (k := k) (v := v) hl hr h3).2
    right; refine ⟨Or.inl h3, ?_⟩
    rw [Nat.max_eq_left (by omega)]; exact this
  · by_cases h4 : ht r = ht l + 2
    · have := (rebal_right (i := i) (k := k) (v := v) hl hr h4).2
      right; refine ⟨Or.inr h4, ?_⟩
      rw [Nat.max_eq_right (by omega)]; exact this
    · left
      rw [rebal_mid (by omega) (by omega)]
      exact ⟨by omega, by omega, rfl⟩

theorem ht_eq_height {t : T α β} (hb : Bal t) : ht t = height t := by
  induction t with
  | nil => rfl
  | node i l k v h r ihl ihr =>
    obtain ⟨hl, hr, _, _, hh⟩ := hb
    simp only [ht_node, height, hh, ihl hl, ihr hr]

theorem minNodes_mono (n : Nat) : minNodes n ≤ minNodes (n + 1) := by
  match n with
  | 0 => simp [minNodes]
  | n + 1 => simp only [minNodes]; omega

theorem minNodes_step (a b : Nat) (h1 : a ≤ b + 1) (h2 : b ≤ a + 1) :
    minNodes (max a b + 1) ≤ minNodes a + 1 + minNodes b := by
  rcases Nat.lt_trichotomy a b with hlt | heq | hgt
  · obtain rfl : b = a + 1 := by omega
    rw [Nat.max_eq_right (by omega)]
    simp only [minNodes]; omega
  · subst heq
    rw [Nat.max_self]
    match a with
    | 0 => simp [minNodes]
    | m + 1 =>
      have := minNodes_mono m
      simp only [minNodes]; omega
  · obtain rfl : a = b + 1 := by omega
    rw [Nat.max_eq_left (by omega)]
    simp only [minNodes]; omega

theorem minNodes_le_size {t : T α β} (hb : Bal t) : minNodes (ht t) ≤ size t := by
  induction t with
  | nil => simp [minNodes]
  | node i l k v h r ihl ihr =>
    obtain ⟨hl, hr, h1, h2, hh⟩ := hb
    have il := ihl hl
    have ir := ihr hr
    have := minNodes_step _ _ h1 h2
    simp only [ht_node, size, hh]
    omega

theorem minKey_eq (t : T α β) : minKey t = (toList t).head?.map (·.2.1) := by
  induction t with
  | nil => rfl
  | node i l k v h r ihl ihr =>
    cases l with
    | nil => simp [minKey, toList]
    | node j ll lk lv lh lr =>
      simp only [minKey]
      rw [ihl]
      simp [toList, List.head?_append]

theorem all_iff (p : α → Prop) (t : T α β) : All p t ↔ ∀ e ∈ toList t, p e.2.1 := by
  induction t with
  | nil => simp [All, toList]
  | node i l k v h r ihl ihr =>
    simp only [All, toList, ihl, ihr, List.mem_append, List.mem_cons]
    constructor
    · rintro ⟨h1, h2, h3⟩ e (he | rfl | he)
      · exact h1 e he
      · exact h2
      · exact h3 e he
    · intro hh
      exact ⟨fun e he => hh e (Or.inl he), hh (i, k, v) (Or.inr (Or.inl rfl)),
        fun e he => hh e (Or.inr (Or.inr he))⟩

variable [LinOrd α]

theorem sortedE_append (l r : List (Entry α β)) :
    SortedE (l ++ r) ↔ SortedE l ∧ SortedE r ∧ ∀ x ∈ l, ∀ y ∈ r, x.2.1 < y.2.1 := by
  induction l with
  | nil => simp [SortedE]
  | cons a l ih =>
    simp only [List.cons_append, SortedE, ih, List.mem_append, List.mem_cons]
    constructor
    · rintro ⟨h1, h2, h3, h4⟩
      refine ⟨⟨fun e he => h1 e (Or.inl he), h2⟩, h3, ?_⟩
      rintro x (rfl | hx) y hy
      · exact h1 y (Or.inr hy)
      · exact h4 x hx y hy
    · rintro ⟨⟨h1, h2⟩, h3, h4⟩
      refine ⟨?_, h2, h3, fun x hx y hy => h4 x (Or.inr hx) y hy⟩
      rintro e (he | he)
      · exact h1 e he
      · exact h4 a (Or.inl rfl) e he

theorem bst_iff_sorted (t : T α β) : Bst t ↔ SortedE (toList t) := by
  induction t with
  | nil => simp [Bst, toList, SortedE]
  | node i l k v h r ihl ihr =>
    simp only [Bst, toList, sortedE_append, SortedE, all_iff, ihl, ihr]
    constructor
    · rintro ⟨hl, hr, hlk, hrk⟩
      refine ⟨hl, ⟨hrk, hr⟩, ?_⟩
      intro x hx y hy
      rcases List.mem_cons.1 hy with rfl | hy
      · exact hlk x hx
      · exact LinOrd.trans (hlk x hx) (hrk y hy)
    · rintro ⟨hl, ⟨hrk, hr⟩, hh⟩
      exact ⟨hl, hr, fun e he => hh e he _ List.mem_cons_self, hrk⟩

/-- Facts about the root key of a search tree, in list form. -/
theorem bst_node {i : Nat} {l : T α β} {k : α} {v : β} {h : Nat} {r : T α β}
    (hb : Bst (node i l k v h r)) :
    Bst l ∧ Bst r ∧ (∀ e ∈ toList l, e.2.1 < k) ∧ (∀ e ∈ toList r, k < e.2.1) := by
  obtain ⟨hl, hr, hlk, hrk⟩ := hb
  exact ⟨hl, hr, (all_iff _ _).1 hlk, (all_iff _ _).1 hrk⟩

theorem find_eq_findL {t : T α β} (hb : Bst t) (k : α) : find k t = findL k (toList t) := by
  induction t with
  | nil => rfl
  | node i l k' v' h r ihl ihr =>
    obtain ⟨hl, hr, hlk, hrk⟩ := bst_node hb
    simp only [find, toList]
    by_cases h1 : k < k'
    · rw [if_pos h1, ihl hl]
      refine (findL_append_of_gt ?_).symm
      intro y hy
      rcases List.mem_cons.1 hy with rfl | hy
      · exact h1
      · exact LinOrd.trans h1 (hrk y hy)
    · rw [if_neg h1]
      by_cases h2 : k' < k
      · rw [if_pos h2, ihr hr, findL_append_of_lt (fun x hx => LinOrd.trans (hlk x hx) h2)]
        simp only [findL, h2, true_or, if_true]
      · rw [if_neg h2]
        obtain rfl : k' = k := LinOrd.eq_of_not_lt h2 h1
        rw [findL_append_of_lt hlk]
        simp only [findL, h1, or_self, if_false]

theorem toList_ins {t : T α β} (hb : Bst t) (idx : Nat) (k : α) (v : β) (hf : find k t = none) :
    toList (ins idx k v t) = insL (idx, k, v) (toList t) := by
  induction t with
  | nil => rfl
  | node i l k' v' h r ihl ihr =>
    obtain ⟨hl, hr, hlk, hrk⟩ := bst_node hb
    simp only [find] at hf
    simp only [ins, toList]
    by_cases h1 : k < k'
    · rw [if_pos h1] at hf
      rw [if_pos h1, toList_rebal, ihl hl hf]
      exact (insL_append_cons_of_gt h1).symm
    · rw [if_neg h1] at hf ⊢
      by_cases h2 : k' < k
      · rw [if_pos h2] at hf
        rw [if_pos h2, toList_rebal, ihr hr hf,
          insL_append_of_lt (e := (idx, k, v)) (fun x hx => LinOrd.trans (hlk x hx) h2)]
        simp only [insL, h1, if_false]
      · rw [if_neg h2] at hf
        exact absurd hf (by simp)

theorem ins_bal {t : T α β} (hb : Bal t) (idx : Nat) (k : α) (v : β) :
    Bal (ins idx k v t) ∧ (ht (ins idx k v t) = ht t ∨ ht (ins idx k v t) = ht t + 1) := by
  induction t with
  | nil => simp [ins, Bal]
  | node i l k' v' h r ihl ihr =>
    obtain ⟨hl, hr, h1, h2, hh⟩ := hb
    simp only [ins]
    split
    · obtain ⟨b, e⟩ := ihl hl
      have := rebal_spec (i := i) (k := k') (v := v') b hr (by omega) (by omega)
      refine ⟨this.1, ?_⟩
      simp only [ht_node, hh]
      grind
    · split
      · obtain ⟨b, e⟩ := ihr hr
        have := rebal_spec (i := i) (k := k') (v := v') hl b (by omega) (by omega)
        refine ⟨this.1, ?_⟩
        simp only [ht_node, hh]
        grind
      · exact ⟨⟨hl, hr, h1, h2, hh⟩, Or.inl rfl⟩

omit [LinOrd α] in
theorem popMin_toList (i : Nat) (l : T α β) (k : α) (v : β) (r : T α β) :
    (popMin i l k v r).1 :: toList (popMin i l k v r).2 = toList l ++ (i, k, v) :: toList r := by
  induction l generalizing i k v r with
  | nil => rfl
  | node li ll lk lv lh lr ihl _ =>
    simp only [popMin, toList_rebal, toList]
    rw [← ihl li lk lv lr]
    rfl

omit [LinOrd α] in
theorem popMin_bal {i : Nat} {l : T α β} {k : α} {v : β} {r : T α β}
    (hl : Bal l) (hr : Bal r) (h1 : ht l ≤ ht r + 1) (h2 : ht r ≤ ht l + 1) :
    Bal (popMin i l k v r).2 ∧
      (ht (popMin i l k v r).2 = max (ht l) (ht r) + 1 ∨
       ht (popMin i l k v r).2 = max (ht l) (ht r)) := by
  induction l generalizing i k v r with
  | nil =>
    simp only [popMin, ht_nil] at *
    exact ⟨hr, Or.inr (by omega)⟩
  | node li ll lk lv lh lr ihl _ =>
    obtain ⟨bll, blr, g1, g2, hh⟩ := hl
    obtain ⟨b, e⟩ := ihl (i := li) (k := lk) (v := lv) bll blr g1 g2
    simp only [popMin]
    simp only [ht_node, hh] at *
    have := rebal_spec (i := i) (k := k) (v := v) b hr (by omega) (by omega)
    refine ⟨this.1, ?_⟩
    grind

theorem toList_del {t : T α β} (hb : Bst t) (k : α) :
    toList (del k t) = delL k (toList t) := by
  induction t with
  | nil => rfl
  | node i l k' v' h r ihl ihr =>
    obtain ⟨hl, hr, hlk, hrk⟩ := bst_node hb
    by_cases h1 : k < k'
    · simp only [del, if_pos h1, toList_rebal, toList, ihl hl]
      refine (delL_append_of_gt ?_).symm
      intro y hy
      rcases List.mem_cons.1 hy with rfl | hy
      · exact h1
      · exact LinOrd.trans h1 (hrk y hy)
    · by_cases h2 : k' < k
      · simp only [del, if_neg h1, if_pos h2, toList_rebal, toList, ihr hr]
        rw [delL_append_of_lt (fun x hx => LinOrd.trans (hlk x hx) h2)]
        simp only [delL, h2, true_or, if_true]
      · obtain rfl : k' = k := LinOrd.eq_of_not_lt h2 h1
        have hR : delL k' (toList (node i l k' v' h r)) = toList l ++ toList r := by
          simp only [toList]
          rw [delL_append_of_lt hlk]
          simp only [delL, h1, or_self, if_false]
        rw [hR]
        simp only [del, if_neg h1]
        cases l with
        | nil =>
          cases r with
          | nil => rfl
          | node ri rl rk rv rh rr => rfl
        | node li ll lk lv lh lr =>
          cases r with
          | nil => simp [toList]
          | node ri rl rk rv rh rr =>
            simp only [toList_rebal]
            have := popMin_toList ri rl rk rv rr
            rw [show ((popMin ri rl rk rv rr).1.1, (popMin ri rl rk rv rr).1.2.1,
              (popMin ri rl rk rv rr).1.2.2) = (popMin ri rl rk rv rr).1 from rfl, this]
            rfl

theorem del_bal {t : T α β} (hb : Bal t) (k : α) :
    Bal (del k t) ∧ (ht (del k t) = ht t ∨ ht (del k t) + 1 = ht t) := by
  induction t with
  | nil => exact ⟨hb, Or.inl rfl⟩
  | node i l k' v' h r ihl ihr =>
    obtain ⟨hl, hr, h1, h2, hh⟩ := hb
    simp only [del]
    split
    · obtain ⟨b, e⟩ := ihl hl
      have := rebal_spec (i := i) (k := k') (v := v') b hr (by omega) (by omega)
      refine ⟨this.1, ?_⟩
      simp only [ht_node, hh]
      grind
    · split
      · obtain ⟨b, e⟩ := ihr hr
        have := rebal_spec (i := i) (k := k') (v := v') hl b (by omega) (by omega)
        refine ⟨this.1, ?_⟩
        simp only [ht_node, hh]
        grind
      · split
        · simp_all
        · refine ⟨hl, ?_⟩
          simp only [ht_node, ht_nil] at *
          omega
        · refine ⟨hr, ?_⟩
          simp only [ht_node, ht_nil] at *
          omega
        · rename_i li ll lk lv lh lr ri rl rk rv rh rr
          obtain ⟨brl, brr, g1, g2, gh⟩ := hr
          obtain ⟨b, e⟩ := popMin_bal (i := ri) (k := rk) (v := rv) brl brr g1 g2
          have := rebal_spec (i := (popMin ri rl rk rv rr).1.1) (k := (popMin ri rl rk rv rr).1.2.1)
            (v := (popMin ri rl rk rv rr).1.2.2) hl b
            (by simp only [ht_node, gh] at *; omega) (by simp only [ht_node, gh] at *; omega)
          refine ⟨this.1, ?_⟩
          simp only [ht_node, hh, gh] at *
          grind

theorem toList_setVal {t : T α β} (hb : Bst t) (k : α) (v : β) :
    toList (setVal k v t) = setL k v (toList t) := by
  induction t with
  | nil => rfl
  | node i l k' v' h r ihl ihr =>
    obtain ⟨hl, hr, hlk, hrk⟩ := bst_node hb
    simp only [setVal]
    by_cases h1 : k < k'
    · rw [if_pos h1]
      simp only [toList]
      rw [ihl hl]
      refine (setL_append_of_gt ?_).symm
      intro y hy
      rcases List.mem_cons.1 hy with rfl | hy
      · exact h1
      · exact LinOrd.trans h1 (hrk y hy)
    · rw [if_neg h1]
      by_cases h2 : k' < k
      · rw [if_pos h2]
        simp only [toList]
        rw [ihr hr, setL_append_of_lt (fun x hx => LinOrd.trans (hlk x hx) h2)]
        simp only [setL, h2, true_or, if_true]
      · rw [if_neg h2]
        obtain rfl : k' = k := LinOrd.eq_of_not_lt h2 h1
        simp only [toList]
        rw [setL_append_of_lt hlk]
        simp only [setL, h1, or_self, if_false]

theorem setVal_bal {t : T α β} (hb : Bal t) (k : α) (v : β) :
    Bal (setVal k v t) ∧ ht (setVal k v t) = ht t := by
  induction t with
  | nil => exact ⟨hb, rfl⟩
  | node i l k' v' h r ihl ihr =>
    obtain ⟨hl, hr, h1, h2, hh⟩ := hb
    simp only [setVal]
    split
    · obtain ⟨b, e⟩ := ihl hl
      exact ⟨⟨b, hr, by omega, by omega, by rw [e]; exact hh⟩, rfl⟩
    · split
      · obtain ⟨b, e⟩ := ihr hr
        exact ⟨⟨hl, b, by omega, by omega, by rw [e]; exact hh⟩, rfl⟩
      · exact ⟨⟨hl, hr, h1, h2, hh⟩, rfl⟩

theorem path_length_le (t : T α β) (k : α) : (path k t).length ≤ height t := by
  induction t with
  | nil => simp [path, height]
  | node i l k' v' h r ihl ihr =>
    simp only [path, height, List.length_cons]
    have := Nat.le_max_left (height l) (height r)
    have := Nat.le_max_right (height l) (height r)
    split
    · omega
    · split
      · omega
      · simp

end T
end Stevia
