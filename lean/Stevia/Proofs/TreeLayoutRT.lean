/-
  Stevia.Proofs.TreeLayoutRT — layout/decoder round trip at register level:
  the independent decoder applied to the layout of a state rebuilds that state.
-/
import Stevia.Proofs.TreeDefs

namespace Stevia
variable {α β : Type}

/-- What the register layout needs of a state to be decodable: distinct
    in-range slots, a free list that does not contain the terminator, and a
    cursor that is recoverable from its register. -/
structure Tree.LayoutOk (c : TreeCfg) (s : Tree α β) : Prop where
  nodup : (s.root.slots ++ s.free).Nodup
  range : ∀ i ∈ s.root.slots ++ s.free, 1 ≤ i ∧ i ≤ s.slots
  free_ne : ∀ i ∈ s.free, i ≠ s.seqReg c
  seq_ok : TreeImage.seqOfReg c s.cap (s.seqReg c) = s.seq

/-! ### Helper lemmas -/

/-- Pigeonhole: a duplicate-free list of naturals in `[1, n]` has at most `n` elements. -/
theorem length_le_of_nodup_range : ∀ (n : Nat) (l : List Nat), l.Nodup →
    (∀ i ∈ l, 1 ≤ i ∧ i ≤ n) → l.length ≤ n
  | 0, l, _, hr => by
    cases l with
    | nil => simp
    | cons a l => have := hr a (by simp); omega
  | n + 1, l, hnd, hr => by
    by_cases hm : n + 1 ∈ l
    · have h1 := length_le_of_nodup_range n (l.erase (n + 1)) (hnd.erase _) (by
        intro i hi
        rw [hnd.mem_erase_iff] at hi
        have := hr i hi.2
        omega)
      rw [List.length_erase_of_mem hm] at h1
      omega
    · have h1 := length_le_of_nodup_range n l hnd (by
        intro i hi
        have := hr i hi
        have : i ≠ n + 1 := fun e => hm (e ▸ hi)
        omega)
      omega

namespace T

@[simp] theorem slots_nil : (nil : T α β).slots = [] := rfl

@[simp] theorem slots_node (i : Nat) (l : T α β) (k : α) (v : β) (h : Nat) (r : T α β) :
    (node i l k v h r).slots = l.slots ++ i :: r.slots := by
  simp [slots, toList]

theorem sub_none {i : Nat} {t : T α β} (h : i ∉ t.slots) : t.sub i = none := by
  induction t with
  | nil => rfl
  | node j l k v hh r ihl ihr =>
    simp only [slots_node, List.mem_append, List.mem_cons, not_or] at h
    simp [sub, h.2.1, ihl h.1, ihr h.2.2]

theorem height_le_length_slots (t : T α β) : t.height ≤ t.slots.length := by
  induction t with
  | nil => simp [height]
  | node j l k v hh r ihl ihr => simp [height]; omega

/-- `IsSub t' t`: `t'` occurs as a subtree of `t`. -/
inductive IsSub : T α β → T α β → Prop
  | refl (t : T α β) : IsSub t t
  | left {t' : T α β} {i : Nat} {l : T α β} {k : α} {v : β} {h : Nat} {r : T α β} :
      IsSub t' l → IsSub t' (node i l k v h r)
  | right {t' : T α β} {i : Nat} {l : T α β} {k : α} {v : β} {h : Nat} {r : T α β} :
      IsSub t' r → IsSub t' (node i l k v h r)

theorem IsSub.trans {a b c : T α β} (h1 : IsSub a b) (h2 : IsSub b c) : IsSub a c := by
  induction h2 with
  | refl => exact h1
  | left _ ih => exact .left ih
  | right _ ih => exact .right ih

theorem IsSub.slot_mem {t' t : T α β} (h : IsSub t' t) (hne : t' ≠ nil) :
    t'.slot ∈ t.slots := by
  induction h with
  | refl => cases t' with
    | nil => exact absurd rfl hne
    | node => simp [slot]
  | left _ ih => simp [ih]
  | right _ ih => simp [ih]

theorem IsSub.height_le {t' t : T α β} (h : IsSub t' t) : t'.height ≤ t.height := by
  induction h with
  | refl => exact Nat.le_refl _
  | left _ ih => simp [height]; omega
  | right _ ih => simp [height]; omega

theorem exists_isSub_of_mem_slots {i : Nat} {t : T α β} (h : i ∈ t.slots) :
    ∃ l k v hh r, IsSub (node i l k v hh r) t := by
  induction t with
  | nil => simp at h
  | node j l k v hh r ihl ihr =>
    simp only [slots_node, List.mem_append, List.mem_cons] at h
    rcases h with h | h | h
    · obtain ⟨l', k', v', hh', r', hs⟩ := ihl h
      exact ⟨l', k', v', hh', r', .left hs⟩
    · subst h
      exact ⟨l, k, v, hh, r, .refl _⟩
    · obtain ⟨l', k', v', hh', r', hs⟩ := ihr h
      exact ⟨l', k', v', hh', r', .right hs⟩

/-- With distinct slots, looking a subtree's slot up finds that subtree. -/
theorem sub_of_isSub {t' t : T α β} (h : IsSub t' t) (hne : t' ≠ nil) (hnd : t.slots.Nodup) :
    t.sub t'.slot = some t' := by
  induction h with
  | refl => cases t' with
    | nil => exact absurd rfl hne
    | node => simp [sub, slot]
  | @left i l k v hh r hs ih =>
    have hm := hs.slot_mem hne
    rw [slots_node, List.nodup_append] at hnd
    have hne' : t'.slot ≠ i := hnd.2.2 _ hm _ (by simp)
    simp [sub, hne', ih hnd.1]
  | @right i l k v hh r hs ih =>
    have hm := hs.slot_mem hne
    rw [slots_node, List.nodup_append, List.nodup_cons] at hnd
    have hne' : t'.slot ≠ i := fun e => hnd.2.1.1 (e ▸ hm)
    have hnl : t'.slot ∉ l.slots := fun hl => hnd.2.2 _ hl _ (by simp [hm]) rfl
    simp [sub, hne', sub_none hnl, ih hnd.2.1.2]

end T

/-! ### `freeNext` -/

theorem freeNext_none {term : Nat} {fl : List Nat} {i : Nat} (h : i ∉ fl) :
    freeNext term fl i = none := by
  induction fl with
  | nil => rfl
  | cons a rest ih =>
    simp only [List.mem_cons, not_or] at h
    cases rest with
    | nil => simp [freeNext, h.1]
    | cons b rest => simp [freeNext, h.1, ih h.2]

theorem freeNext_cons_ne {term : Nat} {p : Nat} {l : List Nat} {i : Nat} (hl : l ≠ [])
    (hp : i ≠ p) : freeNext term (p :: l) i = freeNext term l i := by
  cases l with
  | nil => exact absurd rfl hl
  | cons b rest => simp [freeNext, hp]

theorem freeNext_head {term : Nat} {a : Nat} {rest : List Nat} :
    freeNext term (a :: rest) a = some (rest.head?.getD term) := by
  cases rest with
  | nil => simp [freeNext]
  | cons b rest => simp [freeNext]

theorem freeNext_suffix {term : Nat} (pre : List Nat) (a : Nat) (rest : List Nat)
    (hnd : (pre ++ a :: rest).Nodup) :
    freeNext term (pre ++ a :: rest) a = some (rest.head?.getD term) := by
  induction pre with
  | nil => exact freeNext_head
  | cons p pre ih =>
    rw [List.cons_append, List.nodup_cons] at hnd
    have hp : a ≠ p := fun e => hnd.1 (by simp [e])
    rw [List.cons_append, freeNext_cons_ne (by simp) hp]
    exact ih hnd.2

/-! ### Records of the layout -/

namespace Tree

theorem image_recs_length (c : TreeCfg) (kd : α) (vd : β) (s : Tree α β) :
    (s.image c kd vd).recs.length = s.slots := by
  simp [image]

theorem image_recs_getElem? (c : TreeCfg) (kd : α) (vd : β) (s : Tree α β) {j : Nat}
    (hj : j < s.slots) : (s.image c kd vd).recs[j]? = some (s.recAt c kd vd (j + 1)) := by
  simp [image, List.getElem?_map, List.getElem?_range hj]

theorem flhReg_eq (c : TreeCfg) (s : Tree α β) :
    s.flhReg c = s.free.head?.getD (s.seqReg c) := by
  unfold flhReg
  cases s.free <;> rfl

/-- The record of a live node. -/
theorem recAt_node (c : TreeCfg) (kd : α) (vd : β) (s : Tree α β) (hnd : s.root.slots.Nodup)
    {i : Nat} {l : T α β} {k : α} {v : β} {hh : Nat} {r : T α β}
    (hs : T.IsSub (.node i l k v hh r) s.root) :
    s.root.sub i = some (.node i l k v hh r) ∧
      s.recAt c kd vd i = ⟨l.slot, r.slot, hh, 0, k, v⟩ := by
  have h1 : s.root.sub i = some (.node i l k v hh r) :=
    T.sub_of_isSub hs (by simp) hnd
  exact ⟨h1, by simp [recAt, h1]⟩

/-- The record of a recycled slot. -/
theorem recAt_free (c : TreeCfg) (kd : α) (vd : β) (s : Tree α β) {i nxt : Nat}
    (hni : i ∉ s.root.slots) (hf : freeNext (s.seqReg c) s.free i = some nxt) :
    s.recAt c kd vd i = ⟨0, 0, nxt, 0, kd, vd⟩ := by
  simp [recAt, T.sub_none hni, hf]

/-- The record of a never-used slot. -/
theorem recAt_unused (c : TreeCfg) (kd : α) (vd : β) (s : Tree α β) {i : Nat}
    (hni : i ∉ s.root.slots) (hnf : i ∉ s.free) :
    s.recAt c kd vd i = ⟨0, 0, 0, 0, kd, vd⟩ := by
  simp [recAt, T.sub_none hni, freeNext_none hnf]

/-- Walking the layout from the slot of a subtree rebuilds that subtree. -/
theorem walk_image (c : TreeCfg) (kd : α) (vd : β) (s : Tree α β) (h : s.LayoutOk c) :
    ∀ t' : T α β, T.IsSub t' s.root → ∀ fuel, t'.height ≤ fuel →
      (s.image c kd vd).walk fuel t'.slot = some t' := by
  intro t'
  induction t' with
  | nil => intro _ fuel _; simp [T.slot, TreeImage.walk]
  | node i l k v hh r ihl ihr =>
    intro hs fuel hf
    have hmem : i ∈ s.root.slots := hs.slot_mem (by simp)
    have hr := h.range i (by simp [hmem])
    obtain ⟨i', rfl⟩ : ∃ i', i = i' + 1 := ⟨i - 1, by omega⟩
    simp only [T.height] at hf
    obtain ⟨f, rfl⟩ : ∃ f, fuel = f + 1 := ⟨fuel - 1, by omega⟩
    have hl := ihl (T.IsSub.trans (.left (.refl _)) hs) f (by omega)
    have hr' := ihr (T.IsSub.trans (.right (.refl _)) hs) f (by omega)
    have hrec := (recAt_node c kd vd s (List.nodup_append.1 h.nodup).1 hs).2
    show (s.image c kd vd).walk (f + 1) (i' + 1) = _
    simp [TreeImage.walk, image_recs_getElem? c kd vd s (show i' < s.slots by omega),
      hrec, hl, hr']

/-- Following the free-list threading of the layout from any suffix of the free list
    rebuilds that suffix. -/
theorem walkFree_image (c : TreeCfg) (kd : α) (vd : β) (s : Tree α β) (h : s.LayoutOk c) :
    ∀ rest pre : List Nat, s.free = pre ++ rest → ∀ fuel, rest.length ≤ fuel →
      (s.image c kd vd).walkFree (s.seqReg c) fuel (rest.head?.getD (s.seqReg c)) = some rest := by
  intro rest
  induction rest with
  | nil => intro pre _ fuel _; unfold TreeImage.walkFree; simp
  | cons a rest ih =>
    intro pre hp fuel hf
    have hmem : a ∈ s.free := by simp [hp]
    have hne := h.free_ne a hmem
    have hr := h.range a (by simp [hmem])
    have hnd0 := List.nodup_append.1 h.nodup
    have hni : a ∉ s.root.slots := fun hm => hnd0.2.2 _ hm _ hmem rfl
    simp only [List.length_cons] at hf
    obtain ⟨f, rfl⟩ : ∃ f, fuel = f + 1 := ⟨fuel - 1, by omega⟩
    have hnd : (pre ++ a :: rest).Nodup := hp ▸ hnd0.2.1
    have hfn : freeNext (s.seqReg c) s.free a = some (rest.head?.getD (s.seqReg c)) := by
      rw [hp]; exact freeNext_suffix pre a rest hnd
    have hrec := recAt_free c kd vd s hni hfn
    have hih := ih (pre ++ [a]) (by simp [hp]) f (by omega)
    unfold TreeImage.walkFree
    simp [hne, TreeImage.recAt?, show a ≠ 0 by omega,
      image_recs_getElem? c kd vd s (show a - 1 < s.slots by omega),
      show a - 1 + 1 = a by omega, hrec, hih]

end Tree

/-! ### Main theorems -/

/-- The structural decoder inverts the layout. -/
theorem TreeImage.decodeCore_image (c : TreeCfg) (kd : α) (vd : β) (s : Tree α β)
    (h : s.LayoutOk c) : (s.image c kd vd).decodeCore c = some s := by
  have hlen := Tree.image_recs_length c kd vd s
  have hnd := List.nodup_append.1 h.nodup
  have h1 : s.root.slots.length ≤ s.slots :=
    length_le_of_nodup_range _ _ hnd.1 (fun i hi => h.range i (by simp [hi]))
  have h2 : s.free.length ≤ s.slots :=
    length_le_of_nodup_range _ _ hnd.2.1 (fun i hi => h.range i (by simp [hi]))
  have hw := Tree.walk_image c kd vd s h s.root (.refl _) s.slots
    (Nat.le_trans (T.height_le_length_slots _) h1)
  have hf := Tree.walkFree_image c kd vd s h s.free [] (by simp) (s.slots + 1) (by omega)
  rw [← Tree.flhReg_eq] at hf
  have e1 : (s.image c kd vd).hdr.root = s.root.slot := rfl
  have e2 : (s.image c kd vd).hdr.seq = s.seqReg c := rfl
  have e3 : (s.image c kd vd).hdr.flh = s.flhReg c := rfl
  have e4 : (s.image c kd vd).hdr.size = s.size := rfl
  have e5 : (s.image c kd vd).hdr.cap = s.cap := rfl
  simp only [decodeCore, hlen, e1, e2, e3, e4, e5, hw, hf, h.seq_ok]

/-- The strict decoder inverts the layout. -/
theorem TreeImage.decode_image [DecidableEq α] [DecidableEq β] (c : TreeCfg) (kd : α) (vd : β)
    (s : Tree α β) (h : s.LayoutOk c) : (s.image c kd vd).decode c kd vd = some s := by
  simp [decode, decodeCore_image c kd vd s h]

/-- Conversely, whatever the strict decoder accepts is the layout of what it returns:
    the decoder is injective on accepted images. -/
theorem TreeImage.image_of_decode [DecidableEq α] [DecidableEq β] (c : TreeCfg) (kd : α) (vd : β)
    (img : TreeImage α β) (s : Tree α β) (h : img.decode c kd vd = some s) :
    s.image c kd vd = img := by
  unfold decode at h
  split at h
  · split at h
    · cases h; assumption
    · cases h
  · cases h

/-- Slot trichotomy: in the layout of a state every record is exactly one of
    live (a tree node), recycled (on the free list) or never used (all zero). -/
theorem Tree.recAt_trichotomy (c : TreeCfg) (kd : α) (vd : β) (s : Tree α β)
    (h : s.LayoutOk c) (i : Nat) :
    (i ∈ s.root.slots ∧ i ∉ s.free ∧
        ∃ l k v hh r, s.root.sub i = some (.node i l k v hh r) ∧
          s.recAt c kd vd i = ⟨l.slot, r.slot, hh, 0, k, v⟩) ∨
    (i ∉ s.root.slots ∧ i ∈ s.free ∧
        ∃ nxt, freeNext (s.seqReg c) s.free i = some nxt ∧ s.recAt c kd vd i = ⟨0, 0, nxt, 0, kd, vd⟩) ∨
    (i ∉ s.root.slots ∧ i ∉ s.free ∧ s.recAt c kd vd i = ⟨0, 0, 0, 0, kd, vd⟩) := by
  have hnd := List.nodup_append.1 h.nodup
  by_cases hm : i ∈ s.root.slots
  · refine .inl ⟨hm, fun hf => hnd.2.2 _ hm _ hf rfl, ?_⟩
    obtain ⟨l, k, v, hh, r, hs⟩ := T.exists_isSub_of_mem_slots hm
    exact ⟨l, k, v, hh, r, Tree.recAt_node c kd vd s hnd.1 hs⟩
  · by_cases hf : i ∈ s.free
    · refine .inr (.inl ⟨hm, hf, ?_⟩)
      obtain ⟨pre, rest, hp⟩ := List.append_of_mem hf
      have hfn : freeNext (s.seqReg c) s.free i = some (rest.head?.getD (s.seqReg c)) := by
        rw [hp]; exact freeNext_suffix pre i rest (hp ▸ hnd.2.1)
      exact ⟨_, hfn, Tree.recAt_free c kd vd s hm hfn⟩
    · exact .inr (.inr ⟨hm, hf, Tree.recAt_unused c kd vd s hm hf⟩)

end Stevia
