/-
  Stevia.Proofs.TreeLayoutRT — layout/decoder round trip at register level:
  the independent decoder applied to the layout of a state rebuilds that state.
-/
import Stevia.Proofs.TreeDefs

namespace Stevia
variable {α β : Type}

/-- What the register layout needs of a state to be decodable: distinct
    in-range slots, a free list that does not contain the terminator, and a
    cursor that is recoverable from its register. -/
structure Tree.LayoutOk (c : TreeCfg) (s : Tree α β) : Prop where
  nodup : (s.root.slots ++ s.free).Nodup
  range : ∀ i ∈ s.root.slots ++ s.free, 1 ≤ i ∧ i ≤ s.slots
  free_ne : ∀ i ∈ s.free, i ≠ s.seqReg c
  seq_ok : TreeImage.seqOfReg c s.cap (s.seqReg c) = s.seq

/-- The structural decoder inverts the layout. -/
theorem TreeImage.decodeCore_image (c : TreeCfg) (kd : α) (vd : β) (s : Tree α β)
    (h : s.LayoutOk c) : (s.image c kd vd).decodeCore c = some s := by
  sorry

/-- The strict decoder inverts the layout. -/
theorem TreeImage.decode_image [DecidableEq α] [DecidableEq β] (c : TreeCfg) (kd : α) (vd : β)
    (s : Tree α β) (h : s.LayoutOk c) : (s.image c kd vd).decode c kd vd = some s := by
  sorry

/-- Conversely, whatever the strict decoder accepts is the layout of what it returns:
    the decoder is injective on accepted images. -/
theorem TreeImage.image_of_decode [DecidableEq α] [DecidableEq β] (c : TreeCfg) (kd : α) (vd : β)
    (img : TreeImage α β) (s : Tree α β) (h : img.decode c kd vd = some s) :
    s.image c kd vd = img := by
  sorry

/-- Slot trichotomy: in the layout of a state every record is exactly one of
    live (a tree node), recycled (on the free list) or never used (all zero). -/
theorem Tree.recAt_trichotomy (c : TreeCfg) (kd : α) (vd : β) (s : Tree α β)
    (h : s.LayoutOk c) (i : Nat) :
    (i ∈ s.root.slots ∧ i ∉ s.free ∧
        ∃ l k v hh r, s.root.sub i = some (.node i l k v hh r) ∧
          s.recAt c kd vd i = ⟨l.slot, r.slot, hh, 0, k, v⟩) ∨
    (i ∉ s.root.slots ∧ i ∈ s.free ∧
        ∃ nxt, freeNext (s.seqReg c) s.free i = some nxt ∧ s.recAt c kd vd i = ⟨0, 0, nxt, 0, kd, vd⟩) ∨
    (i ∉ s.root.slots ∧ i ∉ s.free ∧ s.recAt c kd vd i = ⟨0, 0, 0, 0, kd, vd⟩) := by
  sorry

end Stevia
