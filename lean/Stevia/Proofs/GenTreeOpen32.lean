/-
  Stevia.Proofs.GenTreeOpen32 — translator output for `avl_tree.rs` (`Stevia.Gen32.*`, regenerated from the source on
  every run) = literal model at the 32-bit configuration: the capacity adoption of `from_bytes_mut`.
-/
import Stevia.Generated.Avl32Open
import Stevia.Proofs.GenLemmas

namespace Stevia
open Imp
variable {α β : Type} [LinOrd α]
set_option linter.unusedSectionVars false
set_option linter.unusedSimpArgs false

namespace Gen32

theorem from_bytes_mut_eq (d : Rec α β) (m : TreeImage α β) :
    from_bytes_mut d m = Imp.openMut cfgU32 m := by
  simp only [from_bytes_mut, Imp.openMut, cfgU32, Id.run, bind, pure, gt_iff_lt]

end Gen32
end Stevia
