/-
  Stevia.Proofs.BytesRT — the whole chain at byte level: for every reachable state, parsing the
  bytes of its layout and decoding gives back the state.
-/
import Stevia.Proofs.Codec
import Stevia.Proofs.TreeState
import Stevia.Proofs.HashSetState
import Stevia.Proofs.ExecInv

namespace Stevia

/-- The index width of the byte format is the one of the configuration. -/
def TreeFmt.Matches (f : TreeFmt) (c : TreeCfg) : Prop := c.W + 1 = 256 ^ f.iw

/-- The key fits the key scalar of the format. -/
def TreeFmt.keyOk (f : TreeFmt) (k : Int) : Prop :=
  if f.key.signed then -(2 ^ (8 * f.key.size - 1) : Int) ≤ k ∧ k < (2 ^ (8 * f.key.size - 1) : Int)
  else 0 ≤ k ∧ k < (256 ^ f.key.size : Int)

/-- All keys and values of the tree fit their scalars. -/
def TreeFmt.kvOk (f : TreeFmt) (t : T Int Nat) : Prop :=
  ∀ e ∈ t.toList, f.keyOk e.2.1 ∧ e.2.2 < 256 ^ f.val.size

theorem TreeFmt.keyOk_zero (f : TreeFmt) (hf : f.Ok) : f.keyOk 0 := by
  sorry

/-- In a well-formed state every register of the layout fits the index width. -/
theorem Tree.image_bounded (c : TreeCfg) (f : TreeFmt) (hm : f.Matches c) (hf : f.Ok) (s : Tree Int Nat)
    (h : s.Inv c) (hkv : f.kvOk s.root) : (s.image c 0 0).Bounded f := by
  sorry

/-- Bytes → image → state recovers every reachable state (both index widths, any key/value scalars). -/
theorem Tree.bytes_roundtrip (c : TreeCfg) (f : TreeFmt) (hm : f.Matches c) (hf : f.Ok) (s : Tree Int Nat)
    (h : Tree.Reach c s) (hkv : f.kvOk s.root) :
    (f.ofBytes (f.toBytes (s.image c 0 0))).bind (fun img => img.decode c 0 0) = some s := by
  sorry

/-- The two concrete formats of the crate match their configurations. -/
theorem TreeFmt.u8_matches (k v : Scalar) : (TreeFmt.u8 k v).Matches cfgU8 := by
  sorry

theorem TreeFmt.u32_matches (k v : Scalar) : (TreeFmt.u32 k v).Matches cfgU32 := by
  sorry

/-! ### Hash set -/

def HFmt.valsOk (f : HFmt) (s : HSet Nat) : Prop := ∀ v ∈ s.members, v < 256 ^ f.val.size

theorem HSet.image_bounded (hash : Nat → Nat) (f : HFmt) (hf : f.Ok) (s : HSet Nat) (h : s.Inv hash)
    (hv : f.valsOk s) : (s.image 0).Bounded f := by
  sorry

theorem HSet.bytes_roundtrip (hash : Nat → Nat) (f : HFmt) (hf : f.Ok) (s : HSet Nat) (h : s.Inv hash)
    (hv : f.valsOk s) : (f.ofBytes (f.toBytes (s.image 0))).bind (fun img => img.decode 0) = some s := by
  sorry

/-! ### Array sets -/

theorem ASet.bytes_roundtrip (f : AFmt) (hp : 0 < f.pw) (hv : 0 < f.vsz) (s : ASet Nat)
    (h : s.Inv f.keyOf f.prefixMax) (hvals : ∀ v ∈ s.vals, v < 256 ^ f.vsz) :
    f.ofBytes (f.toBytes s) = some s := by
  sorry

end Stevia
