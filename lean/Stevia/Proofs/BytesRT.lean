/-
  Stevia.Proofs.BytesRT — the whole chain at byte level: for every reachable state, parsing the
  bytes of its layout and decoding gives back the state.
-/
import Stevia.Proofs.Codec
import Stevia.Proofs.TreeState
import Stevia.Proofs.HashSetState
import Stevia.Proofs.ExecInv

namespace Stevia

/-- The index width of the byte format is the one of the configuration. -/
def TreeFmt.Matches (f : TreeFmt) (c : TreeCfg) : Prop := c.W + 1 = 256 ^ f.iw

/-- The key fits the key scalar of the format. -/
def TreeFmt.keyOk (f : TreeFmt) (k : Int) : Prop :=
  if f.key.signed then -(2 ^ (8 * f.key.size - 1) : Int) ≤ k ∧ k < (2 ^ (8 * f.key.size - 1) : Int)
  else 0 ≤ k ∧ k < (256 ^ f.key.size : Int)

/-- All keys and values of the tree fit their scalars. -/
def TreeFmt.kvOk (f : TreeFmt) (t : T Int Nat) : Prop :=
  ∀ e ∈ t.toList, f.keyOk e.2.1 ∧ e.2.2 < 256 ^ f.val.size

theorem TreeFmt.keyOk_zero (f : TreeFmt) (hf : f.Ok) : f.keyOk 0 := by
  have _ := hf
  unfold TreeFmt.keyOk
  have h1 : (0 : Int) < 2 ^ (8 * f.key.size - 1) := Int.pow_pos (by decide)
  have h2 : (0 : Int) < 256 ^ f.key.size := Int.pow_pos (by decide)
  split
  · omega
  · omega

/-! ### Subtrees and the free list -/

namespace T
variable {α β : Type}

theorem isSub_of_sub {i : Nat} {t t' : T α β} (h : t.sub i = some t') : IsSub t' t := by
  induction t with
  | nil => simp [sub] at h
  | node j l k v hh r ihl ihr =>
    unfold sub at h
    split at h
    · cases h; exact .refl _
    · split at h
      · rename_i heq
        cases h; exact .left (ihl heq)
      · exact .right (ihr h)

theorem IsSub.bal {t' t : T α β} (h : IsSub t' t) (hb : t.Bal) : t'.Bal := by
  induction h with
  | refl => exact hb
  | left _ ih => exact ih hb.1
  | right _ ih => exact ih hb.2.1

theorem IsSub.toList_mem {t' t : T α β} (h : IsSub t' t) {e : Nat × α × β} (he : e ∈ t'.toList) :
    e ∈ t.toList := by
  induction h with
  | refl => exact he
  | left _ ih => simp [toList, ih]
  | right _ ih => simp [toList, ih]

/-- The slot register of a subtree is 0 (sentinel) or one of the slots of the tree. -/
theorem IsSub.slot_zero_or_mem {t' t : T α β} (h : IsSub t' t) : t'.slot = 0 ∨ t'.slot ∈ t.slots := by
  cases t' with
  | nil => exact .inl rfl
  | node => exact .inr (h.slot_mem (by simp))

end T

/-- The successor on the free list is a member of the free list or the terminator. -/
theorem freeNext_mem {term : Nat} {fl : List Nat} {i nxt : Nat} (h : freeNext term fl i = some nxt) :
    nxt ∈ fl ∨ nxt = term := by
  induction fl with
  | nil => simp [freeNext] at h
  | cons a rest ih =>
    cases rest with
    | nil =>
      simp only [freeNext] at h
      split at h
      · cases h; exact .inr rfl
      · cases h
    | cons b rest =>
      simp only [freeNext] at h
      split at h
      · cases h; exact .inl (by simp)
      · rcases ih h with h' | h'
        · exact .inl (List.mem_cons_of_mem _ h')
        · exact .inr h'

/-- In a well-formed state every register of the layout fits the index width. -/
theorem Tree.image_bounded (c : TreeCfg) (f : TreeFmt) (hm : f.Matches c) (hf : f.Ok) (s : Tree Int Nat)
    (h : s.Inv c) (hkv : f.kvOk s.root) : (s.image c 0 0).Bounded f := by
  unfold TreeFmt.Matches at hm
  have hseq := h.seq_le
  have hcap := h.cap_le
  have hsl := h.slots_le
  have hcnt := h.count
  have hlen : s.root.slots.length = s.root.size := T.length_slots _
  have hsz := h.size_eq
  simp only [List.length_append] at hcnt
  -- every allocated slot fits
  have hslot : ∀ i ∈ s.root.slots ++ s.free, i < 256 ^ f.iw := by
    intro i hi
    have := h.range i hi
    omega
  have hseqReg : s.seqReg c < 256 ^ f.iw := by
    unfold Tree.seqReg
    rw [← hm]
    exact Nat.mod_lt _ (by omega)
  have hpos : 0 < 256 ^ f.iw := by omega
  have hk0 := f.keyOk_zero hf
  have hv0 : 0 < 256 ^ f.val.size := Nat.pow_pos (by decide)
  refine ⟨⟨?_, ?_, ?_, ?_, hseqReg, ?_⟩, ?_⟩
  · -- root
    show s.root.slot < _
    rcases (T.IsSub.refl s.root).slot_zero_or_mem with h0 | h0
    · rw [h0]; exact hpos
    · exact hslot _ (List.mem_append_left _ h0)
  · show s.size < _; omega
  · show s.cap < _; omega
  · show s.flhReg c < _
    unfold Tree.flhReg
    split
    · rename_i i rest heq
      exact hslot _ (List.mem_append_right _ (by rw [heq]; simp))
    · exact hseqReg
  · exact Nat.pow_pos (by decide)
  · intro rc hrc
    simp only [Tree.image, List.mem_map, List.mem_range] at hrc
    obtain ⟨j, _, rfl⟩ := hrc
    rcases Tree.recAt_trichotomy c 0 0 s h.layoutOk (j + 1) with
      ⟨_, _, l, k, v, hh, r, hsub, hrec⟩ | ⟨_, _, nxt, hfn, hrec⟩ | ⟨_, _, hrec⟩
    · rw [hrec]
      have hs := T.isSub_of_sub hsub
      have hl : T.IsSub l s.root := T.IsSub.trans (.left (.refl _)) hs
      have hr : T.IsSub r s.root := T.IsSub.trans (.right (.refl _)) hs
      have hbal := hs.bal h.bal
      have hht := T.ht_eq_height hbal
      have hhl := hs.height_le
      have hrl := T.height_le_length_slots s.root
      have he := hkv _ (hs.toList_mem (e := (j + 1, k, v)) (by simp [T.toList]))
      refine ⟨?_, ?_, ?_, hpos, he.2, he.1⟩
      · show l.slot < _
        rcases hl.slot_zero_or_mem with h0 | h0
        · rw [h0]; exact hpos
        · exact hslot _ (List.mem_append_left _ h0)
      · show r.slot < _
        rcases hr.slot_zero_or_mem with h0 | h0
        · rw [h0]; exact hpos
        · exact hslot _ (List.mem_append_left _ h0)
      · show hh < _
        simp only [T.ht] at hht
        omega
    · rw [hrec]
      refine ⟨hpos, hpos, ?_, hpos, hv0, hk0⟩
      show nxt < _
      rcases freeNext_mem hfn with h0 | h0
      · exact hslot _ (List.mem_append_right _ h0)
      · rw [h0]; exact hseqReg
    · rw [hrec]
      exact ⟨hpos, hpos, hpos, hpos, hv0, hk0⟩

/-- Bytes → image → state recovers every reachable state (both index widths, any key/value scalars). -/
theorem Tree.bytes_roundtrip (c : TreeCfg) (f : TreeFmt) (hm : f.Matches c) (hf : f.Ok) (s : Tree Int Nat)
    (h : Tree.Reach c s) (hkv : f.kvOk s.root) :
    (f.ofBytes (f.toBytes (s.image c 0 0))).bind (fun img => img.decode c 0 0) = some s := by
  have hi := Tree.reach_inv h
  rw [TreeFmt.ofBytes_toBytes f hf _ (Tree.image_bounded c f hm hf s hi hkv)]
  exact TreeImage.decode_image c 0 0 s hi.layoutOk

/-- The two concrete formats of the crate match their configurations. -/
theorem TreeFmt.u8_matches (k v : Scalar) : (TreeFmt.u8 k v).Matches cfgU8 := by
  simp [TreeFmt.Matches, TreeFmt.u8, cfgU8]

theorem TreeFmt.u32_matches (k v : Scalar) : (TreeFmt.u32 k v).Matches cfgU32 := by
  simp [TreeFmt.Matches, TreeFmt.u32, cfgU32]

/-! ### Hash set -/

def HFmt.valsOk (f : HFmt) (s : HSet Nat) : Prop := ∀ v ∈ s.members, v < 256 ^ f.val.size

/-- The `next` register of a chain entry is 0 or the slot of an entry of the chain; its value is
    the value of an entry of the chain. -/
theorem chainNext_mem {β : Type} {ch : List (Nat × β)} {i nxt : Nat} {v : β}
    (h : chainNext ch i = some (nxt, v)) :
    (nxt = 0 ∨ nxt ∈ ch.map (·.1)) ∧ v ∈ ch.map (·.2) := by
  induction ch with
  | nil => simp [chainNext] at h
  | cons e rest ih =>
    cases rest with
    | nil =>
      simp only [chainNext] at h
      split at h
      · cases h; exact ⟨.inl rfl, by simp⟩
      · cases h
    | cons e' rest =>
      simp only [chainNext] at h
      split at h
      · cases h; exact ⟨.inr (by simp), by simp⟩
      · obtain ⟨h1, h2⟩ := ih h
        refine ⟨?_, List.mem_cons_of_mem _ h2⟩
        rcases h1 with h1 | h1
        · exact .inl h1
        · exact .inr (List.mem_cons_of_mem _ h1)

theorem chainsNext_mem' {β : Type} {chains : List (List (Nat × β))} {i nxt : Nat} {v : β}
    (h : chainsNext chains i = some (nxt, v)) :
    (nxt = 0 ∨ nxt ∈ (chains.flatMap id).map (·.1)) ∧ v ∈ (chains.flatMap id).map (·.2) := by
  induction chains with
  | nil => simp [chainsNext] at h
  | cons c cs ih =>
    simp only [chainsNext] at h
    simp only [List.flatMap_cons, id, List.map_append, List.mem_append]
    split at h
    · rename_i r heq
      cases h
      obtain ⟨h1, h2⟩ := chainNext_mem heq
      exact ⟨h1.imp id .inl, .inl h2⟩
    · obtain ⟨h1, h2⟩ := ih h
      exact ⟨h1.imp id .inr, .inr h2⟩

theorem HSet.image_bounded (hash : Nat → Nat) (f : HFmt) (hf : f.Ok) (s : HSet Nat) (h : s.Inv hash)
    (hv : f.valsOk s) : (s.image 0).Bounded f := by
  have _ := hf
  have h256 : 256 ^ 4 = 4294967296 := by decide
  have hseq := h.seq_le
  have hcap := h.cap_le
  have hsl := h.slots_lt
  have hsz := h.size_le_cap
  rw [HImage.Bounded, h256]
  have hslot : ∀ i ∈ s.liveSlots ++ s.free, i < 4294967296 := by
    intro i hi
    have := h.range i hi
    omega
  have hv0 : 0 < 256 ^ f.val.size := Nat.pow_pos (by decide)
  refine ⟨?_, ?_, ?_, ?_, ?_⟩
  · show s.size < _; omega
  · show s.cap < _; omega
  · show s.flhReg < _
    unfold HSet.flhReg
    split
    · rename_i i rest heq
      exact hslot _ (List.mem_append_right _ (by rw [heq]; simp))
    · omega
  · show s.seq < _; omega
  · intro rc hrc
    simp only [HSet.image, List.mem_map, List.mem_range] at hrc
    obtain ⟨j, hj, rfl⟩ := hrc
    have hb : HSet.headOf (s.chains.getD j []) < 4294967296 := by
      have hj' : j < s.chains.length := hj
      rw [List.getD_eq_getElem?_getD, List.getElem?_eq_getElem hj', Option.getD_some]
      cases hc : s.chains[j] with
      | nil => simp [HSet.headOf]
      | cons e rest =>
        simp only [HSet.headOf]
        apply hslot _ (List.mem_append_left _ _)
        refine List.mem_map.2 ⟨e, List.mem_flatMap.2 ⟨s.chains[j], List.getElem_mem _, ?_⟩, rfl⟩
        rw [hc]; simp
    unfold HSet.recAt
    simp only
    split
    · rename_i nxt v heq
      obtain ⟨h1, h2⟩ := chainsNext_mem' heq
      refine ⟨hb, ?_, hv v h2⟩
      rcases h1 with h1 | h1
      · rw [h1]; show (0 : Nat) < 4294967296; decide
      · exact hslot _ (List.mem_append_left _ h1)
    · split
      · rename_i nxt heq
        refine ⟨hb, ?_, hv0⟩
        rcases freeNext_mem heq with h0 | h0
        · exact hslot _ (List.mem_append_right _ h0)
        · show nxt < _; omega
      · exact ⟨hb, (by decide : (0 : Nat) < 4294967296), hv0⟩

theorem HSet.bytes_roundtrip (hash : Nat → Nat) (f : HFmt) (hf : f.Ok) (s : HSet Nat) (h : s.Inv hash)
    (hv : f.valsOk s) : (f.ofBytes (f.toBytes (s.image 0))).bind (fun img => img.decode 0) = some s := by
  rw [HFmt.ofBytes_toBytes f hf _ (HSet.image_bounded hash f hf s h hv)]
  exact HImage.decode_image 0 s h.layoutOk

/-! ### Array sets -/

theorem ASet.bytes_roundtrip (f : AFmt) (hp : 0 < f.pw) (hv : 0 < f.vsz) (s : ASet Nat)
    (h : s.Inv f.keyOf f.prefixMax) (hvals : ∀ v ∈ s.vals, v < 256 ^ f.vsz) :
    f.ofBytes (f.toBytes s) = some s := by
  apply AFmt.ofBytes_toBytes f hp hv s _ hvals
  have h1 := h.len_leP
  unfold AFmt.prefixMax at h1
  have h2 : 256 ^ f.pw = 2 ^ (8 * f.pw) := by rw [Nat.pow_mul]
  have h3 : 0 < 2 ^ (8 * f.pw) := Nat.pow_pos (by decide)
  omega

end Stevia
