/-
  Stevia.Proofs.GenInit — the translated `initialize` (`Allocator::initialize` through the collection's `initialize`,
  regenerated from the sources on every run) applied to the layout of an all-zero buffer of `n` records is the layout
  of the model's initial state `init n cap` — the state every reachable state (`Tree.Reach`, `HSet.Reach`) starts from.
-/
import Stevia.Generated.Avl32Alloc
import Stevia.Generated.Avl8Alloc
import Stevia.Generated.HSet
import Stevia.Proofs.TreeImpEq
import Stevia.Proofs.HashSetImpEq

namespace Stevia
variable {α β : Type} [LinOrd α]
set_option linter.unusedSectionVars false
set_option linter.unusedSimpArgs false

theorem Gen32.initialize_zero (kd : α) (vd : β) (n cap : Nat) :
    Gen32.initialize_tree (Imp.dflt kd vd) ((Tree.zero n : Tree α β).image cfgU32 kd vd) cap
      = (Tree.init n cap : Tree α β).image cfgU32 kd vd := by
  simp only [Gen32.initialize_tree, Gen32.alloc_initialize, Id.run, bind, pure, Tree.image, Tree.hdr, Tree.init,
    Tree.zero, Tree.flhReg, Tree.seqReg, T.slot, cfgU32]
  congr 1
  all_goals first
    | (apply List.map_congr_left; intro j _; simp [Tree.recAt, T.sub, freeNext])
    | simp

theorem Gen8.initialize_zero (kd : α) (vd : β) (n cap : Nat) :
    Gen8.initialize_tree (Imp.dflt kd vd) ((Tree.zero n : Tree α β).image cfgU8 kd vd) cap
      = (Tree.init n cap : Tree α β).image cfgU8 kd vd := by
  simp only [Gen8.initialize_tree, Gen8.alloc_initialize, Id.run, bind, pure, Tree.image, Tree.hdr, Tree.init,
    Tree.zero, Tree.flhReg, Tree.seqReg, T.slot, cfgU8]
  congr 1
  all_goals first
    | (apply List.map_congr_left; intro j _; simp [Tree.recAt, T.sub, freeNext])
    | simp

theorem GenH.initialize_zero {γ : Type} [DecidableEq γ] (hash : γ → Nat) (vd : γ) (n cap : Nat) :
    GenH.initialize_set hash (HImp.dflt vd) ((HSet.zero n : HSet γ).image vd) cap
      = (HSet.init n cap : HSet γ).image vd := by
  simp only [GenH.initialize_set, GenH.alloc_initialize, Id.run, bind, pure, HSet.image, HSet.hdr, HSet.init,
    HSet.zero, HSet.flhReg, HSet.slots]
  congr 1
  all_goals first
    | (apply List.map_congr_left; intro j _; simp [HSet.recAt])
    | simp

/-- Histories of the functional model: each step succeeds and each buffer extension stays within the index range. -/
inductive Tree.Steps (c : TreeCfg) : Tree α β → List (TreeOp α β) → Tree α β → Prop where
  | nil {s : Tree α β} : Tree.Steps c s [] s
  | cons {s s1 s2 : Tree α β} {ops : List (TreeOp α β)} (op : TreeOp α β) (hok : op.ok c s)
      (hstep : s.step c op = .ok s1) (hrest : Tree.Steps c s1 ops s2) : Tree.Steps c s (op :: ops) s2

/-- The layout of a buffer extended by `n` zero-filled records is the old layout followed by `n` default records. -/
theorem Tree.image_extend (c : TreeCfg) (kd : α) (vd : β) (s : Tree α β) (h : s.Inv c) (n : Nat) :
    (s.extend n).image c kd vd =
      { hdr := (s.image c kd vd).hdr, recs := (s.image c kd vd).recs ++ List.replicate n (Imp.dflt kd vd) } := by
  have hrec : ∀ j, s.slots ≤ j → s.recAt c kd vd (j + 1) = Imp.dflt kd vd := by
    intro j hj
    have hnot : j + 1 ∉ s.root.slots ++ s.free := by
      intro hm
      have := (h.range _ hm).2
      have h1 := h.seq_le
      have h2 := h.cap_le
      omega
    rw [Tree.recAt_of_not_mem c kd vd s (fun hm => hnot (List.mem_append_left _ hm))]
    unfold Tree.freeRec
    rw [freeNext_none (fun hm => hnot (List.mem_append_right _ hm))]
    rfl
  show TreeImage.mk ((s.extend n).hdr c) ((List.range (s.extend n).slots).map fun j => (s.extend n).recAt c kd vd (j + 1)) = _
  have e1 : (s.extend n).hdr c = s.hdr c := rfl
  have e2 : (s.extend n).slots = s.slots + n := rfl
  have e3 : ∀ j, (s.extend n).recAt c kd vd j = s.recAt c kd vd j := fun _ => rfl
  simp only [e1, e2, e3, Tree.image]
  congr 1
  rw [List.range_add, List.map_append]
  congr 1
  rw [List.map_map]
  apply List.ext_getElem
  · simp
  · intro i h1 h2
    simp only [List.getElem_map, List.getElem_range, Function.comp, List.getElem_replicate]
    exact hrec _ (by omega)

end Stevia
