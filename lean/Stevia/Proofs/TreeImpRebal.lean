/-
  Stevia.Proofs.TreeImpRebal — tree-level meaning of `update_height`, `update_child`, the rotations
  and one iteration of the `rebalance` loop of the literal model, and the loop itself over a
  zipper context.
-/
import Stevia.Proofs.TreeImpRep

namespace Stevia
variable {α β : Type}

namespace T

theorem slots_mk (i : Nat) (l : T α β) (k : α) (v : β) (r : T α β) :
    (mk i l k v r).slots = l.slots ++ i :: r.slots := by simp [mk]

theorem slots_rotL (t : T α β) : (rotL t).slots = t.slots := by simp [slots, toList_rotL]

theorem slots_rotR (t : T α β) : (rotR t).slots = t.slots := by simp [slots, toList_rotR]

theorem slots_rebal (i : Nat) (l : T α β) (k : α) (v : β) (r : T α β) :
    (rebal i l k v r).slots = l.slots ++ i :: r.slots := by
  simp [slots, toList_rebal]

theorem slot_ne_of_not_mem {t : T α β} {p : Nat} (hp : 1 ≤ p) (h : p ∉ t.slots) : t.slot ≠ p := by
  cases t with
  | nil => simp [slot]; omega
  | node i l k v hh r =>
    simp only [slots_node, List.mem_append, List.mem_cons, not_or] at h
    simp only [slot]
    exact fun e => h.2.1 e.symm

theorem ht_pos_iff {t : T α β} : 0 < t.ht ↔ t ≠ nil := by
  cases t <;> simp [ht]

end T

/-! ### `update_height`, `update_child` on represented trees -/

theorem updateHeight_rep (d : Rec α β) (hdr : Hdr) (n : Nat) (f : Nat → Rec α β)
    {c : Nat} {l r : T α β} {k : α} {v : β} {h : Nat}
    (hr : Rep f (.node c l k v h r)) (hin : (T.node c l k v h r).In n)
    (hcl : c ∉ l.slots) (hcr : c ∉ r.slots) :
    Imp.updateHeight d (mkImg hdr n f) c = mkImg hdr n (upd f c (T.rc l k v (max l.ht r.ht) r)) ∧
      Rep (upd f c (T.rc l k v (max l.ht r.ht) r)) (T.mk c l k v r) := by
  have hc := hin.root
  have e := updateHeight_mkImg d hdr n f hc.1 hc.2 (by rw [hr.1]; exact hin.left.slot_le)
    (by rw [hr.1]; exact hin.right.slot_le)
  rw [hr.1] at e
  simp only [T.rc] at e
  rw [hr.2.1.hgt_slot hin.left, hr.2.2.hgt_slot hin.right] at e
  exact ⟨e, by simp [T.rc], hr.2.1.upd_of_not_mem _ hcl, hr.2.2.upd_of_not_mem _ hcr⟩

theorem updateChild_left_rep (d : Rec α β) (hdr : Hdr) (n : Nat) (f : Nat → Rec α β)
    {p a h : Nat} {L R : T α β} {k : α} {v : β}
    (hp : 1 ≤ p ∧ p ≤ n) (hfp : f p = ⟨a, R.slot, h, 0, k, v⟩)
    (hL : Rep f L) (hR : Rep f R) (hLin : L.In n) (hRin : R.In n)
    (hpL : p ∉ L.slots) (hpR : p ∉ R.slots) :
    Imp.updateChild d (mkImg hdr n f) p false L.slot =
        mkImg hdr n (upd f p (T.rc L k v (max L.ht R.ht) R)) ∧
      Rep (upd f p (T.rc L k v (max L.ht R.ht) R)) (T.mk p L k v R) := by
  have hc : L.slot ≠ p := T.slot_ne_of_not_mem hp.1 hpL
  have hr' : R.slot ≠ p := T.slot_ne_of_not_mem hp.1 hpR
  have e := updateChild_mkImg_left d hdr n f hp.1 hp.2 hLin.slot_le (by rw [hfp]; exact hRin.slot_le) hc
    (by rw [hfp]; exact hr')
  rw [hfp] at e
  simp only at e
  rw [hL.hgt_slot hLin, hR.hgt_slot hRin] at e
  exact ⟨e, by simp [T.rc], hL.upd_of_not_mem _ hpL, hR.upd_of_not_mem _ hpR⟩

theorem updateChild_right_rep (d : Rec α β) (hdr : Hdr) (n : Nat) (f : Nat → Rec α β)
    {p a h : Nat} {L R : T α β} {k : α} {v : β}
    (hp : 1 ≤ p ∧ p ≤ n) (hfp : f p = ⟨L.slot, a, h, 0, k, v⟩)
    (hL : Rep f L) (hR : Rep f R) (hLin : L.In n) (hRin : R.In n)
    (hpL : p ∉ L.slots) (hpR : p ∉ R.slots) :
    Imp.updateChild d (mkImg hdr n f) p true R.slot =
        mkImg hdr n (upd f p (T.rc L k v (max L.ht R.ht) R)) ∧
      Rep (upd f p (T.rc L k v (max L.ht R.ht) R)) (T.mk p L k v R) := by
  have hc : L.slot ≠ p := T.slot_ne_of_not_mem hp.1 hpL
  have hr' : R.slot ≠ p := T.slot_ne_of_not_mem hp.1 hpR
  have e := updateChild_mkImg_right d hdr n f hp.1 hp.2 hRin.slot_le (by rw [hfp]; exact hLin.slot_le) hr'
    (by rw [hfp]; exact hc)
  rw [hfp] at e
  simp only at e
  rw [hL.hgt_slot hLin, hR.hgt_slot hRin] at e
  exact ⟨e, by simp [T.rc], hL.upd_of_not_mem _ hpL, hR.upd_of_not_mem _ hpR⟩

/-! ### Rotations -/

theorem leftRotate_rep (d : Rec α β) (hdr : Hdr) (n : Nat) (f : Nat → Rec α β)
    {x y hx hy : Nat} {A B C : T α β} {kx ky : α} {vx vy : β}
    (hr : Rep f (.node x A kx vx hx (.node y B ky vy hy C)))
    (hnd : (T.node x A kx vx hx (.node y B ky vy hy C)).slots.Nodup)
    (hin : (T.node x A kx vx hx (.node y B ky vy hy C)).In n) :
    ∃ f', Imp.leftRotate d (mkImg hdr n f) x = (mkImg hdr n f', y) ∧
      Rep f' (T.mk y (T.mk x A kx vx B) ky vy C) ∧
      ∀ j, j ≠ x → j ≠ y → f' j = f j := by
  simp only [T.slots_node, List.nodup_append, List.nodup_cons, List.mem_append, List.mem_cons] at hnd
  obtain ⟨hfx, hA, hfy, hB, hC⟩ := hr
  have hxin := hin.root
  have hyin := hin.right.root
  have hxy : x ≠ y := by grind
  have hxA : x ∉ A.slots := by grind
  have hxB : x ∉ B.slots := by grind
  have hxC : x ∉ C.slots := by grind
  have hyA : y ∉ A.slots := by grind
  have hyB : y ∉ B.slots := by grind
  have hyC : y ∉ C.slots := by grind
  unfold Imp.leftRotate
  rw [rd_mkImg d hdr n f hxin.1 hxin.2, hfx]
  simp only [T.rc, T.slot]
  rw [rd_mkImg d hdr n f hyin.1 hyin.2, hfy]
  simp only [T.rc]
  obtain ⟨e1, r1⟩ := updateChild_right_rep d hdr n f (L := A) (R := B) hxin hfx hA hB hin.left
    hin.right.left hxA hxB
  rw [e1]
  have hfy1 : upd f x (T.rc A kx vx (max A.ht B.ht) B) y = ⟨B.slot, C.slot, hy, 0, ky, vy⟩ := by
    rw [upd_ne _ _ (Ne.symm hxy), hfy]; rfl
  have hin1 : (T.mk x A kx vx B).In n := T.In.node hxin hin.left hin.right.left
  obtain ⟨e2, r2⟩ := updateChild_left_rep d hdr n _ (L := T.mk x A kx vx B) (R := C) hyin hfy1 r1
    (hC.upd_of_not_mem _ hxC) hin1 hin.right.right
    (by rw [T.slots_mk]; simp [hyA, hyB, Ne.symm hxy]) hyC
  refine ⟨_, ?_, r2, ?_⟩
  · exact congrArg (·, y) e2
  · intro j h1 h2
    rw [upd_ne _ _ h2, upd_ne _ _ h1]

theorem rightRotate_rep (d : Rec α β) (hdr : Hdr) (n : Nat) (f : Nat → Rec α β)
    {x y hx hy : Nat} {A B C : T α β} {kx ky : α} {vx vy : β}
    (hr : Rep f (.node x (.node y A ky vy hy B) kx vx hx C))
    (hnd : (T.node x (.node y A ky vy hy B) kx vx hx C).slots.Nodup)
    (hin : (T.node x (.node y A ky vy hy B) kx vx hx C).In n) :
    ∃ f', Imp.rightRotate d (mkImg hdr n f) x = (mkImg hdr n f', y) ∧
      Rep f' (T.mk y A ky vy (T.mk x B kx vx C)) ∧
      ∀ j, j ≠ x → j ≠ y → f' j = f j := by
  simp only [T.slots_node, List.nodup_append, List.nodup_cons, List.mem_append, List.mem_cons] at hnd
  obtain ⟨hfx, ⟨hfy, hA, hB⟩, hC⟩ := hr
  have hxin := hin.root
  have hyin := hin.left.root
  have hxy : x ≠ y := by grind
  have hxA : x ∉ A.slots := by grind
  have hxB : x ∉ B.slots := by grind
  have hxC : x ∉ C.slots := by grind
  have hyA : y ∉ A.slots := by grind
  have hyB : y ∉ B.slots := by grind
  have hyC : y ∉ C.slots := by grind
  unfold Imp.rightRotate
  rw [rd_mkImg d hdr n f hxin.1 hxin.2, hfx]
  simp only [T.rc, T.slot]
  rw [rd_mkImg d hdr n f hyin.1 hyin.2, hfy]
  simp only [T.rc]
  obtain ⟨e1, r1⟩ := updateChild_left_rep d hdr n f (L := B) (R := C) hxin hfx hB hC hin.left.right
    hin.right hxB hxC
  rw [e1]
  have hfy1 : upd f x (T.rc B kx vx (max B.ht C.ht) C) y = ⟨A.slot, B.slot, hy, 0, ky, vy⟩ := by
    rw [upd_ne _ _ (Ne.symm hxy), hfy]; rfl
  have hin1 : (T.mk x B kx vx C).In n := T.In.node hxin hin.left.right hin.right
  obtain ⟨e2, r2⟩ := updateChild_right_rep d hdr n _ (L := A) (R := T.mk x B kx vx C) hyin hfy1
    (hA.upd_of_not_mem _ hxA) r1 hin.left.left hin1 hyA
    (by rw [T.slots_mk]; simp [hyB, hyC, Ne.symm hxy])
  refine ⟨_, ?_, r2, ?_⟩
  · exact congrArg (·, y) e2
  · intro j h1 h2
    rw [upd_ne _ _ h2, upd_ne _ _ h1]

/-! ### One iteration of `rebalance`, without the fix-up of the parent -/

/-- The part of `rebalanceStep` that works below the path node. -/
def Imp.rebalCore (d : Rec α β) (m : TreeImage α β) (child : Nat) : TreeImage α β × Option Nat :=
  let left := (Imp.rd d m child).left
  let right := (Imp.rd d m child).right
  let bf := Imp.balanceFactor d m left right
  if bf > 1 then
    let ll := (Imp.rd d m left).left
    let lr := (Imp.rd d m left).right
    let lbf := Imp.balanceFactor d m ll lr
    let m :=
      if lbf < 0 then
        let (m1, idx) := Imp.leftRotate d m left
        Imp.updateChild d m1 child false idx
      else m
    let (m2, idx2) := Imp.rightRotate d m child
    (m2, some idx2)
  else if bf < -1 then
    let rl := (Imp.rd d m right).left
    let rr := (Imp.rd d m right).right
    let rbf := Imp.balanceFactor d m rl rr
    let m :=
      if rbf > 0 then
        let (m1, idx) := Imp.rightRotate d m right
        Imp.updateChild d m1 child true idx
      else m
    let (m2, idx2) := Imp.leftRotate d m child
    (m2, some idx2)
  else (Imp.updateHeight d m child, none)

theorem Imp.rebalanceStep_eq (d : Rec α β) (m : TreeImage α β) (parent : Option Nat)
    (branch : Option Bool) (child : Nat) :
    Imp.rebalanceStep d m (parent, branch, child) =
      match (Imp.rebalCore d m child).2 with
      | none => (Imp.rebalCore d m child).1
      | some index =>
        match parent with
        | some p => Imp.updateChild d (Imp.rebalCore d m child).1 p (branch.getD false) index
        | none => Imp.updateHeight d (Imp.setRoot (Imp.rebalCore d m child).1 index) index := rfl

theorem rebalCore_rep (d : Rec α β) (hdr : Hdr) (n : Nat) (f : Nat → Rec α β)
    {c h : Nat} {l r : T α β} {k : α} {v : β}
    (hr : Rep f (.node c l k v h r)) (hnd : (T.node c l k v h r).slots.Nodup)
    (hin : (T.node c l k v h r).In n) :
    ∃ f' o, Imp.rebalCore d (mkImg hdr n f) c = (mkImg hdr n f', o) ∧
      Rep f' (T.rebal c l k v r) ∧
      (∀ j, j ∉ (T.node c l k v h r).slots → f' j = f j) ∧
      o.getD c = (T.rebal c l k v r).slot ∧
      (o ≠ none → ∃ j l' k' v' r', T.rebal c l k v r = T.mk j l' k' v' r') := by
  have hcin := hin.root
  have hnd' := hnd
  simp only [T.slots_node, List.nodup_append, List.nodup_cons, List.mem_append, List.mem_cons] at hnd'
  unfold Imp.rebalCore
  rw [rd_mkImg d hdr n f hcin.1 hcin.2, hr.1]
  simp only [T.rc]
  have hbf : Imp.balanceFactor d (mkImg hdr n f) l.slot r.slot = (l.ht : Int) - (r.ht : Int) := by
    rw [balanceFactor_mkImg d hdr n f hin.left.slot_le hin.right.slot_le, hr.2.1.hgt_slot hin.left,
      hr.2.2.hgt_slot hin.right]
  simp only [hbf]
  unfold T.rebal
  by_cases h1 : r.ht + 1 < l.ht
  · rw [if_pos (by omega : ((l.ht : Int) - r.ht > 1)), if_pos h1]
    cases l with
    | nil => simp at h1
    | node j ll lk lv lh lr =>
      have hjin := hin.left.root
      have hrdj : Imp.rd d (mkImg hdr n f) j = T.rc ll lk lv lh lr := by
        rw [rd_mkImg d hdr n f hjin.1 hjin.2, hr.2.1.1]
      have hbf2 : Imp.balanceFactor d (mkImg hdr n f) ll.slot lr.slot = (ll.ht : Int) - (lr.ht : Int) := by
        rw [balanceFactor_mkImg d hdr n f hin.left.left.slot_le hin.left.right.slot_le,
          hr.2.1.2.1.hgt_slot hin.left.left, hr.2.1.2.2.hgt_slot hin.left.right]
      by_cases h2 : (T.node j ll lk lv lh lr).left.ht < (T.node j ll lk lv lh lr).right.ht
      · rw [if_pos h2]
        simp only [T.slot_node, hrdj, T.rc, hbf2]
        have h2' : ll.ht < lr.ht := h2
        rw [if_pos (by omega : ((ll.ht : Int) - lr.ht < 0))]
        cases lr with
        | nil => simp at h2'
        | node m lrl lrk lrv lrh lrr =>
          have hnd2 := hnd
          simp only [T.slots_node, List.nodup_append, List.nodup_cons, List.mem_append,
            List.mem_cons] at hnd2
          obtain ⟨f1, e1, r1, fr1⟩ := leftRotate_rep d hdr n f hr.2.1 hnd'.1 hin.left
          rw [e1]
          dsimp only
          have hf1c : f1 c = ⟨j, r.slot, h, 0, k, v⟩ := by
            rw [fr1 c (by grind) (by grind)]; exact hr.1
          have hr1r : Rep f1 r := hr.2.2.congr (fun x hx => fr1 x (by grind) (by grind))
          have hLin : (T.mk m (T.mk j ll lk lv lrl) lrk lrv lrr).In n := by
            intro x hx
            apply hin.left x
            simpa [T.slots_mk] using hx
          obtain ⟨e2, r2⟩ := updateChild_left_rep d hdr n f1
            (L := T.mk m (T.mk j ll lk lv lrl) lrk lrv lrr) (R := r) hcin hf1c r1 hr1r hLin hin.right
            (by simp only [T.slots_mk, List.mem_append, List.mem_cons]; grind) (by grind)
          have e2' : Imp.updateChild d (mkImg hdr n f1) c false m = _ := e2
          rw [e2']
          obtain ⟨f3, e3, r3, fr3⟩ := rightRotate_rep d hdr n _ r2
            (by simpa [T.mk] using hnd) (by
              intro x hx
              apply hin x
              simpa [T.mk] using hx)
          rw [e3]
          refine ⟨f3, some m, rfl, r3, ?_, rfl, fun _ => ⟨_, _, _, _, _, rfl⟩⟩
          intro x hx
          simp only [T.slots_node, List.mem_append, List.mem_cons, not_or] at hx
          rw [fr3 x (by grind) (by grind), upd_ne _ _ (by grind), fr1 x (by grind) (by grind)]
      · rw [if_neg h2]
        simp only [T.slot_node, hrdj, T.rc, hbf2]
        have h2' : ¬ ll.ht < lr.ht := h2
        rw [if_neg (by omega : ¬ ((ll.ht : Int) - lr.ht < 0))]
        obtain ⟨f3, e3, r3, fr3⟩ := rightRotate_rep d hdr n f hr hnd hin
        rw [e3]
        refine ⟨f3, some j, rfl, r3, ?_, rfl, fun _ => ⟨_, _, _, _, _, rfl⟩⟩
        intro x hx
        simp only [T.slots_node, List.mem_append, List.mem_cons, not_or] at hx
        exact fr3 x (by grind) (by grind)
  · rw [if_neg (by omega : ¬ ((l.ht : Int) - r.ht > 1)), if_neg h1]
    by_cases h3 : l.ht + 1 < r.ht
    · rw [if_pos (by omega : ((l.ht : Int) - r.ht < -1)), if_pos h3]
      cases r with
      | nil => simp at h3
      | node j rl rk rv rh rr =>
        have hjin := hin.right.root
        have hrdj : Imp.rd d (mkImg hdr n f) j = T.rc rl rk rv rh rr := by
          rw [rd_mkImg d hdr n f hjin.1 hjin.2, hr.2.2.1]
        have hbf2 : Imp.balanceFactor d (mkImg hdr n f) rl.slot rr.slot = (rl.ht : Int) - (rr.ht : Int) := by
          rw [balanceFactor_mkImg d hdr n f hin.right.left.slot_le hin.right.right.slot_le,
            hr.2.2.2.1.hgt_slot hin.right.left, hr.2.2.2.2.hgt_slot hin.right.right]
        have hnd2 := hnd
        simp only [T.slots_node, List.nodup_append, List.nodup_cons, List.mem_append,
          List.mem_cons] at hnd2
        by_cases h2 : (T.node j rl rk rv rh rr).right.ht < (T.node j rl rk rv rh rr).left.ht
        · rw [if_pos h2]
          simp only [T.slot_node, hrdj, T.rc, hbf2]
          have h2' : rr.ht < rl.ht := h2
          rw [if_pos (by omega : ((rl.ht : Int) - rr.ht > 0))]
          cases rl with
          | nil => simp at h2'
          | node m rll rlk rlv rlh rlr =>
            have hnd3 := hnd
            simp only [T.slots_node, List.nodup_append, List.nodup_cons, List.mem_append,
              List.mem_cons] at hnd3
            obtain ⟨f1, e1, r1, fr1⟩ := rightRotate_rep d hdr n f hr.2.2 hnd'.2.1.2 hin.right
            rw [e1]
            dsimp only
            have hf1c : f1 c = ⟨l.slot, j, h, 0, k, v⟩ := by
              rw [fr1 c (by grind) (by grind)]; exact hr.1
            have hr1l : Rep f1 l := hr.2.1.congr (fun x hx => fr1 x (by grind) (by grind))
            have hRin : (T.mk m rll rlk rlv (T.mk j rlr rk rv rr)).In n := by
              intro x hx
              apply hin.right x
              simpa [T.slots_mk] using hx
            obtain ⟨e2, r2⟩ := updateChild_right_rep d hdr n f1
              (L := l) (R := T.mk m rll rlk rlv (T.mk j rlr rk rv rr)) hcin hf1c hr1l r1 hin.left hRin
              (by grind) (by simp only [T.slots_mk, List.mem_append, List.mem_cons]; grind)
            have e2' : Imp.updateChild d (mkImg hdr n f1) c true m = _ := e2
            rw [e2']
            obtain ⟨f3, e3, r3, fr3⟩ := leftRotate_rep d hdr n _ r2
              (by simpa [T.mk] using hnd) (by
                intro x hx
                apply hin x
                simpa [T.mk] using hx)
            rw [e3]
            refine ⟨f3, some m, rfl, r3, ?_, rfl, fun _ => ⟨_, _, _, _, _, rfl⟩⟩
            intro x hx
            simp only [T.slots_node, List.mem_append, List.mem_cons, not_or] at hx
            rw [fr3 x (by grind) (by grind), upd_ne _ _ (by grind), fr1 x (by grind) (by grind)]
        · rw [if_neg h2]
          simp only [T.slot_node, hrdj, T.rc, hbf2]
          have h2' : ¬ rr.ht < rl.ht := h2
          rw [if_neg (by omega : ¬ ((rl.ht : Int) - rr.ht > 0))]
          obtain ⟨f3, e3, r3, fr3⟩ := leftRotate_rep d hdr n f hr hnd hin
          rw [e3]
          refine ⟨f3, some j, rfl, r3, ?_, rfl, fun _ => ⟨_, _, _, _, _, rfl⟩⟩
          intro x hx
          simp only [T.slots_node, List.mem_append, List.mem_cons, not_or] at hx
          exact fr3 x (by grind) (by grind)
    · rw [if_neg (by omega : ¬ ((l.ht : Int) - r.ht < -1)), if_neg h3]
      obtain ⟨e, r1⟩ := updateHeight_rep d hdr n f hr hin (by grind) (by grind)
      rw [e]
      refine ⟨_, none, rfl, r1, ?_, rfl, fun hh => absurd rfl hh⟩
      intro x hx
      simp only [T.slots_node, List.mem_append, List.mem_cons, not_or] at hx
      exact upd_ne _ _ (by grind)

end Stevia
