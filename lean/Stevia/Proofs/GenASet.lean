/-
  Stevia.Proofs.GenASet — translator output for `array_set.rs` (`Stevia.GenA.*`, regenerated from the source on every
  run) = the model `Stevia.ASet.*` (whose `search` is the binary-search loop and whose `copyWithin` is the `ptr::copy`).
  A failing bounds check / out-of-range copy is `none` on the translated side and `Except.error` in the model;
  the statements are equalities through `Except.toOption`, for every set whose length prefix does not exceed its slot
  count (`len()` clamps the prefix to the slot count since the repair c509816; the model keeps the plain prefix and
  every well-formed state has `len ≤ slots`).
-/
import Stevia.Generated.ASet
import Stevia.Proofs.GenLemmas

namespace Stevia
variable {α κ : Type} [LinOrd κ]
set_option linter.unusedSectionVars false
set_option linter.unusedSimpArgs false

/-- `index` returns `(Some(i), None)` when found and `(None, Some(i))` with the insertion point otherwise. -/
def Idx.pair : Idx → Option Nat × Option Nat
  | .found i => (some i, none)
  | .absent i => (none, some i)

namespace GenA

theorem len_eq (key : α → κ) (P : Nat) (m : ASet α) (hle : m.len ≤ m.vals.length) : len key P m = m.len :=
  Nat.min_eq_left hle
theorem is_empty_eq (key : α → κ) (P : Nat) (m : ASet α) (hle : m.len ≤ m.vals.length) :
    is_empty key P m = m.isEmpty := by
  show decide (len key P m = 0) = (m.len == 0)
  rw [len_eq key P m hle]
  by_cases h : m.len = 0 <;> simp [h]
theorem is_full_eq (key : α → κ) (P : Nat) (m : ASet α) (hle : m.len ≤ m.vals.length) :
    is_full key P m = m.isFull P := by
  -- (the two tests may be written in either order)
  have hl := len_eq key P m hle
  unfold is_full ASet.isFull ASet.slots
  simp only [Id.run, pure, hl]
  by_cases h1 : m.len = m.vals.length <;> by_cases h2 : m.len + 1 ≤ P <;> simp [h1, h2] <;> omega

/-- The state `(early result, start, end, left by its condition)` of the binary-search loop after `n` iterations
    (`none` = a bounds check failed). -/
def searchSt (key : α → κ) (vals : List α) (x : κ) :
    Nat → Option (Option Nat × Option Nat) × Nat × Nat × Bool →
      Option (Option (Option Nat × Option Nat) × Nat × Nat × Bool)
  | 0, s => some s
  | n + 1, s =>
    let st := s.2.1
    let e := s.2.2.1
    if ¬ st ≤ e then some (none, st, e, true)
    else
      let mid := st + (e - st) / 2
      match vals[mid]? with
      | none => none
      | some y =>
        if x < key y ∧ e = st then some (none, st, e, true)
        else if x < key y then searchSt key vals x n (none, st, mid - 1, s.2.2.2)
        else if key y < x then searchSt key vals x n (none, mid + 1, e, s.2.2.2)
        else some (some (some mid, none), st, e, s.2.2.2)

/-- The loop leaves by its own condition, a `break` or a `return` (or fails a bounds check) within the fuel: the
    interval `[start, end]` shrinks in every iteration, so `end + 2 - start` iterations always suffice. -/
theorem searchSt_exit (key : α → κ) (vals : List α) (x : κ) (n st e : Nat) (hn : e + 1 - st < n) :
    ∀ r, searchSt key vals x n (none, st, e, false) = some r → r.1.isSome ∨ r.2.2.2 = true := by
  induction n generalizing st e with
  | zero => omega
  | succ n ih =>
    intro r hr
    simp only [searchSt] at hr
    by_cases hle : st ≤ e
    · simp only [hle, not_true_eq_false, if_false] at hr
      cases hv : vals[st + (e - st) / 2]? with
      | none => rw [hv] at hr; cases hr
      | some y =>
        rw [hv] at hr
        simp only [] at hr
        by_cases h1 : x < key y
        · by_cases h2 : e = st
          · simp only [h1, h2, and_self, if_true, Option.some.injEq] at hr
            subst hr; exact Or.inr rfl
          · simp only [h1, h2, and_false, if_true, if_false] at hr
            exact ih _ _ (by omega) r hr
        · by_cases h3 : key y < x
          · simp only [h1, h3, false_and, if_true, if_false] at hr
            exact ih _ _ (by omega) r hr
          · simp only [h1, h3, false_and, if_false, Option.some.injEq] at hr
            subst hr; exact Or.inl rfl
    · simp only [hle, not_false_eq_true, if_true, Option.some.injEq] at hr
      subst hr; exact Or.inr rfl

theorem searchSt_spec (key : α → κ) (vals : List α) (x : κ) (n st e : Nat) (ps : List Nat) (hn : e + 1 - st < n) :
    (searchSt key vals x n (none, st, e, false)).map (fun s => match s.1 with
      | some r => r
      | none => (none, some s.2.1))
    = (ASet.search key vals x n st e ps).toOption.map (fun r => r.1.pair) := by
  induction n generalizing st e ps with
  | zero => omega
  | succ n ih =>
    simp only [searchSt, ASet.search]
    by_cases hle : st ≤ e
    · simp only [hle, not_true_eq_false, if_false, if_true]
      cases hv : vals[st + (e - st) / 2]? with
      | none => rfl
      | some y =>
        simp only []
        by_cases h1 : x < key y
        · by_cases h2 : e = st
          · simp [h1, h2, Except.toOption, Idx.pair]
          · simp only [h1, h2, and_false, and_true, if_true, if_false]
            exact ih _ _ _ (by omega)
        · by_cases h3 : key y < x
          · simp only [h1, h3, false_and, if_true, if_false]
            exact ih _ _ _ (by omega)
          · simp [h1, h3, Except.toOption, Idx.pair]
    · simp [hle, Except.toOption, Idx.pair]

/-- `index`: the translated binary search is the model's, *and it never runs out of fuel* (`len + 1` iterations
    suffice for an interval of `len` positions). -/
theorem index_eq (key : α → κ) (P : Nat) (m : ASet α) (hle : m.len ≤ m.vals.length) (x : α) :
    index key P m x = (ASet.index key m (key x)).toOption.map Idx.pair := by
  unfold index ASet.index ASet.indexP
  simp only [forIn, is_empty_eq key P m hle, len_eq key P m hle, ASet.isEmpty, beq_iff_eq]
  by_cases h0 : m.len = 0
  · simp [h0, Except.toOption, Except.map, Idx.pair]
  · simp only [h0, if_false]
    have hfuel : (m.len - 1) + 1 - 0 < m.len + 1 := by omega
    rw [Fuel.forIn_eq_of_optF _ (searchSt key m.vals (key x)) (fun s => rfl)]
    · have hspec := searchSt_spec key m.vals (key x) (m.len + 1) 0 (m.len - 1) [] hfuel
      have hexit := searchSt_exit key m.vals (key x) (m.len + 1) 0 (m.len - 1) hfuel
      cases hs : searchSt key m.vals (key x) (m.len + 1) (none, 0, m.len - 1, false) with
      | none =>
        rw [hs] at hspec
        cases hr : ASet.search key m.vals (key x) (m.len + 1) 0 (m.len - 1) [] with
        | error e => simp [Except.toOption, Except.map]
        | ok r => rw [hr] at hspec; simp [Except.toOption] at hspec
      | some s =>
        rw [hs] at hspec
        have hx := hexit s hs
        cases hr : ASet.search key m.vals (key x) (m.len + 1) 0 (m.len - 1) [] with
        | error e => rw [hr] at hspec; simp [Except.toOption] at hspec
        | ok r =>
          rw [hr] at hspec
          simp only [Option.map_some, Except.toOption, Option.some.injEq] at hspec
          simp only [Option.bind_eq_bind, Option.bind_some, Except.map, Except.toOption, Option.map_some]
          rw [← hspec]
          obtain ⟨r1, st, e, ex⟩ := s
          cases r1 with
          | some r1 => rfl
          | none =>
            have : ex = true := by simpa using hx
            subst this
            rfl
    · intro n s
      obtain ⟨r, st, e, ex⟩ := s
      simp only [searchSt]
      by_cases hle : st ≤ e
      · simp only [hle, not_true_eq_false, if_false]
        cases hv : m.vals[st + (e - st) / 2]? with
        | none => rfl
        | some y =>
          simp only [Option.bind_eq_bind, Option.bind_some]
          by_cases h1 : key x < key y
          · by_cases h2 : e = st
            · simp only [h1, h2, and_self, if_true]; rfl
            · simp only [h1, h2, and_false, if_true, if_false]; rfl
          · by_cases h3 : key y < key x
            · simp only [h1, h3, false_and, if_true, if_false]; rfl
            · simp only [h1, h3, false_and, if_false]; rfl
      · simp only [hle, not_false_eq_true, if_true]; rfl

theorem get_eq (key : α → κ) (P : Nat) (m : ASet α) (hle : m.len ≤ m.vals.length) (x : α) :
    get key P m x = (ASet.get key m (key x)).toOption := by
  unfold get ASet.get
  simp only [index_eq key P m hle]
  cases hi : ASet.index key m (key x) with
  | error e => rfl
  | ok r =>
    cases r with
    | found i =>
      simp only [Except.toOption, Option.map_some, Idx.pair, Option.bind_eq_bind, Option.bind_some]
      cases m.vals[i]? <;> rfl
    | absent i => rfl

theorem contains_eq (key : α → κ) (P : Nat) (m : ASet α) (hle : m.len ≤ m.vals.length) (x : α) :
    contains key P m x = (ASet.contains key m (key x)).toOption := by
  unfold contains ASet.contains
  simp only [get_eq key P m hle]
  cases ASet.get key m (key x) <;> rfl

/-- `get_mut` yields the place (the index of the slot); writing `y` through it is the model's `update`. -/
theorem get_mut_eq (key : α → κ) (P : Nat) (m : ASet α) (hle : m.len ≤ m.vals.length) (x y : α) :
    (get_mut key P m x).map (fun r => match r.2 with
      | some i => ({ m with vals := m.vals.set i y }, true)
      | none => (m, false)) = (ASet.update key m (key x) y).toOption := by
  unfold get_mut ASet.update
  simp only [index_eq key P m hle]
  cases hi : ASet.index key m (key x) with
  | error e => rfl
  | ok r => cases r <;> rfl

/-- An insertion point returned by the search never lies beyond the count (whatever the slots hold): what makes the
    range `index..len` of the safe `copy_within` form of the shift well-formed. -/
theorem search_absent_le (key : α → κ) (vals : List α) (x : κ) :
    ∀ (fuel s e : Nat) (ps : List Nat) (i : Nat) (ps' : List Nat), s ≤ e + 1 →
      ASet.search key vals x fuel s e ps = .ok (.absent i, ps') → i ≤ e + 1 := by
  intro fuel
  induction fuel with
  | zero =>
    intro s e ps i ps' hs h
    simp only [ASet.search, Except.ok.injEq, Prod.mk.injEq, Idx.absent.injEq] at h
    omega
  | succ n ih =>
    intro s e ps i ps' hs h
    unfold ASet.search at h
    split at h
    · rename_i hse
      simp only at h
      split at h
      · cases h
      · rename_i y hy
        split at h
        · split at h
          · simp only [Except.ok.injEq, Prod.mk.injEq, Idx.absent.injEq] at h; omega
          · have := ih _ _ _ _ _ (by omega) h
            omega
        · split at h
          · have := ih _ _ _ _ _ (by omega) h
            omega
          · simp at h
    · simp only [Except.ok.injEq, Prod.mk.injEq, Idx.absent.injEq] at h; omega

theorem index_absent_le (key : α → κ) (s : ASet α) (x : κ) (i : Nat)
    (h : s.index key x = .ok (.absent i)) : i ≤ s.len := by
  unfold ASet.index ASet.indexP at h
  split at h
  · simp [Except.map] at h; omega
  · rename_i h0
    cases hs : ASet.search key s.vals x (s.len + 1) 0 (s.len - 1) [] with
    | error e => rw [hs] at h; simp [Except.map] at h
    | ok r =>
      obtain ⟨r1, ps'⟩ := r
      rw [hs] at h
      simp only [Except.map, Except.ok.injEq] at h
      subst h
      have := search_absent_le key s.vals x _ _ _ _ _ _ (by omega) hs
      omega

theorem insert_eq (key : α → κ) (P : Nat) (m : ASet α) (hle : m.len ≤ m.vals.length) (x : α) :
    insert key P m x = (ASet.insert key P m x).toOption := by
  unfold insert ASet.insert
  simp only [index_eq key P m hle, is_full_eq key P m hle, len_eq key P m hle]
  by_cases hf : m.isFull P = true
  · simp only [hf, if_true]; rfl
  · simp only [hf, if_false]
    cases hi : ASet.index key m (key x) with
    | error e => rfl
    | ok r =>
      cases r with
      | found i => rfl
      | absent i =>
        simp only [Except.toOption, Option.map_some, Idx.pair, Option.bind_eq_bind, Option.bind_some, Nat.zero_add]
        have e1 : 1 + i = i + 1 := Nat.add_comm 1 i
        try simp only [e1]
        -- (`copy_within(index..len, index + 1)` panics when `index > len`: it never is)
        have hil : i ≤ m.len := index_absent_le key m (key x) i hi
        try simp only [hil, not_true_eq_false, if_false]
        cases hc : ASet.copyWithin m.vals i (i + 1) (m.len - i) with
        | error e => rfl
        | ok vals' =>
          simp only [Option.bind_some]
          by_cases hlt : i < vals'.length
          · simp only [hlt, not_true_eq_false, if_false, if_true]; rfl
          · simp only [hlt, not_false_eq_true, if_true, if_false]; rfl

theorem take_eq (key : α → κ) (P : Nat) (m : ASet α) (hle : m.len ≤ m.vals.length) (x : α) :
    take key P m x = (ASet.take key m (key x)).toOption := by
  unfold take ASet.take
  simp only [index_eq key P m hle, is_empty_eq key P m hle, len_eq key P m hle, ASet.isEmpty, beq_iff_eq]
  by_cases h0 : m.len = 0
  · simp only [h0, if_true]; rfl
  · simp only [h0, if_false]
    cases hi : ASet.index key m (key x) with
    | error e => rfl
    | ok r =>
      cases r with
      | absent i => rfl
      | found i =>
        simp only [Except.toOption, Option.map_some, Idx.pair, Option.bind_eq_bind, Option.bind_some, Nat.zero_add]
        cases hv : m.vals[i]? with
        | none => rfl
        | some y =>
          simp only [Option.bind_some]
          -- (the guard may be written on the tail length: `len - index - 1 > 0`)
          have e3 : (0 < m.len - i - 1) ↔ (i < m.len - 1) := by omega
          try simp only [e3]
          by_cases hlt : i < m.len - 1
          · simp only [hlt, if_true]
            -- (the source may write the source index `1 + index` and the count `len - 1 - index`)
            have e1 : 1 + i = i + 1 := Nat.add_comm 1 i
            have e2 : m.len - 1 - i = m.len - i - 1 := Nat.sub_right_comm m.len 1 i
            try simp only [e1, e2]
            cases hc : ASet.copyWithin m.vals (i + 1) i (m.len - i - 1) <;> rfl
          · simp only [hlt, if_false]; rfl

theorem remove_eq (key : α → κ) (P : Nat) (m : ASet α) (hle : m.len ≤ m.vals.length) (x : α) :
    remove key P m x = ((ASet.take key m (key x)).toOption).map (fun r => (r.1, r.2.isSome)) := by
  unfold remove
  simp only [take_eq key P m hle]
  cases ASet.take key m (key x) <;> rfl

/-- `Deref`: the slice view is the first `len` slots — it never panics (since the repair c509816 `len()` cannot exceed
    the slot count), and on a set whose prefix does not exceed the slot count it is the model's `view`. -/
theorem deref_eq (key : α → κ) (P : Nat) (m : ASet α) :
    deref key P m = some (m.vals.take (min m.len m.vals.length)) ∧
    (m.len ≤ m.vals.length → deref key P m = some m.view) := by
  have h1 : deref key P m = some (m.vals.take (min m.len m.vals.length)) := by
    have hle : min m.len m.vals.length ≤ m.vals.length := Nat.min_le_right _ _
    simp only [deref, len, Id.run, pure, hle, not_true_eq_false, if_false]
  refine ⟨h1, fun hle => ?_⟩
  rw [h1, Nat.min_eq_left hle]
  rfl

end GenA
end Stevia
