/-
  Stevia.Proofs.GenStr — translator output for `prefix_str.rs` (`Stevia.GenP.*`) and `pod_str.rs` (`Stevia.GenS.*`),
  regenerated from the sources on every run, related to the models `Stevia.PStr.*` / `Stevia.PodStr.*`.
  `W` = size of the length prefix, `P` = its largest value, `N` = capacity of the pod string.  A failing slice
  index / `split_at` / length mismatch is `none` on the translated side and `Except.error` in the model.
-/
import Stevia.Generated.PStr
import Stevia.Generated.PodStr
import Stevia.Proofs.GenLemmas
import Stevia.Proofs.StrState

namespace Stevia
set_option linter.unusedSectionVars false
set_option linter.unusedSimpArgs false

/-! ### Byte-array helpers -/

theorem zerosBA_extract (N l : Nat) : (zerosBA N).extract l N = zerosBA (N - l) := by
  apply ByteArray.ext
  simp [zerosBA, ByteArray.data_extract]

namespace GenP

theorem extract_tail_prefix (b : ByteArray) (w l : Nat) (h : w + l ≤ b.size) :
    (b.extract w b.size).extract 0 l = b.extract w (w + l) := by
  rw [ByteArray.extract_extract, Nat.add_zero, Nat.min_eq_left h]

theorem from_bytes_unchecked_eq (W P N : Nat) (bytes : ByteArray) :
    from_bytes_unchecked W P N bytes =
      if bytes.size < W then none else if bytes.size - W < PStr.recLen W bytes then none
      else some (PStr.payload W bytes) := by
  unfold from_bytes_unchecked PStr.payload PStr.recLen
  by_cases h1 : bytes.size < W
  · have : ¬ W ≤ bytes.size := by omega
    simp [h1, this]
  · have h1' : W ≤ bytes.size := by omega
    by_cases h2 : bytes.size - W < leOfBA (bytes.extract 0 W)
    · simp [h1, h1', h2, ByteArray.size_extract]
    · have h3 : W + leOfBA (bytes.extract 0 W) ≤ bytes.size := by omega
      simp [h1, h1', h2, ByteArray.size_extract, extract_tail_prefix _ _ _ h3]

/-- `from_bytes`: `Ok(payload)` iff the payload is valid UTF-8; panics exactly where the model faults. -/
theorem from_bytes_eq (W P N : Nat) (bytes : ByteArray) :
    from_bytes W P N bytes = (PStr.fromBytes W bytes).toOption := by
  unfold from_bytes PStr.fromBytes
  rw [from_bytes_unchecked_eq]
  by_cases h1 : bytes.size < W
  · simp [h1, Except.toOption]
  · by_cases h2 : bytes.size - W < PStr.recLen W bytes
    · simp [h1, h2, Except.toOption]
    · simp [h1, h2, Except.toOption]; split <;> rfl

theorem from_bytes_mut_eq (W P N : Nat) (bytes : ByteArray) :
    from_bytes_mut W P N bytes =
      if bytes.size < W then none else if bytes.size - W < PStr.recLen W bytes then none
      else some (bytes, PStr.payload W bytes) := by
  unfold from_bytes_mut PStr.payload PStr.recLen
  by_cases h1 : bytes.size < W
  · have : ¬ W ≤ bytes.size := by omega
    simp [h1, this]
  · have h1' : W ≤ bytes.size := by omega
    by_cases h2 : bytes.size - W < leOfBA (bytes.extract 0 W)
    · simp [h1, h1', h2, ByteArray.size_extract]
    · have h3 : W + leOfBA (bytes.extract 0 W) ≤ bytes.size := by omega
      simp [h1, h1', h2, ByteArray.size_extract, extract_tail_prefix _ _ _ h3]

/-- The buffer `new` leaves: the clamped length in the prefix, the rest unchanged. -/
def newBuf (W P : Nat) (data : ByteArray) : ByteArray :=
  leBA W (min (data.size - W) P) ++ data.extract W data.size

theorem newBuf_size (W P : Nat) (data : ByteArray) (hw : W ≤ data.size) : (newBuf W P data).size = data.size := by
  simp [newBuf, ByteArray.size_append, leBA_size, ByteArray.size_extract]; omega

theorem newBuf_recLen (W P : Nat) (hP : P < 256 ^ W) (data : ByteArray) :
    PStr.recLen W (newBuf W P data) = min (data.size - W) P := by
  unfold PStr.recLen newBuf
  rw [ByteArray.extract_append_eq_left (leBA_size _ _).symm, leOfBA_leBA]
  apply Nat.mod_eq_of_lt
  have := Nat.min_le_right (data.size - W) P
  omega

theorem new_unchecked_eq (W P N : Nat) (hP : P < 256 ^ W) (data : ByteArray) :
    new_unchecked W P N data =
      if data.size < W then none else some (newBuf W P data, PStr.payload W (newBuf W P data)) := by
  unfold new_unchecked
  by_cases h1 : data.size < W
  · have : ¬ W ≤ data.size := by omega
    simp [h1, this]
  · have h1' : W ≤ data.size := by omega
    have hm : min (data.size - W) P % (P + 1) = min (data.size - W) P :=
      Nat.mod_eq_of_lt (by have := Nat.min_le_right (data.size - W) P; omega)
    have h2 : ¬ (newBuf W P data).size < W := by rw [newBuf_size _ _ _ h1']; exact h1
    have h3 : ¬ (newBuf W P data).size - W < PStr.recLen W (newBuf W P data) := by
      rw [newBuf_size _ _ _ h1', newBuf_recLen _ _ hP]; omega
    simp only [hm, leBA_size, h1', h1, not_true_eq_false, if_false]
    show (from_bytes_mut W P N (newBuf W P data) >>= _) = _
    rw [from_bytes_mut_eq, if_neg h2, if_neg h3]
    rfl

/-- `new`: the buffer afterwards and whether the result is `Ok`, as in the model (for a prefix type whose
    maximum `P` fits in `W` bytes: `(1, 255)` and `(2, 65535)`). -/
theorem new_eq (W P N : Nat) (hP : P < 256 ^ W) (data : ByteArray) :
    (new W P N data).map (fun r => (r.1, r.2.isSome)) = (PStr.new W P data).toOption := by
  unfold new PStr.new
  simp only []
  rw [new_unchecked_eq _ _ _ hP]
  by_cases h1 : data.size < W
  · simp [h1, Except.toOption]
  · have hr := newBuf_recLen W P hP data
    simp only [h1, if_false, Except.toOption]
    show _ = some (newBuf W P data, ((newBuf W P data).extract W (W + min (data.size - W) P)).validateUTF8)
    rw [← hr]
    show _ = some (newBuf W P data, (PStr.payload W (newBuf W P data)).validateUTF8)
    by_cases h : (PStr.payload W (newBuf W P data)).IsValidUTF8 <;> simp [h]

/-- … and the string `new` hands out is the payload of the buffer it leaves. -/
theorem new_value (W P N : Nat) (hP : P < 256 ^ W) (data d' v : ByteArray)
    (h : new W P N data = some (d', some v)) : v = PStr.payload W d' := by
  unfold new at h
  simp only [] at h
  rw [new_unchecked_eq _ _ _ hP] at h
  by_cases h1 : data.size < W
  · simp [h1] at h
  · simp only [h1, if_false] at h
    by_cases hv : (PStr.payload W (newBuf W P data)).IsValidUTF8
    · simp [hv] at h
      obtain ⟨rfl, rfl⟩ := h
      rfl
    · simp [hv] at h

theorem payload_size (W : Nat) (buf : ByteArray) (hw : W + PStr.recLen W buf ≤ buf.size) :
    (PStr.payload W buf).size = PStr.recLen W buf := by
  simp [PStr.payload, ByteArray.size_extract]; omega

theorem copy_from_slice_eq (W P N : Nat) (value slice : ByteArray) (h : slice.size ≤ value.size) :
    copy_from_slice W P N value slice = some (slice ++ zerosBA (value.size - slice.size)) := by
  unfold copy_from_slice
  have hm : min value.size slice.size = slice.size := Nat.min_eq_right h
  have h3 : slice.size + (value.size - slice.size) = value.size := by omega
  simp [hm, h, ByteArray.size_extract, ByteArray.size_append, h3, ByteArray.extract_zero_size,
    ByteArray.extract_append_eq_left]

/-- The state `(length, left by its condition)` after `n` iterations of the char-boundary loop of `copy_from_str`. -/
def floorSt (s : String) : Nat → Nat × Bool → Nat × Bool
  | 0, st => st
  | n + 1, st => if (String.Pos.Raw.mk st.1).isValid s then (st.1, true) else floorSt s n (st.1 - 1, st.2)

/-- The loop finds the boundary — and leaves by its own condition — within `l + 1` iterations (position 0 is a
    boundary). -/
theorem floorSt_eq (s : String) (n l : Nat) (h : l ≤ n) : floorSt s (n + 1) (l, false) = (floorBoundary s l, true) := by
  induction n generalizing l with
  | zero =>
    have : l = 0 := by omega
    subst this
    have hv : (String.Pos.Raw.mk 0).isValid s = true :=
      String.Pos.Raw.isValid_eq_true_iff.mpr String.Pos.Raw.isValid_zero
    simp [floorSt, floorBoundary, hv]
  | succ n ih =>
    cases l with
    | zero =>
      have hv : (String.Pos.Raw.mk 0).isValid s = true :=
        String.Pos.Raw.isValid_eq_true_iff.mpr String.Pos.Raw.isValid_zero
      rw [floorSt]; simp [floorBoundary, hv]
    | succ k =>
      rw [floorSt, floorBoundary]
      by_cases hv : (String.Pos.Raw.mk (k + 1)).isValid s = true
      · simp [hv]
      · simp only [hv, if_false, Bool.false_eq_true, Nat.add_sub_cancel]
        exact ih k (by omega)

theorem copy_from_str_val (W P N : Nat) (value : ByteArray) (s : String) :
    copy_from_str W P N value s =
      some (s.toByteArray.extract 0 (floorBoundary s (min value.size s.utf8ByteSize))
        ++ zerosBA (value.size - floorBoundary s (min value.size s.utf8ByteSize))) := by
  unfold copy_from_str
  simp only [forIn]
  rw [Fuel.forIn_eq_of_opt _ (floorSt s) (fun s => rfl)]
  · have hn := floorBoundary_le s (min value.size s.utf8ByteSize)
    have hsz : s.toByteArray.size = s.utf8ByteSize := String.size_toByteArray
    rw [floorSt_eq s _ _ (Nat.min_le_right _ _)]
    have hS : (s.toByteArray.extract 0 (floorBoundary s (min value.size s.utf8ByteSize))).size
        = floorBoundary s (min value.size s.utf8ByteSize) := by
      simp [ByteArray.size_extract, hsz]; omega
    have hle : floorBoundary s (min value.size s.utf8ByteSize) ≤ s.toByteArray.size := by omega
    simp only [Option.bind_eq_bind, Option.bind_some, Nat.zero_le, true_and, hle, not_true_eq_false, if_false]
    rw [copy_from_slice_eq _ _ _ _ _ (by rw [hS]; omega), hS]
    rfl
  · intro n st
    obtain ⟨l, ex⟩ := st
    by_cases hv : (String.Pos.Raw.mk l).isValid s = true
    · simp [floorSt, hv]
    · simp [floorSt, hv]

/-- `copy_from_str` through a handle over `buf` (whose `value` is the payload): the payload afterwards, put back
    between the prefix and the trailing bytes, is the model's buffer. -/
theorem copy_from_str_eq (W P N : Nat) (buf : ByteArray) (s : String) (hw : W + PStr.recLen W buf ≤ buf.size) :
    ∃ v, copy_from_str W P N (PStr.payload W buf) s = some v ∧
      PStr.copyFromStr W buf s = buf.extract 0 W ++ v ++ buf.extract (W + PStr.recLen W buf) buf.size := by
  refine ⟨_, copy_from_str_val W P N _ s, ?_⟩
  rw [payload_size W buf hw]
  unfold PStr.copyFromStr
  simp only [ByteArray.append_assoc]

theorem size_eq (W P N : Nat) (buf : ByteArray) (hw : W + PStr.recLen W buf ≤ buf.size) :
    size W P N (PStr.payload W buf) = some (PStr.size W buf) := by
  unfold size PStr.size
  rw [payload_size W buf hw]; rfl

end GenP

namespace GenS

theorem copy_from_slice_eq (W P N : Nat) (v : ByteArray) (hv : v.size = N) (src : ByteArray) :
    copy_from_slice W P N v src = some (PodStr.ofBytes N src) := by
  unfold copy_from_slice PodStr.ofBytes
  have h1 : ¬ src.size < min src.size N := by omega
  have h2 : ¬ N < min src.size N := by omega
  have h3 : min src.size N + (N - min src.size N) = N := by omega
  have h4 : (src.extract 0 (min src.size N)).size = min src.size N := by
    simp [ByteArray.size_extract]
  simp [ByteArray.size_extract, ByteArray.size_append, hv, h1, h2, h3,
    ByteArray.extract_append_eq_left h4.symm]

theorem copy_from_str_eq (W P N : Nat) (v : ByteArray) (hv : v.size = N) (s : String) :
    copy_from_str W P N v s = some (PodStr.ofStr N s) := by
  unfold copy_from_str
  simp only []
  rw [copy_from_slice_eq W P N v hv]; rfl

/-- `From<&str>`: written out (copy what fits into a zero array) or as `Self::default()` followed by `copy_from_str`. -/
theorem from_str_eq (W P N : Nat) (s : String) : from_str W P N s = some (PodStr.ofStr N s) := by
  first
  | (unfold from_str PodStr.ofStr PodStr.ofBytes
     have h1 : ¬ s.utf8ByteSize < min s.utf8ByteSize N := by omega
     have h2 : ¬ N < min s.utf8ByteSize N := by omega
     simp [zerosBA_size, ByteArray.size_extract, String.size_toByteArray, zerosBA_extract, h1, h2]
     done)
  | (unfold from_str
     simp only [default_value, bind, Option.bind, pure]
     rw [copy_from_str_eq W P N (zerosBA N) (zerosBA_size N) s])

theorem as_str_eq (W P N : Nat) (v : ByteArray) (hv : v.size = N) :
    as_str W P N v = some (PodStr.asStr v) := by
  unfold as_str PodStr.asStr PodStr.text
  have h := (PodStr.text_spec v).1
  unfold PodStr.endIndex at h ⊢
  rw [hv] at h ⊢
  first
  | (simp [h]; done)
  | (simp [h]; intro hc; omega)  -- the NUL search behind a helper: its bounds check stays, and never fires

/-- `Display::fmt` writes `from_utf8_lossy` of the text before the first NUL (`lossy` stands for the standard
    library's `String::from_utf8_lossy`, whose behaviour is a parameter). It never fails on a value of `N` bytes. -/
theorem fmt_eq (W P N : Nat) (lossy : ByteArray → ByteArray) (v : ByteArray) (hv : v.size = N) :
    fmt W P N lossy v = some (lossy (PodStr.text v)) := by
  unfold fmt PodStr.text
  have h := (PodStr.text_spec v).1
  unfold PodStr.endIndex at h ⊢
  rw [hv] at h ⊢
  first
  | (simp [h]; done)
  | (simp [h]; intro hc; omega)  -- the NUL search behind a helper: its bounds check stays, and never fires

/-- `as_str_unchecked`: the text before the first NUL, whatever it holds. -/
theorem as_str_unchecked_eq (W P N : Nat) (v : ByteArray) (hv : v.size = N) :
    as_str_unchecked W P N v = some (PodStr.text v) := by
  unfold as_str_unchecked PodStr.text
  have h := (PodStr.text_spec v).1
  unfold PodStr.endIndex at h ⊢
  rw [hv] at h ⊢
  first
  | (simp [h]; done)
  | (simp [h]; intro hc; omega)  -- the NUL search behind a helper: its bounds check stays, and never fires

theorem default_value_eq (W P N : Nat) : default_value W P N = some (zerosBA N) := rfl

end GenS

namespace GenP
/-- `Deref`, `DerefMut` and `as_str` of a prefix string hand out the payload bytes themselves (and `DerefMut` leaves
    them as they are). -/
theorem deref_eq (W P N : Nat) (v : ByteArray) :
    deref W P N v = some v ∧ as_str W P N v = some v ∧ deref_mut W P N v = some (v, v) := ⟨rfl, rfl, rfl⟩
end GenP
end Stevia
