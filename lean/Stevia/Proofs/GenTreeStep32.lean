/-
  Stevia.Proofs.GenTreeStep32 — simulation of the functional model by the translated source (`avl_tree.rs`,
  `Stevia.Gen32.*`): `initialize` on a zero-filled buffer produces the layout of the model's initial state, and every
  model transition from a reachable state — insert, remove, `get_mut` + write, re-open, buffer extension — is matched
  by the translated code run on the layout: it answers `some …` with the layout of the model's next state.
  By induction over `Tree.Reach` every reachable model state is therefore reached, layout for layout, by running the
  translated functions from a zero-filled buffer, and never through a panic or a loop that runs on.
-/
import Stevia.Proofs.GenTreeRefine32
import Stevia.Proofs.GenInit

namespace Stevia
variable {α β : Type} [LinOrd α]

namespace Gen32

/-- One operation of the translated source on an image, through a fresh handle (`from_bytes_mut`), as the crate is
    used; `extend` is the caller appending zero-filled records to the buffer. -/
def stepImg (d : Rec α β) (m : TreeImage α β) : TreeOp α β → Option (TreeImage α β)
  | .insert k v => (insert d (from_bytes_mut d m) k v).map (·.1)
  | .remove k => (remove d (from_bytes_mut d m) k).map (·.1)
  | .update k v => (get_mut d (from_bytes_mut d m) k).map fun r =>
      match r.2 with
      | none => r.1
      | some i => Imp.wr r.1 i fun rc => { rc with val := v }
  | .reopen => some (from_bytes_mut d m)
  | .extend n => some { m with recs := m.recs ++ List.replicate n d }

/-- Every model transition from a reachable state is matched by the translated code on the layout. -/
theorem step_refines (kd : α) (vd : β) (s : Tree α β) (h : Tree.Reach cfgU32 s) (op : TreeOp α β)
    (hok : op.ok cfgU32 s) :
    ∃ s', s.step cfgU32 op = .ok s' ∧ Tree.Reach cfgU32 s' ∧
      stepImg (Imp.dflt kd vd) (s.image cfgU32 kd vd) op = some (s'.image cfgU32 kd vd) := by
  have hinv := Tree.reach_inv h
  cases op with
  | insert k v =>
    obtain ⟨s', r, hr, hs, he⟩ := transition_insert kd vd s h k v
    refine ⟨s', by simp [Tree.step, hs, Except.map], hr, ?_⟩
    simp only [stepImg, he, Option.map_some]
  | remove k =>
    obtain ⟨s', r, hr, hs, he⟩ := transition_remove kd vd s h k
    refine ⟨s', by simp [Tree.step, hs, Except.map], hr, ?_⟩
    simp only [stepImg, he, Option.map_some]
  | update k v =>
    refine ⟨((s.openMut cfgU32).update k v).1, rfl, Tree.Reach.step (TreeOp.update k v) h trivial rfl, ?_⟩
    have hi' := Tree.inv_openMut hinv
    have := get_mut_refines kd vd (s.openMut cfgU32) hi' k v
    simp only [stepImg, from_bytes_mut_refines kd vd s hinv]
    cases hg : get_mut (Imp.dflt kd vd) ((s.openMut cfgU32).image cfgU32 kd vd) k with
    | none => rw [hg] at this; cases this
    | some r =>
      rw [hg] at this
      simp only [Option.map_some, Option.some.injEq] at this ⊢
      have hm : r.1 = (s.openMut cfgU32).image cfgU32 kd vd := by
        have := get_mut_fst (Imp.dflt kd vd) ((s.openMut cfgU32).image cfgU32 kd vd) k r hg
        exact this
      cases hr2 : r.2 with
      | none => rw [hr2] at this; simp only [] at this ⊢; rw [hm]; exact congrArg Prod.fst this
      | some i => rw [hr2] at this; simp only [] at this ⊢; rw [hm]; exact congrArg Prod.fst this
  | reopen =>
    exact ⟨s.openMut cfgU32, rfl, Tree.Reach.step TreeOp.reopen h trivial rfl, by
      simp only [stepImg, from_bytes_mut_refines kd vd s hinv]⟩
  | extend n =>
    refine ⟨s.extend n, rfl, Tree.Reach.step (TreeOp.extend n) h hok rfl, ?_⟩
    simp only [stepImg, Tree.image_extend cfgU32 kd vd s hinv n]

/-- Running a list of operations of the translated source, each through a fresh handle. -/
def runImg (d : Rec α β) : TreeImage α β → List (TreeOp α β) → Option (TreeImage α β)
  | m, [] => some m
  | m, op :: ops => (stepImg d m op).bind fun m' => runImg d m' ops

/-- **Simulation over whole histories.** For every history of the functional model from a reachable state (each
    buffer extension within the index range), the translated source run on the layout of the start state answers
    `some` of the layout of the model's end state: no panic, no loop that runs on, the same bytes. -/
theorem run_refines (kd : α) (vd : β) (s s' : Tree α β) (ops : List (TreeOp α β)) (h : Tree.Reach cfgU32 s)
    (hs : Tree.Steps cfgU32 s ops s') :
    Tree.Reach cfgU32 s' ∧
      runImg (Imp.dflt kd vd) (s.image cfgU32 kd vd) ops = some (s'.image cfgU32 kd vd) := by
  induction hs with
  | nil => exact ⟨h, rfl⟩
  | cons op hok hstep _ ih =>
    obtain ⟨s1, h1, hr1, he1⟩ := step_refines kd vd _ h op hok
    rw [hstep] at h1
    cases h1
    obtain ⟨hr, he⟩ := ih hr1
    exact ⟨hr, by simp only [runImg, he1, Option.bind_some, he]⟩

/-- … and from a zero-filled buffer: `initialize(cap)` followed by any history. -/
theorem run_from_zero (kd : α) (vd : β) (n cap : Nat) (h1 : cap ≤ n) (h2 : n < 4294967295) (s' : Tree α β)
    (ops : List (TreeOp α β)) (hs : Tree.Steps cfgU32 (Tree.init n cap) ops s') :
    runImg (Imp.dflt kd vd)
      (initialize_tree (Imp.dflt kd vd) ((Tree.zero n : Tree α β).image cfgU32 kd vd) cap) ops
      = some (s'.image cfgU32 kd vd) := by
  rw [initialize_zero kd vd n cap]
  exact (run_refines kd vd _ s' ops (Tree.Reach.init n cap h1 (Nat.le_of_lt h2) (Or.inr h2)) hs).2

end Gen32
end Stevia
