/-
  Stevia.Proofs.GenTreeOps8 — translator output for `u8_avl_tree.rs` (`Stevia.Gen8.*`, regenerated from the source on
  every run) = literal model `Stevia.Imp.*` at the 8-bit configuration: `insert` and `remove` (descent loops, successor splice, path surgery).
  Every statement is an unconditional equality of functions; a source change that alters what one of these
  functions computes makes its proof fail.
-/
import Stevia.Generated.Avl8
import Stevia.Proofs.GenLemmas
import Stevia.Proofs.GenTreeBal8
import Stevia.Proofs.GenTreeAlloc8
import Stevia.Proofs.GenTreeQuery8

namespace Stevia
open Imp
variable {α β : Type} [LinOrd α]
set_option linter.unusedSectionVars false
set_option linter.unusedSimpArgs false

namespace Gen8

theorem insert_eq (d : Rec α β) (m : TreeImage α β) (key : α) (value : β) :
    (insert d m key value).getD (m, none) = Imp.insert cfgU8 d m key value := by
  unfold insert Imp.insert
  simp only [forIn, is_full_eq, add_eq, update_child_eq, rebalance_eq, List.nil_append]
  by_cases hroot : m.hdr.root = 0
  · simp only [hroot, if_true]
    by_cases hfull : isFull m = true
    · simp [hfull]
    · cases hadd : Imp.add cfgU8 d m key value <;> simp [hfull, hadd, setRoot]
  · simp only [hroot, if_false]
    generalize m.recs.length + 1 = fuel
    generalize m.hdr.root = ref
    generalize [((none : Option Nat), (none : Option Bool), ref)] = path
    induction fuel generalizing ref path with
    | zero => rfl
    | succ n ih =>
      simp only [Fuel.forIn, insertDescend]
      by_cases h1 : key < (rd d m ref).key
      · by_cases h2 : (rd d m ref).left = 0
        · by_cases hfull : isFull m = true
          · simp [h1, h2, hfull]
          · cases hadd : Imp.add cfgU8 d m key value <;> simp [h1, h2, hfull, hadd]
        · simp only [h1, h2, if_true, if_false, pure_bind]
          exact ih _ _
      · by_cases h3 : (rd d m ref).key < key
        · by_cases h2 : (rd d m ref).right = 0
          · by_cases hfull : isFull m = true
            · simp [h1, h3, h2, hfull]
            · cases hadd : Imp.add cfgU8 d m key value <;> simp [h1, h3, h2, hfull, hadd]
          · simp only [h1, h3, h2, if_true, if_false, pure_bind]
            exact ih _ _
        · simp [h1, h3]

theorem remove_eq (d : Rec α β) (m : TreeImage α β) (key : α) :
    remove d m key = Imp.remove d m key := by
  unfold remove Imp.remove
  simp only [forIn, Id.run, update_child_eq, rebalance_eq, List.nil_append]
  by_cases hroot : m.hdr.root = 0
  · simp only [hroot, if_true]; rfl
  · simp only [hroot, if_false]
    rw [Fuel.forIn_eq_of _ (fun n s => removeDescend d m key n s.1 s.2) (fun s => rfl)]
    · simp only [pure_bind]
      generalize removeDescend d m key (m.recs.length + 1) m.hdr.root [(none, none, m.hdr.root)] = r1
      obtain ⟨nodeIndex, path⟩ := r1
      simp only []
      by_cases h0 : nodeIndex = 0
      · simp only [h0, if_true]; rfl
      · simp only [h0, if_false]
        by_cases h2 : (rd d m nodeIndex).left ≠ 0 ∧ (rd d m nodeIndex).right ≠ 0
        · simp only [h2, if_true]
          rw [Fuel.forIn_eq_of _ (fun n s => leftmostWalk d m n s.1 s.2.1 s.2.2) (fun s => rfl)]
          · simp only [pure_bind]
            have hdef : ((none : Option Nat), (none : Option Bool), 0) = (default : Ancestor) := rfl
            have hb : (default : Bool) = false := rfl
            simp only [hdef, hb, remove_node_eq d _ _ h0]
            generalize leftmostWalk d m (m.recs.length + 1) (rd d m nodeIndex).right 0 [] = r2
            obtain ⟨lm, par, inner⟩ := r2
            generalize path.getLast?.getD default = last
            obtain ⟨p, b, c⟩ := last
            generalize (rd d m nodeIndex).left = left at h2 ⊢
            generalize (rd d m nodeIndex).right = right at h2 ⊢
            simp only [if_pos h2]
            have hin : (if ¬inner.isEmpty = true then inner.dropLast else inner) = inner.dropLast := by
              cases inner <;> rfl
            by_cases hpar : par ≠ 0 <;> by_cases hrl : right ≠ lm <;> cases p <;>
              (try simp only [if_pos hpar, if_neg hpar, if_pos hrl, if_neg hrl]) <;>
              cases inner <;>
              (try simp only [List.isEmpty_nil, List.isEmpty_cons, not_true_eq_false, not_false_eq_true, if_true, if_false,
                Bool.false_eq_true, List.dropLast_nil, List.append_nil]) <;>
              split <;> rename_i hr <;>
              first
                | (simp only [if_pos hr]; rfl)
                | (simp only [if_neg hr]; rfl)
                | rfl
          · intro n s
            obtain ⟨lm, par, inner⟩ := s
            simp only [leftmostWalk]
            by_cases hn : (rd d m lm).left = 0
            · simp only [hn, ne_eq, if_true, if_false, not_true_eq_false, not_false_eq_true]; rfl
            · simp only [hn, ne_eq, if_true, if_false, not_true_eq_false, not_false_eq_true]; rfl
        · simp only [h2, if_false]
          have hdef : ((none : Option Nat), (none : Option Bool), 0) = (default : Ancestor) := rfl
          simp only [hdef, remove_node_eq d _ _ h0]
          generalize (if (rd d m nodeIndex).left = 0 ∧ (rd d m nodeIndex).right = 0 then 0
            else if (rd d m nodeIndex).left ≠ 0 then (rd d m nodeIndex).left else (rd d m nodeIndex).right) = child
          generalize path.getLast?.getD default = last
          obtain ⟨p, b, c⟩ := last
          cases p with
          | none =>
            by_cases hr : nodeIndex = m.hdr.root
            · simp only [if_pos hr]; rfl
            · simp only [if_neg hr]; rfl
          | some p =>
            have hb : (default : Bool) = false := rfl
            simp only [hb]
            by_cases hc : child ≠ 0
            · by_cases hr : nodeIndex = (updateChild d m p (b.getD false) child).hdr.root
              · simp only [if_pos hc, if_pos hr]; rfl
              · simp only [if_pos hc, if_neg hr]; rfl
            · by_cases hr : nodeIndex = (updateChild d m p (b.getD false) child).hdr.root
              · simp only [if_neg hc, if_pos hr]; rfl
              · simp only [if_neg hc, if_neg hr]; rfl
    · intro n s
      obtain ⟨node, path⟩ := s
      simp only [removeDescend]
      by_cases hn : node = 0
      · simp only [hn, if_true, ne_eq, not_true_eq_false, not_false_eq_true]; rfl
      · by_cases h1 : key < (rd d m node).key
        · simp only [hn, h1, if_true, if_false, ne_eq, not_true_eq_false, not_false_eq_true]; rfl
        · by_cases h3 : (rd d m node).key < key
          · simp only [hn, h1, h3, if_true, if_false, ne_eq, not_true_eq_false, not_false_eq_true]; rfl
          · simp only [hn, h1, h3, if_true, if_false, ne_eq, not_true_eq_false, not_false_eq_true]; rfl

end Gen8
end Stevia
