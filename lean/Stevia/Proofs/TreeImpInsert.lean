/-
  Stevia.Proofs.TreeImpInsert — the descent of `insert` records the zipper of the search path, `add`
  is `Tree.alloc` on the layout, and walking the zipper outwards with `rebal` is `T.ins`.
-/
import Stevia.Proofs.TreeImpLoop

namespace Stevia
variable {α β : Type}

section Descend
variable [LinOrd α]

/-- The zipper of the search path for `key` (innermost frame first), on top of `ctx`. -/
def T.descend (key : α) : T α β → List (Frame α β) → List (Frame α β)
  | .nil, ctx => ctx
  | .node i l k v h r, ctx =>
    if key < k then T.descend key l (⟨i, k, v, h, false, r⟩ :: ctx)
    else if k < key then T.descend key r (⟨i, k, v, h, true, l⟩ :: ctx)
    else ctx

theorem T.plug_descend (key : α) (t : T α β) (ctx : List (Frame α β)) (hf : t.find key = none) :
    plug (t.descend key ctx) .nil = plug ctx t := by
  induction t generalizing ctx with
  | nil => rfl
  | node i l k v h r ihl ihr =>
    simp only [T.find] at hf
    simp only [T.descend]
    split
    · rename_i hlt
      rw [if_pos hlt] at hf
      rw [ihl _ hf]
      simp [plug, Frame.fill]
    · rename_i hlt
      rw [if_neg hlt] at hf
      split
      · rename_i hgt
        rw [if_pos hgt] at hf
        rw [ihr _ hf]
        simp [plug, Frame.fill]
      · rename_i hgt
        rw [if_neg hgt] at hf
        cases hf

theorem T.up_descend (idx : Nat) (key : α) (val : β) (t : T α β) (ctx : List (Frame α β))
    (hf : t.find key = none) :
    up (t.descend key ctx) (.node idx .nil key val 0 .nil) = up ctx (t.ins idx key val) := by
  induction t generalizing ctx with
  | nil => rfl
  | node i l k v h r ihl ihr =>
    simp only [T.find] at hf
    simp only [T.descend, T.ins]
    split
    · rename_i hlt
      rw [if_pos hlt] at hf
      rw [ihl _ hf]
      simp [up, Frame.rebalFill]
    · rename_i hlt
      rw [if_neg hlt] at hf
      split
      · rename_i hgt
        rw [if_pos hgt] at hf
        rw [ihr _ hf]
        simp [up, Frame.rebalFill]
      · rename_i hgt
        rw [if_neg hgt] at hf
        cases hf

/-- The descent loop of `insert` refuses a present key. -/
theorem insertDescend_some (d : Rec α β) (hdr : Hdr) (n : Nat) (f : Nat → Rec α β) (key : α) :
    ∀ (t : T α β) (fuel : Nat) (path : List Imp.Ancestor), t ≠ .nil → Rep f t → t.In n →
      t.height ≤ fuel → (t.find key).isSome →
      Imp.insertDescend d (mkImg hdr n f) key fuel t.slot path = none := by
  intro t
  induction t with
  | nil => intro _ _ hne; exact absurd rfl hne
  | node i l k v h r ihl ihr =>
    intro fuel path _ hr hin hf hs
    simp only [T.height] at hf
    obtain ⟨fuel, rfl⟩ : ∃ f', fuel = f' + 1 := ⟨fuel - 1, by omega⟩
    simp only [T.find] at hs
    simp only [Imp.insertDescend, T.slot_node, hr.rd hin d hdr, T.rc]
    split
    · rename_i hlt
      rw [if_pos hlt] at hs
      have hne : l ≠ .nil := by intro e; rw [e] at hs; simp [T.find] at hs
      rw [if_neg (by rw [hin.left.slot_eq_zero]; exact hne)]
      exact ihl fuel _ hne hr.2.1 hin.left (by omega) hs
    · rename_i hlt
      rw [if_neg hlt] at hs
      split
      · rename_i hgt
        rw [if_pos hgt] at hs
        have hne : r ≠ .nil := by intro e; rw [e] at hs; simp [T.find] at hs
        rw [if_neg (by rw [hin.right.slot_eq_zero]; exact hne)]
        exact ihr fuel _ hne hr.2.2 hin.right (by omega) hs
      · rfl

/-- The descent loop of `insert` records the zipper of the search path. -/
theorem insertDescend_none (d : Rec α β) (hdr : Hdr) (n : Nat) (f : Nat → Rec α β) (key : α) :
    ∀ (t : T α β) (fuel : Nat) (path : List Imp.Ancestor) (ctx : List (Frame α β)), t ≠ .nil →
      Rep f t → t.In n → t.height ≤ fuel → t.find key = none → path.reverse = pathOf ctx t.slot →
      ∃ fr ctx' path', t.descend key ctx = fr :: ctx' ∧
        Imp.insertDescend d (mkImg hdr n f) key fuel t.slot path = some (fr.i, fr.dir, path') ∧
        path'.reverse = pathOf ctx' fr.i := by
  intro t
  induction t with
  | nil => intro _ _ _ hne; exact absurd rfl hne
  | node i l k v h r ihl ihr =>
    intro fuel path ctx _ hr hin hf hs hp
    simp only [T.height] at hf
    obtain ⟨fuel, rfl⟩ : ∃ f', fuel = f' + 1 := ⟨fuel - 1, by omega⟩
    simp only [T.find] at hs
    simp only [Imp.insertDescend, T.slot_node, hr.rd hin d hdr, T.rc, T.descend]
    simp only [T.slot_node] at hp
    split
    · rename_i hlt
      rw [if_pos hlt] at hs
      cases l with
      | nil =>
        simp only [T.slot_nil, if_true, T.descend]
        exact ⟨_, _, _, rfl, rfl, hp⟩
      | node li ll lk lv lh lr =>
        rw [if_neg (by have := hin.left.root; simp only [T.slot_node]; omega)]
        exact ihl fuel _ (⟨i, k, v, h, false, r⟩ :: ctx) (by simp) hr.2.1 hin.left (by omega) hs
          (by simp [pathOf, hp])
    · rename_i hlt
      rw [if_neg hlt] at hs
      split
      · rename_i hgt
        rw [if_pos hgt] at hs
        cases r with
        | nil =>
          simp only [T.slot_nil, if_true, T.descend]
          exact ⟨_, _, _, rfl, rfl, hp⟩
        | node ri rl rk rv rh rr =>
          rw [if_neg (by have := hin.right.root; simp only [T.slot_node]; omega)]
          exact ihr fuel _ (⟨i, k, v, h, true, l⟩ :: ctx) (by simp) hr.2.2 hin.right (by omega) hs
            (by simp [pathOf, hp])
      · rename_i hgt
        rw [if_neg hgt] at hs
        cases hs

end Descend

/-! ### `add` is `alloc` on the layout -/

theorem add_eq [LinOrd α] (c : TreeCfg) (kd : α) (vd : β) (s : Tree α β) (h : s.Inv c)
    (hnf : s.size < s.cap) (d : Rec α β) (key : α) (val : β) :
    ∃ s1 i, s.alloc c = .ok (s1, i) ∧ 1 ≤ i ∧ i ≤ s.slots ∧ i ∉ s.root.slots ∧
      s1.root = s.root ∧ s1.size = s.size + 1 ∧ s1.cap = s.cap ∧ s1.slots = s.slots ∧
      (∀ j, j ≠ i → s1.freeRec c kd vd j = s.freeRec c kd vd j) ∧
      Imp.add c d (s.image c kd vd) key val =
        some (mkImg { root := s.root.slot, size := s.size + 1, cap := s.cap, flh := s1.flhReg c,
                      seq := s1.seqReg c, pad := 0 } s.slots
                (upd (s.recAt c kd vd) i ⟨0, 0, 0, 0, key, val⟩), i) := by
  obtain ⟨s1, i, ha, hi1, hi2, hni, hroot, hsize, hcap, hslots, hcase⟩ := Tree.alloc_spec h hnf
  refine ⟨s1, i, ha, hi1, hi2, hni, hroot, hsize, hcap, hslots, ?_⟩
  have hlo := h.layoutOk
  rw [Tree.image_eq_mkImg]
  rcases hcase with ⟨hfree, hseq⟩ | ⟨hfree, hfree1, hiseq, hseq1⟩
  · have hflh : s.flhReg c = i := by simp [Tree.flhReg, hfree]
    have hne : i ≠ s.seqReg c := hlo.free_ne i (by simp [hfree])
    have hseqReg : s1.seqReg c = s.seqReg c := by simp [Tree.seqReg, hseq]
    have hrec : s.recAt c kd vd i = ⟨0, 0, s1.flhReg c, 0, kd, vd⟩ := by
      apply Tree.recAt_free c kd vd s hni
      rw [hfree, freeNext_head, Tree.flhReg_eq, hseqReg]
    constructor
    · intro j hj
      unfold Tree.freeRec
      rw [hseqReg, hfree]
      cases hrest : s1.free with
      | nil => simp [freeNext, hj]
      | cons b rest => rw [freeNext_cons_ne (by simp) hj]
    · unfold Imp.add
      simp only [mkImg_hdr, Tree.hdr, hflh, if_neg hne]
      rw [rd_mkImg _ _ _ _ hi1 hi2, hrec]
      simp only [mk_recs_mkImg, wr_mkImg, hrec, mkImg_hdr, hseqReg]
  · have hcnt := h.count
    have hsz := h.size_eq
    have hlen := T.length_slots s.root
    have hcl := h.cap_le
    have hsl := h.slots_le
    rw [hfree] at hcnt
    simp only [List.append_nil] at hcnt
    have hseqle : s.seq ≤ c.W := by omega
    have hsr : s.seqReg c = s.seq := by unfold Tree.seqReg; exact Nat.mod_eq_of_lt (by omega)
    have hflh : s.flhReg c = s.seq := by simp [Tree.flhReg, hfree, hsr]
    have hflh1 : s1.flhReg c = s1.seqReg c := by simp [Tree.flhReg, hfree1]
    have hrec : s.recAt c kd vd s.seq = ⟨0, 0, 0, 0, kd, vd⟩ :=
      Tree.recAt_unused c kd vd s (hiseq ▸ hni) (by simp [hfree])
    constructor
    · intro j _
      unfold Tree.freeRec
      rw [hfree, hfree1]
      simp [freeNext]
    · subst hiseq
      unfold Imp.add
      simp only [mkImg_hdr, Tree.hdr, hflh, hsr, if_true]
      have hdec : (if c.wrap = true then (s.seq + c.W) % (c.W + 1) else s.seq - 1) ≠ s.cap := by
        split
        · have : s.seq + c.W = (s.seq - 1) + 1 * (c.W + 1) := by omega
          rw [this, Nat.add_mul_mod_self_right, Nat.mod_eq_of_lt (by omega)]
          omega
        · omega
      have hinc : (if c.wrap = true then (s.seq + 1) % (c.W + 1) else s.seq + 1) = s1.seqReg c := by
        unfold Tree.seqReg
        rw [hseq1]
        split
        · rfl
        · rename_i hw
          rcases h.nowrap with hw' | hw'
          · exact absurd hw' hw
          · rw [Nat.mod_eq_of_lt (by omega)]
      rw [if_neg hdec, hinc]
      simp only [mk_recs_mkImg, wr_mkImg, hrec, mkImg_hdr, hflh1]

end Stevia
