/-
  Stevia.Proofs.GenTreeOpen8 — translator output for `u8_avl_tree.rs` (`Stevia.Gen8.*`, regenerated from the source on
  every run) = literal model at the 8-bit configuration: the capacity adoption of `from_bytes_mut`.
-/
import Stevia.Generated.Avl8Open
import Stevia.Proofs.GenLemmas

namespace Stevia
open Imp
variable {α β : Type} [LinOrd α]
set_option linter.unusedSectionVars false
set_option linter.unusedSimpArgs false

namespace Gen8

theorem from_bytes_mut_eq (d : Rec α β) (m : TreeImage α β) :
    from_bytes_mut d m = Imp.openMut cfgU8 m := by
  simp only [from_bytes_mut, Imp.openMut, cfgU8, Id.run, bind, pure, gt_iff_lt]

end Gen8
end Stevia
