/-
  Stevia.Proofs.TreeImpMem — memory-level lemmas for the literal model: an image is a header plus a
  function from slot to record (`mkImg`), reads and writes of the literal model are lookups and
  point updates of that function, and `update_height` / `update_child` are point updates whose new
  height register is computed from the registers of the two children.
-/
import Stevia.Model.TreeImp
import Stevia.Proofs.TreeState

namespace Stevia
variable {α β : Type}

/-- Image from a header and a slot-indexed function (slot `j` is record `j - 1`). -/
def mkImg (hdr : Hdr) (n : Nat) (f : Nat → Rec α β) : TreeImage α β :=
  { hdr := hdr, recs := (List.range n).map fun j => f (j + 1) }

/-- Point update. -/
def upd (f : Nat → Rec α β) (i : Nat) (r : Rec α β) : Nat → Rec α β :=
  fun j => if j = i then r else f j

@[simp] theorem upd_same (f : Nat → Rec α β) (i : Nat) (r : Rec α β) : upd f i r i = r := by
  simp [upd]

theorem upd_ne (f : Nat → Rec α β) {i j : Nat} (r : Rec α β) (h : j ≠ i) : upd f i r j = f j := by
  simp [upd, h]

@[simp] theorem upd_upd (f : Nat → Rec α β) (i : Nat) (r r' : Rec α β) :
    upd (upd f i r) i r' = upd f i r' := by
  funext j; simp only [upd]; split <;> rfl

theorem upd_self (f : Nat → Rec α β) (i : Nat) : upd f i (f i) = f := by
  funext j; simp only [upd]; split
  · rename_i h; rw [h]
  · rfl

theorem Tree.image_eq_mkImg (c : TreeCfg) (kd : α) (vd : β) (s : Tree α β) :
    s.image c kd vd = mkImg (s.hdr c) s.slots (s.recAt c kd vd) := rfl

@[simp] theorem mkImg_hdr (hdr : Hdr) (n : Nat) (f : Nat → Rec α β) : (mkImg hdr n f).hdr = hdr := rfl

@[simp] theorem mkImg_recs_length (hdr : Hdr) (n : Nat) (f : Nat → Rec α β) :
    (mkImg hdr n f).recs.length = n := by simp [mkImg]

theorem mk_recs_mkImg (h' hdr : Hdr) (n : Nat) (f : Nat → Rec α β) :
    ({ hdr := h', recs := (mkImg hdr n f).recs } : TreeImage α β) = mkImg h' n f := rfl

theorem mkImg_congr (hdr : Hdr) (n : Nat) {f g : Nat → Rec α β}
    (h : ∀ j, 1 ≤ j → j ≤ n → f j = g j) : mkImg hdr n f = mkImg hdr n g := by
  unfold mkImg
  congr 1
  apply List.map_congr_left
  intro j hj
  exact h (j + 1) (by omega) (by have := List.mem_range.1 hj; omega)

theorem rd_mkImg (d : Rec α β) (hdr : Hdr) (n : Nat) (f : Nat → Rec α β) {i : Nat}
    (h1 : 1 ≤ i) (h2 : i ≤ n) : Imp.rd d (mkImg hdr n f) i = f i := by
  unfold Imp.rd mkImg
  rw [if_neg (by omega)]
  simp only [List.getD_eq_getElem?_getD, List.getElem?_map]
  rw [List.getElem?_range (by omega)]
  simp [show i - 1 + 1 = i by omega]

theorem wr_mkImg (hdr : Hdr) (n : Nat) (f : Nat → Rec α β) (i : Nat) (g : Rec α β → Rec α β) :
    Imp.wr (mkImg hdr n f) i g = mkImg hdr n (upd f i (g (f i))) := by
  unfold Imp.wr
  split
  · rename_i h
    subst h
    apply mkImg_congr
    intro j hj _
    rw [upd_ne _ _ (by omega)]
  · rename_i h
    unfold mkImg
    congr 1
    apply List.ext_getElem?
    intro j
    simp only [List.getElem?_modify, List.getElem?_map]
    by_cases hj : j < n
    · rw [List.getElem?_range hj]
      simp only [Option.map_some, upd]
      by_cases hij : i - 1 = j
      · have : j + 1 = i := by omega
        simp [hij, this]
      · have : j + 1 ≠ i := by omega
        simp [hij, this]
    · rw [List.getElem?_eq_none (by simp; omega)]
      simp

theorem setRoot_mkImg (hdr : Hdr) (n : Nat) (f : Nat → Rec α β) (v : Nat) :
    Imp.setRoot (mkImg hdr n f) v = mkImg { hdr with root := v } n f := rfl

/-- What `balance_factor` / `update_height` read through a child register. -/
def hgt (f : Nat → Rec α β) (x : Nat) : Nat := if x = 0 then 0 else (f x).height + 1

theorem hgt_upd_ne (f : Nat → Rec α β) {i x : Nat} (r : Rec α β) (h : x ≠ i) :
    hgt (upd f i r) x = hgt f x := by
  simp [hgt, upd, h]

theorem updateHeight_mkImg (d : Rec α β) (hdr : Hdr) (n : Nat) (f : Nat → Rec α β) {i : Nat}
    (h1 : 1 ≤ i) (h2 : i ≤ n) (hl : (f i).left ≤ n) (hr : (f i).right ≤ n) :
    Imp.updateHeight d (mkImg hdr n f) i =
      mkImg hdr n (upd f i { f i with height := max (hgt f (f i).left) (hgt f (f i).right) }) := by
  unfold Imp.updateHeight
  simp only [rd_mkImg d hdr n f h1 h2]
  rw [wr_mkImg]
  congr 2
  congr 1
  unfold hgt
  by_cases ha : (f i).left = 0
  · by_cases hb : (f i).right = 0
    · simp [ha, hb]
    · rw [rd_mkImg d hdr n f (by omega) hr]
      simp [ha, hb]
  · rw [rd_mkImg d hdr n f (by omega) hl]
    by_cases hb : (f i).right = 0
    · simp [ha, hb]
    · rw [rd_mkImg d hdr n f (by omega) hr]
      simp [ha, hb]

theorem updateChild_mkImg_left (d : Rec α β) (hdr : Hdr) (n : Nat) (f : Nat → Rec α β) {p c : Nat}
    (h1 : 1 ≤ p) (h2 : p ≤ n) (hc : c ≤ n) (hr : (f p).right ≤ n) (hcp : c ≠ p) (hrp : (f p).right ≠ p) :
    Imp.updateChild d (mkImg hdr n f) p false c =
      mkImg hdr n (upd f p { f p with left := c, height := max (hgt f c) (hgt f (f p).right) }) := by
  unfold Imp.updateChild
  simp only [wr_mkImg, Bool.false_eq_true, if_false]
  rw [updateHeight_mkImg d hdr n _ h1 h2 (by simpa using hc) (by simpa using hr)]
  simp only [upd_same, upd_upd]
  rw [hgt_upd_ne _ _ hcp, hgt_upd_ne _ _ hrp]

theorem updateChild_mkImg_right (d : Rec α β) (hdr : Hdr) (n : Nat) (f : Nat → Rec α β) {p c : Nat}
    (h1 : 1 ≤ p) (h2 : p ≤ n) (hc : c ≤ n) (hl : (f p).left ≤ n) (hcp : c ≠ p) (hlp : (f p).left ≠ p) :
    Imp.updateChild d (mkImg hdr n f) p true c =
      mkImg hdr n (upd f p { f p with right := c, height := max (hgt f (f p).left) (hgt f c) }) := by
  unfold Imp.updateChild
  simp only [wr_mkImg, if_true]
  rw [updateHeight_mkImg d hdr n _ h1 h2 (by simpa using hl) (by simpa using hc)]
  simp only [upd_same, upd_upd]
  rw [hgt_upd_ne _ _ hcp, hgt_upd_ne _ _ hlp]

theorem balanceFactor_mkImg (d : Rec α β) (hdr : Hdr) (n : Nat) (f : Nat → Rec α β) {a b : Nat}
    (ha : a ≤ n) (hb : b ≤ n) :
    Imp.balanceFactor d (mkImg hdr n f) a b = (hgt f a : Int) - (hgt f b : Int) := by
  unfold Imp.balanceFactor hgt
  by_cases h1 : a = 0
  · by_cases h2 : b = 0
    · simp [h1, h2]
    · rw [rd_mkImg d hdr n f (by omega) hb]; simp [h1, h2]
  · rw [rd_mkImg d hdr n f (by omega) ha]
    by_cases h2 : b = 0
    · simp [h1, h2]
    · rw [rd_mkImg d hdr n f (by omega) hb]; simp [h1, h2]

end Stevia
