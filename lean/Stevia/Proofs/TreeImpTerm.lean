/-
  Stevia.Proofs.TreeImpTerm — the loops of the tree files terminate: on the register layout of every well-formed
  state each `while`/`loop` of `find`, `lowest`, `insert` and `remove` leaves by its own condition (or a
  `return`/`break`) within `records + 1` iterations (`Imp.findT`, `Imp.leftT`, `Imp.insertT`, `Imp.removeTerm`,
  Stevia/Model/TreeImpTerm.lean).  Together with the bridges `translated = if <terminates> then some (literal) else none`
  this shows that the translated source answers `some …` — neither panics nor runs on — in every reachable state.
-/
import Stevia.Model.TreeImpTerm
import Stevia.Proofs.TreeImpRemove

namespace Stevia
variable {α β : Type} [LinOrd α]

/-- The descent of `find` on a represented tree meets a 0 link or the key within `height + 1` iterations. -/
theorem findT_rep (d : Rec α β) (hdr : Hdr) (n : Nat) (f : Nat → Rec α β) (key : α) :
    ∀ (t : T α β) (fuel : Nat), Rep f t → t.In n → t.height < fuel →
      Imp.findT d (mkImg hdr n f) key fuel t.slot = true := by
  intro t
  induction t with
  | nil =>
    intro fuel _ _ hf
    obtain ⟨fuel, rfl⟩ : ∃ f', fuel = f' + 1 := ⟨fuel - 1, by omega⟩
    simp [Imp.findT, T.slot]
  | node i l k v h r ihl ihr =>
    intro fuel hr hin hf
    simp only [T.height] at hf
    obtain ⟨fuel, rfl⟩ : ∃ f', fuel = f' + 1 := ⟨fuel - 1, by omega⟩
    have hi := hin.root
    simp only [Imp.findT, T.slot, hr.rd hin d hdr, T.rc, if_neg (show i ≠ 0 by omega)]
    split
    · exact ihl fuel hr.2.1 hin.left (by omega)
    · split
      · exact ihr fuel hr.2.2 hin.right (by omega)
      · rfl

omit [LinOrd α] in
/-- The left-spine walk from a node of a represented tree ends within `height` iterations. -/
theorem leftT_rep (d : Rec α β) (hdr : Hdr) (n : Nat) (f : Nat → Rec α β) :
    ∀ (l : T α β) (i : Nat) (k : α) (v : β) (h : Nat) (r : T α β) (fuel : Nat),
      Rep f (.node i l k v h r) → (T.node i l k v h r).In n → (T.node i l k v h r).height ≤ fuel →
      Imp.leftT d (mkImg hdr n f) fuel i = true := by
  intro l
  induction l with
  | nil =>
    intro i k v h r fuel hr hin hf
    simp only [T.height] at hf
    obtain ⟨fuel, rfl⟩ : ∃ f', fuel = f' + 1 := ⟨fuel - 1, by omega⟩
    simp [Imp.leftT, hr.rd hin d hdr, T.rc]
  | node li ll lk lv lh lr ihl _ =>
    intro i k v h r fuel hr hin hf
    simp only [T.height] at hf
    obtain ⟨fuel, rfl⟩ : ∃ f', fuel = f' + 1 := ⟨fuel - 1, by omega⟩
    have hli := hin.left.root
    simp only [Imp.leftT, hr.rd hin d hdr, T.rc, T.slot_node]
    rw [if_pos (by omega)]
    exact ihl li lk lv lh lr fuel hr.2.1 hin.left (by simp only [T.height]; omega)

/-- The loop of `insert`, started at a node of a represented tree, meets a 0 link or the key within
    `height` iterations. -/
theorem insertT_rep (d : Rec α β) (hdr : Hdr) (n : Nat) (f : Nat → Rec α β) (key : α) :
    ∀ (t : T α β) (fuel : Nat), t ≠ .nil → Rep f t → t.In n → t.height ≤ fuel →
      Imp.insertT d (mkImg hdr n f) key fuel t.slot = true := by
  intro t
  induction t with
  | nil => intro fuel hne; exact absurd rfl hne
  | node i l k v h r ihl ihr =>
    intro fuel _ hr hin hf
    simp only [T.height] at hf
    obtain ⟨fuel, rfl⟩ : ∃ f', fuel = f' + 1 := ⟨fuel - 1, by omega⟩
    simp only [Imp.insertT, T.slot_node, hr.rd hin d hdr, T.rc]
    split
    · split
      · rfl
      · rename_i hl0
        exact ihl fuel (fun e => hl0 (hin.left.slot_eq_zero.2 e)) hr.2.1 hin.left (by omega)
    · split
      · split
        · rfl
        · rename_i hr0
          exact ihr fuel (fun e => hr0 (hin.right.slot_eq_zero.2 e)) hr.2.2 hin.right (by omega)
      · rfl

/-- The second loop of `remove`: the node the descent stops at is 0, or has a 0 link, or the left-spine walk
    from its right child ends within `F` iterations when the tree is no higher than `F`. -/
theorem removeTail_rep (d : Rec α β) (hdr : Hdr) (n : Nat) (f : Nat → Rec α β) (key : α) (F : Nat) :
    ∀ (t : T α β) (fuel : Nat) (path : List Imp.Ancestor),
      Rep f t → t.In n → t.height ≤ fuel → t.height ≤ F →
      (if (Imp.removeDescend d (mkImg hdr n f) key fuel t.slot path).1 = 0 then true
       else if (Imp.rd d (mkImg hdr n f) (Imp.removeDescend d (mkImg hdr n f) key fuel t.slot path).1).left ≠ 0 ∧
            (Imp.rd d (mkImg hdr n f) (Imp.removeDescend d (mkImg hdr n f) key fuel t.slot path).1).right ≠ 0 then
         Imp.leftT d (mkImg hdr n f) F
           (Imp.rd d (mkImg hdr n f) (Imp.removeDescend d (mkImg hdr n f) key fuel t.slot path).1).right
       else true) = true := by
  intro t
  induction t with
  | nil =>
    intro fuel path _ _ _ _
    cases fuel <;> simp [Imp.removeDescend, T.slot]
  | node i l k v h r ihl ihr =>
    intro fuel path hr hin hf hF
    simp only [T.height] at hf hF
    obtain ⟨fuel, rfl⟩ : ∃ f', fuel = f' + 1 := ⟨fuel - 1, by omega⟩
    have hi := hin.root
    simp only [Imp.removeDescend, T.slot_node, hr.rd hin d hdr, T.rc, if_neg (show i ≠ 0 by omega)]
    split
    · exact ihl fuel _ hr.2.1 hin.left (by omega) (by omega)
    · split
      · exact ihr fuel _ hr.2.2 hin.right (by omega) (by omega)
      · simp only [hr.rd hin d hdr, T.rc, if_neg (show i ≠ 0 by omega)]
        split
        · rename_i h2
          cases r with
          | nil => exact absurd rfl h2.2
          | node ri rl rk rv rh rr =>
            exact leftT_rep d hdr n f rl ri rk rv rh rr F hr.2.2 hin.right (by omega)
        · rfl

theorem Imp.findT_image (c : TreeCfg) (kd : α) (vd : β) (s : Tree α β) (h : s.Inv c) (k : α) :
    Imp.findT (Imp.dflt kd vd) (s.image c kd vd) k (s.slots + 1) s.root.slot = true := by
  rw [Tree.image_eq_mkImg]
  exact findT_rep _ _ _ _ k s.root _ (Tree.rep_recAt c kd vd s h.rootNodup) h.rootIn
    (Nat.lt_succ_of_le h.height_le)

theorem Imp.lowestT_image (c : TreeCfg) (kd : α) (vd : β) (s : Tree α β) (h : s.Inv c) :
    s.root.slot = 0 ∨ Imp.leftT (Imp.dflt kd vd) (s.image c kd vd) (s.slots + 1) s.root.slot = true := by
  have hin := h.rootIn
  have hrep := Tree.rep_recAt c kd vd s h.rootNodup
  have hht := h.height_le
  rw [Tree.image_eq_mkImg]
  cases hroot : s.root with
  | nil => exact Or.inl rfl
  | node i l k v hh r =>
    rw [hroot] at hin hrep hht
    exact Or.inr (leftT_rep _ _ _ _ l i k v hh r _ hrep hin (Nat.le_succ_of_le hht))

theorem Imp.insertT_image (c : TreeCfg) (kd : α) (vd : β) (s : Tree α β) (h : s.Inv c) (k : α) :
    s.root.slot = 0 ∨ Imp.insertT (Imp.dflt kd vd) (s.image c kd vd) k (s.slots + 1) s.root.slot = true := by
  have hin := h.rootIn
  by_cases hroot : s.root = .nil
  · exact Or.inl (by rw [hroot]; rfl)
  · rw [Tree.image_eq_mkImg]
    exact Or.inr (insertT_rep _ _ _ _ k s.root _ hroot (Tree.rep_recAt c kd vd s h.rootNodup) hin
      (Nat.le_succ_of_le h.height_le))

theorem Imp.removeTerm_image (c : TreeCfg) (kd : α) (vd : β) (s : Tree α β) (h : s.Inv c) (k : α) :
    Imp.removeTerm (Imp.dflt kd vd) (s.image c kd vd) k = true := by
  have hin := h.rootIn
  have hrep := Tree.rep_recAt c kd vd s h.rootNodup
  have hht := h.height_le
  have hrootEq : (s.image c kd vd).hdr.root = s.root.slot := rfl
  simp only [Imp.removeTerm, Imp.removeT, hrootEq, Tree.image_recs_length]
  rw [Tree.image_eq_mkImg]
  split
  · rfl
  · rw [findT_rep _ _ _ _ k s.root _ hrep hin (Nat.lt_succ_of_le hht), Bool.true_and]
    exact removeTail_rep _ _ _ _ k (s.slots + 1) s.root _ _ hrep hin (Nat.le_succ_of_le hht)
      (Nat.le_succ_of_le hht)

end Stevia
