/-
  Stevia.Proofs.GenViewsFmt — the acceptance condition of the translated view constructors (`View.split`) is the
  acceptance condition of the format readers of the model (`TreeFmt.ofBytes`, `HFmt.ofBytes`, `AFmt.ofBytes`), and the
  translated `data_len` is the model's `dataLen`.
-/
import Stevia.Proofs.GenViews
import Stevia.Model.TreeLayout
import Stevia.Model.HashSetLayout
import Stevia.Model.ArraySetLayout

namespace Stevia
namespace View

/-- The caller's buffer as the implementation sees it. -/
def ofList (bs : Bytes) : ByteArray := ⟨bs.toArray⟩

@[simp] theorem size_ofList (bs : Bytes) : (ofList bs).size = bs.length := by
  simp [ofList, ByteArray.size]

theorem accepts_iff (H R : Nat) (hR : R ≠ 0) (bs : Bytes) :
    (split H R (ofList bs)).isSome ↔ ¬ bs.length < H ∧ (bs.length - H) % R = 0 := by
  rw [split_isSome_iff, size_ofList]
  unfold castOk
  simp [hR, Nat.not_lt]

theorem tree_reader_accepts (f : TreeFmt) (bs : Bytes) (img : TreeImage Int Nat) (h : f.ofBytes bs = some img) :
    (split f.hdrSize f.recSize (ofList bs)).isSome := by
  unfold TreeFmt.ofBytes at h
  split at h; · simp at h
  split at h; · simp at h
  split at h; · simp at h
  rename_i h1 h2 h3
  exact (accepts_iff _ _ h2 bs).2 ⟨h1, by simpa using h3⟩

theorem hset_reader_accepts (f : HFmt) (bs : Bytes) (img : HImage Nat) (h : f.ofBytes bs = some img) :
    (split f.hdrSize f.recSize (ofList bs)).isSome := by
  unfold HFmt.ofBytes at h
  split at h; · simp at h
  split at h; · simp at h
  split at h; · simp at h
  rename_i h1 h2 h3
  exact (accepts_iff _ _ h2 bs).2 ⟨h1, by simpa using h3⟩

theorem aset_reader_accepts (f : AFmt) (bs : Bytes) (s : ASet Nat) (h : f.ofBytes bs = some s) :
    (split f.pw f.vsz (ofList bs)).isSome := by
  unfold AFmt.ofBytes at h
  split at h; · simp at h
  split at h; · simp at h
  split at h; · simp at h
  rename_i h1 h2 h3
  exact (accepts_iff _ _ h2 bs).2 ⟨h1, by simpa using h3⟩

/-- Conversely the array-set reader accepts whatever the view accepts (it has no further condition). -/
theorem aset_reader_iff (f : AFmt) (hv : f.vsz ≠ 0) (bs : Bytes) :
    (f.ofBytes bs).isSome ↔ (split f.pw f.vsz (ofList bs)).isSome := by
  rw [accepts_iff _ _ hv]
  unfold AFmt.ofBytes
  by_cases h1 : bs.length < f.pw
  · simp [h1]
  · by_cases h3 : (bs.length - f.pw) % f.vsz = 0 <;> simp [h1, hv, h3]

theorem tree_dataLen (f : TreeFmt) (cap : Nat) : dataLen f.hdrSize f.recSize cap = f.dataLen cap := rfl
theorem hset_dataLen (f : HFmt) (cap : Nat) : dataLen f.hdrSize f.recSize cap = f.dataLen cap := rfl

/-! ### The translator's primitive-access table, read off the word store

`node!(..).get_register(Register::Left)` is rendered as `.left` of the register image, `allocator.get_field(Field::Root)`
as `.root` of the header, … The enums number their variants in declaration order (extracted into
`Facts.tree32Registers` / `tree32Fields` / `hsetRegisters` / `hsetFields`), the accessors index the word array by that
number (`GenV.accessors_eq`); laid out as words in declaration order, the image's fields are exactly what the accessors
select and update. -/

def recWords {α β : Type} (rc : Rec α β) : List Nat := [rc.left, rc.right, rc.height, rc.pad]
def hdrWords (h : Hdr) : List Nat := [h.root, h.size, h.cap, h.flh, h.seq]
def hrecWords {β : Type} (rc : HRec β) : List Nat := [rc.bucket, rc.next]
def hhdrWords (h : HHdr) : List Nat := [h.size, h.cap, h.flh, h.seq]

theorem tree_register_table {α β : Type} (rc : Rec α β) (v : Nat) :
    getWord (recWords rc) 0 = some rc.left ∧ getWord (recWords rc) 1 = some rc.right ∧
    getWord (recWords rc) 2 = some rc.height ∧
    setWord (recWords rc) 0 v = some (recWords { rc with left := v }) ∧
    setWord (recWords rc) 1 v = some (recWords { rc with right := v }) ∧
    setWord (recWords rc) 2 v = some (recWords { rc with height := v }) :=
  ⟨rfl, rfl, rfl, rfl, rfl, rfl⟩

theorem tree_field_table (h : Hdr) (v : Nat) :
    getWord (hdrWords h) 0 = some h.root ∧ getWord (hdrWords h) 1 = some h.size ∧ getWord (hdrWords h) 2 = some h.cap ∧
    getWord (hdrWords h) 3 = some h.flh ∧ getWord (hdrWords h) 4 = some h.seq ∧
    setWord (hdrWords h) 0 v = some (hdrWords { h with root := v }) ∧
    setWord (hdrWords h) 1 v = some (hdrWords { h with size := v }) ∧
    setWord (hdrWords h) 2 v = some (hdrWords { h with cap := v }) ∧
    setWord (hdrWords h) 3 v = some (hdrWords { h with flh := v }) ∧
    setWord (hdrWords h) 4 v = some (hdrWords { h with seq := v }) :=
  ⟨rfl, rfl, rfl, rfl, rfl, rfl, rfl, rfl, rfl, rfl⟩

theorem hset_tables {β : Type} (rc : HRec β) (h : HHdr) (v : Nat) :
    getWord (hrecWords rc) 0 = some rc.bucket ∧ getWord (hrecWords rc) 1 = some rc.next ∧
    setWord (hrecWords rc) 0 v = some (hrecWords { rc with bucket := v }) ∧
    setWord (hrecWords rc) 1 v = some (hrecWords { rc with next := v }) ∧
    getWord (hhdrWords h) 0 = some h.size ∧ getWord (hhdrWords h) 1 = some h.cap ∧
    getWord (hhdrWords h) 2 = some h.flh ∧ getWord (hhdrWords h) 3 = some h.seq ∧
    setWord (hhdrWords h) 0 v = some (hhdrWords { h with size := v }) ∧
    setWord (hhdrWords h) 1 v = some (hhdrWords { h with cap := v }) ∧
    setWord (hhdrWords h) 2 v = some (hhdrWords { h with flh := v }) ∧
    setWord (hhdrWords h) 3 v = some (hhdrWords { h with seq := v }) :=
  ⟨rfl, rfl, rfl, rfl, rfl, rfl, rfl, rfl, rfl, rfl, rfl, rfl⟩

end View
end Stevia
