/-
  Stevia.Proofs.HashSetImpTerm — the loops of `hash_set.rs` terminate: on the register layout of every well-formed set
  the chain scan of `contains` / `insert` / `remove` leaves by its own condition (or finds the value) within
  `records + 1` iterations (`HImp.scanT`), and `add_node` does not hit its "set is full" panic when `insert` reaches it.
-/
import Stevia.Model.HashSetImpTerm
import Stevia.Proofs.HashSetImpEq

namespace Stevia
variable {β : Type} [DecidableEq β]

/-- The scan of a chain (from any of its suffixes) leaves by its condition with one iteration to spare. -/
theorem HImpEq.scanT_chain (vd : β) (s : HSet β) (h : s.LayoutOk) (v : β) :
    ∀ rest pre : List (Nat × β), pre ++ rest ∈ s.chains → ∀ fuel, rest.length + 1 ≤ fuel →
      HImp.scanT (HImp.dflt vd) (s.image vd) v fuel (HSet.headOf rest) = true := by
  intro rest
  induction rest with
  | nil =>
    intro _ _ fuel hf
    obtain ⟨f, rfl⟩ : ∃ f, fuel = f + 1 := ⟨fuel - 1, by simp at hf; omega⟩
    simp [HImp.scanT, HSet.headOf]
  | cons e rest ih =>
    intro pre hm fuel hf
    simp only [List.length_cons] at hf
    obtain ⟨f, rfl⟩ : ∃ f, fuel = f + 1 := ⟨fuel - 1, by omega⟩
    obtain ⟨h0, hrd⟩ := HImpEq.rd_live vd s h hm
    have hih := ih (pre ++ [e]) (by simpa using hm) f (by omega)
    show HImp.scanT _ _ v (f + 1) e.1 = _
    unfold HImp.scanT
    rw [if_neg h0, hrd]
    simp only [hih]
    by_cases hv : e.2 = v
    · simp [hv]
    · simp [hv]

/-- The scan of the bucket of `v` terminates whenever the capacity is not 0 (empty sets included). -/
theorem HImp.scanT_image_cap (hash : β → Nat) (vd : β) (s : HSet β) (h : s.Inv hash) (v : β) (hc : s.cap ≠ 0) :
    HImp.scanT (HImp.dflt vd) (s.image vd) v (s.slots + 1)
      (HImp.rdB (HImp.dflt vd) (s.image vd) (HImp.bucketIndex hash (s.image vd) v)).bucket = true := by
  obtain ⟨ch, hch⟩ := h.getElem?_bucket hc v
  have hb : HImp.bucketIndex hash (s.image vd) v = s.bucket hash v := rfl
  rw [hb, HImpEq.rdB_bucket vd s hch]
  have hm := List.mem_of_getElem? hch
  exact HImpEq.scanT_chain vd s h.layoutOk v ch [] (by simpa using hm) _
    (by have := HImpEq.chain_length_le s h.layoutOk hm; omega)

/-- The scan of the bucket of `v` terminates. -/
theorem HImp.scanT_image (hash : β → Nat) (vd : β) (s : HSet β) (h : s.Inv hash) (v : β) :
    s.size = 0 ∨ HImp.scanT (HImp.dflt vd) (s.image vd) v (s.slots + 1)
      (HImp.rdB (HImp.dflt vd) (s.image vd) (HImp.bucketIndex hash (s.image vd) v)).bucket = true := by
  by_cases h0 : s.size = 0
  · exact .inl h0
  · right
    have hc : s.cap ≠ 0 := by have := h.size_le_cap; omega
    obtain ⟨ch, hch⟩ := h.getElem?_bucket hc v
    have hb : HImp.bucketIndex hash (s.image vd) v = s.bucket hash v := rfl
    rw [hb, HImpEq.rdB_bucket vd s hch]
    have hm := List.mem_of_getElem? hch
    exact HImpEq.scanT_chain vd s h.layoutOk v ch [] (by simpa using hm) _
      (by have := HImpEq.chain_length_le s h.layoutOk hm; omega)

/-- `insert` with the panic kept (`HImp.insertO`) never panics on a well-formed set: it is `some` of the literal
    `insert`. -/
theorem HImp.insertO_image (hash : β → Nat) (vd : β) (s : HSet β) (h : s.Inv hash) (v : β) :
    HImp.insertO hash (HImp.dflt vd) (s.image vd) v = some (HImp.insert hash (HImp.dflt vd) (s.image vd) v) := by
  have hg := HImp.insertO_getD hash (HImp.dflt vd) (s.image vd) v
  suffices hs : (HImp.insertO hash (HImp.dflt vd) (s.image vd) v).isSome = true by
    obtain ⟨x, hx⟩ := Option.isSome_iff_exists.1 hs
    rw [hx] at hg ⊢
    exact congrArg some hg
  have hle := h.size_le_cap
  have e4 : (s.image vd).hdr.size = s.size := rfl
  have e5 : (s.image vd).hdr.cap = s.cap := rfl
  unfold HImp.insertO
  rw [e4, e5]
  by_cases hfull : s.size = s.cap
  · rw [if_pos hfull]; rfl
  · rw [if_neg hfull]
    simp only
    split
    · rfl
    · obtain ⟨s1, i, ha, _⟩ := h.alloc_ok (by omega)
      obtain ⟨hadd, _⟩ := HImpEq.addNode_image hash vd s h (by omega) v ha
      rw [hadd]
      rfl

end Stevia
