/-
  Stevia.Proofs.GenTreeAlloc8 — translator output for `u8_avl_tree.rs` (`Stevia.Gen8.*`, regenerated from the source on
  every run) = literal model `Stevia.Imp.*` at the 8-bit configuration: the slot allocator: `add` (free list, else the sequence cursor) and `remove_node`.
  Every statement is an unconditional equality of functions; a source change that alters what one of these
  functions computes makes its proof fail.
-/
import Stevia.Generated.Avl8Alloc
import Stevia.Proofs.GenLemmas

namespace Stevia
open Imp
variable {α β : Type} [LinOrd α]
set_option linter.unusedSectionVars false
set_option linter.unusedSimpArgs false

namespace Gen8

theorem add_eq (d : Rec α β) (m : TreeImage α β) (key : α) (value : β) :
    add d m key value = Imp.add cfgU8 d m key value := by
  simp only [add, Imp.add, cfgU8, Nat.reduceAdd, Nat.reduceSub, Bool.false_eq_true, if_false, if_true]
  -- (either side of the two equality tests may be written first)
  by_cases h1 : m.hdr.flh = m.hdr.seq
  · simp only [h1, if_true, eq_self]
    split
    · first
      | rfl
      | (rename_i h2; rw [if_pos h2.symm]; rfl)
    · first
      | (simp only [bind, Option.bind, pure, wr_wr]; rfl)
      | (rename_i h2
         rw [if_neg (fun h => h2 (Eq.symm h))]
         simp only [bind, Option.bind, pure, wr_wr]; rfl)
  · have h1' : ¬ m.hdr.seq = m.hdr.flh := fun h => h1 h.symm
    simp only [h1, h1', bind, Option.bind, pure, if_false, wr_wr]
    rfl

theorem remove_node_eq (d : Rec α β) (m : TreeImage α β) (i : Nat) (hi : i ≠ 0) :
    remove_node d m i = ((Imp.removeNode d m i).1, some (Imp.removeNode d m i).2) := by
  simp only [remove_node, Imp.removeNode, node_initialize, Id.run, bind, pure, hi, if_false, wr_wr, wr_hdr]
  rfl

end Gen8
end Stevia
