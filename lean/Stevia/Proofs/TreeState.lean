/-
  Stevia.Proofs.TreeState — state-machine level of the tree model: the
  invariant, operations as a step function, reachability, the bounded ordered
  map the trees refine, and the lemmas the property files (Stevia/Props/C*.lean)
  are corollaries of.
-/
import Stevia.Proofs.TreeAvl
import Stevia.Proofs.TreeLayoutRT

namespace Stevia
variable {α β : Type}

/-! ### Invariant -/

/-- The invariant of every reachable tree state. -/
structure Tree.Inv [LinOrd α] (c : TreeCfg) (s : Tree α β) : Prop where
  bst : s.root.Bst
  bal : s.root.Bal
  size_eq : s.size = s.root.size
  nodup : (s.root.slots ++ s.free).Nodup
  range : ∀ i ∈ s.root.slots ++ s.free, 1 ≤ i ∧ i < s.seq
  count : (s.root.slots ++ s.free).length + 1 = s.seq
  seq_le : s.seq ≤ s.cap + 1
  cap_le : s.cap ≤ s.slots
  slots_le : s.slots ≤ c.W
  nowrap : c.wrap = true ∨ s.slots < c.W

/-! ### Mutating operations as a step function

Every mutating call of the API goes through a handle made by `from_bytes_mut`,
which is `openMut` (idempotent). -/

inductive TreeOp (α β : Type) where
  | insert (k : α) (v : β)
  | remove (k : α)
  | update (k : α) (v : β)
  | reopen
  | extend (n : Nat)

def Tree.step [LinOrd α] (c : TreeCfg) (s : Tree α β) : TreeOp α β → Except Fault (Tree α β)
  | .insert k v => ((s.openMut c).insert c k v).map (·.1)
  | .remove k => ((s.openMut c).remove k).map (·.1)
  | .update k v => .ok ((s.openMut c).update k v).1
  | .reopen => .ok (s.openMut c)
  | .extend n => .ok (s.extend n)

/-- Side condition of an operation: only growth has one (the index type must
    be able to address the records). -/
def TreeOp.ok (c : TreeCfg) (s : Tree α β) : TreeOp α β → Prop
  | .extend n => s.slots + n ≤ c.W ∧ (c.wrap = true ∨ s.slots + n < c.W)
  | _ => True

/-- States reachable from `initialize(cap)` on a zero-filled buffer of `slots ≥ cap` records. -/
inductive Tree.Reach [LinOrd α] (c : TreeCfg) : Tree α β → Prop where
  | init (slots cap : Nat) (h1 : cap ≤ slots) (h2 : slots ≤ c.W) (h3 : c.wrap = true ∨ slots < c.W) :
      Tree.Reach c (Tree.init slots cap)
  | step {s s' : Tree α β} (op : TreeOp α β) (hr : Tree.Reach c s) (hok : op.ok c s)
      (hs : s.step c op = .ok s') : Tree.Reach c s'

/-! ### The reference: a capacity-bounded ordered map -/

section KV
variable [LinOrd α]

def insKV (e : α × β) : List (α × β) → List (α × β)
  | [] => [e]
  | x :: rest => if e.1 < x.1 then e :: x :: rest else x :: insKV e rest

def delKV (k : α) : List (α × β) → List (α × β)
  | [] => []
  | x :: rest => if x.1 < k ∨ k < x.1 then x :: delKV k rest else rest

def getKV (k : α) : List (α × β) → Option β
  | [] => none
  | x :: rest => if x.1 < k ∨ k < x.1 then getKV k rest else some x.2

def setKV (k : α) (v : β) : List (α × β) → List (α × β)
  | [] => []
  | x :: rest => if x.1 < k ∨ k < x.1 then x :: setKV k v rest else (x.1, v) :: rest

end KV

/-- Reference map: capacity and the entries in ascending key order. -/
structure BMap (α β : Type) where
  cap : Nat
  m : List (α × β)

inductive MapOp (α β : Type) where
  | insert (k : α) (v : β)
  | remove (k : α)
  | get (k : α)
  | update (k : α) (v : β)
  | contains (k : α)
  | lowest
  | len
  | isEmpty
  | isFull

inductive MapOut (α β : Type) where
  | bool (b : Bool)
  | val (o : Option β)
  | key (o : Option α)
  | nat (n : Nat)

/-- The reference semantics: insert succeeds exactly when the key is absent
    and the map not full and never overwrites; remove returns the stored value;
    lookups return the latest value written; lowest is the minimum key. -/
def BMap.step [LinOrd α] (b : BMap α β) : MapOp α β → BMap α β × MapOut α β
  | .insert k v =>
    if (getKV k b.m).isSome ∨ b.m.length ≥ b.cap then (b, .bool false)
    else ({ b with m := insKV (k, v) b.m }, .bool true)
  | .remove k =>
    match getKV k b.m with
    | none => (b, .val none)
    | some v => ({ b with m := delKV k b.m }, .val (some v))
  | .get k => (b, .val (getKV k b.m))
  | .update k v =>
    match getKV k b.m with
    | none => (b, .bool false)
    | some _ => ({ b with m := setKV k v b.m }, .bool true)
  | .contains k => (b, .bool (getKV k b.m).isSome)
  | .lowest => (b, .key (b.m.head?.map (·.1)))
  | .len => (b, .nat b.m.length)
  | .isEmpty => (b, .bool (b.m.length == 0))
  | .isFull => (b, .bool (b.m.length ≥ b.cap))

def BMap.run [LinOrd α] (b : BMap α β) : List (MapOp α β) → BMap α β × List (MapOut α β)
  | [] => (b, [])
  | op :: ops =>
    let r := b.step op
    let rr := BMap.run r.1 ops
    (rr.1, r.2 :: rr.2)

/-- The same operations on the tree model (through a mutable handle; `insert`
    reports `isSome` of the returned index). -/
def Tree.mapStep [LinOrd α] (c : TreeCfg) (s : Tree α β) :
    MapOp α β → Except Fault (Tree α β × MapOut α β)
  | .insert k v => (s.insert c k v).map fun r => (r.1, .bool r.2.isSome)
  | .remove k => (s.remove k).map fun r => (r.1, .val r.2)
  | .get k => .ok (s, .val (s.get k))
  | .update k v => .ok ((s.update k v).1, .bool (s.update k v).2)
  | .contains k => .ok (s, .bool (s.contains k))
  | .lowest => .ok (s, .key s.lowest)
  | .len => .ok (s, .nat s.len)
  | .isEmpty => .ok (s, .bool s.isEmpty)
  | .isFull => .ok (s, .bool s.isFull)

def Tree.mapRun [LinOrd α] (c : TreeCfg) (s : Tree α β) :
    List (MapOp α β) → Except Fault (Tree α β × List (MapOut α β))
  | [] => .ok (s, [])
  | op :: ops =>
    match s.mapStep c op with
    | .error e => .error e
    | .ok (s', o) =>
      match Tree.mapRun c s' ops with
      | .error e => .error e
      | .ok (s'', os) => .ok (s'', o :: os)

/-- Abstraction: capacity + in-order `(key, value)` list. -/
def Tree.abs (s : Tree α β) : BMap α β := { cap := s.cap, m := s.root.toList.map (·.2) }

/-- Insert every `(k, v)` of the list; every insertion must succeed. -/
def Tree.insertAll [LinOrd α] (c : TreeCfg) (s : Tree α β) : List (α × β) → Option (Tree α β)
  | [] => some s
  | (k, v) :: rest =>
    match s.insert c k v with
    | .ok (s', some _) => Tree.insertAll c s' rest
    | _ => none

/-! ### Lemmas (statements; proofs below each) -/

section Lemmas
variable [LinOrd α]

omit [LinOrd α] in
theorem T.length_slots (t : T α β) : t.slots.length = t.size := by
  simp [T.slots, T.size_eq_length]

theorem Tree.openMut_eq {c : TreeCfg} {s : Tree α β} (h : s.Inv c) :
    s.openMut c = { s with cap := s.slots } := by
  unfold Tree.openMut
  have := h.cap_le
  have := h.slots_le
  split
  · rw [Nat.mod_eq_of_lt (by omega)]
  · have : s.cap = s.slots := by omega
    cases s; simp_all

theorem Tree.inv_init (c : TreeCfg) (slots cap : Nat) (h1 : cap ≤ slots) (h2 : slots ≤ c.W)
    (h3 : c.wrap = true ∨ slots < c.W) : (Tree.init slots cap : Tree α β).Inv c := by
  have hs : (T.nil : T α β).slots = [] := rfl
  refine ⟨trivial, trivial, rfl, ?_, ?_, ?_, ?_, h1, h2, h3⟩
  · simp [Tree.init, hs]
  · simp [Tree.init, hs]
  · simp [Tree.init, hs]
  · simp [Tree.init]

theorem Tree.inv_openMut {c : TreeCfg} {s : Tree α β} (h : s.Inv c) : (s.openMut c).Inv c := by
  rw [Tree.openMut_eq h]
  have := h.seq_le
  have := h.cap_le
  exact ⟨h.bst, h.bal, h.size_eq, h.nodup, h.range, h.count, by simp only; omega, Nat.le_refl _,
    h.slots_le, h.nowrap⟩

theorem Tree.openMut_cap {c : TreeCfg} {s : Tree α β} (h : s.Inv c) :
    (s.openMut c).cap = s.slots ∧ (s.openMut c).root = s.root ∧ (s.openMut c).size = s.size ∧
    (s.openMut c).free = s.free ∧ (s.openMut c).seq = s.seq ∧ (s.openMut c).slots = s.slots := by
  rw [Tree.openMut_eq h]
  simp

/-- Re-opening a buffer whose size matches its capacity changes nothing. -/
theorem Tree.openMut_id (c : TreeCfg) (s : Tree α β) (h : s.slots ≤ s.cap) : s.openMut c = s := by
  unfold Tree.openMut
  rw [if_neg (by omega)]

theorem Tree.inv_extend {c : TreeCfg} {s : Tree α β} (h : s.Inv c) (n : Nat)
    (hok : (TreeOp.extend n : TreeOp α β).ok c s) : (s.extend n).Inv c := by
  obtain ⟨h1, h2⟩ := hok
  have := h.cap_le
  exact ⟨h.bst, h.bal, h.size_eq, h.nodup, h.range, h.count, h.seq_le,
    by simp only [Tree.extend]; omega, h1, h2⟩

/-- Allocation never faults on a non-full well-formed state, returns a slot that
    is in range and not in use, and keeps the rest of the allocator invariant
    (stated through what `insert` needs). -/
theorem Tree.alloc_spec {c : TreeCfg} {s : Tree α β} (h : s.Inv c) (hnf : s.size < s.cap) :
    ∃ s' i, s.alloc c = .ok (s', i) ∧ 1 ≤ i ∧ i ≤ s.slots ∧ i ∉ s.root.slots ∧
      s'.root = s.root ∧ s'.size = s.size + 1 ∧ s'.cap = s.cap ∧ s'.slots = s.slots ∧
      ((s.free = i :: s'.free ∧ s'.seq = s.seq) ∨
       (s.free = [] ∧ s'.free = [] ∧ i = s.seq ∧ s'.seq = s.seq + 1)) := by
  have hsz := h.size_eq
  have hcnt := h.count
  have hseq := h.seq_le
  have hcap := h.cap_le
  have hsl := h.slots_le
  have hlen := T.length_slots s.root
  rw [List.length_append] at hcnt
  unfold Tree.alloc
  split
  · rename_i i rest hfree
    have hr := h.range i (by simp [hfree])
    have hnd := h.nodup
    rw [hfree] at hnd
    have hni : i ∉ s.root.slots := by
      intro hm
      exact (List.nodup_append.1 hnd).2.2 i hm i (by simp) rfl
    rw [if_neg (by omega), if_neg (by omega), if_neg (by omega)]
    exact ⟨_, i, rfl, hr.1, by omega, hni, rfl, rfl, rfl, rfl, Or.inl ⟨hfree, rfl⟩⟩
  · rename_i hfree
    rw [hfree] at hcnt
    simp only [List.length_nil] at hcnt
    have hni : s.seq ∉ s.root.slots := by
      intro hm
      have := h.range s.seq (by simp [hm])
      omega
    have hw : ¬ ((!c.wrap && decide (s.seq + 1 > c.W)) = true) := by
      rcases h.nowrap with hw | hw
      · simp [hw]
      · simp; intro _; omega
    rw [if_neg (by omega), if_neg (by omega), if_neg hw, if_neg (by omega), if_neg (by omega)]
    exact ⟨_, s.seq, rfl, by omega, by omega, hni, rfl, rfl, rfl, rfl, Or.inr ⟨hfree, hfree, rfl, rfl⟩⟩

theorem T.slots_ins_perm {t : T α β} (hb : t.Bst) (i : Nat) (k : α) (v : β)
    (hf : t.find k = none) : (t.ins i k v).slots.Perm (i :: t.slots) := by
  unfold T.slots
  rw [T.toList_ins hb i k v hf]
  exact (perm_insL (i, k, v) t.toList).map _

theorem Tree.inv_insert_aux {c : TreeCfg} {s s1 : Tree α β} (h : s.Inv c) {k : α} {v : β} {i : Nat}
    (hf : s.root.find k = none) (hnf : s.size < s.cap)
    (hroot : s1.root = s.root) (hsize : s1.size = s.size + 1) (hcap : s1.cap = s.cap)
    (hslots : s1.slots = s.slots) (hi1 : 1 ≤ i) (hni : i ∉ s.root.slots)
    (hcase : (s.free = i :: s1.free ∧ s1.seq = s.seq) ∨
      (s.free = [] ∧ s1.free = [] ∧ i = s.seq ∧ s1.seq = s.seq + 1)) :
    ({ s1 with root := s1.root.ins i k v } : Tree α β).Inv c := by
  have hfl : findL k s.root.toList = none := by rw [← T.find_eq_findL h.bst]; exact hf
  have hperm := T.slots_ins_perm h.bst i k v hf
  have hperm2 : ((s.root.ins i k v).slots ++ s1.free).Perm (i :: (s.root.slots ++ s1.free)) :=
    hperm.append_right _
  have hlen := T.length_slots s.root
  have hsz := h.size_eq
  have hkey : (i :: (s.root.slots ++ s1.free)).Nodup ∧
      (∀ j ∈ i :: (s.root.slots ++ s1.free), 1 ≤ j ∧ j < s1.seq) ∧
      (i :: (s.root.slots ++ s1.free)).length + 1 = s1.seq ∧ s1.seq ≤ s.cap + 1 := by
    rcases hcase with ⟨h1, h2⟩ | ⟨h1, h2, h3, h4⟩
    · have hp : (s.root.slots ++ s.free).Perm (i :: (s.root.slots ++ s1.free)) := by
        rw [h1]; exact List.perm_middle
      refine ⟨hp.nodup_iff.1 h.nodup, ?_, ?_, ?_⟩
      · intro j hj; rw [h2]; exact h.range j (hp.mem_iff.2 hj)
      · rw [← hp.length_eq, h2]; exact h.count
      · rw [h2]; exact h.seq_le
    · have hnd := h.nodup
      have hr := h.range
      have hc := h.count
      rw [h1] at hnd hr hc
      rw [h2, h4]
      simp only [List.append_nil] at *
      refine ⟨List.nodup_cons.2 ⟨hni, hnd⟩, ?_, ?_, ?_⟩
      · intro j hj
        rcases List.mem_cons.1 hj with rfl | hj
        · omega
        · have := hr j hj; omega
      · simp only [List.length_cons]; omega
      · omega
  refine ⟨?_, ?_, ?_, ?_, ?_, ?_, ?_, ?_, ?_, ?_⟩
  · show (s1.root.ins i k v).Bst
    rw [hroot, T.bst_iff_sorted, T.toList_ins h.bst _ _ _ hf]
    exact sorted_insL ((T.bst_iff_sorted _).1 h.bst) (i, k, v) hfl
  · show (s1.root.ins i k v).Bal
    rw [hroot]
    exact (T.ins_bal h.bal i k v).1
  · show s1.size = (s1.root.ins i k v).size
    rw [hroot, hsize, T.size_eq_length (T.ins _ _ _ _), T.toList_ins h.bst _ _ _ hf, length_insL,
      ← T.size_eq_length, h.size_eq]
  · show ((s1.root.ins i k v).slots ++ s1.free).Nodup
    rw [hroot]
    exact hperm2.nodup_iff.2 hkey.1
  · show ∀ j ∈ (s1.root.ins i k v).slots ++ s1.free, 1 ≤ j ∧ j < s1.seq
    rw [hroot]
    intro j hj
    exact hkey.2.1 j (hperm2.mem_iff.1 hj)
  · show ((s1.root.ins i k v).slots ++ s1.free).length + 1 = s1.seq
    rw [hroot, hperm2.length_eq]
    exact hkey.2.2.1
  · show s1.seq ≤ s1.cap + 1
    rw [hcap]; exact hkey.2.2.2
  · show s1.cap ≤ s1.slots
    rw [hcap, hslots]; exact h.cap_le
  · show s1.slots ≤ c.W
    rw [hslots]; exact h.slots_le
  · show c.wrap = true ∨ s1.slots < c.W
    rw [hslots]; exact h.nowrap

/-- `insert` on a well-formed state: never faults; refuses exactly for a present
    key or a full tree (state unchanged); otherwise the in-order list gains the
    entry at its sorted position, in a slot that was not in use. -/
theorem Tree.insert_spec {c : TreeCfg} {s : Tree α β} (h : s.Inv c) (k : α) (v : β) :
    (((s.root.find k).isSome ∨ s.size ≥ s.cap) ∧ s.insert c k v = .ok (s, none)) ∨
    ((s.root.find k) = none ∧ s.size < s.cap ∧
      ∃ s' i, s.insert c k v = .ok (s', some i) ∧ s'.Inv c ∧
        s'.root.toList = insL (i, k, v) s.root.toList ∧ i ∉ s.root.slots ∧ 1 ≤ i ∧ i ≤ s.slots ∧
        s'.cap = s.cap ∧ s'.slots = s.slots ∧ s'.size = s.size + 1) := by
  unfold Tree.insert
  by_cases hfind : (s.root.find k).isSome
  · left
    exact ⟨Or.inl hfind, by rw [if_pos hfind]⟩
  · by_cases hfull : s.size ≥ s.cap
    · left
      refine ⟨Or.inr hfull, ?_⟩
      rw [if_neg hfind, if_pos (by simp [Tree.isFull, hfull])]
    · right
      have hnone : s.root.find k = none := by simpa using hfind
      have hnf : s.size < s.cap := by omega
      obtain ⟨s1, i, ha, hi1, hi2, hni, hroot, hsize, hcap, hslots, hcase⟩ := Tree.alloc_spec h hnf
      refine ⟨hnone, hnf, { s1 with root := s1.root.ins i k v }, i, ?_,
        Tree.inv_insert_aux h hnone hnf hroot hsize hcap hslots hi1 hni hcase, ?_, hni, hi1, hi2,
        hcap, hslots, hsize⟩
      · rw [if_neg hfind, if_neg (by simp [Tree.isFull]; omega), ha]
      · show (s1.root.ins i k v).toList = _
        rw [hroot]
        exact T.toList_ins h.bst i k v hnone

/-- `remove` on a well-formed state. -/
theorem Tree.remove_spec {c : TreeCfg} {s : Tree α β} (h : s.Inv c) (k : α) :
    (s.root.find k = none ∧ s.remove k = .ok (s, none)) ∨
    (∃ i v s', s.root.find k = some (i, v) ∧ s.remove k = .ok (s', some v) ∧ s'.Inv c ∧
        s'.root.toList = delL k s.root.toList ∧ s'.free = i :: s.free ∧
        s'.cap = s.cap ∧ s'.slots = s.slots ∧ s'.size + 1 = s.size ∧ s'.seq = s.seq) := by
  cases hfind : s.root.find k with
  | none =>
    left
    exact ⟨rfl, by simp [Tree.remove, hfind]⟩
  | some p =>
    obtain ⟨i, v⟩ := p
    right
    have hfl : findL k s.root.toList = some (i, v) := by
      rw [← T.find_eq_findL h.bst]; exact hfind
    have hperm := perm_delL hfl
    have hlenL := length_delL hfl
    have hsz : s.size ≠ 0 := by rw [h.size_eq, T.size_eq_length]; omega
    refine ⟨i, v, { s with root := s.root.del k, free := i :: s.free, size := s.size - 1 }, rfl,
      ?_, ?_, T.toList_del h.bst k, rfl, rfl, rfl, ?_, rfl⟩
    · simp [Tree.remove, hfind, hsz]
    · have hps : s.root.slots.Perm (i :: (s.root.del k).slots) := by
        unfold T.slots
        rw [T.toList_del h.bst]
        exact hperm.map (·.1)
      have hp2 : (s.root.slots ++ s.free).Perm ((s.root.del k).slots ++ i :: s.free) :=
        (hps.append_right _).trans List.perm_middle.symm
      refine ⟨?_, (T.del_bal h.bal k).1, ?_, hp2.nodup_iff.1 h.nodup, ?_, ?_, h.seq_le, h.cap_le,
        h.slots_le, h.nowrap⟩
      · show (s.root.del k).Bst
        rw [T.bst_iff_sorted, T.toList_del h.bst]
        exact sorted_delL ((T.bst_iff_sorted _).1 h.bst) k
      · show s.size - 1 = (s.root.del k).size
        rw [T.size_eq_length (T.del _ _), T.toList_del h.bst, h.size_eq, T.size_eq_length]
        omega
      · intro j hj
        exact h.range j (hp2.mem_iff.2 hj)
      · show ((s.root.del k).slots ++ i :: s.free).length + 1 = s.seq
        rw [← hp2.length_eq]
        exact h.count
    · show s.size - 1 + 1 = s.size
      omega

theorem map_fst_setL (k : α) (v : β) (l : List (Entry α β)) :
    (setL k v l).map (·.1) = l.map (·.1) := by
  induction l with
  | nil => rfl
  | cons x rest ih => simp only [setL]; split <;> simp [ih]

/-- `get_mut` + write on a well-formed state. -/
theorem Tree.update_spec {c : TreeCfg} {s : Tree α β} (h : s.Inv c) (k : α) (v : β) :
    (s.root.find k = none ∧ s.update k v = (s, false)) ∨
    ((s.root.find k).isSome ∧ (s.update k v).2 = true ∧ (s.update k v).1.Inv c ∧
        (s.update k v).1.root.toList = setL k v s.root.toList ∧
        (s.update k v).1.cap = s.cap ∧ (s.update k v).1.slots = s.slots ∧
        (s.update k v).1.size = s.size ∧ (s.update k v).1.free = s.free ∧ (s.update k v).1.seq = s.seq) := by
  cases hfind : s.root.find k with
  | none =>
    left
    exact ⟨rfl, by simp [Tree.update, hfind]⟩
  | some p =>
    right
    have hu : s.update k v = ({ s with root := s.root.setVal k v }, true) := by
      simp [Tree.update, hfind]
    rw [hu]
    refine ⟨rfl, rfl, ?_, T.toList_setVal h.bst k v, rfl, rfl, rfl, rfl, rfl⟩
    have hsl : (s.root.setVal k v).slots = s.root.slots := by
      unfold T.slots
      rw [T.toList_setVal h.bst, map_fst_setL]
    refine ⟨?_, (T.setVal_bal h.bal k v).1, ?_, ?_, ?_, ?_, h.seq_le, h.cap_le, h.slots_le, h.nowrap⟩
    · show (s.root.setVal k v).Bst
      rw [T.bst_iff_sorted, T.toList_setVal h.bst]
      exact sorted_setL ((T.bst_iff_sorted _).1 h.bst) k v
    · show s.size = (s.root.setVal k v).size
      rw [T.size_eq_length (T.setVal _ _ _), T.toList_setVal h.bst, length_setL, ← T.size_eq_length]
      exact h.size_eq
    · show ((s.root.setVal k v).slots ++ s.free).Nodup
      rw [hsl]; exact h.nodup
    · show ∀ j ∈ (s.root.setVal k v).slots ++ s.free, 1 ≤ j ∧ j < s.seq
      rw [hsl]; exact h.range
    · show ((s.root.setVal k v).slots ++ s.free).length + 1 = s.seq
      rw [hsl]; exact h.count

/-- No operation faults on a well-formed state, and the invariant is preserved. -/
theorem Tree.step_ok {c : TreeCfg} {s : Tree α β} (h : s.Inv c) (op : TreeOp α β) (hok : op.ok c s) :
    ∃ s', s.step c op = .ok s' ∧ s'.Inv c := by
  have ho := Tree.inv_openMut h
  cases op with
  | insert k v =>
    rcases Tree.insert_spec ho k v with ⟨_, he⟩ | ⟨_, _, s', i, he, hi, _⟩
    · exact ⟨s.openMut c, by simp [Tree.step, he, Except.map], ho⟩
    · exact ⟨s', by simp [Tree.step, he, Except.map], hi⟩
  | remove k =>
    rcases Tree.remove_spec ho k with ⟨_, he⟩ | ⟨i, v, s', _, he, hi, _⟩
    · exact ⟨s.openMut c, by simp [Tree.step, he, Except.map], ho⟩
    · exact ⟨s', by simp [Tree.step, he, Except.map], hi⟩
  | update k v =>
    refine ⟨_, rfl, ?_⟩
    rcases Tree.update_spec ho k v with ⟨_, he⟩ | ⟨_, _, hi, _⟩
    · rw [he]; exact ho
    · exact hi
  | reopen => exact ⟨_, rfl, ho⟩
  | extend n => exact ⟨_, rfl, Tree.inv_extend h n hok⟩

/-- Every reachable state satisfies the invariant. -/
theorem Tree.reach_inv {c : TreeCfg} {s : Tree α β} (h : Tree.Reach c s) : s.Inv c := by
  induction h with
  | init slots cap h1 h2 h3 => exact Tree.inv_init c slots cap h1 h2 h3
  | step op hr hok hs ih =>
    obtain ⟨s'', he, hi⟩ := Tree.step_ok ih op hok
    rw [hs] at he
    cases he
    exact hi

/-! #### key/value view of the entry-list operations -/

theorem map_insL (e : Entry α β) (l : List (Entry α β)) :
    (insL e l).map (·.2) = insKV e.2 (l.map (·.2)) := by
  induction l with
  | nil => rfl
  | cons x rest ih =>
    simp only [insL, List.map_cons, insKV]
    split <;> simp [ih]

theorem map_delL (k : α) (l : List (Entry α β)) :
    (delL k l).map (·.2) = delKV k (l.map (·.2)) := by
  induction l with
  | nil => rfl
  | cons x rest ih =>
    simp only [delL, List.map_cons, delKV]
    split <;> simp [ih]

theorem map_setL (k : α) (v : β) (l : List (Entry α β)) :
    (setL k v l).map (·.2) = setKV k v (l.map (·.2)) := by
  induction l with
  | nil => rfl
  | cons x rest ih =>
    simp only [setL, List.map_cons, setKV]
    split <;> simp [ih]

theorem getKV_map (k : α) (l : List (Entry α β)) :
    getKV k (l.map (·.2)) = (findL k l).map (·.2) := by
  induction l with
  | nil => rfl
  | cons x rest ih =>
    simp only [findL, List.map_cons, getKV]
    split <;> simp [ih]

/-- One operation of the tree equals one operation of the reference map. -/
theorem Tree.mapStep_refines {c : TreeCfg} {s : Tree α β} (h : s.Inv c) (op : MapOp α β) :
    ∃ s', s.mapStep c op = .ok (s', (s.abs.step op).2) ∧ s'.Inv c ∧ s'.abs = (s.abs.step op).1 ∧
      s'.slots = s.slots := by
  have hg : ∀ k, getKV k s.abs.m = (s.root.find k).map (·.2) := by
    intro k
    rw [T.find_eq_findL h.bst]
    exact getKV_map k _
  have hl : s.abs.m.length = s.size := by
    rw [h.size_eq, T.size_eq_length]
    simp [Tree.abs]
  have hcap : s.abs.cap = s.cap := rfl
  cases op with
  | insert k v =>
    rcases Tree.insert_spec h k v with ⟨hc, he⟩ | ⟨hn, hlt, s', i, he, hi, htl, _, _, _, hc', hs', _⟩
    · have hc2 : (getKV k s.abs.m).isSome ∨ s.abs.m.length ≥ s.abs.cap := by
        rw [hg, hl, hcap]
        rcases hc with hc | hc
        · left; simpa using hc
        · right; exact hc
      refine ⟨s, ?_, h, ?_, rfl⟩
      · simp only [Tree.mapStep, he, Except.map, BMap.step, if_pos hc2, Option.isSome_none]
      · simp only [BMap.step, if_pos hc2]
    · have hc2 : ¬ ((getKV k s.abs.m).isSome ∨ s.abs.m.length ≥ s.abs.cap) := by
        rw [hg, hl, hcap, hn]
        simp
        omega
      refine ⟨s', ?_, hi, ?_, hs'⟩
      · simp only [Tree.mapStep, he, Except.map, BMap.step, if_neg hc2, Option.isSome_some]
      · simp only [BMap.step, if_neg hc2]
        simp only [Tree.abs, htl, map_insL, hc']
  | remove k =>
    rcases Tree.remove_spec h k with ⟨hn, he⟩ | ⟨i, v, s', hf, he, hi, htl, _, hc', hs', _, _⟩
    · have hgk : getKV k s.abs.m = none := by rw [hg, hn]; rfl
      refine ⟨s, ?_, h, ?_, rfl⟩
      · simp only [Tree.mapStep, he, Except.map, BMap.step, hgk]
      · simp only [BMap.step, hgk]
    · have hgk : getKV k s.abs.m = some v := by rw [hg, hf]; rfl
      refine ⟨s', ?_, hi, ?_, hs'⟩
      · simp only [Tree.mapStep, he, Except.map, BMap.step, hgk]
      · simp only [BMap.step, hgk]
        simp only [Tree.abs, htl, map_delL, hc']
  | get k =>
    refine ⟨s, ?_, h, rfl, rfl⟩
    simp only [Tree.mapStep, BMap.step, hg, Tree.get]
  | update k v =>
    rcases Tree.update_spec h k v with ⟨hn, he⟩ | ⟨hf, hb, hi, htl, hc', hs', _⟩
    · have hgk : getKV k s.abs.m = none := by rw [hg, hn]; rfl
      refine ⟨s, ?_, h, ?_, rfl⟩
      · simp only [Tree.mapStep, he, BMap.step, hgk]
      · simp only [BMap.step, hgk]
    · obtain ⟨w, hgk⟩ : ∃ w, getKV k s.abs.m = some w := by
        rw [hg]
        cases hfk : s.root.find k with
        | none => simp [hfk] at hf
        | some p => exact ⟨p.2, rfl⟩
      refine ⟨(s.update k v).1, ?_, hi, ?_, hs'⟩
      · simp only [Tree.mapStep, BMap.step, hgk, hb]
      · simp only [BMap.step, hgk]
        simp only [Tree.abs, htl, map_setL, hc']
  | contains k =>
    refine ⟨s, ?_, h, rfl, rfl⟩
    simp only [Tree.mapStep, BMap.step, hg, Tree.contains, Option.isSome_map]
  | lowest =>
    refine ⟨s, ?_, h, rfl, rfl⟩
    simp only [Tree.mapStep, BMap.step, Tree.lowest, T.minKey_eq, Tree.abs, List.head?_map,
      Option.map_map]
    rfl
  | len =>
    refine ⟨s, ?_, h, rfl, rfl⟩
    simp only [Tree.mapStep, BMap.step, hl, Tree.len]
  | isEmpty =>
    refine ⟨s, ?_, h, rfl, rfl⟩
    simp only [Tree.mapStep, BMap.step, hl, Tree.isEmpty]
  | isFull =>
    refine ⟨s, ?_, h, rfl, rfl⟩
    simp only [Tree.mapStep, BMap.step, hl, Tree.isFull, hcap]

/-- Whole histories. -/
theorem Tree.mapRun_refines {c : TreeCfg} {s : Tree α β} (h : s.Inv c) (ops : List (MapOp α β)) :
    ∃ s', s.mapRun c ops = .ok (s', (s.abs.run ops).2) ∧ s'.Inv c ∧ s'.abs = (s.abs.run ops).1 := by
  induction ops generalizing s with
  | nil => exact ⟨s, rfl, h, rfl⟩
  | cons op ops ih =>
    obtain ⟨s1, he, hi, ha, _⟩ := Tree.mapStep_refines h op
    obtain ⟨s2, he2, hi2, ha2⟩ := ih hi
    refine ⟨s2, ?_, hi2, ?_⟩
    · simp only [Tree.mapRun, he, he2, BMap.run]
      rw [← ha]
    · simp only [BMap.run]
      rw [← ha]
      exact ha2

/-- Fewer than `cap - size` fresh entries never fill the tree. -/
theorem Tree.fill_partial {c : TreeCfg} {s : Tree α β} (h : s.Inv c) (kvs : List (α × β))
    (hnd : (kvs.map (·.1)).Pairwise (fun a b => a < b ∨ b < a))
    (hfresh : ∀ e ∈ kvs, s.root.find e.1 = none)
    (hlen : kvs.length + s.size ≤ s.cap) :
    ∃ s', s.insertAll c kvs = some s' ∧ s'.Inv c ∧ s'.size = s.size + kvs.length ∧ s'.cap = s.cap := by
  induction kvs generalizing s with
  | nil => exact ⟨s, rfl, h, by simp, rfl⟩
  | cons e rest ih =>
    obtain ⟨k, v⟩ := e
    have hfk : s.root.find k = none := hfresh (k, v) (by simp)
    simp only [List.length_cons] at hlen
    simp only [List.map_cons, List.pairwise_cons] at hnd
    rcases Tree.insert_spec h k v with ⟨hc, _⟩ | ⟨_, _, s1, i, he, hi, htl, _, _, _, hc1, _, hsz1⟩
    · rcases hc with hc | hc
      · simp [hfk] at hc
      · omega
    · have hfresh1 : ∀ e ∈ rest, s1.root.find e.1 = none := by
        intro e he'
        have hke := hnd.1 e.1 (List.mem_map.2 ⟨e, he', rfl⟩)
        rw [T.find_eq_findL hi.bst, htl, findL_insL_other (i, k, v) hke.symm,
          ← T.find_eq_findL h.bst]
        exact hfresh e (List.mem_cons_of_mem _ he')
      obtain ⟨s2, he2, hi2, hsz2, hc2⟩ := ih hi hnd.2 hfresh1 (by omega)
      refine ⟨s2, ?_, hi2, ?_, by rw [hc2, hc1]⟩
      · simp only [Tree.insertAll, he]
        exact he2
      · rw [hsz2, hsz1, List.length_cons]
        omega

/-- Exactly `cap - size` further fresh entries fit. -/
theorem Tree.fill_spec {c : TreeCfg} {s : Tree α β} (h : s.Inv c) (kvs : List (α × β))
    (hnd : (kvs.map (·.1)).Pairwise (fun a b => a < b ∨ b < a))
    (hfresh : ∀ e ∈ kvs, s.root.find e.1 = none)
    (hlen : kvs.length + s.size = s.cap) :
    ∃ s', s.insertAll c kvs = some s' ∧ s'.Inv c ∧ s'.size = s'.cap ∧ s'.cap = s.cap ∧
      ∀ k v, s'.insert c k v = .ok (s', none) := by
  obtain ⟨s', he, hi, hsz, hc⟩ := Tree.fill_partial h kvs hnd hfresh (by omega)
  refine ⟨s', he, hi, by omega, hc, ?_⟩
  intro k v
  rcases Tree.insert_spec hi k v with ⟨_, hins⟩ | ⟨_, hlt, _⟩
  · exact hins
  · omega

/-- A released slot is the next one handed out. -/
theorem Tree.free_reused {c : TreeCfg} {s s' : Tree α β} (h : s.Inv c) {k : α} {i : Nat} {v : β}
    (hf : s.root.find k = some (i, v)) (hr : s.remove k = .ok (s', some v)) (k' : α) (v' : β)
    (hk : s'.root.find k' = none) :
    ∃ s'', s'.insert c k' v' = .ok (s'', some i) := by
  rcases Tree.remove_spec h k with ⟨hn, _⟩ | ⟨i', v', s1, hf', he, hi, _, hfree, hcap, _, hsz, _⟩
  · rw [hf] at hn; cases hn
  · rw [hf] at hf'
    cases hf'
    rw [hr] at he
    cases he
    have hle : s.size ≤ s.cap := by
      have h1 := h.count
      have h2 := h.seq_le
      have h3 := T.length_slots s.root
      have h4 := h.size_eq
      rw [List.length_append] at h1
      omega
    have hnf : s'.size < s'.cap := by omega
    obtain ⟨s2, j, ha, _, _, _, _, _, _, _, hcase⟩ := Tree.alloc_spec hi hnf
    have hj : j = i := by
      rcases hcase with ⟨h1, _⟩ | ⟨h1, _⟩
      · rw [hfree] at h1
        exact (List.cons.inj h1).1.symm
      · rw [hfree] at h1
        cases h1
    subst hj
    refine ⟨{ s2 with root := s2.root.ins j k' v' }, ?_⟩
    unfold Tree.insert
    rw [if_neg (by simp [hk]), if_neg (by simp [Tree.isFull]; omega), ha]

/-- Growth: extending by `n` records and re-opening keeps the entries and adds exactly `n` slots. -/
theorem Tree.grow_spec {c : TreeCfg} {s : Tree α β} (h : s.Inv c) (n : Nat)
    (hok : (TreeOp.extend n : TreeOp α β).ok c s) :
    ((s.extend n).openMut c).Inv c ∧ ((s.extend n).openMut c).root = s.root ∧
    ((s.extend n).openMut c).size = s.size ∧
    (0 < n → ((s.extend n).openMut c).cap = s.slots + n) ∧
    (s.extend n).root = s.root ∧ (s.extend n).cap = s.cap ∧ (s.extend n).size = s.size := by
  have he := Tree.inv_extend h n hok
  have ho := Tree.openMut_cap he
  exact ⟨Tree.inv_openMut he, ho.2.1, ho.2.2.1, fun _ => ho.1, rfl, rfl, rfl⟩

/-- Layout precondition follows from the invariant (so `decode (image s) = s` on reachable states). -/
theorem Tree.Inv.layoutOk {c : TreeCfg} {s : Tree α β} (h : s.Inv c) : s.LayoutOk c := by
  have hseq := h.seq_le
  have hcap := h.cap_le
  have hsl := h.slots_le
  have hcnt := h.count
  refine ⟨h.nodup, ?_, ?_, ?_⟩
  · intro i hi
    have := h.range i hi
    omega
  · intro i hi
    have := h.range i (List.mem_append_right _ hi)
    unfold Tree.seqReg
    by_cases hw : s.seq ≤ c.W
    · rw [Nat.mod_eq_of_lt (by omega)]; omega
    · have e : s.seq = c.W + 1 := by omega
      rw [e, Nat.mod_self]; omega
  · unfold TreeImage.seqOfReg Tree.seqReg
    by_cases hw : s.seq ≤ c.W
    · rw [Nat.mod_eq_of_lt (by omega)]
      have : s.seq ≠ 0 := by omega
      simp [this]
    · have e : s.seq = c.W + 1 := by omega
      have hc : s.cap = c.W := by omega
      have hwr : c.wrap = true := by
        rcases h.nowrap with hw' | hw'
        · exact hw'
        · omega
      rw [e, Nat.mod_self, hc, hwr]
      simp

end Lemmas
end Stevia
