/-
  Stevia.Proofs.TreeState — state-machine level of the tree model: the
  invariant, operations as a step function, reachability, the bounded ordered
  map the trees refine, and the lemmas the property files (Stevia/Props/C*.lean)
  are corollaries of.
-/
import Stevia.Proofs.TreeAvl
import Stevia.Proofs.TreeLayoutRT

namespace Stevia
variable {α β : Type}

/-! ### Invariant -/

/-- The invariant of every reachable tree state. -/
structure Tree.Inv [LinOrd α] (c : TreeCfg) (s : Tree α β) : Prop where
  bst : s.root.Bst
  bal : s.root.Bal
  size_eq : s.size = s.root.size
  nodup : (s.root.slots ++ s.free).Nodup
  range : ∀ i ∈ s.root.slots ++ s.free, 1 ≤ i ∧ i < s.seq
  count : (s.root.slots ++ s.free).length + 1 = s.seq
  seq_le : s.seq ≤ s.cap + 1
  cap_le : s.cap ≤ s.slots
  slots_le : s.slots ≤ c.W
  nowrap : c.wrap = true ∨ s.slots < c.W

/-! ### Mutating operations as a step function

Every mutating call of the API goes through a handle made by `from_bytes_mut`,
which is `openMut` (idempotent). -/

inductive TreeOp (α β : Type) where
  | insert (k : α) (v : β)
  | remove (k : α)
  | update (k : α) (v : β)
  | reopen
  | extend (n : Nat)

def Tree.step [LinOrd α] (c : TreeCfg) (s : Tree α β) : TreeOp α β → Except Fault (Tree α β)
  | .insert k v => ((s.openMut c).insert c k v).map (·.1)
  | .remove k => ((s.openMut c).remove k).map (·.1)
  | .update k v => .ok ((s.openMut c).update k v).1
  | .reopen => .ok (s.openMut c)
  | .extend n => .ok (s.extend n)

/-- Side condition of an operation: only growth has one (the index type must
    be able to address the records). -/
def TreeOp.ok (c : TreeCfg) (s : Tree α β) : TreeOp α β → Prop
  | .extend n => s.slots + n ≤ c.W ∧ (c.wrap = true ∨ s.slots + n < c.W)
  | _ => True

/-- States reachable from `initialize(cap)` on a zero-filled buffer of `slots ≥ cap` records. -/
inductive Tree.Reach [LinOrd α] (c : TreeCfg) : Tree α β → Prop where
  | init (slots cap : Nat) (h1 : cap ≤ slots) (h2 : slots ≤ c.W) (h3 : c.wrap = true ∨ slots < c.W) :
      Tree.Reach c (Tree.init slots cap)
  | step {s s' : Tree α β} (op : TreeOp α β) (hr : Tree.Reach c s) (hok : op.ok c s)
      (hs : s.step c op = .ok s') : Tree.Reach c s'

/-! ### The reference: a capacity-bounded ordered map -/

section KV
variable [LinOrd α]

def insKV (e : α × β) : List (α × β) → List (α × β)
  | [] => [e]
  | x :: rest => if e.1 < x.1 then e :: x :: rest else x :: insKV e rest

def delKV (k : α) : List (α × β) → List (α × β)
  | [] => []
  | x :: rest => if x.1 < k ∨ k < x.1 then x :: delKV k rest else rest

def getKV (k : α) : List (α × β) → Option β
  | [] => none
  | x :: rest => if x.1 < k ∨ k < x.1 then getKV k rest else some x.2

def setKV (k : α) (v : β) : List (α × β) → List (α × β)
  | [] => []
  | x :: rest => if x.1 < k ∨ k < x.1 then x :: setKV k v rest else (x.1, v) :: rest

end KV

/-- Reference map: capacity and the entries in ascending key order. -/
structure BMap (α β : Type) where
  cap : Nat
  m : List (α × β)

inductive MapOp (α β : Type) where
  | insert (k : α) (v : β)
  | remove (k : α)
  | get (k : α)
  | update (k : α) (v : β)
  | contains (k : α)
  | lowest
  | len
  | isEmpty
  | isFull

inductive MapOut (α β : Type) where
  | bool (b : Bool)
  | val (o : Option β)
  | key (o : Option α)
  | nat (n : Nat)

/-- The reference semantics: insert succeeds exactly when the key is absent
    and the map not full and never overwrites; remove returns the stored value;
    lookups return the latest value written; lowest is the minimum key. -/
def BMap.step [LinOrd α] (b : BMap α β) : MapOp α β → BMap α β × MapOut α β
  | .insert k v =>
    if (getKV k b.m).isSome ∨ b.m.length ≥ b.cap then (b, .bool false)
    else ({ b with m := insKV (k, v) b.m }, .bool true)
  | .remove k =>
    match getKV k b.m with
    | none => (b, .val none)
    | some v => ({ b with m := delKV k b.m }, .val (some v))
  | .get k => (b, .val (getKV k b.m))
  | .update k v =>
    match getKV k b.m with
    | none => (b, .bool false)
    | some _ => ({ b with m := setKV k v b.m }, .bool true)
  | .contains k => (b, .bool (getKV k b.m).isSome)
  | .lowest => (b, .key (b.m.head?.map (·.1)))
  | .len => (b, .nat b.m.length)
  | .isEmpty => (b, .bool (b.m.length == 0))
  | .isFull => (b, .bool (b.m.length ≥ b.cap))

def BMap.run [LinOrd α] (b : BMap α β) : List (MapOp α β) → BMap α β × List (MapOut α β)
  | [] => (b, [])
  | op :: ops =>
    let r := b.step op
    let rr := BMap.run r.1 ops
    (rr.1, r.2 :: rr.2)

/-- The same operations on the tree model (through a mutable handle; `insert`
    reports `isSome` of the returned index). -/
def Tree.mapStep [LinOrd α] (c : TreeCfg) (s : Tree α β) :
    MapOp α β → Except Fault (Tree α β × MapOut α β)
  | .insert k v => (s.insert c k v).map fun r => (r.1, .bool r.2.isSome)
  | .remove k => (s.remove k).map fun r => (r.1, .val r.2)
  | .get k => .ok (s, .val (s.get k))
  | .update k v => .ok ((s.update k v).1, .bool (s.update k v).2)
  | .contains k => .ok (s, .bool (s.contains k))
  | .lowest => .ok (s, .key s.lowest)
  | .len => .ok (s, .nat s.len)
  | .isEmpty => .ok (s, .bool s.isEmpty)
  | .isFull => .ok (s, .bool s.isFull)

def Tree.mapRun [LinOrd α] (c : TreeCfg) (s : Tree α β) :
    List (MapOp α β) → Except Fault (Tree α β × List (MapOut α β))
  | [] => .ok (s, [])
  | op :: ops =>
    match s.mapStep c op with
    | .error e => .error e
    | .ok (s', o) =>
      match Tree.mapRun c s' ops with
      | .error e => .error e
      | .ok (s'', os) => .ok (s'', o :: os)

/-- Abstraction: capacity + in-order `(key, value)` list. -/
def Tree.abs (s : Tree α β) : BMap α β := { cap := s.cap, m := s.root.toList.map (·.2) }

/-- Insert every `(k, v)` of the list; every insertion must succeed. -/
def Tree.insertAll [LinOrd α] (c : TreeCfg) (s : Tree α β) : List (α × β) → Option (Tree α β)
  | [] => some s
  | (k, v) :: rest =>
    match s.insert c k v with
    | .ok (s', some _) => Tree.insertAll c s' rest
    | _ => none

/-! ### Lemmas (statements; proofs below each) -/

section Lemmas
variable [LinOrd α]

theorem Tree.inv_init (c : TreeCfg) (slots cap : Nat) (h1 : cap ≤ slots) (h2 : slots ≤ c.W)
    (h3 : c.wrap = true ∨ slots < c.W) : (Tree.init slots cap : Tree α β).Inv c := by
  sorry

theorem Tree.inv_openMut {c : TreeCfg} {s : Tree α β} (h : s.Inv c) : (s.openMut c).Inv c := by
  sorry

theorem Tree.openMut_cap {c : TreeCfg} {s : Tree α β} (h : s.Inv c) :
    (s.openMut c).cap = s.slots ∧ (s.openMut c).root = s.root ∧ (s.openMut c).size = s.size ∧
    (s.openMut c).free = s.free ∧ (s.openMut c).seq = s.seq ∧ (s.openMut c).slots = s.slots := by
  sorry

/-- Re-opening a buffer whose size matches its capacity changes nothing. -/
theorem Tree.openMut_id (c : TreeCfg) (s : Tree α β) (h : s.slots ≤ s.cap) : s.openMut c = s := by
  sorry

theorem Tree.inv_extend {c : TreeCfg} {s : Tree α β} (h : s.Inv c) (n : Nat)
    (hok : (TreeOp.extend n : TreeOp α β).ok c s) : (s.extend n).Inv c := by
  sorry

/-- Allocation never faults on a non-full well-formed state, returns a slot that
    is in range and not in use, and keeps the rest of the allocator invariant
    (stated through what `insert` needs). -/
theorem Tree.alloc_spec {c : TreeCfg} {s : Tree α β} (h : s.Inv c) (hnf : s.size < s.cap) :
    ∃ s' i, s.alloc c = .ok (s', i) ∧ 1 ≤ i ∧ i ≤ s.slots ∧ i ∉ s.root.slots ∧
      s'.root = s.root ∧ s'.size = s.size + 1 ∧ s'.cap = s.cap ∧ s'.slots = s.slots ∧
      ((s.free = i :: s'.free ∧ s'.seq = s.seq) ∨
       (s.free = [] ∧ s'.free = [] ∧ i = s.seq ∧ s'.seq = s.seq + 1)) := by
  sorry

/-- `insert` on a well-formed state: never faults; refuses exactly for a present
    key or a full tree (state unchanged); otherwise the in-order list gains the
    entry at its sorted position, in a slot that was not in use. -/
theorem Tree.insert_spec {c : TreeCfg} {s : Tree α β} (h : s.Inv c) (k : α) (v : β) :
    (((s.root.find k).isSome ∨ s.size ≥ s.cap) ∧ s.insert c k v = .ok (s, none)) ∨
    ((s.root.find k) = none ∧ s.size < s.cap ∧
      ∃ s' i, s.insert c k v = .ok (s', some i) ∧ s'.Inv c ∧
        s'.root.toList = insL (i, k, v) s.root.toList ∧ i ∉ s.root.slots ∧ 1 ≤ i ∧ i ≤ s.slots ∧
        s'.cap = s.cap ∧ s'.slots = s.slots ∧ s'.size = s.size + 1) := by
  sorry

/-- `remove` on a well-formed state. -/
theorem Tree.remove_spec {c : TreeCfg} {s : Tree α β} (h : s.Inv c) (k : α) :
    (s.root.find k = none ∧ s.remove k = .ok (s, none)) ∨
    (∃ i v s', s.root.find k = some (i, v) ∧ s.remove k = .ok (s', some v) ∧ s'.Inv c ∧
        s'.root.toList = delL k s.root.toList ∧ s'.free = i :: s.free ∧
        s'.cap = s.cap ∧ s'.slots = s.slots ∧ s'.size + 1 = s.size ∧ s'.seq = s.seq) := by
  sorry

/-- `get_mut` + write on a well-formed state. -/
theorem Tree.update_spec {c : TreeCfg} {s : Tree α β} (h : s.Inv c) (k : α) (v : β) :
    (s.root.find k = none ∧ s.update k v = (s, false)) ∨
    ((s.root.find k).isSome ∧ (s.update k v).2 = true ∧ (s.update k v).1.Inv c ∧
        (s.update k v).1.root.toList = setL k v s.root.toList ∧
        (s.update k v).1.cap = s.cap ∧ (s.update k v).1.slots = s.slots ∧
        (s.update k v).1.size = s.size ∧ (s.update k v).1.free = s.free ∧ (s.update k v).1.seq = s.seq) := by
  sorry

/-- No operation faults on a well-formed state, and the invariant is preserved. -/
theorem Tree.step_ok {c : TreeCfg} {s : Tree α β} (h : s.Inv c) (op : TreeOp α β) (hok : op.ok c s) :
    ∃ s', s.step c op = .ok s' ∧ s'.Inv c := by
  sorry

/-- Every reachable state satisfies the invariant. -/
theorem Tree.reach_inv {c : TreeCfg} {s : Tree α β} (h : Tree.Reach c s) : s.Inv c := by
  sorry

/-! #### key/value view of the entry-list operations -/

theorem map_insL (e : Entry α β) (l : List (Entry α β)) :
    (insL e l).map (·.2) = insKV e.2 (l.map (·.2)) := by
  sorry

theorem map_delL (k : α) (l : List (Entry α β)) :
    (delL k l).map (·.2) = delKV k (l.map (·.2)) := by
  sorry

theorem map_setL (k : α) (v : β) (l : List (Entry α β)) :
    (setL k v l).map (·.2) = setKV k v (l.map (·.2)) := by
  sorry

theorem getKV_map (k : α) (l : List (Entry α β)) :
    getKV k (l.map (·.2)) = (findL k l).map (·.2) := by
  sorry

/-- One operation of the tree equals one operation of the reference map. -/
theorem Tree.mapStep_refines {c : TreeCfg} {s : Tree α β} (h : s.Inv c) (op : MapOp α β) :
    ∃ s', s.mapStep c op = .ok (s', (s.abs.step op).2) ∧ s'.Inv c ∧ s'.abs = (s.abs.step op).1 ∧
      s'.slots = s.slots := by
  sorry

/-- Whole histories. -/
theorem Tree.mapRun_refines {c : TreeCfg} {s : Tree α β} (h : s.Inv c) (ops : List (MapOp α β)) :
    ∃ s', s.mapRun c ops = .ok (s', (s.abs.run ops).2) ∧ s'.Inv c ∧ s'.abs = (s.abs.run ops).1 := by
  sorry

/-- Exactly `cap - size` further fresh entries fit. -/
theorem Tree.fill_spec {c : TreeCfg} {s : Tree α β} (h : s.Inv c) (kvs : List (α × β))
    (hnd : (kvs.map (·.1)).Pairwise (fun a b => a < b ∨ b < a))
    (hfresh : ∀ e ∈ kvs, s.root.find e.1 = none)
    (hlen : kvs.length + s.size = s.cap) :
    ∃ s', s.insertAll c kvs = some s' ∧ s'.Inv c ∧ s'.size = s'.cap ∧ s'.cap = s.cap ∧
      ∀ k v, s'.insert c k v = .ok (s', none) := by
  sorry

/-- Fewer than `cap - size` fresh entries never fill the tree. -/
theorem Tree.fill_partial {c : TreeCfg} {s : Tree α β} (h : s.Inv c) (kvs : List (α × β))
    (hnd : (kvs.map (·.1)).Pairwise (fun a b => a < b ∨ b < a))
    (hfresh : ∀ e ∈ kvs, s.root.find e.1 = none)
    (hlen : kvs.length + s.size ≤ s.cap) :
    ∃ s', s.insertAll c kvs = some s' ∧ s'.Inv c ∧ s'.size = s.size + kvs.length ∧ s'.cap = s.cap := by
  sorry

/-- A released slot is the next one handed out. -/
theorem Tree.free_reused {c : TreeCfg} {s s' : Tree α β} (h : s.Inv c) {k : α} {i : Nat} {v : β}
    (hf : s.root.find k = some (i, v)) (hr : s.remove k = .ok (s', some v)) (k' : α) (v' : β)
    (hk : s'.root.find k' = none) :
    ∃ s'', s'.insert c k' v' = .ok (s'', some i) := by
  sorry

/-- Growth: extending by `n` records and re-opening keeps the entries and adds exactly `n` slots. -/
theorem Tree.grow_spec {c : TreeCfg} {s : Tree α β} (h : s.Inv c) (n : Nat)
    (hok : (TreeOp.extend n : TreeOp α β).ok c s) :
    ((s.extend n).openMut c).Inv c ∧ ((s.extend n).openMut c).root = s.root ∧
    ((s.extend n).openMut c).size = s.size ∧
    (0 < n → ((s.extend n).openMut c).cap = s.slots + n) ∧
    (s.extend n).root = s.root ∧ (s.extend n).cap = s.cap ∧ (s.extend n).size = s.size := by
  sorry

/-- Layout precondition follows from the invariant (so `decode (image s) = s` on reachable states). -/
theorem Tree.Inv.layoutOk {c : TreeCfg} {s : Tree α β} (h : s.Inv c) : s.LayoutOk c := by
  sorry

end Lemmas
end Stevia
