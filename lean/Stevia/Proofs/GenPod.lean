/-
  Stevia.Proofs.GenPod — translator output for `pod_bool.rs`, `pod_option.rs` and `ZeroCopy::load/load_mut`
  (`Stevia.GenPod.*`, regenerated from the sources on every run) = the model `Stevia.Pod.*`.
-/
import Stevia.Generated.Pod

namespace Stevia
namespace GenPod

theorem pod_to_bool_eq (b : UInt8) : pod_to_bool b = Pod.boolDecode b ∧ pod_ref_to_bool b = Pod.boolDecode b := by
  simp [pod_to_bool, pod_ref_to_bool, Pod.boolDecode, bne_iff_ne]
  by_cases h : b = 0 <;> simp [h]

theorem bool_to_pod_eq (x : Bool) : bool_to_pod x = Pod.boolEncode x ∧ bool_ref_to_pod x = Pod.boolEncode x := by
  cases x <;> exact ⟨rfl, rfl⟩

theorem option_value_eq (isSome isNone : ByteArray → Bool) (inner : ByteArray) :
    option_value isSome isNone inner = Pod.optValue isSome inner ∧
    option_value_mut isSome isNone inner = Pod.optValue isSome inner := by
  -- by cases on the some-pattern test: the source may test `is_some`, `!is_some` with the branches swapped, …
  unfold option_value option_value_mut Pod.optValue
  cases h : isSome inner <;> simp [h]

theorem load_eq (n : Nat) (data : ByteArray) :
    load n data = (Pod.load n data).toOption ∧ load_mut n data = (Pod.load n data).toOption := by
  unfold load load_mut Pod.load
  by_cases h : n ≤ data.size
  · have : ¬ data.size < n := by omega
    simp [h, this, Except.toOption]
  · have : data.size < n := by omega
    simp [h, this, Except.toOption]

end GenPod
end Stevia
