/-
  Stevia.Proofs.GenTreeQuery8 — translator output for `u8_avl_tree.rs` (`Stevia.Gen8.*`, regenerated from the source on
  every run) = literal model `Stevia.Imp.*` at the 8-bit configuration: read-only queries, `get_mut`, and the capacity adoption of `from_bytes_mut`.
  Every statement is an unconditional equality of functions; a source change that alters what one of these
  functions computes makes its proof fail.
-/
import Stevia.Generated.Avl8
import Stevia.Proofs.GenLemmas

namespace Stevia
open Imp
variable {α β : Type} [LinOrd α]
set_option linter.unusedSectionVars false
set_option linter.unusedSimpArgs false

namespace Gen8

theorem capacity_eq (d : Rec α β) (m : TreeImage α β) : capacity d m = m.hdr.cap := rfl

theorem len_eq (d : Rec α β) (m : TreeImage α β) : len d m = m.hdr.size := rfl

theorem is_empty_eq (d : Rec α β) (m : TreeImage α β) : is_empty d m = decide (m.hdr.size = 0) := rfl

theorem is_full_eq (d : Rec α β) (m : TreeImage α β) : is_full d m = Imp.isFull m := rfl

theorem find_eq (d : Rec α β) (m : TreeImage α β) (key : α) :
    find d m key = Imp.find d m key (m.recs.length + 1) m.hdr.root := by
  unfold find
  simp only [forIn, Id.run]
  generalize m.recs.length + 1 = fuel
  generalize m.hdr.root = node
  induction fuel generalizing node with
  | zero => rfl
  | succ n ih =>
    simp only [Fuel.forIn, Imp.find, ← ih]
    repeat' split
    all_goals first | rfl | simp_all

theorem get_eq (d : Rec α β) (m : TreeImage α β) (key : α) :
    get d m key = (Imp.find d m key (m.recs.length + 1) m.hdr.root).map fun i => (rd d m i).val := by
  simp only [get, Id.run, pure, find_eq]

theorem contains_eq (d : Rec α β) (m : TreeImage α β) (key : α) :
    contains d m key = (Imp.find d m key (m.recs.length + 1) m.hdr.root).isSome := by
  simp only [contains, Id.run, pure, find_eq]

theorem lowest_eq (d : Rec α β) (m : TreeImage α β) :
    lowest d m = Imp.lowest d m := by
  unfold lowest Imp.lowest
  simp only [forIn, Id.run]
  split
  · rfl
  · generalize m.recs.length + 1 = fuel
    generalize m.hdr.root = node
    induction fuel generalizing node with
    | zero => rfl
    | succ n ih =>
      simp only [Fuel.forIn, Imp.lowestGo, ← ih]
      repeat' split
      all_goals first | rfl | simp_all

theorem from_bytes_mut_eq (d : Rec α β) (m : TreeImage α β) :
    from_bytes_mut d m = Imp.openMut cfgU8 m := by
  simp only [from_bytes_mut, Imp.openMut, cfgU8, Id.run, bind, pure, gt_iff_lt]

/-- `get_mut` yields the place of the value (its record index); writing through it is `Imp.update`. -/
theorem get_mut_eq (d : Rec α β) (m : TreeImage α β) (key : α) (v : β) :
    (match (get_mut d m key).2 with
      | none => (m, false)
      | some i => (wr m i fun r => { r with val := v }, true)) = Imp.update d m key v := by
  simp only [get_mut, Imp.update, Id.run, bind, pure, find_eq, Option.map_id_fun', id_eq]
  cases Imp.find d m key (m.recs.length + 1) m.hdr.root <;> rfl

end Gen8
end Stevia
