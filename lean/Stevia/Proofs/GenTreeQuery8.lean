/-
  Stevia.Proofs.GenTreeQuery8 — translator output for `u8_avl_tree.rs` (`Stevia.Gen8.*`, regenerated from the source on
  every run) = literal model `Stevia.Imp.*` at the 8-bit configuration: read-only queries, `get_mut`, and the capacity adoption of `from_bytes_mut`.
  Every statement is an unconditional equality of functions; a source change that alters what one of these
  functions computes makes its proof fail.
-/
import Stevia.Generated.Avl8Query
import Stevia.Proofs.GenLemmas
import Stevia.Model.TreeImpTerm

namespace Stevia
open Imp
variable {α β : Type} [LinOrd α]
set_option linter.unusedSectionVars false
set_option linter.unusedSimpArgs false

namespace Gen8

theorem capacity_eq (d : Rec α β) (m : TreeImage α β) : capacity d m = m.hdr.cap := rfl

theorem len_eq (d : Rec α β) (m : TreeImage α β) : len d m = m.hdr.size := rfl

theorem is_empty_eq (d : Rec α β) (m : TreeImage α β) : is_empty d m = decide (m.hdr.size = 0) := rfl

theorem is_full_eq (d : Rec α β) (m : TreeImage α β) : is_full d m = Imp.isFull m := rfl

/-- `find`: the translated loop answers what the literal descent answers, provided it leaves by its own condition
    within the fuel (`Imp.findT`); otherwise the translation fails. -/
theorem find_eq (d : Rec α β) (m : TreeImage α β) (key : α) :
    find d m key = if Imp.findT d m key (m.recs.length + 1) m.hdr.root
      then some (Imp.find d m key (m.recs.length + 1) m.hdr.root) else none := by
  unfold find
  simp only [forIn]
  generalize m.recs.length + 1 = fuel
  generalize m.hdr.root = node
  induction fuel generalizing node with
  | zero => rfl
  | succ n ih =>
    simp only [Fuel.forIn, Imp.find, Imp.findT]
    by_cases h0 : node = 0
    · simp only [h0, ne_eq, not_true_eq_false, not_false_eq_true, if_true]; rfl
    · by_cases h1 : key < (rd d m node).key
      · simp only [h0, h1, ne_eq, not_false_eq_true, not_true_eq_false, if_true, if_false, pure_bind]
        exact ih _
      · by_cases h2 : (rd d m node).key < key
        · simp only [h0, h1, h2, ne_eq, not_false_eq_true, not_true_eq_false, if_true, if_false, pure_bind]
          exact ih _
        · simp only [h0, h1, h2, ne_eq, not_false_eq_true, not_true_eq_false, if_true, if_false, pure_bind]
          rfl

theorem get_eq (d : Rec α β) (m : TreeImage α β) (key : α) :
    get d m key = if Imp.findT d m key (m.recs.length + 1) m.hdr.root
      then some ((Imp.find d m key (m.recs.length + 1) m.hdr.root).map fun i => (rd d m i).val) else none := by
  simp only [get, find_eq]
  split <;> rfl

theorem contains_eq (d : Rec α β) (m : TreeImage α β) (key : α) :
    contains d m key = if Imp.findT d m key (m.recs.length + 1) m.hdr.root
      then some (Imp.find d m key (m.recs.length + 1) m.hdr.root).isSome else none := by
  simp only [contains, find_eq]
  split <;> rfl

theorem lowest_eq (d : Rec α β) (m : TreeImage α β) :
    lowest d m = if m.hdr.root = 0 ∨ Imp.leftT d m (m.recs.length + 1) m.hdr.root = true
      then some (Imp.lowest d m) else none := by
  unfold lowest Imp.lowest
  simp only [forIn]
  by_cases hr : m.hdr.root = 0
  · simp only [hr, true_or, if_true]; rfl
  · simp only [hr, false_or, if_false]
    generalize m.recs.length + 1 = fuel
    generalize m.hdr.root = node
    induction fuel generalizing node with
    | zero => rfl
    | succ n ih =>
      simp only [Fuel.forIn, Imp.lowestGo, Imp.leftT]
      by_cases h1 : (rd d m node).left = 0
      · simp only [h1, ne_eq, not_true_eq_false, not_false_eq_true, if_true, if_false, pure_bind]; rfl
      · simp only [h1, ne_eq, not_false_eq_true, not_true_eq_false, if_true, if_false, pure_bind]
        exact ih _

/-- `get_mut` yields the place of the value (its record index); writing through it is `Imp.update`. -/
theorem get_mut_eq (d : Rec α β) (m : TreeImage α β) (key : α) (v : β) :
    (get_mut d m key).map (fun r => match r.2 with
      | none => (m, false)
      | some i => (wr m i fun r => { r with val := v }, true))
    = if Imp.findT d m key (m.recs.length + 1) m.hdr.root then some (Imp.update d m key v) else none := by
  simp only [get_mut, Imp.update, find_eq]
  split
  · simp only [Option.bind_eq_bind, Option.bind_some, pure, Option.map_some, Option.map_id_fun', id_eq]
    cases Imp.find d m key (m.recs.length + 1) m.hdr.root <;> rfl
  · rfl

/-- `get_mut` does not touch the image. -/
theorem get_mut_fst (d : Rec α β) (m : TreeImage α β) (key : α) (r : TreeImage α β × Option Nat)
    (h : get_mut d m key = some r) : r.1 = m := by
  simp only [get_mut] at h
  cases hf : find d m key with
  | none => rw [hf] at h; cases h
  | some t =>
    rw [hf] at h
    simp only [Option.bind_eq_bind, Option.bind_some, pure, Option.some.injEq] at h
    rw [← h]

end Gen8
end Stevia
