/-
  Stevia.Proofs.GenViews — the translated view constructors (`Stevia/Generated/Views.lean`) are `View.split`, the
  translated `data_len` is `View.dataLen`; consequences of the split used by C04, C05 and C10.
-/
import Stevia.Generated.Views

namespace Stevia

theorem ByteArray.size_extract' (b : ByteArray) (i j : Nat) : (b.extract i j).size = min j b.size - i := by
  simp [ByteArray.size_extract]

namespace GenV

private theorem view_eq (H R : Nat) (bytes : ByteArray) :
    (do
      if ¬ (H ≤ bytes.size) then failure
      let (a, n) := (bytes.extract 0 H, bytes.extract H bytes.size)
      if ¬ (a.size = H) then failure
      if ¬ (castOk R n.size) then failure
      return (a, n) : Option (ByteArray × ByteArray)) = View.split H R bytes := by
  unfold View.split
  by_cases h : H ≤ bytes.size
  · have h1 : (bytes.extract 0 H).size = H := by simp [ByteArray.size_extract]; omega
    have h2 : (bytes.extract H bytes.size).size = bytes.size - H := by simp [ByteArray.size_extract]
    by_cases hc : castOk R (bytes.size - H)
    · simp [h, h1, h2, hc]
    · simp [h, h1, h2, hc]
  · simp [h]

theorem avl32_from_bytes_eq (H R : Nat) (b : ByteArray) : avl32_from_bytes H R b = View.split H R b := by
  unfold avl32_from_bytes; exact view_eq H R b
theorem avl32_from_bytes_mut_eq (H R : Nat) (b : ByteArray) : avl32_from_bytes_mut H R b = View.split H R b := by
  unfold avl32_from_bytes_mut; exact view_eq H R b
theorem avl8_from_bytes_eq (H R : Nat) (b : ByteArray) : avl8_from_bytes H R b = View.split H R b := by
  unfold avl8_from_bytes; exact view_eq H R b
theorem avl8_from_bytes_mut_eq (H R : Nat) (b : ByteArray) : avl8_from_bytes_mut H R b = View.split H R b := by
  unfold avl8_from_bytes_mut; exact view_eq H R b
theorem hset_from_bytes_eq (H R : Nat) (b : ByteArray) : hset_from_bytes H R b = View.split H R b := by
  unfold hset_from_bytes; exact view_eq H R b
theorem hset_from_bytes_mut_eq (H R : Nat) (b : ByteArray) : hset_from_bytes_mut H R b = View.split H R b := by
  unfold hset_from_bytes_mut; exact view_eq H R b
theorem aset_from_bytes_eq (H R : Nat) (b : ByteArray) : aset_from_bytes H R b = View.split H R b := by
  unfold aset_from_bytes; exact view_eq H R b
theorem aset_from_bytes_mut_eq (H R : Nat) (b : ByteArray) : aset_from_bytes_mut H R b = View.split H R b := by
  unfold aset_from_bytes_mut; exact view_eq H R b

theorem accessors_eq (ws : List Nat) (i v : Nat) :
    avl32_get_field ws i = View.getWord ws i ∧ avl32_set_field ws i v = View.setWord ws i v ∧
    avl32_get_register ws i = View.getWord ws i ∧ avl32_set_register ws i v = View.setWord ws i v ∧
    avl8_get_field ws i = View.getWord ws i ∧ avl8_set_field ws i v = View.setWord ws i v ∧
    avl8_get_register ws i = View.getWord ws i ∧ avl8_set_register ws i v = View.setWord ws i v ∧
    hset_get_field ws i = View.getWord ws i ∧ hset_set_field ws i v = View.setWord ws i v ∧
    hset_get_register ws i = View.getWord ws i ∧ hset_set_register ws i v = View.setWord ws i v :=
  ⟨rfl, rfl, rfl, rfl, rfl, rfl, rfl, rfl, rfl, rfl, rfl, rfl⟩

theorem avl32_data_len_eq (H R c : Nat) : avl32_data_len H R c = View.dataLen H R c := rfl
theorem avl8_data_len_eq (H R c : Nat) : avl8_data_len H R c = View.dataLen H R c := rfl
theorem hset_data_len_eq (H R c : Nat) : hset_data_len H R c = View.dataLen H R c := rfl

end GenV
end Stevia

namespace Stevia
namespace View

theorem split_isSome_iff (H R : Nat) (b : ByteArray) :
    (split H R b).isSome ↔ H ≤ b.size ∧ castOk R (b.size - H) := by
  unfold split; split <;> simp_all

/-- The accessor pair is a faithful word store: a write is read back, every other word and the length are kept. -/
theorem setWord_spec {ws ws' : List Nat} {i v : Nat} (h : setWord ws i v = some ws') :
    getWord ws' i = some v ∧ (∀ j, j ≠ i → getWord ws' j = getWord ws j) ∧ ws'.length = ws.length := by
  unfold setWord at h
  split at h
  · rename_i hi
    cases h
    refine ⟨by simp [getWord, hi], ?_, by simp⟩
    intro j hj
    simp [getWord, List.getElem?_set, Ne.symm hj]
  · cases h

/-- What an accepted buffer is cut into: two adjacent sub-ranges of the buffer that together are the buffer. -/
theorem split_parts {H R : Nat} {b a n : ByteArray} (h : split H R b = some (a, n)) :
    a = b.extract 0 H ∧ n = b.extract H b.size ∧ a.size = H ∧ a.size + n.size = b.size ∧
      castOk R n.size ∧ a ++ n = b := by
  unfold split at h
  split at h
  · rename_i hg
    simp only [Option.some.injEq, Prod.mk.injEq] at h
    obtain ⟨rfl, rfl⟩ := h
    have h1 : (b.extract 0 H).size = H := by simp [ByteArray.size_extract]; omega
    have h2 : (b.extract H b.size).size = b.size - H := by simp [ByteArray.size_extract]
    refine ⟨rfl, rfl, h1, by omega, by rw [h2]; exact hg.2, ?_⟩
    rw [ByteArray.extract_append_extract, Nat.min_eq_left (Nat.zero_le _), Nat.max_eq_right hg.1]
    exact ByteArray.extract_zero_size
  · simp at h

/-- A buffer sized with `data_len(cap)` is accepted and holds exactly `cap` records. -/
theorem split_dataLen {H R cap : Nat} {b : ByteArray} (hR : 0 < R) (hb : b.size = dataLen H R cap) :
    ∃ a n, split H R b = some (a, n) ∧ a.size = H ∧ n.size = cap * R := by
  have hg : H ≤ b.size ∧ castOk R (b.size - H) := by
    unfold dataLen at hb
    refine ⟨by omega, ?_⟩
    unfold castOk
    have : b.size - H = cap * R := by omega
    rw [this]; simp [Nat.ne_of_gt hR]
  have hs : (split H R b).isSome := (split_isSome_iff H R b).2 hg
  obtain ⟨⟨a, n⟩, hp⟩ := Option.isSome_iff_exists.1 hs
  obtain ⟨_, _, h3, h4, _, _⟩ := split_parts hp
  refine ⟨a, n, hp, h3, ?_⟩
  unfold dataLen at hb; omega

/-- A buffer whose size lies strictly between `data_len(cap)` and `data_len(cap + 1)` is refused. -/
theorem split_between {H R cap : Nat} {b : ByteArray} (h1 : dataLen H R cap < b.size)
    (h2 : b.size < dataLen H R (cap + 1)) : split H R b = none := by
  unfold dataLen at h1 h2
  unfold split
  rw [if_neg]
  rintro ⟨hH, hc⟩
  unfold castOk at hc
  split at hc
  · omega
  · rename_i hR
    have hlt : b.size - H - cap * R < R := by
      have : (cap + 1) * R = cap * R + R := by rw [Nat.add_mul]; simp
      omega
    have hmod : (b.size - H - cap * R) % R = 0 := by
      have : b.size - H = (b.size - H - cap * R) + cap * R := by omega
      rw [this] at hc
      simpa [Nat.add_mul_mod_self_right] using hc
    rw [Nat.mod_eq_of_lt hlt] at hmod
    omega

end View
end Stevia
