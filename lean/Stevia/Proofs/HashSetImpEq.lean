/-
  Stevia.Proofs.HashSetImpEq — the literal register-level transcription of hash_set.rs
  (`Stevia.Model.HashSetImp`) computes, on the layout of every well-formed state, exactly the layout of
  what the functional model computes, with the same result — for every hash function.
-/
import Stevia.Model.HashSetImp
import Stevia.Proofs.HashSetState

namespace Stevia
variable {β : Type} [DecidableEq β]

def HImp.dflt (vd : β) : HRec β := ⟨0, 0, vd⟩

set_option linter.unusedSectionVars false

namespace HImpEq

theorem flatMap_congr' {α γ : Type} {f g : α → List γ} :
    ∀ {l : List α}, (∀ a ∈ l, f a = g a) → l.flatMap f = l.flatMap g
  | [], _ => rfl
  | a :: l, h => by
    rw [List.flatMap_cons, List.flatMap_cons, h a (by simp),
      flatMap_congr' (fun x hx => h x (List.mem_cons_of_mem _ hx))]

theorem rd_image (vd : β) (s : HSet β) {i : Nat} (h1 : 1 ≤ i) (h2 : i ≤ s.slots) :
    HImp.rd (HImp.dflt vd) (s.image vd) i = s.recAt vd (i - 1) := by
  unfold HImp.rd
  rw [if_neg (by omega), List.getD_eq_getElem?_getD,
    HSet.image_recs_getElem? vd s (show i - 1 < s.slots by omega)]
  rfl

theorem rdB_image (vd : β) (s : HSet β) {b : Nat} (hb : b < s.slots) :
    HImp.rdB (HImp.dflt vd) (s.image vd) b = s.recAt vd b := by
  unfold HImp.rdB
  rw [List.getD_eq_getElem?_getD, HSet.image_recs_getElem? vd s hb]
  rfl

theorem recAt_bucket (vd : β) (s : HSet β) (j : Nat) :
    (s.recAt vd j).bucket = HSet.headOf (s.chains.getD j []) := by
  unfold HSet.recAt
  simp only
  split
  · rfl
  · split <;> rfl

theorem rdB_bucket (vd : β) (s : HSet β) {b : Nat} {ch : List (Nat × β)} (hb : s.chains[b]? = some ch) :
    (HImp.rdB (HImp.dflt vd) (s.image vd) b).bucket = HSet.headOf ch := by
  have hlt : b < s.slots := by
    unfold HSet.slots
    exact (List.getElem?_eq_some_iff.1 hb).1
  rw [rdB_image vd s hlt, recAt_bucket, List.getD_eq_getElem?_getD, hb]
  rfl

/-- Reading a live slot. -/
theorem rd_live (vd : β) (s : HSet β) (h : s.LayoutOk) {pre : List (Nat × β)} {e : Nat × β}
    {rest : List (Nat × β)} (hm : pre ++ e :: rest ∈ s.chains) :
    e.1 ≠ 0 ∧ HImp.rd (HImp.dflt vd) (s.image vd) e.1 =
      ⟨HSet.headOf (s.chains.getD (e.1 - 1) []), HSet.headOf rest, e.2⟩ := by
  have hnd0 := List.nodup_append.1 h.nodup
  have hmem : e.1 ∈ s.liveSlots :=
    List.mem_map.2 ⟨e, List.mem_flatMap.2 ⟨_, hm, by simp⟩, rfl⟩
  have hr := h.range e.1 (by simp [hmem])
  refine ⟨by omega, ?_⟩
  rw [rd_image vd s hr.1 hr.2]
  have hcn := chainsNext_mem hnd0.1 hm
  have : e.1 - 1 + 1 = e.1 := by omega
  exact HSet.recAt_live vd s (this.symm ▸ hcn)

theorem scan_image (vd : β) (s : HSet β) (h : s.LayoutOk) (v : β) :
    ∀ rest pre : List (Nat × β), pre ++ rest ∈ s.chains → ∀ fuel, rest.length ≤ fuel →
      HImp.scan (HImp.dflt vd) (s.image vd) v fuel (HSet.headOf rest) = HSet.chainHas rest v := by
  intro rest
  induction rest with
  | nil =>
    intro _ _ fuel _
    cases fuel <;> simp [HImp.scan, HSet.headOf, HSet.chainHas]
  | cons e rest ih =>
    intro pre hm fuel hf
    simp only [List.length_cons] at hf
    obtain ⟨f, rfl⟩ : ∃ f, fuel = f + 1 := ⟨fuel - 1, by omega⟩
    obtain ⟨h0, hrd⟩ := rd_live vd s h hm
    have hih := ih (pre ++ [e]) (by simpa using hm) f (by omega)
    show HImp.scan _ _ v (f + 1) e.1 = _
    unfold HImp.scan
    rw [if_neg h0, hrd]
    simp only [hih]
    by_cases hv : e.2 = v
    · simp [hv, HSet.chainHas]
    · simp [hv, HSet.chainHas]

theorem chainVals_image (vd : β) (s : HSet β) (h : s.LayoutOk) :
    ∀ rest pre : List (Nat × β), pre ++ rest ∈ s.chains → ∀ fuel, rest.length ≤ fuel →
      HImp.chainVals (HImp.dflt vd) (s.image vd) fuel (HSet.headOf rest) = rest.map (·.2) := by
  intro rest
  induction rest with
  | nil =>
    intro _ _ fuel _
    cases fuel <;> simp [HImp.chainVals, HSet.headOf]
  | cons e rest ih =>
    intro pre hm fuel hf
    simp only [List.length_cons] at hf
    obtain ⟨f, rfl⟩ : ∃ f, fuel = f + 1 := ⟨fuel - 1, by omega⟩
    obtain ⟨h0, hrd⟩ := rd_live vd s h hm
    have hih := ih (pre ++ [e]) (by simpa using hm) f (by omega)
    show HImp.chainVals _ _ (f + 1) e.1 = _
    unfold HImp.chainVals
    rw [if_neg h0, hrd]
    simp only [hih, List.map_cons]

/-- Every chain is at most `slots` long. -/
theorem chain_length_le (s : HSet β) (h : s.LayoutOk) {ch : List (Nat × β)} (hm : ch ∈ s.chains) :
    ch.length ≤ s.slots := by
  have hnd := List.nodup_append.1 h.nodup
  have h1 : s.liveSlots.length ≤ s.slots :=
    length_le_of_nodup_range _ _ hnd.1 (fun i hi => h.range i (by simp [hi]))
  obtain ⟨j, hj⟩ := List.mem_iff_getElem?.1 hm
  obtain ⟨rest, p1, _⟩ := HSet.flatMap_set_perm s.chains j ch hj
  have := p1.length_eq
  simp only [HSet.liveSlots, List.length_map, this, List.length_append] at h1
  omega

/-! ### Writing: the image is determined by its header and records -/

theorem image_ext (vd : β) (s' : HSet β) (img : HImage β) (hh : img.hdr = s'.hdr)
    (hl : img.recs.length = s'.slots)
    (hr : ∀ j, j < s'.slots → img.recs[j]? = some (s'.recAt vd j)) : img = s'.image vd := by
  obtain ⟨hd, recs⟩ := img
  simp only at hh hl hr
  subst hh
  have : recs = (s'.image vd).recs := by
    apply List.ext_getElem?
    intro j
    by_cases hj : j < s'.slots
    · rw [hr j hj, HSet.image_recs_getElem? vd s' hj]
    · rw [List.getElem?_eq_none (by omega),
        List.getElem?_eq_none (by rw [HSet.image_recs_length]; omega)]
  rw [this]
  rfl

/-- `next` and `val` registers of slot `i`. -/
def slotReg (vd : β) (s : HSet β) (i : Nat) : Nat × β :=
  match chainsNext s.chains i with
  | some r => r
  | none =>
    match freeNext s.seq s.free i with
    | some n => (n, vd)
    | none => (0, vd)

theorem recAt_eq (vd : β) (s : HSet β) (j : Nat) :
    s.recAt vd j = ⟨HSet.headOf (s.chains.getD j []), (slotReg vd s (j + 1)).1,
      (slotReg vd s (j + 1)).2⟩ := by
  unfold HSet.recAt slotReg
  cases chainsNext s.chains (j + 1) with
  | some r => obtain ⟨n, v⟩ := r; rfl
  | none => cases freeNext s.seq s.free (j + 1) <;> rfl

theorem chainNext_cons_ne {e : Nat × β} {l : List (Nat × β)} {k : Nat} (hk : k ≠ e.1) :
    chainNext (e :: l) k = chainNext l k := by
  cases l with
  | nil => simp [chainNext, hk]
  | cons e' l => simp [chainNext, hk]

theorem freeNext_cons_ne' {term a k : Nat} {l : List Nat} (hk : k ≠ a) :
    freeNext term (a :: l) k = freeNext term l k := by
  cases l with
  | nil => simp [freeNext, hk]
  | cons b l => simp [freeNext, hk]

theorem chainsNext_set_congr {chains : List (List (Nat × β))} {b : Nat} {ch ch' : List (Nat × β)}
    {k : Nat} (hch : chains[b]? = some ch) (he : chainNext ch' k = chainNext ch k) :
    chainsNext (chains.set b ch') k = chainsNext chains k := by
  induction chains generalizing b with
  | nil => simp at hch
  | cons c cs ih =>
    cases b with
    | zero =>
      simp at hch; subst hch
      simp [chainsNext, he]
    | succ b =>
      simp at hch
      simp [chainsNext, ih hch]

theorem headOf_set_getD {chains : List (List (Nat × β))} {b : Nat} (hb : b < chains.length)
    (c' : List (Nat × β)) (j : Nat) :
    HSet.headOf ((chains.set b c').getD j []) =
      if j = b then HSet.headOf c' else HSet.headOf (chains.getD j []) := by
  rw [List.getD_eq_getElem?_getD, List.getD_eq_getElem?_getD, List.getElem?_set]
  by_cases hj : j = b
  · subst hj; simp [hb]
  · rw [if_neg (fun e => hj e.symm), if_neg hj]

/-- Records of the state after linking a fresh slot `i` at the head of chain `b`. -/
theorem recAt_insert (vd : β) (s s' : HSet β) {b i : Nat} {v : β} {ch : List (Nat × β)}
    (hch : s.chains[b]? = some ch) (hc' : s'.chains = s.chains.set b ((i, v) :: ch))
    (hnd' : s'.liveSlots.Nodup)
    (hfree : ∀ k, k ≠ i → freeNext s'.seq s'.free k = freeNext s.seq s.free k) (j : Nat) :
    s'.recAt vd j = ⟨if j = b then i else (s.recAt vd j).bucket,
      if j + 1 = i then HSet.headOf ch else (s.recAt vd j).next,
      if j + 1 = i then v else (s.recAt vd j).val⟩ := by
  have hb : b < s.chains.length := (List.getElem?_eq_some_iff.1 hch).1
  rw [recAt_eq vd s', recAt_eq vd s, hc', headOf_set_getD hb]
  have hh : HSet.headOf ((i, v) :: ch) = i := rfl
  rw [hh]
  by_cases hj : j + 1 = i
  · have hm : [] ++ (i, v) :: ch ∈ s'.chains := by
      rw [hc']; exact List.mem_of_getElem? (i := b) (by rw [List.getElem?_set]; simp [hb])
    have := chainsNext_mem hnd' hm
    simp only at this
    have hs : slotReg vd s' (j + 1) = (HSet.headOf ch, v) := by
      unfold slotReg; rw [hj, this]
    simp only [hs, if_pos hj]
  · have h1 : chainsNext s'.chains (j + 1) = chainsNext s.chains (j + 1) := by
      rw [hc']
      exact chainsNext_set_congr hch (chainNext_cons_ne hj)
    have hs : slotReg vd s' (j + 1) = slotReg vd s (j + 1) := by
      unfold slotReg; rw [h1, hfree _ hj]
    simp only [hs, if_neg hj]

theorem modify_getElem? {α : Type} (l : List α) (i j : Nat) (f : α → α) :
    (l.modify i f)[j]? = if i = j then l[j]?.map f else l[j]? := by
  rw [List.getElem?_modify]
  by_cases h : i = j
  · simp [h]
  · simp [h]

/-- `add_node` on the image: the header of the allocated state, and the new slot's record written. -/
theorem addNode_image (hash : β → Nat) (vd : β) (s : HSet β) (h : s.Inv hash) (hlt : s.size < s.cap)
    (v : β) {s1 : HSet β} {i : Nat} (ha : s.alloc = .ok (s1, i)) :
    HImp.addNode (HImp.dflt vd) (s.image vd) v =
      some (⟨s1.hdr, (s.image vd).recs.modify (i - 1) (fun r => { r with val := v, next := 0 })⟩, i) ∧
    (∀ k, k ≠ i → freeNext s1.seq s1.free k = freeNext s.seq s.free k) := by
  have hnd := h.nodup
  have hr := h.range
  have hc := h.count
  have hse := h.size_eq
  have hsl := h.seq_le
  have hcl := h.cap_le
  have hslt := h.slots_lt
  have e2 : (s.image vd).hdr.seq = s.seq := rfl
  have e3 : (s.image vd).hdr.flh = s.flhReg := rfl
  have e4 : (s.image vd).hdr.size = s.size := rfl
  have e5 : (s.image vd).hdr.cap = s.cap := rfl
  unfold HSet.alloc at ha
  cases hf : s.free with
  | cons i0 rest =>
    rw [hf] at hnd hr hc ha
    have hi := hr i0 (by simp)
    simp only [List.length_append, List.length_cons] at hc
    simp only at ha
    rw [if_neg (by omega), if_neg (by omega), if_neg (by omega)] at ha
    cases ha
    have hflh : s.flhReg = i := by simp [HSet.flhReg, hf]
    have hnd0 := List.nodup_append.1 hnd
    have hni : i - 1 + 1 ∉ s.liveSlots := by
      have : i - 1 + 1 = i := by omega
      rw [this]
      exact fun hm => hnd0.2.2 _ hm _ (by simp) rfl
    have hfn : freeNext s.seq s.free (i - 1 + 1) = some (rest.head?.getD s.seq) := by
      have : i - 1 + 1 = i := by omega
      rw [this, hf]; exact freeNext_head
    have hrd : (HImp.rd (HImp.dflt vd) (s.image vd) i).next = rest.head?.getD s.seq := by
      rw [rd_image vd s hi.1 (by omega), HSet.recAt_free vd s hni hfn]
    refine ⟨?_, fun k hk => ?_⟩
    · unfold HImp.addNode
      simp only [e2, e3, e4, e5, hflh]
      rw [if_neg (by omega), hrd]
      simp only [HImp.wr]
      rw [if_neg (by omega)]
      simp only [HSet.hdr, HSet.flhReg_eq]
    · exact (freeNext_cons_ne' hk).symm
  | nil =>
    rw [hf] at hnd hr hc ha
    simp only [List.append_nil] at hnd hr hc
    simp only at ha
    rw [if_neg (by omega), if_neg (by omega), if_neg (by omega), if_neg (by omega),
      if_neg (by omega)] at ha
    cases ha
    have hflh : s.flhReg = s.seq := by simp [HSet.flhReg, hf]
    refine ⟨?_, fun k hk => ?_⟩
    · unfold HImp.addNode
      simp only [e2, e3, e4, e5, hflh, ↓reduceIte]
      rw [if_neg (by omega)]
      simp only [HImp.wr]
      rw [if_neg (by omega)]
      rfl
    · rfl

/-! ### `remove` -/

/-- Slot of the last entry of `l`, or `prev` if there is none: the `previous` register. -/
def lastOr (prev : Nat) (l : List (Nat × β)) : Nat :=
  match l.getLast? with
  | some e => e.1
  | none => prev

theorem lastOr_nil (prev : Nat) : lastOr prev ([] : List (Nat × β)) = prev := rfl

theorem lastOr_cons (prev : Nat) (e : Nat × β) (l : List (Nat × β)) :
    lastOr prev (e :: l) = lastOr e.1 l := by
  cases l with
  | nil => simp [lastOr]
  | cons e' l =>
    unfold lastOr
    rw [List.getLast?_cons_cons]
    cases hq : (e' :: l).getLast? with
    | none => simp at hq
    | some x => rfl

theorem lastOr_concat (prev : Nat) (l : List (Nat × β)) (e : Nat × β) :
    lastOr prev (l ++ [e]) = e.1 := by
  simp [lastOr]

theorem chainRemove_decomp {v : β} {ch ch' : List (Nat × β)} {i : Nat}
    (h : HSet.chainRemove v ch = some (i, ch')) :
    ∃ pre rest, ch = pre ++ (i, v) :: rest ∧ ch' = pre ++ rest ∧ ∀ e ∈ pre, e.2 ≠ v := by
  induction ch generalizing ch' with
  | nil => simp [HSet.chainRemove] at h
  | cons e rest ih =>
    unfold HSet.chainRemove at h
    split at h
    · rename_i he
      cases h
      obtain ⟨a, b⟩ := e
      simp only at he; subst he
      exact ⟨[], rest, rfl, rfl, by simp⟩
    · rename_i hne
      split at h
      · rename_i j r' hr
        cases h
        obtain ⟨pre, rest', h1, h2, h3⟩ := ih hr
        refine ⟨e :: pre, rest', by rw [h1]; rfl, by rw [h2]; rfl, ?_⟩
        intro x hx
        rcases List.mem_cons.1 hx with rfl | hx
        · exact hne
        · exact h3 x hx
      · cases h

theorem removeScan_notfound (vd : β) (s : HSet β) (h : s.LayoutOk) (v : β) (b : Nat) :
    ∀ suf pre : List (Nat × β), pre ++ suf ∈ s.chains → (∀ e ∈ suf, e.2 ≠ v) → ∀ fuel prev,
      HImp.removeScan (HImp.dflt vd) (s.image vd) v b fuel (HSet.headOf suf) prev =
        (s.image vd, false) := by
  intro suf
  induction suf with
  | nil =>
    intro _ _ _ fuel prev
    cases fuel <;> simp [HImp.removeScan, HSet.headOf]
  | cons e suf ih =>
    intro pre hm hne fuel prev
    cases fuel with
    | zero => rfl
    | succ f =>
      obtain ⟨h0, hrd⟩ := rd_live vd s h hm
      have hih := ih (pre ++ [e]) (by simpa using hm) (fun x hx => hne x (List.mem_cons_of_mem _ hx))
        f e.1
      show HImp.removeScan _ _ v b (f + 1) e.1 prev = _
      unfold HImp.removeScan
      rw [if_neg h0]
      simp only [hrd]
      rw [if_neg (hne e (by simp))]
      exact hih

theorem removeScan_found (vd : β) (s : HSet β) (h : s.LayoutOk) (v : β) (b i : Nat)
    (rest : List (Nat × β)) :
    ∀ mid pre : List (Nat × β), pre ++ (mid ++ (i, v) :: rest) ∈ s.chains → (∀ e ∈ mid, e.2 ≠ v) →
      ∀ fuel prev, mid.length + 1 ≤ fuel →
      HImp.removeScan (HImp.dflt vd) (s.image vd) v b fuel (HSet.headOf (mid ++ (i, v) :: rest)) prev =
        (HImp.removeNode (HImp.dflt vd)
          (if lastOr prev mid = 0 then
            HImp.wrB (s.image vd) b fun r => { r with bucket := HSet.headOf rest }
           else HImp.wr (s.image vd) (lastOr prev mid) fun r => { r with next := HSet.headOf rest }) i,
         true) := by
  intro mid
  induction mid with
  | nil =>
    intro pre hm _ fuel prev hf
    obtain ⟨f, rfl⟩ : ∃ f, fuel = f + 1 := ⟨fuel - 1, by simp at hf; omega⟩
    obtain ⟨h0, hrd⟩ := rd_live vd s h hm
    show HImp.removeScan _ _ v b (f + 1) i prev = _
    unfold HImp.removeScan
    simp only at h0 hrd
    rw [if_neg h0]
    simp only [hrd, lastOr_nil, if_true]
    rfl
  | cons e mid ih =>
    intro pre hm hne fuel prev hf
    simp only [List.length_cons] at hf
    obtain ⟨f, rfl⟩ : ∃ f, fuel = f + 1 := ⟨fuel - 1, by omega⟩
    have hm' : pre ++ e :: (mid ++ (i, v) :: rest) ∈ s.chains := by simpa using hm
    obtain ⟨h0, hrd⟩ := rd_live vd s h hm'
    have hih := ih (pre ++ [e]) (by simpa using hm) (fun x hx => hne x (List.mem_cons_of_mem _ hx))
      f e.1 (by omega)
    show HImp.removeScan _ _ v b (f + 1) e.1 prev = _
    unfold HImp.removeScan
    rw [if_neg h0]
    simp only [hrd]
    rw [if_neg (hne e (by simp)), lastOr_cons]
    exact hih

/-- Dropping an entry from a chain only changes the lookups of that entry and of its predecessor. -/
theorem chainNext_drop (pre : List (Nat × β)) (x : Nat × β) (rest : List (Nat × β)) {k : Nat}
    (hk : k ≠ x.1) (hl : k ≠ lastOr 0 pre) :
    chainNext (pre ++ rest) k = chainNext (pre ++ x :: rest) k := by
  induction pre with
  | nil => exact (chainNext_cons_ne hk).symm
  | cons p pre ih =>
    rw [lastOr_cons] at hl
    cases pre with
    | nil =>
      have hp : k ≠ p.1 := hl
      simp only [List.cons_append, List.nil_append]
      rw [chainNext_cons_ne hp, chainNext_cons_ne hp, chainNext_cons_ne hk]
    | cons p' pre =>
      by_cases hp : k = p.1
      · simp [chainNext, hp]
      · simp only [List.cons_append] at ih ⊢
        rw [chainNext_cons_ne hp, chainNext_cons_ne hp]
        apply ih
        rw [lastOr_cons] at hl ⊢
        exact hl

/-- Records of the state after unlinking `(i, v)` from chain `b` and pushing `i` on the free list. -/
theorem recAt_remove (vd : β) (s s' : HSet β) {b i : Nat} {v : β} {pre rest : List (Nat × β)}
    (hok : s.LayoutOk) (hch : s.chains[b]? = some (pre ++ (i, v) :: rest))
    (hc' : s'.chains = s.chains.set b (pre ++ rest))
    (hf' : s'.free = i :: s.free) (hs' : s'.seq = s.seq)
    (hnd' : s'.liveSlots.Nodup) (hni' : i ∉ s'.liveSlots) (j : Nat) :
    s'.recAt vd j =
      ⟨if lastOr 0 pre = 0 ∧ j = b then HSet.headOf rest else (s.recAt vd j).bucket,
       if j + 1 = i then s.flhReg
         else if j + 1 = lastOr 0 pre then HSet.headOf rest else (s.recAt vd j).next,
       if j + 1 = i then vd else (s.recAt vd j).val⟩ := by
  have hb : b < s.chains.length := (List.getElem?_eq_some_iff.1 hch).1
  have hnd := (List.nodup_append.1 hok.nodup).1
  have hmem := List.mem_of_getElem? hch
  have hmem' : pre ++ rest ∈ s'.chains := by
    rw [hc']; exact List.mem_of_getElem? (i := b) (by rw [List.getElem?_set]; simp [hb])
  have hg : s.chains.getD b [] = pre ++ (i, v) :: rest := by
    rw [List.getD_eq_getElem?_getD, hch]; rfl
  have hP : (pre = [] ∧ lastOr 0 pre = 0) ∨
      (∃ L q, pre = L ++ [q] ∧ lastOr 0 pre = q.1 ∧ q.1 ≠ 0) := by
    rcases List.eq_nil_or_concat pre with rfl | ⟨L, q, rfl⟩
    · exact .inl ⟨rfl, rfl⟩
    · right
      refine ⟨L, q, by simp, by simp [lastOr_concat], ?_⟩
      have hm2 : L ++ q :: ((i, v) :: rest) ∈ s.chains := by simpa using hmem
      exact (rd_live vd s hok hm2).1
  generalize lastOr 0 pre = P at hP
  rw [recAt_eq vd s', recAt_eq vd s, hc', headOf_set_getD hb]
  -- the `next` / `val` registers
  have hslot : slotReg vd s' (j + 1) =
      (if j + 1 = i then s.flhReg
         else if j + 1 = P then HSet.headOf rest else (slotReg vd s (j + 1)).1,
       if j + 1 = i then vd else (slotReg vd s (j + 1)).2) := by
    by_cases hji : j + 1 = i
    · rw [if_pos hji, if_pos hji]
      unfold slotReg
      rw [hji, chainsNext_none hni', hs', hf', freeNext_head, HSet.flhReg_eq]
    · rw [if_neg hji, if_neg hji]
      by_cases hjp : j + 1 = P
      · rw [if_pos hjp]
        rcases hP with ⟨_, hP0⟩ | ⟨L, q, rfl, hPq, _⟩
        · omega
        · have hm2 : L ++ q :: ((i, v) :: rest) ∈ s.chains := by simpa using hmem
          have hm2' : L ++ q :: rest ∈ s'.chains := by simpa using hmem'
          have c1 := chainsNext_mem hnd hm2
          have c2 := chainsNext_mem hnd' hm2'
          unfold slotReg
          rw [hjp, hPq, c1, c2]
      · rw [if_neg hjp]
        have hl : j + 1 ≠ lastOr 0 pre := by
          rcases hP with ⟨rfl, _⟩ | ⟨L, q, rfl, hPq, _⟩
          · rw [lastOr_nil]; omega
          · rw [lastOr_concat]; omega
        have h1 : chainsNext s'.chains (j + 1) = chainsNext s.chains (j + 1) := by
          rw [hc']
          exact chainsNext_set_congr hch (chainNext_drop pre (i, v) rest hji hl)
        unfold slotReg
        rw [h1, hs', hf', freeNext_cons_ne' hji]
  rw [hslot]
  -- the `bucket` register
  have hbucket : (if j = b then HSet.headOf (pre ++ rest) else HSet.headOf (s.chains.getD j [])) =
      (if P = 0 ∧ j = b then HSet.headOf rest else HSet.headOf (s.chains.getD j [])) := by
    by_cases hj : j = b
    · subst hj
      rw [if_pos rfl, hg]
      rcases hP with ⟨rfl, hP0⟩ | ⟨L, q, rfl, hPq, hq0⟩
      · rw [if_pos ⟨hP0, rfl⟩]; rfl
      · rw [if_neg (fun hh => hq0 (hPq ▸ hh.1))]
        cases L <;> rfl
    · rw [if_neg hj, if_neg (fun hh => hj hh.2)]
  rw [hbucket]

end HImpEq

theorem HImp.contains_eq (hash : β → Nat) (vd : β) (s : HSet β) (h : s.Inv hash) (v : β) :
    s.contains hash v = .ok (HImp.contains hash (HImp.dflt vd) (s.image vd) v) := by
  unfold HSet.contains HImp.contains
  have e4 : (s.image vd).hdr.size = s.size := rfl
  rw [e4]
  by_cases h0 : s.size = 0
  · rw [if_pos h0, if_pos h0]
  · rw [if_neg h0, if_neg h0]
    have hc : s.cap ≠ 0 := by have := h.size_le_cap; omega
    rw [if_neg hc]
    obtain ⟨ch, hch⟩ := h.getElem?_bucket hc v
    rw [hch]
    simp only
    have hb : HImp.bucketIndex hash (s.image vd) v = s.bucket hash v := rfl
    rw [hb, HImpEq.rdB_bucket vd s hch, HSet.image_recs_length]
    have hm := List.mem_of_getElem? hch
    rw [HImpEq.scan_image vd s h.layoutOk v ch [] (by simpa using hm) _
      (by have := HImpEq.chain_length_le s h.layoutOk hm; omega)]

theorem HImp.insert_eq (hash : β → Nat) (vd : β) (s s' : HSet β) (h : s.Inv hash) (v : β) (r : Bool)
    (hi : s.insert hash v = .ok (s', r)) :
    HImp.insert hash (HImp.dflt vd) (s.image vd) v = (s'.image vd, r) := by
  have hle := h.size_le_cap
  have hcl := h.cap_le
  have e4 : (s.image vd).hdr.size = s.size := rfl
  have e5 : (s.image vd).hdr.cap = s.cap := rfl
  unfold HImp.insert
  rw [e4, e5]
  by_cases hfull : s.size = s.cap
  · unfold HSet.insert at hi
    rw [if_pos hfull] at hi ⊢
    cases hi
    rfl
  · rw [if_neg hfull]
    have hc : s.cap ≠ 0 := by omega
    obtain ⟨ch, hch⟩ := h.getElem?_bucket hc v
    have hb : HImp.bucketIndex hash (s.image vd) v = s.bucket hash v := rfl
    have hm := List.mem_of_getElem? hch
    have hblt : s.bucket hash v < s.chains.length := (List.getElem?_eq_some_iff.1 hch).1
    simp only [hb, HImpEq.rdB_bucket vd s hch, HSet.image_recs_length]
    rw [HImpEq.scan_image vd s h.layoutOk v ch [] (by simpa using hm) _
      (by have := HImpEq.chain_length_le s h.layoutOk hm; omega)]
    have hspec := HSet.insert_spec h v
    unfold HSet.insert at hi hspec
    rw [if_neg hfull, if_neg hc] at hi hspec
    simp only [hch] at hi hspec
    by_cases hhas : HSet.chainHas ch v = true
    · rw [if_pos hhas] at hi ⊢
      cases hi
      rfl
    · rw [if_neg hhas] at hi hspec ⊢
      obtain ⟨s1, i, ha, hch1, hcap1, hsz1, hnd1, hr1, hc1, hsl1⟩ := h.alloc_ok (by omega)
      rw [ha] at hi hspec
      simp only at hi hspec
      cases hi
      have hinv' : HSet.Inv hash { s1 with chains := s1.chains.set (s.bucket hash v) ((i, v) :: ch) } := by
        rcases hspec with ⟨_, he⟩ | ⟨_, _, s'', he, hinv, _⟩
        · simp at he
        · cases he; exact hinv
      obtain ⟨hadd, hfree⟩ := HImpEq.addNode_image hash vd s h (by omega) v ha
      rw [hadd]
      simp only
      have hi1 := hr1 i (by simp)
      have hi0 : i ≠ 0 := by omega
      have hislots : i ≤ s.slots := by omega
      congr 1
      apply HImpEq.image_ext
      · simp only [HImp.wr, HImp.wrB, if_neg hi0]
        rfl
      · simp only [HImp.wr, HImp.wrB, if_neg hi0, List.length_modify, HSet.image_recs_length]
        show s.slots = (s1.chains.set _ _).length
        rw [List.length_set, hch1]; rfl
      · intro j hj
        have hj' : j < s.slots := by
          have : (s1.chains.set (s.bucket hash v) ((i, v) :: ch)).length = s.slots := by
            rw [List.length_set, hch1]; rfl
          exact this ▸ hj
        rw [HImpEq.recAt_insert (i := i) (v := v) vd s _ hch (by simp only [hch1])
          (List.nodup_append.1 hinv'.nodup).1 hfree j]
        simp only [HImp.wr, HImp.wrB, if_neg hi0, HImpEq.modify_getElem?,
          HSet.image_recs_getElem? vd s hj']
        generalize HSet.recAt vd s j = rc
        have e1 : (i - 1 = j) = (j + 1 = i) := propext ⟨fun _ => by omega, fun _ => by omega⟩
        have e2 : (s.bucket hash v = j) = (j = s.bucket hash v) := propext ⟨Eq.symm, Eq.symm⟩
        simp only [e1, e2]
        by_cases hjb : j = s.bucket hash v <;> by_cases hji : j + 1 = i
        · simp only [if_pos hjb, if_pos hji, Option.map_some]
        · simp only [if_pos hjb, if_neg hji, Option.map_some]
        · simp only [if_neg hjb, if_pos hji, Option.map_some]
        · simp only [if_neg hjb, if_neg hji]

theorem HImp.remove_eq (hash : β → Nat) (vd : β) (s s' : HSet β) (h : s.Inv hash) (v : β) (r : Bool)
    (hr : s.remove hash v = .ok (s', r)) :
    HImp.remove hash (HImp.dflt vd) (s.image vd) v = (s'.image vd, r) := by
  have hle := h.size_le_cap
  have hcl := h.cap_le
  have hok := h.layoutOk
  have e4 : (s.image vd).hdr.size = s.size := rfl
  unfold HImp.remove
  rw [e4]
  have hspec := HSet.remove_spec h v
  unfold HSet.remove at hr hspec
  by_cases h0 : s.size = 0
  · rw [if_pos h0] at hr ⊢
    cases hr
    rfl
  · rw [if_neg h0] at hr hspec ⊢
    have hc : s.cap ≠ 0 := by omega
    rw [if_neg hc] at hr hspec
    obtain ⟨ch, hch⟩ := h.getElem?_bucket hc v
    have hb : HImp.bucketIndex hash (s.image vd) v = s.bucket hash v := rfl
    have hm := List.mem_of_getElem? hch
    have hblt : s.bucket hash v < s.chains.length := (List.getElem?_eq_some_iff.1 hch).1
    simp only [hch] at hr hspec
    simp only [hb, HImpEq.rdB_bucket vd s hch, HSet.image_recs_length]
    cases hcr : HSet.chainRemove v ch with
    | none =>
      rw [hcr] at hr
      simp only at hr
      cases hr
      have hnv := HSet.chainRemove_none hcr
      exact HImpEq.removeScan_notfound vd s hok v _ ch [] (by simpa using hm)
        (fun e he hev => hnv (List.mem_map.2 ⟨e, he, hev⟩)) _ _
    | some p =>
      obtain ⟨i, ch'⟩ := p
      rw [hcr] at hr hspec
      simp only at hr hspec
      cases hr
      have hinv' : HSet.Inv hash ⟨s.chains.set (s.bucket hash v) ch', s.size - 1, s.cap,
          i :: s.free, s.seq⟩ := by
        rcases hspec with ⟨_, he⟩ | ⟨_, s'', he, hinv, _⟩
        · simp at he
        · cases he; exact hinv
      obtain ⟨pre, rest, rfl, rfl, hpre⟩ := HImpEq.chainRemove_decomp hcr
      have hlen := HImpEq.chain_length_le s hok hm
      rw [HImpEq.removeScan_found vd s hok v _ i rest pre [] (by simpa using hm) hpre _ 0
        (by simp only [List.length_append, List.length_cons] at hlen; omega)]
      have hnd' := List.nodup_append.1 hinv'.nodup
      have hi0 : i ≠ 0 := (HImpEq.rd_live vd s hok hm).1
      congr 1
      apply HImpEq.image_ext
      · unfold HImp.removeNode
        split <;> simp only [HImp.wr, HImp.wrB, if_neg hi0] <;> (try split) <;>
          simp [HSet.hdr, HSet.flhReg, HSet.image]
      · have : (s.chains.set (s.bucket hash v) (pre ++ rest)).length = s.slots := by
          rw [List.length_set]; rfl
        show _ = (s.chains.set (s.bucket hash v) (pre ++ rest)).length
        rw [this]
        unfold HImp.removeNode
        split <;> simp only [HImp.wr, HImp.wrB, if_neg hi0] <;> (try split) <;>
          simp [HSet.image_recs_length]
      · intro j hj
        have hj' : j < s.slots := by
          have : (s.chains.set (s.bucket hash v) (pre ++ rest)).length = s.slots := by
            rw [List.length_set]; rfl
          exact this ▸ hj
        rw [HImpEq.recAt_remove vd s
          ⟨s.chains.set (s.bucket hash v) (pre ++ rest), s.size - 1, s.cap, i :: s.free, s.seq⟩
          hok hch rfl rfl rfl hnd'.1 (fun hmm => hnd'.2.2 _ hmm _ (by simp) rfl) j]
        generalize HImpEq.lastOr 0 pre = P
        have e3 : (s.image vd).hdr.flh = s.flhReg := rfl
        have e1 : (i - 1 = j) = (j + 1 = i) := propext ⟨fun _ => by omega, fun _ => by omega⟩
        have e2 : (s.bucket hash v = j) = (j = s.bucket hash v) := propext ⟨Eq.symm, Eq.symm⟩
        by_cases hP : P = 0
        · rw [if_pos hP]
          have e6 : ¬ (j + 1 = 0) := by omega
          simp only [HImp.removeNode, HImp.wr, HImp.wrB, if_neg hi0, HImpEq.modify_getElem?,
            HSet.image_recs_getElem? vd s hj', e3, e1, e2, hP, true_and, if_neg e6]
          generalize HSet.recAt vd s j = rc
          have e8 : (HImp.dflt vd).val = vd := rfl
          rw [e8]
          by_cases hjb : j = s.bucket hash v <;> by_cases hji : j + 1 = i
          · simp only [if_pos hjb, if_pos hji, Option.map_some]
          · simp only [if_pos hjb, if_neg hji, Option.map_some]
          · simp only [if_neg hjb, if_pos hji, Option.map_some]
          · simp only [if_neg hjb, if_neg hji]
        · rw [if_neg hP]
          have e7 : (P - 1 = j) = (j + 1 = P) := propext ⟨fun _ => by omega, fun _ => by omega⟩
          simp only [HImp.removeNode, HImp.wr, if_neg hi0, HImpEq.modify_getElem?,
            HSet.image_recs_getElem? vd s hj', e3, e1, e7, hP, false_and, if_false]
          generalize HSet.recAt vd s j = rc
          have e8 : (HImp.dflt vd).val = vd := rfl
          rw [e8]
          by_cases hjp : j + 1 = P <;> by_cases hji : j + 1 = i
          · simp only [if_pos hjp, if_pos hji, Option.map_some]
          · simp only [if_pos hjp, if_neg hji, Option.map_some]
          · simp only [if_neg hjp, if_pos hji, Option.map_some]
          · simp only [if_neg hjp, if_neg hji]

/-- The iterator of the read-only view walks exactly the model's `iter`. -/
theorem HImp.iter_eq (hash : β → Nat) (vd : β) (s : HSet β) (h : s.Inv hash) :
    HImp.iter (HImp.dflt vd) (s.image vd) = s.iter := by
  unfold HImp.iter HSet.iter
  have e5 : (s.image vd).hdr.cap = s.cap := rfl
  rw [e5, HSet.image_recs_length]
  have hcl := h.cap_le
  have htake : s.chains.take s.cap = (List.range s.cap).map (fun b => s.chains.getD b []) := by
    apply List.ext_getElem?
    intro j
    rw [List.getElem?_take, List.getElem?_map]
    by_cases hj : j < s.cap
    · rw [if_pos hj, List.getElem?_range hj]
      have : j < s.chains.length := by unfold HSet.slots at hcl; omega
      simp [List.getD_eq_getElem?_getD, List.getElem?_eq_getElem this]
    · rw [if_neg hj, List.getElem?_eq_none (by simpa using hj)]
      rfl
  rw [htake, List.flatMap_map, List.map_flatMap]
  apply HImpEq.flatMap_congr'
  intro b hb
  have hb' : b < s.cap := List.mem_range.1 hb
  have hlt : b < s.chains.length := by unfold HSet.slots at hcl; omega
  have hch : s.chains[b]? = some (s.chains.getD b []) := by
    simp [List.getD_eq_getElem?_getD, List.getElem?_eq_getElem hlt]
  have hm := List.mem_of_getElem? hch
  rw [HImpEq.rdB_bucket vd s hch]
  simp only [id]
  exact HImpEq.chainVals_image vd s h.layoutOk _ [] (by simpa using hm) _
    (by have := HImpEq.chain_length_le s h.layoutOk hm; omega)

end Stevia
