/-
  Stevia.Proofs.HashSetImpEq — the literal register-level transcription of hash_set.rs
  (`Stevia.Model.HashSetImp`) computes, on the layout of every well-formed state, exactly the layout of
  what the functional model computes, with the same result — for every hash function.
-/
import Stevia.Model.HashSetImp
import Stevia.Proofs.HashSetState

namespace Stevia
variable {β : Type} [DecidableEq β]

def HImp.dflt (vd : β) : HRec β := ⟨0, 0, vd⟩

theorem HImp.contains_eq (hash : β → Nat) (vd : β) (s : HSet β) (h : s.Inv hash) (v : β) :
    s.contains hash v = .ok (HImp.contains hash (HImp.dflt vd) (s.image vd) v) := by
  sorry

theorem HImp.insert_eq (hash : β → Nat) (vd : β) (s s' : HSet β) (h : s.Inv hash) (v : β) (r : Bool)
    (hi : s.insert hash v = .ok (s', r)) :
    HImp.insert hash (HImp.dflt vd) (s.image vd) v = (s'.image vd, r) := by
  sorry

theorem HImp.remove_eq (hash : β → Nat) (vd : β) (s s' : HSet β) (h : s.Inv hash) (v : β) (r : Bool)
    (hr : s.remove hash v = .ok (s', r)) :
    HImp.remove hash (HImp.dflt vd) (s.image vd) v = (s'.image vd, r) := by
  sorry

/-- The iterator of the read-only view walks exactly the model's `iter`. -/
theorem HImp.iter_eq (hash : β → Nat) (vd : β) (s : HSet β) (h : s.Inv hash) :
    HImp.iter (HImp.dflt vd) (s.image vd) = s.iter := by
  sorry

end Stevia
