/-
  Stevia.Proofs.GenTreeOps32 — translator output for `avl_tree.rs` (`Stevia.Gen32.*`, regenerated from the source on
  every run) = literal model `Stevia.Imp.*` at the 32-bit configuration: `insert` and `remove` (descent loops, successor splice, path surgery).
  Every statement is an unconditional equality of functions; a source change that alters what one of these
  functions computes makes its proof fail.
-/
import Stevia.Generated.Avl32Ops
import Stevia.Proofs.GenLemmas
import Stevia.Model.TreeImpTerm
import Stevia.Proofs.GenTreeBal32
import Stevia.Proofs.GenTreeAlloc32
import Stevia.Proofs.GenTreeQuery32

namespace Stevia
open Imp
variable {α β : Type} [LinOrd α]
set_option linter.unusedSectionVars false
set_option linter.unusedSimpArgs false

namespace Gen32

/-- `insert`: the translation is the literal `insert` (with the "tree is full" panic of `add` kept as `none`),
    provided the descent `loop` reaches an empty link or the key within the fuel; otherwise it fails. -/
theorem insert_eq (d : Rec α β) (m : TreeImage α β) (key : α) (value : β) :
    insert d m key value = if m.hdr.root = 0 ∨ Imp.insertT d m key (m.recs.length + 1) m.hdr.root = true
      then Imp.insertO cfgU32 d m key value else none := by
  unfold insert Imp.insertO
  simp only [forIn, is_full_eq, add_eq, update_child_eq, rebalance_eq, List.nil_append]
  by_cases hroot : m.hdr.root = 0
  · simp only [hroot, true_or, if_true]
    by_cases hfull : isFull m = true
    · simp only [hfull, if_true]; rfl
    · simp only [hfull, if_false]
      cases hadd : Imp.add cfgU32 d m key value <;> rfl
  · simp only [hroot, false_or, if_false]
    generalize m.recs.length + 1 = fuel
    generalize m.hdr.root = ref
    generalize [((none : Option Nat), (none : Option Bool), ref)] = path
    induction fuel generalizing ref path with
    | zero => rfl
    | succ n ih =>
      simp only [Fuel.forIn, insertDescend, Imp.insertT]
      by_cases h1 : key < (rd d m ref).key
      · by_cases h2 : (rd d m ref).left = 0
        · by_cases hfull : isFull m = true
          · simp only [h1, h2, hfull, if_true, pure_bind]; rfl
          · simp only [h1, h2, hfull, if_true, if_false]
            cases hadd : Imp.add cfgU32 d m key value <;> rfl
        · simp only [h1, h2, if_true, if_false, pure_bind]
          exact ih _ _
      · by_cases h3 : (rd d m ref).key < key
        · by_cases h2 : (rd d m ref).right = 0
          · by_cases hfull : isFull m = true
            · simp only [h1, h3, h2, hfull, if_true, if_false, pure_bind]; rfl
            · simp only [h1, h3, h2, hfull, if_true, if_false]
              cases hadd : Imp.add cfgU32 d m key value <;> rfl
          · simp only [h1, h3, h2, if_true, if_false, pure_bind]
            exact ih _ _
        · simp only [h1, h3, if_false, pure_bind]; rfl

/-- State `(node, path, left by its condition)` of the descent loop of `remove` after `n` iterations. -/
def remDescSt (d : Rec α β) (m : TreeImage α β) (key : α) :
    Nat → Nat × List Ancestor × Bool → Nat × List Ancestor × Bool
  | 0, s => s
  | n + 1, s =>
    if s.1 = 0 then (s.1, s.2.1, true)
    else if key < (rd d m s.1).key then
      remDescSt d m key n ((rd d m s.1).left, s.2.1 ++ [(some s.1, some false, (rd d m s.1).left)], s.2.2)
    else if (rd d m s.1).key < key then
      remDescSt d m key n ((rd d m s.1).right, s.2.1 ++ [(some s.1, some true, (rd d m s.1).right)], s.2.2)
    else (s.1, s.2.1, true)

theorem remDescSt_eq (d : Rec α β) (m : TreeImage α β) (key : α) (n node : Nat) (path : List Ancestor) :
    remDescSt d m key n (node, path, false) =
      ((removeDescend d m key n node path).1, (removeDescend d m key n node path).2, Imp.findT d m key n node) := by
  induction n generalizing node path with
  | zero => rfl
  | succ n ih =>
    simp only [remDescSt, removeDescend, Imp.findT]
    by_cases h0 : node = 0
    · simp only [h0, if_true]
    · by_cases h1 : key < (rd d m node).key
      · simp only [h0, h1, if_true, if_false]; exact ih _ _
      · by_cases h2 : (rd d m node).key < key
        · simp only [h0, h1, h2, if_true, if_false]; exact ih _ _
        · simp only [h0, h1, h2, if_false]

/-- State `(leftmost, its parent, inner path, left by its condition)` of the successor walk of `remove`. -/
def leftSt (d : Rec α β) (m : TreeImage α β) :
    Nat → Nat × Nat × List Ancestor × Bool → Nat × Nat × List Ancestor × Bool
  | 0, s => s
  | n + 1, s =>
    if (rd d m s.1).left = 0 then (s.1, s.2.1, s.2.2.1, true)
    else leftSt d m n ((rd d m s.1).left, s.1, s.2.2.1 ++ [(some s.1, some false, (rd d m s.1).left)], s.2.2.2)

theorem leftSt_eq (d : Rec α β) (m : TreeImage α β) (n lm par : Nat) (inner : List Ancestor) :
    leftSt d m n (lm, par, inner, false) =
      ((leftmostWalk d m n lm par inner).1, (leftmostWalk d m n lm par inner).2.1,
        (leftmostWalk d m n lm par inner).2.2, Imp.leftT d m n lm) := by
  induction n generalizing lm par inner with
  | zero => rfl
  | succ n ih =>
    simp only [leftSt, leftmostWalk, Imp.leftT]
    by_cases h0 : (rd d m lm).left = 0
    · simp only [h0, ne_eq, not_true_eq_false, if_true, if_false]
    · simp only [h0, ne_eq, not_false_eq_true, if_true, if_false]; exact ih _ _ _

/-- `remove`: the translation is the literal `remove`, provided both loops leave by their own conditions within the
    fuel (`Imp.removeTerm`); otherwise it fails. -/
theorem remove_eq (d : Rec α β) (m : TreeImage α β) (key : α) :
    remove d m key = if Imp.removeTerm d m key then some (Imp.remove d m key) else none := by
  unfold remove Imp.remove Imp.removeTerm
  simp only [forIn, update_child_eq, rebalance_eq, List.nil_append]
  by_cases hroot : m.hdr.root = 0
  · simp only [hroot, if_true]; rfl
  · simp only [hroot, if_false]
    rw [Fuel.forIn_eq_of_opt _ (remDescSt d m key) (fun s => rfl)]
    · simp only [Option.bind_eq_bind, Option.bind_some, remDescSt_eq, Imp.removeT]
      by_cases hT : Imp.findT d m key (m.recs.length + 1) m.hdr.root = true
      · simp only [hT, not_true_eq_false, if_false, Bool.true_and]
        generalize removeDescend d m key (m.recs.length + 1) m.hdr.root [(none, none, m.hdr.root)] = r1
        obtain ⟨nodeIndex, path⟩ := r1
        simp only []
        by_cases h0 : nodeIndex = 0
        · simp only [h0, if_true]; rfl
        · simp only [h0, if_false]
          by_cases h2 : (rd d m nodeIndex).left ≠ 0 ∧ (rd d m nodeIndex).right ≠ 0
          · simp only [if_pos h2]
            rw [Fuel.forIn_eq_of_opt _ (leftSt d m) (fun s => rfl)]
            · simp only [Option.bind_some, leftSt_eq]
              by_cases hL : Imp.leftT d m (m.recs.length + 1) (rd d m nodeIndex).right = true
              · simp only [hL, not_true_eq_false, if_false, if_true]
                have hdef : ((none : Option Nat), (none : Option Bool), 0) = (default : Ancestor) := rfl
                have hb : (default : Bool) = false := rfl
                simp only [hdef, hb, remove_node_eq d _ _ h0]
                generalize leftmostWalk d m (m.recs.length + 1) (rd d m nodeIndex).right 0 [] = r2
                obtain ⟨lm, par, inner⟩ := r2
                generalize path.getLast?.getD default = last
                obtain ⟨p, b, c⟩ := last
                generalize (rd d m nodeIndex).left = left at h2 ⊢
                generalize (rd d m nodeIndex).right = right at h2 ⊢
                simp only [if_pos h2]
                by_cases hpar : par ≠ 0 <;> by_cases hrl : right ≠ lm <;> cases p <;>
                  (try simp only [if_pos hpar, if_neg hpar, if_pos hrl, if_neg hrl]) <;>
                  cases inner <;>
                  (try simp only [List.isEmpty_nil, List.isEmpty_cons, not_true_eq_false, not_false_eq_true, if_true, if_false,
                    Bool.false_eq_true, List.dropLast_nil, List.append_nil]) <;>
                  split <;> rename_i hr <;>
                  first
                    | (simp only [if_pos hr]; rfl)
                    | (simp only [if_neg hr]; rfl)
                    | rfl
              · simp only [hL, Bool.false_eq_true, not_false_eq_true, if_true, if_false]
                rfl
            · intro n s
              obtain ⟨lm, par, inner, ex⟩ := s
              simp only [leftSt]
              by_cases hn : (rd d m lm).left = 0
              · simp only [hn, ne_eq, if_true, if_false, not_true_eq_false, not_false_eq_true]; rfl
              · simp only [hn, ne_eq, if_true, if_false, not_true_eq_false, not_false_eq_true]; rfl
          · simp only [h2, if_false, if_true]
            have hdef : ((none : Option Nat), (none : Option Bool), 0) = (default : Ancestor) := rfl
            simp only [hdef, remove_node_eq d _ _ h0]
            -- the only child (or none): written as a three-way choice, or collapsed to `if left ≠ 0 { left } else { right }`
            obtain ⟨child, hc3, hc2, hc1⟩ : ∃ child,
                (if (rd d m nodeIndex).left = 0 ∧ (rd d m nodeIndex).right = 0 then 0
                  else if (rd d m nodeIndex).left ≠ 0 then (rd d m nodeIndex).left else (rd d m nodeIndex).right) = child ∧
                (if (rd d m nodeIndex).left ≠ 0 then (rd d m nodeIndex).left else (rd d m nodeIndex).right) = child ∧
                (if (rd d m nodeIndex).left = 0 ∧ (rd d m nodeIndex).right = 0 then 0 else child) = child := by
              by_cases ha : (rd d m nodeIndex).left = 0 <;> by_cases hb' : (rd d m nodeIndex).right = 0 <;>
                simp [ha, hb']
            simp only [hc3, hc2, hc1]
            generalize path.getLast?.getD default = last
            obtain ⟨p, b, c⟩ := last
            cases p with
            | none =>
              by_cases hr : nodeIndex = m.hdr.root
              · simp only [if_pos hr]; rfl
              · simp only [if_neg hr]; rfl
            | some p =>
              have hb : (default : Bool) = false := rfl
              simp only [hb]
              by_cases hc : child ≠ 0
              · by_cases hr : nodeIndex = (updateChild d m p (b.getD false) child).hdr.root
                · simp only [if_pos hc, if_pos hr]; rfl
                · simp only [if_pos hc, if_neg hr]; rfl
              · by_cases hr : nodeIndex = (updateChild d m p (b.getD false) child).hdr.root
                · simp only [if_neg hc, if_pos hr]; rfl
                · simp only [if_neg hc, if_neg hr]; rfl
      · simp only [hT, Bool.false_eq_true, not_false_eq_true, if_true, Bool.false_and, if_false]
        rfl
    · intro n s
      obtain ⟨node, path, ex⟩ := s
      simp only [remDescSt]
      by_cases hn : node = 0
      · simp only [hn, if_true, ne_eq, not_true_eq_false, not_false_eq_true]; rfl
      · by_cases h1 : key < (rd d m node).key
        · simp only [hn, h1, if_true, if_false, ne_eq, not_true_eq_false, not_false_eq_true]; rfl
        · by_cases h3 : (rd d m node).key < key
          · simp only [hn, h1, h3, if_true, if_false, ne_eq, not_true_eq_false, not_false_eq_true]; rfl
          · simp only [hn, h1, h3, if_true, if_false, ne_eq, not_true_eq_false, not_false_eq_true]; rfl

end Gen32
end Stevia
