/-
  Stevia.Proofs.ExecInv — the executable (Bool) well-formedness checks the driver evaluates on
  every decoded *real* state are exactly the `Prop` invariants the theorems are about, plus
  reachability for the hash set and the array sets and the closed form of the AVL height bound.
-/
import Stevia.Proofs.TreeState
import Stevia.Proofs.HashSetState
import Stevia.Proofs.ArraySetState
import Stevia.Model.ArraySetLayout

namespace Stevia
variable {α β : Type}

/-! ### Trees -/

theorem T.balB_iff (t : T α β) : t.balB = true ↔ t.Bal := by
  sorry

theorem Tree.nodupB_iff (l : List Nat) : Tree.nodupB l = true ↔ l.Nodup := by
  sorry

theorem T.sortedB_iff_bst [LinOrd α] (t : T α β) : T.sortedB t.keys = true ↔ t.Bst := by
  sorry

/-- The driver's three executable checks (`wf-bst`, `wf-bal`, `wf-alloc`) together are the invariant. -/
theorem Tree.inv_iff_exec [LinOrd α] (c : TreeCfg) (s : Tree α β) (hw : c.wrap = true ∨ s.slots < c.W) :
    s.Inv c ↔ (T.sortedB s.root.keys = true ∧ s.root.balB = true ∧ s.allocB c = true) := by
  sorry

/-- Closed form of the height bound: a height-balanced tree of height `h` has at least `2^(h/2) - 1`
    nodes, hence `height ≤ 2·log2(n+1)` (the exact bound is `minNodes`, ≈ 1.44·log2(n+2)). -/
theorem minNodes_ge_pow (h : Nat) : 2 ^ (h / 2) ≤ minNodes h + 1 := by
  sorry

theorem Tree.height_closed_form [LinOrd α] (c : TreeCfg) (s : Tree α β) (h : Tree.Reach c s) :
    2 ^ (s.root.height / 2) ≤ s.size + 1 := by
  sorry

/-! ### Hash set -/

theorem HSet.nodupB_iff (l : List Nat) : HSet.nodupB l = true ↔ l.Nodup := by
  sorry

/-- The driver's executable checks (`wf-alloc`, `wf-placed`) together are the invariant. -/
theorem HSet.inv_iff_exec [DecidableEq β] (hash : β → Nat) (s : HSet β) (hs : s.slots < 4294967295) :
    s.Inv hash ↔ (s.allocB = true ∧ s.placedB hash = true) := by
  sorry

inductive HSetOp (β : Type) where
  | insert (v : β)
  | remove (v : β)

/-- States reachable from `initialize(cap)` on a zero-filled buffer of `slots ≥ cap` records. -/
inductive HSet.Reach [DecidableEq β] (hash : β → Nat) : HSet β → Prop where
  | init (slots cap : Nat) (h1 : cap ≤ slots) (h2 : slots < 4294967295) : HSet.Reach hash (HSet.init slots cap)
  | insert {s s' : HSet β} (v : β) (r : Bool) (hr : HSet.Reach hash s) (hs : s.insert hash v = .ok (s', r)) :
      HSet.Reach hash s'
  | remove {s s' : HSet β} (v : β) (r : Bool) (hr : HSet.Reach hash s) (hs : s.remove hash v = .ok (s', r)) :
      HSet.Reach hash s'

theorem HSet.reach_inv [DecidableEq β] {hash : β → Nat} {s : HSet β} (h : HSet.Reach hash s) : s.Inv hash := by
  sorry

/-! ### Array sets -/

/-- The driver's executable check (`wf-sorted`) is the invariant. -/
theorem ASet.inv_iff_exec (f : AFmt) (s : ASet Nat) :
    s.Inv f.keyOf f.prefixMax ↔ s.wfB f = true := by
  sorry

/-- States reachable from a zero-filled buffer by insert / take / order-preserving update / growth. -/
inductive ASet.Reach {κ : Type} [LinOrd κ] (key : α → κ) (P : Nat) (d : α) : ASet α → Prop where
  | zero (n : Nat) : ASet.Reach key P d { len := 0, vals := List.replicate n d }
  | insert {s s' : ASet α} (x : α) (r : Bool) (hr : ASet.Reach key P d s) (hs : s.insert key P x = .ok (s', r)) :
      ASet.Reach key P d s'
  | take {s s' : ASet α} (k : κ) (r : Option α) (hr : ASet.Reach key P d s) (hs : s.take key k = .ok (s', r)) :
      ASet.Reach key P d s'
  | update {s s' : ASet α} (k : κ) (y : α) (hk : sameK (key y) k) (hr : ASet.Reach key P d s)
      (hs : s.update key k y = .ok (s', true)) : ASet.Reach key P d s'
  | extend {s : ASet α} (n : Nat) (hr : ASet.Reach key P d s) : ASet.Reach key P d (s.extend d n)

theorem ASet.reach_inv {κ : Type} [LinOrd κ] {key : α → κ} {P : Nat} {d : α} {s : ASet α}
    (h : ASet.Reach key P d s) : s.Inv key P := by
  sorry

end Stevia
