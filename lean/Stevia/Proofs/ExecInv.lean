/-
  Stevia.Proofs.ExecInv — the executable (Bool) well-formedness checks the driver evaluates on
  every decoded *real* state are exactly the `Prop` invariants the theorems are about, plus
  reachability for the hash set and the array sets and the closed form of the AVL height bound.
-/
import Stevia.Proofs.TreeState
import Stevia.Proofs.HashSetState
import Stevia.Proofs.ArraySetState
import Stevia.Model.ArraySetLayout

namespace Stevia
variable {α β : Type}

/-! ### Trees -/

theorem T.balB_iff (t : T α β) : t.balB = true ↔ t.Bal := by
  induction t with
  | nil => simp [T.balB, T.Bal]
  | node i l k v h r ihl ihr =>
    simp only [T.balB, T.Bal, Bool.and_eq_true, decide_eq_true_eq, ihl, ihr]
    constructor
    · rintro ⟨⟨⟨⟨a, b⟩, c⟩, d⟩, e⟩; exact ⟨a, b, c, d, e⟩
    · rintro ⟨a, b, c, d, e⟩; exact ⟨⟨⟨⟨a, b⟩, c⟩, d⟩, e⟩

theorem Tree.nodupB_iff (l : List Nat) : Tree.nodupB l = true ↔ l.Nodup := by
  induction l with
  | nil => simp [Tree.nodupB]
  | cons a rest ih => simp [Tree.nodupB, ih]

theorem T.sortedB_iff_keys [LinOrd α] (l : List (Entry α β)) :
    T.sortedB (l.map (·.2.1)) = true ↔ SortedE l := by
  induction l with
  | nil => simp [T.sortedB, SortedE]
  | cons a rest ih =>
    cases rest with
    | nil => simp [T.sortedB, SortedE]
    | cons b rest =>
      simp only [List.map_cons, T.sortedB, Bool.and_eq_true, decide_eq_true_eq] at ih ⊢
      rw [ih]
      simp only [SortedE, List.mem_cons, forall_eq_or_imp]
      constructor
      · rintro ⟨h1, h2, h3⟩
        exact ⟨⟨h1, fun e he => LinOrd.trans h1 (h2 e he)⟩, h2, h3⟩
      · rintro ⟨⟨h1, _⟩, h2, h3⟩
        exact ⟨h1, h2, h3⟩

theorem T.sortedB_iff_bst [LinOrd α] (t : T α β) : T.sortedB t.keys = true ↔ t.Bst := by
  rw [T.bst_iff_sorted, T.keys, T.sortedB_iff_keys]

/-- The driver's three executable checks (`wf-bst`, `wf-bal`, `wf-alloc`) together are the invariant. -/
theorem Tree.inv_iff_exec [LinOrd α] (c : TreeCfg) (s : Tree α β) (hw : c.wrap = true ∨ s.slots < c.W) :
    s.Inv c ↔ (T.sortedB s.root.keys = true ∧ s.root.balB = true ∧ s.allocB c = true) := by
  rw [T.sortedB_iff_bst, T.balB_iff]
  simp only [Tree.allocB, Bool.and_eq_true, decide_eq_true_eq, List.all_eq_true, Tree.nodupB_iff]
  constructor
  · intro h
    exact ⟨h.bst, h.bal, ⟨⟨⟨⟨⟨⟨h.nodup, h.range⟩, h.count⟩, h.seq_le⟩, h.cap_le⟩, h.slots_le⟩, h.size_eq⟩⟩
  · rintro ⟨h1, h2, ⟨⟨⟨⟨⟨⟨h3, h4⟩, h5⟩, h6⟩, h7⟩, h8⟩, h9⟩⟩
    exact ⟨h1, h2, h9, h3, h4, h5, h6, h7, h8, hw⟩

/-- Closed form of the height bound: a height-balanced tree of height `h` has at least `2^(h/2) - 1`
    nodes, hence `height ≤ 2·log2(n+1)` (the exact bound is `minNodes`, ≈ 1.44·log2(n+2)). -/
theorem minNodes_ge_pow (h : Nat) : 2 ^ (h / 2) ≤ minNodes h + 1 := by
  induction h using Nat.strongRecOn with
  | _ h ih =>
    match h with
    | 0 => simp [minNodes]
    | 1 => simp [minNodes]
    | h + 2 =>
      have e : (h + 2) / 2 = h / 2 + 1 := by omega
      have := ih h (by omega)
      have := T.minNodes_mono h
      rw [e, Nat.pow_succ]
      simp only [minNodes]
      omega

theorem Tree.height_closed_form [LinOrd α] (c : TreeCfg) (s : Tree α β) (h : Tree.Reach c s) :
    2 ^ (s.root.height / 2) ≤ s.size + 1 := by
  have hi := Tree.reach_inv h
  have h1 := T.minNodes_le_size hi.bal
  have h2 := minNodes_ge_pow s.root.height
  rw [T.ht_eq_height hi.bal] at h1
  rw [hi.size_eq]
  omega

/-! ### Hash set -/

theorem HSet.nodupB_iff (l : List Nat) : HSet.nodupB l = true ↔ l.Nodup := by
  induction l with
  | nil => simp [HSet.nodupB]
  | cons a rest ih => simp [HSet.nodupB, ih]

theorem HSet.nodup_iff_prefix (ms : List β) :
    ms.Nodup ↔ ∀ j v, ms[j]? = some v → v ∉ ms.take j := by
  induction ms with
  | nil => simp
  | cons a rest ih =>
    rw [List.nodup_cons, ih]
    constructor
    · rintro ⟨h1, h2⟩ j v hv
      cases j with
      | zero => simp
      | succ j =>
        simp only [List.getElem?_cons_succ] at hv
        simp only [List.take_succ_cons, List.mem_cons, not_or]
        exact ⟨fun e => h1 (e ▸ List.mem_of_getElem? hv), h2 j v hv⟩
    · intro h
      refine ⟨fun ha => ?_, fun j v hv => ?_⟩
      · obtain ⟨j, hj⟩ := List.getElem?_of_mem ha
        have := h (j + 1) a (by simpa using hj)
        simp at this
      · have := h (j + 1) v (by simpa using hv)
        simp only [List.take_succ_cons, List.mem_cons, not_or] at this
        exact this.2

theorem HSet.prefixFree_iff [DecidableEq β] (ms : List β) :
    (ms.zipIdx.all fun (v, j) => !(ms.take j).contains v) = true ↔ ms.Nodup := by
  rw [HSet.nodup_iff_prefix]
  simp [List.all_eq_true, List.mem_zipIdx_iff_getElem?, Prod.forall]
  constructor
  · intro h j v hv; exact h v j hv
  · intro h v j hv; exact h j v hv

theorem HSet.placedB_iff [DecidableEq β] (hash : β → Nat) (s : HSet β) :
    s.placedB hash = true ↔
      (∀ b (ch : List (Nat × β)), s.chains[b]? = some ch → ∀ e ∈ ch, b < s.cap ∧ s.bucket hash e.2 = b) ∧
        s.members.Nodup := by
  unfold HSet.placedB
  rw [Bool.and_eq_true]
  show _ ∧ ((s.members.zipIdx.all fun (v, j) => !(s.members.take j).contains v) = true) ↔ _
  rw [HSet.prefixFree_iff]
  simp only [Bool.and_eq_true, decide_eq_true_eq, List.all_eq_true, List.mem_zipIdx_iff_getElem?, Prod.forall]
  constructor
  · rintro ⟨hp, hn⟩; exact ⟨fun b ch hb e he => hp ch b hb e he, hn⟩
  · rintro ⟨hp, hn⟩; exact ⟨fun ch b hb e he => hp b ch hb e he, hn⟩

/-- The driver's executable checks (`wf-alloc`, `wf-placed`) together are the invariant. -/
theorem HSet.inv_iff_exec [DecidableEq β] (hash : β → Nat) (s : HSet β) (hs : s.slots < 4294967295) :
    s.Inv hash ↔ (s.allocB = true ∧ s.placedB hash = true) := by
  rw [HSet.placedB_iff]
  simp only [HSet.allocB, Bool.and_eq_true, HSet.nodupB_iff, decide_eq_true_eq, List.all_eq_true]
  constructor
  · intro h
    exact ⟨⟨⟨⟨⟨⟨h.nodup, h.range⟩, h.count⟩, h.seq_le⟩, h.cap_le⟩, h.size_eq⟩, h.placed, h.nodupVals⟩
  · rintro ⟨⟨⟨⟨⟨⟨h3, h4⟩, h5⟩, h6⟩, h7⟩, h8⟩, hp, hn⟩
    exact ⟨hp, hn, h8, h3, h4, h5, h6, h7, hs⟩

inductive HSetOp (β : Type) where
  | insert (v : β)
  | remove (v : β)

/-- States reachable from `initialize(cap)` on a zero-filled buffer of `slots ≥ cap` records. -/
inductive HSet.Reach [DecidableEq β] (hash : β → Nat) : HSet β → Prop where
  | init (slots cap : Nat) (h1 : cap ≤ slots) (h2 : slots < 4294967295) : HSet.Reach hash (HSet.init slots cap)
  | insert {s s' : HSet β} (v : β) (r : Bool) (hr : HSet.Reach hash s) (hs : s.insert hash v = .ok (s', r)) :
      HSet.Reach hash s'
  | remove {s s' : HSet β} (v : β) (r : Bool) (hr : HSet.Reach hash s) (hs : s.remove hash v = .ok (s', r)) :
      HSet.Reach hash s'

theorem HSet.reach_inv [DecidableEq β] {hash : β → Nat} {s : HSet β} (h : HSet.Reach hash s) : s.Inv hash := by
  induction h with
  | init slots cap h1 h2 => exact HSet.inv_init hash slots cap h1 h2
  | insert v r hr hs ih =>
    rcases HSet.insert_spec ih v with ⟨_, he⟩ | ⟨_, _, s'', he, hi, _⟩
    · rw [he] at hs
      cases hs; exact ih
    · rw [he] at hs
      cases hs; exact hi
  | remove v r hr hs ih =>
    rcases HSet.remove_spec ih v with ⟨_, he⟩ | ⟨_, s'', he, hi, _⟩
    · rw [he] at hs
      cases hs; exact ih
    · rw [he] at hs
      cases hs; exact hi

/-! ### Array sets -/

theorem T.sortedB_iff_ascK {κ : Type} [LinOrd κ] (l : List κ) : T.sortedB l = true ↔ AscK l := by
  induction l with
  | nil => simp [T.sortedB, AscK]
  | cons a rest ih =>
    cases rest with
    | nil => simp [T.sortedB, AscK]
    | cons b rest =>
      simp only [T.sortedB, Bool.and_eq_true, decide_eq_true_eq] at ih ⊢
      rw [ih]
      simp only [AscK, List.mem_cons, forall_eq_or_imp]
      constructor
      · rintro ⟨h1, h2, h3⟩
        exact ⟨⟨h1, fun e he => LinOrd.trans h1 (h2 e he)⟩, h2, h3⟩
      · rintro ⟨⟨h1, _⟩, h2, h3⟩
        exact ⟨h1, h2, h3⟩

/-- The driver's executable check (`wf-sorted`) is the invariant. -/
theorem ASet.inv_iff_exec (f : AFmt) (s : ASet Nat) :
    s.Inv f.keyOf f.prefixMax ↔ s.wfB f = true := by
  simp only [ASet.wfB, Bool.and_eq_true, decide_eq_true_eq, T.sortedB_iff_ascK]
  constructor
  · intro h; exact ⟨⟨h.len_le, h.len_leP⟩, h.sorted⟩
  · rintro ⟨⟨h1, h2⟩, h3⟩; exact ⟨h1, h2, h3⟩

/-- States reachable from a zero-filled buffer by insert / take / order-preserving update / growth. -/
inductive ASet.Reach {κ : Type} [LinOrd κ] (key : α → κ) (P : Nat) (d : α) : ASet α → Prop where
  | zero (n : Nat) : ASet.Reach key P d { len := 0, vals := List.replicate n d }
  | insert {s s' : ASet α} (x : α) (r : Bool) (hr : ASet.Reach key P d s) (hs : s.insert key P x = .ok (s', r)) :
      ASet.Reach key P d s'
  | take {s s' : ASet α} (k : κ) (r : Option α) (hr : ASet.Reach key P d s) (hs : s.take key k = .ok (s', r)) :
      ASet.Reach key P d s'
  | update {s s' : ASet α} (k : κ) (y : α) (hk : sameK (key y) k) (hr : ASet.Reach key P d s)
      (hs : s.update key k y = .ok (s', true)) : ASet.Reach key P d s'
  | extend {s : ASet α} (n : Nat) (hr : ASet.Reach key P d s) : ASet.Reach key P d (s.extend d n)

theorem ASet.reach_inv {κ : Type} [LinOrd κ] {key : α → κ} {P : Nat} {d : α} {s : ASet α}
    (h : ASet.Reach key P d s) : s.Inv key P := by
  induction h with
  | zero n => exact ASet.inv_zero key P d n
  | insert x r hr hs ih =>
    rcases ASet.insert_spec ih x with ⟨_, he⟩ | ⟨_, _, s'', he, hi, _⟩
    · rw [he] at hs
      cases hs; exact ih
    · rw [he] at hs
      cases hs; exact hi
  | take k r hr hs ih =>
    rcases ASet.take_spec ih k with ⟨_, he⟩ | ⟨y, s'', _, he, hi, _⟩
    · rw [he] at hs
      cases hs; exact ih
    · rw [he] at hs
      cases hs; exact hi
  | update k y hk hr hs ih => exact ASet.update_same_key ih k y hk hs
  | extend n hr ih => exact (ASet.extend_spec ih d n).1

end Stevia
