/-
  Stevia.Proofs.Codec — byte-level codecs round-trip: parsing the bytes of an image gives back the
  image, for trees (both widths, any key/value scalars), hash sets and array sets.  Together with
  `decode (image s) = s` this is "the state is recoverable from the bytes alone" at byte level.
-/
import Stevia.Model.TreeLayout
import Stevia.Model.HashSetLayout
import Stevia.Model.ArraySetLayout

namespace Stevia

/-- Sanity of a format descriptor: non-empty index, key and value scalars with power-free positive
    alignment (any positive alignment works for the proofs). -/
structure TreeFmt.Ok (f : TreeFmt) : Prop where
  iw_pos : 0 < f.iw
  key_pos : 0 < f.key.size
  val_pos : 0 < f.val.size
  kal_pos : 0 < f.key.align
  val_al_pos : 0 < f.val.align

/-- Every register, the key and the value of a record fit their fields. -/
def Rec.Bounded (f : TreeFmt) (r : Rec Int Nat) : Prop :=
  r.left < 256 ^ f.iw ∧ r.right < 256 ^ f.iw ∧ r.height < 256 ^ f.iw ∧ r.pad < 256 ^ f.iw ∧
  r.val < 256 ^ f.val.size ∧
  (if f.key.signed then -(2 ^ (8 * f.key.size - 1) : Int) ≤ r.key ∧ r.key < (2 ^ (8 * f.key.size - 1) : Int)
   else 0 ≤ r.key ∧ r.key < (256 ^ f.key.size : Int))

def Hdr.Bounded (f : TreeFmt) (h : Hdr) : Prop :=
  h.root < 256 ^ f.iw ∧ h.size < 256 ^ f.iw ∧ h.cap < 256 ^ f.iw ∧ h.flh < 256 ^ f.iw ∧
  h.seq < 256 ^ f.iw ∧ h.pad < 256 ^ f.hdrPad

def TreeImage.Bounded (f : TreeFmt) (img : TreeImage Int Nat) : Prop :=
  img.hdr.Bounded f ∧ ∀ r ∈ img.recs, r.Bounded f

theorem leDec_leEnc' (w x : Nat) (h : x < 256 ^ w) : leDec (leEnc w x) = x := by
  sorry

theorem leEnc_length' (w x : Nat) : (leEnc w x).length = w := by
  sorry

theorem TreeFmt.encRec_length (f : TreeFmt) (hf : f.Ok) (r : Rec Int Nat) : (f.encRec r).length = f.recSize := by
  sorry

theorem TreeFmt.recSize_pos (f : TreeFmt) (hf : f.Ok) : 0 < f.recSize := by
  sorry

theorem TreeFmt.decRec_encRec (f : TreeFmt) (hf : f.Ok) (r : Rec Int Nat) (hr : r.Bounded f) :
    f.decRec (f.encRec r) = r := by
  sorry

theorem TreeFmt.decHdr_encHdr (f : TreeFmt) (hf : f.Ok) (h : Hdr) (hh : h.Bounded f) :
    f.decHdr (f.encHdr h) = h := by
  sorry

/-- Splitting the concatenation of equally long blocks gives back the blocks. -/
theorem TreeFmt.chunks_flatten (n : Nat) (hn : 0 < n) (blocks : List Bytes) (hb : ∀ b ∈ blocks, b.length = n) :
    TreeFmt.chunks n (blocks.flatMap id) = blocks := by
  sorry

/-- Parsing the bytes of a bounded tree image gives back the image. -/
theorem TreeFmt.ofBytes_toBytes (f : TreeFmt) (hf : f.Ok) (img : TreeImage Int Nat) (hb : img.Bounded f) :
    f.ofBytes (f.toBytes img) = some img := by
  sorry

/-- …and parsing accepts nothing else: whatever `ofBytes` returns re-encodes to exactly the input bytes. -/
theorem TreeFmt.toBytes_of_ofBytes (f : TreeFmt) (bs : Bytes) (img : TreeImage Int Nat)
    (h : f.ofBytes bs = some img) : f.toBytes img = bs := by
  sorry

/-! ### Hash set -/

def HFmt.Ok (f : HFmt) : Prop := 0 < f.val.size ∧ 0 < f.val.align

def HImage.Bounded (f : HFmt) (img : HImage Nat) : Prop :=
  img.hdr.size < 256 ^ 4 ∧ img.hdr.cap < 256 ^ 4 ∧ img.hdr.flh < 256 ^ 4 ∧ img.hdr.seq < 256 ^ 4 ∧
  ∀ r ∈ img.recs, r.bucket < 256 ^ 4 ∧ r.next < 256 ^ 4 ∧ r.val < 256 ^ f.val.size

theorem HFmt.ofBytes_toBytes (f : HFmt) (hf : f.Ok) (img : HImage Nat) (hb : img.Bounded f) :
    f.ofBytes (f.toBytes img) = some img := by
  sorry

theorem HFmt.toBytes_of_ofBytes (f : HFmt) (bs : Bytes) (img : HImage Nat)
    (h : f.ofBytes bs = some img) : f.toBytes img = bs := by
  sorry

/-! ### Array sets -/

theorem AFmt.ofBytes_toBytes (f : AFmt) (hp : 0 < f.pw) (hv : 0 < f.vsz) (s : ASet Nat)
    (hl : s.len < 256 ^ f.pw) (hvals : ∀ v ∈ s.vals, v < 256 ^ f.vsz) :
    f.ofBytes (f.toBytes s) = some s := by
  sorry

end Stevia
