/-
  Stevia.Proofs.Codec — byte-level codecs round-trip: parsing the bytes of an image gives back the
  image, for trees (both widths, any key/value scalars), hash sets and array sets.  Together with
  `decode (image s) = s` this is "the state is recoverable from the bytes alone" at byte level.
-/
import Stevia.Model.TreeLayout
import Stevia.Model.HashSetLayout
import Stevia.Model.ArraySetLayout

namespace Stevia

/-- Sanity of a format descriptor: non-empty index, key and value scalars with power-free positive
    alignment (any positive alignment works for the proofs). -/
structure TreeFmt.Ok (f : TreeFmt) : Prop where
  iw_pos : 0 < f.iw
  key_pos : 0 < f.key.size
  val_pos : 0 < f.val.size
  kal_pos : 0 < f.key.align
  val_al_pos : 0 < f.val.align

/-- Every register, the key and the value of a record fit their fields. -/
def Rec.Bounded (f : TreeFmt) (r : Rec Int Nat) : Prop :=
  r.left < 256 ^ f.iw ∧ r.right < 256 ^ f.iw ∧ r.height < 256 ^ f.iw ∧ r.pad < 256 ^ f.iw ∧
  r.val < 256 ^ f.val.size ∧
  (if f.key.signed then -(2 ^ (8 * f.key.size - 1) : Int) ≤ r.key ∧ r.key < (2 ^ (8 * f.key.size - 1) : Int)
   else 0 ≤ r.key ∧ r.key < (256 ^ f.key.size : Int))

def Hdr.Bounded (f : TreeFmt) (h : Hdr) : Prop :=
  h.root < 256 ^ f.iw ∧ h.size < 256 ^ f.iw ∧ h.cap < 256 ^ f.iw ∧ h.flh < 256 ^ f.iw ∧
  h.seq < 256 ^ f.iw ∧ h.pad < 256 ^ f.hdrPad

def TreeImage.Bounded (f : TreeFmt) (img : TreeImage Int Nat) : Prop :=
  img.hdr.Bounded f ∧ ∀ r ∈ img.recs, r.Bounded f

theorem leDec_leEnc_mod (w x : Nat) : leDec (leEnc w x) = x % 256 ^ w := by
  induction w generalizing x with
  | zero => simp [leEnc, leDec, Nat.mod_one]
  | succ n ih =>
    simp only [leEnc, leDec, ih]
    have : (UInt8.ofNat (x % 256)).toNat = x % 256 := by
      simp [UInt8.toNat_ofNat']
    rw [this, Nat.pow_succ, Nat.mul_comm (256^n) 256, Nat.mod_mul]

theorem leDec_leEnc' (w x : Nat) (h : x < 256 ^ w) : leDec (leEnc w x) = x := by
  rw [leDec_leEnc_mod, Nat.mod_eq_of_lt h]

theorem leEnc_length' (w x : Nat) : (leEnc w x).length = w := by
  induction w generalizing x with
  | zero => simp [leEnc]
  | succ n ih => simp [leEnc, ih]

theorem zeros_length (n : Nat) : (zeros n).length = n := by simp [zeros]

theorem le_alignUp (x a : Nat) : x ≤ alignUp x a := by
  unfold alignUp
  split
  · exact Nat.le_refl _
  · rename_i h
    have h1 : 0 < a := Nat.pos_of_ne_zero h
    have h2 := @Nat.lt_div_mul_add (x + a - 1) a h1
    omega

/-- The middle block of a three-part concatenation. -/
theorem slice_mid (a b c : Bytes) (off len : Nat) (h1 : off = a.length) (h2 : len = b.length) :
    TreeFmt.slice (a ++ b ++ c) off len = b := by
  subst h1 h2
  unfold TreeFmt.slice
  rw [List.append_assoc, List.drop_left' rfl, List.take_left' rfl]

theorem leDecInt_leEncInt (n : Nat) (hn : 0 < n) (x : Int)
    (h1 : -(2 ^ (8 * n - 1) : Int) ≤ x) (h2 : x < (2 ^ (8 * n - 1) : Int)) :
    leDecInt (leEncInt n x) = x := by
  have hM : (2 ^ (8 * n) : Nat) = 2 * 2 ^ (8 * n - 1) := by
    have : 8 * n = (8 * n - 1) + 1 := by omega
    conv => lhs; rw [this, Nat.pow_succ]
    omega
  have h256 : 256 ^ n = 2 ^ (8 * n) := by
    rw [Nat.pow_mul]
  generalize hH : (2 ^ (8 * n - 1) : Nat) = H at hM
  have hH' : (2 ^ (8 * n - 1) : Int) = (H : Int) := by
    rw [← hH]; simp
  rw [hH'] at h1 h2
  generalize hMM : (2 ^ (8 * n) : Nat) = M at hM h256
  have hu : ((x % (M : Int)).toNat : Int) = x % (M : Int) := by
    apply Int.toNat_of_nonneg
    apply Int.emod_nonneg
    omega
  have hlt : x % (M : Int) < M := by
    apply Int.emod_lt_of_pos
    omega
  unfold leDecInt leEncInt
  simp only [leEnc_length', hMM, hH]
  rw [leDec_leEnc', if_neg (by omega)]
  · by_cases hx : 0 ≤ x
    · have : x % (M : Int) = x := Int.emod_eq_of_lt hx (by omega)
      rw [this] at hu ⊢
      split <;> omega
    · have : x % (M : Int) = x + M := by
        rw [← Int.add_mul_emod_self_left x M 1, Int.mul_one]
        exact Int.emod_eq_of_lt (by omega) (by omega)
      rw [this] at hu ⊢
      split <;> omega
  · rw [h256]; omega

theorem TreeFmt.keyOff_ge (f : TreeFmt) : 4 * f.iw ≤ f.keyOff := le_alignUp _ _
theorem TreeFmt.valOff_ge (f : TreeFmt) : f.keyOff + f.key.size ≤ f.valOff := le_alignUp _ _
theorem TreeFmt.recSize_ge (f : TreeFmt) : f.valOff + f.val.size ≤ f.recSize := le_alignUp _ _

theorem TreeFmt.encKey_length (f : TreeFmt) (k : Int) : (f.encKey k).length = f.key.size := by
  unfold TreeFmt.encKey leEncInt
  split <;> simp [leEnc_length']

theorem TreeFmt.encRec_length (f : TreeFmt) (hf : f.Ok) (r : Rec Int Nat) : (f.encRec r).length = f.recSize := by
  have _ := hf
  have h1 := f.keyOff_ge
  have h2 := f.valOff_ge
  have h3 := f.recSize_ge
  simp only [TreeFmt.encRec, List.length_append, leEnc_length', zeros_length, TreeFmt.encKey_length]
  omega

theorem TreeFmt.recSize_pos (f : TreeFmt) (hf : f.Ok) : 0 < f.recSize := by
  have h3 := f.recSize_ge
  have := hf.val_pos
  omega

theorem TreeFmt.decKey_encKey (f : TreeFmt) (hf : f.Ok) (r : Rec Int Nat) (hr : r.Bounded f) :
    f.decKey (f.encKey r.key) = r.key := by
  have hk := hr.2.2.2.2.2
  unfold TreeFmt.decKey TreeFmt.encKey
  by_cases hs : f.key.signed = true
  · rw [if_pos hs] at hk
    rw [if_pos hs, if_pos hs]
    exact leDecInt_leEncInt _ hf.key_pos _ hk.1 hk.2
  · rw [if_neg hs] at hk
    rw [if_neg hs, if_neg hs]
    have h0 : (r.key.toNat : Int) = r.key := Int.toNat_of_nonneg hk.1
    rw [leDec_leEnc', h0]
    have := hk.2
    rw [← h0] at this
    have hc : ((256 ^ f.key.size : Nat) : Int) = (256 : Int) ^ f.key.size := Int.natCast_pow 256 _
    rw [← hc] at this
    exact Int.ofNat_lt.mp this

theorem TreeFmt.decRec_encRec (f : TreeFmt) (hf : f.Ok) (r : Rec Int Nat) (hr : r.Bounded f) :
    f.decRec (f.encRec r) = r := by
  have h1 := f.keyOff_ge
  have h2 := f.valOff_ge
  have h3 := f.recSize_ge
  obtain ⟨b1, b2, b3, b4, b5, b6⟩ := hr
  have hk := f.decKey_encKey hf r ⟨b1, b2, b3, b4, b5, b6⟩
  cases r with
  | mk l rr h p k v =>
  simp only at b1 b2 b3 b4 b5 hk
  simp only [TreeFmt.decRec, TreeFmt.encRec]
  have e0 : TreeFmt.slice (leEnc f.iw l ++ leEnc f.iw rr ++ leEnc f.iw h ++ leEnc f.iw p ++
      zeros (f.keyOff - 4 * f.iw) ++ f.encKey k ++ zeros (f.valOff - (f.keyOff + f.key.size)) ++
      leEnc f.val.size v ++ zeros (f.recSize - (f.valOff + f.val.size))) (0 * f.iw) f.iw = leEnc f.iw l := by
    have := slice_mid [] (leEnc f.iw l) (leEnc f.iw rr ++ leEnc f.iw h ++ leEnc f.iw p ++
      zeros (f.keyOff - 4 * f.iw) ++ f.encKey k ++ zeros (f.valOff - (f.keyOff + f.key.size)) ++
      leEnc f.val.size v ++ zeros (f.recSize - (f.valOff + f.val.size))) (0 * f.iw) f.iw
      (by simp) (by simp [leEnc_length'])
    simpa [List.append_assoc] using this
  have e1 : TreeFmt.slice (leEnc f.iw l ++ leEnc f.iw rr ++ leEnc f.iw h ++ leEnc f.iw p ++
      zeros (f.keyOff - 4 * f.iw) ++ f.encKey k ++ zeros (f.valOff - (f.keyOff + f.key.size)) ++
      leEnc f.val.size v ++ zeros (f.recSize - (f.valOff + f.val.size))) (1 * f.iw) f.iw = leEnc f.iw rr := by
    have := slice_mid (leEnc f.iw l) (leEnc f.iw rr) (leEnc f.iw h ++ leEnc f.iw p ++
      zeros (f.keyOff - 4 * f.iw) ++ f.encKey k ++ zeros (f.valOff - (f.keyOff + f.key.size)) ++
      leEnc f.val.size v ++ zeros (f.recSize - (f.valOff + f.val.size))) (1 * f.iw) f.iw
      (by simp [leEnc_length']) (by simp [leEnc_length'])
    simpa [List.append_assoc] using this
  have e2 : TreeFmt.slice (leEnc f.iw l ++ leEnc f.iw rr ++ leEnc f.iw h ++ leEnc f.iw p ++
      zeros (f.keyOff - 4 * f.iw) ++ f.encKey k ++ zeros (f.valOff - (f.keyOff + f.key.size)) ++
      leEnc f.val.size v ++ zeros (f.recSize - (f.valOff + f.val.size))) (2 * f.iw) f.iw = leEnc f.iw h := by
    have := slice_mid (leEnc f.iw l ++ leEnc f.iw rr) (leEnc f.iw h) (leEnc f.iw p ++
      zeros (f.keyOff - 4 * f.iw) ++ f.encKey k ++ zeros (f.valOff - (f.keyOff + f.key.size)) ++
      leEnc f.val.size v ++ zeros (f.recSize - (f.valOff + f.val.size))) (2 * f.iw) f.iw
      (by simp [leEnc_length']; omega) (by simp [leEnc_length'])
    simpa [List.append_assoc] using this
  have e3 : TreeFmt.slice (leEnc f.iw l ++ leEnc f.iw rr ++ leEnc f.iw h ++ leEnc f.iw p ++
      zeros (f.keyOff - 4 * f.iw) ++ f.encKey k ++ zeros (f.valOff - (f.keyOff + f.key.size)) ++
      leEnc f.val.size v ++ zeros (f.recSize - (f.valOff + f.val.size))) (3 * f.iw) f.iw = leEnc f.iw p := by
    have := slice_mid (leEnc f.iw l ++ leEnc f.iw rr ++ leEnc f.iw h) (leEnc f.iw p) (
      zeros (f.keyOff - 4 * f.iw) ++ f.encKey k ++ zeros (f.valOff - (f.keyOff + f.key.size)) ++
      leEnc f.val.size v ++ zeros (f.recSize - (f.valOff + f.val.size))) (3 * f.iw) f.iw
      (by simp [leEnc_length']; omega) (by simp [leEnc_length'])
    simpa [List.append_assoc] using this
  have e4 : TreeFmt.slice (leEnc f.iw l ++ leEnc f.iw rr ++ leEnc f.iw h ++ leEnc f.iw p ++
      zeros (f.keyOff - 4 * f.iw) ++ f.encKey k ++ zeros (f.valOff - (f.keyOff + f.key.size)) ++
      leEnc f.val.size v ++ zeros (f.recSize - (f.valOff + f.val.size))) f.keyOff f.key.size = f.encKey k := by
    have := slice_mid (leEnc f.iw l ++ leEnc f.iw rr ++ leEnc f.iw h ++ leEnc f.iw p ++
      zeros (f.keyOff - 4 * f.iw)) (f.encKey k) (zeros (f.valOff - (f.keyOff + f.key.size)) ++
      leEnc f.val.size v ++ zeros (f.recSize - (f.valOff + f.val.size))) f.keyOff f.key.size
      (by simp [leEnc_length', zeros_length]; omega) (by simp [TreeFmt.encKey_length])
    simpa [List.append_assoc] using this
  have e5 : TreeFmt.slice (leEnc f.iw l ++ leEnc f.iw rr ++ leEnc f.iw h ++ leEnc f.iw p ++
      zeros (f.keyOff - 4 * f.iw) ++ f.encKey k ++ zeros (f.valOff - (f.keyOff + f.key.size)) ++
      leEnc f.val.size v ++ zeros (f.recSize - (f.valOff + f.val.size))) f.valOff f.val.size = leEnc f.val.size v := by
    have := slice_mid (leEnc f.iw l ++ leEnc f.iw rr ++ leEnc f.iw h ++ leEnc f.iw p ++
      zeros (f.keyOff - 4 * f.iw) ++ f.encKey k ++ zeros (f.valOff - (f.keyOff + f.key.size)))
      (leEnc f.val.size v) (zeros (f.recSize - (f.valOff + f.val.size))) f.valOff f.val.size
      (by simp [leEnc_length', zeros_length, TreeFmt.encKey_length]; omega) (by simp [leEnc_length'])
    simpa [List.append_assoc] using this
  rw [e0, e1, e2, e3, e4, e5, hk]
  simp only [leDec_leEnc' _ _ b1, leDec_leEnc' _ _ b2, leDec_leEnc' _ _ b3, leDec_leEnc' _ _ b4,
    leDec_leEnc' _ _ b5]

theorem TreeFmt.encHdr_length (f : TreeFmt) (h : Hdr) : (f.encHdr h).length = f.hdrSize := by
  simp only [TreeFmt.encHdr, TreeFmt.hdrSize, List.length_append, leEnc_length']
  omega

theorem TreeFmt.decHdr_encHdr (f : TreeFmt) (hf : f.Ok) (h : Hdr) (hh : h.Bounded f) :
    f.decHdr (f.encHdr h) = h := by
  have _ := hf
  obtain ⟨b1, b2, b3, b4, b5, b6⟩ := hh
  cases h with
  | mk r s c fl sq p =>
  simp only at b1 b2 b3 b4 b5 b6
  simp only [TreeFmt.decHdr, TreeFmt.encHdr]
  have e0 : TreeFmt.slice (leEnc f.iw r ++ leEnc f.iw s ++ leEnc f.iw c ++ leEnc f.iw fl ++
      leEnc f.iw sq ++ leEnc f.hdrPad p) (0 * f.iw) f.iw = leEnc f.iw r := by
    have := slice_mid [] (leEnc f.iw r) (leEnc f.iw s ++ leEnc f.iw c ++ leEnc f.iw fl ++
      leEnc f.iw sq ++ leEnc f.hdrPad p) (0 * f.iw) f.iw (by simp) (by simp [leEnc_length'])
    simpa [List.append_assoc] using this
  have e1 : TreeFmt.slice (leEnc f.iw r ++ leEnc f.iw s ++ leEnc f.iw c ++ leEnc f.iw fl ++
      leEnc f.iw sq ++ leEnc f.hdrPad p) (1 * f.iw) f.iw = leEnc f.iw s := by
    have := slice_mid (leEnc f.iw r) (leEnc f.iw s) (leEnc f.iw c ++ leEnc f.iw fl ++
      leEnc f.iw sq ++ leEnc f.hdrPad p) (1 * f.iw) f.iw (by simp [leEnc_length']) (by simp [leEnc_length'])
    simpa [List.append_assoc] using this
  have e2 : TreeFmt.slice (leEnc f.iw r ++ leEnc f.iw s ++ leEnc f.iw c ++ leEnc f.iw fl ++
      leEnc f.iw sq ++ leEnc f.hdrPad p) (2 * f.iw) f.iw = leEnc f.iw c := by
    have := slice_mid (leEnc f.iw r ++ leEnc f.iw s) (leEnc f.iw c) (leEnc f.iw fl ++
      leEnc f.iw sq ++ leEnc f.hdrPad p) (2 * f.iw) f.iw (by simp [leEnc_length']; omega) (by simp [leEnc_length'])
    simpa [List.append_assoc] using this
  have e3 : TreeFmt.slice (leEnc f.iw r ++ leEnc f.iw s ++ leEnc f.iw c ++ leEnc f.iw fl ++
      leEnc f.iw sq ++ leEnc f.hdrPad p) (3 * f.iw) f.iw = leEnc f.iw fl := by
    have := slice_mid (leEnc f.iw r ++ leEnc f.iw s ++ leEnc f.iw c) (leEnc f.iw fl) (
      leEnc f.iw sq ++ leEnc f.hdrPad p) (3 * f.iw) f.iw (by simp [leEnc_length']; omega) (by simp [leEnc_length'])
    simpa [List.append_assoc] using this
  have e4 : TreeFmt.slice (leEnc f.iw r ++ leEnc f.iw s ++ leEnc f.iw c ++ leEnc f.iw fl ++
      leEnc f.iw sq ++ leEnc f.hdrPad p) (4 * f.iw) f.iw = leEnc f.iw sq := by
    have := slice_mid (leEnc f.iw r ++ leEnc f.iw s ++ leEnc f.iw c ++ leEnc f.iw fl) (leEnc f.iw sq) (
      leEnc f.hdrPad p) (4 * f.iw) f.iw (by simp [leEnc_length']; omega) (by simp [leEnc_length'])
    simpa [List.append_assoc] using this
  have e5 : TreeFmt.slice (leEnc f.iw r ++ leEnc f.iw s ++ leEnc f.iw c ++ leEnc f.iw fl ++
      leEnc f.iw sq ++ leEnc f.hdrPad p) (5 * f.iw) f.hdrPad = leEnc f.hdrPad p := by
    have := slice_mid (leEnc f.iw r ++ leEnc f.iw s ++ leEnc f.iw c ++ leEnc f.iw fl ++ leEnc f.iw sq)
      (leEnc f.hdrPad p) [] (5 * f.iw) f.hdrPad (by simp [leEnc_length']; omega) (by simp [leEnc_length'])
    simpa [List.append_assoc] using this
  rw [e0, e1, e2, e3, e4, e5]
  simp only [leDec_leEnc' _ _ b1, leDec_leEnc' _ _ b2, leDec_leEnc' _ _ b3, leDec_leEnc' _ _ b4,
    leDec_leEnc' _ _ b5, leDec_leEnc' _ _ b6]

theorem flatMap_id_length (n : Nat) (blocks : List Bytes) (hb : ∀ b ∈ blocks, b.length = n) :
    (blocks.flatMap id).length = blocks.length * n := by
  induction blocks with
  | nil => simp
  | cons b bs ih =>
    rw [List.flatMap_cons, List.length_append, ih (fun x hx => hb x (List.mem_cons_of_mem _ hx))]
    simp only [id, List.length_cons, hb b List.mem_cons_self, Nat.succ_mul]
    omega

theorem flatMap_id_block (n : Nat) (blocks : List Bytes) (hb : ∀ b ∈ blocks, b.length = n)
    (j : Nat) (hj : j < blocks.length) :
    ((blocks.flatMap id).drop (j * n)).take n = blocks[j] := by
  induction blocks generalizing j with
  | nil => simp at hj
  | cons b bs ih =>
    have hbl : b.length = n := hb b List.mem_cons_self
    rw [List.flatMap_cons]
    simp only [id]
    cases j with
    | zero =>
      simp only [Nat.zero_mul, List.drop_zero, List.getElem_cons_zero]
      exact List.take_left' hbl
    | succ j =>
      have : (j + 1) * n = b.length + j * n := by rw [Nat.succ_mul, hbl]; omega
      rw [this, ← List.drop_drop, List.drop_left' rfl]
      simp only [List.getElem_cons_succ]
      exact ih (fun x hx => hb x (List.mem_cons_of_mem _ hx)) j (by simpa using hj)

/-- Splitting the concatenation of equally long blocks gives back the blocks. -/
theorem TreeFmt.chunks_flatten (n : Nat) (hn : 0 < n) (blocks : List Bytes) (hb : ∀ b ∈ blocks, b.length = n) :
    TreeFmt.chunks n (blocks.flatMap id) = blocks := by
  have hlen := flatMap_id_length n blocks hb
  unfold TreeFmt.chunks
  rw [if_neg (by omega)]
  have hdiv : (blocks.flatMap id).length / n = blocks.length := by
    rw [hlen]; exact Nat.mul_div_cancel _ hn
  apply List.ext_getElem
  · simp only [List.length_map, List.length_range, List.size_toArray, hdiv]
  · intro j h1 h2
    simp only [List.getElem_map, List.getElem_range, Array.toList_extract, List.extract_eq_take_drop]
    have : j * n + n - j * n = n := by omega
    rw [this]
    exact flatMap_id_block n blocks hb j h2

theorem TreeFmt.chunks_flatMap {α : Type} (n : Nat) (hn : 0 < n) (g : α → Bytes) (l : List α)
    (hg : ∀ a ∈ l, (g a).length = n) :
    TreeFmt.chunks n (l.flatMap g) = l.map g := by
  have : l.flatMap g = (l.map g).flatMap id := by
    rw [List.flatMap_map]; rfl
  rw [this]
  apply TreeFmt.chunks_flatten n hn
  intro b hb
  obtain ⟨a, ha, rfl⟩ := List.mem_map.mp hb
  exact hg a ha

theorem length_flatMap_const {α : Type} (n : Nat) (g : α → Bytes) (l : List α)
    (hg : ∀ a ∈ l, (g a).length = n) : (l.flatMap g).length = l.length * n := by
  have : l.flatMap g = (l.map g).flatMap id := by
    rw [List.flatMap_map]; rfl
  rw [this, flatMap_id_length n]
  · simp
  · intro b hb
    obtain ⟨a, ha, rfl⟩ := List.mem_map.mp hb
    exact hg a ha

/-- Parsing the bytes of a bounded tree image gives back the image. -/
theorem TreeFmt.ofBytes_toBytes (f : TreeFmt) (hf : f.Ok) (img : TreeImage Int Nat) (hb : img.Bounded f) :
    f.ofBytes (f.toBytes img) = some img := by
  have hpos := f.recSize_pos hf
  have hH := f.encHdr_length img.hdr
  have hR := length_flatMap_const f.recSize f.encRec img.recs (fun r _ => f.encRec_length hf r)
  have hlen : (f.toBytes img).length = f.hdrSize + img.recs.length * f.recSize := by
    rw [TreeFmt.toBytes, List.length_append, hH, hR]
  have htake : (f.toBytes img).take f.hdrSize = f.encHdr img.hdr := by
    rw [TreeFmt.toBytes]; exact List.take_left' hH
  have hdrop : (f.toBytes img).drop f.hdrSize = img.recs.flatMap f.encRec := by
    rw [TreeFmt.toBytes]; exact List.drop_left' hH
  have hrecs : (TreeFmt.chunks f.recSize (img.recs.flatMap f.encRec)).map f.decRec = img.recs := by
    rw [TreeFmt.chunks_flatMap f.recSize hpos f.encRec img.recs (fun r _ => f.encRec_length hf r),
      List.map_map]
    conv => rhs; rw [← List.map_id img.recs]
    apply List.map_congr_left
    intro r hr
    exact f.decRec_encRec hf r (hb.2 r hr)
  unfold TreeFmt.ofBytes
  rw [if_neg (by omega), if_neg (by omega), if_neg (by rw [hlen]; simp)]
  simp only [htake, hdrop, hrecs, f.decHdr_encHdr hf img.hdr hb.1]
  simp

/-- …and parsing accepts nothing else: whatever `ofBytes` returns re-encodes to exactly the input bytes. -/
theorem TreeFmt.toBytes_of_ofBytes (f : TreeFmt) (bs : Bytes) (img : TreeImage Int Nat)
    (h : f.ofBytes bs = some img) : f.toBytes img = bs := by
  unfold TreeFmt.ofBytes at h
  split at h
  · simp at h
  split at h
  · simp at h
  split at h
  · simp at h
  simp only at h
  split at h
  · rename_i heq
    simp only [Option.some.injEq] at h
    rw [← h]; exact heq
  · simp at h

/-! ### Hash set -/

def HFmt.Ok (f : HFmt) : Prop := 0 < f.val.size ∧ 0 < f.val.align

def HImage.Bounded (f : HFmt) (img : HImage Nat) : Prop :=
  img.hdr.size < 256 ^ 4 ∧ img.hdr.cap < 256 ^ 4 ∧ img.hdr.flh < 256 ^ 4 ∧ img.hdr.seq < 256 ^ 4 ∧
  ∀ r ∈ img.recs, r.bucket < 256 ^ 4 ∧ r.next < 256 ^ 4 ∧ r.val < 256 ^ f.val.size

theorem HFmt.valOff_ge (f : HFmt) : 8 ≤ f.valOff := le_alignUp _ _
theorem HFmt.recSize_ge (f : HFmt) : f.valOff + f.val.size ≤ f.recSize := le_alignUp _ _

theorem HFmt.encRec_length (f : HFmt) (r : HRec Nat) : (f.encRec r).length = f.recSize := by
  have h1 := f.valOff_ge
  have h2 := f.recSize_ge
  simp only [HFmt.encRec, List.length_append, leEnc_length', zeros_length]
  omega

theorem HFmt.encHdr_length (f : HFmt) (h : HHdr) : (f.encHdr h).length = f.hdrSize := by
  simp only [HFmt.encHdr, HFmt.hdrSize, List.length_append, leEnc_length']

theorem HFmt.decRec_encRec (f : HFmt) (r : HRec Nat)
    (hr : r.bucket < 256 ^ 4 ∧ r.next < 256 ^ 4 ∧ r.val < 256 ^ f.val.size) :
    f.decRec (f.encRec r) = r := by
  have h1 := f.valOff_ge
  have h2 := f.recSize_ge
  obtain ⟨b1, b2, b3⟩ := hr
  cases r with
  | mk b nx v =>
  simp only at b1 b2 b3
  simp only [HFmt.decRec, HFmt.encRec]
  have e0 : TreeFmt.slice (leEnc 4 b ++ leEnc 4 nx ++ zeros (f.valOff - 8) ++ leEnc f.val.size v ++
      zeros (f.recSize - (f.valOff + f.val.size))) 0 4 = leEnc 4 b := by
    have := slice_mid [] (leEnc 4 b) (leEnc 4 nx ++ zeros (f.valOff - 8) ++ leEnc f.val.size v ++
      zeros (f.recSize - (f.valOff + f.val.size))) 0 4 (by simp) (by simp [leEnc_length'])
    simpa [List.append_assoc] using this
  have e1 : TreeFmt.slice (leEnc 4 b ++ leEnc 4 nx ++ zeros (f.valOff - 8) ++ leEnc f.val.size v ++
      zeros (f.recSize - (f.valOff + f.val.size))) 4 4 = leEnc 4 nx := by
    have := slice_mid (leEnc 4 b) (leEnc 4 nx) (zeros (f.valOff - 8) ++ leEnc f.val.size v ++
      zeros (f.recSize - (f.valOff + f.val.size))) 4 4 (by simp [leEnc_length']) (by simp [leEnc_length'])
    simpa [List.append_assoc] using this
  have e2 : TreeFmt.slice (leEnc 4 b ++ leEnc 4 nx ++ zeros (f.valOff - 8) ++ leEnc f.val.size v ++
      zeros (f.recSize - (f.valOff + f.val.size))) f.valOff f.val.size = leEnc f.val.size v := by
    have := slice_mid (leEnc 4 b ++ leEnc 4 nx ++ zeros (f.valOff - 8)) (leEnc f.val.size v) (
      zeros (f.recSize - (f.valOff + f.val.size))) f.valOff f.val.size
      (by simp [leEnc_length', zeros_length]; omega) (by simp [leEnc_length'])
    simpa [List.append_assoc] using this
  rw [e0, e1, e2]
  simp only [leDec_leEnc' _ _ b1, leDec_leEnc' _ _ b2, leDec_leEnc' _ _ b3]

theorem HFmt.decHdr_encHdr (f : HFmt) (h : HHdr)
    (hh : h.size < 256 ^ 4 ∧ h.cap < 256 ^ 4 ∧ h.flh < 256 ^ 4 ∧ h.seq < 256 ^ 4) :
    f.decHdr (f.encHdr h) = h := by
  obtain ⟨b1, b2, b3, b4⟩ := hh
  cases h with
  | mk s c fl sq =>
  simp only at b1 b2 b3 b4
  simp only [HFmt.decHdr, HFmt.encHdr]
  have e0 : TreeFmt.slice (leEnc 4 s ++ leEnc 4 c ++ leEnc 4 fl ++ leEnc 4 sq) (0 * 4) 4 = leEnc 4 s := by
    have := slice_mid [] (leEnc 4 s) (leEnc 4 c ++ leEnc 4 fl ++ leEnc 4 sq) (0 * 4) 4
      (by simp) (by simp [leEnc_length'])
    simpa [List.append_assoc] using this
  have e1 : TreeFmt.slice (leEnc 4 s ++ leEnc 4 c ++ leEnc 4 fl ++ leEnc 4 sq) (1 * 4) 4 = leEnc 4 c := by
    have := slice_mid (leEnc 4 s) (leEnc 4 c) (leEnc 4 fl ++ leEnc 4 sq) (1 * 4) 4
      (by simp [leEnc_length']) (by simp [leEnc_length'])
    simpa [List.append_assoc] using this
  have e2 : TreeFmt.slice (leEnc 4 s ++ leEnc 4 c ++ leEnc 4 fl ++ leEnc 4 sq) (2 * 4) 4 = leEnc 4 fl := by
    have := slice_mid (leEnc 4 s ++ leEnc 4 c) (leEnc 4 fl) (leEnc 4 sq) (2 * 4) 4
      (by simp [leEnc_length']) (by simp [leEnc_length'])
    simpa [List.append_assoc] using this
  have e3 : TreeFmt.slice (leEnc 4 s ++ leEnc 4 c ++ leEnc 4 fl ++ leEnc 4 sq) (3 * 4) 4 = leEnc 4 sq := by
    have := slice_mid (leEnc 4 s ++ leEnc 4 c ++ leEnc 4 fl) (leEnc 4 sq) [] (3 * 4) 4
      (by simp [leEnc_length']) (by simp [leEnc_length'])
    simpa [List.append_assoc] using this
  rw [e0, e1, e2, e3]
  simp only [leDec_leEnc' _ _ b1, leDec_leEnc' _ _ b2, leDec_leEnc' _ _ b3, leDec_leEnc' _ _ b4]

theorem HFmt.ofBytes_toBytes (f : HFmt) (hf : f.Ok) (img : HImage Nat) (hb : img.Bounded f) :
    f.ofBytes (f.toBytes img) = some img := by
  have hpos : 0 < f.recSize := by
    have := f.recSize_ge
    have := hf.1
    omega
  obtain ⟨c1, c2, c3, c4, hrb⟩ := hb
  have hH := f.encHdr_length img.hdr
  have hR := length_flatMap_const f.recSize f.encRec img.recs (fun r _ => f.encRec_length r)
  have hlen : (f.toBytes img).length = f.hdrSize + img.recs.length * f.recSize := by
    rw [HFmt.toBytes, List.length_append, hH, hR]
  have htake : (f.toBytes img).take f.hdrSize = f.encHdr img.hdr := by
    rw [HFmt.toBytes]; exact List.take_left' hH
  have hdrop : (f.toBytes img).drop f.hdrSize = img.recs.flatMap f.encRec := by
    rw [HFmt.toBytes]; exact List.drop_left' hH
  have hrecs : (TreeFmt.chunks f.recSize (img.recs.flatMap f.encRec)).map f.decRec = img.recs := by
    rw [TreeFmt.chunks_flatMap f.recSize hpos f.encRec img.recs (fun r _ => f.encRec_length r),
      List.map_map]
    conv => rhs; rw [← List.map_id img.recs]
    apply List.map_congr_left
    intro r hr
    exact f.decRec_encRec r (hrb r hr)
  unfold HFmt.ofBytes
  rw [if_neg (by omega), if_neg (by omega), if_neg (by rw [hlen]; simp)]
  simp only [htake, hdrop, hrecs, f.decHdr_encHdr img.hdr ⟨c1, c2, c3, c4⟩]
  simp

theorem HFmt.toBytes_of_ofBytes (f : HFmt) (bs : Bytes) (img : HImage Nat)
    (h : f.ofBytes bs = some img) : f.toBytes img = bs := by
  unfold HFmt.ofBytes at h
  split at h
  · simp at h
  split at h
  · simp at h
  split at h
  · simp at h
  simp only at h
  split at h
  · rename_i heq
    simp only [Option.some.injEq] at h
    rw [← h]; exact heq
  · simp at h

/-! ### Array sets -/

theorem AFmt.ofBytes_toBytes (f : AFmt) (hp : 0 < f.pw) (hv : 0 < f.vsz) (s : ASet Nat)
    (hl : s.len < 256 ^ f.pw) (hvals : ∀ v ∈ s.vals, v < 256 ^ f.vsz) :
    f.ofBytes (f.toBytes s) = some s := by
  have _ := hp
  have hH : (leEnc f.pw s.len).length = f.pw := leEnc_length' _ _
  have hR := length_flatMap_const f.vsz (leEnc f.vsz) s.vals (fun v _ => leEnc_length' _ v)
  have hlen : (f.toBytes s).length = f.pw + s.vals.length * f.vsz := by
    rw [AFmt.toBytes, List.length_append, hH, hR]
  have htake : (f.toBytes s).take f.pw = leEnc f.pw s.len := by
    rw [AFmt.toBytes]; exact List.take_left' hH
  have hdrop : (f.toBytes s).drop f.pw = s.vals.flatMap (leEnc f.vsz) := by
    rw [AFmt.toBytes]; exact List.drop_left' hH
  have hrecs : (TreeFmt.chunks f.vsz (s.vals.flatMap (leEnc f.vsz))).map leDec = s.vals := by
    rw [TreeFmt.chunks_flatMap f.vsz hv (leEnc f.vsz) s.vals (fun v _ => leEnc_length' _ v),
      List.map_map]
    conv => rhs; rw [← List.map_id s.vals]
    apply List.map_congr_left
    intro v hv'
    exact leDec_leEnc' _ _ (hvals v hv')
  unfold AFmt.ofBytes
  rw [if_neg (by omega), if_neg (by omega), if_neg (by rw [hlen]; simp)]
  simp only [htake, hdrop, hrecs, leDec_leEnc' _ _ hl]

end Stevia
