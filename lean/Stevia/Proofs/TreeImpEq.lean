/-
  Stevia.Proofs.TreeImpEq — the literal register-level transcription of the iterative Rust
  algorithms (`Stevia.Model.TreeImp`) computes, on the layout of every well-formed state, exactly the
  layout of what the functional model (`Stevia.Model.Tree`) computes, with the same result.
-/
import Stevia.Model.TreeImp
import Stevia.Proofs.TreeState
import Stevia.Proofs.TreeImpRep
import Stevia.Proofs.TreeImpInsert

namespace Stevia
variable {α β : Type} [LinOrd α]

/-- The default record the literal model reads for index 0 / out-of-range indices. -/
def Imp.dflt (kd : α) (vd : β) : Rec α β := ⟨0, 0, 0, 0, kd, vd⟩

section InvFacts

theorem Tree.Inv.rootIn {c : TreeCfg} {s : Tree α β} (h : s.Inv c) : s.root.In s.slots :=
  fun i hi => h.layoutOk.range i (by simp [hi])

theorem Tree.Inv.rootNodup {c : TreeCfg} {s : Tree α β} (h : s.Inv c) : s.root.slots.Nodup :=
  (List.nodup_append.1 h.nodup).1

theorem Tree.Inv.height_le {c : TreeCfg} {s : Tree α β} (h : s.Inv c) : s.root.height ≤ s.slots :=
  Nat.le_trans (T.height_le_length_slots _)
    (length_le_of_nodup_range _ _ h.rootNodup (fun i hi => h.rootIn i hi))

end InvFacts

/-- `find`: the literal descent finds the slot the functional `find` finds. -/
theorem Imp.find_eq (c : TreeCfg) (kd : α) (vd : β) (s : Tree α β) (h : s.Inv c) (k : α) :
    Imp.find (Imp.dflt kd vd) (s.image c kd vd) k (s.slots + 1) s.root.slot = (s.root.find k).map (·.1) := by
  rw [Tree.image_eq_mkImg]
  exact find_rep _ _ _ _ k s.root _ (Tree.rep_recAt c kd vd s h.rootNodup) h.rootIn
    (Nat.le_succ_of_le h.height_le)

/-- `lowest`. -/
theorem Imp.lowest_eq (c : TreeCfg) (kd : α) (vd : β) (s : Tree α β) (h : s.Inv c) :
    Imp.lowest (Imp.dflt kd vd) (s.image c kd vd) = s.lowest := by
  unfold Imp.lowest Tree.lowest
  rw [Tree.image_recs_length]
  rw [Tree.image_eq_mkImg]
  cases hroot : s.root with
  | nil => simp [Tree.hdr, hroot, T.slot, T.minKey]
  | node i l k v hh r =>
    have hin := h.rootIn
    have hrep := Tree.rep_recAt c kd vd s h.rootNodup
    have hht := h.height_le
    rw [hroot] at hin hrep hht
    have hi := hin.root
    simp only [mkImg_hdr, Tree.hdr, hroot, T.slot]
    rw [if_neg (by omega)]
    exact lowestGo_rep _ _ _ _ l i k v hh r _ hrep hin (by omega)

/-- `from_bytes_mut`. -/
theorem Imp.openMut_eq (c : TreeCfg) (kd : α) (vd : β) (s : Tree α β) (h : s.Inv c) :
    Imp.openMut c (s.image c kd vd) = (s.openMut c).image c kd vd := by
  unfold Imp.openMut Tree.openMut
  rw [Tree.image_recs_length]
  show (if s.slots > s.cap then _ else _) = _
  split <;> rfl

/-- `get_mut` + write. -/
theorem Imp.update_eq (c : TreeCfg) (kd : α) (vd : β) (s : Tree α β) (h : s.Inv c) (k : α) (v : β) :
    Imp.update (Imp.dflt kd vd) (s.image c kd vd) k v = (((s.update k v).1).image c kd vd, (s.update k v).2) := by
  have hfind := Imp.find_eq c kd vd s h k
  unfold Imp.update Tree.update
  rw [Tree.image_recs_length]
  show (match Imp.find _ _ k (s.slots + 1) s.root.slot with | none => _ | some i => _) = _
  rw [hfind]
  cases hf : s.root.find k with
  | none => rfl
  | some p =>
    obtain ⟨i, v0⟩ := p
    simp only [Option.map_some]
    congr 1
    rw [Tree.image_eq_mkImg, wr_mkImg]
    have hrep := rep_setVal (s.recAt c kd vd) k v s.root i v0
      (Tree.rep_recAt c kd vd s h.rootNodup) h.rootNodup hf
    have hm := T.find_mem_slots hf
    have hh : Tree.hdr c { s with root := s.root.setVal k v } = Tree.hdr c s := by
      simp [Tree.hdr, T.slot_setVal, Tree.flhReg, Tree.seqReg]
    rw [← hh]
    exact mkImg_eq_image c kd vd { s with root := s.root.setVal k v } _
      (by rw [T.slots_setVal]; exact h.rootNodup) hrep (by
        intro j _ _ hj
        rw [T.slots_setVal] at hj
        rw [upd_ne _ _ (fun e : j = i => hj (e ▸ hm)), Tree.recAt_of_not_mem c kd vd s hj,
          Tree.recAt_of_not_mem c kd vd _ (by rw [T.slots_setVal]; exact hj)]
        rfl)

/-- Closing step of `insert`: a memory that represents the new tree and still holds the allocator
    records of the allocated state elsewhere is the layout of the new state. -/
theorem finish_insert (c : TreeCfg) (kd : α) (vd : β) (s s1 : Tree α β) (f : Nat → Rec α β) (t' : T α β)
    (hsize : s1.size = s.size + 1) (hcap : s1.cap = s.cap) (hslots : s1.slots = s.slots)
    (hnd : t'.slots.Nodup) (hr : Rep f t')
    (hfree : ∀ j, 1 ≤ j → j ≤ s.slots → j ∉ t'.slots → f j = s1.freeRec c kd vd j) :
    mkImg { root := t'.slot, size := s.size + 1, cap := s.cap, flh := s1.flhReg c, seq := s1.seqReg c,
            pad := 0 } s.slots f = ({ s1 with root := t' } : Tree α β).image c kd vd := by
  have := mkImg_eq_image c kd vd { s1 with root := t' } f hnd hr (by
    intro j h1 h2 h3
    rw [Tree.recAt_of_not_mem c kd vd _ h3]
    exact hfree j h1 (hslots ▸ h2) h3)
  rw [← this]
  simp only [Tree.hdr, hsize, hcap, hslots]
  rfl

/-- `insert`: descent with a recorded path, `add`, `update_child`, bottom-up `rebalance` over the path
    — equals the recursive insertion with rebalancing on the way back, slot for slot and register for register. -/
theorem Imp.insert_eq (c : TreeCfg) (kd : α) (vd : β) (s s' : Tree α β) (h : s.Inv c) (k : α) (v : β)
    (r : Option Nat) (hi : s.insert c k v = .ok (s', r)) :
    Imp.insert c (Imp.dflt kd vd) (s.image c kd vd) k v = (s'.image c kd vd, r) := by
  have hrep := Tree.rep_recAt c kd vd s h.rootNodup
  have hin := h.rootIn
  have hfullEq : Imp.isFull (s.image c kd vd) = s.isFull := rfl
  have hrootEq : (s.image c kd vd).hdr.root = s.root.slot := rfl
  unfold Tree.insert at hi
  unfold Imp.insert
  simp only [hrootEq, hfullEq, Tree.image_recs_length]
  by_cases hroot : s.root = .nil
  · -- empty tree
    simp only [hroot, T.slot_nil, if_true, T.find, Option.isSome_none, Bool.false_eq_true, if_false] at hi ⊢
    by_cases hfull : s.isFull = true
    · rw [if_pos hfull] at hi ⊢
      cases hi; rfl
    · rw [if_neg hfull] at hi ⊢
      have hnf : s.size < s.cap := by simpa [Tree.isFull] using hfull
      obtain ⟨s1, i, ha, hi1, hi2, hni, hroot1, hsize, hcap, hslots, hfr, hadd⟩ :=
        add_eq c kd vd s h hnf (Imp.dflt kd vd) k v
      rw [ha] at hi
      cases hi
      rw [hadd]
      simp only [setRoot_mkImg]
      congr 1
      rw [hroot1, hroot]
      have hleaf : Rep (upd (s.recAt c kd vd) i ⟨0, 0, 0, 0, k, v⟩) (T.node i .nil k v 0 .nil) :=
        ⟨by simp [T.rc], trivial, trivial⟩
      refine finish_insert c kd vd s s1 _ (T.ins i k v .nil) hsize hcap hslots (by simp [T.ins]) hleaf ?_
      intro j _ _ hj
      have hji : j ≠ i := by simpa [T.ins] using hj
      rw [upd_ne _ _ hji, hfr j hji]
      exact Tree.recAt_of_not_mem c kd vd s (by rw [hroot]; simp)
  · have hslot0 : s.root.slot ≠ 0 := fun e => hroot (hin.slot_eq_zero.1 e)
    rw [if_neg hslot0]
    cases hfind : s.root.find k with
    | some p =>
      simp only [hfind, Option.isSome_some, if_true] at hi
      cases hi
      rw [Tree.image_eq_mkImg, insertDescend_some _ _ _ _ k s.root _ _ hroot hrep hin
        (Nat.le_succ_of_le h.height_le) (by simp [hfind])]
    | none =>
      simp only [hfind, Option.isSome_none, Bool.false_eq_true, if_false] at hi
      obtain ⟨fr, ctx, path', hdesc, hID, hpath⟩ := insertDescend_none (Imp.dflt kd vd) (s.hdr c) s.slots
        (s.recAt c kd vd) k s.root (s.slots + 1) [(none, none, s.root.slot)] [] hroot hrep hin
        (Nat.le_succ_of_le h.height_le) hfind (by simp [pathOf])
      rw [← Tree.image_eq_mkImg] at hID
      rw [hID]
      dsimp only
      by_cases hfull : s.isFull = true
      · rw [if_pos hfull] at hi ⊢
        cases hi; rfl
      · rw [if_neg hfull] at hi ⊢
        have hnf : s.size < s.cap := by simpa [Tree.isFull] using hfull
        obtain ⟨s1, i, ha, hi1, hi2, hni, hroot1, hsize, hcap, hslots, hfr, hadd⟩ :=
          add_eq c kd vd s h hnf (Imp.dflt kd vd) k v
        rw [ha] at hi
        cases hi
        rw [hadd]
        dsimp only
        congr 1
        -- the zipper of the search path
        have hplug : plug (fr :: ctx) .nil = s.root := by
          rw [← hdesc]; exact T.plug_descend k s.root [] hfind
        have hrepP := hrep
        rw [← hplug, rep_plug] at hrepP
        obtain ⟨_, hfr0, hsib0, hctx0⟩ := hrepP
        have hperm : s.root.slots.Perm (slotsC (fr :: ctx)) := by
          have := slots_plug_perm (fr :: ctx) (.nil : T α β)
          rw [hplug] at this
          simpa using this
        have hndC : (slotsC (fr :: ctx)).Nodup := hperm.nodup_iff.1 h.rootNodup
        have hinC : ∀ x ∈ slotsC (fr :: ctx), 1 ≤ x ∧ x ≤ s.slots := fun x hx => hin x (hperm.mem_iff.2 hx)
        have hiC : i ∉ slotsC (fr :: ctx) := fun hm => hni (hperm.mem_iff.2 hm)
        simp only [slotsC] at hndC hinC hiC
        have hndC' := hndC
        simp only [List.cons_append, List.nodup_cons, List.mem_append, not_or, List.nodup_append] at hndC'
        simp only [List.cons_append, List.mem_cons, List.mem_append, not_or] at hiC
        -- after `add`
        have hleaf : Rep (upd (s.recAt c kd vd) i ⟨0, 0, 0, 0, k, v⟩) (T.node i .nil k v 0 .nil) :=
          ⟨by simp [T.rc], trivial, trivial⟩
        have hleafIn : (T.node i .nil k v 0 .nil : T α β).In s.slots :=
          T.In.node ⟨hi1, hi2⟩ (T.in_nil _) (T.in_nil _)
        have hfr1 : upd (s.recAt c kd vd) i ⟨0, 0, 0, 0, k, v⟩ fr.i = fr.rc 0 := by
          rw [upd_ne _ _ (Ne.symm hiC.1)]; exact hfr0
        have hsib1 : Rep (upd (s.recAt c kd vd) i ⟨0, 0, 0, 0, k, v⟩) fr.sib :=
          hsib0.upd_of_not_mem _ hiC.2.1
        have hctx1 : RepCtx (upd (s.recAt c kd vd) i ⟨0, 0, 0, 0, k, v⟩) ctx fr.i :=
          hctx0.congr (fun x hx => upd_ne _ _ (fun e => hiC.2.2 (e ▸ hx)))
        have hpin : 1 ≤ fr.i ∧ fr.i ≤ s.slots := hinC fr.i (by simp)
        have hsin : fr.sib.In s.slots := fun x hx => hinC x (by simp [hx])
        obtain ⟨h', e2, r2⟩ := updateChild_fill (Imp.dflt kd vd)
          { root := s.root.slot, size := s.size + 1, cap := s.cap, flh := s1.flhReg c, seq := s1.seqReg c,
            pad := 0 } s.slots _ fr (a := 0) (L := T.node i .nil k v 0 .nil) hpin hfr1 hleaf hsib1 hleafIn hsin
          (by simp; exact Ne.symm hiC.1) hndC'.1.1
        have e2' : Imp.updateChild (Imp.dflt kd vd) (mkImg _ s.slots _) fr.i fr.dir i = _ := e2
        rw [e2']
        -- the loop
        have hperm2 : (({ fr with h := h' } : Frame α β).fill (T.node i .nil k v 0 .nil)).slots.Perm
            (i :: fr.i :: fr.sib.slots) := by
          refine (Frame.slots_fill_perm _ _).trans ?_
          simp
        have hperm3 := hperm2.append_right (slotsC ctx)
        have hndAll : ((i :: fr.i :: fr.sib.slots) ++ slotsC ctx).Nodup := by
          rw [List.cons_append, List.nodup_cons]
          refine ⟨?_, hndC⟩
          simp only [List.cons_append, List.mem_cons, List.mem_append, not_or]
          exact ⟨hiC.1, hiC.2.1, hiC.2.2⟩
        have hctx2 : RepCtx (upd (upd (s.recAt c kd vd) i ⟨0, 0, 0, 0, k, v⟩) fr.i
            (({ fr with h := h' } : Frame α β).rc i)) ctx fr.i :=
          hctx1.congr (fun x hx => upd_ne _ _ (fun e => hndC'.1.2 (e ▸ hx)))
        have hroot2 : s.root.slot = rootSlot ctx fr.i := by
          rw [← hplug, slot_plug]; rfl
        obtain ⟨f3, e3, r3, p3, fr3⟩ := rebalance_loop (Imp.dflt kd vd) s.slots ctx
          { root := s.root.slot, size := s.size + 1, cap := s.cap, flh := s1.flhReg c, seq := s1.seqReg c,
            pad := 0 } _ _ (Frame.fill_ne_nil _ _) r2 (by simpa using hctx2)
          (hperm3.nodup_iff.2 hndAll)
          (by
            intro x hx
            have := hperm3.mem_iff.1 hx
            simp only [List.cons_append, List.mem_cons] at this
            rcases this with rfl | this
            · exact ⟨hi1, hi2⟩
            · exact hinC x (by simpa using this))
          (by simpa using hroot2)
        simp only [Frame.slot_fill] at e3
        have hup : up ctx (({ fr with h := h' } : Frame α β).fill (T.node i .nil k v 0 .nil)).rebalT =
            s.root.ins i k v := by
          rw [← Frame.rebalFill_eq]
          have := T.up_descend i k v s.root [] hfind
          rw [hdesc] at this
          exact this
        rw [hup] at e3 r3 p3
        unfold Imp.rebalance
        rw [hpath, e3, hroot1]
        refine finish_insert c kd vd s s1 f3 _ hsize hcap hslots ?_ r3 ?_
        · exact (p3.trans hperm3).nodup_iff.2 hndAll
        · intro j _ _ hj
          have hj' : j ∉ i :: fr.i :: fr.sib.slots ++ slotsC ctx := fun hm => hj ((p3.trans hperm3).mem_iff.2 hm)
          rw [fr3 j (fun hm => hj' (hperm3.mem_iff.1 hm))]
          simp only [List.cons_append, List.mem_cons, List.mem_append, not_or] at hj'
          rw [upd_ne _ _ hj'.2.1, upd_ne _ _ hj'.1, hfr j hj'.1]
          exact Tree.recAt_of_not_mem c kd vd s (fun hm => by
            have := hperm.mem_iff.1 hm
            simp only [slotsC, List.cons_append, List.mem_cons, List.mem_append] at this
            rcases this with h1 | h1 | h1
            · exact hj'.2.1 h1
            · exact hj'.2.2.1 h1
            · exact hj'.2.2.2 h1)

/- `remove` (descent, splice of the in-order successor, `rebalance` over the spliced path, `remove_node`) is
   proved in `Proofs/TreeImpRemove.lean` (`Imp.remove_eq`). -/

end Stevia
