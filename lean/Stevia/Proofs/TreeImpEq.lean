/-
  Stevia.Proofs.TreeImpEq — the literal register-level transcription of the iterative Rust
  algorithms (`Stevia.Model.TreeImp`) computes, on the layout of every well-formed state, exactly the
  layout of what the functional model (`Stevia.Model.Tree`) computes, with the same result.
-/
import Stevia.Model.TreeImp
import Stevia.Proofs.TreeState

namespace Stevia
variable {α β : Type} [LinOrd α]

/-- The default record the literal model reads for index 0 / out-of-range indices. -/
def Imp.dflt (kd : α) (vd : β) : Rec α β := ⟨0, 0, 0, 0, kd, vd⟩

/-- `find`: the literal descent finds the slot the functional `find` finds. -/
theorem Imp.find_eq (c : TreeCfg) (kd : α) (vd : β) (s : Tree α β) (h : s.Inv c) (k : α) :
    Imp.find (Imp.dflt kd vd) (s.image c kd vd) k (s.slots + 1) s.root.slot = (s.root.find k).map (·.1) := by
  sorry

/-- `lowest`. -/
theorem Imp.lowest_eq (c : TreeCfg) (kd : α) (vd : β) (s : Tree α β) (h : s.Inv c) :
    Imp.lowest (Imp.dflt kd vd) (s.image c kd vd) = s.lowest := by
  sorry

/-- `from_bytes_mut`. -/
theorem Imp.openMut_eq (c : TreeCfg) (kd : α) (vd : β) (s : Tree α β) (h : s.Inv c) :
    Imp.openMut c (s.image c kd vd) = (s.openMut c).image c kd vd := by
  sorry

/-- `get_mut` + write. -/
theorem Imp.update_eq (c : TreeCfg) (kd : α) (vd : β) (s : Tree α β) (h : s.Inv c) (k : α) (v : β) :
    Imp.update (Imp.dflt kd vd) (s.image c kd vd) k v = (((s.update k v).1).image c kd vd, (s.update k v).2) := by
  sorry

/-- `insert`: descent with a recorded path, `add`, `update_child`, bottom-up `rebalance` over the path
    — equals the recursive insertion with rebalancing on the way back, slot for slot and register for register. -/
theorem Imp.insert_eq (c : TreeCfg) (kd : α) (vd : β) (s s' : Tree α β) (h : s.Inv c) (k : α) (v : β)
    (r : Option Nat) (hi : s.insert c k v = .ok (s', r)) :
    Imp.insert c (Imp.dflt kd vd) (s.image c kd vd) k v = (s'.image c kd vd, r) := by
  sorry

/-- `remove`: descent, splice of the in-order successor, `rebalance` over the spliced path, `remove_node`. -/
theorem Imp.remove_eq (c : TreeCfg) (kd : α) (vd : β) (s s' : Tree α β) (h : s.Inv c) (k : α)
    (r : Option β) (hr : s.remove k = .ok (s', r)) :
    Imp.remove (Imp.dflt kd vd) (s.image c kd vd) k = (s'.image c kd vd, r) := by
  sorry

end Stevia
