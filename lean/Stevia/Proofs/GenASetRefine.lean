/-
  Stevia.Proofs.GenASetRefine — the translated `array_set.rs` on well-formed sets: no bounds check fails, no raw
  copy leaves the slice (the translated functions return `some`), and state and answer are the model's.
-/
import Stevia.Proofs.GenASet
import Stevia.Proofs.ArraySetState

namespace Stevia
namespace GenA
variable {α κ : Type} [LinOrd κ]

theorem insert_refines {key : α → κ} {P : Nat} {s : ASet α} (h : s.Inv key P) (x : α) :
    ∃ s' r, insert key P s x = some (s', r) ∧ s.insert key P x = .ok (s', r) ∧ s'.Inv key P := by
  rw [insert_eq key P s h.len_le]
  rcases ASet.insert_spec h x with ⟨_, h2⟩ | ⟨_, _, s', h2, h3, _⟩
  · exact ⟨s, false, by rw [h2]; rfl, h2, h⟩
  · exact ⟨s', true, by rw [h2]; rfl, h2, h3⟩

theorem take_refines {key : α → κ} {P : Nat} {s : ASet α} (h : s.Inv key P) (x : α) :
    ∃ s' r, take key P s x = some (s', r) ∧ s.take key (key x) = .ok (s', r) ∧ s'.Inv key P := by
  rw [take_eq key P s h.len_le]
  rcases ASet.take_spec h (key x) with ⟨_, h2⟩ | ⟨y, s', _, h2, h3, _⟩
  · exact ⟨s, none, by rw [h2]; rfl, h2, h⟩
  · exact ⟨s', some y, by rw [h2]; rfl, h2, h3⟩

theorem get_refines {key : α → κ} {P : Nat} {s : ASet α} (h : s.Inv key P) (x : α) :
    get key P s x = some (findK key (key x) s.view) ∧
    contains key P s x = some (findK key (key x) s.view).isSome := by
  rw [contains_eq key P s h.len_le, get_eq key P s h.len_le]
  unfold ASet.contains
  rw [ASet.get_spec h (key x)]
  exact ⟨rfl, rfl⟩

/-- Operations as the Rust API takes them: by element (lookups compare through `key`). -/
inductive EOp (α : Type) where
  | insert (x : α)
  | take (x : α)
  | get (x : α)
  | contains (x : α)
  | len

/-- The model operation an element-indexed operation stands for. -/
def EOp.toAS (key : α → κ) : EOp α → ASOp α κ
  | .insert x => .insert x
  | .take x => .take (key x)
  | .get x => .get (key x)
  | .contains x => .contains (key x)
  | .len => .len

/-- One operation of the translated source on a set, with its answer. -/
def stepImg (key : α → κ) (P : Nat) (m : ASet α) : EOp α → Option (ASet α × ASOut α)
  | .insert x => (insert key P m x).map fun r => (r.1, .bool r.2)
  | .take x => (take key P m x).map fun r => (r.1, .val r.2)
  | .get x => (get key P m x).map fun r => (m, .val r)
  | .contains x => (contains key P m x).map fun r => (m, .bool r)
  | .len => some (m, .nat (len key P m))

def runImg (key : α → κ) (P : Nat) : ASet α → List (EOp α) → Option (ASet α × List (ASOut α))
  | m, [] => some (m, [])
  | m, op :: ops => (stepImg key P m op).bind fun r => (runImg key P r.1 ops).map fun q => (q.1, r.2 :: q.2)

theorem step_refines {key : α → κ} {P : Nat} {s : ASet α} (h : s.Inv key P) (op : EOp α) :
    ∃ s' o, s.opStep key P (op.toAS key) = .ok (s', o) ∧ s'.Inv key P ∧ stepImg key P s op = some (s', o) := by
  obtain ⟨s', hstep, hinv, _, _⟩ := ASet.opStep_refines h (op.toAS key)
  refine ⟨s', _, hstep, hinv, ?_⟩
  have hle := h.len_le
  cases op with
  | insert x =>
    simp only [EOp.toAS, ASet.opStep] at hstep ⊢
    simp only [stepImg, insert_eq key P s hle]
    cases hi : s.insert key P x with
    | error e => rw [hi] at hstep; cases hstep
    | ok pr => rw [hi] at hstep; simp only [Except.map, Except.ok.injEq] at hstep; exact congrArg some hstep
  | take x =>
    simp only [EOp.toAS, ASet.opStep] at hstep ⊢
    simp only [stepImg, take_eq key P s hle]
    cases hi : s.take key (key x) with
    | error e => rw [hi] at hstep; cases hstep
    | ok pr => rw [hi] at hstep; simp only [Except.map, Except.ok.injEq] at hstep; exact congrArg some hstep
  | get x =>
    simp only [EOp.toAS, ASet.opStep] at hstep ⊢
    simp only [stepImg, get_eq key P s hle]
    cases hi : s.get key (key x) with
    | error e => rw [hi] at hstep; cases hstep
    | ok pr => rw [hi] at hstep; simp only [Except.map, Except.ok.injEq] at hstep; exact congrArg some hstep
  | contains x =>
    simp only [EOp.toAS, ASet.opStep] at hstep ⊢
    simp only [stepImg, contains_eq key P s hle]
    cases hi : s.contains key (key x) with
    | error e => rw [hi] at hstep; cases hstep
    | ok pr => rw [hi] at hstep; simp only [Except.map, Except.ok.injEq] at hstep; exact congrArg some hstep
  | len =>
    simp only [EOp.toAS, ASet.opStep, Except.ok.injEq] at hstep ⊢
    simp only [stepImg, len_eq key P s hle]
    exact congrArg some hstep

/-- **Whole histories**: over any history of element-indexed operations from a well-formed set (in particular from a
    zero-filled buffer) the translated source answers, step by step, `some` of what the model answers — no failed
    bounds check, no raw copy out of range, no loop that runs on — and ends in the model's final state. -/
theorem run_refines {key : α → κ} {P : Nat} {s : ASet α} (h : s.Inv key P) (ops : List (EOp α)) :
    ∃ s' outs, s.opRun key P (ops.map (EOp.toAS key)) = .ok (s', outs) ∧ s'.Inv key P ∧
      runImg key P s ops = some (s', outs) := by
  induction ops generalizing s with
  | nil => exact ⟨s, [], rfl, h, rfl⟩
  | cons op ops ih =>
    obtain ⟨s1, o, hstep, hinv, himg⟩ := step_refines h op
    obtain ⟨s', outs, hrun, hinv', himg'⟩ := ih hinv
    refine ⟨s', o :: outs, ?_, hinv', ?_⟩
    · simp only [List.map_cons, ASet.opRun, hstep, hrun]
    · simp only [runImg, himg, Option.bind_some, himg', Option.map_some]

end GenA
end Stevia
