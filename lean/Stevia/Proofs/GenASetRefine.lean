/-
  Stevia.Proofs.GenASetRefine — the translated `array_set.rs` on well-formed sets: no bounds check fails, no raw
  copy leaves the slice (the translated functions return `some`), and state and answer are the model's.
-/
import Stevia.Proofs.GenASet
import Stevia.Proofs.ArraySetState

namespace Stevia
namespace GenA
variable {α κ : Type} [LinOrd κ]

theorem insert_refines {key : α → κ} {P : Nat} {s : ASet α} (h : s.Inv key P) (x : α) :
    ∃ s' r, insert key P s x = some (s', r) ∧ s.insert key P x = .ok (s', r) ∧ s'.Inv key P := by
  rw [insert_eq key P s h.len_le]
  rcases ASet.insert_spec h x with ⟨_, h2⟩ | ⟨_, _, s', h2, h3, _⟩
  · exact ⟨s, false, by rw [h2]; rfl, h2, h⟩
  · exact ⟨s', true, by rw [h2]; rfl, h2, h3⟩

theorem take_refines {key : α → κ} {P : Nat} {s : ASet α} (h : s.Inv key P) (x : α) :
    ∃ s' r, take key P s x = some (s', r) ∧ s.take key (key x) = .ok (s', r) ∧ s'.Inv key P := by
  rw [take_eq key P s h.len_le]
  rcases ASet.take_spec h (key x) with ⟨_, h2⟩ | ⟨y, s', _, h2, h3, _⟩
  · exact ⟨s, none, by rw [h2]; rfl, h2, h⟩
  · exact ⟨s', some y, by rw [h2]; rfl, h2, h3⟩

theorem get_refines {key : α → κ} {P : Nat} {s : ASet α} (h : s.Inv key P) (x : α) :
    get key P s x = some (findK key (key x) s.view) ∧
    contains key P s x = some (findK key (key x) s.view).isSome := by
  rw [contains_eq key P s h.len_le, get_eq key P s h.len_le]
  unfold ASet.contains
  rw [ASet.get_spec h (key x)]
  exact ⟨rfl, rfl⟩

end GenA
end Stevia
