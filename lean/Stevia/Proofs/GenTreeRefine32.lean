/-
  Stevia.Proofs.GenTreeRefine32 — end of the chain for `avl_tree.rs`:

      translated source (Gen32.*)  =  if <loops terminate> then some (literal model Imp.*) else none
      literal model                =  functional model (Tree.*) on layouts          (TreeImpEq, TreeImpRemove)
      loops terminate                on layouts of well-formed states                (TreeImpTerm)

  For every state `s` satisfying the invariant (every reachable state does), running the *translated Rust function*
  on the register layout of `s` answers `some …` — it neither panics nor runs out of fuel (no endless loop) — with
  the register layout of the functional model's result and the functional model's answer.  The property theorems
  (C01 … C12) are about the functional model.
-/
import Stevia.Proofs.GenTreeOps32
import Stevia.Proofs.GenTreeOpen32
import Stevia.Proofs.TreeImpTerm

namespace Stevia
namespace Gen32
open Imp
variable {α β : Type} [LinOrd α]
set_option linter.unusedSectionVars false

theorem find_refines (kd : α) (vd : β) (s : Tree α β) (h : s.Inv cfgU32) (k : α) :
    find (Imp.dflt kd vd) (s.image cfgU32 kd vd) k = some ((s.root.find k).map (·.1)) := by
  rw [find_eq, Tree.image_recs_length]
  rw [show (s.image cfgU32 kd vd).hdr.root = s.root.slot from rfl, Imp.findT_image cfgU32 kd vd s h k,
    Imp.find_eq cfgU32 kd vd s h k]
  rfl

theorem contains_refines (kd : α) (vd : β) (s : Tree α β) (h : s.Inv cfgU32) (k : α) :
    contains (Imp.dflt kd vd) (s.image cfgU32 kd vd) k = some (s.root.find k).isSome := by
  rw [contains_eq, Tree.image_recs_length]
  rw [show (s.image cfgU32 kd vd).hdr.root = s.root.slot from rfl, Imp.findT_image cfgU32 kd vd s h k,
    Imp.find_eq cfgU32 kd vd s h k]
  cases s.root.find k <;> rfl

theorem lowest_refines (kd : α) (vd : β) (s : Tree α β) (h : s.Inv cfgU32) :
    lowest (Imp.dflt kd vd) (s.image cfgU32 kd vd) = some s.lowest := by
  rw [lowest_eq, Tree.image_recs_length, show (s.image cfgU32 kd vd).hdr.root = s.root.slot from rfl,
    if_pos (Imp.lowestT_image cfgU32 kd vd s h), Imp.lowest_eq cfgU32 kd vd s h]

theorem from_bytes_mut_refines (kd : α) (vd : β) (s : Tree α β) (h : s.Inv cfgU32) :
    from_bytes_mut (Imp.dflt kd vd) (s.image cfgU32 kd vd) = (s.openMut cfgU32).image cfgU32 kd vd := by
  rw [from_bytes_mut_eq]; exact Imp.openMut_eq cfgU32 kd vd s h

theorem get_mut_refines (kd : α) (vd : β) (s : Tree α β) (h : s.Inv cfgU32) (k : α) (v : β) :
    (get_mut (Imp.dflt kd vd) (s.image cfgU32 kd vd) k).map (fun r => match r.2 with
      | none => (s.image cfgU32 kd vd, false)
      | some i => (wr (s.image cfgU32 kd vd) i fun r => { r with val := v }, true))
      = some (((s.update k v).1).image cfgU32 kd vd, (s.update k v).2) := by
  refine (get_mut_eq _ _ k v).trans ?_
  rw [Tree.image_recs_length, show (s.image cfgU32 kd vd).hdr.root = s.root.slot from rfl,
    Imp.findT_image cfgU32 kd vd s h k, Imp.update_eq cfgU32 kd vd s h k v]
  rfl

theorem insert_refines (kd : α) (vd : β) (s s' : Tree α β) (h : s.Inv cfgU32) (k : α) (v : β)
    (r : Option Nat) (hi : s.insert cfgU32 k v = .ok (s', r)) :
    insert (Imp.dflt kd vd) (s.image cfgU32 kd vd) k v = some (s'.image cfgU32 kd vd, r) := by
  rw [insert_eq, Tree.image_recs_length, show (s.image cfgU32 kd vd).hdr.root = s.root.slot from rfl,
    if_pos (Imp.insertT_image cfgU32 kd vd s h k)]
  have hget := Imp.insertO_getD cfgU32 (Imp.dflt kd vd) (s.image cfgU32 kd vd) k v
  rw [Imp.insert_eq cfgU32 kd vd s s' h k v r hi] at hget
  -- `insertO` is never `none` here: `add` succeeds whenever the tree is not full
  have hsome : ∃ x, Imp.insertO cfgU32 (Imp.dflt kd vd) (s.image cfgU32 kd vd) k v = some x := by
    unfold Imp.insertO
    have hfullEq : Imp.isFull (s.image cfgU32 kd vd) = s.isFull := rfl
    by_cases hf : s.isFull = true
    · simp only [hfullEq, hf, if_true]
      split
      · exact ⟨_, rfl⟩
      · split <;> exact ⟨_, rfl⟩
    · have hlt : s.size < s.cap := by
        simp only [Tree.isFull, ge_iff_le, decide_eq_true_eq, Nat.not_le] at hf; exact hf
      obtain ⟨s1, i, _, _, _, _, _, _, _, _, _, hadd⟩ := _root_.Stevia.add_eq cfgU32 kd vd s h hlt (Imp.dflt kd vd) k v
      simp only [hfullEq, hf, Bool.false_eq_true, if_false, hadd, Option.map_some]
      split
      · exact ⟨_, rfl⟩
      · split <;> exact ⟨_, rfl⟩
  obtain ⟨x, hx⟩ := hsome
  rw [hx] at hget ⊢
  simp only [Option.getD_some] at hget
  rw [hget]

theorem remove_refines (kd : α) (vd : β) (s s' : Tree α β) (h : s.Inv cfgU32) (k : α)
    (r : Option β) (hr : s.remove k = .ok (s', r)) :
    remove (Imp.dflt kd vd) (s.image cfgU32 kd vd) k = some (s'.image cfgU32 kd vd, r) := by
  rw [remove_eq, Imp.removeTerm_image cfgU32 kd vd s h k, Imp.remove_eq cfgU32 kd vd s s' h k r hr]
  rfl

theorem sizes_refine (kd : α) (vd : β) (s : Tree α β) :
    len (Imp.dflt kd vd) (s.image cfgU32 kd vd) = s.size ∧
    capacity (Imp.dflt kd vd) (s.image cfgU32 kd vd) = s.cap ∧
    is_full (Imp.dflt kd vd) (s.image cfgU32 kd vd) = s.isFull ∧
    is_empty (Imp.dflt kd vd) (s.image cfgU32 kd vd) = decide (s.size = 0) :=
  ⟨rfl, rfl, rfl, rfl⟩

/-- One whole `insert` transition as the Rust performs it on a buffer — `from_bytes_mut`, then `insert` —
    from the layout of any reachable state: the translated code answers `some …` (no panic, no loop that runs on),
    ends in the layout of a reachable state, and both the state and the returned slot are the functional model's. -/
theorem transition_insert (kd : α) (vd : β) (s : Tree α β) (h : Tree.Reach cfgU32 s) (k : α) (v : β) :
    ∃ s' r, Tree.Reach cfgU32 s' ∧ (s.openMut cfgU32).insert cfgU32 k v = .ok (s', r) ∧
      insert (Imp.dflt kd vd) (from_bytes_mut (Imp.dflt kd vd) (s.image cfgU32 kd vd)) k v
        = some (s'.image cfgU32 kd vd, r) := by
  have hinv := Tree.reach_inv h
  obtain ⟨s', hs, _⟩ := Tree.step_ok hinv (TreeOp.insert k v) trivial
  have hreach : Tree.Reach cfgU32 s' := Tree.Reach.step (TreeOp.insert k v) h trivial hs
  simp only [Tree.step] at hs
  cases hx : (s.openMut cfgU32).insert cfgU32 k v with
  | error e => rw [hx] at hs; cases hs
  | ok pr =>
    obtain ⟨s1, r⟩ := pr
    rw [hx] at hs
    have : s1 = s' := by simpa [Except.map] using hs
    subst this
    refine ⟨s1, r, hreach, rfl, ?_⟩
    rw [from_bytes_mut_refines kd vd s hinv]
    exact insert_refines kd vd _ _ (Tree.inv_openMut hinv) k v r hx

/-- The same for `remove`. -/
theorem transition_remove (kd : α) (vd : β) (s : Tree α β) (h : Tree.Reach cfgU32 s) (k : α) :
    ∃ s' r, Tree.Reach cfgU32 s' ∧ (s.openMut cfgU32).remove k = .ok (s', r) ∧
      remove (Imp.dflt kd vd) (from_bytes_mut (Imp.dflt kd vd) (s.image cfgU32 kd vd)) k
        = some (s'.image cfgU32 kd vd, r) := by
  have hinv := Tree.reach_inv h
  obtain ⟨s', hs, _⟩ := Tree.step_ok hinv (TreeOp.remove k) trivial
  have hreach : Tree.Reach cfgU32 s' := Tree.Reach.step (TreeOp.remove k) h trivial hs
  simp only [Tree.step] at hs
  cases hx : (s.openMut cfgU32).remove k with
  | error e => rw [hx] at hs; cases hs
  | ok pr =>
    obtain ⟨s1, r⟩ := pr
    rw [hx] at hs
    have : s1 = s' := by simpa [Except.map] using hs
    subst this
    refine ⟨s1, r, hreach, rfl, ?_⟩
    rw [from_bytes_mut_refines kd vd s hinv]
    exact remove_refines kd vd _ _ (Tree.inv_openMut hinv) k r hx

end Gen32
end Stevia
