/-
  Stevia.Proofs.GenTreeRefine32 — end of the chain for `avl_tree.rs`:

      translated source (Gen32.*)  =  literal model (Imp.*)  =  functional model (Tree.*) on layouts

  For every state `s` satisfying the invariant (every reachable state does), running the *translated Rust
  function* on the register layout of `s` yields the register layout of the functional model's result and the
  functional model's answer.  The property theorems (C01 … C12) are about the functional model.
-/
import Stevia.Proofs.GenTreeOps32
import Stevia.Proofs.TreeImpRemove

namespace Stevia
namespace Gen32
open Imp
variable {α β : Type} [LinOrd α]
set_option linter.unusedSectionVars false

theorem insert_refines (kd : α) (vd : β) (s s' : Tree α β) (h : s.Inv cfgU32) (k : α) (v : β)
    (r : Option Nat) (hi : s.insert cfgU32 k v = .ok (s', r)) :
    (insert (Imp.dflt kd vd) (s.image cfgU32 kd vd) k v).getD (s.image cfgU32 kd vd, none)
      = (s'.image cfgU32 kd vd, r) := by
  rw [insert_eq]; exact Imp.insert_eq cfgU32 kd vd s s' h k v r hi

theorem remove_refines (kd : α) (vd : β) (s s' : Tree α β) (h : s.Inv cfgU32) (k : α)
    (r : Option β) (hr : s.remove k = .ok (s', r)) :
    remove (Imp.dflt kd vd) (s.image cfgU32 kd vd) k = (s'.image cfgU32 kd vd, r) := by
  rw [remove_eq]; exact Imp.remove_eq cfgU32 kd vd s s' h k r hr

theorem find_refines (kd : α) (vd : β) (s : Tree α β) (h : s.Inv cfgU32) (k : α) :
    find (Imp.dflt kd vd) (s.image cfgU32 kd vd) k = (s.root.find k).map (·.1) := by
  rw [find_eq, Tree.image_recs_length]; exact Imp.find_eq cfgU32 kd vd s h k

theorem contains_refines (kd : α) (vd : β) (s : Tree α β) (h : s.Inv cfgU32) (k : α) :
    contains (Imp.dflt kd vd) (s.image cfgU32 kd vd) k = (s.root.find k).isSome := by
  rw [contains_eq, Tree.image_recs_length]
  have := Imp.find_eq cfgU32 kd vd s h k
  rw [show (s.image cfgU32 kd vd).hdr.root = s.root.slot from rfl, this]
  cases s.root.find k <;> rfl

theorem lowest_refines (kd : α) (vd : β) (s : Tree α β) (h : s.Inv cfgU32) :
    lowest (Imp.dflt kd vd) (s.image cfgU32 kd vd) = s.lowest := by
  rw [lowest_eq]; exact Imp.lowest_eq cfgU32 kd vd s h

theorem from_bytes_mut_refines (kd : α) (vd : β) (s : Tree α β) (h : s.Inv cfgU32) :
    from_bytes_mut (Imp.dflt kd vd) (s.image cfgU32 kd vd) = (s.openMut cfgU32).image cfgU32 kd vd := by
  rw [from_bytes_mut_eq]; exact Imp.openMut_eq cfgU32 kd vd s h

theorem get_mut_refines (kd : α) (vd : β) (s : Tree α β) (h : s.Inv cfgU32) (k : α) (v : β) :
    (match (get_mut (Imp.dflt kd vd) (s.image cfgU32 kd vd) k).2 with
      | none => (s.image cfgU32 kd vd, false)
      | some i => (wr (s.image cfgU32 kd vd) i fun r => { r with val := v }, true))
      = (((s.update k v).1).image cfgU32 kd vd, (s.update k v).2) := by
  exact (get_mut_eq _ _ k v).trans (Imp.update_eq cfgU32 kd vd s h k v)

theorem sizes_refine (kd : α) (vd : β) (s : Tree α β) :
    len (Imp.dflt kd vd) (s.image cfgU32 kd vd) = s.size ∧
    capacity (Imp.dflt kd vd) (s.image cfgU32 kd vd) = s.cap ∧
    is_full (Imp.dflt kd vd) (s.image cfgU32 kd vd) = s.isFull ∧
    is_empty (Imp.dflt kd vd) (s.image cfgU32 kd vd) = decide (s.size = 0) :=
  ⟨rfl, rfl, rfl, rfl⟩

/-- One whole `insert` transition as the Rust performs it on a buffer — `from_bytes_mut`, then `insert` —
    from the layout of any reachable state: it cannot fault, it ends in the layout of a reachable state, and both
    the state and the returned slot are the functional model's. -/
theorem transition_insert (kd : α) (vd : β) (s : Tree α β) (h : Tree.Reach cfgU32 s) (k : α) (v : β) :
    ∃ s' r, Tree.Reach cfgU32 s' ∧ (s.openMut cfgU32).insert cfgU32 k v = .ok (s', r) ∧
      (insert (Imp.dflt kd vd) (from_bytes_mut (Imp.dflt kd vd) (s.image cfgU32 kd vd)) k v).getD
          (from_bytes_mut (Imp.dflt kd vd) (s.image cfgU32 kd vd), none) = (s'.image cfgU32 kd vd, r) := by
  have hinv := Tree.reach_inv h
  obtain ⟨s', hs, _⟩ := Tree.step_ok hinv (TreeOp.insert k v) trivial
  have hreach : Tree.Reach cfgU32 s' := Tree.Reach.step (TreeOp.insert k v) h trivial hs
  simp only [Tree.step] at hs
  cases hx : (s.openMut cfgU32).insert cfgU32 k v with
  | error e => rw [hx] at hs; cases hs
  | ok pr =>
    obtain ⟨s1, r⟩ := pr
    rw [hx] at hs
    have : s1 = s' := by simpa [Except.map] using hs
    subst this
    refine ⟨s1, r, hreach, rfl, ?_⟩
    rw [from_bytes_mut_refines kd vd s hinv]
    exact insert_refines kd vd _ _ (Tree.inv_openMut hinv) k v r hx

/-- The same for `remove`. -/
theorem transition_remove (kd : α) (vd : β) (s : Tree α β) (h : Tree.Reach cfgU32 s) (k : α) :
    ∃ s' r, Tree.Reach cfgU32 s' ∧ (s.openMut cfgU32).remove k = .ok (s', r) ∧
      remove (Imp.dflt kd vd) (from_bytes_mut (Imp.dflt kd vd) (s.image cfgU32 kd vd)) k
        = (s'.image cfgU32 kd vd, r) := by
  have hinv := Tree.reach_inv h
  obtain ⟨s', hs, _⟩ := Tree.step_ok hinv (TreeOp.remove k) trivial
  have hreach : Tree.Reach cfgU32 s' := Tree.Reach.step (TreeOp.remove k) h trivial hs
  simp only [Tree.step] at hs
  cases hx : (s.openMut cfgU32).remove k with
  | error e => rw [hx] at hs; cases hs
  | ok pr =>
    obtain ⟨s1, r⟩ := pr
    rw [hx] at hs
    have : s1 = s' := by simpa [Except.map] using hs
    subst this
    refine ⟨s1, r, hreach, rfl, ?_⟩
    rw [from_bytes_mut_refines kd vd s hinv]
    exact remove_refines kd vd _ _ (Tree.inv_openMut hinv) k r hx

end Gen32
end Stevia
