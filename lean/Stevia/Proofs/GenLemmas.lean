/-
  Stevia.Proofs.GenLemmas — small facts used to bridge generated `do` blocks and the literal models.
-/
import Stevia.Model.TreeImp
import Stevia.Model.Fuel

namespace Stevia
open Imp
variable {α β : Type}

/-- Two successive writes to the same record fuse. -/
theorem Imp.wr_wr (m : TreeImage α β) (i : Nat) (f g : Rec α β → Rec α β) :
    wr (wr m i f) i g = wr m i (g ∘ f) := by
  unfold wr
  split
  · rfl
  · simp [List.modify_modify_eq] 

@[simp] theorem Imp.wr_hdr (m : TreeImage α β) (i : Nat) (f : Rec α β → Rec α β) : (wr m i f).hdr = m.hdr := by
  unfold wr; split <;> rfl

@[simp] theorem Imp.wr_recs_length (m : TreeImage α β) (i : Nat) (f : Rec α β → Rec α β) :
    (wr m i f).recs.length = m.recs.length := by
  unfold wr; split <;> simp

/-- A fuel loop in `Id` computes any function that satisfies its one-step unfolding. -/
theorem Fuel.forIn_eq_of {σ : Type} (body : Unit → σ → Id (ForInStep σ)) (F : Nat → σ → σ)
    (h0 : ∀ s, F 0 s = s)
    (hstep : ∀ n s, F (n + 1) s = match body () s with
      | .done s' => s'
      | .yield s' => F n s') :
    ∀ n s, Fuel.forIn body n s = (pure (F n s) : Id σ) := by
  intro n
  induction n with
  | zero => intro s; simp only [Fuel.forIn, h0]
  | succ n ih =>
    intro s
    simp only [Fuel.forIn, hstep]
    show (match body () s with
      | .done s' => pure s'
      | .yield s' => Fuel.forIn body n s') = _
    cases body () s with
    | done s' => rfl
    | yield s' => exact ih s'

/-- The same in the `Option` monad, for a body that never fails. -/
theorem Fuel.forIn_eq_of_opt {σ : Type} (body : Unit → σ → Option (ForInStep σ)) (F : Nat → σ → σ)
    (h0 : ∀ s, F 0 s = s)
    (hstep : ∀ n s, match body () s with
      | some (.done s') => F (n + 1) s = s'
      | some (.yield s') => F (n + 1) s = F n s'
      | none => False) :
    ∀ n s, Fuel.forIn body n s = some (F n s) := by
  intro n
  induction n with
  | zero => intro s; simp only [Fuel.forIn, h0]; rfl
  | succ n ih =>
    intro s
    have h := hstep n s
    simp only [Fuel.forIn]
    show (body () s >>= fun x => match x with
      | .done s' => pure s'
      | .yield s' => Fuel.forIn body n s') = _
    cases hb : body () s with
    | none => rw [hb] at h; exact h.elim
    | some x =>
      rw [hb] at h
      cases x with
      | done s' => simp only [] at h; rw [h]; rfl
      | yield s' => simp only [] at h; rw [h]; exact ih s'

/-- The same for a body that may fail (`none` propagates). -/
theorem Fuel.forIn_eq_of_optF {σ : Type} (body : Unit → σ → Option (ForInStep σ)) (F : Nat → σ → Option σ)
    (h0 : ∀ s, F 0 s = some s)
    (hstep : ∀ n s, match body () s with
      | some (.done s') => F (n + 1) s = some s'
      | some (.yield s') => F (n + 1) s = F n s'
      | none => F (n + 1) s = none) :
    ∀ n s, Fuel.forIn body n s = F n s := by
  intro n
  induction n with
  | zero => intro s; simp only [Fuel.forIn, h0]; rfl
  | succ n ih =>
    intro s
    have h := hstep n s
    simp only [Fuel.forIn]
    show (body () s >>= fun x => match x with
      | .done s' => pure s'
      | .yield s' => Fuel.forIn body n s') = _
    cases hb : body () s with
    | none => rw [hb] at h; simp only [] at h; rw [h]; rfl
    | some x =>
      rw [hb] at h
      cases x with
      | done s' => simp only [] at h; rw [h]; rfl
      | yield s' => simp only [] at h; rw [h]; exact ih s'

/-- A `for` over a list whose body never breaks is a left fold. -/
theorem forIn_eq_foldl_of {γ σ : Type} (l : List γ) (init : σ) (body : γ → σ → Id (ForInStep σ)) (g : σ → γ → σ)
    (h : ∀ a b, body a b = pure (ForInStep.yield (g b a))) :
    forIn l init body = (pure (l.foldl g init) : Id σ) := by
  have : body = fun a b => pure (ForInStep.yield (g b a)) := funext fun a => funext fun b => h a b
  rw [this]
  exact List.forIn_pure_yield_eq_foldl _ _

end Stevia
