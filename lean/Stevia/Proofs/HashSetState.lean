/-
  Stevia.Proofs.HashSetState — invariant of the hash-set model, refinement to a
  capacity-bounded set (for an arbitrary hash function), iteration, fill-up,
  totality, layout round trip.
-/
import Stevia.Model.HashSet
import Stevia.Model.HashSetLayout

namespace Stevia
variable {β : Type}

/-- Invariant of every reachable hash-set state, for the hash function `hash`. -/
structure HSet.Inv (hash : β → Nat) (s : HSet β) : Prop where
  /-- every stored value sits in the chain of its own bucket, and only buckets `< cap` are used -/
  placed : ∀ b (ch : List (Nat × β)), s.chains[b]? = some ch → ∀ e ∈ ch, b < s.cap ∧ s.bucket hash e.2 = b
  /-- no value is stored twice -/
  nodupVals : s.members.Nodup
  size_eq : s.size = s.liveSlots.length
  nodup : (s.liveSlots ++ s.free).Nodup
  range : ∀ i ∈ s.liveSlots ++ s.free, 1 ≤ i ∧ i < s.seq
  count : (s.liveSlots ++ s.free).length + 1 = s.seq
  seq_le : s.seq ≤ s.cap + 1
  cap_le : s.cap ≤ s.slots
  slots_lt : s.slots < 4294967295

inductive SetOp (β : Type) where
  | insert (v : β)
  | remove (v : β)
  | contains (v : β)
  | size
  | isEmpty
  | isFull

inductive SetOut where
  | bool (b : Bool)
  | nat (n : Nat)
deriving DecidableEq

/-- Reference: a capacity-bounded set, kept as a duplicate-free list. Insert
    returns true exactly when the value was absent and the set not full;
    remove returns true exactly when the value was present and removes only it. -/
def BSet.step [DecidableEq β] (cap : Nat) (m : List β) : SetOp β → List β × SetOut
  | .insert v => if v ∈ m ∨ m.length ≥ cap then (m, .bool false) else (v :: m, .bool true)
  | .remove v => if v ∈ m then (m.erase v, .bool true) else (m, .bool false)
  | .contains v => (m, .bool (decide (v ∈ m)))
  | .size => (m, .nat m.length)
  | .isEmpty => (m, .bool (m.length == 0))
  | .isFull => (m, .bool (decide (m.length ≥ cap)))

def BSet.run [DecidableEq β] (cap : Nat) (m : List β) : List (SetOp β) → List β × List SetOut
  | [] => (m, [])
  | op :: ops =>
    let r := BSet.step cap m op
    let rr := BSet.run cap r.1 ops
    (rr.1, r.2 :: rr.2)

def HSet.setStep [DecidableEq β] (hash : β → Nat) (s : HSet β) : SetOp β → Except Fault (HSet β × SetOut)
  | .insert v => (s.insert hash v).map fun r => (r.1, .bool r.2)
  | .remove v => (s.remove hash v).map fun r => (r.1, .bool r.2)
  | .contains v => (s.contains hash v).map fun r => (s, .bool r)
  | .size => .ok (s, .nat s.size)
  | .isEmpty => .ok (s, .bool s.isEmpty)
  | .isFull => .ok (s, .bool s.isFull)

def HSet.setRun [DecidableEq β] (hash : β → Nat) (s : HSet β) :
    List (SetOp β) → Except Fault (HSet β × List SetOut)
  | [] => .ok (s, [])
  | op :: ops =>
    match s.setStep hash op with
    | .error e => .error e
    | .ok (s', o) =>
      match HSet.setRun hash s' ops with
      | .error e => .error e
      | .ok (s'', os) => .ok (s'', o :: os)

/-- Insert every value of the list; every insertion must report `true`. -/
def HSet.insertAll [DecidableEq β] (hash : β → Nat) (s : HSet β) : List β → Option (HSet β)
  | [] => some s
  | v :: rest =>
    match s.insert hash v with
    | .ok (s', true) => HSet.insertAll hash s' rest
    | _ => none

/-- What the register layout needs of a state to be decodable. -/
structure HSet.LayoutOk (s : HSet β) : Prop where
  nodup : (s.liveSlots ++ s.free).Nodup
  range : ∀ i ∈ s.liveSlots ++ s.free, 1 ≤ i ∧ i ≤ s.slots
  free_ne : ∀ i ∈ s.free, i ≠ s.seq

section Lemmas
variable [DecidableEq β]

theorem HSet.inv_init (hash : β → Nat) (slots cap : Nat) (h1 : cap ≤ slots) (h2 : slots < 4294967295) :
    (HSet.init slots cap : HSet β).Inv hash := by
  sorry

/-- `contains` never faults and is membership. -/
theorem HSet.contains_spec {hash : β → Nat} {s : HSet β} (h : s.Inv hash) (v : β) :
    s.contains hash v = .ok (decide (v ∈ s.members)) := by
  sorry

/-- `insert`: refused (state unchanged) exactly for a member or a full set; otherwise the value joins the members. -/
theorem HSet.insert_spec {hash : β → Nat} {s : HSet β} (h : s.Inv hash) (v : β) :
    ((v ∈ s.members ∨ s.size ≥ s.cap) ∧ s.insert hash v = .ok (s, false)) ∨
    (v ∉ s.members ∧ s.size < s.cap ∧
      ∃ s', s.insert hash v = .ok (s', true) ∧ s'.Inv hash ∧ s'.members.Perm (v :: s.members) ∧
        s'.cap = s.cap ∧ s'.slots = s.slots ∧ s'.size = s.size + 1) := by
  sorry

/-- `remove`: refused (state unchanged) exactly for a non-member; otherwise only that value leaves. -/
theorem HSet.remove_spec {hash : β → Nat} {s : HSet β} (h : s.Inv hash) (v : β) :
    (v ∉ s.members ∧ s.remove hash v = .ok (s, false)) ∨
    (v ∈ s.members ∧
      ∃ s', s.remove hash v = .ok (s', true) ∧ s'.Inv hash ∧ s.members.Perm (v :: s'.members) ∧
        s'.cap = s.cap ∧ s'.slots = s.slots ∧ s'.size + 1 = s.size) := by
  sorry

theorem HSet.size_eq_members {hash : β → Nat} {s : HSet β} (h : s.Inv hash) : s.size = s.members.length := by
  sorry

/-- One operation equals one operation of the reference set, for any list `m`
    that is a permutation of the members. -/
theorem HSet.setStep_refines {hash : β → Nat} {s : HSet β} (h : s.Inv hash) (m : List β)
    (hm : s.members.Perm m) (op : SetOp β) :
    ∃ s', s.setStep hash op = .ok (s', (BSet.step s.cap m op).2) ∧ s'.Inv hash ∧
      s'.members.Perm (BSet.step s.cap m op).1 ∧ s'.cap = s.cap := by
  sorry

/-- Whole histories. -/
theorem HSet.setRun_refines {hash : β → Nat} {s : HSet β} (h : s.Inv hash) (m : List β)
    (hm : s.members.Perm m) (ops : List (SetOp β)) :
    ∃ s', s.setRun hash ops = .ok (s', (BSet.run s.cap m ops).2) ∧ s'.Inv hash ∧
      s'.members.Perm (BSet.run s.cap m ops).1 := by
  sorry

/-- Iterating the read-only view yields every member exactly once and nothing else. -/
theorem HSet.iter_spec {hash : β → Nat} {s : HSet β} (h : s.Inv hash) :
    s.iter = s.members ∧ s.iter.Nodup := by
  sorry

/-- Exactly `cap - size` further new values fit. -/
theorem HSet.fill_spec {hash : β → Nat} {s : HSet β} (h : s.Inv hash) (vs : List β)
    (hnd : vs.Nodup) (hfresh : ∀ v ∈ vs, v ∉ s.members) (hlen : vs.length + s.size = s.cap) :
    ∃ s', s.insertAll hash vs = some s' ∧ s'.Inv hash ∧ s'.size = s'.cap ∧ s'.cap = s.cap ∧
      ∀ v, s'.insert hash v = .ok (s', false) := by
  sorry

/-- Layout precondition follows from the invariant. -/
theorem HSet.Inv.layoutOk {hash : β → Nat} {s : HSet β} (h : s.Inv hash) : s.LayoutOk := by
  sorry

/-- The structural decoder inverts the layout. -/
theorem HImage.decodeCore_image (vd : β) (s : HSet β) (h : s.LayoutOk) :
    (s.image vd).decodeCore = some s := by
  sorry

theorem HImage.decode_image (vd : β) (s : HSet β) (h : s.LayoutOk) :
    (s.image vd).decode vd = some s := by
  sorry

theorem HImage.image_of_decode (vd : β) (img : HImage β) (s : HSet β) (h : img.decode vd = some s) :
    s.image vd = img := by
  sorry

end Lemmas
end Stevia
