/-
  Stevia.Proofs.HashSetState — invariant of the hash-set model, refinement to a
  capacity-bounded set (for an arbitrary hash function), iteration, fill-up,
  totality, layout round trip.
-/
import Stevia.Model.HashSet
import Stevia.Model.HashSetLayout
import Stevia.Proofs.TreeLayoutRT

namespace Stevia
variable {β : Type}

/-- Invariant of every reachable hash-set state, for the hash function `hash`. -/
structure HSet.Inv (hash : β → Nat) (s : HSet β) : Prop where
  /-- every stored value sits in the chain of its own bucket, and only buckets `< cap` are used -/
  placed : ∀ b (ch : List (Nat × β)), s.chains[b]? = some ch → ∀ e ∈ ch, b < s.cap ∧ s.bucket hash e.2 = b
  /-- no value is stored twice -/
  nodupVals : s.members.Nodup
  size_eq : s.size = s.liveSlots.length
  nodup : (s.liveSlots ++ s.free).Nodup
  range : ∀ i ∈ s.liveSlots ++ s.free, 1 ≤ i ∧ i < s.seq
  count : (s.liveSlots ++ s.free).length + 1 = s.seq
  seq_le : s.seq ≤ s.cap + 1
  cap_le : s.cap ≤ s.slots
  slots_lt : s.slots < 4294967295

inductive SetOp (β : Type) where
  | insert (v : β)
  | remove (v : β)
  | contains (v : β)
  | size
  | isEmpty
  | isFull

inductive SetOut where
  | bool (b : Bool)
  | nat (n : Nat)
deriving DecidableEq

/-- Reference: a capacity-bounded set, kept as a duplicate-free list. Insert
    returns true exactly when the value was absent and the set not full;
    remove returns true exactly when the value was present and removes only it. -/
def BSet.step [DecidableEq β] (cap : Nat) (m : List β) : SetOp β → List β × SetOut
  | .insert v => if v ∈ m ∨ m.length ≥ cap then (m, .bool false) else (v :: m, .bool true)
  | .remove v => if v ∈ m then (m.erase v, .bool true) else (m, .bool false)
  | .contains v => (m, .bool (decide (v ∈ m)))
  | .size => (m, .nat m.length)
  | .isEmpty => (m, .bool (m.length == 0))
  | .isFull => (m, .bool (decide (m.length ≥ cap)))

def BSet.run [DecidableEq β] (cap : Nat) (m : List β) : List (SetOp β) → List β × List SetOut
  | [] => (m, [])
  | op :: ops =>
    let r := BSet.step cap m op
    let rr := BSet.run cap r.1 ops
    (rr.1, r.2 :: rr.2)

def HSet.setStep [DecidableEq β] (hash : β → Nat) (s : HSet β) : SetOp β → Except Fault (HSet β × SetOut)
  | .insert v => (s.insert hash v).map fun r => (r.1, .bool r.2)
  | .remove v => (s.remove hash v).map fun r => (r.1, .bool r.2)
  | .contains v => (s.contains hash v).map fun r => (s, .bool r)
  | .size => .ok (s, .nat s.size)
  | .isEmpty => .ok (s, .bool s.isEmpty)
  | .isFull => .ok (s, .bool s.isFull)

def HSet.setRun [DecidableEq β] (hash : β → Nat) (s : HSet β) :
    List (SetOp β) → Except Fault (HSet β × List SetOut)
  | [] => .ok (s, [])
  | op :: ops =>
    match s.setStep hash op with
    | .error e => .error e
    | .ok (s', o) =>
      match HSet.setRun hash s' ops with
      | .error e => .error e
      | .ok (s'', os) => .ok (s'', o :: os)

/-- Insert every value of the list; every insertion must report `true`. -/
def HSet.insertAll [DecidableEq β] (hash : β → Nat) (s : HSet β) : List β → Option (HSet β)
  | [] => some s
  | v :: rest =>
    match s.insert hash v with
    | .ok (s', true) => HSet.insertAll hash s' rest
    | _ => none

/-- What the register layout needs of a state to be decodable. -/
structure HSet.LayoutOk (s : HSet β) : Prop where
  nodup : (s.liveSlots ++ s.free).Nodup
  range : ∀ i ∈ s.liveSlots ++ s.free, 1 ≤ i ∧ i ≤ s.slots
  free_ne : ∀ i ∈ s.free, i ≠ s.seq

/-! ### Helper lemmas -/

theorem HSet.flatMap_set_perm {α : Type} (l : List (List α)) (b : Nat) (ch : List α)
    (h : l[b]? = some ch) :
    ∃ rest, (l.flatMap id).Perm (ch ++ rest) ∧
      ∀ ch', ((l.set b ch').flatMap id).Perm (ch' ++ rest) := by
  induction l generalizing b with
  | nil => simp at h
  | cons x l ih =>
    cases b with
    | zero =>
      simp at h; subst h
      exact ⟨l.flatMap id, by simp, fun ch' => by simp⟩
    | succ b =>
      simp at h
      obtain ⟨rest, h1, h2⟩ := ih b h
      refine ⟨x ++ rest, ?_, fun ch' => ?_⟩
      · simp only [List.flatMap_cons, id]
        exact (h1.append_left x).trans (List.perm_append_comm_assoc _ _ _)
      · simp only [List.set_cons_succ, List.flatMap_cons, id]
        exact ((h2 ch').append_left x).trans (List.perm_append_comm_assoc _ _ _)

theorem HSet.chainHas_iff [DecidableEq β] (ch : List (Nat × β)) (v : β) :
    HSet.chainHas ch v = true ↔ v ∈ ch.map (·.2) := by
  simp [HSet.chainHas, List.any_eq_true]

theorem HSet.chainRemove_none [DecidableEq β] {v : β} {ch : List (Nat × β)} (h : HSet.chainRemove v ch = none) :
    v ∉ ch.map (·.2) := by
  induction ch with
  | nil => simp
  | cons e rest ih =>
    unfold HSet.chainRemove at h
    split at h
    · cases h
    · rename_i hne
      split at h
      · cases h
      · rename_i hn
        simp only [List.map_cons, List.mem_cons, not_or]
        exact ⟨fun e' => hne e'.symm, ih hn⟩

theorem HSet.chainRemove_some [DecidableEq β] {v : β} {ch ch' : List (Nat × β)} {i : Nat}
    (h : HSet.chainRemove v ch = some (i, ch')) : ch.Perm ((i, v) :: ch') := by
  induction ch generalizing ch' with
  | nil => simp [HSet.chainRemove] at h
  | cons e rest ih =>
    unfold HSet.chainRemove at h
    split at h
    · rename_i he
      cases h
      obtain ⟨a, b⟩ := e
      simp at he; subst he
      exact List.Perm.refl _
    · split at h
      · rename_i j r' hr
        cases h
        exact ((ih hr).cons e).trans (List.Perm.swap _ _ _)
      · cases h

/-- Build the invariant from facts about any permutation `L` of the flattened chains. -/
theorem HSet.Inv.of_perm {hash : β → Nat} {s : HSet β} (L : List (Nat × β))
    (hL : (s.chains.flatMap id).Perm L)
    (placed : ∀ b (ch : List (Nat × β)), s.chains[b]? = some ch →
      ∀ e ∈ ch, b < s.cap ∧ s.bucket hash e.2 = b)
    (nodupVals : (L.map (·.2)).Nodup) (size_eq : s.size = L.length)
    (nodup : (L.map (·.1) ++ s.free).Nodup)
    (range : ∀ i ∈ L.map (·.1) ++ s.free, 1 ≤ i ∧ i < s.seq)
    (count : (L.map (·.1) ++ s.free).length + 1 = s.seq)
    (seq_le : s.seq ≤ s.cap + 1) (cap_le : s.cap ≤ s.slots) (slots_lt : s.slots < 4294967295) :
    s.Inv hash := by
  have p1 : s.liveSlots.Perm (L.map (·.1)) := hL.map _
  have p2 : s.members.Perm (L.map (·.2)) := hL.map _
  have p3 : (s.liveSlots ++ s.free).Perm (L.map (·.1) ++ s.free) := p1.append_right _
  exact
    { placed := placed
      nodupVals := p2.nodup_iff.2 nodupVals
      size_eq := by rw [size_eq, p1.length_eq, List.length_map]
      nodup := p3.nodup_iff.2 nodup
      range := fun i hi => range i (p3.mem_iff.1 hi)
      count := by rw [p3.length_eq]; exact count
      seq_le := seq_le, cap_le := cap_le, slots_lt := slots_lt }

theorem HSet.Inv.size_le_cap {hash : β → Nat} {s : HSet β} (h : s.Inv hash) : s.size ≤ s.cap := by
  have h1 := h.count
  have h2 := h.seq_le
  have h3 := h.size_eq
  simp only [List.length_append] at h1
  omega

theorem HSet.members_length (s : HSet β) : s.members.length = s.liveSlots.length := by
  simp only [HSet.members, HSet.liveSlots, List.length_map]

theorem HSet.Inv.getElem?_bucket {hash : β → Nat} {s : HSet β} (h : s.Inv hash) (hc : s.cap ≠ 0)
    (v : β) : ∃ ch, s.chains[s.bucket hash v]? = some ch := by
  have hb : s.bucket hash v < s.cap := Nat.mod_lt _ (by omega)
  have := h.cap_le
  unfold HSet.slots at this
  exact ⟨s.chains[s.bucket hash v]'(by omega), List.getElem?_eq_getElem _⟩

theorem HSet.Inv.mem_members_iff {hash : β → Nat} {s : HSet β} (h : s.Inv hash) (v : β)
    {ch : List (Nat × β)} (hch : s.chains[s.bucket hash v]? = some ch) :
    v ∈ s.members ↔ v ∈ ch.map (·.2) := by
  constructor
  · intro hv
    simp only [HSet.members, List.mem_map, List.mem_flatMap, id] at hv
    obtain ⟨e, ⟨ch', hch', he⟩, rfl⟩ := hv
    obtain ⟨b, hb⟩ := List.mem_iff_getElem?.1 hch'
    have := (h.placed b ch' hb e he).2
    rw [this, hb] at hch
    cases hch
    exact List.mem_map.2 ⟨e, he, rfl⟩
  · intro hv
    simp only [List.mem_map] at hv
    obtain ⟨e, he, rfl⟩ := hv
    simp only [HSet.members, List.mem_map, List.mem_flatMap, id]
    exact ⟨e, ⟨ch, List.mem_of_getElem? hch, he⟩, rfl⟩

/-- Allocation succeeds on a non-full state and hands out a fresh slot. -/
theorem HSet.Inv.alloc_ok {hash : β → Nat} {s : HSet β} (h : s.Inv hash) (hlt : s.size < s.cap) :
    ∃ s1 i, s.alloc = .ok (s1, i) ∧ s1.chains = s.chains ∧ s1.cap = s.cap ∧
      s1.size = s.size + 1 ∧ (i :: (s.liveSlots ++ s1.free)).Nodup ∧
      (∀ j ∈ i :: (s.liveSlots ++ s1.free), 1 ≤ j ∧ j < s1.seq) ∧
      (s.liveSlots ++ s1.free).length + 2 = s1.seq ∧ s1.seq ≤ s1.cap + 1 := by
  have hnd := h.nodup
  have hr := h.range
  have hc := h.count
  have hse := h.size_eq
  have hsl := h.seq_le
  have hcl := h.cap_le
  have hslt := h.slots_lt
  unfold HSet.alloc
  cases hf : s.free with
  | cons i rest =>
    rw [hf] at hnd hr hc
    have hi := hr i (by simp)
    simp only [List.length_append, List.length_cons] at hc
    simp only
    rw [if_neg (by omega), if_neg (by omega), if_neg (by omega)]
    refine ⟨_, _, rfl, rfl, rfl, rfl, ?_, ?_, ?_, hsl⟩
    · exact (List.perm_middle).nodup_iff.1 hnd
    · intro j hj
      exact hr j ((List.perm_middle).mem_iff.2 hj)
    · simp only [List.length_append]; omega
  | nil =>
    rw [hf] at hnd hr hc
    simp only [List.append_nil] at hnd hr hc
    simp only
    rw [if_neg (by omega), if_neg (by omega), if_neg (by omega), if_neg (by omega),
      if_neg (by omega)]
    refine ⟨_, _, rfl, rfl, rfl, rfl, ?_, ?_, ?_, ?_⟩
    · simp only [List.append_nil, List.nodup_cons]
      exact ⟨fun hm => by have := hr _ hm; omega, hnd⟩
    · intro j hj
      simp only [List.append_nil, List.mem_cons] at hj
      rcases hj with rfl | hj
      · simp only; omega
      · have := hr j hj
        simp only; omega
    · simp only [List.append_nil]; omega
    · simp only; omega

theorem HSet.bucket_congr (hash : β → Nat) {s s' : HSet β} (hc : s'.cap = s.cap) (v : β) :
    s'.bucket hash v = s.bucket hash v := by
  simp only [HSet.bucket, hc]

section Lemmas
variable [DecidableEq β]
set_option linter.unusedSectionVars false

theorem HSet.inv_init (hash : β → Nat) (slots cap : Nat) (h1 : cap ≤ slots) (h2 : slots < 4294967295) :
    (HSet.init slots cap : HSet β).Inv hash := by
  have hf : ((List.replicate slots ([] : List (Nat × β))).flatMap id) = [] := by
    rw [List.flatMap_eq_nil_iff]
    intro x hx
    exact (List.mem_replicate.1 hx).2
  refine HSet.Inv.of_perm [] (by simp [HSet.init, hf]) ?_ (by simp) (by simp [HSet.init])
    (by simp [HSet.init]) (by simp [HSet.init]) (by simp [HSet.init]) (by simp [HSet.init])
    (by simpa [HSet.init, HSet.slots] using h1) (by simpa [HSet.init, HSet.slots] using h2)
  intro b ch hb e he
  have := List.mem_of_getElem? hb
  simp only [HSet.init] at this
  rw [(List.mem_replicate.1 this).2] at he
  cases he

/-- `contains` never faults and is membership. -/
theorem HSet.contains_spec {hash : β → Nat} {s : HSet β} (h : s.Inv hash) (v : β) :
    s.contains hash v = .ok (decide (v ∈ s.members)) := by
  unfold HSet.contains
  split
  · rename_i h0
    have hl : s.members.length = 0 := by rw [HSet.members_length, ← h.size_eq, h0]
    have : s.members = [] := List.eq_nil_of_length_eq_zero hl
    simp [this]
  · rename_i h0
    have hc : s.cap ≠ 0 := by have := h.size_le_cap; omega
    rw [if_neg hc]
    obtain ⟨ch, hch⟩ := h.getElem?_bucket hc v
    rw [hch]
    simp only
    congr 1
    rw [Bool.eq_iff_iff, HSet.chainHas_iff, decide_eq_true_iff, h.mem_members_iff v hch]

/-- `insert`: refused (state unchanged) exactly for a member or a full set; otherwise the value joins the members. -/
theorem HSet.insert_spec {hash : β → Nat} {s : HSet β} (h : s.Inv hash) (v : β) :
    ((v ∈ s.members ∨ s.size ≥ s.cap) ∧ s.insert hash v = .ok (s, false)) ∨
    (v ∉ s.members ∧ s.size < s.cap ∧
      ∃ s', s.insert hash v = .ok (s', true) ∧ s'.Inv hash ∧ s'.members.Perm (v :: s.members) ∧
        s'.cap = s.cap ∧ s'.slots = s.slots ∧ s'.size = s.size + 1) := by
  have hle := h.size_le_cap
  unfold HSet.insert
  by_cases hfull : s.size = s.cap
  · left; exact ⟨.inr (by omega), by rw [if_pos hfull]⟩
  · rw [if_neg hfull]
    have hc : s.cap ≠ 0 := by omega
    rw [if_neg hc]
    obtain ⟨ch, hch⟩ := h.getElem?_bucket hc v
    simp only [hch]
    have hmem := h.mem_members_iff v hch
    by_cases hhas : HSet.chainHas ch v = true
    · left; rw [if_pos hhas]; exact ⟨.inl (hmem.2 ((HSet.chainHas_iff _ _).1 hhas)), rfl⟩
    · right
      rw [if_neg hhas]
      have hv : v ∉ s.members := fun hm => hhas ((HSet.chainHas_iff _ _).2 (hmem.1 hm))
      obtain ⟨s1, i, ha, hch1, hcap1, hsz1, hnd1, hr1, hc1, hsl1⟩ := h.alloc_ok (by omega)
      rw [ha]
      simp only
      obtain ⟨rest, p1, p2⟩ := HSet.flatMap_set_perm s.chains _ ch hch
      have hL : (({ s1 with chains := s1.chains.set (s.bucket hash v) ((i, v) :: ch) } :
          HSet β).chains.flatMap id).Perm ((i, v) :: s.chains.flatMap id) := by
        simp only [hch1]
        exact (p2 ((i, v) :: ch)).trans (p1.symm.cons (i, v))
      refine ⟨hv, by omega, _, rfl, ?_, hL.map Prod.snd, hcap1, ?_, hsz1⟩
      · refine HSet.Inv.of_perm _ hL ?_ ?_ ?_ ?_ ?_ ?_ hsl1 ?_ ?_
        · intro b' ch' hb' e he
          simp only [hch1, List.getElem?_set] at hb'
          have hbk : ∀ w, HSet.bucket hash
              ({ s1 with chains := s1.chains.set (s.bucket hash v) ((i, v) :: ch) } : HSet β) w =
              s.bucket hash w := fun w => HSet.bucket_congr hash hcap1 w
          rw [hbk]
          show b' < s1.cap ∧ _
          rw [hcap1]
          split at hb'
          · rename_i hbb
            subst hbb
            split at hb'
            · cases hb'
              rcases List.mem_cons.1 he with rfl | he
              · exact ⟨Nat.mod_lt _ (by omega), rfl⟩
              · exact h.placed _ ch hch e he
            · cases hb'
          · exact h.placed b' ch' hb' e he
        · simp only [List.map_cons, List.nodup_cons]
          exact ⟨hv, h.nodupVals⟩
        · show s1.size = _
          rw [hsz1, h.size_eq]
          simp only [HSet.liveSlots, List.length_map, List.length_cons]
        · exact hnd1
        · exact hr1
        · simp only [List.map_cons, List.cons_append, List.length_cons]
          exact hc1
        · show s1.cap ≤ (s1.chains.set _ _).length
          rw [List.length_set, hch1, hcap1]; exact h.cap_le
        · show (s1.chains.set _ _).length < _
          rw [List.length_set, hch1]; exact h.slots_lt
      · show (s1.chains.set _ _).length = _
        rw [List.length_set, hch1]; rfl

/-- `remove`: refused (state unchanged) exactly for a non-member; otherwise only that value leaves. -/
theorem HSet.remove_spec {hash : β → Nat} {s : HSet β} (h : s.Inv hash) (v : β) :
    (v ∉ s.members ∧ s.remove hash v = .ok (s, false)) ∨
    (v ∈ s.members ∧
      ∃ s', s.remove hash v = .ok (s', true) ∧ s'.Inv hash ∧ s.members.Perm (v :: s'.members) ∧
        s'.cap = s.cap ∧ s'.slots = s.slots ∧ s'.size + 1 = s.size) := by
  have hle := h.size_le_cap
  unfold HSet.remove
  by_cases h0 : s.size = 0
  · left
    rw [if_pos h0]
    have hl : s.members.length = 0 := by rw [HSet.members_length, ← h.size_eq, h0]
    have : s.members = [] := List.eq_nil_of_length_eq_zero hl
    simp [this]
  · rw [if_neg h0]
    have hc : s.cap ≠ 0 := by omega
    rw [if_neg hc]
    obtain ⟨ch, hch⟩ := h.getElem?_bucket hc v
    simp only [hch]
    have hmem := h.mem_members_iff v hch
    cases hr : HSet.chainRemove v ch with
    | none => exact .inl ⟨fun hm => HSet.chainRemove_none hr (hmem.1 hm), rfl⟩
    | some p =>
      obtain ⟨i, ch'⟩ := p
      right
      have pc := HSet.chainRemove_some hr
      have hv : v ∈ s.members := hmem.2 ((pc.map Prod.snd).mem_iff.2 (by simp))
      obtain ⟨rest, p1, p2⟩ := HSet.flatMap_set_perm s.chains _ ch hch
      have hL : (s.chains.flatMap id).Perm
          ((i, v) :: (s.chains.set (s.bucket hash v) ch').flatMap id) :=
        p1.trans ((pc.append_right rest).trans ((p2 ch').symm.cons (i, v)))
      simp only
      refine ⟨hv, _, rfl, ?_, hL.map Prod.snd, rfl, ?_, ?_⟩
      · have hls : s.liveSlots.Perm
            (i :: ((s.chains.set (s.bucket hash v) ch').flatMap id).map Prod.fst) :=
          hL.map Prod.fst
        have P : (s.liveSlots ++ s.free).Perm
            (((s.chains.set (s.bucket hash v) ch').flatMap id).map Prod.fst ++ i :: s.free) :=
          (hls.append_right _).trans List.perm_middle.symm
        exact
          { placed := by
              intro b' ch'' hb' e he
              simp only [List.getElem?_set] at hb'
              show b' < s.cap ∧ s.bucket hash e.2 = b'
              split at hb'
              · rename_i hbb
                subst hbb
                split at hb'
                · cases hb'
                  exact h.placed _ ch hch e (pc.mem_iff.2 (List.mem_cons_of_mem _ he))
                · cases hb'
              · exact h.placed b' ch'' hb' e he
            nodupVals := (List.nodup_cons.1 ((hL.map Prod.snd).nodup_iff.1 h.nodupVals)).2
            size_eq := by
              show s.size - 1 = (((s.chains.set (s.bucket hash v) ch').flatMap id).map Prod.fst).length
              have := hls.length_eq
              rw [← h.size_eq, List.length_cons] at this
              omega
            nodup := P.nodup_iff.1 h.nodup
            range := fun j hj => h.range j (P.mem_iff.2 hj)
            count := by
              show (((s.chains.set (s.bucket hash v) ch').flatMap id).map Prod.fst ++ i :: s.free).length + 1 = s.seq
              rw [← P.length_eq]; exact h.count
            seq_le := h.seq_le
            cap_le := by
              show s.cap ≤ (s.chains.set _ _).length
              rw [List.length_set]; exact h.cap_le
            slots_lt := by
              show (s.chains.set _ _).length < _
              rw [List.length_set]; exact h.slots_lt }
      · show (s.chains.set _ _).length = _
        rw [List.length_set]; rfl
      · show s.size - 1 + 1 = s.size
        omega

theorem HSet.size_eq_members {hash : β → Nat} {s : HSet β} (h : s.Inv hash) : s.size = s.members.length := by
  rw [h.size_eq, HSet.members_length]

/-- One operation equals one operation of the reference set, for any list `m`
    that is a permutation of the members. -/
theorem HSet.setStep_refines {hash : β → Nat} {s : HSet β} (h : s.Inv hash) (m : List β)
    (hm : s.members.Perm m) (op : SetOp β) :
    ∃ s', s.setStep hash op = .ok (s', (BSet.step s.cap m op).2) ∧ s'.Inv hash ∧
      s'.members.Perm (BSet.step s.cap m op).1 ∧ s'.cap = s.cap := by
  have hlen : m.length = s.size := by rw [← hm.length_eq, HSet.size_eq_members h]
  cases op with
  | insert v =>
    simp only [HSet.setStep, BSet.step]
    rcases HSet.insert_spec h v with ⟨hc, he⟩ | ⟨hv, hlt, s', he, hi, hp, hcap, _, _⟩
    · have hc' : v ∈ m ∨ m.length ≥ s.cap := by
        rcases hc with hc | hc
        · exact .inl (hm.mem_iff.1 hc)
        · exact .inr (by omega)
      rw [if_pos hc', he]
      exact ⟨s, rfl, h, hm, rfl⟩
    · have hc' : ¬ (v ∈ m ∨ m.length ≥ s.cap) := by
        rintro (hc | hc)
        · exact hv (hm.mem_iff.2 hc)
        · omega
      rw [if_neg hc', he]
      exact ⟨s', rfl, hi, hp.trans (hm.cons v), hcap⟩
  | remove v =>
    simp only [HSet.setStep, BSet.step]
    rcases HSet.remove_spec h v with ⟨hv, he⟩ | ⟨hv, s', he, hi, hp, hcap, _, _⟩
    · rw [if_neg (fun hc => hv (hm.mem_iff.2 hc)), he]
      exact ⟨s, rfl, h, hm, rfl⟩
    · rw [if_pos (hm.mem_iff.1 hv), he]
      refine ⟨s', rfl, hi, ?_, hcap⟩
      have := (hm.symm.trans hp).erase v
      rw [List.erase_cons_head] at this
      exact this.symm
  | contains v =>
    simp only [HSet.setStep, BSet.step, HSet.contains_spec h v]
    refine ⟨s, ?_, h, hm, rfl⟩
    have : decide (v ∈ s.members) = decide (v ∈ m) := by
      rw [Bool.eq_iff_iff, decide_eq_true_iff, decide_eq_true_iff]; exact hm.mem_iff
    rw [this]; rfl
  | size =>
    simp only [HSet.setStep, BSet.step, hlen]
    exact ⟨s, rfl, h, hm, rfl⟩
  | isEmpty =>
    simp only [HSet.setStep, BSet.step, hlen, HSet.isEmpty]
    exact ⟨s, rfl, h, hm, rfl⟩
  | isFull =>
    simp only [HSet.setStep, BSet.step, hlen, HSet.isFull]
    exact ⟨s, rfl, h, hm, rfl⟩

/-- Whole histories. -/
theorem HSet.setRun_refines {hash : β → Nat} {s : HSet β} (h : s.Inv hash) (m : List β)
    (hm : s.members.Perm m) (ops : List (SetOp β)) :
    ∃ s', s.setRun hash ops = .ok (s', (BSet.run s.cap m ops).2) ∧ s'.Inv hash ∧
      s'.members.Perm (BSet.run s.cap m ops).1 := by
  induction ops generalizing s m with
  | nil => exact ⟨s, rfl, h, hm⟩
  | cons op ops ih =>
    obtain ⟨s1, he1, hi1, hp1, hc1⟩ := HSet.setStep_refines h m hm op
    obtain ⟨s2, he2, hi2, hp2⟩ := ih hi1 _ hp1
    refine ⟨s2, ?_, hi2, ?_⟩
    · simp only [HSet.setRun, he1, he2, BSet.run, hc1]
    · simpa only [BSet.run, hc1] using hp2

/-- Iterating the read-only view yields every member exactly once and nothing else. -/
theorem HSet.iter_spec {hash : β → Nat} {s : HSet β} (h : s.Inv hash) :
    s.iter = s.members ∧ s.iter.Nodup := by
  have hd : (s.chains.drop s.cap).flatMap id = [] := by
    rw [List.flatMap_eq_nil_iff]
    intro ch hch
    obtain ⟨k, hk⟩ := List.mem_iff_getElem?.1 hch
    rw [List.getElem?_drop] at hk
    cases ch with
    | nil => rfl
    | cons e rest =>
      have := (h.placed _ _ hk e (by simp)).1
      omega
  have he : s.iter = s.members := by
    unfold HSet.iter HSet.members
    conv => rhs; rw [← List.take_append_drop s.cap s.chains, List.flatMap_append, hd, List.append_nil]
  exact ⟨he, he ▸ h.nodupVals⟩

/-- Exactly `cap - size` further new values fit. -/
theorem HSet.fill_spec {hash : β → Nat} {s : HSet β} (h : s.Inv hash) (vs : List β)
    (hnd : vs.Nodup) (hfresh : ∀ v ∈ vs, v ∉ s.members) (hlen : vs.length + s.size = s.cap) :
    ∃ s', s.insertAll hash vs = some s' ∧ s'.Inv hash ∧ s'.size = s'.cap ∧ s'.cap = s.cap ∧
      ∀ v, s'.insert hash v = .ok (s', false) := by
  induction vs generalizing s with
  | nil =>
    simp only [List.length_nil, Nat.zero_add] at hlen
    refine ⟨s, rfl, h, hlen, rfl, fun v => ?_⟩
    unfold HSet.insert
    rw [if_pos hlen]
  | cons v rest ih =>
    simp only [List.length_cons] at hlen
    rw [List.nodup_cons] at hnd
    rcases HSet.insert_spec h v with ⟨hc, _⟩ | ⟨_, _, s1, he, hi, hp, hcap, _, hsz⟩
    · rcases hc with hc | hc
      · exact absurd hc (hfresh v (by simp))
      · omega
    · obtain ⟨s', h1, h2, h3, h4, h5⟩ := ih hi hnd.2 (by
          intro w hw hm
          rcases List.mem_cons.1 (hp.mem_iff.1 hm) with rfl | hm
          · exact hnd.1 hw
          · exact hfresh w (List.mem_cons_of_mem _ hw) hm) (by omega)
      refine ⟨s', ?_, h2, h3, h4.trans hcap, h5⟩
      simp only [HSet.insertAll, he, h1]

/-- Layout precondition follows from the invariant. -/
theorem HSet.Inv.layoutOk {hash : β → Nat} {s : HSet β} (h : s.Inv hash) : s.LayoutOk := by
  have h1 := h.seq_le
  have h2 := h.cap_le
  refine ⟨h.nodup, fun i hi => ?_, fun i hi => ?_⟩
  · have := h.range i hi
    omega
  · have := h.range i (List.mem_append_right _ hi)
    omega

/-! ### Layout round trip: lookup lemmas -/

omit [DecidableEq β] in
theorem chainNext_none {ch : List (Nat × β)} {i : Nat} (h : i ∉ ch.map Prod.fst) :
    chainNext ch i = none := by
  induction ch with
  | nil => rfl
  | cons e rest ih =>
    simp only [List.map_cons, List.mem_cons, not_or] at h
    cases rest with
    | nil => simp [chainNext, h.1]
    | cons e' rest => simp [chainNext, h.1, ih h.2]

omit [DecidableEq β] in
theorem chainsNext_none {chains : List (List (Nat × β))} {i : Nat}
    (h : i ∉ (chains.flatMap id).map Prod.fst) : chainsNext chains i = none := by
  induction chains with
  | nil => rfl
  | cons c cs ih =>
    simp only [List.flatMap_cons, id, List.map_append, List.mem_append, not_or] at h
    simp [chainsNext, chainNext_none h.1, ih h.2]

omit [DecidableEq β] in
theorem chainNext_head {e : Nat × β} {rest : List (Nat × β)} :
    chainNext (e :: rest) e.1 = some (HSet.headOf rest, e.2) := by
  cases rest with
  | nil => simp [chainNext, HSet.headOf]
  | cons e' rest => simp [chainNext, HSet.headOf]

omit [DecidableEq β] in
theorem chainNext_suffix (pre : List (Nat × β)) (e : Nat × β) (rest : List (Nat × β))
    (hnd : ((pre ++ e :: rest).map Prod.fst).Nodup) :
    chainNext (pre ++ e :: rest) e.1 = some (HSet.headOf rest, e.2) := by
  induction pre with
  | nil => exact chainNext_head
  | cons p pre ih =>
    rw [List.cons_append, List.map_cons, List.nodup_cons] at hnd
    have hp : e.1 ≠ p.1 := fun he => hnd.1 (by simp [he])
    have : chainNext (p :: (pre ++ e :: rest)) e.1 = chainNext (pre ++ e :: rest) e.1 := by
      cases hq : pre ++ e :: rest with
      | nil => simp at hq
      | cons q qs => simp [chainNext, hp]
    rw [List.cons_append, this]
    exact ih hnd.2

omit [DecidableEq β] in
theorem chainsNext_mem {chains : List (List (Nat × β))}
    (hnd : ((chains.flatMap id).map Prod.fst).Nodup) {pre : List (Nat × β)} {e : Nat × β}
    {rest : List (Nat × β)} (hm : pre ++ e :: rest ∈ chains) :
    chainsNext chains e.1 = some (HSet.headOf rest, e.2) := by
  induction chains with
  | nil => cases hm
  | cons c cs ih =>
    simp only [List.flatMap_cons, id, List.map_append] at hnd
    have hnd' := List.nodup_append.1 hnd
    rcases List.mem_cons.1 hm with rfl | hm
    · simp [chainsNext, chainNext_suffix pre e rest hnd'.1]
    · have hin : e.1 ∈ (cs.flatMap id).map Prod.fst :=
        List.mem_map.2 ⟨e, List.mem_flatMap.2 ⟨_, hm, by simp⟩, rfl⟩
      have hnc : e.1 ∉ c.map Prod.fst := fun hc => hnd'.2.2 _ hc _ hin rfl
      simp [chainsNext, chainNext_none hnc, ih hnd'.2.1 hm]

/-! ### Layout round trip: records and walks -/

omit [DecidableEq β] in
theorem HSet.image_recs_length (vd : β) (s : HSet β) : (s.image vd).recs.length = s.slots := by
  simp [HSet.image]

omit [DecidableEq β] in
theorem HSet.image_recs_getElem? (vd : β) (s : HSet β) {j : Nat} (hj : j < s.slots) :
    (s.image vd).recs[j]? = some (s.recAt vd j) := by
  simp [HSet.image, List.getElem?_map, List.getElem?_range hj]

omit [DecidableEq β] in
theorem HSet.flhReg_eq (s : HSet β) : s.flhReg = s.free.head?.getD s.seq := by
  unfold HSet.flhReg
  cases s.free <;> rfl

omit [DecidableEq β] in
theorem HSet.recAt_live (vd : β) (s : HSet β) {j nxt : Nat} {v : β}
    (h : chainsNext s.chains (j + 1) = some (nxt, v)) :
    s.recAt vd j = ⟨HSet.headOf (s.chains.getD j []), nxt, v⟩ := by
  simp [HSet.recAt, h]

omit [DecidableEq β] in
theorem HSet.recAt_free (vd : β) (s : HSet β) {j nxt : Nat}
    (hni : j + 1 ∉ s.liveSlots) (hf : freeNext s.seq s.free (j + 1) = some nxt) :
    s.recAt vd j = ⟨HSet.headOf (s.chains.getD j []), nxt, vd⟩ := by
  simp [HSet.recAt, chainsNext_none hni, hf]

omit [DecidableEq β] in
theorem HImage.walkChain_zero (img : HImage β) (fuel : Nat) : img.walkChain fuel 0 = some [] := by
  cases fuel <;> rfl

omit [DecidableEq β] in
/-- Walking the layout from the head of any suffix of a chain rebuilds that suffix. -/
theorem HSet.walkChain_image (vd : β) (s : HSet β) (h : s.LayoutOk) :
    ∀ rest pre : List (Nat × β), pre ++ rest ∈ s.chains → ∀ fuel, rest.length ≤ fuel →
      (s.image vd).walkChain fuel (HSet.headOf rest) = some rest := by
  intro rest
  induction rest with
  | nil => intro _ _ fuel _; exact HImage.walkChain_zero _ _
  | cons e rest ih =>
    intro pre hm fuel hf
    have hnd0 := List.nodup_append.1 h.nodup
    have hmem : e.1 ∈ s.liveSlots :=
      List.mem_map.2 ⟨e, List.mem_flatMap.2 ⟨_, hm, by simp⟩, rfl⟩
    have hr := h.range e.1 (by simp [hmem])
    obtain ⟨i, v⟩ := e
    obtain ⟨i', rfl⟩ : ∃ i', i = i' + 1 := ⟨i - 1, by simp only at hr; omega⟩
    simp only [List.length_cons] at hf
    obtain ⟨f, rfl⟩ : ∃ f, fuel = f + 1 := ⟨fuel - 1, by omega⟩
    have hcn := chainsNext_mem hnd0.1 hm
    have hrec := HSet.recAt_live vd s hcn
    have hih := ih (pre ++ [(i' + 1, v)]) (by simpa using hm) f (by omega)
    show (s.image vd).walkChain (f + 1) (i' + 1) = _
    simp only at hr
    simp [HImage.walkChain, HSet.image_recs_getElem? vd s (show i' < s.slots by omega), hrec, hih]

omit [DecidableEq β] in
/-- Following the free-list threading of the layout rebuilds any suffix of the free list. -/
theorem HSet.walkFree_image (vd : β) (s : HSet β) (h : s.LayoutOk) :
    ∀ rest pre : List Nat, s.free = pre ++ rest → ∀ fuel, rest.length ≤ fuel →
      (s.image vd).walkFree s.seq fuel (rest.head?.getD s.seq) = some rest := by
  intro rest
  induction rest with
  | nil => intro pre _ fuel _; unfold HImage.walkFree; simp
  | cons a rest ih =>
    intro pre hp fuel hf
    have hmem : a ∈ s.free := by simp [hp]
    have hne := h.free_ne a hmem
    have hr := h.range a (by simp [hmem])
    have hnd0 := List.nodup_append.1 h.nodup
    have hni : a ∉ s.liveSlots := fun hm => hnd0.2.2 _ hm _ hmem rfl
    simp only [List.length_cons] at hf
    obtain ⟨f, rfl⟩ : ∃ f, fuel = f + 1 := ⟨fuel - 1, by omega⟩
    obtain ⟨a', rfl⟩ : ∃ a', a = a' + 1 := ⟨a - 1, by omega⟩
    have hnd : (pre ++ (a' + 1) :: rest).Nodup := hp ▸ hnd0.2.1
    have hfn : freeNext s.seq s.free (a' + 1) = some (rest.head?.getD s.seq) := by
      rw [hp]; exact freeNext_suffix pre (a' + 1) rest hnd
    have hrec := HSet.recAt_free vd s hni hfn
    have hih := ih (pre ++ [a' + 1]) (by simp [hp]) f (by omega)
    unfold HImage.walkFree
    simp [hne, HSet.image_recs_getElem? vd s (show a' < s.slots by omega), hrec, hih]

theorem mapM_option_eq_some {α γ : Type} (f : α → Option γ) :
    ∀ (l : List α) (l' : List γ), l.length = l'.length →
      (∀ j (h1 : j < l.length) (h2 : j < l'.length), f l[j] = some l'[j]) → l.mapM f = some l'
  | [], [], _, _ => by simp
  | [], _ :: _, hl, _ => by simp at hl
  | _ :: _, [], hl, _ => by simp at hl
  | a :: l, b :: l', hl, h => by
    have h0 := h 0 (by simp) (by simp)
    simp only [List.getElem_cons_zero] at h0
    have ih := mapM_option_eq_some f l l' (by simpa using hl) (fun j h1 h2 => by
      have := h (j + 1) (by simp; omega) (by simp; omega)
      simpa using this)
    simp [List.mapM_cons, h0, ih]

/-- The structural decoder inverts the layout. -/
theorem HImage.decodeCore_image (vd : β) (s : HSet β) (h : s.LayoutOk) :
    (s.image vd).decodeCore = some s := by
  have hlen := HSet.image_recs_length vd s
  have hnd := List.nodup_append.1 h.nodup
  have h1 : s.liveSlots.length ≤ s.slots :=
    length_le_of_nodup_range _ _ hnd.1 (fun i hi => h.range i (by simp [hi]))
  have h2 : s.free.length ≤ s.slots :=
    length_le_of_nodup_range _ _ hnd.2.1 (fun i hi => h.range i (by simp [hi]))
  have hf := HSet.walkFree_image vd s h s.free [] (by simp) (s.slots + 1) (by omega)
  rw [← HSet.flhReg_eq] at hf
  have hm : (s.image vd).recs.mapM (fun rc => (s.image vd).walkChain s.slots rc.bucket) =
      some s.chains := by
    apply mapM_option_eq_some
    · rw [hlen]; rfl
    · intro j hj1 hj2
      have hj : j < s.slots := hlen ▸ hj1
      have hrc : (s.image vd).recs[j] = s.recAt vd j := by
        have := HSet.image_recs_getElem? vd s hj
        rw [List.getElem?_eq_getElem hj1] at this
        exact Option.some.inj this
      have hb : (s.recAt vd j).bucket = HSet.headOf s.chains[j] := by
        have hg : s.chains.getD j [] = s.chains[j] := by
          rw [List.getD_eq_getElem?_getD, List.getElem?_eq_getElem hj2]; rfl
        unfold HSet.recAt
        simp only [hg]
        split
        · rfl
        · split <;> rfl
      rw [hrc, hb]
      have hmem : s.chains[j] ∈ s.chains := List.getElem_mem hj2
      obtain ⟨rest, p1, _⟩ := HSet.flatMap_set_perm s.chains j s.chains[j]
        (List.getElem?_eq_getElem hj2)
      have hl : s.chains[j].length ≤ s.liveSlots.length := by
        have := p1.length_eq
        simp only [HSet.liveSlots, List.length_map, this, List.length_append]
        omega
      exact HSet.walkChain_image vd s h s.chains[j] [] (by simpa using hmem) s.slots (by omega)
  have e2 : (s.image vd).hdr.seq = s.seq := rfl
  have e3 : (s.image vd).hdr.flh = s.flhReg := rfl
  have e4 : (s.image vd).hdr.size = s.size := rfl
  have e5 : (s.image vd).hdr.cap = s.cap := rfl
  simp only [HImage.decodeCore, hlen, e2, e3, e4, e5, hm, hf]

theorem HImage.decode_image (vd : β) (s : HSet β) (h : s.LayoutOk) :
    (s.image vd).decode vd = some s := by
  simp [HImage.decode, HImage.decodeCore_image vd s h]

theorem HImage.image_of_decode (vd : β) (img : HImage β) (s : HSet β) (h : img.decode vd = some s) :
    s.image vd = img := by
  unfold HImage.decode at h
  split at h
  · split at h
    · cases h; assumption
    · cases h
  · cases h

end Lemmas
end Stevia
