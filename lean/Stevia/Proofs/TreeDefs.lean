/-
  Stevia.Proofs.TreeDefs — the `Prop`-level invariants of the tree model and the
  list-level reference operations the refinement theorems are stated against.
  Definitions only; lemmas are in TreeAvl.lean / TreeAlloc.lean / TreeLayoutRT.lean.
-/
import Stevia.Model.Tree
import Stevia.Model.TreeLayout
import Stevia.Model.TreeCheck

namespace Stevia

namespace T
variable {α β : Type}

/-- Every key of the tree satisfies `p`. -/
def All (p : α → Prop) : T α β → Prop
  | nil => True
  | node _ l k _ _ r => All p l ∧ p k ∧ All p r

/-- Balanced (sibling `ht`s differ by at most one) and every stored height
    register is exact (`update_height`'s value). -/
def Bal : T α β → Prop
  | nil => True
  | node _ l _ _ h r => Bal l ∧ Bal r ∧ ht l ≤ ht r + 1 ∧ ht r ≤ ht l + 1 ∧ h = max (ht l) (ht r)

variable [LinOrd α]

/-- Binary-search-tree order. -/
def Bst : T α β → Prop
  | nil => True
  | node _ l k _ _ r => Bst l ∧ Bst r ∧ All (· < k) l ∧ All (k < ·) r

end T

/-! ### Reference operations on in-order lists of `(slot, key, value)` -/

section ListOps
variable {α β : Type} [LinOrd α]

abbrev Entry (α β : Type) := Nat × α × β

/-- Keys strictly ascending. -/
def SortedE : List (Entry α β) → Prop
  | [] => True
  | e :: rest => (∀ e' ∈ rest, e.2.1 < e'.2.1) ∧ SortedE rest

/-- Insert an entry at its place in a sorted list (no-op position for an equal key never arises: callers
    insert absent keys only). -/
def insL (e : Entry α β) : List (Entry α β) → List (Entry α β)
  | [] => [e]
  | x :: rest => if e.2.1 < x.2.1 then e :: x :: rest else x :: insL e rest

/-- Remove the entry with key `k`. -/
def delL (k : α) : List (Entry α β) → List (Entry α β)
  | [] => []
  | x :: rest => if x.2.1 < k ∨ k < x.2.1 then x :: delL k rest else rest

/-- Look a key up. -/
def findL (k : α) : List (Entry α β) → Option (Nat × β)
  | [] => none
  | x :: rest => if x.2.1 < k ∨ k < x.2.1 then findL k rest else some (x.1, x.2.2)

/-- Replace the value stored under `k`. -/
def setL (k : α) (v : β) : List (Entry α β) → List (Entry α β)
  | [] => []
  | x :: rest => if x.2.1 < k ∨ k < x.2.1 then x :: setL k v rest else (x.1, x.2.1, v) :: rest

end ListOps

/-- Fewest nodes of a height-balanced tree of height `h` (Fibonacci-like). -/
def minNodes : Nat → Nat
  | 0 => 0
  | 1 => 1
  | h + 2 => minNodes (h + 1) + minNodes h + 1

end Stevia
