/-
  Stevia.Proofs.ArraySetState — invariant of the array-set model, binary search
  specification and probe bound, refinement to a bounded sorted set, raw-copy
  bounds, growth.
-/
import Stevia.Model.ArraySet

namespace Stevia
variable {α κ : Type} [LinOrd κ]

/-- Keys strictly ascending. -/
def AscK : List κ → Prop
  | [] => True
  | a :: rest => (∀ b ∈ rest, a < b) ∧ AscK rest

/-- Invariant: the count fits the buffer and the prefix type; the view is strictly ascending. -/
structure ASet.Inv (key : α → κ) (P : Nat) (s : ASet α) : Prop where
  len_le : s.len ≤ s.slots
  len_leP : s.len ≤ P
  sorted : AscK (s.view.map key)

/-! ### Reference: sorted duplicate-free list with a size bound -/

/-- Same key (neither is less). -/
def sameK (a b : κ) : Prop := ¬ a < b ∧ ¬ b < a

instance (a b : κ) : Decidable (sameK a b) := inferInstanceAs (Decidable (¬ a < b ∧ ¬ b < a))

def insSorted (key : α → κ) (x : α) : List α → List α
  | [] => [x]
  | y :: rest => if key x < key y then x :: y :: rest else y :: insSorted key x rest

def findK (key : α → κ) (k : κ) : List α → Option α
  | [] => none
  | y :: rest => if sameK (key y) k then some y else findK key k rest

def eraseK (key : α → κ) (k : κ) : List α → List α
  | [] => []
  | y :: rest => if sameK (key y) k then rest else y :: eraseK key k rest

def setK (key : α → κ) (k : κ) (y' : α) : List α → List α
  | [] => []
  | y :: rest => if sameK (key y) k then y' :: rest else y :: setK key k y' rest

inductive ASOp (α κ : Type) where
  | insert (x : α)
  | take (k : κ)
  | get (k : κ)
  | contains (k : κ)
  | len

inductive ASOut (α : Type) where
  | bool (b : Bool)
  | val (o : Option α)
  | nat (n : Nat)

/-- Reference step on the sorted member list `m` with size bound `bound`. -/
def BSorted.step (key : α → κ) (bound : Nat) (m : List α) : ASOp α κ → List α × ASOut α
  | .insert x =>
    if (findK key (key x) m).isSome ∨ m.length ≥ bound then (m, .bool false)
    else (insSorted key x m, .bool true)
  | .take k => (eraseK key k m, .val (findK key k m))
  | .get k => (m, .val (findK key k m))
  | .contains k => (m, .bool (findK key k m).isSome)
  | .len => (m, .nat m.length)

def BSorted.run (key : α → κ) (bound : Nat) (m : List α) : List (ASOp α κ) → List α × List (ASOut α)
  | [] => (m, [])
  | op :: ops =>
    let r := BSorted.step key bound m op
    let rr := BSorted.run key bound r.1 ops
    (rr.1, r.2 :: rr.2)

def ASet.opStep (key : α → κ) (P : Nat) (s : ASet α) : ASOp α κ → Except Fault (ASet α × ASOut α)
  | .insert x => (s.insert key P x).map fun r => (r.1, .bool r.2)
  | .take k => (s.take key k).map fun r => (r.1, .val r.2)
  | .get k => (s.get key k).map fun r => (s, .val r)
  | .contains k => (s.contains key k).map fun r => (s, .bool r)
  | .len => .ok (s, .nat s.len)

def ASet.opRun (key : α → κ) (P : Nat) (s : ASet α) : List (ASOp α κ) → Except Fault (ASet α × List (ASOut α))
  | [] => .ok (s, [])
  | op :: ops =>
    match s.opStep key P op with
    | .error e => .error e
    | .ok (s', o) =>
      match ASet.opRun key P s' ops with
      | .error e => .error e
      | .ok (s'', os) => .ok (s'', o :: os)

section Lemmas

/-! ### Helper lemmas -/

theorem ascK_iff_pairwise : ∀ l : List κ, AscK l ↔ l.Pairwise (· < ·)
  | [] => by simp [AscK]
  | a :: l => by simp [AscK, ascK_iff_pairwise l]

theorem sameK_iff {a b : κ} : sameK a b ↔ a = b :=
  ⟨fun h => LinOrd.eq_of_not_lt h.1 h.2,
   fun h => by subst h; exact ⟨LinOrd.irrefl _, LinOrd.irrefl _⟩⟩

theorem not_sameK_of_lt {a b : κ} (h : a < b) : ¬ sameK a b := fun h' => h'.1 h
theorem not_sameK_of_gt {a b : κ} (h : b < a) : ¬ sameK a b := fun h' => h'.2 h

theorem findK_append_cons {key : α → κ} {k : κ} (a : List α) (y : α) (b : List α)
    (ha : ∀ z ∈ a, key z < k) (hy : key y = k) : findK key k (a ++ y :: b) = some y := by
  induction a with
  | nil => simp [findK, sameK_iff, hy]
  | cons z a ih =>
    have hz : ¬ sameK (key z) k := not_sameK_of_lt (ha z (by simp))
    simp only [List.cons_append, findK, hz, if_false]
    exact ih (fun w hw => ha w (by simp [hw]))

theorem findK_append_none {key : α → κ} {k : κ} (a b : List α)
    (ha : ∀ z ∈ a, key z < k) (hb : ∀ z ∈ b, k < key z) : findK key k (a ++ b) = none := by
  induction a with
  | nil =>
    simp only [List.nil_append]
    induction b with
    | nil => rfl
    | cons z b ih =>
      have hz : ¬ sameK (key z) k := not_sameK_of_gt (hb z (by simp))
      simp only [findK, hz, if_false]
      exact ih (fun w hw => hb w (by simp [hw]))
  | cons z a ih =>
    have hz : ¬ sameK (key z) k := not_sameK_of_lt (ha z (by simp))
    simp only [List.cons_append, findK, hz, if_false]
    exact ih (fun w hw => ha w (by simp [hw]))

theorem eraseK_append_cons {key : α → κ} {k : κ} (a : List α) (y : α) (b : List α)
    (ha : ∀ z ∈ a, key z < k) (hy : key y = k) : eraseK key k (a ++ y :: b) = a ++ b := by
  induction a with
  | nil => simp [eraseK, sameK_iff, hy]
  | cons z a ih =>
    have hz : ¬ sameK (key z) k := not_sameK_of_lt (ha z (by simp))
    simp only [List.cons_append, eraseK, hz, if_false]
    rw [ih (fun w hw => ha w (by simp [hw]))]

theorem setK_append_cons {key : α → κ} {k : κ} (a : List α) (y y' : α) (b : List α)
    (ha : ∀ z ∈ a, key z < k) (hy : key y = k) : setK key k y' (a ++ y :: b) = a ++ y' :: b := by
  induction a with
  | nil => simp [setK, sameK_iff, hy]
  | cons z a ih =>
    have hz : ¬ sameK (key z) k := not_sameK_of_lt (ha z (by simp))
    simp only [List.cons_append, setK, hz, if_false]
    rw [ih (fun w hw => ha w (by simp [hw]))]

theorem insSorted_append {key : α → κ} {x : α} (a b : List α)
    (ha : ∀ z ∈ a, key z < key x) (hb : ∀ z ∈ b, key x < key z) :
    insSorted key x (a ++ b) = a ++ x :: b := by
  induction a with
  | nil =>
    cases b with
    | nil => rfl
    | cons z b => simp [insSorted, hb z (by simp)]
  | cons z a ih =>
    have hz : ¬ key x < key z := LinOrd.asymm (ha z (by simp))
    simp only [List.cons_append, insSorted, hz, if_false]
    rw [ih (fun w hw => ha w (by simp [hw]))]

theorem eraseK_of_findK_none {key : α → κ} {k : κ} (l : List α) (h : findK key k l = none) :
    eraseK key k l = l := by
  induction l with
  | nil => rfl
  | cons z l ih =>
    simp only [findK] at h
    by_cases hz : sameK (key z) k
    · simp [hz] at h
    · simp only [hz, if_false] at h
      simp only [eraseK, hz, if_false, ih h]

theorem mem_take_idx {l : List α} {i : Nat} {z : α} (h : z ∈ l.take i) :
    ∃ j, j < i ∧ l[j]? = some z := by
  obtain ⟨j, hj⟩ := List.mem_iff_getElem?.mp h
  rw [List.getElem?_take] at hj
  split at hj
  · exact ⟨j, by assumption, hj⟩
  · cases hj

theorem mem_take_drop_idx {l : List α} {i n : Nat} {z : α} (h : z ∈ (l.drop i).take n) :
    ∃ j, i ≤ j ∧ j < i + n ∧ l[j]? = some z := by
  obtain ⟨j, hj, hz⟩ := mem_take_idx h
  rw [List.getElem?_drop] at hz
  exact ⟨i + j, by omega, by omega, hz⟩

open ASet in
theorem search_spec {key : α → κ} {vals : List α} {len : Nat} (x : κ)
    (hlen : len ≤ vals.length)
    (hs : ∀ i j a b, i < j → j < len → vals[i]? = some a → vals[j]? = some b → key a < key b) :
    ∀ (fuel s e : Nat) (ps : List Nat), s ≤ e + 1 → e < len → e + 1 - s < fuel →
      (∀ j y, j < s → vals[j]? = some y → key y < x) →
      (∀ j y, e < j → j < len → vals[j]? = some y → x < key y) →
      ∃ r ps', search key vals x fuel s e ps = .ok (r, ps') ∧
       ((∃ i y, r = .found i ∧ i < len ∧ vals[i]? = some y ∧ sameK (key y) x) ∨
        (∃ i, r = .absent i ∧ i ≤ len ∧ (∀ j y, j < i → vals[j]? = some y → key y < x) ∧
           (∀ j y, i ≤ j → j < len → vals[j]? = some y → x < key y))) := by
  intro fuel
  induction fuel with
  | zero => intro s e ps _ _ hf; omega
  | succ fuel ih =>
    intro s e ps hse hel hf hlo hhi
    unfold search
    by_cases hle : s ≤ e
    · have hm : s + (e - s) / 2 < vals.length := by omega
      have hy : vals[s + (e - s) / 2]? = some vals[s + (e - s) / 2] := List.getElem?_eq_getElem hm
      generalize vals[s + (e - s) / 2] = y at hy
      simp only [hle, if_true, hy]
      by_cases h1 : x < key y
      · simp only [h1, if_true]
        by_cases h2 : e = s
        · subst h2
          simp only [if_true]
          refine ⟨_, _, rfl, Or.inr ⟨e, rfl, by omega, hlo, ?_⟩⟩
          intro j z hj hjl hz
          by_cases hje : j = e
          · subst hje
            have : j + (j - j) / 2 = j := by simp
            rw [this] at hy
            rw [hy] at hz; cases hz; exact h1
          · exact hhi j z (by omega) hjl hz
        · simp only [h2, if_false]
          apply ih
          · omega
          · omega
          · omega
          · exact hlo
          · intro j z hj hjl hz
            by_cases hjm : j = s + (e - s) / 2
            · subst hjm; rw [hy] at hz; cases hz; exact h1
            · exact LinOrd.trans h1 (hs _ _ _ _ (by omega) hjl hy hz)
      · simp only [h1, if_false]
        by_cases h3 : key y < x
        · simp only [h3, if_true]
          apply ih
          · omega
          · omega
          · omega
          · intro j z hj hz
            by_cases hjm : j = s + (e - s) / 2
            · subst hjm; rw [hy] at hz; cases hz; exact h3
            · exact LinOrd.trans (hs _ _ _ _ (by omega) (by omega) hz hy) h3
          · exact hhi
        · simp only [h3, if_false]
          exact ⟨_, _, rfl, Or.inl ⟨_, y, rfl, by omega, hy, h3, h1⟩⟩
    · simp only [hle, if_false]
      exact ⟨_, _, rfl, Or.inr ⟨s, rfl, by omega, hlo, fun j z hj hjl hz => hhi j z (by omega) hjl hz⟩⟩

open ASet in
theorem search_probes {key : α → κ} {vals : List α} (x : κ) :
    ∀ (fuel s e : Nat) (ps : List Nat) (r : Idx) (ps' : List Nat),
      search key vals x fuel s e ps = .ok (r, ps') →
      ∃ qs, ps' = ps ++ qs ∧ (∀ p ∈ qs, p ≤ e) ∧
        (qs.length = 0 ∨ 2 ^ (qs.length - 1) ≤ e + 1 - s) := by
  intro fuel
  induction fuel with
  | zero =>
    intro s e ps r ps' h
    simp only [search, Except.ok.injEq, Prod.mk.injEq] at h
    exact ⟨[], by simp [h.2], by simp, Or.inl rfl⟩
  | succ fuel ih =>
    intro s e ps r ps' h
    unfold search at h
    by_cases hle : s ≤ e
    · simp only [hle, if_true] at h
      split at h
      · cases h
      · rename_i y hy
        have step : ∀ s' e' , e' ≤ e → (e' + 1 - s') ≤ (e + 1 - s) / 2 →
            search key vals x fuel s' e' (ps ++ [s + (e - s) / 2]) = .ok (r, ps') →
            ∃ qs, ps' = ps ++ qs ∧ (∀ p ∈ qs, p ≤ e) ∧
              (qs.length = 0 ∨ 2 ^ (qs.length - 1) ≤ e + 1 - s) := by
          intro s' e' he' hw hsr
          obtain ⟨qs, hqs, hp, hb⟩ := ih s' e' _ r ps' hsr
          refine ⟨(s + (e - s) / 2) :: qs, by simp [hqs], ?_, Or.inr ?_⟩
          · intro p hp'
            rcases List.mem_cons.mp hp' with rfl | hp'
            · omega
            · have := hp p hp'; omega
          · simp only [List.length_cons, Nat.add_sub_cancel]
            cases qs with
            | nil => simp; omega
            | cons q qs =>
              simp only [List.length_cons, Nat.add_sub_cancel] at hb ⊢
              rcases hb with hb | hb
              · omega
              · rw [Nat.pow_succ]
                generalize 2 ^ qs.length = t at hb ⊢
                omega
        have single : ps' = ps ++ [s + (e - s) / 2] →
            ∃ qs, ps' = ps ++ qs ∧ (∀ p ∈ qs, p ≤ e) ∧
              (qs.length = 0 ∨ 2 ^ (qs.length - 1) ≤ e + 1 - s) := by
          intro hps
          refine ⟨[s + (e - s) / 2], hps, ?_, Or.inr ?_⟩
          · intro p hp; simp at hp; omega
          · simp; omega
        by_cases h1 : x < key y
        · simp only [h1, if_true] at h
          by_cases h2 : e = s
          · simp only [h2, if_true, Except.ok.injEq, Prod.mk.injEq] at h
            apply single; rw [← h.2, h2]
          · simp only [h2, if_false] at h
            exact step _ _ (by omega) (by omega) h
        · simp only [h1, if_false] at h
          by_cases h3 : key y < x
          · simp only [h3, if_true] at h
            exact step _ _ (by omega) (by omega) h
          · simp only [h3, if_false, Except.ok.injEq, Prod.mk.injEq] at h
            exact single h.2.symm
    · simp only [hle, if_false, Except.ok.injEq, Prod.mk.injEq] at h
      exact ⟨[], by simp [h.2], by simp, Or.inl rfl⟩

theorem ASet.Inv.sortedIdx {key : α → κ} {P : Nat} {s : ASet α} (h : s.Inv key P) :
    ∀ i j a b, i < j → j < s.len → s.vals[i]? = some a → s.vals[j]? = some b → key a < key b := by
  have hp := (ascK_iff_pairwise _).mp h.sorted
  rw [List.pairwise_map, List.pairwise_iff_getElem] at hp
  intro i j a b hij hj ha hb
  have hle := h.len_le
  simp only [ASet.slots] at hle
  have hl : s.view.length = s.len := by simp only [ASet.view, List.length_take]; omega
  have := hp i j (by omega) (by omega) hij
  simp only [ASet.view, List.getElem_take] at this
  obtain ⟨_, rfl⟩ := List.getElem?_eq_some_iff.mp ha
  obtain ⟨_, rfl⟩ := List.getElem?_eq_some_iff.mp hb
  exact this

theorem ASet.indexP_spec {key : α → κ} {P : Nat} {s : ASet α} (h : s.Inv key P) (x : κ) :
    ∃ r ps, s.indexP key x = .ok (r, ps) ∧
       ((∃ i y, r = .found i ∧ i < s.len ∧ s.vals[i]? = some y ∧ sameK (key y) x) ∨
        (∃ i, r = .absent i ∧ i ≤ s.len ∧ (∀ j y, j < i → s.vals[j]? = some y → key y < x) ∧
           (∀ j y, i ≤ j → j < s.len → s.vals[j]? = some y → x < key y))) := by
  unfold ASet.indexP
  by_cases h0 : s.len = 0
  · simp only [h0, if_true]
    exact ⟨_, _, rfl, Or.inr ⟨0, rfl, by omega, fun j y hj => by omega, fun j y _ hj => by omega⟩⟩
  · simp only [h0, if_false]
    exact search_spec x h.len_le h.sortedIdx _ _ _ _ (by omega) (by omega) (by omega)
      (fun j y hj => by omega) (fun j y hj hj' => by omega)

theorem take_split {l : List α} {i n : Nat} (h : i ≤ n) :
    l.take n = l.take i ++ (l.drop i).take (n - i) := by
  have : n = i + (n - i) := by omega
  rw [this, List.take_add]
  congr 2
  omega

theorem take_split_cons {l : List α} {i n : Nat} {y : α} (h : i < n) (hy : l[i]? = some y) :
    l.take n = l.take i ++ y :: (l.drop (i + 1)).take (n - i - 1) := by
  obtain ⟨hl, rfl⟩ := List.getElem?_eq_some_iff.mp hy
  rw [take_split (Nat.le_of_lt h), List.drop_eq_getElem_cons hl]
  have : n - i = (n - i - 1) + 1 := by omega
  rw [this, List.take_succ_cons]
  simp

theorem insert_shape {l : List α} {i len : Nat} (x : α) (hi : i ≤ len) (hl : len < l.length) :
    ((l.take (i + 1) ++ (l.drop i).take (len - i) ++ l.drop (i + 1 + (len - i))).set i x).take (len + 1)
      = l.take i ++ x :: (l.drop i).take (len - i) := by
  have hil : i < l.length := by omega
  have hA : (l.take i).length = i := by rw [List.length_take]; omega
  have hB : ((l.drop i).take (len - i)).length = len - i := by
    rw [List.length_take, List.length_drop]; omega
  rw [List.take_succ_eq_append_getElem hil, List.append_assoc, List.append_assoc,
    List.set_append_right _ _ (by omega), hA, Nat.sub_self]
  simp only [List.cons_append, List.nil_append, List.set_cons_zero]
  have : len + 1 = (l.take i).length + (len - i + 1) := by omega
  rw [this, List.take_length_add_append, List.take_succ_cons, List.take_left' hB]

theorem take_shape {l : List α} {i len : Nat} (hi : i < len) (hl : len ≤ l.length) :
    (l.take i ++ (l.drop (i + 1)).take (len - i - 1) ++ l.drop (i + (len - i - 1))).take (len - 1)
      = l.take i ++ (l.drop (i + 1)).take (len - i - 1) := by
  apply List.take_left'
  rw [List.length_append, List.length_take, List.length_take, List.length_drop]; omega

theorem update_shape {l : List α} {i len : Nat} {y : α} (y' : α) (hi : i < len) (hy : l[i]? = some y) :
    (l.set i y').take len = l.take i ++ y' :: (l.drop (i + 1)).take (len - i - 1) := by
  obtain ⟨hl, _⟩ := List.getElem?_eq_some_iff.mp hy
  have hA : (l.take i).length = i := by rw [List.length_take]; omega
  rw [List.take_set, take_split_cons hi hy, List.set_append_right _ _ (by omega), hA, Nat.sub_self]
  simp

theorem ascK_insert {key : α → κ} {x : α} (a b : List α)
    (ha : ∀ z ∈ a, key z < key x) (hb : ∀ z ∈ b, key x < key z)
    (h : AscK ((a ++ b).map key)) : AscK ((a ++ x :: b).map key) := by
  rw [ascK_iff_pairwise, List.pairwise_map, List.pairwise_append] at h ⊢
  obtain ⟨h1, h2, h3⟩ := h
  refine ⟨h1, List.pairwise_cons.mpr ⟨hb, h2⟩, ?_⟩
  intro z hz w hw
  rcases List.mem_cons.mp hw with rfl | hw
  · exact ha z hz
  · exact h3 z hz w hw

theorem ascK_erase {key : α → κ} {y : α} (a b : List α)
    (h : AscK ((a ++ y :: b).map key)) : AscK ((a ++ b).map key) := by
  rw [ascK_iff_pairwise, List.pairwise_map, List.pairwise_append] at h ⊢
  obtain ⟨h1, h2, h3⟩ := h
  exact ⟨h1, (List.pairwise_cons.mp h2).2, fun z hz w hw => h3 z hz w (List.mem_cons_of_mem _ hw)⟩

theorem ASet.Inv.found_split {key : α → κ} {P : Nat} {s : ASet α} (h : s.Inv key P) {i : Nat} {y : α}
    (hi : i < s.len) (hy : s.vals[i]? = some y) :
    s.view = s.vals.take i ++ y :: (s.vals.drop (i + 1)).take (s.len - i - 1) ∧
    (∀ z ∈ s.vals.take i, key z < key y) ∧
    (∀ z ∈ (s.vals.drop (i + 1)).take (s.len - i - 1), key y < key z) := by
  refine ⟨take_split_cons hi hy, ?_, ?_⟩
  · intro z hz
    obtain ⟨j, hj, hjz⟩ := mem_take_idx hz
    exact h.sortedIdx j i z y hj hi hjz hy
  · intro z hz
    obtain ⟨j, hj1, hj2, hjz⟩ := mem_take_drop_idx hz
    exact h.sortedIdx i j y z (by omega) (by omega) hy hjz

theorem ASet.absent_split {key : α → κ} {s : ASet α} {x : κ} {i : Nat} (hi : i ≤ s.len)
    (hlo : ∀ j y, j < i → s.vals[j]? = some y → key y < x)
    (hhi : ∀ j y, i ≤ j → j < s.len → s.vals[j]? = some y → x < key y) :
    s.view = s.vals.take i ++ (s.vals.drop i).take (s.len - i) ∧
    (∀ z ∈ s.vals.take i, key z < x) ∧
    (∀ z ∈ (s.vals.drop i).take (s.len - i), x < key z) := by
  refine ⟨take_split hi, ?_, ?_⟩
  · intro z hz
    obtain ⟨j, hj, hjz⟩ := mem_take_idx hz
    exact hlo j z hj hjz
  · intro z hz
    obtain ⟨j, hj1, hj2, hjz⟩ := mem_take_drop_idx hz
    exact hhi j z hj1 (by omega) hjz

theorem ASet.Inv.findK_found {key : α → κ} {P : Nat} {s : ASet α} (h : s.Inv key P) {i : Nat} {y : α}
    {k : κ} (hi : i < s.len) (hy : s.vals[i]? = some y) (hk : sameK (key y) k) :
    findK key k s.view = some y := by
  obtain ⟨hv, ha, _⟩ := h.found_split hi hy
  have hk' := sameK_iff.mp hk
  rw [hv]
  exact findK_append_cons _ _ _ (fun z hz => hk' ▸ ha z hz) hk'

theorem ASet.findK_absent {key : α → κ} {s : ASet α} {x : κ} {i : Nat} (hi : i ≤ s.len)
    (hlo : ∀ j y, j < i → s.vals[j]? = some y → key y < x)
    (hhi : ∀ j y, i ≤ j → j < s.len → s.vals[j]? = some y → x < key y) :
    findK key x s.view = none := by
  obtain ⟨hv, ha, hb⟩ := ASet.absent_split hi hlo hhi
  rw [hv]
  exact findK_append_none _ _ ha hb

/-! ### Main statements -/

/-- Binary search never faults on a well-formed set and returns the position of
    the element with that key, or the insertion point that keeps the order. -/
theorem ASet.index_spec {key : α → κ} {P : Nat} {s : ASet α} (h : s.Inv key P) (x : κ) :
    (∃ i y, s.index key x = .ok (.found i) ∧ i < s.len ∧ s.vals[i]? = some y ∧ sameK (key y) x) ∨
    (∃ i, s.index key x = .ok (.absent i) ∧ i ≤ s.len ∧
        (∀ j y, j < i → s.vals[j]? = some y → key y < x) ∧
        (∀ j y, i ≤ j → j < s.len → s.vals[j]? = some y → x < key y)) := by
  obtain ⟨r, ps, hr, hsp⟩ := ASet.indexP_spec h x
  have hi : s.index key x = .ok r := by simp [ASet.index, hr, Except.map]
  rcases hsp with ⟨i, y, rfl, h1⟩ | ⟨i, rfl, h1⟩
  · exact Or.inl ⟨i, y, hi, h1⟩
  · exact Or.inr ⟨i, hi, h1⟩


/-- Probe bound: a lookup in `n ≥ 1` elements compares with at most `⌊log2 n⌋ + 1`
    elements (`2^(probes-1) ≤ n`), none for the empty set. -/
theorem ASet.probe_bound {key : α → κ} {P : Nat} {s : ASet α} (h : s.Inv key P) (x : κ)
    {r : Idx} {ps : List Nat} (hi : s.indexP key x = .ok (r, ps)) :
    ps.length = 0 ∨ 2 ^ (ps.length - 1) ≤ s.len := by
  have _ := h
  unfold ASet.indexP at hi
  by_cases h0 : s.len = 0
  · simp only [h0, if_true, Except.ok.injEq, Prod.mk.injEq] at hi
    left; rw [← hi.2]; rfl
  · simp only [h0, if_false] at hi
    obtain ⟨qs, hqs, _, hb⟩ := search_probes x _ _ _ _ _ _ hi
    simp only [List.nil_append] at hqs
    subst hqs
    rcases hb with hb | hb
    · exact Or.inl hb
    · right
      have : s.len - 1 + 1 - 0 = s.len := by omega
      rwa [this] at hb


/-- Every probed position is inside the view. -/
theorem ASet.probes_in_view {key : α → κ} {P : Nat} {s : ASet α} (h : s.Inv key P) (x : κ)
    {r : Idx} {ps : List Nat} (hi : s.indexP key x = .ok (r, ps)) : ∀ p ∈ ps, p < s.len := by
  have _ := h
  unfold ASet.indexP at hi
  by_cases h0 : s.len = 0
  · simp only [h0, if_true, Except.ok.injEq, Prod.mk.injEq] at hi
    rw [← hi.2]; simp
  · simp only [h0, if_false] at hi
    obtain ⟨qs, hqs, hp, _⟩ := search_probes x _ _ _ _ _ _ hi
    simp only [List.nil_append] at hqs
    subst hqs
    intro p hp'
    have := hp p hp'
    omega

theorem ASet.get_spec {key : α → κ} {P : Nat} {s : ASet α} (h : s.Inv key P) (k : κ) :
    s.get key k = .ok (findK key k s.view) := by
  rcases ASet.index_spec h k with ⟨i, y, hidx, hi, hy, hsame⟩ | ⟨i, hidx, hi, hlo, hhi⟩
  · rw [h.findK_found hi hy hsame]
    simp only [ASet.get, hidx, hy]
  · rw [ASet.findK_absent hi hlo hhi]
    simp only [ASet.get, hidx]


/-- `insert`: never faults (in particular the raw copy stays inside the slice);
    refused (state unchanged) exactly for a present key or a full set; otherwise the view gains `x` at
    its sorted position and nothing else changes in it. -/
theorem ASet.insert_spec {key : α → κ} {P : Nat} {s : ASet α} (h : s.Inv key P) (x : α) :
    (((findK key (key x) s.view).isSome ∨ s.len ≥ min s.slots P) ∧ s.insert key P x = .ok (s, false)) ∨
    ((findK key (key x) s.view) = none ∧ s.len < min s.slots P ∧
      ∃ s', s.insert key P x = .ok (s', true) ∧ s'.Inv key P ∧ s'.view = insSorted key x s.view ∧
        s'.slots = s.slots ∧ s'.len = s.len + 1) := by
  have hle := h.len_le
  have hleP := h.len_leP
  by_cases hf : s.len ≥ min s.slots P
  · left
    refine ⟨Or.inr hf, ?_⟩
    have : s.isFull P = true := by
      simp only [ASet.isFull, Bool.or_eq_true, beq_iff_eq, decide_eq_true_eq]; omega
    simp only [ASet.insert, this, if_true]
  · have hnf : s.isFull P = false := by
      cases hb : s.isFull P
      · rfl
      · simp only [ASet.isFull, Bool.or_eq_true, beq_iff_eq, decide_eq_true_eq] at hb; omega
    rcases ASet.index_spec h (key x) with ⟨i, y, hidx, hi, hy, hsame⟩ | ⟨i, hidx, hi, hlo, hhi⟩
    · left
      refine ⟨Or.inl (by rw [h.findK_found hi hy hsame]; rfl), ?_⟩
      simp only [ASet.insert, hnf, hidx]; rfl
    · right
      obtain ⟨hv, ha, hb⟩ := ASet.absent_split hi hlo hhi
      refine ⟨ASet.findK_absent hi hlo hhi, by omega, ?_⟩
      simp only [ASet.slots] at hle hf ⊢
      have hcw : ASet.copyWithin s.vals i (i + 1) (s.len - i) =
          .ok (s.vals.take (i + 1) ++ (s.vals.drop i).take (s.len - i) ++ s.vals.drop (i + 1 + (s.len - i))) := by
        unfold ASet.copyWithin
        rw [if_neg (by omega)]
      have hlen : (s.vals.take (i + 1) ++ (s.vals.drop i).take (s.len - i) ++
          s.vals.drop (i + 1 + (s.len - i))).length = s.vals.length := by
        simp only [List.length_append, List.length_take, List.length_drop]; omega
      refine ⟨⟨s.len + 1, (s.vals.take (i + 1) ++ (s.vals.drop i).take (s.len - i) ++
          s.vals.drop (i + 1 + (s.len - i))).set i x⟩, ?_, ?_, ?_, ?_, rfl⟩
      · simp only [ASet.insert, hnf, hidx, hcw, Bool.false_eq_true, if_false]
        rw [if_pos (by omega)]
      · have hview : (⟨s.len + 1, (s.vals.take (i + 1) ++ (s.vals.drop i).take (s.len - i) ++
          s.vals.drop (i + 1 + (s.len - i))).set i x⟩ : ASet α).view =
            s.vals.take i ++ x :: (s.vals.drop i).take (s.len - i) :=
          insert_shape x hi (by omega)
        refine ⟨?_, ?_, ?_⟩
        · simp only [ASet.slots, List.length_set, hlen]; omega
        · show s.len + 1 ≤ P; omega
        · rw [hview]
          exact ascK_insert _ _ ha hb (hv ▸ h.sorted)
      · rw [hv, insSorted_append _ _ ha hb]
        exact insert_shape x hi (by omega)
      · simp only [List.length_set, hlen]


/-- `take`: never faults; returns the stored element with that key and removes only it. -/
theorem ASet.take_spec {key : α → κ} {P : Nat} {s : ASet α} (h : s.Inv key P) (k : κ) :
    (findK key k s.view = none ∧ s.take key k = .ok (s, none)) ∨
    (∃ y s', findK key k s.view = some y ∧ s.take key k = .ok (s', some y) ∧ s'.Inv key P ∧
        s'.view = eraseK key k s.view ∧ s'.slots = s.slots ∧ s'.len + 1 = s.len) := by
  have hle := h.len_le
  have hleP := h.len_leP
  by_cases h0 : s.len = 0
  · left
    refine ⟨?_, ?_⟩
    · simp only [ASet.view, h0, List.take_zero]; rfl
    · simp only [ASet.take, h0, if_true]
  · rcases ASet.index_spec h k with ⟨i, y, hidx, hi, hy, hsame⟩ | ⟨i, hidx, hi, hlo, hhi⟩
    · right
      obtain ⟨hv, ha, hb⟩ := h.found_split hi hy
      have hk := sameK_iff.mp hsame
      simp only [ASet.slots] at hle
      have key_step : ∃ s', s.take key k = .ok (s', some y) ∧
          s'.view = s.vals.take i ++ (s.vals.drop (i + 1)).take (s.len - i - 1) ∧
          s'.slots = s.slots ∧ s'.len + 1 = s.len := by
        by_cases hlt : i < s.len - 1
        · have hcw : ASet.copyWithin s.vals (i + 1) i (s.len - i - 1) =
              .ok (s.vals.take i ++ (s.vals.drop (i + 1)).take (s.len - i - 1) ++
                s.vals.drop (i + (s.len - i - 1))) := by
            unfold ASet.copyWithin
            rw [if_neg (by omega)]
          refine ⟨⟨s.len - 1, _⟩, ?_, take_shape hi hle, ?_, ?_⟩
          · simp only [ASet.take, h0, if_false, hidx, hy, hlt, if_true, hcw]
          · simp only [ASet.slots, List.length_append, List.length_take, List.length_drop]; omega
          · show s.len - 1 + 1 = s.len; omega
        · refine ⟨{ s with len := s.len - 1 }, ?_, ?_, rfl, ?_⟩
          · simp only [ASet.take, h0, if_false, hidx, hy, hlt]
          · have h1 : s.len - 1 = i := by omega
            have h2 : s.len - i - 1 = 0 := by omega
            simp only [ASet.view, h1, h2, List.take_zero, List.append_nil]
          · show s.len - 1 + 1 = s.len; omega
      obtain ⟨s', htake, hview, hslots, hlen⟩ := key_step
      refine ⟨y, s', h.findK_found hi hy hsame, htake, ⟨?_, ?_, ?_⟩, ?_, hslots, hlen⟩
      · rw [hslots]; simp only [ASet.slots]; omega
      · omega
      · rw [hview]; exact ascK_erase _ _ (hv ▸ h.sorted)
      · rw [hview, hv, eraseK_append_cons _ _ _ (fun z hz => hk ▸ ha z hz) hk]
    · left
      refine ⟨ASet.findK_absent hi hlo hhi, ?_⟩
      simp only [ASet.take, h0, if_false, hidx]


/-- `get_mut` + write: an update that keeps the view ascending is visible afterwards and keeps the invariant. -/
theorem ASet.update_spec {key : α → κ} {P : Nat} {s : ASet α} (h : s.Inv key P) (k : κ) (y' : α) :
    (findK key k s.view = none ∧ s.update key k y' = .ok (s, false)) ∨
    ((findK key k s.view).isSome ∧
      ∃ s', s.update key k y' = .ok (s', true) ∧ s'.view = setK key k y' s.view ∧
        s'.slots = s.slots ∧ s'.len = s.len ∧ (AscK (s'.view.map key) → s'.Inv key P)) := by
  rcases ASet.index_spec h k with ⟨i, y, hidx, hi, hy, hsame⟩ | ⟨i, hidx, hi, hlo, hhi⟩
  · right
    obtain ⟨hv, ha, hb⟩ := h.found_split hi hy
    have hk := sameK_iff.mp hsame
    refine ⟨by rw [h.findK_found hi hy hsame]; rfl, { s with vals := s.vals.set i y' }, ?_, ?_, ?_, rfl, ?_⟩
    · simp only [ASet.update, hidx]
    · rw [hv, setK_append_cons _ _ _ _ (fun z hz => hk ▸ ha z hz) hk]
      exact update_shape y' hi hy
    · simp only [ASet.slots, List.length_set]
    · intro hs
      exact ⟨by simp only [ASet.slots, List.length_set]; exact h.len_le, h.len_leP, hs⟩
  · left
    refine ⟨ASet.findK_absent hi hlo hhi, ?_⟩
    simp only [ASet.update, hidx]


/-- An update that does not change the key keeps the order. -/
theorem ASet.update_same_key {key : α → κ} {P : Nat} {s : ASet α} (h : s.Inv key P) (k : κ) (y' : α)
    (hk : sameK (key y') k) {s' : ASet α} (hu : s.update key k y' = .ok (s', true)) : s'.Inv key P := by
  rcases ASet.index_spec h k with ⟨i, y, hidx, hi, hy, hsame⟩ | ⟨i, hidx, hi, hlo, hhi⟩
  · simp only [ASet.update, hidx, Except.ok.injEq, Prod.mk.injEq, and_true] at hu
    subst hu
    obtain ⟨hv, _, _⟩ := h.found_split hi hy
    have hkk : key y' = key y := (sameK_iff.mp hk).trans (sameK_iff.mp hsame).symm
    refine ⟨by simp only [ASet.slots, List.length_set]; exact h.len_le, h.len_leP, ?_⟩
    have hview : ({ s with vals := s.vals.set i y' } : ASet α).view =
        s.vals.take i ++ y' :: (s.vals.drop (i + 1)).take (s.len - i - 1) := update_shape y' hi hy
    have hs := h.sorted
    rw [hv] at hs
    rw [hview]
    simp only [List.map_append, List.map_cons, hkk] at hs ⊢
    exact hs
  · simp only [ASet.update, hidx, Except.ok.injEq, Prod.mk.injEq] at hu
    cases hu.2


/-- One operation equals one operation of the reference sorted set with bound `min slots P`. -/
theorem ASet.opStep_refines {key : α → κ} {P : Nat} {s : ASet α} (h : s.Inv key P) (op : ASOp α κ) :
    ∃ s', s.opStep key P op = .ok (s', (BSorted.step key (min s.slots P) s.view op).2) ∧ s'.Inv key P ∧
      s'.view = (BSorted.step key (min s.slots P) s.view op).1 ∧ s'.slots = s.slots := by
  have hle := h.len_le
  have hvl : s.view.length = s.len := by
    simp only [ASet.slots] at hle
    simp only [ASet.view, List.length_take]; omega
  cases op with
  | insert x =>
    rcases ASet.insert_spec h x with ⟨hc, hins⟩ | ⟨hnone, hlt, s', hins, hinv, hview, hslots, _⟩
    · have hcond : (findK key (key x) s.view).isSome = true ∨ s.view.length ≥ min s.slots P := by
        rw [hvl]; exact hc
      refine ⟨s, ?_, h, ?_, rfl⟩
      · simp only [ASet.opStep, hins, Except.map, BSorted.step, if_pos hcond]
      · simp only [BSorted.step, if_pos hcond]
    · have hcond : ¬ ((findK key (key x) s.view).isSome = true ∨ s.view.length ≥ min s.slots P) := by
        rw [hvl, hnone]; simp only [Option.isSome_none, Bool.false_eq_true, false_or]; omega
      refine ⟨s', ?_, hinv, ?_, hslots⟩
      · simp only [ASet.opStep, hins, Except.map, BSorted.step, if_neg hcond]
      · simp only [BSorted.step, if_neg hcond, hview]
  | take k =>
    rcases ASet.take_spec h k with ⟨hnone, htake⟩ | ⟨y, s', hsome, htake, hinv, hview, hslots, _⟩
    · refine ⟨s, ?_, h, ?_, rfl⟩
      · simp only [ASet.opStep, htake, Except.map, BSorted.step, hnone]
      · simp only [BSorted.step, eraseK_of_findK_none _ hnone]
    · refine ⟨s', ?_, hinv, ?_, hslots⟩
      · simp only [ASet.opStep, htake, Except.map, BSorted.step, hsome]
      · simp only [BSorted.step, hview]
  | get k =>
    refine ⟨s, ?_, h, rfl, rfl⟩
    simp only [ASet.opStep, ASet.get_spec h k, Except.map, BSorted.step]
  | contains k =>
    refine ⟨s, ?_, h, rfl, rfl⟩
    simp only [ASet.opStep, ASet.contains, ASet.get_spec h k, Except.map, BSorted.step]
  | len =>
    refine ⟨s, ?_, h, rfl, rfl⟩
    simp only [ASet.opStep, BSorted.step, hvl]


theorem ASet.opRun_refines {key : α → κ} {P : Nat} {s : ASet α} (h : s.Inv key P) (ops : List (ASOp α κ)) :
    ∃ s', s.opRun key P ops = .ok (s', (BSorted.run key (min s.slots P) s.view ops).2) ∧ s'.Inv key P ∧
      s'.view = (BSorted.run key (min s.slots P) s.view ops).1 := by
  induction ops generalizing s with
  | nil => exact ⟨s, rfl, h, rfl⟩
  | cons op ops ih =>
    obtain ⟨s1, hstep, hinv1, hview1, hslots1⟩ := ASet.opStep_refines h op
    obtain ⟨s2, hrun, hinv2, hview2⟩ := ih hinv1
    rw [hslots1, hview1] at hrun hview2
    refine ⟨s2, ?_, hinv2, ?_⟩
    · simp only [ASet.opRun, hstep, hrun, BSorted.run]
    · simp only [BSorted.run, hview2]


/-- A zero-filled buffer of any size is the empty set. -/
theorem ASet.inv_zero (key : α → κ) (P : Nat) (d : α) (n : Nat) :
    ({ len := 0, vals := List.replicate n d } : ASet α).Inv key P := by
  refine ⟨Nat.zero_le _, Nat.zero_le _, ?_⟩
  simp only [ASet.view, List.take_zero, List.map_nil]
  trivial


/-- Growth: the members are kept and exactly `n` slots are gained. -/
theorem ASet.extend_spec {key : α → κ} {P : Nat} {s : ASet α} (h : s.Inv key P) (d : α) (n : Nat) :
    (s.extend d n).Inv key P ∧ (s.extend d n).view = s.view ∧ (s.extend d n).slots = s.slots + n ∧
    (s.extend d n).len = s.len := by
  have hle := h.len_le
  simp only [ASet.slots] at hle
  have hview : (s.extend d n).view = s.view := by
    simp only [ASet.extend, ASet.view]
    exact List.take_append_of_le_length hle
  have hslots : (s.extend d n).slots = s.slots + n := by
    simp only [ASet.extend, ASet.slots, List.length_append, List.length_replicate]
  refine ⟨⟨?_, h.len_leP, ?_⟩, hview, hslots, rfl⟩
  · rw [hslots]; show s.len ≤ s.slots + n; simp only [ASet.slots]; omega
  · rw [hview]; exact h.sorted


/-- Footprint of the raw copies: under the guards the code establishes, both
    ranges of `ptr::copy` stay inside the value slots. -/
theorem ASet.copy_in_bounds_insert (index len slots : Nat) (h1 : len < slots) (h2 : index ≤ len) :
    index + (len - index) ≤ slots ∧ (index + 1) + (len - index) ≤ slots := by
  omega


theorem ASet.copy_in_bounds_take (index len slots : Nat) (h1 : len ≤ slots) (h2 : index < len - 1) :
    (index + 1) + (len - index - 1) ≤ slots ∧ index + (len - index - 1) ≤ slots := by
  omega


end Lemmas
end Stevia
