/-
  Stevia.Proofs.ArraySetState — invariant of the array-set model, binary search
  specification and probe bound, refinement to a bounded sorted set, raw-copy
  bounds, growth.
-/
import Stevia.Model.ArraySet

namespace Stevia
variable {α κ : Type} [LinOrd κ]

/-- Keys strictly ascending. -/
def AscK : List κ → Prop
  | [] => True
  | a :: rest => (∀ b ∈ rest, a < b) ∧ AscK rest

/-- Invariant: the count fits the buffer and the prefix type; the view is strictly ascending. -/
structure ASet.Inv (key : α → κ) (P : Nat) (s : ASet α) : Prop where
  len_le : s.len ≤ s.slots
  len_leP : s.len ≤ P
  sorted : AscK (s.view.map key)

/-! ### Reference: sorted duplicate-free list with a size bound -/

/-- Same key (neither is less). -/
def sameK (a b : κ) : Prop := ¬ a < b ∧ ¬ b < a

instance (a b : κ) : Decidable (sameK a b) := inferInstanceAs (Decidable (¬ a < b ∧ ¬ b < a))

def insSorted (key : α → κ) (x : α) : List α → List α
  | [] => [x]
  | y :: rest => if key x < key y then x :: y :: rest else y :: insSorted key x rest

def findK (key : α → κ) (k : κ) : List α → Option α
  | [] => none
  | y :: rest => if sameK (key y) k then some y else findK key k rest

def eraseK (key : α → κ) (k : κ) : List α → List α
  | [] => []
  | y :: rest => if sameK (key y) k then rest else y :: eraseK key k rest

def setK (key : α → κ) (k : κ) (y' : α) : List α → List α
  | [] => []
  | y :: rest => if sameK (key y) k then y' :: rest else y :: setK key k y' rest

inductive ASOp (α κ : Type) where
  | insert (x : α)
  | take (k : κ)
  | get (k : κ)
  | contains (k : κ)
  | len

inductive ASOut (α : Type) where
  | bool (b : Bool)
  | val (o : Option α)
  | nat (n : Nat)

/-- Reference step on the sorted member list `m` with size bound `bound`. -/
def BSorted.step (key : α → κ) (bound : Nat) (m : List α) : ASOp α κ → List α × ASOut α
  | .insert x =>
    if (findK key (key x) m).isSome ∨ m.length ≥ bound then (m, .bool false)
    else (insSorted key x m, .bool true)
  | .take k => (eraseK key k m, .val (findK key k m))
  | .get k => (m, .val (findK key k m))
  | .contains k => (m, .bool (findK key k m).isSome)
  | .len => (m, .nat m.length)

def BSorted.run (key : α → κ) (bound : Nat) (m : List α) : List (ASOp α κ) → List α × List (ASOut α)
  | [] => (m, [])
  | op :: ops =>
    let r := BSorted.step key bound m op
    let rr := BSorted.run key bound r.1 ops
    (rr.1, r.2 :: rr.2)

def ASet.opStep (key : α → κ) (P : Nat) (s : ASet α) : ASOp α κ → Except Fault (ASet α × ASOut α)
  | .insert x => (s.insert key P x).map fun r => (r.1, .bool r.2)
  | .take k => (s.take key k).map fun r => (r.1, .val r.2)
  | .get k => (s.get key k).map fun r => (s, .val r)
  | .contains k => (s.contains key k).map fun r => (s, .bool r)
  | .len => .ok (s, .nat s.len)

def ASet.opRun (key : α → κ) (P : Nat) (s : ASet α) : List (ASOp α κ) → Except Fault (ASet α × List (ASOut α))
  | [] => .ok (s, [])
  | op :: ops =>
    match s.opStep key P op with
    | .error e => .error e
    | .ok (s', o) =>
      match ASet.opRun key P s' ops with
      | .error e => .error e
      | .ok (s'', os) => .ok (s'', o :: os)

section Lemmas

/-- Binary search never faults on a well-formed set and returns the position of
    the element with that key, or the insertion point that keeps the order. -/
theorem ASet.index_spec {key : α → κ} {P : Nat} {s : ASet α} (h : s.Inv key P) (x : κ) :
    (∃ i y, s.index key x = .ok (.found i) ∧ i < s.len ∧ s.vals[i]? = some y ∧ sameK (key y) x) ∨
    (∃ i, s.index key x = .ok (.absent i) ∧ i ≤ s.len ∧
        (∀ j y, j < i → s.vals[j]? = some y → key y < x) ∧
        (∀ j y, i ≤ j → j < s.len → s.vals[j]? = some y → x < key y)) := by
  sorry

/-- Probe bound: a lookup in `n ≥ 1` elements compares with at most `⌊log2 n⌋ + 1`
    elements (`2^(probes-1) ≤ n`), none for the empty set. -/
theorem ASet.probe_bound {key : α → κ} {P : Nat} {s : ASet α} (h : s.Inv key P) (x : κ)
    {r : Idx} {ps : List Nat} (hi : s.indexP key x = .ok (r, ps)) :
    ps.length = 0 ∨ 2 ^ (ps.length - 1) ≤ s.len := by
  sorry

/-- Every probed position is inside the view. -/
theorem ASet.probes_in_view {key : α → κ} {P : Nat} {s : ASet α} (h : s.Inv key P) (x : κ)
    {r : Idx} {ps : List Nat} (hi : s.indexP key x = .ok (r, ps)) : ∀ p ∈ ps, p < s.len := by
  sorry

theorem ASet.get_spec {key : α → κ} {P : Nat} {s : ASet α} (h : s.Inv key P) (k : κ) :
    s.get key k = .ok (findK key k s.view) := by
  sorry

/-- `insert`: never faults (in particular the raw copy stays inside the slice);
    refused (state unchanged) exactly for a present key or a full set; otherwise the view gains `x` at
    its sorted position and nothing else changes in it. -/
theorem ASet.insert_spec {key : α → κ} {P : Nat} {s : ASet α} (h : s.Inv key P) (x : α) :
    (((findK key (key x) s.view).isSome ∨ s.len ≥ min s.slots P) ∧ s.insert key P x = .ok (s, false)) ∨
    ((findK key (key x) s.view) = none ∧ s.len < min s.slots P ∧
      ∃ s', s.insert key P x = .ok (s', true) ∧ s'.Inv key P ∧ s'.view = insSorted key x s.view ∧
        s'.slots = s.slots ∧ s'.len = s.len + 1) := by
  sorry

/-- `take`: never faults; returns the stored element with that key and removes only it. -/
theorem ASet.take_spec {key : α → κ} {P : Nat} {s : ASet α} (h : s.Inv key P) (k : κ) :
    (findK key k s.view = none ∧ s.take key k = .ok (s, none)) ∨
    (∃ y s', findK key k s.view = some y ∧ s.take key k = .ok (s', some y) ∧ s'.Inv key P ∧
        s'.view = eraseK key k s.view ∧ s'.slots = s.slots ∧ s'.len + 1 = s.len) := by
  sorry

/-- `get_mut` + write: an update that keeps the view ascending is visible afterwards and keeps the invariant. -/
theorem ASet.update_spec {key : α → κ} {P : Nat} {s : ASet α} (h : s.Inv key P) (k : κ) (y' : α) :
    (findK key k s.view = none ∧ s.update key k y' = .ok (s, false)) ∨
    ((findK key k s.view).isSome ∧
      ∃ s', s.update key k y' = .ok (s', true) ∧ s'.view = setK key k y' s.view ∧
        s'.slots = s.slots ∧ s'.len = s.len ∧ (AscK (s'.view.map key) → s'.Inv key P)) := by
  sorry

/-- An update that does not change the key keeps the order. -/
theorem ASet.update_same_key {key : α → κ} {P : Nat} {s : ASet α} (h : s.Inv key P) (k : κ) (y' : α)
    (hk : sameK (key y') k) {s' : ASet α} (hu : s.update key k y' = .ok (s', true)) : s'.Inv key P := by
  sorry

/-- One operation equals one operation of the reference sorted set with bound `min slots P`. -/
theorem ASet.opStep_refines {key : α → κ} {P : Nat} {s : ASet α} (h : s.Inv key P) (op : ASOp α κ) :
    ∃ s', s.opStep key P op = .ok (s', (BSorted.step key (min s.slots P) s.view op).2) ∧ s'.Inv key P ∧
      s'.view = (BSorted.step key (min s.slots P) s.view op).1 ∧ s'.slots = s.slots := by
  sorry

theorem ASet.opRun_refines {key : α → κ} {P : Nat} {s : ASet α} (h : s.Inv key P) (ops : List (ASOp α κ)) :
    ∃ s', s.opRun key P ops = .ok (s', (BSorted.run key (min s.slots P) s.view ops).2) ∧ s'.Inv key P ∧
      s'.view = (BSorted.run key (min s.slots P) s.view ops).1 := by
  sorry

/-- A zero-filled buffer of any size is the empty set. -/
theorem ASet.inv_zero (key : α → κ) (P : Nat) (d : α) (n : Nat) :
    ({ len := 0, vals := List.replicate n d } : ASet α).Inv key P := by
  sorry

/-- Growth: the members are kept and exactly `n` slots are gained. -/
theorem ASet.extend_spec {key : α → κ} {P : Nat} {s : ASet α} (h : s.Inv key P) (d : α) (n : Nat) :
    (s.extend d n).Inv key P ∧ (s.extend d n).view = s.view ∧ (s.extend d n).slots = s.slots + n ∧
    (s.extend d n).len = s.len := by
  sorry

/-- Footprint of the raw copies: under the guards the code establishes, both
    ranges of `ptr::copy` stay inside the value slots. -/
theorem ASet.copy_in_bounds_insert (index len slots : Nat) (h1 : len < slots) (h2 : index ≤ len) :
    index + (len - index) ≤ slots ∧ (index + 1) + (len - index) ≤ slots := by
  sorry

theorem ASet.copy_in_bounds_take (index len slots : Nat) (h1 : len ≤ slots) (h2 : index < len - 1) :
    (index + 1) + (len - index - 1) ≤ slots ∧ index + (len - index - 1) ≤ slots := by
  sorry

end Lemmas
end Stevia
