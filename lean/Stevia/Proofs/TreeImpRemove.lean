/-
  Stevia.Proofs.TreeImpRemove — the literal `remove` (descent with a recorded path, splice of the
  in-order successor, bottom-up `rebalance` over the spliced path, `remove_node`) computes, on the
  layout of every well-formed state, the layout of what the functional `Tree.remove` computes.
-/
import Stevia.Proofs.TreeImpEq

namespace Stevia
variable {α β : Type}

/-! ### Context algebra -/

theorem plug_append (a b : List (Frame α β)) (t : T α β) : plug (a ++ b) t = plug b (plug a t) := by
  induction a generalizing t with
  | nil => rfl
  | cons fr a ih => simp [plug, ih]

theorem up_append (a b : List (Frame α β)) (t : T α β) : up (a ++ b) t = up b (up a t) := by
  induction a generalizing t with
  | nil => rfl
  | cons fr a ih => simp [up, ih]

theorem slotsC_append (a b : List (Frame α β)) : slotsC (a ++ b) = slotsC a ++ slotsC b := by
  induction a with
  | nil => rfl
  | cons fr a ih => simp [slotsC, ih]

theorem rootSlot_append (a b : List (Frame α β)) (s : Nat) :
    rootSlot (a ++ b) s = rootSlot b (rootSlot a s) := by
  induction a generalizing s with
  | nil => rfl
  | cons fr a ih => simp [rootSlot, ih]

/-- The recorded path without the entry of the root. -/
def pathF : List (Frame α β) → Nat → List Imp.Ancestor
  | [], _ => []
  | fr :: ctx, s => (some fr.i, some fr.dir, s) :: pathF ctx fr.i

theorem pathOf_append (a b : List (Frame α β)) (s : Nat) :
    pathOf (a ++ b) s = pathF a s ++ pathOf b (rootSlot a s) := by
  induction a generalizing s with
  | nil => rfl
  | cons fr a ih => simp [pathOf, pathF, rootSlot, ih]

theorem pathF_append (a b : List (Frame α β)) (s : Nat) :
    pathF (a ++ b) s = pathF a s ++ pathF b (rootSlot a s) := by
  induction a generalizing s with
  | nil => rfl
  | cons fr a ih => simp [pathF, rootSlot, ih]

theorem repCtx_append {f : Nat → Rec α β} (a b : List (Frame α β)) (s : Nat) :
    RepCtx f (a ++ b) s ↔ RepCtx f a s ∧ RepCtx f b (rootSlot a s) := by
  induction a generalizing s with
  | nil => simp [RepCtx, rootSlot]
  | cons fr a ih => simp [RepCtx, rootSlot, ih, and_assoc]

/-- Replace the (stale) height register of the innermost frame. -/
def reh (h' : Nat) : List (Frame α β) → List (Frame α β)
  | [] => []
  | fr :: ctx => { fr with h := h' } :: ctx

theorem up_reh (h' : Nat) (ctx : List (Frame α β)) (t : T α β) : up (reh h' ctx) t = up ctx t := by
  cases ctx <;> rfl

theorem slotsC_reh (h' : Nat) (ctx : List (Frame α β)) : slotsC (reh h' ctx) = slotsC ctx := by
  cases ctx <;> rfl

theorem pathOf_reh (h' : Nat) (ctx : List (Frame α β)) (s : Nat) :
    pathOf (reh h' ctx) s = pathOf ctx s := by
  cases ctx <;> rfl

theorem rootSlot_reh (h' : Nat) (ctx : List (Frame α β)) (s : Nat) :
    rootSlot (reh h' ctx) s = rootSlot ctx s := by
  cases ctx <;> rfl

theorem Frame.slots_rebalFill_perm (fr : Frame α β) (t : T α β) :
    (fr.rebalFill t).slots.Perm (t.slots ++ fr.i :: fr.sib.slots) := by
  rw [fr.rebalFill_eq fr.h, T.slots_rebalT]
  exact Frame.slots_fill_perm _ t

theorem slots_up_perm (ctx : List (Frame α β)) (t : T α β) :
    (up ctx t).slots.Perm (t.slots ++ slotsC ctx) := by
  induction ctx generalizing t with
  | nil => simp [up, slotsC]
  | cons fr ctx ih =>
    simp only [up, slotsC]
    refine (ih (fr.rebalFill t)).trans ?_
    refine ((fr.slots_rebalFill_perm t).append_right _).trans ?_
    simp

theorem T.rebalT_of_bal {t : T α β} (hb : t.Bal) : t.rebalT = t := by
  cases t with
  | nil => rfl
  | node c l k v h r =>
    obtain ⟨_, _, h1, h2, hh⟩ := hb
    simp only [T.rebalT]
    rw [T.rebal_mid h1 h2, hh]
    rfl

theorem Frame.bal_of_fill {fr : Frame α β} {t : T α β} (hb : (fr.fill t).Bal) : t.Bal := by
  unfold Frame.fill at hb
  split at hb
  · exact hb.2.1
  · exact hb.1

theorem bal_of_plug {ctx : List (Frame α β)} {t : T α β} (hb : (plug ctx t).Bal) : t.Bal := by
  induction ctx generalizing t with
  | nil => exact hb
  | cons fr ctx ih => exact Frame.bal_of_fill (ih hb)

/-! ### The functional side: focus of the search, removal at the focus, the left spine -/

section Pure
variable [LinOrd α]

/-- The subtree whose root holds `key` (`nil` if absent). -/
def T.focus (key : α) : T α β → T α β
  | .nil => .nil
  | .node i l k v h r =>
    if key < k then T.focus key l
    else if k < key then T.focus key r
    else .node i l k v h r

/-- Removal of the root of a subtree (what `del` does at the node it finds). -/
def T.delRoot : T α β → T α β
  | .nil => .nil
  | .node _ l _ _ _ r =>
    match l, r with
    | .nil, .nil => .nil
    | .node li ll lk lv lh lr, .nil => .node li ll lk lv lh lr
    | .nil, .node ri rl rk rv rh rr => .node ri rl rk rv rh rr
    | .node li ll lk lv lh lr, .node ri rl rk rv _ rr =>
      let p := T.popMin ri rl rk rv rr
      T.rebal p.1.1 (.node li ll lk lv lh lr) p.1.2.1 p.1.2.2 p.2

theorem T.plug_descend_focus (key : α) (t : T α β) (ctx : List (Frame α β)) :
    plug (t.descend key ctx) (t.focus key) = plug ctx t := by
  induction t generalizing ctx with
  | nil => rfl
  | node i l k v h r ihl ihr =>
    simp only [T.descend, T.focus]
    split
    · rw [ihl]; simp [plug, Frame.fill]
    · split
      · rw [ihr]; simp [plug, Frame.fill]
      · rfl

theorem T.up_descend_del (key : α) (t : T α β) (ctx : List (Frame α β)) :
    up (t.descend key ctx) (t.focus key).delRoot = up ctx (t.del key) := by
  induction t generalizing ctx with
  | nil => rfl
  | node i l k v h r ihl ihr =>
    simp only [T.descend, T.focus, T.del]
    split
    · rw [ihl]; simp [up, Frame.rebalFill]
    · split
      · rw [ihr]; simp [up, Frame.rebalFill]
      · cases l <;> cases r <;> rfl

theorem T.focus_of_find {key : α} {t : T α β} {i : Nat} {v : β} (hf : t.find key = some (i, v)) :
    ∃ l k h r, t.focus key = .node i l k v h r := by
  induction t with
  | nil => simp [T.find] at hf
  | node j l k' v' h r ihl ihr =>
    simp only [T.find] at hf
    simp only [T.focus]
    split
    · rename_i h1; rw [if_pos h1] at hf; exact ihl hf
    · rename_i h1; rw [if_neg h1] at hf
      split
      · rename_i h2; rw [if_pos h2] at hf; exact ihr hf
      · rename_i h2; rw [if_neg h2] at hf
        cases hf
        exact ⟨_, _, _, _, rfl⟩

theorem T.focus_of_find_none {key : α} {t : T α β} (hf : t.find key = none) : t.focus key = .nil := by
  induction t with
  | nil => rfl
  | node j l k' v' h r ihl ihr =>
    simp only [T.find] at hf
    simp only [T.focus]
    split
    · rename_i h1; rw [if_pos h1] at hf; exact ihl hf
    · rename_i h1; rw [if_neg h1] at hf
      split
      · rename_i h2; rw [if_pos h2] at hf; exact ihr hf
      · rename_i h2; rw [if_neg h2] at hf
        cases hf

end Pure

/-- The frames of the left spine of `node i l k v h r`, innermost first. -/
def T.spineF (i : Nat) (l : T α β) (k : α) (v : β) (h : Nat) (r : T α β) : List (Frame α β) :=
  match l with
  | .nil => []
  | .node li ll lk lv lh lr => T.spineF li ll lk lv lh lr ++ [⟨i, k, v, h, false, r⟩]

/-- The leftmost node of `node i l k v h r`. -/
def T.minNode (i : Nat) (l : T α β) (k : α) (v : β) (h : Nat) (r : T α β) : T α β :=
  match l with
  | .nil => .node i .nil k v h r
  | .node li ll lk lv lh lr => T.minNode li ll lk lv lh lr

theorem T.minNode_eq (l : T α β) : ∀ (i : Nat) (k : α) (v : β) (h : Nat) (r : T α β),
    ∃ lm lmk lmv lmh lmr, T.minNode i l k v h r = .node lm .nil lmk lmv lmh lmr := by
  induction l with
  | nil => intro i k v h r; exact ⟨_, _, _, _, _, rfl⟩
  | node li ll lk lv lh lr ihl _ => intro i k v h r; exact ihl li lk lv lh lr

theorem T.plug_spineF (l : T α β) : ∀ (i : Nat) (k : α) (v : β) (h : Nat) (r : T α β),
    plug (T.spineF i l k v h r) (T.minNode i l k v h r) = .node i l k v h r := by
  induction l with
  | nil => intro i k v h r; rfl
  | node li ll lk lv lh lr ihl _ =>
    intro i k v h r
    simp only [T.spineF, T.minNode, plug_append, ihl]
    rfl

theorem T.popMin_spineF (l : T α β) : ∀ (i : Nat) (k : α) (v : β) (h : Nat) (r : T α β)
    (lm : Nat) (lmk : α) (lmv : β) (lmh : Nat) (lmr : T α β),
    T.minNode i l k v h r = .node lm .nil lmk lmv lmh lmr →
    T.popMin i l k v r = ((lm, lmk, lmv), up (T.spineF i l k v h r) lmr) := by
  induction l with
  | nil =>
    intro i k v h r lm lmk lmv lmh lmr hm
    simp only [T.minNode] at hm
    cases hm
    rfl
  | node li ll lk lv lh lr ihl _ =>
    intro i k v h r lm lmk lmv lmh lmr hm
    simp only [T.minNode] at hm
    simp only [T.popMin, T.spineF, up_append, ihl li lk lv lh lr lm lmk lmv lmh lmr hm]
    rfl

theorem T.rootSlot_spineF (l : T α β) : ∀ (i : Nat) (k : α) (v : β) (h : Nat) (r : T α β),
    rootSlot (T.spineF i l k v h r) (T.minNode i l k v h r).slot = i := by
  intro i k v h r
  rw [← slot_plug, T.plug_spineF]
  rfl

theorem T.spineF_dir (l : T α β) : ∀ (i : Nat) (k : α) (v : β) (h : Nat) (r : T α β),
    ∀ fr ∈ T.spineF i l k v h r, fr.dir = false := by
  induction l with
  | nil => intro i k v h r fr hfr; simp [T.spineF] at hfr
  | node li ll lk lv lh lr ihl _ =>
    intro i k v h r fr hfr
    simp only [T.spineF, List.mem_append, List.mem_singleton] at hfr
    rcases hfr with hfr | rfl
    · exact ihl li lk lv lh lr fr hfr
    · rfl

/-! ### The two walks of the literal `remove` -/

section Walks
variable [LinOrd α]

/-- The descent loop of `remove` ends at the focus of the search and records the zipper of the path. -/
theorem removeDescend_rep (d : Rec α β) (hdr : Hdr) (n : Nat) (f : Nat → Rec α β) (key : α) :
    ∀ (t : T α β) (fuel : Nat) (path : List Imp.Ancestor) (ctx : List (Frame α β)),
      Rep f t → t.In n → t.height ≤ fuel → path.reverse = pathOf ctx t.slot →
      ∃ path', Imp.removeDescend d (mkImg hdr n f) key fuel t.slot path = ((t.focus key).slot, path') ∧
        path'.reverse = pathOf (t.descend key ctx) (t.focus key).slot := by
  intro t
  induction t with
  | nil =>
    intro fuel path ctx _ _ _ hp
    refine ⟨path, ?_, hp⟩
    cases fuel <;> simp [Imp.removeDescend, T.focus]
  | node i l k v h r ihl ihr =>
    intro fuel path ctx hr hin hf hp
    simp only [T.height] at hf
    obtain ⟨fuel, rfl⟩ : ∃ f', fuel = f' + 1 := ⟨fuel - 1, by omega⟩
    have hi := hin.root
    simp only [Imp.removeDescend, T.slot_node, hr.rd hin d hdr, T.rc, T.descend, T.focus,
      if_neg (show i ≠ 0 by omega)]
    simp only [T.slot_node] at hp
    split
    · exact ihl fuel _ (⟨i, k, v, h, false, r⟩ :: ctx) hr.2.1 hin.left (by omega) (by simp [pathOf, hp])
    · split
      · exact ihr fuel _ (⟨i, k, v, h, true, l⟩ :: ctx) hr.2.2 hin.right (by omega) (by simp [pathOf, hp])
      · exact ⟨path, rfl, hp⟩

end Walks

/-- The walk to the leftmost node records the left spine. -/
theorem leftmostWalk_rep (d : Rec α β) (hdr : Hdr) (n : Nat) (f : Nat → Rec α β) :
    ∀ (l : T α β) (i : Nat) (k : α) (v : β) (h : Nat) (r : T α β) (fuel p : Nat)
      (inner : List Imp.Ancestor),
      Rep f (.node i l k v h r) → (T.node i l k v h r).In n → (T.node i l k v h r).height ≤ fuel →
      Imp.leftmostWalk d (mkImg hdr n f) fuel i p inner =
        ((T.minNode i l k v h r).slot, (((T.spineF i l k v h r).head?).map (·.i)).getD p,
          inner ++ (pathF (T.spineF i l k v h r) (T.minNode i l k v h r).slot).reverse) := by
  intro l
  induction l with
  | nil =>
    intro i k v h r fuel p inner hr hin hf
    simp only [T.height] at hf
    obtain ⟨fuel, rfl⟩ : ∃ f', fuel = f' + 1 := ⟨fuel - 1, by omega⟩
    simp [Imp.leftmostWalk, hr.rd hin d hdr, T.rc, T.minNode, T.spineF, pathF]
  | node li ll lk lv lh lr ihl _ =>
    intro i k v h r fuel p inner hr hin hf
    simp only [T.height] at hf
    obtain ⟨fuel, rfl⟩ : ∃ f', fuel = f' + 1 := ⟨fuel - 1, by omega⟩
    have hli := hin.left.root
    simp only [Imp.leftmostWalk, hr.rd hin d hdr, T.rc, T.slot_node]
    rw [if_pos (by omega)]
    rw [ihl li lk lv lh lr fuel i _ hr.2.1 hin.left (by simp only [T.height]; omega)]
    simp only [T.minNode, T.spineF, pathF_append, T.rootSlot_spineF, pathF, List.reverse_append,
      List.reverse_cons, List.reverse_nil, List.nil_append, List.append_assoc, List.singleton_append,
      List.head?_append]
    congr 2
    cases T.spineF li ll lk lv lh lr <;> rfl

/-! ### Re-linking the parent of the removed node -/

theorem rootSlot_mem (fr : Frame α β) (ctx : List (Frame α β)) (s : Nat) :
    rootSlot (fr :: ctx) s ∈ slotsC (fr :: ctx) := by
  induction ctx generalizing fr s with
  | nil => simp [rootSlot, slotsC]
  | cons fr' ctx ih =>
    have := ih fr' fr.i
    simp only [rootSlot, slotsC] at this ⊢
    exact List.mem_append_right _ this

/-- `update_child` at the node of a frame, knowing only the registers: the hole register becomes `x`
    and the height register of the frame's node is recomputed (to some value). -/
theorem updateChild_frame (d : Rec α β) (hdr : Hdr) (n : Nat) (f : Nat → Rec α β)
    (fr : Frame α β) {a x : Nat} (hp : 1 ≤ fr.i ∧ fr.i ≤ n) (hfr : f fr.i = fr.rc a)
    (hx : x ≤ n) (hxp : x ≠ fr.i) (hs : fr.sib.slot ≤ n) (hsp : fr.sib.slot ≠ fr.i) :
    ∃ h', Imp.updateChild d (mkImg hdr n f) fr.i fr.dir x =
      mkImg hdr n (upd f fr.i (({ fr with h := h' } : Frame α β).rc x)) := by
  unfold Frame.rc at hfr ⊢
  cases hdir : fr.dir
  · simp only [hdir, Bool.false_eq_true, if_false] at hfr ⊢
    have e := updateChild_mkImg_left d hdr n f hp.1 hp.2 hx (by rw [hfr]; exact hs) hxp
      (by rw [hfr]; exact hsp)
    rw [hfr] at e
    exact ⟨_, e⟩
  · simp only [hdir, if_true] at hfr ⊢
    have e := updateChild_mkImg_right d hdr n f hp.1 hp.2 hx (by rw [hfr]; exact hs) hxp
      (by rw [hfr]; exact hsp)
    rw [hfr] at e
    exact ⟨_, e⟩

/-- The write to the parent recorded in the last path entry (none for the root). -/
def Imp.relinkParent (d : Rec α β) (m : TreeImage α β) (last : Imp.Ancestor) (x : Nat) : TreeImage α β :=
  match last.1 with
  | some p => Imp.updateChild d m p (last.2.1.getD false) x
  | none => m

theorem relinkParent_spec (d : Rec α β) (hdr : Hdr) (n : Nat) (f : Nat → Rec α β)
    (ctx : List (Frame α β)) (ni x : Nat) (path : List Imp.Ancestor)
    (hp : path.reverse = pathOf ctx ni) (hctx : RepCtx f ctx ni) (hnd : (slotsC ctx).Nodup)
    (hin : ∀ y ∈ slotsC ctx, 1 ≤ y ∧ y ≤ n) (hx : x ≤ n) (hxc : x ∉ slotsC ctx) :
    ∃ h' f', Imp.relinkParent d (mkImg hdr n f) (path.getLast?.getD (none, none, 0)) x = mkImg hdr n f' ∧
      RepCtx f' (reh h' ctx) x ∧ (∀ j, j ∉ slotsC ctx → f' j = f j) ∧
      (path.dropLast ++ [((path.getLast?.getD (none, none, 0)).1,
        (path.getLast?.getD (none, none, 0)).2.1, x)]).reverse = pathOf ctx x ∧
      path.dropLast.reverse = (pathOf ctx ni).tail := by
  have hp' : path = (pathOf ctx ni).reverse := List.reverse_eq_iff.1 hp
  subst hp'
  cases ctx with
  | nil =>
    refine ⟨0, f, ?_, trivial, fun _ _ => rfl, ?_, ?_⟩ <;> simp [pathOf, Imp.relinkParent]
  | cons fr ctx' =>
    obtain ⟨hfr, hsib, hc'⟩ := hctx
    simp only [slotsC, List.cons_append, List.nodup_cons, List.mem_append, not_or,
      List.nodup_append] at hnd
    have hpin := hin fr.i (by simp [slotsC])
    have hsin : fr.sib.In n := fun y hy => hin y (by simp [slotsC, hy])
    have hxi : x ≠ fr.i := fun e => hxc (by simp [slotsC, e])
    obtain ⟨h', e⟩ := updateChild_frame d hdr n f fr hpin hfr hx hxi hsin.slot_le
      (T.slot_ne_of_not_mem hpin.1 hnd.1.1)
    have hrc : RepCtx (upd f fr.i (({ fr with h := h' } : Frame α β).rc x))
        (reh h' (fr :: ctx')) x := by
      show RepCtx _ (({ fr with h := h' } : Frame α β) :: ctx') x
      refine ⟨?_, ?_, ?_⟩
      · simp
      · exact hsib.upd_of_not_mem _ hnd.1.1
      · exact hc'.congr (fun y hy => upd_ne _ _ (fun e => hnd.1.2 (e ▸ hy)))
    refine ⟨h', _, ?_, hrc, ?_, ?_, ?_⟩
    · simp only [pathOf, List.reverse_cons, List.getLast?_concat, Option.getD_some, Imp.relinkParent]
      exact e
    · intro j hj
      exact upd_ne _ _ (fun e => hj (by simp [slotsC, e]))
    · simp [pathOf]
    · simp [pathOf]

/-- The root word is rewritten exactly when the removed node was the root. -/
theorem setRoot_step (hdr : Hdr) (n : Nat) (f : Nat → Rec α β) (ctx : List (Frame α β)) (ni x : Nat)
    (hroot : hdr.root = rootSlot ctx ni) (hni : ni ∉ slotsC ctx) :
    (if ni = (mkImg hdr n f).hdr.root then Imp.setRoot (mkImg hdr n f) x else mkImg hdr n f) =
      mkImg { hdr with root := rootSlot ctx x } n f := by
  cases ctx with
  | nil =>
    simp only [rootSlot] at hroot ⊢
    rw [mkImg_hdr, if_pos hroot.symm, setRoot_mkImg]
  | cons fr ctx' =>
    have hm := rootSlot_mem fr ctx' ni
    have hne : ni ≠ hdr.root := fun e => hni (by rw [e, hroot]; exact hm)
    rw [mkImg_hdr, if_neg hne]
    have : ({ hdr with root := rootSlot (fr :: ctx') x } : Hdr) = hdr := by
      cases hdr
      simp only [rootSlot] at hroot ⊢
      simp [hroot]
    rw [this]

/-! ### The literal `remove`, cut into its phases -/

/-- The child that replaces a node with at most one child. -/
def Imp.selChild (left right : Nat) : Nat :=
  if left = 0 ∧ right = 0 then 0 else if left ≠ 0 then left else right

theorem Imp.selChild_zero_left (b : Nat) : Imp.selChild 0 b = b := by
  unfold Imp.selChild
  by_cases h0 : b = 0 <;> simp [h0]

theorem Imp.selChild_zero_right (a : Nat) : Imp.selChild a 0 = a := by
  unfold Imp.selChild
  by_cases h0 : a = 0 <;> simp [h0]

/-- Splice for a node with at most one child. -/
def Imp.spliceChild (d : Rec α β) (m : TreeImage α β) (path : List Imp.Ancestor) (child : Nat) :
    TreeImage α β × List Imp.Ancestor × Nat :=
  let last := path.getLast?.getD (none, none, 0)
  let pathInit := path.dropLast
  match last.1 with
  | some p =>
    let ma := Imp.updateChild d m p (last.2.1.getD false) child
    let pa := if child ≠ 0 then pathInit ++ [(some p, last.2.1, child)] else pathInit
    (ma, pa, child)
  | none => (m, pathInit, child)

/-- Splice of the in-order successor for a node with two children. -/
def Imp.spliceTwo (d : Rec α β) (m : TreeImage α β) (path : List Imp.Ancestor) (left right : Nat) :
    TreeImage α β × List Imp.Ancestor × Nat :=
  let w := Imp.leftmostWalk d m (m.recs.length + 1) right 0 []
  let leftmost := w.1
  let leftmostParent := w.2.1
  let inner := w.2.2
  let ma := if leftmostParent ≠ 0 then Imp.updateChild d m leftmostParent false (Imp.rd d m leftmost).right else m
  let mb := Imp.updateChild d ma leftmost false left
  let mc := if right ≠ leftmost then Imp.updateChild d mb leftmost true right else mb
  let last := path.getLast?.getD (none, none, 0)
  let pathInit := path.dropLast
  let md := Imp.relinkParent d mc last leftmost
  let pa := pathInit ++ [(last.1, last.2.1, leftmost)]
  let pb := if right ≠ leftmost then pa ++ [(some leftmost, some true, right)] else pa
  let pc := pb ++ inner.dropLast
  (md, pc, leftmost)

/-- Root word, `rebalance`, `remove_node`. -/
def Imp.removeFinish (d : Rec α β) (nodeIndex : Nat) (x : TreeImage α β × List Imp.Ancestor × Nat) :
    TreeImage α β × Option β :=
  let m2 := if nodeIndex = x.1.hdr.root then Imp.setRoot x.1 x.2.2 else x.1
  let m3 := Imp.rebalance d m2 x.2.1
  ((Imp.removeNode d m3 nodeIndex).1, some (Imp.removeNode d m3 nodeIndex).2)

theorem Imp.remove_unfold [LinOrd α] (d : Rec α β) (m : TreeImage α β) (key : α) :
    Imp.remove d m key =
      if m.hdr.root = 0 then (m, none)
      else
        let dr := Imp.removeDescend d m key (m.recs.length + 1) m.hdr.root [(none, none, m.hdr.root)]
        if dr.1 = 0 then (m, none)
        else
          Imp.removeFinish d dr.1
            (if (Imp.rd d m dr.1).left ≠ 0 ∧ (Imp.rd d m dr.1).right ≠ 0 then
              Imp.spliceTwo d m dr.2 (Imp.rd d m dr.1).left (Imp.rd d m dr.1).right
            else Imp.spliceChild d m dr.2 (Imp.selChild (Imp.rd d m dr.1).left (Imp.rd d m dr.1).right)) := by
  rfl

section Select
variable [LinOrd α]

theorem Imp.remove_two (d : Rec α β) (m : TreeImage α β) (key : α) (ni : Nat) (path : List Imp.Ancestor)
    (a b : Nat) (hroot : m.hdr.root ≠ 0)
    (hd : Imp.removeDescend d m key (m.recs.length + 1) m.hdr.root [(none, none, m.hdr.root)] = (ni, path))
    (hni : ni ≠ 0) (hl : (Imp.rd d m ni).left = a) (hr : (Imp.rd d m ni).right = b)
    (htwo : a ≠ 0 ∧ b ≠ 0) :
    Imp.remove d m key = Imp.removeFinish d ni (Imp.spliceTwo d m path a b) := by
  subst hl hr
  rw [Imp.remove_unfold, if_neg hroot, hd]
  dsimp +instances only
  rw [if_neg hni, if_pos htwo]

theorem Imp.remove_one (d : Rec α β) (m : TreeImage α β) (key : α) (ni : Nat) (path : List Imp.Ancestor)
    (a b : Nat) (hroot : m.hdr.root ≠ 0)
    (hd : Imp.removeDescend d m key (m.recs.length + 1) m.hdr.root [(none, none, m.hdr.root)] = (ni, path))
    (hni : ni ≠ 0) (hl : (Imp.rd d m ni).left = a) (hr : (Imp.rd d m ni).right = b)
    (hone : ¬ (a ≠ 0 ∧ b ≠ 0)) :
    Imp.remove d m key = Imp.removeFinish d ni (Imp.spliceChild d m path (Imp.selChild a b)) := by
  subst hl hr
  rw [Imp.remove_unfold, if_neg hroot, hd]
  dsimp +instances only
  rw [if_neg hni, if_neg hone]

theorem Imp.remove_absent (d : Rec α β) (m : TreeImage α β) (key : α) (path : List Imp.Ancestor)
    (hd : Imp.removeDescend d m key (m.recs.length + 1) m.hdr.root [(none, none, m.hdr.root)] = (0, path)) :
    Imp.remove d m key = (m, none) := by
  rw [Imp.remove_unfold, hd]
  dsimp +instances only
  split <;> rfl

end Select

/-! ### `remove_node` and the header: from a memory that represents the new tree to the new layout -/

section Finish
variable [LinOrd α]

theorem Rep.find_val {f : Nat → Rec α β} {key : α} {t : T α β} {i : Nat} {v : β} (hr : Rep f t)
    (hf : t.find key = some (i, v)) : (f i).val = v := by
  induction t with
  | nil => simp [T.find] at hf
  | node j l k' v' h r ihl ihr =>
    simp only [T.find] at hf
    split at hf
    · exact ihl hr.2.1 hf
    · split at hf
      · exact ihr hr.2.2 hf
      · cases hf
        rw [hr.1]
        rfl

/-- What the functional `remove` does for a present key. -/
theorem Tree.remove_found {c : TreeCfg} {s : Tree α β} (h : s.Inv c) {k : α} {i : Nat} {v : β}
    (hf : s.root.find k = some (i, v)) :
    s.remove k = .ok ({ s with root := s.root.del k, free := i :: s.free, size := s.size - 1 }, some v) ∧
      ({ s with root := s.root.del k, free := i :: s.free, size := s.size - 1 } : Tree α β).Inv c ∧
      s.root.slots.Perm (i :: (s.root.del k).slots) := by
  have hfl : findL k s.root.toList = some (i, v) := by
    rw [← T.find_eq_findL h.bst]; exact hf
  have hsz : s.size ≠ 0 := by
    have := length_delL hfl
    rw [h.size_eq, T.size_eq_length]; omega
  have hrem : s.remove k =
      .ok ({ s with root := s.root.del k, free := i :: s.free, size := s.size - 1 }, some v) := by
    simp [Tree.remove, hf, hsz]
  refine ⟨hrem, ?_, ?_⟩
  · rcases Tree.remove_spec h k with ⟨hn, _⟩ | ⟨i', v', s', _, he, hi, _⟩
    · rw [hf] at hn; cases hn
    · rw [hrem] at he
      cases he
      exact hi
  · unfold T.slots
    rw [T.toList_del h.bst]
    exact (perm_delL hfl).map (·.1)

/-- Closing step of `remove`: a memory that represents the new tree and still holds the old layout
    elsewhere becomes, after `remove_node`, the layout of the new state. -/
theorem finish_remove (c : TreeCfg) (kd : α) (vd : β) (s : Tree α β) (h : s.Inv c) (k : α) (ni : Nat)
    (v : β) (hf : s.root.find k = some (ni, v)) (f' : Nat → Rec α β) (hr : Rep f' (s.root.del k))
    (hag : ∀ j, j ∉ (s.root.del k).slots → f' j = s.recAt c kd vd j) :
    Imp.removeNode (Imp.dflt kd vd) (mkImg { s.hdr c with root := (s.root.del k).slot } s.slots f') ni =
      (({ s with root := s.root.del k, free := ni :: s.free, size := s.size - 1 } : Tree α β).image c kd vd,
        v) := by
  obtain ⟨_, hinv, hperm⟩ := Tree.remove_found h hf
  have hnd' := hinv.nodup
  have hni : ni ∉ (s.root.del k).slots := fun hm =>
    (List.nodup_append.1 hnd').2.2 ni hm ni (by simp) rfl
  have hval : (f' ni).val = v := by
    rw [hag ni hni]
    exact (Tree.rep_recAt c kd vd s h.rootNodup).find_val hf
  have hni1 : 1 ≤ ni ∧ ni ≤ s.slots := h.rootIn ni (T.find_mem_slots hf)
  unfold Imp.removeNode
  rw [rd_mkImg _ _ _ _ hni1.1 hni1.2, hval]
  congr 1
  simp only [wr_mkImg, mk_recs_mkImg, mkImg_hdr]
  have himg := mkImg_eq_image c kd vd
    ({ s with root := s.root.del k, free := ni :: s.free, size := s.size - 1 } : Tree α β)
    (upd f' ni ⟨0, 0, s.flhReg c, 0, kd, vd⟩) hinv.rootNodup (hr.upd_of_not_mem _ hni) (by
      intro j _ _ hj
      have hj' : j ∉ (s.root.del k).slots := hj
      by_cases hjn : j = ni
      · subst hjn
        rw [upd_same]
        symm
        apply Tree.recAt_free c kd vd _ hj
        show freeNext (s.seqReg c) (j :: s.free) j = _
        rw [freeNext_head, Tree.flhReg_eq]
      · have hjs : j ∉ s.root.slots := fun hm => by
          rcases List.mem_cons.1 (hperm.mem_iff.1 hm) with e | e
          · exact hjn e
          · exact hj' e
        rw [upd_ne _ _ hjn, hag j hj', Tree.recAt_of_not_mem c kd vd s hjs,
          Tree.recAt_of_not_mem c kd vd _ hj]
        unfold Tree.freeRec
        show _ = match freeNext (s.seqReg c) (ni :: s.free) j with | some nxt => _ | none => _
        cases hfr : s.free with
        | nil => simp [freeNext, hjn]
        | cons b rest => rw [freeNext_cons_ne (by simp) hjn]; rfl)
  rw [← himg]
  rfl

/-- `rebalance` over the spliced path, then `remove_node`. -/
theorem remove_tail (c : TreeCfg) (kd : α) (vd : β) (s : Tree α β) (h : s.Inv c) (k : α) (ni : Nat)
    (v : β) (hf : s.root.find k = some (ni, v)) (ctxT : List (Frame α β)) (t : T α β) (hne : t ≠ .nil)
    (f4 : Nat → Rec α β) (path1 : List Imp.Ancestor)
    (hpure : up ctxT t.rebalT = s.root.del k) (hrt : Rep f4 t) (hrc : RepCtx f4 ctxT t.slot)
    (hag : ∀ j, j ∉ t.slots ++ slotsC ctxT → f4 j = s.recAt c kd vd j)
    (hpath : path1.reverse = pathOf ctxT t.slot) :
    Imp.removeNode (Imp.dflt kd vd)
        (Imp.rebalance (Imp.dflt kd vd)
          (mkImg { s.hdr c with root := rootSlot ctxT t.slot } s.slots f4) path1) ni =
      (({ s with root := s.root.del k, free := ni :: s.free, size := s.size - 1 } : Tree α β).image c kd vd,
        v) := by
  obtain ⟨_, hinv, hperm⟩ := Tree.remove_found h hf
  have hp1 : (s.root.del k).slots.Perm (t.slots ++ slotsC ctxT) := by
    have := slots_up_perm ctxT t.rebalT
    rwa [hpure, T.slots_rebalT] at this
  have hnd : (t.slots ++ slotsC ctxT).Nodup := hp1.nodup_iff.1 hinv.rootNodup
  have hin : ∀ x ∈ t.slots ++ slotsC ctxT, 1 ≤ x ∧ x ≤ s.slots := fun x hx =>
    h.rootIn x (hperm.mem_iff.2 (List.mem_cons_of_mem _ (hp1.mem_iff.2 hx)))
  obtain ⟨f', e, r', _, fr'⟩ := rebalance_loop (Imp.dflt kd vd) s.slots ctxT
    { s.hdr c with root := rootSlot ctxT t.slot } f4 t hne hrt hrc hnd hin rfl
  unfold Imp.rebalance
  rw [hpath, e, hpure]
  rw [hpure] at r'
  exact finish_remove c kd vd s h k ni v hf f' r' (fun j hj => by
    have hj' : j ∉ t.slots ++ slotsC ctxT := fun hm => hj (hp1.mem_iff.2 hm)
    rw [fr' j hj', hag j hj'])

end Finish

/-! ### Splice for a node with at most one child -/

theorem spliceChild_spec (d : Rec α β) (hdr : Hdr) (n : Nat) (f : Nat → Rec α β)
    (ctx : List (Frame α β)) (ni : Nat) (C : T α β) (path : List Imp.Ancestor)
    (hp : path.reverse = pathOf ctx ni) (hctx : RepCtx f ctx ni) (hC : Rep f C) (hbal : C.Bal)
    (hnd : (C.slots ++ slotsC ctx).Nodup) (hin : ∀ x ∈ C.slots ++ slotsC ctx, 1 ≤ x ∧ x ≤ n) :
    ∃ f4 path1, Imp.spliceChild d (mkImg hdr n f) path C.slot = (mkImg hdr n f4, path1, C.slot) ∧
      ((ctx = [] ∧ path1 = [] ∧ f4 = f) ∨
       ∃ ctxT t, t ≠ .nil ∧ Rep f4 t ∧ RepCtx f4 ctxT t.slot ∧ path1.reverse = pathOf ctxT t.slot ∧
         up ctxT t.rebalT = up ctx C ∧ rootSlot ctxT t.slot = rootSlot ctx C.slot ∧
         (∀ j, j ∉ t.slots ++ slotsC ctxT → f4 j = f j)) := by
  have hCin : C.In n := fun x hx => hin x (List.mem_append_left _ hx)
  have hndC := List.nodup_append.1 hnd
  have hCc : C.slot ∉ slotsC ctx := by
    intro hm
    cases C with
    | nil => have := (hin 0 (List.mem_append_right _ hm)).1; omega
    | node i l k v h r => exact hndC.2.2 i (by simp) i hm rfl
  cases ctx with
  | nil =>
    have hp' : path = [(none, none, ni)] := by
      have := List.reverse_eq_iff.1 hp
      simpa [pathOf] using this
    subst hp'
    exact ⟨f, [], by simp [Imp.spliceChild], Or.inl ⟨rfl, rfl, rfl⟩⟩
  | cons fr ctx' =>
    obtain ⟨h', f', e, hrc, hagree, hpa, hpi⟩ := relinkParent_spec d hdr n f (fr :: ctx') ni C.slot path hp hctx
      hndC.2.1 (fun y hy => hin y (List.mem_append_right _ hy)) hCin.slot_le hCc
    have hp' : path = (pathOf (fr :: ctx') ni).reverse := List.reverse_eq_iff.1 hp
    subst hp'
    simp only [pathOf, List.reverse_cons, List.getLast?_concat, Option.getD_some, Imp.relinkParent,
      List.dropLast_concat, List.reverse_append, List.reverse_reverse, List.reverse_nil,
      List.nil_append, List.singleton_append, List.tail_cons] at e hpa hpi
    obtain ⟨hfr', hsib', hc'⟩ : RepCtx f' (({ fr with h := h' } : Frame α β) :: ctx') C.slot := hrc
    refine ⟨f', (if C.slot ≠ 0 then (pathOf ctx' fr.i).reverse ++ [(some fr.i, some fr.dir, C.slot)]
      else (pathOf ctx' fr.i).reverse), ?_, Or.inr ?_⟩
    · simp only [Imp.spliceChild, pathOf, List.reverse_cons, List.getLast?_concat, Option.getD_some,
        List.dropLast_concat]
      rw [e]
    · by_cases hCn : C = .nil
      · subst hCn
        refine ⟨ctx', ({ fr with h := h' } : Frame α β).fill .nil, Frame.fill_ne_nil _ _, ?_, ?_, ?_, ?_,
          ?_, ?_⟩
        · exact (rep_plug [({ fr with h := h' } : Frame α β)] .nil).2 ⟨trivial, hfr', hsib', trivial⟩
        · simpa using hc'
        · simp [T.slot_nil]
        · rw [← Frame.rebalFill_eq]; rfl
        · simp [rootSlot]
        · intro j hj
          apply hagree
          intro hm
          apply hj
          have hpm := (Frame.slots_fill_perm ({ fr with h := h' } : Frame α β) .nil)
          simp only [slotsC, List.cons_append, List.mem_cons, List.mem_append] at hm
          simp only [List.mem_append, hpm.mem_iff]
          simp only [T.slots_nil, List.mem_cons]
          rcases hm with hm | hm | hm
          · exact Or.inl (Or.inr (Or.inl hm))
          · exact Or.inl (Or.inr (Or.inr hm))
          · exact Or.inr hm
      · have hs0 : C.slot ≠ 0 := fun e0 => hCn (hCin.slot_eq_zero.1 e0)
        refine ⟨({ fr with h := h' } : Frame α β) :: ctx', C, hCn, ?_, ⟨hfr', hsib', hc'⟩, ?_, ?_, rfl, ?_⟩
        · exact hC.congr (fun i hi => hagree i (fun hm => hndC.2.2 i hi i hm rfl))
        · simp only [ne_eq, hs0, not_false_eq_true, if_true, List.reverse_append, List.reverse_cons,
            List.reverse_nil, List.nil_append, List.reverse_reverse, List.singleton_append]
          rfl
        · rw [T.rebalT_of_bal hbal]; rfl
        · intro j hj
          exact hagree j (fun hm => hj (List.mem_append_right _ hm))

/-! ### Splice of the in-order successor -/

theorem spliceTwo_spec (d : Rec α β) (hdr : Hdr) (n : Nat) (f : Nat → Rec α β)
    (ctx : List (Frame α β)) (ni : Nat) (nk : α) (nv : β) (nh : Nat) (L : T α β) (hLne : L ≠ .nil)
    (ri : Nat) (rl : T α β) (rk : α) (rv : β) (rh : Nat) (rr : T α β) (path : List Imp.Ancestor)
    (hp : path.reverse = pathOf ctx ni) (hctx : RepCtx f ctx ni)
    (hN : Rep f (.node ni L nk nv nh (.node ri rl rk rv rh rr)))
    (hnd : ((T.node ni L nk nv nh (.node ri rl rk rv rh rr)).slots ++ slotsC ctx).Nodup)
    (hin : ∀ x ∈ (T.node ni L nk nv nh (.node ri rl rk rv rh rr)).slots ++ slotsC ctx, 1 ≤ x ∧ x ≤ n) :
    ∃ f4 path1 lm ctxT t,
      Imp.spliceTwo d (mkImg hdr n f) path L.slot ri = (mkImg hdr n f4, path1, lm) ∧
      t ≠ .nil ∧ Rep f4 t ∧ RepCtx f4 ctxT t.slot ∧ path1.reverse = pathOf ctxT t.slot ∧
      up ctxT t.rebalT = up ctx (T.delRoot (.node ni L nk nv nh (.node ri rl rk rv rh rr))) ∧
      rootSlot ctxT t.slot = rootSlot ctx lm ∧
      (∀ j, j ∉ t.slots ++ slotsC ctxT → f4 j = f j) := by
  have hNin : (T.node ni L nk nv nh (.node ri rl rk rv rh rr)).In n :=
    fun x hx => hin x (List.mem_append_left _ hx)
  have hLin := hNin.left
  have hRin := hNin.right
  obtain ⟨hfN, hL, hR⟩ := hN
  obtain ⟨lm, lmk, lmv, lmh, lmr, hmin⟩ := T.minNode_eq rl ri rk rv rh rr
  have hplug := T.plug_spineF rl ri rk rv rh rr
  have hpop := T.popMin_spineF rl ri rk rv rh rr lm lmk lmv lmh lmr hmin
  have hroot := T.rootSlot_spineF rl ri rk rv rh rr
  have hdir := T.spineF_dir rl ri rk rv rh rr
  have hfuel : (T.node ri rl rk rv rh rr).height ≤ n + 1 := by
    have h1 := T.height_le_length_slots (T.node ri rl rk rv rh rr)
    have hndR : (T.node ri rl rk rv rh rr).slots.Nodup := by
      have := (List.nodup_append.1 hnd).1
      rw [T.slots_node ni] at this
      exact (List.nodup_cons.1 (List.nodup_append.1 this).2.1).2
    have h2 := length_le_of_nodup_range n _ hndR (fun i hi => hRin i hi)
    omega
  have hwalk := leftmostWalk_rep d hdr n f rl ri rk rv rh rr (n + 1) 0 [] hR hRin hfuel
  rw [hmin] at hplug hroot hwalk
  -- slots of the right subtree through the spine
  have hpermR := slots_plug_perm (T.spineF ri rl rk rv rh rr) (T.node lm .nil lmk lmv lmh lmr)
  rw [hplug] at hpermR
  have hpermM := ((hpermR.cons ni).append_left L.slots).append_right (slotsC ctx)
  rw [← T.slots_node ni L nk nv nh] at hpermM
  have hndM := hpermM.nodup_iff.1 hnd
  have hinM : ∀ x ∈ L.slots ++ ni :: ((T.node lm .nil lmk lmv lmh lmr).slots ++
      slotsC (T.spineF ri rl rk rv rh rr)) ++ slotsC ctx, 1 ≤ x ∧ x ≤ n :=
    fun x hx => hin x (hpermM.mem_iff.2 hx)
  rw [← hplug, rep_plug] at hR
  obtain ⟨hLM, hspine⟩ := hR
  clear hpermR hpermM
  generalize T.spineF ri rl rk rv rh rr = sp at *
  simp only [T.slot_node] at hroot hspine hwalk
  have hflm : f lm = ⟨0, lmr.slot, lmh, 0, lmk, lmv⟩ := hLM.1
  have hlmr := hLM.2.2
  have hL0 : L.slot ≠ 0 := fun e0 => hLne (hLin.slot_eq_zero.1 e0)
  simp only [T.slots_node, T.slots_nil, List.nil_append] at hndM hinM
  unfold Imp.spliceTwo
  simp only [mkImg_recs_length]
  rw [hwalk]
  dsimp only
  cases sp with
  | nil =>
    -- the right child is the successor
    simp only [plug] at hplug
    cases hplug
    simp only [slotsC, List.append_nil, List.nodup_append, List.nodup_cons, List.mem_append,
      List.mem_cons] at hndM
    have hriin : 1 ≤ ri ∧ ri ≤ n := hinM ri (by simp)
    have hric : ri ∉ slotsC ctx := by grind
    have hrrin : rr.In n := fun x hx => hinM x (by simp [hx])
    simp only [List.head?_nil, Option.map_none, Option.getD_none, pathF, List.reverse_nil,
      List.append_nil, List.dropLast_nil, ne_eq, not_true_eq_false, if_false]
    have e1 := updateChild_mkImg_left d hdr n f (p := ri) (c := L.slot) hriin.1 hriin.2 hLin.slot_le
      (by rw [hflm]; exact hrrin.slot_le) (T.slot_ne_of_not_mem hriin.1 (by grind))
      (by rw [hflm]; exact T.slot_ne_of_not_mem hriin.1 (by grind))
    rw [e1, hflm]
    simp only
    have hctx2 : RepCtx (upd f ri ⟨L.slot, rr.slot, max (hgt f L.slot) (hgt f rr.slot), 0, rk, rv⟩) ctx ni :=
      hctx.congr (fun y hy => upd_ne _ _ (fun e => hric (e ▸ hy)))
    obtain ⟨h', f4, e, hrc, hagree, hpa, _⟩ := relinkParent_spec d hdr n _ ctx ni ri path hp hctx2
      (by grind) (fun y hy => hinM y (by simp [hy])) hriin.2 hric
    rw [e]
    refine ⟨f4, _, ri, reh h' ctx,
      .node ri L rk rv (max (hgt f L.slot) (hgt f rr.slot)) rr, rfl, by simp, ?_, hrc, ?_, ?_, ?_, ?_⟩
    · refine ⟨?_, ?_, ?_⟩
      · rw [hagree ri hric, upd_same]; rfl
      · refine hL.congr (fun i hi => ?_)
        rw [hagree i (by grind), upd_ne _ _ (by grind)]
      · refine hlmr.congr (fun i hi => ?_)
        rw [hagree i (by grind), upd_ne _ _ (by grind)]
    · rw [pathOf_reh]; exact hpa
    · rw [up_reh]
      cases L with
      | nil => exact absurd rfl hLne
      | node li ll lk lv lh lr => rfl
    · rw [rootSlot_reh]; rfl
    · intro j hj
      rw [slotsC_reh] at hj
      simp only [T.slots_node, List.mem_append, List.mem_cons, not_or] at hj
      rw [hagree j hj.2, upd_ne _ _ hj.1.2.1]
  | cons fr0 sctx' =>
    -- the successor is the leftmost node of a non-trivial left spine
    have hd0 : fr0.dir = false := hdir fr0 (by simp)
    obtain ⟨hfr0, hsib0, hsc⟩ := hspine
    have hri : rootSlot sctx' fr0.i = ri := hroot
    have hrimem := rootSlot_mem fr0 sctx' lm
    rw [hroot] at hrimem
    simp only [slotsC, List.mem_append, List.mem_cons] at hrimem
    have hlmin : 1 ≤ lm ∧ lm ≤ n := hinM lm (by simp)
    have hp0in : 1 ≤ fr0.i ∧ fr0.i ≤ n := hinM fr0.i (by simp [slotsC])
    have hriin : 1 ≤ ri ∧ ri ≤ n := hRin.root
    have hlmrin : lmr.In n := fun x hx => hinM x (by simp [hx])
    have hsib0in : fr0.sib.In n := fun x hx => hinM x (by simp [slotsC, hx])
    have hinC : ∀ y ∈ slotsC ctx, 1 ≤ y ∧ y ≤ n := fun y hy => hinM y (by simp [hy])
    simp only [slotsC, List.nodup_append, List.nodup_cons, List.mem_append, List.mem_cons] at hndM
    have hlmc : lm ∉ slotsC ctx := by grind
    have hp0c : fr0.i ∉ slotsC ctx := by grind
    have hrilm : ri ≠ lm := by grind
    have hlmp0 : lm ≠ fr0.i := by grind
    simp only [List.head?_cons, Option.map_some, Option.getD_some, pathF, List.reverse_cons,
      List.nil_append, List.dropLast_concat]
    have hp00 : fr0.i ≠ 0 := by omega
    simp only [if_pos hp00, if_pos hrilm, rd_mkImg d hdr n f hlmin.1 hlmin.2, hflm]
    -- the successor's right subtree goes to the successor's parent
    obtain ⟨h0, e0⟩ := updateChild_frame d hdr n f fr0 (a := lm) (x := lmr.slot) hp0in hfr0
      hlmrin.slot_le (T.slot_ne_of_not_mem hp0in.1 (by grind)) hsib0in.slot_le
      (T.slot_ne_of_not_mem hp0in.1 (by grind))
    have e0' : Imp.updateChild d (mkImg hdr n f) fr0.i false lmr.slot =
        mkImg hdr n (upd f fr0.i (({ fr0 with h := h0 } : Frame α β).rc lmr.slot)) := by
      rw [← hd0]; exact e0
    rw [e0']
    obtain ⟨f1, hf1⟩ : ∃ g, g = upd f fr0.i (({ fr0 with h := h0 } : Frame α β).rc lmr.slot) := ⟨_, rfl⟩
    rw [← hf1]
    have hf1lm : f1 lm = ⟨0, lmr.slot, lmh, 0, lmk, lmv⟩ := by rw [hf1, upd_ne _ _ hlmp0, hflm]
    -- the successor takes over the two children of the removed node
    have e1 := updateChild_mkImg_left d hdr n f1 (p := lm) (c := L.slot) hlmin.1 hlmin.2 hLin.slot_le
      (by rw [hf1lm]; exact hlmrin.slot_le) (T.slot_ne_of_not_mem hlmin.1 (by grind))
      (by rw [hf1lm]; exact T.slot_ne_of_not_mem hlmin.1 (by grind))
    rw [e1, hf1lm]
    simp only
    have e2 := updateChild_mkImg_right d hdr n
      (upd f1 lm ⟨L.slot, lmr.slot, max (hgt f1 L.slot) (hgt f1 lmr.slot), 0, lmk, lmv⟩)
      (p := lm) (c := ri) hlmin.1 hlmin.2 hriin.2
      (by rw [upd_same]; exact hLin.slot_le) hrilm
      (by rw [upd_same]; exact T.slot_ne_of_not_mem hlmin.1 (by grind))
    rw [e2]
    simp only [upd_same, upd_upd]
    obtain ⟨H2, hH2⟩ : ∃ H, H = max (hgt (upd f1 lm ⟨L.slot, lmr.slot,
      max (hgt f1 L.slot) (hgt f1 lmr.slot), 0, lmk, lmv⟩) L.slot) (hgt (upd f1 lm ⟨L.slot, lmr.slot,
      max (hgt f1 L.slot) (hgt f1 lmr.slot), 0, lmk, lmv⟩) ri) := ⟨_, rfl⟩
    rw [← hH2]
    obtain ⟨f3, hf3⟩ : ∃ g, g = upd f1 lm ⟨L.slot, ri, H2, 0, lmk, lmv⟩ := ⟨_, rfl⟩
    rw [← hf3]
    have hf3o : ∀ j, j ≠ lm → j ≠ fr0.i → f3 j = f j := by
      intro j h1 h2
      rw [hf3, upd_ne _ _ h1, hf1, upd_ne _ _ h2]
    have hctx3 : RepCtx f3 ctx ni :=
      hctx.congr (fun y hy => hf3o y (fun e => hlmc (e ▸ hy)) (fun e => hp0c (e ▸ hy)))
    obtain ⟨h', f4, e, hrc, hagree, hpa, _⟩ := relinkParent_spec d hdr n f3 ctx ni lm path hp hctx3
      (by grind) hinC hlmin.2 hlmc
    rw [e]
    have hkeep : ∀ X : T α β, Rep f X → (∀ i ∈ X.slots, i ∉ slotsC ctx ∧ i ≠ lm ∧ i ≠ fr0.i) →
        Rep f4 X := by
      intro X hX hd
      refine hX.congr (fun i hi => ?_)
      rw [hagree i (hd i hi).1, hf3o i (hd i hi).2.1 (hd i hi).2.2]
    have hf4p0 : f4 fr0.i = ({ fr0 with h := h0 } : Frame α β).rc lmr.slot := by
      rw [hagree _ hp0c, hf3, upd_ne _ _ (Ne.symm hlmp0), hf1, upd_same]
    have hf4lm : f4 lm = ⟨L.slot, ri, H2, 0, lmk, lmv⟩ := by
      rw [hagree _ hlmc, hf3, upd_same]
    refine ⟨f4, _, lm, sctx' ++ (⟨lm, lmk, lmv, H2, true, L⟩ : Frame α β) :: reh h' ctx,
      ({ fr0 with h := h0 } : Frame α β).fill lmr, rfl, Frame.fill_ne_nil _ _, ?_, ?_, ?_, ?_, ?_, ?_⟩
    · refine (rep_plug [({ fr0 with h := h0 } : Frame α β)] lmr).2 ⟨?_, hf4p0, ?_, trivial⟩
      · exact hkeep lmr hlmr (by grind)
      · exact hkeep fr0.sib hsib0 (by grind)
    · rw [Frame.slot_fill]
      refine (repCtx_append _ _ _).2 ⟨?_, ?_⟩
      · refine hsc.congr (fun y hy => ?_)
        rw [hagree y (by grind), hf3o y (by grind) (by grind)]
      · show RepCtx f4 ((⟨lm, lmk, lmv, H2, true, L⟩ : Frame α β) :: reh h' ctx) (rootSlot sctx' fr0.i)
        rw [hri]
        exact ⟨hf4lm, hkeep L hL (by grind), hrc⟩
    · rw [List.reverse_append, List.reverse_append, List.reverse_reverse, hpa, pathOf_append,
        Frame.slot_fill]
      show _ = pathF sctx' fr0.i ++ pathOf ((⟨lm, lmk, lmv, H2, true, L⟩ : Frame α β) :: reh h' ctx)
        (rootSlot sctx' fr0.i)
      rw [hri]
      simp [pathOf, pathOf_reh]
    · rw [← Frame.rebalFill_eq, up_append]
      cases L with
      | nil => exact absurd rfl hLne
      | node li ll lk lv lh lr =>
        simp only [T.delRoot, hpop]
        show up (reh h' ctx) _ = _
        rw [up_reh]
        rfl
    · rw [rootSlot_append]
      show rootSlot (reh h' ctx) lm = _
      rw [rootSlot_reh]
    · intro j hj
      have hpm := Frame.slots_fill_perm ({ fr0 with h := h0 } : Frame α β) lmr
      simp only [List.mem_append, hpm.mem_iff, slotsC_append, slotsC, slotsC_reh, List.mem_cons,
        not_or] at hj
      rw [hagree j hj.2.2.2, hf3o j hj.2.2.1.1 hj.1.2.1]

/-! ### Putting the phases together -/

theorem Imp.removeFinish_mkImg (d : Rec α β) (ni : Nat) (hdr : Hdr) (n : Nat) (f : Nat → Rec α β)
    (path1 : List Imp.Ancestor) (x : Nat) :
    Imp.removeFinish d ni (mkImg hdr n f, path1, x) =
      ((Imp.removeNode d (Imp.rebalance d (if ni = (mkImg hdr n f).hdr.root then
          Imp.setRoot (mkImg hdr n f) x else mkImg hdr n f) path1) ni).1,
        some (Imp.removeNode d (Imp.rebalance d (if ni = (mkImg hdr n f).hdr.root then
          Imp.setRoot (mkImg hdr n f) x else mkImg hdr n f) path1) ni).2) := rfl

section Core
variable [LinOrd α]

/-- The node found has at most one child `C`. -/
theorem remove_core_child (c : TreeCfg) (kd : α) (vd : β) (s : Tree α β) (h : s.Inv c) (k : α) (ni : Nat)
    (v : β) (hf : s.root.find k = some (ni, v)) (ctx : List (Frame α β)) (C : T α β)
    (path : List Imp.Ancestor) (hp : path.reverse = pathOf ctx ni)
    (hctx : RepCtx (s.recAt c kd vd) ctx ni) (hC : Rep (s.recAt c kd vd) C) (hbal : C.Bal)
    (hnd : (C.slots ++ slotsC ctx).Nodup) (hin : ∀ x ∈ C.slots ++ slotsC ctx, 1 ≤ x ∧ x ≤ s.slots)
    (hni : ni ∉ slotsC ctx) (hroot : s.root.slot = rootSlot ctx ni)
    (hpure : up ctx C = s.root.del k) :
    Imp.removeFinish (Imp.dflt kd vd) ni
        (Imp.spliceChild (Imp.dflt kd vd) (s.image c kd vd) path C.slot) =
      (({ s with root := s.root.del k, free := ni :: s.free, size := s.size - 1 } : Tree α β).image c kd vd,
        some v) := by
  rw [Tree.image_eq_mkImg]
  obtain ⟨f4, path1, e, hcase⟩ := spliceChild_spec (Imp.dflt kd vd) (s.hdr c) s.slots (s.recAt c kd vd)
    ctx ni C path hp hctx hC hbal hnd hin
  rw [e, Imp.removeFinish_mkImg, setRoot_step (s.hdr c) s.slots f4 ctx ni C.slot hroot hni]
  rcases hcase with ⟨rfl, rfl, rfl⟩ | ⟨ctxT, t, hne, hrt, hrc, hpath, hup, hrs, hag⟩
  · have hdel : s.root.del k = C := hpure.symm
    have := finish_remove c kd vd s h k ni v hf (s.recAt c kd vd) (by rw [hdel]; exact hC)
      (fun _ _ => rfl)
    rw [hdel] at this
    simp only [rootSlot, Imp.rebalance, List.reverse_nil, List.foldl_nil]
    rw [hdel, this]
  · have := remove_tail c kd vd s h k ni v hf ctxT t hne f4 path1 (hup.trans hpure) hrt hrc hag hpath
    rw [hrs] at this
    rw [this]

/-- The node found has two children. -/
theorem remove_core_two (c : TreeCfg) (kd : α) (vd : β) (s : Tree α β) (h : s.Inv c) (k : α) (ni : Nat)
    (v : β) (hf : s.root.find k = some (ni, v)) (ctx : List (Frame α β)) (nk : α) (nh : Nat)
    (L : T α β) (hLne : L ≠ .nil) (ri : Nat) (rl : T α β) (rk : α) (rv : β) (rh : Nat) (rr : T α β)
    (path : List Imp.Ancestor) (hp : path.reverse = pathOf ctx ni)
    (hctx : RepCtx (s.recAt c kd vd) ctx ni)
    (hN : Rep (s.recAt c kd vd) (.node ni L nk v nh (.node ri rl rk rv rh rr)))
    (hnd : ((T.node ni L nk v nh (.node ri rl rk rv rh rr)).slots ++ slotsC ctx).Nodup)
    (hin : ∀ x ∈ (T.node ni L nk v nh (.node ri rl rk rv rh rr)).slots ++ slotsC ctx,
      1 ≤ x ∧ x ≤ s.slots)
    (hroot : s.root.slot = rootSlot ctx ni)
    (hpure : up ctx (T.delRoot (.node ni L nk v nh (.node ri rl rk rv rh rr))) = s.root.del k) :
    Imp.removeFinish (Imp.dflt kd vd) ni
        (Imp.spliceTwo (Imp.dflt kd vd) (s.image c kd vd) path L.slot ri) =
      (({ s with root := s.root.del k, free := ni :: s.free, size := s.size - 1 } : Tree α β).image c kd vd,
        some v) := by
  rw [Tree.image_eq_mkImg]
  obtain ⟨f4, path1, lm, ctxT, t, e, hne, hrt, hrc, hpath, hup, hrs, hag⟩ := spliceTwo_spec
    (Imp.dflt kd vd) (s.hdr c) s.slots (s.recAt c kd vd) ctx ni nk v nh L hLne ri rl rk rv rh rr path
    hp hctx hN hnd hin
  have hni : ni ∉ slotsC ctx := fun hm =>
    (List.nodup_append.1 hnd).2.2 ni (by simp) ni hm rfl
  rw [e, Imp.removeFinish_mkImg, setRoot_step (s.hdr c) s.slots f4 ctx ni lm hroot hni]
  have := remove_tail c kd vd s h k ni v hf ctxT t hne f4 path1 (hup.trans hpure) hrt hrc hag hpath
  rw [hrs] at this
  rw [this]

end Core

variable [LinOrd α]

/-- `remove`: descent, splice of the in-order successor, `rebalance` over the spliced path, `remove_node`. -/
theorem Imp.remove_eq (c : TreeCfg) (kd : α) (vd : β) (s s' : Tree α β) (h : s.Inv c) (k : α)
    (r : Option β) (hr : s.remove k = .ok (s', r)) :
    Imp.remove (Imp.dflt kd vd) (s.image c kd vd) k = (s'.image c kd vd, r) := by
  have hrep := Tree.rep_recAt c kd vd s h.rootNodup
  have hin := h.rootIn
  obtain ⟨path, hdesc, hpath⟩ := removeDescend_rep (Imp.dflt kd vd) (s.hdr c) s.slots
    (s.recAt c kd vd) k s.root (s.slots + 1) [(none, none, s.root.slot)] [] hrep hin
    (Nat.le_succ_of_le h.height_le) (by simp [pathOf])
  have hdesc' : Imp.removeDescend (Imp.dflt kd vd) (s.image c kd vd) k ((s.image c kd vd).recs.length + 1)
      (s.image c kd vd).hdr.root [(none, none, (s.image c kd vd).hdr.root)] =
      ((s.root.focus k).slot, path) := by
    rw [Tree.image_recs_length]; exact hdesc
  cases hfind : s.root.find k with
  | none =>
    simp only [Tree.remove, hfind] at hr
    cases hr
    rw [T.focus_of_find_none hfind] at hdesc'
    exact Imp.remove_absent _ _ _ path hdesc'
  | some p =>
    obtain ⟨ni, v⟩ := p
    obtain ⟨L, nk, nh, R, hfoc⟩ := T.focus_of_find hfind
    obtain ⟨hrem, _, _⟩ := Tree.remove_found h hfind
    rw [hrem] at hr
    cases hr
    rw [hfoc] at hpath hdesc'
    simp only [T.slot_node] at hpath hdesc'
    -- the zipper of the search path
    have hplug : plug (s.root.descend k []) (.node ni L nk v nh R) = s.root := by
      have := T.plug_descend_focus k s.root []
      rwa [hfoc] at this
    have hpure : up (s.root.descend k []) (T.delRoot (.node ni L nk v nh R)) = s.root.del k := by
      have := T.up_descend_del k s.root []
      rwa [hfoc] at this
    generalize s.root.descend k [] = ctx at hplug hpure hpath
    have hrepP := hrep
    rw [← hplug, rep_plug] at hrepP
    obtain ⟨hN, hctx⟩ := hrepP
    simp only [T.slot_node] at hctx
    have hperm := slots_plug_perm ctx (T.node ni L nk v nh R)
    rw [hplug] at hperm
    have hndS := hperm.nodup_iff.1 h.rootNodup
    have hinS : ∀ x ∈ (T.node ni L nk v nh R).slots ++ slotsC ctx, 1 ≤ x ∧ x ≤ s.slots :=
      fun x hx => hin x (hperm.mem_iff.2 hx)
    have hNin : (T.node ni L nk v nh R).In s.slots := fun x hx => hinS x (List.mem_append_left _ hx)
    have hniC : ni ∉ slotsC ctx := fun hm =>
      (List.nodup_append.1 hndS).2.2 ni (by simp) ni hm rfl
    have hrs : s.root.slot = rootSlot ctx ni := by rw [← hplug, slot_plug]; rfl
    have hbalN : (T.node ni L nk v nh R).Bal := bal_of_plug (hplug ▸ h.bal)
    have hni0 : ni ≠ 0 := by have := hNin.root; omega
    have hroot0 : (s.image c kd vd).hdr.root ≠ 0 := by
      show s.root.slot ≠ 0
      rw [hrs]
      cases ctx with
      | nil => exact hni0
      | cons fr ctx' =>
        have := (hinS _ (List.mem_append_right _ (rootSlot_mem fr ctx' ni))).1
        omega
    have hrd : Imp.rd (Imp.dflt kd vd) (s.image c kd vd) ni = T.rc L nk v nh R := by
      rw [Tree.image_eq_mkImg]; exact hN.rd hNin _ _
    have hrdl : (Imp.rd (Imp.dflt kd vd) (s.image c kd vd) ni).left = L.slot := by rw [hrd]; rfl
    have hrdr : (Imp.rd (Imp.dflt kd vd) (s.image c kd vd) ni).right = R.slot := by rw [hrd]; rfl
    by_cases hone : L = .nil ∨ R = .nil
    · -- at most one child
      obtain ⟨C, hsub, hsel, hdel, hC, hCb⟩ : ∃ C : T α β, List.Sublist C.slots (T.node ni L nk v nh R).slots ∧
          Imp.selChild L.slot R.slot = C.slot ∧ T.delRoot (.node ni L nk v nh R) = C ∧
          Rep (s.recAt c kd vd) C ∧ C.Bal := by
        cases L with
        | nil =>
          refine ⟨R, ?_, ?_, ?_, hN.2.2, hbalN.2.1⟩
          · rw [T.slots_node]
            exact (List.sublist_cons_self _ _).trans (List.sublist_append_right _ _)
          · exact Imp.selChild_zero_left _
          · cases R <;> rfl
        | node li ll lk lv lh lr =>
          have hR : R = .nil := by
            rcases hone with h1 | h1
            · cases h1
            · exact h1
          subst hR
          refine ⟨.node li ll lk lv lh lr, ?_, ?_, rfl, hN.2.1, hbalN.1⟩
          · rw [T.slots_node ni]
            exact List.sublist_append_left _ _
          · exact Imp.selChild_zero_right _
      have hone' : ¬ (L.slot ≠ 0 ∧ R.slot ≠ 0) := by
        rcases hone with h1 | h1 <;> simp [h1]
      rw [Imp.remove_one _ _ _ ni path L.slot R.slot hroot0 hdesc' hni0 hrdl hrdr hone', hsel]
      rw [hdel] at hpure
      exact remove_core_child c kd vd s h k ni v hfind ctx C path hpath hctx hC hCb
        ((hsub.append_right _).nodup hndS) (fun x hx => hinS x ((hsub.append_right _).mem hx))
        hniC hrs hpure
    · -- two children
      have hLne : L ≠ .nil := fun e => hone (Or.inl e)
      cases R with
      | nil => exact absurd (Or.inr rfl) hone
      | node ri rl rk rv rh rr =>
        have htwo : L.slot ≠ 0 ∧ ri ≠ 0 := by
          refine ⟨fun e => hLne (hNin.left.slot_eq_zero.1 e), ?_⟩
          have := hNin.right.root
          omega
        rw [Imp.remove_two _ _ _ ni path L.slot ri hroot0 hdesc' hni0 hrdl hrdr htwo]
        exact remove_core_two c kd vd s h k ni v hfind ctx nk nh L hLne ri rl rk rv rh rr path hpath
          hctx hN hndS hinS hrs hpure

end Stevia
