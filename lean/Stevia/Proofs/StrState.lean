/-
  Stevia.Proofs.StrState — prefixed strings, pod strings, pod bool/option/load:
  UTF-8 validity of everything handed out, and the functional specifications.
-/
import Stevia.Model.Str

namespace Stevia

/-! ### Bridging lemma: `ByteArray.toList` (defined by a loop) is the list of the underlying array -/

theorem toList_loop_eq (b : ByteArray) (i : Nat) (r : List UInt8) :
    ByteArray.toList.loop b i r = r.reverse ++ b.data.toList.drop i := by
  fun_induction ByteArray.toList.loop b i r with
  | case1 i r h ih =>
    rw [ih]
    have hi : i < b.data.toList.length := by simpa using h
    rw [List.drop_eq_getElem_cons hi]
    have : b.get! i = b.data.toList[i] := by
      cases b with | mk d =>
      simp [ByteArray.get!]
      have : i < d.size := h
      simp [this]
    simp [this]
  | case2 i r h =>
    have : b.data.toList.length ≤ i := by
      have : ¬ i < b.data.size := h
      simp; omega
    simp [List.drop_eq_nil_of_le this]

theorem toList_eq (b : ByteArray) : b.toList = b.data.toList := by
  simp [ByteArray.toList, toList_loop_eq]

/-! ### Little-endian prefix -/

theorem leDec_leEnc (w x : Nat) : leDec (leEnc w x) = x % 256 ^ w := by
  induction w generalizing x with
  | zero => simp [leEnc, leDec, Nat.mod_one]
  | succ n ih =>
    simp only [leEnc, leDec, ih]
    have : (UInt8.ofNat (x % 256)).toNat = x % 256 := by
      simp [UInt8.toNat_ofNat']
    rw [this, Nat.pow_succ, Nat.mul_comm (256^n) 256, Nat.mod_mul]

theorem leEnc_length (w x : Nat) : (leEnc w x).length = w := by
  induction w generalizing x with
  | zero => simp [leEnc]
  | succ n ih => simp [leEnc, ih]

theorem leBA_size (w x : Nat) : (leBA w x).size = w := by
  simp [leBA, ByteArray.size, leEnc_length]

theorem zerosBA_size (n : Nat) : (zerosBA n).size = n := by
  simp [zerosBA, ByteArray.size]

theorem leBA_toList (w x : Nat) : (leBA w x).toList = leEnc w x := by
  simp [toList_eq, leBA]

theorem leOfBA_leBA (w x : Nat) : leOfBA (leBA w x) = x % 256 ^ w := by
  simp [leOfBA, leBA_toList, leDec_leEnc]

theorem extract_mid {a b c : ByteArray} {i j : Nat} (hi : i = a.size) (hj : j = i + b.size) :
    (a ++ b ++ c).extract i j = b := by
  subst hi hj
  rw [ByteArray.append_assoc]
  have := @ByteArray.extract_append_size_add a (b ++ c) 0 b.size
  rw [Nat.add_zero] at this
  rw [this, ByteArray.extract_append_eq_left rfl]

/-! ### UTF-8 building blocks -/

theorem zerosBA_succ (n : Nat) : zerosBA (n+1) = (zerosBA n).push (Char.ofNat 0).toUInt8 := by
  apply ByteArray.ext
  have : (Char.ofNat 0).toUInt8 = 0 := by decide
  simp [zerosBA, ByteArray.data_push, Array.replicate_succ, this]

theorem zerosBA_valid (n : Nat) : (zerosBA n).IsValidUTF8 := by
  induction n with
  | zero => exact ByteArray.isValidUTF8_empty
  | succ n ih =>
    rw [zerosBA_succ]
    exact ih.push (by decide)

theorem floorBoundary_le (s : String) (n : Nat) : floorBoundary s n ≤ n := by
  induction n with
  | zero => simp [floorBoundary]
  | succ n ih =>
    simp only [floorBoundary]
    split <;> omega

theorem floorBoundary_isValid (s : String) (n : Nat) : (String.Pos.Raw.mk (floorBoundary s n)).IsValid s := by
  induction n with
  | zero => exact String.Pos.Raw.isValid_zero
  | succ n ih =>
    simp only [floorBoundary]
    split
    · next h => exact String.Pos.Raw.isValid_eq_true_iff.mp h
    · exact ih

/-- Maximality: no char boundary between the cut and the limit. -/
theorem floorBoundary_max (s : String) (n m : Nat) (hm : m ≤ n) (hv : (String.Pos.Raw.mk m).IsValid s) :
    m ≤ floorBoundary s n := by
  induction n with
  | zero => omega
  | succ n ih =>
    simp only [floorBoundary]
    split
    · exact hm
    · next h =>
      by_cases hmn : m = n + 1
      · subst hmn
        exact absurd (String.Pos.Raw.isValid_eq_true_iff.mpr hv) h
      · exact ih (by omega)

/-- The bytes of `s` up to a floor boundary are valid UTF-8. -/
theorem extract_floorBoundary_valid (s : String) (n : Nat) :
    (s.toByteArray.extract 0 (floorBoundary s n)).IsValidUTF8 :=
  (floorBoundary_isValid s n).isValidUTF8_extract_zero

/-! ### No zero byte in the UTF-8 encoding of a NUL-free string -/

theorem utf8EncodeChar_ne_zero (c : Char) (hc : c ≠ Char.ofNat 0) :
    ∀ b ∈ String.utf8EncodeChar c, b ≠ 0 := by
  have hv : c.val.toNat ≠ 0 := by
    intro h
    apply hc
    apply Char.ext
    apply UInt32.toNat_inj.mp
    rw [h]; rfl
  intro b hb h0
  subst h0
  unfold String.utf8EncodeChar at hb
  simp only [] at hb
  split at hb
  · simp only [List.mem_cons, List.not_mem_nil, or_false] at hb
    have := congrArg UInt8.toNat hb
    simp only [UInt8.toNat_ofNat', UInt8.toNat_ofNat] at this
    omega
  · split at hb
    · simp only [List.mem_cons, List.not_mem_nil, or_false] at hb
      rcases hb with hb | hb <;>
      · have := congrArg UInt8.toNat hb
        simp only [UInt8.toNat_ofNat', UInt8.toNat_ofNat] at this
        omega
    · split at hb
      · simp only [List.mem_cons, List.not_mem_nil, or_false] at hb
        rcases hb with hb | hb | hb <;>
        · have := congrArg UInt8.toNat hb
          simp only [UInt8.toNat_ofNat', UInt8.toNat_ofNat] at this
          omega
      · simp only [List.mem_cons, List.not_mem_nil, or_false] at hb
        rcases hb with hb | hb | hb | hb <;>
        · have := congrArg UInt8.toNat hb
          simp only [UInt8.toNat_ofNat', UInt8.toNat_ofNat] at this
          omega

theorem string_bytes_ne_zero (s : String) (hnul : ∀ c ∈ s.toList, c ≠ Char.ofNat 0) :
    ∀ b ∈ s.toByteArray.data.toList, b ≠ 0 := by
  rw [← String.utf8Encode_toList, List.utf8Encode, List.toList_data_toByteArray]
  intro b hb
  rw [List.mem_flatMap] at hb
  obtain ⟨c, hc, hbc⟩ := hb
  exact utf8EncodeChar_ne_zero c (hnul c hc) b hbc

namespace PStr

/-! ### Prefixed strings (C11, C13) -/

/-- `new`: a buffer shorter than the prefix is rejected by panic; otherwise the buffer keeps its size,
    the recorded length is `min(len - w, P)` — clamped, never wrapped — and only the prefix bytes change. -/
theorem new_spec (w P : Nat) (hP : P < 256 ^ w) (buf : ByteArray) :
    (buf.size < w ∧ new w P buf = .error .oob) ∨
    (w ≤ buf.size ∧ ∃ b' r, new w P buf = .ok (b', r) ∧ b'.size = buf.size ∧
        recLen w b' = min (buf.size - w) P ∧ b'.extract w b'.size = buf.extract w buf.size ∧
        payload w b' = buf.extract w (w + min (buf.size - w) P) ∧
        (r = true ↔ (payload w b').IsValidUTF8)) := by
  by_cases h : buf.size < w
  · left; exact ⟨h, by simp [new, h]⟩
  · right
    have hw : w ≤ buf.size := by omega
    refine ⟨hw, _, _, by simp only [new, h, if_false]; rfl, ?_⟩
    have hsz : (leBA w (min (buf.size - w) P) ++ buf.extract w buf.size).size = buf.size := by
      simp [ByteArray.size_append, leBA_size, ByteArray.size_extract]; omega
    have hrec : recLen w (leBA w (min (buf.size - w) P) ++ buf.extract w buf.size)
        = min (buf.size - w) P := by
      unfold recLen
      rw [ByteArray.extract_append_eq_left (leBA_size _ _).symm, leOfBA_leBA]
      apply Nat.mod_eq_of_lt
      have := Nat.min_le_right (buf.size - w) P
      omega
    have hpay : payload w (leBA w (min (buf.size - w) P) ++ buf.extract w buf.size)
        = buf.extract w (w + min (buf.size - w) P) := by
      unfold payload
      rw [hrec]
      have := @ByteArray.extract_append_size_add' (leBA w (min (buf.size - w) P))
        (buf.extract w buf.size) 0 (min (buf.size - w) P) w (leBA_size _ _).symm
      rw [Nat.add_zero] at this
      rw [this, ByteArray.extract_extract, Nat.add_zero]
      congr 1
      have := Nat.min_le_left (buf.size - w) P
      omega
    refine ⟨hsz, hrec, ?_, hpay, ?_⟩
    · rw [hsz]
      exact ByteArray.extract_append_eq_right (leBA_size _ _).symm
        (by simp [leBA_size, ByteArray.size_extract]; omega)
    · rw [← ByteArray.validateUTF8_eq_true_iff]
      unfold payload
      rw [hrec]

/-- `from_bytes` is `Ok` exactly for a valid payload, and then returns the payload. -/
theorem fromBytes_spec (w : Nat) (buf : ByteArray) (hw : w ≤ buf.size) (hl : recLen w buf ≤ buf.size - w) :
    fromBytes w buf = .ok (if (payload w buf).validateUTF8 then some (payload w buf) else none) ∧
    ((payload w buf).validateUTF8 = true ↔ (payload w buf).IsValidUTF8) := by
  refine ⟨?_, ByteArray.validateUTF8_eq_true_iff⟩
  have h1 : ¬ buf.size < w := by omega
  have h2 : ¬ buf.size - w < recLen w buf := by omega
  simp only [fromBytes, h1, h2, if_false]

/-- `copy_from_str`: the buffer keeps its size, the prefix (hence the recorded length) is unchanged,
    bytes beyond the payload are untouched, and the payload becomes the longest prefix of `s`
    that fits without splitting a character, followed by zeros — so nothing of the earlier content survives. -/
theorem copy_spec (w : Nat) (buf : ByteArray) (s : String) (hw : w ≤ buf.size)
    (hl : recLen w buf ≤ buf.size - w) :
    let n := floorBoundary s (min (recLen w buf) s.utf8ByteSize)
    (copyFromStr w buf s).size = buf.size ∧
    recLen w (copyFromStr w buf s) = recLen w buf ∧
    payload w (copyFromStr w buf s) = s.toByteArray.extract 0 n ++ zerosBA (recLen w buf - n) ∧
    (copyFromStr w buf s).extract (w + recLen w buf) buf.size = buf.extract (w + recLen w buf) buf.size := by
  intro n
  have hn : n ≤ min (recLen w buf) s.utf8ByteSize := floorBoundary_le _ _
  have hA : (buf.extract 0 w).size = w := by simp [ByteArray.size_extract]; omega
  have hS : (s.toByteArray.extract 0 n).size = n := by
    simp [ByteArray.size_extract, String.size_toByteArray]; omega
  have hZ : (zerosBA (recLen w buf - n)).size = recLen w buf - n := zerosBA_size _
  have hT : (buf.extract (w + recLen w buf) buf.size).size = buf.size - (w + recLen w buf) := by
    simp [ByteArray.size_extract]
  have hcopy : copyFromStr w buf s = buf.extract 0 w ++ s.toByteArray.extract 0 n
      ++ zerosBA (recLen w buf - n) ++ buf.extract (w + recLen w buf) buf.size := rfl
  have hrec : recLen w (copyFromStr w buf s) = recLen w buf := by
    rw [hcopy]
    unfold recLen
    rw [ByteArray.append_assoc, ByteArray.append_assoc, ByteArray.extract_append_eq_left hA.symm]
  refine ⟨?_, hrec, ?_, ?_⟩
  · rw [hcopy]; simp only [ByteArray.size_append, hA, hS, hZ, hT]; omega
  · unfold payload
    rw [hrec, hcopy]
    rw [ByteArray.append_assoc (a := buf.extract 0 w)]
    apply extract_mid hA.symm
    simp only [ByteArray.size_append, hS, hZ]; omega
  · rw [hcopy]
    apply ByteArray.extract_append_eq_right
    · simp only [ByteArray.size_append, hA, hS, hZ]; omega
    · simp only [ByteArray.size_append, hA, hS, hZ, hT]; omega

/-- After any copy the payload is valid UTF-8 (C11): cut at a char boundary, padded with NULs. -/
theorem copy_valid (w : Nat) (buf : ByteArray) (s : String) (hw : w ≤ buf.size)
    (hl : recLen w buf ≤ buf.size - w) : (payload w (copyFromStr w buf s)).IsValidUTF8 := by
  rw [(copy_spec w buf s hw hl).2.2.1]
  exact (extract_floorBoundary_valid _ _).append (zerosBA_valid _)

/-- Re-loading the bytes after a copy returns the identical string. -/
theorem reload_after_copy (w : Nat) (buf : ByteArray) (s : String) (hw : w ≤ buf.size)
    (hl : recLen w buf ≤ buf.size - w) :
    fromBytes w (copyFromStr w buf s) = .ok (some (payload w (copyFromStr w buf s))) := by
  obtain ⟨h1, h2, -, -⟩ := copy_spec w buf s hw hl
  have := (fromBytes_spec w (copyFromStr w buf s) (by omega) (by omega)).1
  rw [this, ByteArray.validateUTF8_eq_true_iff.mpr (copy_valid w buf s hw hl)]
  rfl

set_option linter.unusedVariables false in
/-- The result of a copy does not depend on the earlier payload: two buffers with the same prefix
    and the same bytes beyond the payload give the same buffer. -/
theorem copy_forgets (w : Nat) (b1 b2 : ByteArray) (s : String) (hs : b1.size = b2.size)
    (hw : w ≤ b1.size) (hp : b1.extract 0 w = b2.extract 0 w) (hl : recLen w b1 ≤ b1.size - w)
    (ht : b1.extract (w + recLen w b1) b1.size = b2.extract (w + recLen w b1) b2.size) :
    copyFromStr w b1 s = copyFromStr w b2 s := by
  have hr : recLen w b1 = recLen w b2 := by unfold recLen; rw [hp]
  unfold copyFromStr
  simp only
  rw [← hr, hp, ht]

/-- A string that fits entirely is stored entirely. -/
theorem copy_fits (w : Nat) (buf : ByteArray) (s : String) (hfit : s.utf8ByteSize ≤ recLen w buf) :
    floorBoundary s (min (recLen w buf) s.utf8ByteSize) = s.utf8ByteSize := by
  rw [Nat.min_eq_right hfit]
  apply Nat.le_antisymm (floorBoundary_le _ _)
  apply floorBoundary_max _ _ _ (Nat.le_refl _)
  exact String.Pos.Raw.isValid_rawEndPos

end PStr

namespace PodStr

/-! ### Pod strings (C11, C14) -/

theorem ofBytes_size (N : Nat) (src : ByteArray) : (ofBytes N src).size = N := by
  simp only [ofBytes, ByteArray.size_append, ByteArray.size_extract, zerosBA_size]
  omega

/-- Bytes of the value: the first `min(len, N)` bytes of the source, then zeros. -/
theorem ofBytes_get (N : Nat) (src : ByteArray) (i : Nat) (hi : i < N) :
    (ofBytes N src).toList[i]? = some (if h : i < src.size then src[i] else 0) := by
  rw [toList_eq]
  simp only [ofBytes, ByteArray.data_append, ByteArray.data_extract, zerosBA, Array.toList_append]
  have hL : (src.data.extract 0 (min src.size N)).toList.length = min src.size N := by
    simp only [Array.length_toList, Array.size_extract, ByteArray.size_data]; omega
  by_cases h : i < src.size
  · have h' : i < (src.data.extract 0 (min src.size N)).toList.length := by omega
    rw [List.getElem?_append_left h', List.getElem?_eq_getElem h']
    simp [h, ByteArray.getElem_eq_getElem_data]
  · have h' : (src.data.extract 0 (min src.size N)).toList.length ≤ i := by omega
    rw [List.getElem?_append_right h', hL]
    simp only [h, dite_false, Array.toList_replicate]
    rw [List.getElem?_replicate]
    have : i - min src.size N < N - min src.size N := by omega
    simp [this]

/-- `as_str` is total: `Ok(text)` when the text before the first NUL is valid UTF-8, `Err` otherwise. -/
theorem asStr_spec (v : ByteArray) :
    (asStr v = some (text v) ∧ (text v).IsValidUTF8) ∨ (asStr v = none ∧ ¬ (text v).IsValidUTF8) := by
  unfold asStr
  by_cases h : (text v).validateUTF8 = true
  · left; exact ⟨by simp [h], ByteArray.validateUTF8_eq_true_iff.mp h⟩
  · right; exact ⟨by simp [h], fun h' => h (ByteArray.validateUTF8_eq_true_iff.mpr h')⟩

/-- The text contains no NUL and is followed by a NUL or the end of the buffer. -/
theorem text_spec (v : ByteArray) :
    endIndex v ≤ v.size ∧ (∀ i, i < endIndex v → v.toList[i]? ≠ some 0) ∧
    (endIndex v < v.size → v.toList[endIndex v]? = some 0) := by
  unfold endIndex
  rw [toList_eq]
  have hlen : v.data.toList.length = v.size := by simp [ByteArray.size_data]
  cases hf : v.data.toList.findIdx? (· == 0) with
  | none =>
    simp only [Option.getD_none]
    refine ⟨Nat.le_refl _, ?_, fun h => absurd h (Nat.lt_irrefl _)⟩
    intro i hi hget
    rw [List.findIdx?_eq_none_iff] at hf
    have := hf 0 (List.mem_of_getElem? hget)
    simp at this
  | some k =>
    simp only [Option.getD_some]
    rw [List.findIdx?_eq_some_iff_getElem] at hf
    obtain ⟨hk, hpk, hlt⟩ := hf
    refine ⟨by omega, ?_, ?_⟩
    · intro i hi hget
      have hil : i < v.data.toList.length := by omega
      rw [List.getElem?_eq_getElem hil] at hget
      have := hlt i hi
      simp at hget
      simp [hget] at this
    · intro _
      rw [List.getElem?_eq_getElem hk]
      simpa using hpk

/-- A string that fits and contains no NUL character round-trips: `as_str(from(s)) = Ok(s)`. -/
theorem asStr_roundtrip (N : Nat) (s : String) (hfit : s.utf8ByteSize ≤ N) (hnul : ∀ c ∈ s.toList, c ≠ Char.ofNat 0) :
    asStr (ofStr N s) = some s.toByteArray := by
  have hsz : s.toByteArray.size = s.utf8ByteSize := String.size_toByteArray
  have hof : ofStr N s = s.toByteArray ++ zerosBA (N - s.utf8ByteSize) := by
    unfold ofStr ofBytes
    rw [hsz, Nat.min_eq_left hfit, ← hsz, ByteArray.extract_zero_size]
  have hend : endIndex (ofStr N s) = s.utf8ByteSize := by
    have hN : (ofStr N s).size = N := ofBytes_size N _
    unfold endIndex
    rw [toList_eq, hN, hof, ByteArray.data_append, Array.toList_append, List.findIdx?_append]
    have hnone : s.toByteArray.data.toList.findIdx? (· == 0) = none := by
      rw [List.findIdx?_eq_none_iff]
      intro x hx
      simpa using string_bytes_ne_zero s hnul x hx
    have hlen : s.toByteArray.data.toList.length = s.utf8ByteSize := by
      simp [ByteArray.size_data, hsz]
    rw [hnone, hlen]
    simp only [zerosBA, Array.toList_replicate, List.findIdx?_replicate, Option.none_or]
    by_cases hk : 0 < N - s.utf8ByteSize
    · simp [hk]
    · simp [hk]; omega
  have htext : text (ofStr N s) = s.toByteArray := by
    unfold text
    rw [hend, hof]
    exact ByteArray.extract_append_eq_left hsz.symm
  unfold asStr
  rw [htext, ByteArray.validateUTF8_eq_true_iff.mpr s.isValidUTF8]
  rfl

/-- `Display` renders the same text as `as_str`. -/
theorem display_eq (v t : ByteArray) (h : asStr v = some t) : display v = some t := h

end PodStr

namespace Pod

/-! ### PodBool / PodOption / load (C15) -/

/-- Every byte decodes: zero is false, anything else true. -/
theorem boolDecode_spec (b : UInt8) : boolDecode b = true ↔ b ≠ 0 := by
  simp [boolDecode]

/-- bool → pod → bool is the identity, with encodings 0 and 1. -/
theorem bool_roundtrip (x : Bool) : boolDecode (boolEncode x) = x ∧ (boolEncode x = 0 ∨ boolEncode x = 1) := by
  cases x <;> simp [boolDecode, boolEncode]

/-- `load` is a pure view of exactly the first `n` bytes; trailing bytes are ignored; a short buffer is
    rejected rather than read. -/
theorem load_spec (n : Nat) (data : ByteArray) :
    (data.size < n ∧ load n data = .error .oob) ∨
    (n ≤ data.size ∧ load n data = .ok (data.extract 0 n) ∧ (data.extract 0 n).size = n) := by
  by_cases h : data.size < n
  · left; exact ⟨h, by simp [load, h]⟩
  · right; refine ⟨by omega, by simp [load, h], ?_⟩
    simp only [ByteArray.size_extract]; omega

theorem load_ignores_trailing (n : Nat) (d1 d2 : ByteArray) (h1 : n ≤ d1.size) (h2 : n ≤ d2.size)
    (he : d1.extract 0 n = d2.extract 0 n) : load n d1 = load n d2 := by
  have a : ¬ d1.size < n := by omega
  have b : ¬ d2.size < n := by omega
  simp [load, a, b, he]

/-- Writes through `load_mut` land in the buffer: the first `n` bytes become the value, the rest is untouched. -/
theorem storeMut_spec (n : Nat) (data v : ByteArray) (hv : v.size = n) (hd : n ≤ data.size) :
    ∃ d', storeMut n data v = .ok d' ∧ d'.size = data.size ∧ load n d' = .ok v ∧
      d'.extract n d'.size = data.extract n data.size := by
  have a : ¬ data.size < n := by omega
  have hvn : v.extract 0 n = v := by rw [← hv]; exact ByteArray.extract_zero_size
  have hsz : (v ++ data.extract n data.size).size = data.size := by
    simp only [ByteArray.size_append, ByteArray.size_extract]; omega
  refine ⟨v ++ data.extract n data.size, by simp [storeMut, a, hvn], hsz, ?_, ?_⟩
  · have b : ¬ (v ++ data.extract n data.size).size < n := by omega
    simp only [load, b, if_false]
    rw [ByteArray.extract_append_eq_left hv.symm]
  · rw [hsz]
    apply ByteArray.extract_append_eq_right hv.symm
    simp only [ByteArray.size_extract]; omega

/-- `value()` is `Some` exactly when the inner value reports itself as some, and then it is the inner value. -/
theorem optValue_spec (isSome : ByteArray → Bool) (inner : ByteArray) :
    ((optValue isSome inner).isSome = isSome inner) ∧ (isSome inner = true → optValue isSome inner = some inner) := by
  unfold optValue
  cases h : isSome inner <;> simp

end Pod

end Stevia

