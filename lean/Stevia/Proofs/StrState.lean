/-
  Stevia.Proofs.StrState — prefixed strings, pod strings, pod bool/option/load:
  UTF-8 validity of everything handed out, and the functional specifications.
-/
import Stevia.Model.Str

namespace Stevia

/-! ### Little-endian prefix -/

theorem leDec_leEnc (w x : Nat) : leDec (leEnc w x) = x % 256 ^ w := by
  sorry

theorem leEnc_length (w x : Nat) : (leEnc w x).length = w := by
  sorry

theorem leBA_size (w x : Nat) : (leBA w x).size = w := by
  sorry

theorem zerosBA_size (n : Nat) : (zerosBA n).size = n := by
  sorry

/-! ### UTF-8 building blocks -/

theorem zerosBA_valid (n : Nat) : (zerosBA n).IsValidUTF8 := by
  sorry

theorem floorBoundary_le (s : String) (n : Nat) : floorBoundary s n ≤ n := by
  sorry

theorem floorBoundary_isValid (s : String) (n : Nat) : (String.Pos.Raw.mk (floorBoundary s n)).IsValid s := by
  sorry

/-- Maximality: no char boundary between the cut and the limit. -/
theorem floorBoundary_max (s : String) (n m : Nat) (hm : m ≤ n) (hv : (String.Pos.Raw.mk m).IsValid s) :
    m ≤ floorBoundary s n := by
  sorry

/-- The bytes of `s` up to a floor boundary are valid UTF-8. -/
theorem extract_floorBoundary_valid (s : String) (n : Nat) :
    (s.toByteArray.extract 0 (floorBoundary s n)).IsValidUTF8 := by
  sorry

namespace PStr

/-! ### Prefixed strings (C11, C13) -/

/-- `new`: a buffer shorter than the prefix is rejected by panic; otherwise the buffer keeps its size,
    the recorded length is `min(len - w, P)` — clamped, never wrapped — and only the prefix bytes change. -/
theorem new_spec (w P : Nat) (hP : P < 256 ^ w) (buf : ByteArray) :
    (buf.size < w ∧ new w P buf = .error .oob) ∨
    (w ≤ buf.size ∧ ∃ b' r, new w P buf = .ok (b', r) ∧ b'.size = buf.size ∧
        recLen w b' = min (buf.size - w) P ∧ b'.extract w b'.size = buf.extract w buf.size ∧
        payload w b' = buf.extract w (w + min (buf.size - w) P) ∧
        (r = true ↔ (payload w b').IsValidUTF8)) := by
  sorry

/-- `from_bytes` is `Ok` exactly for a valid payload, and then returns the payload. -/
theorem fromBytes_spec (w : Nat) (buf : ByteArray) (hw : w ≤ buf.size) (hl : recLen w buf ≤ buf.size - w) :
    fromBytes w buf = .ok (if (payload w buf).validateUTF8 then some (payload w buf) else none) ∧
    ((payload w buf).validateUTF8 = true ↔ (payload w buf).IsValidUTF8) := by
  sorry

/-- `copy_from_str`: the buffer keeps its size, the prefix (hence the recorded length) is unchanged,
    bytes beyond the payload are untouched, and the payload becomes the longest prefix of `s`
    that fits without splitting a character, followed by zeros — so nothing of the earlier content survives. -/
theorem copy_spec (w : Nat) (buf : ByteArray) (s : String) (hw : w ≤ buf.size)
    (hl : recLen w buf ≤ buf.size - w) :
    let n := floorBoundary s (min (recLen w buf) s.utf8ByteSize)
    (copyFromStr w buf s).size = buf.size ∧
    recLen w (copyFromStr w buf s) = recLen w buf ∧
    payload w (copyFromStr w buf s) = s.toByteArray.extract 0 n ++ zerosBA (recLen w buf - n) ∧
    (copyFromStr w buf s).extract (w + recLen w buf) buf.size = buf.extract (w + recLen w buf) buf.size := by
  sorry

/-- After any copy the payload is valid UTF-8 (C11): cut at a char boundary, padded with NULs. -/
theorem copy_valid (w : Nat) (buf : ByteArray) (s : String) (hw : w ≤ buf.size)
    (hl : recLen w buf ≤ buf.size - w) : (payload w (copyFromStr w buf s)).IsValidUTF8 := by
  sorry

/-- Re-loading the bytes after a copy returns the identical string. -/
theorem reload_after_copy (w : Nat) (buf : ByteArray) (s : String) (hw : w ≤ buf.size)
    (hl : recLen w buf ≤ buf.size - w) :
    fromBytes w (copyFromStr w buf s) = .ok (some (payload w (copyFromStr w buf s))) := by
  sorry

/-- The result of a copy does not depend on the earlier payload: two buffers with the same prefix
    and the same bytes beyond the payload give the same buffer. -/
theorem copy_forgets (w : Nat) (b1 b2 : ByteArray) (s : String) (hs : b1.size = b2.size)
    (hw : w ≤ b1.size) (hp : b1.extract 0 w = b2.extract 0 w) (hl : recLen w b1 ≤ b1.size - w)
    (ht : b1.extract (w + recLen w b1) b1.size = b2.extract (w + recLen w b1) b2.size) :
    copyFromStr w b1 s = copyFromStr w b2 s := by
  sorry

/-- A string that fits entirely is stored entirely. -/
theorem copy_fits (w : Nat) (buf : ByteArray) (s : String) (hfit : s.utf8ByteSize ≤ recLen w buf) :
    floorBoundary s (min (recLen w buf) s.utf8ByteSize) = s.utf8ByteSize := by
  sorry

end PStr

namespace PodStr

/-! ### Pod strings (C11, C14) -/

theorem ofBytes_size (N : Nat) (src : ByteArray) : (ofBytes N src).size = N := by
  sorry

/-- Bytes of the value: the first `min(len, N)` bytes of the source, then zeros. -/
theorem ofBytes_get (N : Nat) (src : ByteArray) (i : Nat) (hi : i < N) :
    (ofBytes N src).toList[i]? = some (if h : i < src.size then src[i] else 0) := by
  sorry

/-- `as_str` is total: `Ok(text)` when the text before the first NUL is valid UTF-8, `Err` otherwise. -/
theorem asStr_spec (v : ByteArray) :
    (asStr v = some (text v) ∧ (text v).IsValidUTF8) ∨ (asStr v = none ∧ ¬ (text v).IsValidUTF8) := by
  sorry

/-- The text contains no NUL and is followed by a NUL or the end of the buffer. -/
theorem text_spec (v : ByteArray) :
    endIndex v ≤ v.size ∧ (∀ i, i < endIndex v → v.toList[i]? ≠ some 0) ∧
    (endIndex v < v.size → v.toList[endIndex v]? = some 0) := by
  sorry

/-- A string that fits and contains no NUL character round-trips: `as_str(from(s)) = Ok(s)`. -/
theorem asStr_roundtrip (N : Nat) (s : String) (hfit : s.utf8ByteSize ≤ N) (hnul : ∀ c ∈ s.toList, c ≠ Char.ofNat 0) :
    asStr (ofStr N s) = some s.toByteArray := by
  sorry

/-- `Display` renders the same text as `as_str`. -/
theorem display_eq (v t : ByteArray) (h : asStr v = some t) : display v = some t := by
  sorry

end PodStr

namespace Pod

/-! ### PodBool / PodOption / load (C15) -/

/-- Every byte decodes: zero is false, anything else true. -/
theorem boolDecode_spec (b : UInt8) : boolDecode b = true ↔ b ≠ 0 := by
  sorry

/-- bool → pod → bool is the identity, with encodings 0 and 1. -/
theorem bool_roundtrip (x : Bool) : boolDecode (boolEncode x) = x ∧ (boolEncode x = 0 ∨ boolEncode x = 1) := by
  sorry

/-- `load` is a pure view of exactly the first `n` bytes; trailing bytes are ignored; a short buffer is
    rejected rather than read. -/
theorem load_spec (n : Nat) (data : ByteArray) :
    (data.size < n ∧ load n data = .error .oob) ∨
    (n ≤ data.size ∧ load n data = .ok (data.extract 0 n) ∧ (data.extract 0 n).size = n) := by
  sorry

theorem load_ignores_trailing (n : Nat) (d1 d2 : ByteArray) (h1 : n ≤ d1.size) (h2 : n ≤ d2.size)
    (he : d1.extract 0 n = d2.extract 0 n) : load n d1 = load n d2 := by
  sorry

/-- Writes through `load_mut` land in the buffer: the first `n` bytes become the value, the rest is untouched. -/
theorem storeMut_spec (n : Nat) (data v : ByteArray) (hv : v.size = n) (hd : n ≤ data.size) :
    ∃ d', storeMut n data v = .ok d' ∧ d'.size = data.size ∧ load n d' = .ok v ∧
      d'.extract n d'.size = data.extract n data.size := by
  sorry

/-- `value()` is `Some` exactly when the inner value reports itself as some, and then it is the inner value. -/
theorem optValue_spec (isSome : ByteArray → Bool) (inner : ByteArray) :
    ((optValue isSome inner).isSome = isSome inner) ∧ (isSome inner = true → optValue isSome inner = some inner) := by
  sorry

end Pod

end Stevia
