/-
  Stevia.Proofs.GenHSetIter — the translated iterator of the read-only hash-set view (`HashSetIterator::next`,
  `Stevia.GenH.next`, regenerated from `hash_set.rs` on every run): calling `next` until it answers `None`, from
  the initial iterator state `bucket = node = SENTINEL`, yields exactly the model's `iter` — every member once,
  bucket by bucket, each chain head first.
-/
import Stevia.Generated.HSet
import Stevia.Proofs.GenLemmas
import Stevia.Proofs.HashSetImpEq

namespace Stevia
variable {β : Type} [DecidableEq β]

set_option linter.unusedSectionVars false
open HImp

/-- The items `next` hands out in at most `n` calls, starting from the iterator state `(bucket, node)`; `none` if a
    call of `next` fails (its bucket-skipping loop ran out of fuel). -/
def GenH.collect (hash : β → Nat) (d : HRec β) (m : HImage β) : Nat → Nat → Nat → Option (List β)
  | 0, _, _ => some []
  | n + 1, b, nd =>
    match GenH.next hash d m b nd with
    | none => none
    | some (none, _, _) => some []
    | some (some v, b', nd') => (GenH.collect hash d m n b' nd').map (v :: ·)

/-! ### One call of `next` -/

/-- The state `(early result, bucket, node, left by its condition)` of the skip loop of `next` after `n`
    iterations. -/
def GenH.skipSt (d : HRec β) (m : HImage β) (cap : Nat) :
    Nat → Option (Option β × Nat × Nat) × Nat × Nat × Bool → Option (Option β × Nat × Nat) × Nat × Nat × Bool
  | 0, s => s
  | n + 1, s =>
    if ¬ s.2.2.1 = 0 then (none, s.2.1, s.2.2.1, true)
    else if cap < s.2.1 + 1 then (some (none, s.2.1 + 1, s.2.2.1), s.2.1 + 1, s.2.2.1, s.2.2.2)
    else skipSt d m cap n (none, s.2.1 + 1, (rd d m (s.2.1 + 1)).bucket, s.2.2.2)

theorem GenH.capacity_eq' (hash : β → Nat) (d : HRec β) (m : HImage β) :
    GenH.capacity hash d m = m.hdr.cap := rfl

/-- `next` is its skip loop (as the closed form `skipSt`) followed by reading the record it stopped at; it fails if
    the loop neither returned nor left by its condition. -/
theorem GenH.next_eq (hash : β → Nat) (d : HRec β) (m : HImage β) (b nd : Nat) :
    GenH.next hash d m b nd =
      if b ≤ m.hdr.cap % 4294967296 then
        match (GenH.skipSt d m (m.hdr.cap % 4294967296) (m.recs.length + 1) (none, b, nd, false)).1 with
        | some r => some r
        | none =>
          let r := GenH.skipSt d m (m.hdr.cap % 4294967296) (m.recs.length + 1) (none, b, nd, false)
          if r.2.2.2 = true then some (some (rd d m r.2.2.1).val, r.2.1, (rd d m r.2.2.1).next) else none
      else some (none, b, nd) := by
  unfold GenH.next
  simp only [forIn, GenH.capacity_eq']
  by_cases hb : b ≤ m.hdr.cap % 4294967296
  · -- (the source may test `bucket <= capacity` or return early on `capacity < bucket`)
    simp only [hb, Nat.not_lt.mpr hb, if_true, if_false]
    rw [Fuel.forIn_eq_of_opt _ (GenH.skipSt d m (m.hdr.cap % 4294967296)) (fun s => rfl)]
    · simp only [Option.bind_eq_bind, Option.bind_some]
      cases (GenH.skipSt d m (m.hdr.cap % 4294967296) (m.recs.length + 1) (none, b, nd, false)).1 with
      | some r => rfl
      | none =>
        simp only []
        by_cases hx : (GenH.skipSt d m (m.hdr.cap % 4294967296) (m.recs.length + 1)
          (none, b, nd, false)).2.2.2 = true
        · simp only [hx, not_true_eq_false, if_false, if_true]; rfl
        · simp only [hx]; rfl
    · intro n s
      obtain ⟨r, b', nd', ex⟩ := s
      simp only [GenH.skipSt]
      by_cases h0 : nd' = 0
      · by_cases hc : m.hdr.cap % 4294967296 < b' + 1
        · simp only [h0, hc, ne_eq, not_true_eq_false, if_true, if_false]; rfl
        · simp only [h0, hc, ne_eq, not_true_eq_false, if_false]; rfl
      · simp only [h0, ne_eq, not_false_eq_true, if_true]; rfl
  · simp only [hb, Nat.lt_of_not_le hb, if_false, if_true]; rfl

/-- The skip loop leaves at once, by its condition, from a state with `node ≠ SENTINEL` (given any fuel at all). -/
theorem GenH.skipSt_ne (d : HRec β) (m : HImage β) (cap n b nd : Nat) (ex : Bool) (h : nd ≠ 0) :
    GenH.skipSt d m cap (n + 1) (none, b, nd, ex) = (none, b, nd, true) := by
  simp only [GenH.skipSt, h, not_false_eq_true, if_true]

/-- The inner loop of `next` from `(b, SENTINEL)`: it either runs past the last bucket (and returns), or leaves by
    its condition at the head of the first non-empty bucket after `b`. -/
theorem GenH.skip_spec (vd : β) (s : HSet β) (hok : s.LayoutOk) (hcl : s.cap ≤ s.slots) :
    ∀ (L : List (List (Nat × β))) (b fuel : Nat), (s.chains.take s.cap).drop b = L → b ≤ s.cap →
      L.length + 1 ≤ fuel →
      (L.flatMap id = [] ∧
        ∃ x y, (GenH.skipSt (HImp.dflt vd) (s.image vd) s.cap fuel (none, b, 0, false)).1 = some (none, x, y)) ∨
      (∃ b' e rest, b' ≤ s.cap ∧ [] ++ e :: rest ∈ s.chains ∧
        L.flatMap id = (e :: rest) ++ ((s.chains.take s.cap).drop b').flatMap id ∧
        GenH.skipSt (HImp.dflt vd) (s.image vd) s.cap fuel (none, b, 0, false) = (none, b', e.1, true)) := by
  have hlen : (s.chains.take s.cap).length = s.cap := by
    rw [List.length_take]; unfold HSet.slots at hcl; omega
  intro L
  induction L with
  | nil =>
    intro b fuel hL hb hf
    obtain ⟨f, rfl⟩ : ∃ f, fuel = f + 1 := ⟨fuel - 1, by simp at hf; omega⟩
    have hge : s.cap ≤ b := by
      have := congrArg List.length hL
      rw [List.length_drop, hlen] at this
      simp at this; omega
    left
    refine ⟨rfl, b + 1, 0, ?_⟩
    simp only [GenH.skipSt, not_true_eq_false, if_false]
    rw [if_pos (by omega)]
  | cons c L ih =>
    intro b fuel hL hb hf
    simp only [List.length_cons] at hf
    obtain ⟨f, rfl⟩ : ∃ f, fuel = f + 1 + 1 := ⟨fuel - 2, by omega⟩
    have hblt : b < s.cap := by
      have := congrArg List.length hL
      rw [List.length_drop, hlen] at this
      simp at this; omega
    rw [List.drop_eq_getElem_cons (by omega)] at hL
    obtain ⟨hc, hL'⟩ := List.cons.inj hL
    have hch : s.chains[b]? = some c := by
      have : (s.chains.take s.cap)[b]? = some c := by
        rw [List.getElem?_eq_getElem (by omega), hc]
      rwa [List.getElem?_take, if_pos hblt] at this
    have hrd : (rd (HImp.dflt vd) (s.image vd) (b + 1)).bucket = HSet.headOf c := by
      rw [← HImpEq.rdB_bucket vd s hch]
      simp [rd, rdB]
    have hstep : GenH.skipSt (HImp.dflt vd) (s.image vd) s.cap (f + 1 + 1) (none, b, 0, false) =
        GenH.skipSt (HImp.dflt vd) (s.image vd) s.cap (f + 1) (none, b + 1, HSet.headOf c, false) := by
      rw [GenH.skipSt]
      simp only [not_true_eq_false, if_false]
      rw [if_neg (by omega), hrd]
    rw [hstep]
    cases c with
    | nil =>
      rcases ih (b + 1) (f + 1) hL' (by omega) (by omega) with ⟨h1, h2⟩ | ⟨b', e, rest, h1, h2, h3, h4⟩
      · left; exact ⟨by simpa using h1, h2⟩
      · right; exact ⟨b', e, rest, h1, h2, by simpa using h3, h4⟩
    | cons e rest =>
      right
      have hm : [] ++ e :: rest ∈ s.chains := List.mem_of_getElem? hch
      refine ⟨b + 1, e, rest, by omega, hm, ?_, ?_⟩
      · rw [List.flatMap_cons, hL']; rfl
      · exact GenH.skipSt_ne _ _ _ _ _ _ _ (HImpEq.rd_live vd s hok hm).1

/-- `next` inside a chain: it hands out the record's value and moves to its `next` register. -/
theorem GenH.next_live (hash : β → Nat) (vd : β) (s : HSet β) (hok : s.LayoutOk) (hcap : s.cap % 4294967296 = s.cap)
    {pre : List (Nat × β)} {e : Nat × β} {rest : List (Nat × β)} (hm : pre ++ e :: rest ∈ s.chains)
    {b : Nat} (hb : b ≤ s.cap) :
    GenH.next hash (HImp.dflt vd) (s.image vd) b e.1 = some (some e.2, b, HSet.headOf rest) := by
  obtain ⟨h0, hrd⟩ := HImpEq.rd_live vd s hok hm
  have e5 : (s.image vd).hdr.cap = s.cap := rfl
  rw [GenH.next_eq, e5, hcap, if_pos hb, GenH.skipSt_ne _ _ _ _ _ _ _ h0]
  simp only [hrd, if_true]

/-! ### Repeated calls -/

/-- From the state `(b, head of rest)`, where `rest` is a suffix of some chain, enough calls of `next` yield the
    values of `rest` and then those of the buckets after `b` (1-based: records `b, b + 1, …, cap - 1`), and none of
    them fails. -/
theorem GenH.collect_spec (hash : β → Nat) (vd : β) (s : HSet β) (h : s.Inv hash) :
    ∀ (n b : Nat) (rest : List (Nat × β)), b ≤ s.cap → (rest = [] ∨ ∃ pre, pre ++ rest ∈ s.chains) →
      (rest ++ ((s.chains.take s.cap).drop b).flatMap id).length < n →
      GenH.collect hash (HImp.dflt vd) (s.image vd) n b (HSet.headOf rest) =
        some ((rest ++ ((s.chains.take s.cap).drop b).flatMap id).map (·.2)) := by
  have hok := h.layoutOk
  have hcl := h.cap_le
  have hcap : s.cap % 4294967296 = s.cap := Nat.mod_eq_of_lt (by have := h.slots_lt; omega)
  have e5 : (s.image vd).hdr.cap = s.cap := rfl
  intro n
  induction n with
  | zero => intro b rest _ _ hl; omega
  | succ n ih =>
    intro b rest hb hrest hl
    cases rest with
    | cons e rest =>
      obtain ⟨pre, hm⟩ : ∃ pre, pre ++ e :: rest ∈ s.chains := by
        rcases hrest with h1 | h1
        · cases h1
        · exact h1
      show GenH.collect _ _ _ (n + 1) b e.1 = _
      unfold GenH.collect
      rw [GenH.next_live hash vd s hok hcap hm hb]
      simp only [List.cons_append, List.map_cons]
      rw [ih b rest hb (.inr ⟨pre ++ [e], by simpa using hm⟩)
        (by simp only [List.cons_append, List.length_cons] at hl; omega)]
      rfl
    | nil =>
      show GenH.collect _ _ _ (n + 1) b 0 = _
      unfold GenH.collect
      rw [GenH.next_eq, e5, hcap, if_pos hb, HSet.image_recs_length]
      have hlen : ((s.chains.take s.cap).drop b).length + 1 ≤ s.slots + 1 := by
        rw [List.length_drop, List.length_take]; omega
      rcases GenH.skip_spec vd s hok hcl _ b (s.slots + 1) rfl hb hlen with
        ⟨h1, x, y, h2⟩ | ⟨b', e, rest, h1, h2, h3, h4⟩
      · rw [h2, h1]; rfl
      · rw [h4]
        obtain ⟨_, hrd⟩ := HImpEq.rd_live vd s hok h2
        simp only [hrd, if_true]
        rw [ih b' rest h1 (.inr ⟨[e], h2⟩)
          (by rw [List.nil_append, h3] at hl; simp only [List.cons_append, List.length_cons] at hl; omega)]
        rw [List.nil_append, h3]; rfl

/-- On the layout of every well-formed set, iterating with the translated `next` (one more call than there are
    members: the last one answers `None`) never fails and yields exactly the model's iteration order. -/
theorem GenH.collect_eq (hash : β → Nat) (vd : β) (s : HSet β) (h : s.Inv hash) :
    GenH.collect hash (HImp.dflt vd) (s.image vd) (s.size + 1) 0 0 = some s.iter := by
  have hl : (((s.chains.take s.cap).drop 0).flatMap id).length < s.size + 1 := by
    have h1 : (s.chains.flatMap id).length = s.size := by
      rw [h.size_eq]; unfold HSet.liveSlots; rw [List.length_map]
    have h2 : s.chains.flatMap id =
        (s.chains.take s.cap).flatMap id ++ (s.chains.drop s.cap).flatMap id := by
      rw [← List.flatMap_append, List.take_append_drop]
    rw [h2, List.length_append] at h1
    rw [List.drop_zero]; omega
  have := GenH.collect_spec hash vd s h (s.size + 1) 0 [] (Nat.zero_le _) (.inl rfl) hl
  rw [show HSet.headOf ([] : List (Nat × β)) = 0 from rfl] at this
  rw [this]
  rfl

end Stevia
