/-
  C03 — the array set behaves as a sorted set; its slice view is always strictly ascending.
-/
import Stevia.Proofs.ArraySetState
import Stevia.Proofs.ExecInv
import Stevia.Proofs.GenASetRefine

namespace Stevia.C03
open Stevia
variable {α κ : Type} [LinOrd κ]

/-- Every history of insert / take(remove) / get / contains / len on an array set over a
    zero-filled buffer of `n` slots with a prefix type of maximum `P` answers exactly as the reference
    sorted set bounded by `min n P`, never faults, and the view stays the reference's member list. -/
theorem refines (key : α → κ) (P : Nat) (d : α) (n : Nat) (ops : List (ASOp α κ)) :
    ∃ s', ({ len := 0, vals := List.replicate n d } : ASet α).opRun key P ops
        = .ok (s', (BSorted.run key (min n P) [] ops).2) ∧
      s'.view = (BSorted.run key (min n P) [] ops).1 ∧ AscK (s'.view.map key) := by
  have hi := ASet.inv_zero key P d n
  obtain ⟨s', h1, h2, h3⟩ := ASet.opRun_refines hi ops
  have hv : ({ len := 0, vals := List.replicate n d } : ASet α).view = [] := by simp [ASet.view]
  have hs : ({ len := 0, vals := List.replicate n d } : ASet α).slots = n := by simp [ASet.slots]
  rw [hv, hs] at h1 h3
  exact ⟨s', h1, h3, h2.sorted⟩

/-- From any well-formed set. -/
theorem refines_from {key : α → κ} {P : Nat} {s : ASet α} (h : s.Inv key P) (ops : List (ASOp α κ)) :
    ∃ s', s.opRun key P ops = .ok (s', (BSorted.run key (min s.slots P) s.view ops).2) ∧ s'.Inv key P ∧
      s'.view = (BSorted.run key (min s.slots P) s.view ops).1 :=
  ASet.opRun_refines h ops

/-- Every state reachable from a zero-filled buffer by inserts, takes, order-preserving updates and
    buffer growth is well-formed: its view is strictly ascending and every history from it refines. -/
theorem reachable_view_ascending {key : α → κ} {P : Nat} {d : α} {s : ASet α} (h : ASet.Reach key P d s) :
    AscK (s.view.map key) ∧ s.len ≤ s.slots := ⟨(ASet.reach_inv h).sorted, (ASet.reach_inv h).len_le⟩

/-- The slice the set dereferences to is strictly ascending in every well-formed state. -/
theorem view_ascending {key : α → κ} {P : Nat} {s : ASet α} (h : s.Inv key P) : AscK (s.view.map key) := h.sorted

/-- `take` returns the *stored* element (for element types whose order ignores part of the value). -/
theorem take_returns_stored {key : α → κ} {P : Nat} {s : ASet α} (h : s.Inv key P) (k : κ) :
    ∃ s', s.take key k = .ok (s', findK key k s.view) := by
  rcases ASet.take_spec h k with ⟨h1, h2⟩ | ⟨y, s', h1, h2, _⟩
  · exact ⟨s, by rw [h2, h1]⟩
  · exact ⟨s', by rw [h2, h1]⟩

/-- Updates made through `get_mut` that keep the ordering are visible afterwards and keep the set
    well-formed. -/
theorem update_visible {key : α → κ} {P : Nat} {s : ASet α} (h : s.Inv key P) (k : κ) (y' : α)
    (hk : sameK (key y') k) (hp : (findK key k s.view).isSome) :
    ∃ s', s.update key k y' = .ok (s', true) ∧ s'.view = setK key k y' s.view ∧ s'.Inv key P := by
  rcases ASet.update_spec h k y' with ⟨h1, _⟩ | ⟨_, s', h2, h3, _⟩
  · rw [h1] at hp; cases hp
  · exact ⟨s', h2, h3, ASet.update_same_key h k y' hk h2⟩

/-! ### Tie through the translator

`Stevia.GenA.*` is regenerated from `array_set.rs` on every run (tools/rust2lean.py): the binary-search loop, the
bounds-checked accesses and the two `ptr::copy` shifts as the source has them. -/

/-- The translated `index`, `get`, `contains`, `insert`, `take`, `remove` and `get_mut` + write are the model's
    functions (a failing bounds check or an out-of-range copy is `none` / `Except.error`), for every set whose length
    prefix does not exceed its slot count, every element and every prefix maximum `P`. -/
theorem translated_source_is_the_model (key : α → κ) (P : Nat) (m : ASet α) (hle : m.len ≤ m.vals.length) (x y : α) :
    GenA.index key P m x = (ASet.index key m (key x)).toOption.map Idx.pair ∧
    GenA.get key P m x = (ASet.get key m (key x)).toOption ∧
    GenA.contains key P m x = (ASet.contains key m (key x)).toOption ∧
    GenA.insert key P m x = (ASet.insert key P m x).toOption ∧
    GenA.take key P m x = (ASet.take key m (key x)).toOption ∧
    GenA.remove key P m x = ((ASet.take key m (key x)).toOption).map (fun r => (r.1, r.2.isSome)) ∧
    (GenA.get_mut key P m x).map (fun r => match r.2 with
      | some i => ({ m with vals := m.vals.set i y }, true)
      | none => (m, false)) = (ASet.update key m (key x) y).toOption ∧
    GenA.len key P m = m.len ∧ GenA.is_full key P m = m.isFull P ∧ GenA.is_empty key P m = m.isEmpty :=
  ⟨GenA.index_eq key P m hle x, GenA.get_eq key P m hle x, GenA.contains_eq key P m hle x,
   GenA.insert_eq key P m hle x, GenA.take_eq key P m hle x, GenA.remove_eq key P m hle x,
   GenA.get_mut_eq key P m hle x y, GenA.len_eq key P m hle, GenA.is_full_eq key P m hle, GenA.is_empty_eq key P m hle⟩

/-- On every well-formed set the translated `insert` / `take` return normally with the model's state and answer
    (hence, by `refines_from`, the reference sorted set's), and lookups return the stored member. -/
theorem translated_source_refines {key : α → κ} {P : Nat} {s : ASet α} (h : s.Inv key P) (x : α) :
    (∃ s' r, GenA.insert key P s x = some (s', r) ∧ s.insert key P x = .ok (s', r) ∧ s'.Inv key P) ∧
    (∃ s' r, GenA.take key P s x = some (s', r) ∧ s.take key (key x) = .ok (s', r) ∧ s'.Inv key P) ∧
    GenA.get key P s x = some (findK key (key x) s.view) :=
  ⟨GenA.insert_refines h x, GenA.take_refines h x, (GenA.get_refines h x).1⟩

/-- Whole histories through the translator: from a zero-filled buffer of `n` slots, any history of element-indexed
    operations (`insert x`, `take x`, `get x`, `contains x`, `len` — lookups compare through `key`) run through the
    *translated source* answers at every step `some` of the model's answer (hence, by `refines`, the reference sorted
    set's bounded by `min n P`) — no failed bounds check, no raw copy out of range, no loop that runs on — and ends in
    the model's final state. -/
theorem translated_history (key : α → κ) (P : Nat) (d : α) (n : Nat) (ops : List (GenA.EOp α)) :
    ∃ s' outs,
      ({ len := 0, vals := List.replicate n d } : ASet α).opRun key P (ops.map (GenA.EOp.toAS key)) = .ok (s', outs) ∧
      GenA.runImg key P ({ len := 0, vals := List.replicate n d } : ASet α) ops = some (s', outs) := by
  obtain ⟨s', outs, h1, _, h3⟩ := GenA.run_refines (ASet.inv_zero key P d n) ops
  exact ⟨s', outs, h1, h3⟩

/-- The slice the *translated* `Deref` hands out is, on every well-formed set, exactly the model's view (strictly
    ascending by `view_ascending`); on any buffer at all it is taken without a panic. -/
theorem translated_view {key : α → κ} {P : Nat} {s : ASet α} (h : s.Inv key P) :
    GenA.deref key P s = some s.view ∧ AscK (s.view.map key) :=
  ⟨(GenA.deref_eq key P s).2 h.len_le, h.sorted⟩

end Stevia.C03
