/-
  C08 — growing the buffer keeps the contents and adds exactly the new slots.
-/
import Stevia.Proofs.TreeState
import Stevia.Proofs.ArraySetState
import Stevia.Proofs.GenTreeOpen32
import Stevia.Proofs.GenTreeOpen8
import Stevia.Proofs.TreeImpEq

namespace Stevia.C08
open Stevia
variable {α β : Type} [LinOrd α]

/-- Extending the buffer of a reachable tree by `n ≥ 1` zero-filled records and re-opening it
    mutably preserves every entry (same tree, slot for slot), makes the capacity exactly
    `records + n` (for an opened tree: old capacity + n), and yields a reachable state again,
    so the statement applies to repeated growth and to every continuation. -/
theorem grow (c : TreeCfg) (s : Tree α β) (h : Tree.Reach c s) (n : Nat) (hn : 0 < n)
    (hok : s.slots + n ≤ c.W ∧ (c.wrap = true ∨ s.slots + n < c.W)) :
    let s' := (s.extend n).openMut c
    Tree.Reach c s' ∧ s'.root = s.root ∧ s'.size = s.size ∧ s'.cap = s.slots + n := by
  have hi := Tree.reach_inv h
  have hg := Tree.grow_spec hi n (show (TreeOp.extend n : TreeOp α β).ok c s from hok)
  refine ⟨?_, hg.2.1, hg.2.2.1, hg.2.2.2.1 hn⟩
  exact Tree.Reach.step (TreeOp.reopen) (Tree.Reach.step (TreeOp.extend n) h hok rfl) trivial rfl

/-- After growth exactly `n` more entries than before fit: `old free room + n`. -/
theorem grow_then_fill (c : TreeCfg) (s : Tree α β) (h : Tree.Reach c s) (hopen : s.cap = s.slots)
    (n : Nat) (hn : 0 < n)
    (hok : s.slots + n ≤ c.W ∧ (c.wrap = true ∨ s.slots + n < c.W)) (kvs : List (α × β))
    (hnd : (kvs.map (·.1)).Pairwise (fun a b => a < b ∨ b < a))
    (hfresh : ∀ e ∈ kvs, s.root.find e.1 = none)
    (hlen : kvs.length + s.size = s.cap + n) :
    ∃ s', ((s.extend n).openMut c).insertAll c kvs = some s' ∧ s'.size = s'.cap ∧
      ∀ k v, s'.insert c k v = .ok (s', none) := by
  obtain ⟨hr, hroot, hsize, hcap⟩ := grow c s h n hn hok
  have hf := Tree.fill_spec (Tree.reach_inv hr) kvs hnd (by rw [hroot]; exact hfresh)
    (by rw [hsize, hcap, ← hopen]; exact hlen)
  obtain ⟨s', h1, _, h3, _, h5⟩ := hf
  exact ⟨s', h1, h3, h5⟩

/-- A read-only view of the extended buffer shows the same contents with the old capacity. -/
theorem readonly_after_extend (s : Tree α β) (n : Nat) :
    (s.extend n).root = s.root ∧ (s.extend n).capacity = s.capacity ∧ (s.extend n).len = s.len ∧
    ∀ k, (s.extend n).get k = s.get k := by
  refine ⟨rfl, rfl, rfl, fun _ => rfl⟩

/-- Array set: extending the buffer by `n` zero-filled slots keeps the members and gains exactly `n` slots. -/
theorem array_extend {κ : Type} [LinOrd κ] {key : α → κ} {P : Nat} {s : ASet α} (h : s.Inv key P)
    (d : α) (n : Nat) :
    (s.extend d n).Inv key P ∧ (s.extend d n).view = s.view ∧ (s.extend d n).slots = s.slots + n :=
  let r := ASet.extend_spec h d n
  ⟨r.1, r.2.1, r.2.2.1⟩

/-! ### Tie through the translator: `from_bytes_mut` of the source adopts the grown capacity as the model does -/

/-- `avl_tree.rs`: the translated `from_bytes_mut` on the layout of a well-formed state is the layout of the model's
    `openMut` (capacity raised to the number of records, nothing else touched). -/
theorem translated_open_u32 (kd : α) (vd : β) (s : Tree α β) (h : s.Inv cfgU32) :
    Gen32.from_bytes_mut (Imp.dflt kd vd) (s.image cfgU32 kd vd) = (s.openMut cfgU32).image cfgU32 kd vd := by
  rw [Gen32.from_bytes_mut_eq]; exact Imp.openMut_eq cfgU32 kd vd s h

/-- `u8_avl_tree.rs`: the translated `from_bytes_mut` on the layout of a well-formed state is the layout of the model's
    `openMut` (capacity raised to the number of records, nothing else touched). -/
theorem translated_open_u8 (kd : α) (vd : β) (s : Tree α β) (h : s.Inv cfgU8) :
    Gen8.from_bytes_mut (Imp.dflt kd vd) (s.image cfgU8 kd vd) = (s.openMut cfgU8).image cfgU8 kd vd := by
  rw [Gen8.from_bytes_mut_eq]; exact Imp.openMut_eq cfgU8 kd vd s h

end Stevia.C08
