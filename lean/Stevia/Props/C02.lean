/-
  C02 — the hash set behaves as a capacity-bounded set, collisions and iteration included.
  Every theorem is for an arbitrary hash function `hash : γ → Nat`, i.e. for every
  pattern of bucket collisions.
-/
import Stevia.Proofs.HashSetState
import Stevia.Proofs.ExecInv
import Stevia.Proofs.HashSetImpEq
import Stevia.Proofs.GenHSet
import Stevia.Proofs.GenHSetIter
import Stevia.Proofs.GenInit
import Stevia.Proofs.GenHSetRun
import Stevia.Proofs.HashSetImpTerm

namespace Stevia.C02
open Stevia
variable {γ : Type} [DecidableEq γ]

/-- Every history of insert / remove / contains / size queries, from `initialize(n)` on a
    zero-filled buffer of `n` records, answers exactly as the reference bounded set does,
    never faults, whatever the hash function. -/
theorem refines (hash : γ → Nat) (n : Nat) (hn : n < 4294967295) (ops : List (SetOp γ)) :
    ∃ s', (HSet.init n n : HSet γ).setRun hash ops = .ok (s', (BSet.run n [] ops).2) := by
  have hi := HSet.inv_init (β := γ) hash n n (Nat.le_refl n) hn
  have hm : (HSet.init n n : HSet γ).members.Perm [] := by
    simp [HSet.members, HSet.init]
  obtain ⟨s', h1, _, _⟩ := HSet.setRun_refines hi [] hm ops
  exact ⟨s', h1⟩

/-- The same from any well-formed state, against any listing of its members. -/
theorem refines_from (hash : γ → Nat) (s : HSet γ) (h : s.Inv hash) (m : List γ) (hm : s.members.Perm m)
    (ops : List (SetOp γ)) :
    ∃ s', s.setRun hash ops = .ok (s', (BSet.run s.cap m ops).2) ∧ s'.Inv hash ∧
      s'.members.Perm (BSet.run s.cap m ops).1 :=
  HSet.setRun_refines h m hm ops

/-- … in particular from every state reachable from `initialize` by any sequence of inserts and removes. -/
theorem refines_from_reachable (hash : γ → Nat) (s : HSet γ) (h : HSet.Reach hash s) (ops : List (SetOp γ)) :
    ∃ s', s.setRun hash ops = .ok (s', (BSet.run s.cap s.members ops).2) ∧
      s'.members.Perm (BSet.run s.cap s.members ops).1 := by
  obtain ⟨s', h1, _, h3⟩ := HSet.setRun_refines (HSet.reach_inv h) s.members (List.Perm.refl _) ops
  exact ⟨s', h1, h3⟩

/-- `insert` returns true exactly when the value was absent and the set not full;
    `remove` returns true exactly when it was present and removes only that value;
    `contains` is membership. -/
theorem insert_true_iff (hash : γ → Nat) (s : HSet γ) (h : s.Inv hash) (v : γ) :
    ∃ s', s.insert hash v = .ok (s', decide (v ∉ s.members ∧ s.size < s.cap)) := by
  rcases HSet.insert_spec h v with ⟨h1, h2⟩ | ⟨h1, h2, s', h3, _⟩
  · refine ⟨s, ?_⟩
    rw [h2]
    have : ¬ (v ∉ s.members ∧ s.size < s.cap) := by
      rintro ⟨a, b⟩; rcases h1 with h1 | h1
      · exact a h1
      · omega
    simp [this]
  · exact ⟨s', by rw [h3]; simp [h1, h2]⟩

theorem remove_true_iff (hash : γ → Nat) (s : HSet γ) (h : s.Inv hash) (v : γ) :
    ∃ s', s.remove hash v = .ok (s', decide (v ∈ s.members)) ∧
      (v ∈ s.members → s.members.Perm (v :: s'.members)) ∧ (v ∉ s.members → s' = s) := by
  rcases HSet.remove_spec h v with ⟨h1, h2⟩ | ⟨h1, s', h3, _, h5, _⟩
  · exact ⟨s, by rw [h2]; simp [h1], fun a => absurd a h1, fun _ => rfl⟩
  · exact ⟨s', by rw [h3]; simp [h1], fun _ => h5, fun a => absurd h1 a⟩

theorem contains_iff (hash : γ → Nat) (s : HSet γ) (h : s.Inv hash) (v : γ) :
    s.contains hash v = .ok (decide (v ∈ s.members)) := HSet.contains_spec h v

/-- Iterating a read-only view yields every member exactly once and nothing else. -/
theorem iter_members (hash : γ → Nat) (s : HSet γ) (h : s.Inv hash) :
    s.iter.Perm s.members ∧ s.iter.Nodup := by
  obtain ⟨h1, h2⟩ := HSet.iter_spec h
  exact ⟨h1 ▸ List.Perm.refl _, h2⟩

/-- The *literal* register-level transcription of hash_set.rs (`Stevia.Model.HashSetImp`: indices, bucket
    and next registers, `while current != SENTINEL` loops, `add_node`/`remove_node` on the header words),
    run on the layout of any well-formed state, yields exactly the layout of the functional model's next
    state and the same answer — so everything proved above about the functional model holds for the
    register-level algorithm, for every hash function. -/
theorem literal_model_is_the_model (hash : γ → Nat) (vd : γ) (s : HSet γ) (h : s.Inv hash) (v : γ) :
    (∃ s' r, s.insert hash v = .ok (s', r) ∧ HImp.insert hash (HImp.dflt vd) (s.image vd) v = (s'.image vd, r)) ∧
    (∃ s' r, s.remove hash v = .ok (s', r) ∧ HImp.remove hash (HImp.dflt vd) (s.image vd) v = (s'.image vd, r)) ∧
    s.contains hash v = .ok (HImp.contains hash (HImp.dflt vd) (s.image vd) v) ∧
    HImp.iter (HImp.dflt vd) (s.image vd) = s.iter := by
  refine ⟨?_, ?_, HImp.contains_eq hash vd s h v, HImp.iter_eq hash vd s h⟩
  · rcases HSet.insert_spec h v with ⟨_, h2⟩ | ⟨_, _, s', h2, _⟩
    · exact ⟨s, false, h2, HImp.insert_eq hash vd s s h v false h2⟩
    · exact ⟨s', true, h2, HImp.insert_eq hash vd s s' h v true h2⟩
  · rcases HSet.remove_spec h v with ⟨_, h2⟩ | ⟨_, s', h2, _⟩
    · exact ⟨s, false, h2, HImp.remove_eq hash vd s s h v false h2⟩
    · exact ⟨s', true, h2, HImp.remove_eq hash vd s s' h v true h2⟩

/-- Tie through the translator. `Stevia.GenH.*` is regenerated from `hash_set.rs` on every run
    (tools/rust2lean.py); a translated function answers `none` where the Rust panics (`add_node`'s "set is full")
    or where its chain scan does not leave by its own condition within `records + 1` iterations. Run on the layout of
    any well-formed set, the *translated Rust functions* `insert`, `remove` and `contains` answer `some …` — no
    panic, no endless loop — with the layout of the functional model's next state and the model's answer, for every
    hash function. -/
theorem translated_source_is_the_model (hash : γ → Nat) (vd : γ) (s : HSet γ) (h : s.Inv hash) (v : γ) :
    (∃ s' r, s.insert hash v = .ok (s', r) ∧
      GenH.insert hash (HImp.dflt vd) (s.image vd) v = some (s'.image vd, r)) ∧
    (∃ s' r, s.remove hash v = .ok (s', r) ∧
      GenH.remove hash (HImp.dflt vd) (s.image vd) v = some (s'.image vd, r)) ∧
    (∃ b, s.contains hash v = .ok b ∧ GenH.contains hash (HImp.dflt vd) (s.image vd) v = some b) ∧
    GenH.size hash (HImp.dflt vd) (s.image vd) = s.size ∧ GenH.capacity hash (HImp.dflt vd) (s.image vd) = s.cap := by
  obtain ⟨⟨s1, r1, h1, e1⟩, ⟨s2, r2, h2, e2⟩, hc, _⟩ := literal_model_is_the_model hash vd s h v
  have hT := HImp.scanT_image hash vd s h v
  have hsize : (s.image vd).hdr.size = s.size := rfl
  have hlen : (s.image vd).recs.length = s.slots := HSet.image_recs_length vd s
  refine ⟨⟨s1, r1, h1, ?_⟩, ⟨s2, r2, h2, ?_⟩, ⟨_, hc, ?_⟩, rfl, rfl⟩
  · rw [GenH.insert_eq, HImp.insertO_image hash vd s h v, e1, hlen]
    by_cases hfull : (s.image vd).hdr.size = (s.image vd).hdr.cap
    · simp only [hfull, true_or, if_true]
    · have hc : s.cap ≠ 0 := by
        intro hc0
        have hle := h.size_le_cap
        have : s.size = s.cap := by omega
        exact hfull this
      simp only [HImp.scanT_image_cap hash vd s h v hc, or_true, if_true]
  · rw [GenH.remove_eq, e2, hlen, hsize]
    rcases hT with h0 | hT
    · simp only [h0, true_or, if_true]
    · simp only [hT, or_true, if_true]
  · rw [GenH.contains_eq, hlen, hsize]
    rcases hT with h0 | hT
    · simp only [h0, true_or, if_true]
    · simp only [hT, or_true, if_true]

/-- Tie through the translator, iteration: calling the *translated* `HashSetIterator::next` (regenerated from
    `hash_set.rs` on every run) from the iterator state the translated `iter()` constructs until it answers `None` — one more call than there are
    members — never fails and yields exactly the model's iteration order, i.e. (by `iter_members`) every member
    exactly once and nothing else, on the layout of every well-formed set and for every hash function. -/
theorem translated_iterator_yields_members (hash : γ → Nat) (vd : γ) (s : HSet γ) (h : s.Inv hash) :
    GenH.collect hash (HImp.dflt vd) (s.image vd) (s.size + 1)
      (GenH.iter hash (HImp.dflt vd) (s.image vd)).1 (GenH.iter hash (HImp.dflt vd) (s.image vd)).2 = some s.iter :=
  GenH.collect_eq hash vd s h

/-- The translated `initialize` on the layout of an all-zero buffer of `n` records is the layout of the model's
    initial state `init n cap`, from which `refines` starts. -/
theorem translated_initialize (hash : γ → Nat) (vd : γ) (n cap : Nat) :
    GenH.initialize_set hash (HImp.dflt vd) ((HSet.zero n : HSet γ).image vd) cap = (HSet.init n cap : HSet γ).image vd :=
  GenH.initialize_zero hash vd n cap

/-- Whole histories through the translator: `initialize(n)` on a zero-filled buffer of `n` records followed by *any*
    history of insert / remove / contains / size queries — the translated source answers `some …` at every step,
    with exactly the answers of the functional model (hence, by `refines`, of the capacity-bounded reference set), and
    ends in the register layout of the model's final state. For every hash function. -/
theorem translated_history (hash : γ → Nat) (vd : γ) (n : Nat) (hn : n < 4294967295) (ops : List (SetOp γ)) :
    ∃ s' outs, (HSet.init n n : HSet γ).setRun hash ops = .ok (s', outs) ∧
      GenH.runImg hash (HImp.dflt vd)
        (GenH.initialize_set hash (HImp.dflt vd) ((HSet.zero n : HSet γ).image vd) n) ops
        = some (s'.image vd, outs) := by
  rw [GenH.initialize_zero hash vd n n]
  obtain ⟨s', outs, h1, _, h3⟩ :=
    GenH.run_refines hash vd (HSet.init n n) (HSet.inv_init hash n n (Nat.le_refl n) hn) ops
  exact ⟨s', outs, h1, h3⟩

end Stevia.C02
