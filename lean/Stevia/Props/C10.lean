/-
  C10 — the bytes are the documented format in every reachable state.
  (`Tree.image`/`HSet.image` are the register-level layout of the documented
  format; `TreeImage.decode`/`HImage.decode` are the independent decoder.)
-/
import Stevia.Proofs.TreeState
import Stevia.Proofs.HashSetState
import Stevia.Proofs.ArraySetState
import Stevia.Generated.Facts
import Stevia.Proofs.ExecInv
import Stevia.Proofs.BytesRT
import Stevia.Model.ArraySetLayout
import Stevia.Proofs.GenTreeRefine32
import Stevia.Proofs.GenTreeRefine8
import Stevia.Proofs.GenViewsFmt

namespace Stevia.C10
open Stevia
variable {α β : Type} [LinOrd α]

/-- In every reachable tree state the independent decoder of the documented format,
    applied to the layout, recovers exactly the state — hence exactly the contents the API
    reports (C01 relates those to `s.root.toList`). -/
theorem tree_decode_recovers [DecidableEq α] [DecidableEq β] (c : TreeCfg) (kd : α) (vd : β)
    (s : Tree α β) (h : Tree.Reach c s) : (s.image c kd vd).decode c kd vd = some s :=
  TreeImage.decode_image c kd vd s (Tree.reach_inv h).layoutOk

/-- The decoder accepts nothing but layouts: whatever it returns, the image is exactly its layout. -/
theorem tree_decoder_exact [DecidableEq α] [DecidableEq β] (c : TreeCfg) (kd : α) (vd : β)
    (img : TreeImage α β) (s : Tree α β) (h : img.decode c kd vd = some s) : s.image c kd vd = img :=
  TreeImage.image_of_decode c kd vd img s h

/-- Every slot is exactly one of live (a tree node holding its key, value, child indices and
    height), recycled (on the free list: all zero except the threading register) or never
    used (all zero). -/
theorem tree_slot_trichotomy (c : TreeCfg) (kd : α) (vd : β) (s : Tree α β) (h : Tree.Reach c s) (i : Nat) :
    (i ∈ s.root.slots ∧ i ∉ s.free ∧
        ∃ l k v hh r, s.root.sub i = some (.node i l k v hh r) ∧
          s.recAt c kd vd i = ⟨l.slot, r.slot, hh, 0, k, v⟩) ∨
    (i ∉ s.root.slots ∧ i ∈ s.free ∧
        ∃ nxt, freeNext (s.seqReg c) s.free i = some nxt ∧ s.recAt c kd vd i = ⟨0, 0, nxt, 0, kd, vd⟩) ∨
    (i ∉ s.root.slots ∧ i ∉ s.free ∧ s.recAt c kd vd i = ⟨0, 0, 0, 0, kd, vd⟩) :=
  Tree.recAt_trichotomy c kd vd s (Tree.reach_inv h).layoutOk i

/-- `data_len(c)` is exactly header plus `c` records; the headers are 24 resp. 8 bytes. -/
theorem tree_data_len (f : TreeFmt) (cap : Nat) : f.dataLen cap = f.hdrSize + cap * f.recSize := rfl

theorem tree_header_sizes (k v : Scalar) : (TreeFmt.u32 k v).hdrSize = 24 ∧ (TreeFmt.u8 k v).hdrSize = 8 :=
  ⟨rfl, rfl⟩

/-- The index returned by a tree insertion is the record holding that entry. -/
theorem tree_insert_index (c : TreeCfg) (s s' : Tree α β) (h : Tree.Reach c s) (k : α) (v : β) (i : Nat)
    (hi : s.insert c k v = .ok (s', some i)) : s'.root.find k = some (i, v) := by
  have inv := Tree.reach_inv h
  rcases Tree.insert_spec inv k v with ⟨_, h2⟩ | ⟨hf, _, s2, i2, h2, inv2, hl, _⟩
  · rw [h2] at hi; cases hi
  · rw [h2] at hi
    cases hi
    rw [T.find_eq_findL inv2.bst, hl]
    have hs := (T.bst_iff_sorted s.root).1 inv.bst
    have := findL_insL_self hs (i, k, v) (by rw [← T.find_eq_findL inv.bst]; exact hf)
    simpa using this

/-- A live entry never moves to another record: insertion keeps slot and value of every other key. -/
theorem tree_insert_stable (c : TreeCfg) (s s' : Tree α β) (h : Tree.Reach c s) (k : α) (v : β) (i : Nat)
    (hi : s.insert c k v = .ok (s', some i)) (k' : α) (hk : k' < k ∨ k < k') :
    s'.root.find k' = s.root.find k' := by
  have inv := Tree.reach_inv h
  rcases Tree.insert_spec inv k v with ⟨_, h2⟩ | ⟨_, _, s2, i2, h2, inv2, hl, _⟩
  · rw [h2] at hi; cases hi
  · rw [h2] at hi
    cases hi
    rw [T.find_eq_findL inv2.bst, T.find_eq_findL inv.bst, hl]
    exact findL_insL_other (i, k, v) hk

/-- … and so does removal, for every key other than the removed one. -/
theorem tree_remove_stable (c : TreeCfg) (s s' : Tree α β) (h : Tree.Reach c s) (k : α) (v : β)
    (hr : s.remove k = .ok (s', some v)) (k' : α) (hk : k' < k ∨ k < k') :
    s'.root.find k' = s.root.find k' := by
  have inv := Tree.reach_inv (c := c) h
  rcases Tree.remove_spec inv k with ⟨_, h2⟩ | ⟨i, v2, s2, _, h2, inv2, hl, _⟩
  · rw [h2] at hr; cases hr
  · rw [h2] at hr
    cases hr
    rw [T.find_eq_findL inv2.bst, T.find_eq_findL inv.bst, hl]
    exact findL_delL_other ((T.bst_iff_sorted s.root).1 inv.bst) hk

/-- Hash set: every value stored in bucket `b`'s chain hashes to `b` modulo the capacity,
    and the decoder recovers the state from the layout. -/
theorem hset_placed {γ : Type} [DecidableEq γ] (hash : γ → Nat) (s : HSet γ) (h : s.Inv hash)
    (b : Nat) (ch : List (Nat × γ)) (hb : s.chains[b]? = some ch) :
    ∀ e ∈ ch, (hash e.2 % 4294967296) % s.cap = b := fun e he => (h.placed b ch hb e he).2

theorem hset_decode_recovers {γ : Type} [DecidableEq γ] (hash : γ → Nat) (vd : γ) (s : HSet γ)
    (h : s.Inv hash) : (s.image vd).decode vd = some s :=
  HImage.decode_image vd s h.layoutOk

/-- Array set: the count fits the buffer and the values up to the count are strictly ascending. -/
theorem aset_format {κ : Type} [LinOrd κ] {key : α → κ} {P : Nat} {s : ASet α} (h : s.Inv key P) :
    s.len ≤ s.slots ∧ AscK (s.view.map key) := ⟨h.len_le, h.sorted⟩

/-- Byte level: the parser of the documented byte format (little-endian words, `repr(C)` offsets, zero
    padding) accepts the bytes of every reachable state and the decoder recovers the state from them;
    conversely whatever the parser accepts re-encodes to exactly the same bytes. -/
theorem tree_bytes_are_the_format (c : TreeCfg) (f : TreeFmt) (hm : f.Matches c) (hf : f.Ok) (s : Tree Int Nat)
    (h : Tree.Reach c s) (hkv : f.kvOk s.root) :
    (f.ofBytes (f.toBytes (s.image c 0 0))).bind (fun img => img.decode c 0 0) = some s ∧
    (TreeFmt.u8 f.key f.val).Matches cfgU8 ∧ (TreeFmt.u32 f.key f.val).Matches cfgU32 :=
  ⟨Tree.bytes_roundtrip c f hm hf s h hkv, TreeFmt.u8_matches _ _, TreeFmt.u32_matches _ _⟩

theorem tree_parser_exact (f : TreeFmt) (bs : Bytes) (img : TreeImage Int Nat) (h : f.ofBytes bs = some img) :
    f.toBytes img = bs := TreeFmt.toBytes_of_ofBytes f bs img h

/-- The executable checks the driver evaluates on every decoded *real* state (`wf-bst`, `wf-bal`,
    `wf-alloc`; `wf-alloc`, `wf-placed`; `wf-sorted`) are exactly the invariants of the theorems: a real
    state passes them iff it satisfies `Inv`. -/
theorem driver_checks_are_the_invariants :
    (∀ (c : TreeCfg) (s : Tree Int Nat), (c.wrap = true ∨ s.slots < c.W) →
      (s.Inv c ↔ (T.sortedB s.root.keys = true ∧ s.root.balB = true ∧ s.allocB c = true))) ∧
    (∀ (hash : Nat → Nat) (s : HSet Nat), s.slots < 4294967295 →
      (s.Inv hash ↔ (s.allocB = true ∧ s.placedB hash = true))) ∧
    (∀ (f : AFmt) (s : ASet Nat), s.Inv f.keyOf f.prefixMax ↔ s.wfB f = true) :=
  ⟨fun c s hw => Tree.inv_iff_exec c s hw, fun hash s hs => HSet.inv_iff_exec hash s hs,
   fun f s => ASet.inv_iff_exec f s⟩

/-- The layout facts the byte-level model depends on, as extracted from the sources on this run, are
    the documented format: header word order, register order, `initialize` vectors, 1-based
    `node!` indexing with 0 = none, 0-based `bucket_node!` indexing. -/
theorem source_facts_are_documented_format :
    Facts.tree32Fields = ["Root", "Size", "Capacity", "FreeListHead", "Sequence"] ∧
    Facts.tree8Fields = ["Root", "Size", "Capacity", "FreeListHead", "Sequence"] ∧
    Facts.tree32Registers = ["Left", "Right", "Height"] ∧ Facts.tree8Registers = ["Left", "Right", "Height"] ∧
    Facts.tree32Init = ["SENTINEL", "0", "capacity", "1", "1", "0"] ∧
    Facts.tree8Init = ["SENTINEL", "0", "capacity", "1", "1", "0", "0", "0"] ∧
    Facts.tree32NodeBase = 1 ∧ Facts.tree8NodeBase = 1 ∧
    Facts.hsetFields = ["Size", "Capacity", "FreeListHead", "Sequence"] ∧
    Facts.hsetRegisters = ["Bucket", "Next"] ∧ Facts.hsetInit = ["0", "capacity", "1", "1"] ∧
    Facts.hsetNodeBase = 1 ∧ Facts.hsetBucketBase = 0 := by
  decide

/-! ### Tie through the translator: what the source writes is the documented layout -/

/-- `avl_tree.rs`: after the translated `from_bytes_mut` + `insert` / `remove` on the layout of a reachable state the
    registers are exactly the layout (`Tree.image`) of a reachable state — the format is preserved by the code as
    written, slot for slot and register for register. -/
theorem translated_source_keeps_format_u32 (kd : α) (vd : β) (s : Tree α β) (h : Tree.Reach cfgU32 s) (k : α) (v : β) :
    (∃ s' r, Tree.Reach cfgU32 s' ∧
      Gen32.insert (Imp.dflt kd vd) (Gen32.from_bytes_mut (Imp.dflt kd vd) (s.image cfgU32 kd vd)) k v
        = some (s'.image cfgU32 kd vd, r)) ∧
    (∃ s' r, Tree.Reach cfgU32 s' ∧
      Gen32.remove (Imp.dflt kd vd) (Gen32.from_bytes_mut (Imp.dflt kd vd) (s.image cfgU32 kd vd)) k
        = some (s'.image cfgU32 kd vd, r)) := by
  obtain ⟨s1, r1, h1, _, e1⟩ := Gen32.transition_insert kd vd s h k v
  obtain ⟨s2, r2, h2, _, e2⟩ := Gen32.transition_remove kd vd s h k
  exact ⟨⟨s1, r1, h1, e1⟩, ⟨s2, r2, h2, e2⟩⟩

/-- `u8_avl_tree.rs`: after the translated `from_bytes_mut` + `insert` / `remove` on the layout of a reachable state the
    registers are exactly the layout (`Tree.image`) of a reachable state — the format is preserved by the code as
    written, slot for slot and register for register. -/
theorem translated_source_keeps_format_u8 (kd : α) (vd : β) (s : Tree α β) (h : Tree.Reach cfgU8 s) (k : α) (v : β) :
    (∃ s' r, Tree.Reach cfgU8 s' ∧
      Gen8.insert (Imp.dflt kd vd) (Gen8.from_bytes_mut (Imp.dflt kd vd) (s.image cfgU8 kd vd)) k v
        = some (s'.image cfgU8 kd vd, r)) ∧
    (∃ s' r, Tree.Reach cfgU8 s' ∧
      Gen8.remove (Imp.dflt kd vd) (Gen8.from_bytes_mut (Imp.dflt kd vd) (s.image cfgU8 kd vd)) k
        = some (s'.image cfgU8 kd vd, r)) := by
  obtain ⟨s1, r1, h1, _, e1⟩ := Gen8.transition_insert kd vd s h k v
  obtain ⟨s2, r2, h2, _, e2⟩ := Gen8.transition_remove kd vd s h k
  exact ⟨⟨s1, r1, h1, e1⟩, ⟨s2, r2, h2, e2⟩⟩

/-- `data_len` through the translator: the three `data_len` functions of the current source are header plus `c`
    records — the model's `dataLen` for every key/value layout; a buffer of that size is accepted by the view
    constructors with exactly `c` records, and no size strictly between `data_len(c)` and `data_len(c+1)` is accepted. -/
theorem translated_data_len (ft : TreeFmt) (fh : HFmt) (c : Nat) :
    GenV.avl32_data_len ft.hdrSize ft.recSize c = ft.dataLen c ∧
    GenV.avl8_data_len ft.hdrSize ft.recSize c = ft.dataLen c ∧
    GenV.hset_data_len fh.hdrSize fh.recSize c = fh.dataLen c ∧
    (∀ H R (b : ByteArray), 0 < R → b.size = GenV.avl32_data_len H R c →
        ∃ a n, GenV.avl32_from_bytes_mut H R b = some (a, n) ∧ a.size = H ∧ n.size = c * R) ∧
    (∀ H R (b : ByteArray), GenV.avl32_data_len H R c < b.size → b.size < GenV.avl32_data_len H R (c + 1) →
        GenV.avl32_from_bytes_mut H R b = none) := by
  refine ⟨rfl, rfl, rfl, ?_, ?_⟩
  · intro H R b hR hb
    rw [GenV.avl32_from_bytes_mut_eq]
    exact View.split_dataLen hR hb
  · intro H R b h1 h2
    rw [GenV.avl32_from_bytes_mut_eq]
    exact View.split_between h1 h2

/-- "Register/Field enums index the word arrays", through the translator: the twelve accessors of the current source
    (`get_field`, `set_field`, `get_register`, `set_register` of both trees and the hash set) are plain indexing into the
    word array — a write is read back and changes no other word — and, with the variants numbered in declaration order
    (`source_facts_are_documented_format`), the words they select are the header and record fields of the register image
    in the documented order: root, size, capacity, free-list head, sequence; left, right, height; bucket head, next. -/
theorem translated_accessors_index_the_words (ws : List Nat) (i v : Nat) {α β : Type} (rc : Rec α β) (h : Hdr) :
    GenV.avl32_get_register ws i = View.getWord ws i ∧ GenV.avl32_set_register ws i v = View.setWord ws i v ∧
    GenV.avl32_get_field ws i = View.getWord ws i ∧ GenV.avl32_set_field ws i v = View.setWord ws i v ∧
    GenV.avl8_get_register ws i = View.getWord ws i ∧ GenV.avl8_set_register ws i v = View.setWord ws i v ∧
    GenV.avl8_get_field ws i = View.getWord ws i ∧ GenV.avl8_set_field ws i v = View.setWord ws i v ∧
    GenV.hset_get_register ws i = View.getWord ws i ∧ GenV.hset_set_register ws i v = View.setWord ws i v ∧
    GenV.hset_get_field ws i = View.getWord ws i ∧ GenV.hset_set_field ws i v = View.setWord ws i v ∧
    (∀ ws', View.setWord ws i v = some ws' →
      View.getWord ws' i = some v ∧ (∀ j, j ≠ i → View.getWord ws' j = View.getWord ws j) ∧ ws'.length = ws.length) ∧
    GenV.avl32_get_register (View.recWords rc) 0 = some rc.left ∧ GenV.avl32_get_register (View.recWords rc) 1 = some rc.right ∧
    GenV.avl32_get_register (View.recWords rc) 2 = some rc.height ∧
    GenV.avl32_set_register (View.recWords rc) 2 v = some (View.recWords { rc with height := v }) ∧
    GenV.avl32_get_field (View.hdrWords h) 0 = some h.root ∧ GenV.avl32_get_field (View.hdrWords h) 1 = some h.size ∧
    GenV.avl32_get_field (View.hdrWords h) 2 = some h.cap ∧ GenV.avl32_get_field (View.hdrWords h) 3 = some h.flh ∧
    GenV.avl32_get_field (View.hdrWords h) 4 = some h.seq ∧
    GenV.avl32_set_field (View.hdrWords h) 2 v = some (View.hdrWords { h with cap := v }) := by
  obtain ⟨a1, a2, a3, a4, a5, a6, a7, a8, a9, a10, a11, a12⟩ := GenV.accessors_eq ws i v
  exact ⟨a3, a4, a1, a2, a7, a8, a5, a6, a11, a12, a9, a10, fun ws' hs => View.setWord_spec hs,
    rfl, rfl, rfl, rfl, rfl, rfl, rfl, rfl, rfl, rfl⟩

end Stevia.C10
