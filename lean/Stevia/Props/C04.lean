/-
  C04 — all state lives in the bytes: collections can be dropped and re-opened.
  In the model a handle is nothing but the decoded bytes, so "re-open from the same
  bytes" is `decode ∘ image`.  Addresses are not part of the model: independence of
  the buffer's address is checked on the implementation (every transition is run at
  two addresses), not proved.
-/
import Stevia.Proofs.TreeState
import Stevia.Proofs.HashSetState
import Stevia.Proofs.BytesRT
import Stevia.Proofs.GenTreeOpen32
import Stevia.Proofs.GenTreeOpen8
import Stevia.Proofs.GenViewsFmt

namespace Stevia.C04
open Stevia
variable {α β : Type} [LinOrd α]

/-- Dropping the handle and re-opening from the bytes at any point of any history gives back
    exactly the state: the layout of a reachable state decodes to it. -/
theorem tree_reopen_same_state [DecidableEq α] [DecidableEq β] (c : TreeCfg) (kd : α) (vd : β)
    (s : Tree α β) (h : Tree.Reach c s) : (s.image c kd vd).decode c kd vd = some s :=
  TreeImage.decode_image c kd vd s (Tree.reach_inv h).layoutOk

/-- Hence an operation applied after a round trip through the bytes behaves exactly as on
    the uninterrupted original (same result, same successor state), for every operation. -/
theorem tree_step_through_bytes [DecidableEq α] [DecidableEq β] (c : TreeCfg) (kd : α) (vd : β)
    (s : Tree α β) (h : Tree.Reach c s) (op : TreeOp α β) :
    ((s.image c kd vd).decode c kd vd).map (fun s0 => s0.step c op) = some (s.step c op) := by
  rw [tree_reopen_same_state c kd vd s h]; rfl

theorem tree_query_through_bytes [DecidableEq α] [DecidableEq β] (c : TreeCfg) (kd : α) (vd : β)
    (s : Tree α β) (h : Tree.Reach c s) (ops : List (MapOp α β)) :
    ((s.image c kd vd).decode c kd vd).map (fun s0 => s0.mapRun c ops) = some (s.mapRun c ops) := by
  rw [tree_reopen_same_state c kd vd s h]; rfl

/-- Re-opening (mutably) a tree whose buffer size still matches its capacity changes nothing. -/
theorem tree_reopen_identity (c : TreeCfg) (s : Tree α β) (h : s.slots ≤ s.cap) : s.openMut c = s :=
  Tree.openMut_id c s h

/-- Re-opening is idempotent: opening an already opened tree again changes nothing. -/
theorem tree_reopen_idempotent (c : TreeCfg) (s : Tree α β) (h : Tree.Reach c s) :
    (s.openMut c).openMut c = s.openMut c := by
  have := Tree.openMut_cap (Tree.reach_inv h)
  exact Tree.openMut_id c _ (by omega)

/-- At byte level, for both index widths and any key/value scalars: parsing the bytes of a reachable
    state's buffer and decoding them gives back the state — the state is a function of the bytes alone. -/
theorem tree_reopen_from_bytes (c : TreeCfg) (f : TreeFmt) (hm : f.Matches c) (hf : f.Ok) (s : Tree Int Nat)
    (h : Tree.Reach c s) (hkv : f.kvOk s.root) :
    (f.ofBytes (f.toBytes (s.image c 0 0))).bind (fun img => img.decode c 0 0) = some s :=
  Tree.bytes_roundtrip c f hm hf s h hkv

theorem hset_reopen_from_bytes (hash : Nat → Nat) (f : HFmt) (hf : f.Ok) (s : HSet Nat) (h : s.Inv hash)
    (hv : f.valsOk s) : (f.ofBytes (f.toBytes (s.image 0))).bind (fun img => img.decode 0) = some s :=
  HSet.bytes_roundtrip hash f hf s h hv

theorem aset_reopen_from_bytes (f : AFmt) (hp : 0 < f.pw) (hv : 0 < f.vsz) (s : ASet Nat)
    (h : s.Inv f.keyOf f.prefixMax) (hvals : ∀ v ∈ s.vals, v < 256 ^ f.vsz) :
    f.ofBytes (f.toBytes s) = some s := ASet.bytes_roundtrip f hp hv s h hvals

/-- Hash set: the layout of a well-formed state decodes to it (opening never writes: the model
    has no open operation at all for hash and array sets). -/
theorem hset_reopen_same_state {γ : Type} [DecidableEq γ] (hash : γ → Nat) (vd : γ) (s : HSet γ)
    (h : s.Inv hash) : (s.image vd).decode vd = some s :=
  HImage.decode_image vd s h.layoutOk

/-! ### Tie through the translator: re-opening as the source does it -/

/-- `avl_tree.rs`: the translated `from_bytes_mut` leaves an image whose record count does not exceed its capacity word
    untouched — every register, every header word — and in general is the model's `openMut` on layouts. -/
theorem translated_reopen_u32 (d : Rec α β) (m : TreeImage α β) (hm : m.recs.length ≤ m.hdr.cap) :
    Gen32.from_bytes_mut d m = m := by
  rw [Gen32.from_bytes_mut_eq]
  unfold Imp.openMut
  rw [if_neg (by omega)]

/-- `u8_avl_tree.rs`: the translated `from_bytes_mut` leaves an image whose record count does not exceed its capacity word
    untouched — every register, every header word — and in general is the model's `openMut` on layouts. -/
theorem translated_reopen_u8 (d : Rec α β) (m : TreeImage α β) (hm : m.recs.length ≤ m.hdr.cap) :
    Gen8.from_bytes_mut d m = m := by
  rw [Gen8.from_bytes_mut_eq]
  unfold Imp.openMut
  rw [if_neg (by omega)]

/-- Byte level, through the translator: in the current source EVERY view constructor — read-only and mutable, of both
    trees, of the hash set and of the array sets — cuts the caller's buffer at `size_of(header)`, guards the two parts with
    checked casts and builds the handle from exactly those two parts (`View.split`; the translator refuses any further
    statement or field, so a handle holds no derived state). Both views of the same bytes therefore see the same
    header and the same records, and the two parts reassemble the buffer: nothing but the bytes is state. -/
theorem translated_views_keep_no_state (H R : Nat) (b : ByteArray) :
    GenV.avl32_from_bytes H R b = View.split H R b ∧ GenV.avl32_from_bytes_mut H R b = View.split H R b ∧
    GenV.avl8_from_bytes H R b = View.split H R b ∧ GenV.avl8_from_bytes_mut H R b = View.split H R b ∧
    GenV.hset_from_bytes H R b = View.split H R b ∧ GenV.hset_from_bytes_mut H R b = View.split H R b ∧
    GenV.aset_from_bytes H R b = View.split H R b ∧ GenV.aset_from_bytes_mut H R b = View.split H R b ∧
    (∀ a n, View.split H R b = some (a, n) → a ++ n = b) :=
  ⟨GenV.avl32_from_bytes_eq H R b, GenV.avl32_from_bytes_mut_eq H R b, GenV.avl8_from_bytes_eq H R b,
   GenV.avl8_from_bytes_mut_eq H R b, GenV.hset_from_bytes_eq H R b, GenV.hset_from_bytes_mut_eq H R b,
   GenV.aset_from_bytes_eq H R b, GenV.aset_from_bytes_mut_eq H R b, fun _ _ h => (View.split_parts h).2.2.2.2.2⟩

/-- Whatever the format readers of the model accept (`ofBytes`, the inverse of the layout used in the re-open theorems
    above), the implementation's views accept: the bytes of every reachable state can be opened. -/
theorem translated_views_open_the_format (ft : TreeFmt) (fh : HFmt) (fa : AFmt) (bs : Bytes) :
    (∀ img, ft.ofBytes bs = some img → (View.split ft.hdrSize ft.recSize (View.ofList bs)).isSome) ∧
    (∀ img, fh.ofBytes bs = some img → (View.split fh.hdrSize fh.recSize (View.ofList bs)).isSome) ∧
    (∀ s, fa.ofBytes bs = some s → (View.split fa.pw fa.vsz (View.ofList bs)).isSome) :=
  ⟨fun img h => View.tree_reader_accepts ft bs img h, fun img h => View.hset_reader_accepts fh bs img h,
   fun s h => View.aset_reader_accepts fa bs s h⟩

-- non-vacuity: a 24-byte header and two 12-byte records
example : (View.split 24 12 (View.ofList (List.replicate 48 7))).isSome := by decide

end Stevia.C04
