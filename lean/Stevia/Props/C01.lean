/-
  C01 — AVL trees behave as a capacity-bounded ordered map over every history.
  Property theorems only (helper lemmas live in Stevia/Proofs).
-/
import Stevia.Proofs.TreeState
import Stevia.Proofs.GenTreeRefine32
import Stevia.Proofs.GenTreeStep32
import Stevia.Proofs.GenTreeStep8
import Stevia.Proofs.GenTreeRefine8

namespace Stevia.C01
open Stevia
variable {α β : Type} [LinOrd α]

/-- From every well-formed (in particular every reachable) state, every finite
    history of insert / remove / get / get_mut+write / contains / lowest / len /
    is_empty / is_full returns exactly what the reference bounded ordered map
    returns, never faults, and ends in a state whose contents are the reference's. -/
theorem refines_from (c : TreeCfg) (s : Tree α β) (h : Tree.Reach c s) (ops : List (MapOp α β)) :
    ∃ s', s.mapRun c ops = .ok (s', (s.abs.run ops).2) ∧ s'.abs = (s.abs.run ops).1 := by
  obtain ⟨s', h1, _, h3⟩ := Tree.mapRun_refines (Tree.reach_inv h) ops
  exact ⟨s', h1, h3⟩

/-- Histories starting from `initialize(n)` on a zero-filled buffer of `n` records:
    the outputs are those of the empty reference map of capacity `n`. -/
theorem refines (c : TreeCfg) (n : Nat) (hn : n ≤ c.W) (hw : c.wrap = true ∨ n < c.W)
    (ops : List (MapOp α β)) :
    ∃ s', (Tree.init n n : Tree α β).mapRun c ops
        = .ok (s', (BMap.run { cap := n, m := [] } ops).2) := by
  obtain ⟨s', h1, _, _⟩ :=
    Tree.mapRun_refines (Tree.inv_init (α := α) (β := β) c n n (Nat.le_refl n) hn hw) ops
  exact ⟨s', h1⟩

/-- 8-bit index variant: every capacity up to 255. -/
theorem refines_u8 (n : Nat) (hn : n ≤ 255) (ops : List (MapOp α β)) :
    ∃ s', (Tree.init n n : Tree α β).mapRun cfgU8 ops
        = .ok (s', (BMap.run { cap := n, m := [] } ops).2) :=
  refines cfgU8 n hn (Or.inl rfl) ops

/-- 32-bit index variant: every capacity below 2^32 - 1. -/
theorem refines_u32 (n : Nat) (hn : n < 4294967295) (ops : List (MapOp α β)) :
    ∃ s', (Tree.init n n : Tree α β).mapRun cfgU32 ops
        = .ok (s', (BMap.run { cap := n, m := [] } ops).2) :=
  refines cfgU32 n (Nat.le_of_lt hn) (Or.inr hn) ops

/-- The reference really is the map of the property statement: insert succeeds exactly
    when the key is absent and the map is not full, and never overwrites. -/
theorem spec_insert (b : BMap α β) (k : α) (v : β) :
    (b.step (.insert k v)).2 = .bool (decide ((getKV k b.m) = none ∧ b.m.length < b.cap)) ∧
    (((getKV k b.m).isSome ∨ b.m.length ≥ b.cap) → (b.step (.insert k v)).1 = b) := by
  unfold BMap.step
  by_cases h : (getKV k b.m).isSome ∨ b.m.length ≥ b.cap
  · simp only [if_pos h]
    constructor
    · rcases h with h | h
      · cases hg : getKV k b.m <;> simp_all
      · have : ¬ b.m.length < b.cap := by omega
        simp [this]
    · intro _; trivial
  · simp only [if_neg h]
    constructor
    · have h1 : getKV k b.m = none := by
        cases hg : getKV k b.m <;> simp_all
      have h2 : b.m.length < b.cap := by omega
      simp [h1, h2]
    · intro h'; exact absurd h' h

/-- `lowest` is the minimum key: in every reachable state it is the key of the first entry of the
    strictly ascending in-order list, so it is below every other key of the tree (and `none` iff empty). -/
theorem lowest_is_min (c : TreeCfg) (s : Tree α β) (h : Tree.Reach c s) :
    (s.lowest = none ↔ s.root.toList = []) ∧
    ∀ k0, s.lowest = some k0 → ∀ e ∈ s.root.toList, e.2.1 = k0 ∨ k0 < e.2.1 := by
  have hs := (T.bst_iff_sorted s.root).1 (Tree.reach_inv h).bst
  have hm : s.lowest = s.root.toList.head?.map (·.2.1) := T.minKey_eq s.root
  constructor
  · rw [hm]; cases s.root.toList <;> simp
  · intro k0 hk e he
    rw [hm] at hk
    cases hl : s.root.toList with
    | nil => rw [hl] at he; cases he
    | cons x rest =>
      rw [hl] at hk he hs
      simp only [List.head?_cons, Option.map_some, Option.some.injEq] at hk
      rcases List.mem_cons.1 he with rfl | hr
      · exact Or.inl hk
      · exact Or.inr (hk ▸ hs.1 e hr)

/-- Non-vacuity: a concrete reachable state (three entries, one recycled slot). -/
example : ∃ s : Tree Nat Nat, Tree.Reach cfgU8 s ∧ s.size = 2 ∧ s.free = [2] :=
  ⟨_, Tree.Reach.step (TreeOp.remove 5)
      (Tree.Reach.step (TreeOp.insert 9 90)
        (Tree.Reach.step (TreeOp.insert 5 50)
          (Tree.Reach.step (TreeOp.insert 7 70)
            (Tree.Reach.init 4 4 (by decide) (by decide) (Or.inl rfl)) trivial rfl) trivial rfl) trivial rfl)
      trivial rfl, by decide, by decide⟩

/-! ### Tie through the translator

`Stevia.Gen32.*` / `Stevia.Gen8.*` are regenerated from `avl_tree.rs` / `u8_avl_tree.rs` on every run
(tools/rust2lean.py). A translated function answers `none` where the Rust would panic or where one of its loops
does not leave by its own condition within `records + 1` iterations. The following theorems say that the *translated
Rust functions*, run on the register layout of any reachable state, answer `some …` — no panic, no endless loop — and
do what the functional model (and hence, by `refines_from`, the reference map) does. -/

/-- `avl_tree.rs`: `from_bytes_mut` followed by `insert` on the layout of a reachable state returns normally, ends in the
    layout of a reachable state, and state and returned slot are the model's. -/
theorem translated_insert_u32 (kd : α) (vd : β) (s : Tree α β) (h : Tree.Reach cfgU32 s) (k : α) (v : β) :
    ∃ s' r, Tree.Reach cfgU32 s' ∧ (s.openMut cfgU32).insert cfgU32 k v = .ok (s', r) ∧
      Gen32.insert (Imp.dflt kd vd) (Gen32.from_bytes_mut (Imp.dflt kd vd) (s.image cfgU32 kd vd)) k v
        = some (s'.image cfgU32 kd vd, r) :=
  Gen32.transition_insert kd vd s h k v

/-- `avl_tree.rs`: the same for `remove`. -/
theorem translated_remove_u32 (kd : α) (vd : β) (s : Tree α β) (h : Tree.Reach cfgU32 s) (k : α) :
    ∃ s' r, Tree.Reach cfgU32 s' ∧ (s.openMut cfgU32).remove k = .ok (s', r) ∧
      Gen32.remove (Imp.dflt kd vd) (Gen32.from_bytes_mut (Imp.dflt kd vd) (s.image cfgU32 kd vd)) k
        = some (s'.image cfgU32 kd vd, r) :=
  Gen32.transition_remove kd vd s h k

/-- `avl_tree.rs`: the translated queries (`find`, `contains`, `lowest`, the sizes) and `get_mut` + write return normally and
    answer as the model. -/
theorem translated_queries_u32 (kd : α) (vd : β) (s : Tree α β) (h : Tree.Reach cfgU32 s) (k : α) (v : β) :
    Gen32.find (Imp.dflt kd vd) (s.image cfgU32 kd vd) k = some ((s.root.find k).map (·.1)) ∧
    Gen32.contains (Imp.dflt kd vd) (s.image cfgU32 kd vd) k = some (s.root.find k).isSome ∧
    Gen32.lowest (Imp.dflt kd vd) (s.image cfgU32 kd vd) = some s.lowest ∧
    Gen32.len (Imp.dflt kd vd) (s.image cfgU32 kd vd) = s.size ∧
    Gen32.is_full (Imp.dflt kd vd) (s.image cfgU32 kd vd) = s.isFull ∧
    (Gen32.get_mut (Imp.dflt kd vd) (s.image cfgU32 kd vd) k).map (fun r => match r.2 with
      | none => (s.image cfgU32 kd vd, false)
      | some i => (Imp.wr (s.image cfgU32 kd vd) i fun r => { r with val := v }, true))
      = some (((s.update k v).1).image cfgU32 kd vd, (s.update k v).2) :=
  have hi := Tree.reach_inv h
  ⟨Gen32.find_refines kd vd s hi k, Gen32.contains_refines kd vd s hi k, Gen32.lowest_refines kd vd s hi,
   rfl, rfl, Gen32.get_mut_refines kd vd s hi k v⟩

/-- `u8_avl_tree.rs`: `from_bytes_mut` followed by `insert` on the layout of a reachable state returns normally, ends in the
    layout of a reachable state, and state and returned slot are the model's. -/
theorem translated_insert_u8 (kd : α) (vd : β) (s : Tree α β) (h : Tree.Reach cfgU8 s) (k : α) (v : β) :
    ∃ s' r, Tree.Reach cfgU8 s' ∧ (s.openMut cfgU8).insert cfgU8 k v = .ok (s', r) ∧
      Gen8.insert (Imp.dflt kd vd) (Gen8.from_bytes_mut (Imp.dflt kd vd) (s.image cfgU8 kd vd)) k v
        = some (s'.image cfgU8 kd vd, r) :=
  Gen8.transition_insert kd vd s h k v

/-- `u8_avl_tree.rs`: the same for `remove`. -/
theorem translated_remove_u8 (kd : α) (vd : β) (s : Tree α β) (h : Tree.Reach cfgU8 s) (k : α) :
    ∃ s' r, Tree.Reach cfgU8 s' ∧ (s.openMut cfgU8).remove k = .ok (s', r) ∧
      Gen8.remove (Imp.dflt kd vd) (Gen8.from_bytes_mut (Imp.dflt kd vd) (s.image cfgU8 kd vd)) k
        = some (s'.image cfgU8 kd vd, r) :=
  Gen8.transition_remove kd vd s h k

/-- `u8_avl_tree.rs`: the translated queries (`find`, `contains`, `lowest`, the sizes) and `get_mut` + write return normally and
    answer as the model. -/
theorem translated_queries_u8 (kd : α) (vd : β) (s : Tree α β) (h : Tree.Reach cfgU8 s) (k : α) (v : β) :
    Gen8.find (Imp.dflt kd vd) (s.image cfgU8 kd vd) k = some ((s.root.find k).map (·.1)) ∧
    Gen8.contains (Imp.dflt kd vd) (s.image cfgU8 kd vd) k = some (s.root.find k).isSome ∧
    Gen8.lowest (Imp.dflt kd vd) (s.image cfgU8 kd vd) = some s.lowest ∧
    Gen8.len (Imp.dflt kd vd) (s.image cfgU8 kd vd) = s.size ∧
    Gen8.is_full (Imp.dflt kd vd) (s.image cfgU8 kd vd) = s.isFull ∧
    (Gen8.get_mut (Imp.dflt kd vd) (s.image cfgU8 kd vd) k).map (fun r => match r.2 with
      | none => (s.image cfgU8 kd vd, false)
      | some i => (Imp.wr (s.image cfgU8 kd vd) i fun r => { r with val := v }, true))
      = some (((s.update k v).1).image cfgU8 kd vd, (s.update k v).2) :=
  have hi := Tree.reach_inv h
  ⟨Gen8.find_refines kd vd s hi k, Gen8.contains_refines kd vd s hi k, Gen8.lowest_refines kd vd s hi,
   rfl, rfl, Gen8.get_mut_refines kd vd s hi k v⟩

/-- `avl_tree.rs`, whole histories: `initialize(cap)` on a zero-filled buffer of `n` records followed by *any* history of
    insertions, removals, `get_mut` + writes, re-openings and buffer extensions (each through a fresh handle, as the
    crate is used) — the translated source answers `some …` at every step and ends in exactly the register layout of
    the functional model's state after the same history. With `refines_from` this is: for every history the code as
    written answers like the capacity-bounded reference map. -/
theorem translated_history_u32 (kd : α) (vd : β) (n cap : Nat) (h1 : cap ≤ n) (h2 : n < 4294967295) (s' : Tree α β)
    (ops : List (TreeOp α β)) (hs : Tree.Steps cfgU32 (Tree.init n cap) ops s') :
    Gen32.runImg (Imp.dflt kd vd)
      (Gen32.initialize_tree (Imp.dflt kd vd) ((Tree.zero n : Tree α β).image cfgU32 kd vd) cap) ops
      = some (s'.image cfgU32 kd vd) :=
  Gen32.run_from_zero kd vd n cap h1 h2 s' ops hs

/-- `u8_avl_tree.rs`, whole histories: `initialize(cap)` on a zero-filled buffer of `n` records followed by *any* history of
    insertions, removals, `get_mut` + writes, re-openings and buffer extensions (each through a fresh handle, as the
    crate is used) — the translated source answers `some …` at every step and ends in exactly the register layout of
    the functional model's state after the same history. With `refines_from` this is: for every history the code as
    written answers like the capacity-bounded reference map. -/
theorem translated_history_u8 (kd : α) (vd : β) (n cap : Nat) (h1 : cap ≤ n) (h2 : n ≤ 255) (s' : Tree α β)
    (ops : List (TreeOp α β)) (hs : Tree.Steps cfgU8 (Tree.init n cap) ops s') :
    Gen8.runImg (Imp.dflt kd vd)
      (Gen8.initialize_tree (Imp.dflt kd vd) ((Tree.zero n : Tree α β).image cfgU8 kd vd) cap) ops
      = some (s'.image cfgU8 kd vd) :=
  Gen8.run_from_zero kd vd n cap h1 h2 s' ops hs

/-- Non-vacuity of the history theorems: a concrete history (insert, insert, remove, re-open, insert). -/
example : ∃ s', Tree.Steps cfgU8 (Tree.init 2 2 : Tree Nat Nat)
    [TreeOp.insert 7 70, TreeOp.insert 5 50, TreeOp.remove 7, TreeOp.reopen, TreeOp.insert 9 90] s' :=
  ⟨_, .cons _ trivial rfl (.cons _ trivial rfl (.cons _ trivial rfl (.cons _ trivial rfl
    (.cons _ trivial rfl .nil))))⟩

end Stevia.C01
