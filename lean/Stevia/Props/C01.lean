/-
  C01 — AVL trees behave as a capacity-bounded ordered map over every history.
  Property theorems only (helper lemmas live in Stevia/Proofs).
-/
import Stevia.Proofs.TreeState

namespace Stevia.C01
open Stevia
variable {α β : Type} [LinOrd α]

/-- From every well-formed (in particular every reachable) state, every finite
    history of insert / remove / get / get_mut+write / contains / lowest / len /
    is_empty / is_full returns exactly what the reference bounded ordered map
    returns, never faults, and ends in a state whose contents are the reference's. -/
theorem refines_from (c : TreeCfg) (s : Tree α β) (h : Tree.Reach c s) (ops : List (MapOp α β)) :
    ∃ s', s.mapRun c ops = .ok (s', (s.abs.run ops).2) ∧ s'.abs = (s.abs.run ops).1 := by
  obtain ⟨s', h1, _, h3⟩ := Tree.mapRun_refines (Tree.reach_inv h) ops
  exact ⟨s', h1, h3⟩

/-- Histories starting from `initialize(n)` on a zero-filled buffer of `n` records:
    the outputs are those of the empty reference map of capacity `n`. -/
theorem refines (c : TreeCfg) (n : Nat) (hn : n ≤ c.W) (hw : c.wrap = true ∨ n < c.W)
    (ops : List (MapOp α β)) :
    ∃ s', (Tree.init n n : Tree α β).mapRun c ops
        = .ok (s', (BMap.run { cap := n, m := [] } ops).2) := by
  obtain ⟨s', h1, _, _⟩ :=
    Tree.mapRun_refines (Tree.inv_init (α := α) (β := β) c n n (Nat.le_refl n) hn hw) ops
  exact ⟨s', h1⟩

/-- 8-bit index variant: every capacity up to 255. -/
theorem refines_u8 (n : Nat) (hn : n ≤ 255) (ops : List (MapOp α β)) :
    ∃ s', (Tree.init n n : Tree α β).mapRun cfgU8 ops
        = .ok (s', (BMap.run { cap := n, m := [] } ops).2) :=
  refines cfgU8 n hn (Or.inl rfl) ops

/-- 32-bit index variant: every capacity below 2^32 - 1. -/
theorem refines_u32 (n : Nat) (hn : n < 4294967295) (ops : List (MapOp α β)) :
    ∃ s', (Tree.init n n : Tree α β).mapRun cfgU32 ops
        = .ok (s', (BMap.run { cap := n, m := [] } ops).2) :=
  refines cfgU32 n (Nat.le_of_lt hn) (Or.inr hn) ops

/-- The reference really is the map of the property statement: insert succeeds exactly
    when the key is absent and the map is not full, and never overwrites. -/
theorem spec_insert (b : BMap α β) (k : α) (v : β) :
    (b.step (.insert k v)).2 = .bool (decide ((getKV k b.m) = none ∧ b.m.length < b.cap)) ∧
    (((getKV k b.m).isSome ∨ b.m.length ≥ b.cap) → (b.step (.insert k v)).1 = b) := by
  unfold BMap.step
  by_cases h : (getKV k b.m).isSome ∨ b.m.length ≥ b.cap
  · simp only [if_pos h]
    constructor
    · rcases h with h | h
      · cases hg : getKV k b.m <;> simp_all
      · have : ¬ b.m.length < b.cap := by omega
        simp [this]
    · intro _; trivial
  · simp only [if_neg h]
    constructor
    · have h1 : getKV k b.m = none := by
        cases hg : getKV k b.m <;> simp_all
      have h2 : b.m.length < b.cap := by omega
      simp [h1, h2]
    · intro h'; exact absurd h' h

/-- `lowest` is the minimum key: in every reachable state it is the key of the first entry of the
    strictly ascending in-order list, so it is below every other key of the tree (and `none` iff empty). -/
theorem lowest_is_min (c : TreeCfg) (s : Tree α β) (h : Tree.Reach c s) :
    (s.lowest = none ↔ s.root.toList = []) ∧
    ∀ k0, s.lowest = some k0 → ∀ e ∈ s.root.toList, e.2.1 = k0 ∨ k0 < e.2.1 := by
  have hs := (T.bst_iff_sorted s.root).1 (Tree.reach_inv h).bst
  have hm : s.lowest = s.root.toList.head?.map (·.2.1) := T.minKey_eq s.root
  constructor
  · rw [hm]; cases s.root.toList <;> simp
  · intro k0 hk e he
    rw [hm] at hk
    cases hl : s.root.toList with
    | nil => rw [hl] at he; cases he
    | cons x rest =>
      rw [hl] at hk he hs
      simp only [List.head?_cons, Option.map_some, Option.some.injEq] at hk
      rcases List.mem_cons.1 he with rfl | hr
      · exact Or.inl hk
      · exact Or.inr (hk ▸ hs.1 e hr)

/-- Non-vacuity: a concrete reachable state (three entries, one recycled slot). -/
example : ∃ s : Tree Nat Nat, Tree.Reach cfgU8 s ∧ s.size = 2 ∧ s.free = [2] :=
  ⟨_, Tree.Reach.step (TreeOp.remove 5)
      (Tree.Reach.step (TreeOp.insert 9 90)
        (Tree.Reach.step (TreeOp.insert 5 50)
          (Tree.Reach.step (TreeOp.insert 7 70)
            (Tree.Reach.init 4 4 (by decide) (by decide) (Or.inl rfl)) trivial rfl) trivial rfl) trivial rfl)
      trivial rfl, by decide, by decide⟩

end Stevia.C01
