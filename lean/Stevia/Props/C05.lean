/-
  C05 — no operation touches memory outside the buffer it was given.
  Only array_set.rs performs raw memory access (two `ptr::copy` calls).  The first
  group of theorems is stated over `Stevia.Facts.*`, which the extractor regenerates
  from /repo's sources on every run: they are re-proved against the code as it is now.
-/
import Stevia.Generated.Facts
import Stevia.Proofs.ArraySetState
import Stevia.Proofs.GenASetRefine
import Stevia.Proofs.GenViews

namespace Stevia.C05
open Stevia

/-- `insert`: under the guards the code establishes before the copy (`!is_full()` gives
    `len < slots`; binary search gives `index ≤ len`) both ranges of the raw copy — as the
    source currently writes them — stay inside the value slots. -/
theorem insert_copy_in_bounds (index len slots : Nat) (h1 : len < slots) (h2 : index ≤ len) :
    Facts.insertCopySrc index len slots + Facts.insertCopyCnt index len slots ≤ slots ∧
    Facts.insertCopyDst index len slots + Facts.insertCopyCnt index len slots ≤ slots := by
  simp only [Facts.insertCopySrc, Facts.insertCopyDst, Facts.insertCopyCnt]
  omega

/-- `take`: under `len ≤ slots` and the code's guard `index < len - 1`. -/
theorem take_copy_in_bounds (index len slots : Nat) (h1 : len ≤ slots) (h2 : index < len - 1) :
    Facts.takeCopySrc index len slots + Facts.takeCopyCnt index len slots ≤ slots ∧
    Facts.takeCopyDst index len slots + Facts.takeCopyCnt index len slots ≤ slots := by
  simp only [Facts.takeCopySrc, Facts.takeCopyDst, Facts.takeCopyCnt]
  omega

/-- Inventory of raw memory access: every raw memory-access primitive of array_set.rs is one of the
    copies bounded above, and no other file of the crate contains one (their `unsafe` is
    `from_utf8_unchecked` — a validity obligation, C11 — and marker `unsafe impl Pod/Zeroable`). A new
    raw-access site anywhere breaks this theorem; replacing a raw copy by safe code does not. -/
theorem raw_access_inventory :
    Facts.unsafe_arraySet.2.2.2 = Facts.modelledCopies ∧
    Facts.unsafe_avlTree.2.2.2 = 0 ∧ Facts.unsafe_u8AvlTree.2.2.2 = 0 ∧ Facts.unsafe_hashSet.2.2.2 = 0 ∧
    Facts.unsafe_prefixStr.2.2.2 = 0 ∧ Facts.unsafe_podStr.2.2.2 = 0 ∧ Facts.unsafe_podBool.2.2.2 = 0 ∧
    Facts.unsafe_podOption.2.2.2 = 0 ∧ Facts.unsafe_lib.2.2.2 = 0 := by
  decide

variable {α κ : Type} [LinOrd κ]

/-- In the model a raw copy that left the slice would be `Fault.oob`; on well-formed sets
    no operation ever faults — in particular no copy leaves the buffer — and the result is a function
    of the buffer's own contents only (the model has no other input). -/
theorem model_never_out_of_bounds {key : α → κ} {P : Nat} {s : ASet α} (h : s.Inv key P) (op : ASOp α κ) :
    ∃ s' o, s.opStep key P op = .ok (s', o) ∧ s'.Inv key P ∧ s'.slots = s.slots := by
  obtain ⟨s', h1, h2, _, h4⟩ := ASet.opStep_refines h op
  exact ⟨s', _, h1, h2, h4⟩

/-- Tie through the translator: in the *translated* `insert` and `take` (`Stevia.GenA.*`, regenerated from
    `array_set.rs` on every run; `ptr::copy` is `copyWithin`, which fails exactly when a range leaves the values slice,
    and every `self.values[i]` is a checked access) nothing fails on a well-formed set — no raw copy and no index
    leaves the slice — and the slot count is unchanged. -/
theorem translated_copies_stay_inside {key : α → κ} {P : Nat} {s : ASet α} (h : s.Inv key P) (x : α) :
    (∃ s' r, GenA.insert key P s x = some (s', r) ∧ s'.slots = s.slots) ∧
    (∃ s' r, GenA.take key P s x = some (s', r) ∧ s'.slots = s.slots) := by
  constructor
  · obtain ⟨s', r, h1, h2, _⟩ := GenA.insert_refines h x
    refine ⟨s', r, h1, ?_⟩
    rcases ASet.insert_spec h x with ⟨_, h3⟩ | ⟨_, _, s'', h3, _, _, h6⟩
    · rw [h3] at h2; cases h2; rfl
    · rw [h3] at h2; cases h2; exact h6.1
  · obtain ⟨s', r, h1, h2, _⟩ := GenA.take_refines h x
    refine ⟨s', r, h1, ?_⟩
    rcases ASet.take_spec h (key x) with ⟨_, h3⟩ | ⟨y, s'', _, h3, _, _, h6, _⟩
    · rw [h3] at h2; cases h2; rfl
    · rw [h3] at h2; cases h2; exact h6

/-- Byte level, through the translator: the two parts every handle is built from (translated `from_bytes` /
    `from_bytes_mut` of every collection, all equal to `View.split`) are two adjacent sub-ranges of the caller's buffer —
    the first `H` bytes and the rest — whose sizes add up to the buffer's; a buffer shorter than a header, or whose
    remainder is not a whole number of records, is refused rather than read past its end. -/
theorem translated_views_stay_inside (H R : Nat) (b : ByteArray) :
    (∀ a n, GenV.avl32_from_bytes_mut H R b = some (a, n) ∨ GenV.avl8_from_bytes_mut H R b = some (a, n) ∨
        GenV.hset_from_bytes_mut H R b = some (a, n) ∨ GenV.aset_from_bytes_mut H R b = some (a, n) ∨
        GenV.avl32_from_bytes H R b = some (a, n) ∨ GenV.avl8_from_bytes H R b = some (a, n) ∨
        GenV.hset_from_bytes H R b = some (a, n) ∨ GenV.aset_from_bytes H R b = some (a, n) →
      a = b.extract 0 H ∧ n = b.extract H b.size ∧ a.size + n.size = b.size ∧ castOk R n.size) ∧
    (b.size < H → GenV.aset_from_bytes_mut H R b = none ∧ GenV.avl32_from_bytes_mut H R b = none ∧
      GenV.avl8_from_bytes_mut H R b = none ∧ GenV.hset_from_bytes_mut H R b = none) := by
  refine ⟨?_, ?_⟩
  · intro a n h
    simp only [GenV.avl32_from_bytes_eq, GenV.avl32_from_bytes_mut_eq, GenV.avl8_from_bytes_eq, GenV.avl8_from_bytes_mut_eq,
      GenV.hset_from_bytes_eq, GenV.hset_from_bytes_mut_eq, GenV.aset_from_bytes_eq, GenV.aset_from_bytes_mut_eq, or_self] at h
    obtain ⟨h1, h2, _, h4, h5, _⟩ := View.split_parts h
    exact ⟨h1, h2, h4, h5⟩
  · intro hlt
    have : View.split H R b = none := by unfold View.split; rw [if_neg]; omega
    simp [GenV.avl32_from_bytes_mut_eq, GenV.avl8_from_bytes_mut_eq, GenV.hset_from_bytes_mut_eq, GenV.aset_from_bytes_mut_eq, this]

end Stevia.C05
