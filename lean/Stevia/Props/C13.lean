/-
  C13 — prefixed strings expose the payload, store what fits, survive reload.
-/
import Stevia.Proofs.StrState
import Stevia.Props.C11
import Stevia.Proofs.GenStr

namespace Stevia.C13
open Stevia

/-- Creating a prefixed string: a buffer shorter than the prefix is rejected by panic; otherwise the
    whole payload area — clamped to what the prefix can express, never wrapped modulo 2^(8w) — is
    exposed as the string, its length is recorded little-endian in the prefix, the buffer keeps its size and
    no payload byte changes. (`w = 1, P = 255` and `w = 2, P = 65535` are the crate's two widths.) -/
theorem new_spec (w P : Nat) (hP : P < 256 ^ w) (buf : ByteArray) :
    (buf.size < w ∧ PStr.new w P buf = .error .oob) ∨
    (w ≤ buf.size ∧ ∃ b' r, PStr.new w P buf = .ok (b', r) ∧ b'.size = buf.size ∧
        PStr.recLen w b' = min (buf.size - w) P ∧ b'.extract w b'.size = buf.extract w buf.size ∧
        PStr.payload w b' = buf.extract w (w + min (buf.size - w) P) ∧
        (r = true ↔ (PStr.payload w b').IsValidUTF8)) := PStr.new_spec w P hP buf

/-- The recorded length is written little-endian: it is what decoding the `w` prefix bytes gives, and
    for a payload area beyond the prefix maximum it is the maximum (255 for 256/257 bytes, 65535 for
    65536/65537 bytes), not the area size modulo 2^(8w). -/
theorem new_clamps (w P : Nat) (hP : P < 256 ^ w) (buf b' : ByteArray) (r : Bool) (hbig : P ≤ buf.size - w)
    (hw : w ≤ buf.size) (h : PStr.new w P buf = .ok (b', r)) : PStr.recLen w b' = P := by
  rcases PStr.new_spec w P hP buf with ⟨h1, _⟩ | ⟨_, b2, r2, h2, _, hl, _⟩
  · omega
  · rw [h2] at h; cases h; rw [hl]; exact Nat.min_eq_right hbig

/-- Copying text: the length prefix is unchanged, the buffer keeps its size, the payload becomes the cut
    text followed by zeros (so no earlier content survives), bytes beyond the recorded length are untouched. -/
theorem copy_spec (w : Nat) (buf : ByteArray) (s : String) (hw : w ≤ buf.size)
    (hl : PStr.recLen w buf ≤ buf.size - w) :
    let n := floorBoundary s (min (PStr.recLen w buf) s.utf8ByteSize)
    (PStr.copyFromStr w buf s).size = buf.size ∧
    PStr.recLen w (PStr.copyFromStr w buf s) = PStr.recLen w buf ∧
    PStr.payload w (PStr.copyFromStr w buf s) = s.toByteArray.extract 0 n ++ zerosBA (PStr.recLen w buf - n) ∧
    (PStr.copyFromStr w buf s).extract (w + PStr.recLen w buf) buf.size
      = buf.extract (w + PStr.recLen w buf) buf.size := PStr.copy_spec w buf s hw hl

/-- The cut is the *longest* prefix of the text that fits without splitting a character: it is a
    char boundary within the limit, and no char boundary lies between it and the limit. -/
theorem cut_is_longest (s : String) (limit : Nat) :
    floorBoundary s limit ≤ limit ∧ (String.Pos.Raw.mk (floorBoundary s limit)).IsValid s ∧
    ∀ m, m ≤ limit → (String.Pos.Raw.mk m).IsValid s → m ≤ floorBoundary s limit :=
  ⟨floorBoundary_le s limit, floorBoundary_isValid s limit, fun m hm hv => floorBoundary_max s limit m hm hv⟩

/-- A text that fits is stored whole. -/
theorem fits_stored_whole (w : Nat) (buf : ByteArray) (s : String) (hfit : s.utf8ByteSize ≤ PStr.recLen w buf) :
    floorBoundary s (min (PStr.recLen w buf) s.utf8ByteSize) = s.utf8ByteSize := PStr.copy_fits w buf s hfit

/-- Re-loading the same bytes returns the identical string. -/
theorem reload (w : Nat) (buf : ByteArray) (s : String) (hw : w ≤ buf.size) (hl : PStr.recLen w buf ≤ buf.size - w) :
    PStr.fromBytes w (PStr.copyFromStr w buf s) = .ok (some (PStr.payload w (PStr.copyFromStr w buf s))) :=
  PStr.reload_after_copy w buf s hw hl

/-- The result of a copy is independent of the earlier payload (sequences of copies of decreasing /
    increasing length leave no residue). -/
theorem copy_forgets (w : Nat) (b1 b2 : ByteArray) (s : String) (hs : b1.size = b2.size)
    (hw : w ≤ b1.size) (hp : b1.extract 0 w = b2.extract 0 w) (hl : PStr.recLen w b1 ≤ b1.size - w)
    (ht : b1.extract (w + PStr.recLen w b1) b1.size = b2.extract (w + PStr.recLen w b1) b2.size) :
    PStr.copyFromStr w b1 s = PStr.copyFromStr w b2 s := PStr.copy_forgets w b1 b2 s hs hw hp hl ht

/-- Loading reads the prefix and the payload only — trailing bytes beyond the recorded length are
    ignored — and `size()` is the prefix width plus the string length. -/
theorem load_reads_payload_only (w : Nat) (buf : ByteArray) (hw : w ≤ buf.size) (hl : PStr.recLen w buf ≤ buf.size - w) :
    PStr.fromBytes w buf = .ok (if (PStr.payload w buf).validateUTF8 then some (PStr.payload w buf) else none) ∧
    PStr.size w buf = w + PStr.recLen w buf := ⟨(PStr.fromBytes_spec w buf hw hl).1, rfl⟩

/-- Tie through the translator (`Stevia.GenP.*`, regenerated from `prefix_str.rs` on every run): the translated `new`,
    `copy_from_str` and `size` are the model's, so everything above holds for the code as written. -/
theorem translated_prefix_str_is_the_model (W P N : Nat) (hP : P < 256 ^ W) (buf : ByteArray) (s : String) :
    (GenP.new W P N buf).map (fun r => (r.1, r.2.isSome)) = (PStr.new W P buf).toOption ∧
    (W + PStr.recLen W buf ≤ buf.size →
      (∃ v, GenP.copy_from_str W P N (PStr.payload W buf) s = some v ∧
        PStr.copyFromStr W buf s = buf.extract 0 W ++ v ++ buf.extract (W + PStr.recLen W buf) buf.size) ∧
      GenP.size W P N (PStr.payload W buf) = some (PStr.size W buf)) :=
  ⟨GenP.new_eq W P N hP buf, fun hw => ⟨GenP.copy_from_str_eq W P N buf s hw, GenP.size_eq W P N buf hw⟩⟩

end Stevia.C13
