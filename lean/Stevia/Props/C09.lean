/-
  C09 — refused operations and queries leave every byte unchanged.  In the
  model "every byte" is the whole state (the bytes are a function of it:
  `Tree.image`, `HSet.image`, `AFmt.toBytes`).
-/
import Stevia.Proofs.TreeState
import Stevia.Proofs.HashSetState
import Stevia.Proofs.ArraySetState
import Stevia.Proofs.GenTreeRefine32
import Stevia.Proofs.GenTreeRefine8

namespace Stevia.C09
open Stevia
variable {α β : Type} [LinOrd α]

/-- Tree `insert` that reports `None` (duplicate key or full tree) returns the identical state. -/
theorem tree_insert_refused (c : TreeCfg) (s s' : Tree α β) (k : α) (v : β)
    (h : s.insert c k v = .ok (s', none)) : s' = s := by
  unfold Tree.insert at h
  split at h
  · cases h; rfl
  · split at h
    · cases h; rfl
    · split at h
      · cases h
      · cases h

/-- Tree `remove` that reports `None` (absent key) returns the identical state. -/
theorem tree_remove_refused (s s' : Tree α β) (k : α) (h : s.remove k = .ok (s', none)) : s' = s := by
  unfold Tree.remove at h
  split at h
  · cases h; rfl
  · split at h
    · cases h
    · cases h

/-- `get_mut` that finds nothing leaves the state unchanged. -/
theorem tree_update_refused (s : Tree α β) (k : α) (v : β) (h : (s.update k v).2 = false) :
    (s.update k v).1 = s := by
  unfold Tree.update at *
  split at h
  · rfl
  · cases h

/-- Queries are functions of the state only (they return no new state at all):
    `get`, `contains`, `lowest`, `len`, `capacity`, `is_full`, `is_empty` are pure. -/
theorem tree_queries_pure (c : TreeCfg) (s : Tree α β) (op : MapOp α β)
    (hq : match op with | .insert .. => False | .remove .. => False | .update .. => False | _ => True) :
    ∃ o, s.mapStep c op = .ok (s, o) := by
  cases op <;> simp_all [Tree.mapStep]

omit [LinOrd α] in
/-- Hash set: refused insert / remove return the identical state. -/
theorem hset_insert_refused {γ : Type} [DecidableEq γ] (hash : γ → Nat) (s s' : HSet γ) (v : γ)
    (h : s.insert hash v = .ok (s', false)) : s' = s := by
  unfold HSet.insert at h
  try dsimp only at h
  repeat' (split at h)
  all_goals (first | (cases h; rfl) | cases h)

omit [LinOrd α] in
theorem hset_remove_refused {γ : Type} [DecidableEq γ] (hash : γ → Nat) (s s' : HSet γ) (v : γ)
    (h : s.remove hash v = .ok (s', false)) : s' = s := by
  unfold HSet.remove at h
  try dsimp only at h
  repeat' (split at h)
  all_goals (first | (cases h; rfl) | cases h)

omit [LinOrd α] in
/-- Array set: refused insert / take / get_mut return the identical state. -/
theorem aset_insert_refused {κ : Type} [LinOrd κ] (key : α → κ) (P : Nat) (s s' : ASet α) (x : α)
    (h : s.insert key P x = .ok (s', false)) : s' = s := by
  unfold ASet.insert at h
  try dsimp only at h
  repeat' (split at h)
  all_goals (first | (cases h; rfl) | cases h)

omit [LinOrd α] in
theorem aset_take_refused {κ : Type} [LinOrd κ] (key : α → κ) (s s' : ASet α) (x : κ)
    (h : s.take key x = .ok (s', none)) : s' = s := by
  unfold ASet.take at h
  try dsimp only at h
  repeat' (split at h)
  all_goals (first | (cases h; rfl) | cases h)

/-! ### Tie through the translator: a refused operation of the source leaves every register as it was -/

/-- `avl_tree.rs`: when the model refuses an insertion (duplicate key or full tree) resp. a removal (absent key), the
    translated function run on the layout of the state returns that very layout. -/
theorem translated_refusals_u32 (kd : α) (vd : β) (s : Tree α β) (h : s.Inv cfgU32) (k : α) (v : β) :
    (∀ s', s.insert cfgU32 k v = .ok (s', none) →
      Gen32.insert (Imp.dflt kd vd) (s.image cfgU32 kd vd) k v = some (s.image cfgU32 kd vd, none)) ∧
    (∀ s', s.remove k = .ok (s', none) →
      Gen32.remove (Imp.dflt kd vd) (s.image cfgU32 kd vd) k = some (s.image cfgU32 kd vd, none)) := by
  constructor
  · intro s' hi
    have e := tree_insert_refused cfgU32 s s' k v hi
    rw [e] at hi
    exact Gen32.insert_refines kd vd s s h k v none hi
  · intro s' hr
    have e := tree_remove_refused s s' k hr
    rw [e] at hr
    exact Gen32.remove_refines kd vd s s h k none hr

/-- `u8_avl_tree.rs`: when the model refuses an insertion (duplicate key or full tree) resp. a removal (absent key), the
    translated function run on the layout of the state returns that very layout. -/
theorem translated_refusals_u8 (kd : α) (vd : β) (s : Tree α β) (h : s.Inv cfgU8) (k : α) (v : β) :
    (∀ s', s.insert cfgU8 k v = .ok (s', none) →
      Gen8.insert (Imp.dflt kd vd) (s.image cfgU8 kd vd) k v = some (s.image cfgU8 kd vd, none)) ∧
    (∀ s', s.remove k = .ok (s', none) →
      Gen8.remove (Imp.dflt kd vd) (s.image cfgU8 kd vd) k = some (s.image cfgU8 kd vd, none)) := by
  constructor
  · intro s' hi
    have e := tree_insert_refused cfgU8 s s' k v hi
    rw [e] at hi
    exact Gen8.insert_refines kd vd s s h k v none hi
  · intro s' hr
    have e := tree_remove_refused s s' k hr
    rw [e] at hr
    exact Gen8.remove_refines kd vd s s h k none hr

end Stevia.C09
