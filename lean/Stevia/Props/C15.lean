/-
  C15 — pod bool/option and load/load_mut are total, size-transparent views.
-/
import Stevia.Proofs.StrState
import Stevia.Generated.Facts
import Stevia.Proofs.GenPod

namespace Stevia.C15
open Stevia

/-- Every one of the 256 byte values decodes to a bool: zero is false, anything else true. -/
theorem bool_decode_all (b : UInt8) : Pod.boolDecode b = true ↔ b ≠ 0 := Pod.boolDecode_spec b

/-- The predicate written in pod_bool.rs (extracted from the source on this run, both the by-value and
    the by-reference conversion) is the model's. -/
theorem source_predicate_is_model (b : UInt8) :
    Facts.podBoolPred b = Pod.boolDecode b ∧ Facts.podBoolPredRef b = Pod.boolDecode b := by
  simp only [Facts.podBoolPred, Facts.podBoolPredRef, Pod.boolDecode, and_self]

/-- bool → pod → bool is the identity, with encodings 0 and 1. -/
theorem bool_roundtrip (x : Bool) :
    Pod.boolDecode (Pod.boolEncode x) = x ∧ (Pod.boolEncode x = 0 ∨ Pod.boolEncode x = 1) := Pod.bool_roundtrip x

/-- Loading is a pure view of exactly the first `size_of` bytes; a too-short buffer is rejected, not read. -/
theorem load_view (n : Nat) (data : ByteArray) :
    (data.size < n ∧ Pod.load n data = .error .oob) ∨
    (n ≤ data.size ∧ Pod.load n data = .ok (data.extract 0 n) ∧ (data.extract 0 n).size = n) := Pod.load_spec n data

/-- Trailing bytes are ignored. -/
theorem load_ignores_trailing (n : Nat) (d1 d2 : ByteArray) (h1 : n ≤ d1.size) (h2 : n ≤ d2.size)
    (he : d1.extract 0 n = d2.extract 0 n) : Pod.load n d1 = Pod.load n d2 := Pod.load_ignores_trailing n d1 d2 h1 h2 he

/-- Writes through `load_mut` land in the buffer, and only in its first `size_of` bytes. -/
theorem load_mut_writes_through (n : Nat) (data v : ByteArray) (hv : v.size = n) (hd : n ≤ data.size) :
    ∃ d', Pod.storeMut n data v = .ok d' ∧ d'.size = data.size ∧ Pod.load n d' = .ok v ∧
      d'.extract n d'.size = data.extract n data.size := Pod.storeMut_spec n data v hv hd

/-- A pod option occupies exactly the bytes of its inner type (it *is* the inner value), and
    `value()` / `value_mut()` are `Some` exactly when the inner value reports itself as some. -/
theorem option_value (isSome : ByteArray → Bool) (inner : ByteArray) :
    ((Pod.optValue isSome inner).isSome = isSome inner) ∧
    (isSome inner = true → Pod.optValue isSome inner = some inner) := Pod.optValue_spec isSome inner

/-- Tie through the translator (`Stevia.GenPod.*`, regenerated from `pod_bool.rs`, `pod_option.rs` and `lib.rs` on every
    run): the translated conversions, `value`/`value_mut` and `load`/`load_mut` are the model's; `PodOption::new` wraps
    the inner value unchanged, so `new(x).value()` is `Some(x)` whenever `x` is a some-pattern. -/
theorem translated_pod_is_the_model (b : UInt8) (x : Bool) (isSome isNone : ByteArray → Bool) (inner data : ByteArray)
    (n : Nat) :
    GenPod.pod_to_bool b = Pod.boolDecode b ∧ GenPod.pod_ref_to_bool b = Pod.boolDecode b ∧
    GenPod.bool_to_pod x = Pod.boolEncode x ∧ GenPod.bool_ref_to_pod x = Pod.boolEncode x ∧
    GenPod.option_value isSome isNone inner = Pod.optValue isSome inner ∧
    GenPod.option_value_mut isSome isNone inner = Pod.optValue isSome inner ∧
    GenPod.load n data = (Pod.load n data).toOption ∧ GenPod.load_mut n data = (Pod.load n data).toOption ∧
    GenPod.option_new inner = inner ∧
    (isSome inner = true → GenPod.option_value isSome isNone (GenPod.option_new inner) = some inner) :=
  ⟨(GenPod.pod_to_bool_eq b).1, (GenPod.pod_to_bool_eq b).2, (GenPod.bool_to_pod_eq x).1, (GenPod.bool_to_pod_eq x).2,
   (GenPod.option_value_eq isSome isNone inner).1, (GenPod.option_value_eq isSome isNone inner).2, (GenPod.load_eq n data).1,
   (GenPod.load_eq n data).2, rfl,
   fun h => by
     have e : GenPod.option_new inner = inner := rfl
     rw [e, (GenPod.option_value_eq isSome isNone inner).1]
     exact (Pod.optValue_spec isSome inner).2 h⟩

end Stevia.C15
