/-
  C11 — every str handed out by the safe API is valid UTF-8.
-/
import Stevia.Proofs.StrState
import Stevia.Proofs.GenStr

namespace Stevia.C11
open Stevia

/-- Buffers behind a handle of the safe prefixed-string API: obtained from `new` returning `Ok`,
    then any sequence of `copy_from_str` (deref / deref_mut / as_str hand out the payload). -/
inductive Safe (w P : Nat) : ByteArray → Prop where
  | new (buf b' : ByteArray) (h : PStr.new w P buf = .ok (b', true)) : Safe w P b'
  | copy (b : ByteArray) (s : String) (h : Safe w P b) : Safe w P (PStr.copyFromStr w b s)

/-- In every state reachable through the safe API — any buffer size, any sequence of copies, in
    particular after copying a string that does not fit and has to be cut — the string handed
    out (the payload) is valid UTF-8. -/
theorem prefix_str_valid (w P : Nat) (hP : P < 256 ^ w) (b : ByteArray) (h : Safe w P b) :
    (PStr.payload w b).IsValidUTF8 ∧ w ≤ b.size ∧ PStr.recLen w b ≤ b.size - w := by
  induction h with
  | new buf b' h =>
    rcases PStr.new_spec w P hP buf with ⟨_, h2⟩ | ⟨hw, b2, r, h2, hs, hl, _, _, hv⟩
    · rw [h2] at h; cases h
    · rw [h2] at h
      cases h
      refine ⟨hv.1 rfl, by omega, ?_⟩
      rw [hl, hs]; exact Nat.min_le_left _ _
  | copy b s _ ih =>
    obtain ⟨_, hw, hl⟩ := ih
    have hc := PStr.copy_spec w b s hw hl
    refine ⟨PStr.copy_valid w b s hw hl, by rw [hc.1]; exact hw, ?_⟩
    rw [hc.2.1, hc.1]; exact hl

/-- The two widths of the crate. -/
theorem u8_prefix_str_valid (b : ByteArray) (h : Safe 1 255 b) : (PStr.payload 1 b).IsValidUTF8 :=
  (prefix_str_valid 1 255 (by decide) b h).1

theorem u16_prefix_str_valid (b : ByteArray) (h : Safe 2 65535 b) : (PStr.payload 2 b).IsValidUTF8 :=
  (prefix_str_valid 2 65535 (by decide) b h).1

/-- Loading from arbitrary bytes: `Ok` exactly for a valid payload (and then the string is the
    payload), refused with an error otherwise. -/
theorem load_ok_iff_valid (w : Nat) (buf : ByteArray) (hw : w ≤ buf.size) (hl : PStr.recLen w buf ≤ buf.size - w) :
    ((PStr.payload w buf).IsValidUTF8 → PStr.fromBytes w buf = .ok (some (PStr.payload w buf))) ∧
    (¬ (PStr.payload w buf).IsValidUTF8 → PStr.fromBytes w buf = .ok none) := by
  obtain ⟨h1, h2⟩ := PStr.fromBytes_spec w buf hw hl
  constructor
  · intro hv; rw [h1, if_pos (h2.2 hv)]
  · intro hv
    rw [h1, if_neg (fun h => hv (h2.1 h))]

/-- `new` is `Ok` exactly for a valid payload area. -/
theorem new_ok_iff_valid (w P : Nat) (hP : P < 256 ^ w) (buf b' : ByteArray) (r : Bool)
    (h : PStr.new w P buf = .ok (b', r)) : r = true ↔ (PStr.payload w b').IsValidUTF8 := by
  rcases PStr.new_spec w P hP buf with ⟨_, h2⟩ | ⟨_, b2, r2, h2, _, _, _, _, hv⟩
  · rw [h2] at h; cases h
  · rw [h2] at h; cases h; exact hv

/-- `PodStr::as_str` over arbitrary bytes: whatever it returns as `Ok` is valid UTF-8 (the text before
    the first NUL), and it is an error exactly when that text is not valid. -/
theorem pod_str_as_str (v : ByteArray) :
    (PodStr.asStr v = some (PodStr.text v) ∧ (PodStr.text v).IsValidUTF8) ∨
    (PodStr.asStr v = none ∧ ¬ (PodStr.text v).IsValidUTF8) := PodStr.asStr_spec v

/-- Non-vacuity: `new` over a 3-byte zero buffer succeeds structurally (size kept, length 2 recorded). -/
example : ∃ b' r, PStr.new 1 255 (zerosBA 3) = .ok (b', r) ∧ b'.size = 3 ∧ PStr.recLen 1 b' = 2 := by
  rcases PStr.new_spec 1 255 (by decide) (zerosBA 3) with ⟨h1, _⟩ | ⟨_, b2, r2, h2, hs, hl, _⟩
  · rw [zerosBA_size] at h1; omega
  · refine ⟨b2, r2, h2, ?_, ?_⟩
    · rw [hs, zerosBA_size]
    · rw [hl, zerosBA_size]; decide

/-! ### Tie through the translator

`Stevia.GenP.*` / `Stevia.GenS.*` are regenerated from `prefix_str.rs` / `pod_str.rs` on every run. -/

/-- The translated constructors and loaders are the model's: `from_bytes` and `new` answer `Ok` exactly when the model
    does, panic (`none`) exactly where it faults, and the string `new` hands out is the payload of the buffer it
    leaves; `PodStr::as_str` is the model's `asStr`. -/
theorem translated_source_is_the_model (W P N : Nat) (hP : P < 256 ^ W) (bytes : ByteArray) :
    GenP.from_bytes W P N bytes = (PStr.fromBytes W bytes).toOption ∧
    (GenP.new W P N bytes).map (fun r => (r.1, r.2.isSome)) = (PStr.new W P bytes).toOption ∧
    (∀ d' v, GenP.new W P N bytes = some (d', some v) → v = PStr.payload W d') ∧
    (bytes.size = N → GenS.as_str W P N bytes = some (PodStr.asStr bytes)) :=
  ⟨GenP.from_bytes_eq W P N bytes, GenP.new_eq W P N hP bytes, fun d' v h => GenP.new_value W P N hP bytes d' v h,
   fun hv => GenS.as_str_eq W P N bytes hv⟩

/-- Whatever the translated `new` hands out as `Ok` is valid UTF-8. -/
theorem translated_new_valid (W P N : Nat) (hP : P < 256 ^ W) (data d' v : ByteArray)
    (h : GenP.new W P N data = some (d', some v)) : v.IsValidUTF8 := by
  have hv := GenP.new_value W P N hP data d' v h
  have he := GenP.new_eq W P N hP data
  rw [h] at he
  cases hn : PStr.new W P data with
  | error e => rw [hn] at he; cases he
  | ok pr =>
    obtain ⟨b', r⟩ := pr
    rw [hn] at he
    simp only [Option.map_some, Option.isSome_some, Except.toOption, Option.some.injEq, Prod.mk.injEq] at he
    obtain ⟨h1, h2⟩ := he
    subst h1
    rw [hv]
    exact (new_ok_iff_valid W P hP data d' r hn).1 h2.symm

/-- `copy_from_str` through the translated code: the payload afterwards, put back between prefix and trailing
    bytes, is the model's buffer (whose payload is valid UTF-8 by `prefix_str_valid`). -/
theorem translated_copy_is_the_model (W P N : Nat) (buf : ByteArray) (s : String)
    (hw : W + PStr.recLen W buf ≤ buf.size) :
    ∃ v, GenP.copy_from_str W P N (PStr.payload W buf) s = some v ∧
      PStr.copyFromStr W buf s = buf.extract 0 W ++ v ++ buf.extract (W + PStr.recLen W buf) buf.size :=
  GenP.copy_from_str_eq W P N buf s hw

/-- The accessors through the translator: `Deref`, `DerefMut` and `as_str` of the prefixed strings hand out the payload
    bytes as they are — no check, no copy (`DerefMut` leaves them in place) — so in every state reachable through the safe
    API what they hand out is valid UTF-8 by `prefix_str_valid`; `PodStr::as_str_unchecked` (unsafe, outside the
    property) is the unvalidated text, and `PodStr::default()` is all zero, whose text is empty. -/
theorem translated_accessors_hand_out_the_payload (W P N : Nat) (hP : P < 256 ^ W) (b : ByteArray) (h : Safe W P b) :
    GenP.deref W P N (PStr.payload W b) = some (PStr.payload W b) ∧
    GenP.as_str W P N (PStr.payload W b) = some (PStr.payload W b) ∧
    GenP.deref_mut W P N (PStr.payload W b) = some (PStr.payload W b, PStr.payload W b) ∧
    (PStr.payload W b).IsValidUTF8 ∧
    (∀ v : ByteArray, v.size = N → GenS.as_str_unchecked W P N v = some (PodStr.text v)) ∧
    GenS.default_value W P N = some (zerosBA N) :=
  ⟨rfl, rfl, rfl, (prefix_str_valid W P hP b h).1, fun v hv => GenS.as_str_unchecked_eq W P N v hv, rfl⟩

end Stevia.C11
