/-
  C06 — lookups stay logarithmic: AVL balance in every reachable state; binary
  search in array sets.
-/
import Stevia.Proofs.TreeState
import Stevia.Proofs.ArraySetState
import Stevia.Proofs.ExecInv
import Stevia.Generated.Facts
import Stevia.Proofs.GenTreeBal32
import Stevia.Proofs.GenTreeBal8

namespace Stevia.C06
open Stevia
variable {α β : Type} [LinOrd α]

/-- In every reachable state (any history of insertions, removals, updates,
    re-opening and buffer growth) the two subtrees of every node differ in
    height by at most one and every stored height register is exact. -/
theorem reach_bal (c : TreeCfg) (s : Tree α β) (h : Tree.Reach c s) : s.root.Bal :=
  (Tree.reach_inv h).bal

/-- The height is at most the greatest height a height-balanced tree with that many
    entries can have: `minNodes (height) ≤ entries`. -/
theorem height_bound (c : TreeCfg) (s : Tree α β) (h : Tree.Reach c s) :
    minNodes s.root.height ≤ s.size := by
  have hi := Tree.reach_inv h
  rw [hi.size_eq, ← T.ht_eq_height hi.bal]
  exact T.minNodes_le_size hi.bal

/-- Closed form: `2^(height/2) ≤ entries + 1`, i.e. `height ≤ 2·log2(entries + 1)` (the exact bound is
    `minNodes`, ≈ 1.44·log2(n+2)). -/
theorem height_closed_form (c : TreeCfg) (s : Tree α β) (h : Tree.Reach c s) :
    2 ^ (s.root.height / 2) ≤ s.size + 1 := Tree.height_closed_form c s h

/-- A lookup, insertion or removal compares the sought key only with the keys of one
    root-to-leaf path (`T.path` follows exactly one child per node), whose length is
    bounded by that height. -/
theorem comparisons_bound (c : TreeCfg) (s : Tree α β) (h : Tree.Reach c s) (k : α) :
    (s.root.path k).length ≤ s.root.height ∧ minNodes s.root.height ≤ s.size :=
  ⟨T.path_length_le s.root k, height_bound c s h⟩

/-- `minNodes` is attained: the bound is exactly the greatest height a height-balanced tree of
    that size can have. -/
def fibT : Nat → T Unit Unit
  | 0 => .nil
  | 1 => .node 0 .nil () () 0 .nil
  | h + 2 => .node 0 (fibT (h + 1)) () () (h + 1) (fibT h)

theorem fibT_spec (h : Nat) : (fibT h).Bal ∧ (fibT h).ht = h ∧ (fibT h).size = minNodes h := by
  induction h using Nat.strongRecOn with
  | _ h ih =>
    match h with
    | 0 => simp [fibT, T.Bal, T.ht, T.size, minNodes]
    | 1 => simp [fibT, T.Bal, T.ht, T.size, minNodes]
    | h + 2 =>
      obtain ⟨b1, h1, s1⟩ := ih (h + 1) (by omega)
      obtain ⟨b0, h0, s0⟩ := ih h (by omega)
      refine ⟨?_, ?_, ?_⟩
      · simp only [fibT, T.Bal]
        refine ⟨b1, b0, ?_, ?_, ?_⟩ <;> (rw [h1, h0]; omega)
      · simp [fibT, T.ht]
      · simp only [fibT, T.size, s1, s0, minNodes]; omega

/-- Numeric consequences used for the height casts of the code: an 8-bit tree
    (at most 255 entries) has height at most 11. -/
theorem height_le_of_size_le_255 (c : TreeCfg) (s : Tree α β) (h : Tree.Reach c s) (hs : s.size ≤ 255) :
    s.root.height ≤ 11 := by
  have hb := height_bound c s h
  refine Decidable.by_contra fun hn => ?_
  have h12 : 12 ≤ s.root.height := by omega
  have mono : ∀ a b, a ≤ b → minNodes a ≤ minNodes b := by
    intro a b hab
    induction hab with
    | refl => exact Nat.le_refl _
    | step _ ih => exact Nat.le_trans ih (T.minNodes_mono _)
  have := mono 12 _ h12
  have h376 : minNodes 12 = 376 := by decide
  omega

omit [LinOrd α] in
/-- Array-set lookups: a lookup among `n ≥ 1` elements compares the sought value with at
    most `⌊log2 n⌋ + 1` elements (`2^(probes-1) ≤ n`) — one fewer than the
    `⌈log2(n+1)⌉ + 1` the property allows — and with none when the set is empty. -/
theorem array_probe_bound {κ : Type} [LinOrd κ] {key : α → κ} {P : Nat} {s : ASet α}
    (h : s.Inv key P) (x : κ) {r : Idx} {ps : List Nat} (hi : s.indexP key x = .ok (r, ps)) :
    ps.length = 0 ∨ 2 ^ (ps.length - 1) ≤ s.len :=
  ASet.probe_bound h x hi

/-- The conditions under which `rebalance` rotates, as written in both source files (extracted on
    this run), are the ones of the model's `T.rebal`: with `bf = ht l - ht r` the code rotates right iff
    `bf > 1` (model: `ht r + 1 < ht l`), rotates the left child first iff its factor is `< 0` (model:
    `ht l.left < ht l.right`), and symmetrically. Robust to equivalent rewrites (`1 < bf`, `bf >= 2`). -/
theorem source_rebalance_conditions_are_the_models (l r ll lr rl rr : Nat) :
    (Facts.tree32HeavyLeft ((l : Int) - r) = decide (r + 1 < l)) ∧
    (Facts.tree32LeftChildRightHeavy ((ll : Int) - lr) = decide (ll < lr)) ∧
    (Facts.tree32HeavyRight ((l : Int) - r) = decide (l + 1 < r)) ∧
    (Facts.tree32RightChildLeftHeavy ((rl : Int) - rr) = decide (rr < rl)) ∧
    (Facts.tree8HeavyLeft ((l : Int) - r) = decide (r + 1 < l)) ∧
    (Facts.tree8LeftChildRightHeavy ((ll : Int) - lr) = decide (ll < lr)) ∧
    (Facts.tree8HeavyRight ((l : Int) - r) = decide (l + 1 < r)) ∧
    (Facts.tree8RightChildLeftHeavy ((rl : Int) - rr) = decide (rr < rl)) := by
  simp only [Facts.tree32HeavyLeft, Facts.tree32LeftChildRightHeavy, Facts.tree32HeavyRight,
    Facts.tree32RightChildLeftHeavy, Facts.tree8HeavyLeft, Facts.tree8LeftChildRightHeavy,
    Facts.tree8HeavyRight, Facts.tree8RightChildLeftHeavy, decide_eq_decide]
  omega

/-- Non-vacuity: the Fibonacci tree of height 4 is balanced with 7 nodes. -/
example : (fibT 4).Bal ∧ (fibT 4).size = 7 := ⟨(fibT_spec 4).1, by decide⟩

/-! ### Tie through the translator: the rebalancing code of the source is the literal model's -/

/-- `avl_tree.rs`: the translated `balance_factor`, rotations, `update_child`/`update_height` and the bottom-up `rebalance`
    loop are the literal model's (whose effect on a represented tree is `T.rebal` along the path,
    `Proofs/TreeImpLoop.rebalance_loop`). -/
theorem translated_rebalance_u32 (d : Rec α β) (m : TreeImage α β) :
    (∀ path, Gen32.rebalance d m path = Imp.rebalance d m path) ∧
    (∀ l r, Gen32.balance_factor d m l r = Imp.balanceFactor d m l r) ∧
    (∀ i, Gen32.left_rotate d m i = Imp.leftRotate d m i) ∧
    (∀ i, Gen32.right_rotate d m i = Imp.rightRotate d m i) ∧
    (∀ p b ch, Gen32.update_child d m p b ch = Imp.updateChild d m p b ch) ∧
    (∀ i, Gen32.update_height d m i = Imp.updateHeight d m i) :=
  ⟨Gen32.rebalance_eq d m, Gen32.balance_factor_eq d m, Gen32.left_rotate_eq d m, Gen32.right_rotate_eq d m,
   Gen32.update_child_eq d m, Gen32.update_height_eq d m⟩

/-- `u8_avl_tree.rs`: the translated `balance_factor`, rotations, `update_child`/`update_height` and the bottom-up `rebalance`
    loop are the literal model's (whose effect on a represented tree is `T.rebal` along the path,
    `Proofs/TreeImpLoop.rebalance_loop`). -/
theorem translated_rebalance_u8 (d : Rec α β) (m : TreeImage α β) :
    (∀ path, Gen8.rebalance d m path = Imp.rebalance d m path) ∧
    (∀ l r, Gen8.balance_factor d m l r = Imp.balanceFactor d m l r) ∧
    (∀ i, Gen8.left_rotate d m i = Imp.leftRotate d m i) ∧
    (∀ i, Gen8.right_rotate d m i = Imp.rightRotate d m i) ∧
    (∀ p b ch, Gen8.update_child d m p b ch = Imp.updateChild d m p b ch) ∧
    (∀ i, Gen8.update_height d m i = Imp.updateHeight d m i) :=
  ⟨Gen8.rebalance_eq d m, Gen8.balance_factor_eq d m, Gen8.left_rotate_eq d m, Gen8.right_rotate_eq d m,
   Gen8.update_child_eq d m, Gen8.update_height_eq d m⟩

end Stevia.C06
