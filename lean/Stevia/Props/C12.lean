/-
  C12 — operations are total at the edges; an all-zero buffer reads as empty.
  The model returns `Except.error` exactly where the Rust code has checked
  arithmetic, `% capacity`, an explicit `panic!` or a bounds-checked index; the
  theorems say none of these is reachable in an accepted configuration.
-/
import Stevia.Proofs.TreeState
import Stevia.Proofs.HashSetState
import Stevia.Proofs.ArraySetState
import Stevia.Props.C06
import Stevia.Proofs.ExecInv
import Stevia.Proofs.GenASetRefine
import Stevia.Proofs.GenTreeRefine32
import Stevia.Proofs.GenTreeRefine8

namespace Stevia.C12
open Stevia
variable {α β : Type} [LinOrd α]

/-- No tree operation faults in any reachable state of any accepted configuration:
    every capacity `0 ≤ cap ≤ records ≤ W` (8-bit: up to 255 records; 32-bit: fewer than
    2^32-1), full and empty trees, any keys. -/
theorem tree_no_fault (c : TreeCfg) (s : Tree α β) (h : Tree.Reach c s) (op : TreeOp α β) (hok : op.ok c s) :
    ∃ s', s.step c op = .ok s' ∧ Tree.Reach c s' := by
  obtain ⟨s', h1, _⟩ := Tree.step_ok (Tree.reach_inv h) op hok
  exact ⟨s', h1, Tree.Reach.step op h hok h1⟩

/-- … in particular for the edge capacities 0, 1, 2 and the 8-bit maximum 255. -/
theorem tree_edge_configs_accepted :
    (∀ n, n ≤ 255 → Tree.Reach cfgU8 (Tree.init n n : Tree α β)) ∧
    (∀ n, n < 4294967295 → Tree.Reach cfgU32 (Tree.init n n : Tree α β)) :=
  ⟨fun n hn => Tree.Reach.init n n (Nat.le_refl n) hn (Or.inl rfl),
   fun n hn => Tree.Reach.init n n (Nat.le_refl n) (Nat.le_of_lt hn) (Or.inr hn)⟩

/-- The height casts (`as i8`, `as i32`) cannot overflow: an 8-bit tree has height ≤ 11. -/
theorem tree_height_cast_u8 (s : Tree α β) (h : Tree.Reach cfgU8 s) : s.root.height ≤ 11 := by
  have hi := Tree.reach_inv h
  have h1 : s.size ≤ 255 := by
    have h1 := hi.count; have h2 := hi.seq_le; have h3 := hi.size_eq; have h4 := hi.cap_le
    have hw := hi.slots_le
    rw [T.size_eq_length] at h3
    simp only [List.length_append, T.slots, List.length_map, cfgU8] at *
    omega
  exact C06.height_le_of_size_le_255 cfgU8 s h h1

/-- A buffer that is still all zero reads as an empty tree through every read-only query. -/
theorem tree_zero_reads_empty (n : Nat) (k : α) :
    (Tree.zero n : Tree α β).get k = none ∧ (Tree.zero n : Tree α β).contains k = false ∧
    (Tree.zero n : Tree α β).lowest = none ∧ (Tree.zero n : Tree α β).len = 0 ∧
    (Tree.zero n : Tree α β).isEmpty = true ∧ (Tree.zero n : Tree α β).capacity = 0 :=
  ⟨rfl, rfl, rfl, rfl, rfl, rfl⟩

/-- Hash set: no operation faults on a well-formed state (capacity 0 included), for any hash. -/
theorem hset_no_fault {γ : Type} [DecidableEq γ] (hash : γ → Nat) (s : HSet γ) (h : s.Inv hash) (op : SetOp γ) :
    ∃ s' o, s.setStep hash op = .ok (s', o) := by
  obtain ⟨s', h1, _⟩ := HSet.setStep_refines h s.members (List.Perm.refl _) op
  exact ⟨s', _, h1⟩

theorem hset_no_fault_reachable {γ : Type} [DecidableEq γ] (hash : γ → Nat) (s : HSet γ) (h : HSet.Reach hash s)
    (op : SetOp γ) : ∃ s' o, s.setStep hash op = .ok (s', o) := hset_no_fault hash s (HSet.reach_inv h) op

theorem hset_edge_configs_accepted {γ : Type} [DecidableEq γ] (hash : γ → Nat) (n : Nat) (hn : n < 4294967295) :
    (HSet.init n n : HSet γ).Inv hash := HSet.inv_init hash n n (Nat.le_refl n) hn

/-- An all-zero hash-set buffer reads as empty: `contains` is false without fault, sizes are 0,
    iteration yields nothing. -/
theorem hset_zero_reads_empty {γ : Type} [DecidableEq γ] (hash : γ → Nat) (n : Nat) (v : γ) :
    (HSet.zero n : HSet γ).contains hash v = .ok false ∧ (HSet.zero n : HSet γ).size = 0 ∧
    (HSet.zero n : HSet γ).isEmpty = true ∧ (HSet.zero n : HSet γ).iter = [] := by
  refine ⟨rfl, rfl, rfl, ?_⟩
  simp [HSet.iter, HSet.zero]

/-- Array set: no operation faults on a well-formed set, for every slot count (0 included) and
    every prefix width (`P`), and a zero-filled buffer is the (well-formed) empty set. -/
theorem aset_no_fault {κ : Type} [LinOrd κ] {key : α → κ} {P : Nat} {s : ASet α} (h : s.Inv key P)
    (op : ASOp α κ) : ∃ s' o, s.opStep key P op = .ok (s', o) := by
  obtain ⟨s', h1, _⟩ := ASet.opStep_refines h op
  exact ⟨s', _, h1⟩


theorem aset_no_fault_reachable {κ : Type} [LinOrd κ] {key : α → κ} {P : Nat} {d : α} {s : ASet α}
    (h : ASet.Reach key P d s) (op : ASOp α κ) : ∃ s' o, s.opStep key P op = .ok (s', o) :=
  aset_no_fault (ASet.reach_inv h) op

theorem aset_zero_is_empty {κ : Type} [LinOrd κ] (key : α → κ) (P : Nat) (d : α) (n : Nat) :
    ({ len := 0, vals := List.replicate n d } : ASet α).Inv key P ∧
    ({ len := 0, vals := List.replicate n d } : ASet α).view = [] :=
  ⟨ASet.inv_zero key P d n, by simp [ASet.view]⟩

/-- Tie through the translator: in the *translated* `array_set.rs` (`Stevia.GenA.*`, regenerated on every run; a
    failing bounds check, an out-of-range raw copy or a panic is `none`) every operation returns normally in every
    reachable state, for every slot count and every prefix width. -/
theorem translated_array_set_total {κ : Type} [LinOrd κ] {key : α → κ} {P : Nat} {d : α} {s : ASet α}
    (h : ASet.Reach key P d s) (x : α) :
    (GenA.insert key P s x).isSome ∧ (GenA.take key P s x).isSome ∧ (GenA.get key P s x).isSome ∧
    (GenA.contains key P s x).isSome := by
  have hi := ASet.reach_inv h
  obtain ⟨_, _, h1, _⟩ := GenA.insert_refines hi x
  obtain ⟨_, _, h2, _⟩ := GenA.take_refines hi x
  obtain ⟨h3, h4⟩ := GenA.get_refines hi x
  rw [h1, h2, h3, h4]
  exact ⟨rfl, rfl, rfl, rfl⟩

/-! ### Tie through the translator: the code as written neither panics nor loops on

A translated function (`Stevia.Gen32.*`, `Stevia.Gen8.*`, regenerated from the tree files on every run) answers `none`
where the Rust panics (`add`'s "tree is full") and where a `while`/`loop` does not leave by its own condition within
`records + 1` iterations. -/

/-- `avl_tree.rs`: in every reachable state every translated operation returns normally. -/
theorem translated_tree_total_u32 (kd : α) (vd : β) (s : Tree α β) (h : Tree.Reach cfgU32 s) (k : α) (v : β) :
    (Gen32.insert (Imp.dflt kd vd) (Gen32.from_bytes_mut (Imp.dflt kd vd) (s.image cfgU32 kd vd)) k v).isSome ∧
    (Gen32.remove (Imp.dflt kd vd) (Gen32.from_bytes_mut (Imp.dflt kd vd) (s.image cfgU32 kd vd)) k).isSome ∧
    (Gen32.find (Imp.dflt kd vd) (s.image cfgU32 kd vd) k).isSome ∧
    (Gen32.contains (Imp.dflt kd vd) (s.image cfgU32 kd vd) k).isSome ∧
    (Gen32.lowest (Imp.dflt kd vd) (s.image cfgU32 kd vd)).isSome ∧
    (Gen32.get_mut (Imp.dflt kd vd) (s.image cfgU32 kd vd) k).isSome := by
  have hi := Tree.reach_inv h
  obtain ⟨_, _, _, _, e1⟩ := Gen32.transition_insert kd vd s h k v
  obtain ⟨_, _, _, _, e2⟩ := Gen32.transition_remove kd vd s h k
  have e6 := Gen32.get_mut_refines kd vd s hi k v
  refine ⟨by rw [e1]; rfl, by rw [e2]; rfl, by rw [Gen32.find_refines kd vd s hi k]; rfl,
    by rw [Gen32.contains_refines kd vd s hi k]; rfl, by rw [Gen32.lowest_refines kd vd s hi]; rfl, ?_⟩
  cases hg : Gen32.get_mut (Imp.dflt kd vd) (s.image cfgU32 kd vd) k with
  | none => rw [hg] at e6; cases e6
  | some _ => rfl

/-- `u8_avl_tree.rs`: in every reachable state every translated operation returns normally. -/
theorem translated_tree_total_u8 (kd : α) (vd : β) (s : Tree α β) (h : Tree.Reach cfgU8 s) (k : α) (v : β) :
    (Gen8.insert (Imp.dflt kd vd) (Gen8.from_bytes_mut (Imp.dflt kd vd) (s.image cfgU8 kd vd)) k v).isSome ∧
    (Gen8.remove (Imp.dflt kd vd) (Gen8.from_bytes_mut (Imp.dflt kd vd) (s.image cfgU8 kd vd)) k).isSome ∧
    (Gen8.find (Imp.dflt kd vd) (s.image cfgU8 kd vd) k).isSome ∧
    (Gen8.contains (Imp.dflt kd vd) (s.image cfgU8 kd vd) k).isSome ∧
    (Gen8.lowest (Imp.dflt kd vd) (s.image cfgU8 kd vd)).isSome ∧
    (Gen8.get_mut (Imp.dflt kd vd) (s.image cfgU8 kd vd) k).isSome := by
  have hi := Tree.reach_inv h
  obtain ⟨_, _, _, _, e1⟩ := Gen8.transition_insert kd vd s h k v
  obtain ⟨_, _, _, _, e2⟩ := Gen8.transition_remove kd vd s h k
  have e6 := Gen8.get_mut_refines kd vd s hi k v
  refine ⟨by rw [e1]; rfl, by rw [e2]; rfl, by rw [Gen8.find_refines kd vd s hi k]; rfl,
    by rw [Gen8.contains_refines kd vd s hi k]; rfl, by rw [Gen8.lowest_refines kd vd s hi]; rfl, ?_⟩
  cases hg : Gen8.get_mut (Imp.dflt kd vd) (s.image cfgU8 kd vd) k with
  | none => rw [hg] at e6; cases e6
  | some _ => rfl

end Stevia.C12
