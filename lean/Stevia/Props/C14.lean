/-
  C14 — pod strings: NUL-padded fixed buffer that round-trips every fitting string.
-/
import Stevia.Proofs.StrState
import Stevia.Proofs.GenStr

namespace Stevia.C14
open Stevia

/-- A pod string built from `s` (by conversion, or by copying over any previous content — the result
    is a function of `s` alone) has exactly `N` bytes: the first `min(len(s), N)` bytes of `s`, then zeros. -/
theorem from_spec (N : Nat) (s : String) :
    (PodStr.ofStr N s).size = N ∧
    ∀ i, i < N → (PodStr.ofStr N s).toList[i]? =
      some (if h : i < s.toByteArray.size then s.toByteArray[i] else 0) :=
  ⟨PodStr.ofBytes_size N _, fun i hi => PodStr.ofBytes_get N _ i hi⟩

/-- `as_str()` returns `s` itself whenever `s` fits and contains no NUL (`N = 0` and exact fit included). -/
theorem roundtrip (N : Nat) (s : String) (hfit : s.utf8ByteSize ≤ N) (hnul : ∀ c ∈ s.toList, c ≠ Char.ofNat 0) :
    PodStr.asStr (PodStr.ofStr N s) = some s.toByteArray := PodStr.asStr_roundtrip N s hfit hnul

/-- `as_str()` is total over arbitrary bytes: the text up to the first NUL, or an error iff that is not UTF-8. -/
theorem as_str_total (v : ByteArray) :
    (PodStr.asStr v = some (PodStr.text v) ∧ (PodStr.text v).IsValidUTF8) ∨
    (PodStr.asStr v = none ∧ ¬ (PodStr.text v).IsValidUTF8) := PodStr.asStr_spec v

/-- The text is everything before the first NUL (it contains none, and is followed by one or by the end). -/
theorem text_is_before_first_nul (v : ByteArray) :
    PodStr.endIndex v ≤ v.size ∧ (∀ i, i < PodStr.endIndex v → v.toList[i]? ≠ some 0) ∧
    (PodStr.endIndex v < v.size → v.toList[PodStr.endIndex v]? = some 0) := PodStr.text_spec v

/-- `Display` renders that same text rather than the padding. -/
theorem display_is_text (v t : ByteArray) (h : PodStr.asStr v = some t) : PodStr.display v = some t :=
  PodStr.display_eq v t h

/-- Loading from the value's own bytes yields an equal value. -/
theorem load_own_bytes (N : Nat) (v : ByteArray) (hv : v.size = N) : Pod.load N v = .ok v := by
  rcases Pod.load_spec N v with ⟨h1, _⟩ | ⟨_, h2, _⟩
  · omega
  · rw [h2, ← hv, ByteArray.extract_zero_size]

/-- Tie through the translator (`Stevia.GenS.*`, regenerated from `pod_str.rs` on every run): the translated
    `From<&str>`, `copy_from_slice`, `copy_from_str` and `as_str` are the model's `ofStr` / `ofBytes` / `asStr` (they
    never panic on a value of `N` bytes). -/
theorem translated_pod_str_is_the_model (W P N : Nat) (v src : ByteArray) (hv : v.size = N) (s : String) :
    GenS.from_str W P N s = some (PodStr.ofStr N s) ∧
    GenS.copy_from_slice W P N v src = some (PodStr.ofBytes N src) ∧
    GenS.copy_from_str W P N v s = some (PodStr.ofStr N s) ∧
    GenS.as_str W P N v = some (PodStr.asStr v) :=
  ⟨GenS.from_str_eq W P N s, GenS.copy_from_slice_eq W P N v hv src, GenS.copy_from_str_eq W P N v hv s,
   GenS.as_str_eq W P N v hv⟩

/-- `Display` through the translator: the translated `fmt` hands the formatter `from_utf8_lossy(text)` in one piece,
    never fails on a value of `N` bytes, and — `from_utf8_lossy` being the identity on valid UTF-8, the one assumption about
    the standard library, stated as the hypothesis `hl` — renders exactly what `as_str()` returns whenever that is `Ok`:
    the text, not the NUL padding. -/
theorem translated_display_is_text (W P N : Nat) (lossy : ByteArray → ByteArray)
    (hl : ∀ b : ByteArray, b.validateUTF8 = true → lossy b = b) (v : ByteArray) (hv : v.size = N) :
    GenS.fmt W P N lossy v = some (lossy (PodStr.text v)) ∧
    (∀ t, PodStr.asStr v = some t → GenS.fmt W P N lossy v = some t) := by
  refine ⟨GenS.fmt_eq W P N lossy v hv, ?_⟩
  intro t ht
  rw [GenS.fmt_eq W P N lossy v hv]
  unfold PodStr.asStr at ht
  split at ht
  · rename_i hval
    cases ht
    rw [hl _ hval]
  · cases ht

end Stevia.C14
