/-
  C07 — exactly `capacity` entries fit, whatever the history.
-/
import Stevia.Proofs.TreeState
import Stevia.Proofs.HashSetState
import Stevia.Proofs.GenTreeAlloc32
import Stevia.Proofs.GenTreeAlloc8

namespace Stevia.C07
open Stevia
variable {α β : Type} [LinOrd α]

/-- From every reachable tree state (opened, i.e. capacity = records) with capacity `c`
    and `n` entries, exactly `c - n` further distinct new entries can be inserted — each
    succeeds without fault — and then every further insertion is refused. -/
theorem tree_fill (c : TreeCfg) (s : Tree α β) (h : Tree.Reach c s) (kvs : List (α × β))
    (hnd : (kvs.map (·.1)).Pairwise (fun a b => a < b ∨ b < a))
    (hfresh : ∀ e ∈ kvs, s.root.find e.1 = none)
    (hlen : kvs.length + s.size = s.cap) :
    ∃ s', s.insertAll c kvs = some s' ∧ s'.size = s'.cap ∧ s'.cap = s.cap ∧
      ∀ k v, s'.insert c k v = .ok (s', none) := by
  obtain ⟨s', h1, _, h3, h4, h5⟩ := Tree.fill_spec (Tree.reach_inv h) kvs hnd hfresh hlen
  exact ⟨s', h1, h3, h4, h5⟩

/-- `is_full` is true exactly when `n = c`. -/
theorem tree_isFull_iff (c : TreeCfg) (s : Tree α β) (h : Tree.Reach c s) :
    s.isFull = true ↔ s.size = s.cap := by
  have hi := Tree.reach_inv h
  have h1 : s.size ≤ s.cap := by
    have := hi.count; have := hi.seq_le; have := hi.size_eq
    rw [T.size_eq_length] at this
    simp only [List.length_append, T.slots, List.length_map] at *
    omega
  simp only [Tree.isFull, decide_eq_true_eq]
  omega

/-- Storage is never handed out twice: the slot an insertion returns was not in use. -/
theorem tree_slot_fresh (c : TreeCfg) (s s' : Tree α β) (h : Tree.Reach c s) (k : α) (v : β) (i : Nat)
    (hi : s.insert c k v = .ok (s', some i)) : i ∉ s.root.slots ∧ 1 ≤ i ∧ i ≤ s.slots := by
  rcases Tree.insert_spec (Tree.reach_inv h) k v with ⟨_, h2⟩ | ⟨_, _, s2, i2, h2, _, _, h5, h6, h7, _⟩
  · rw [h2] at hi; cases hi
  · rw [h2] at hi
    cases hi
    exact ⟨h5, h6, h7⟩

/-- Storage released by a removal is reusable: it is the very next slot handed out. -/
theorem tree_released_reused (c : TreeCfg) (s s' : Tree α β) (h : Tree.Reach c s) (k : α) (i : Nat) (v : β)
    (hf : s.root.find k = some (i, v)) (hr : s.remove k = .ok (s', some v)) (k' : α) (v' : β)
    (hk : s'.root.find k' = none) : ∃ s'', s'.insert c k' v' = .ok (s'', some i) :=
  Tree.free_reused (Tree.reach_inv h) hf hr k' v' hk

/-- Hash set: exactly `cap - size` further new values fit, for every hash function. -/
theorem hset_fill {γ : Type} [DecidableEq γ] (hash : γ → Nat) (s : HSet γ) (h : s.Inv hash) (vs : List γ)
    (hnd : vs.Nodup) (hfresh : ∀ v ∈ vs, v ∉ s.members) (hlen : vs.length + s.size = s.cap) :
    ∃ s', s.insertAll hash vs = some s' ∧ s'.size = s'.cap ∧ s'.cap = s.cap ∧
      ∀ v, s'.insert hash v = .ok (s', false) := by
  obtain ⟨s', h1, _, h3, h4, h5⟩ := HSet.fill_spec h vs hnd hfresh hlen
  exact ⟨s', h1, h3, h4, h5⟩

/-! ### Tie through the translator: the allocator of the source is the literal model's -/

/-- `avl_tree.rs`: the translated `add` (free list first, else the sequence cursor; `none` = the "tree is full" panic) and
    `remove_node` are the literal model's allocator. -/
theorem translated_allocator_u32 (d : Rec α β) (m : TreeImage α β) :
    (∀ k v, Gen32.add d m k v = Imp.add cfgU32 d m k v) ∧
    (∀ i, i ≠ 0 → Gen32.remove_node d m i = ((Imp.removeNode d m i).1, some (Imp.removeNode d m i).2)) :=
  ⟨Gen32.add_eq d m, fun i hi => Gen32.remove_node_eq d m i hi⟩

/-- `u8_avl_tree.rs`: the translated `add` (free list first, else the sequence cursor; `none` = the "tree is full" panic) and
    `remove_node` are the literal model's allocator. -/
theorem translated_allocator_u8 (d : Rec α β) (m : TreeImage α β) :
    (∀ k v, Gen8.add d m k v = Imp.add cfgU8 d m k v) ∧
    (∀ i, i ≠ 0 → Gen8.remove_node d m i = ((Imp.removeNode d m i).1, some (Imp.removeNode d m i).2)) :=
  ⟨Gen8.add_eq d m, fun i hi => Gen8.remove_node_eq d m i hi⟩

end Stevia.C07
