#!/usr/bin/env python3
"""Generates /verif/corpus/*.txt: minimised reproducers of past failures (the ten repaired defects),
replayed first by every check whose property they concern."""
import os
ROOT = os.path.dirname(os.path.dirname(os.path.abspath(__file__)))


def blob(s):
    return "x01" + s.encode().hex()


def w(name, title, props, cmd, ops, nodriver=False):
    with open(os.path.join(ROOT, "corpus", name + ".txt"), "w") as f:
        f.write(f"# corpus {name}: {title}\n# props: {' '.join(props)}\n# cmd: {cmd}\n")
        if nodriver:
            f.write("# nodriver\n")
        for o in ops:
            f.write(o + "\n")


w("D1", "hash set remove of a chain head dropped the rest of the chain (fixed bb69b51)", ["C02", "C07", "C10"],
  "hset type=HWeak slots=4 cap=4 vals=0,1,2,3,4,5",
  ["init 4", "ins 0", "ins 2", "ins 4", "ins 1", "rem 4", "rhas 2", "rhas 0", "iter", "rsize", "rem 2", "rem 0", "rem 1", "fill 100 6"])
w("D2", "array set insert/take copied one element past the end of the slice (fixed 0abaeb6)", ["C05", "C03"],
  "aset type=A8u8 slots=4 vals=1,2,5,9",
  ["ins 9", "ins 5", "ins 1", "ins 2", "take 1", "rview", "take 9", "ins 9", "take 2"])
w("D3", "growing a tree with recycled / never-used slots corrupted the free list (fixed 3b922bd)", ["C08", "C07", "C12", "C01", "C04"],
  "tree type=T32u64u64 slots=4 cap=4 max_slots=6 keys=1,2,10,11,12,13,14,15",
  ["init 4", "ins 1 1", "ins 2 2", "rem 1", "ext 2", "open", "rcap", "fill 100 8", "ins 10 10", "ins 11 11", "ins 12 12", "ins 13 13", "ins 14 14", "full", "ins 15 15", "rget 2"])
w("D3b", "same, 8-bit index variant, never-used slots only", ["C08", "C07", "C12", "C01"],
  "tree type=T8u8u8 slots=3 cap=3 max_slots=5 keys=1,2,3,4,5,6",
  ["init 3", "ins 1 1", "ext 2", "open", "fill 100 7", "ins 2 2", "ins 3 3", "ins 4 4", "ins 5 5", "full", "ins 6 6"])
w("D4", "insert into an empty tree of capacity zero panicked (fixed 11a05c4)", ["C12", "C01"],
  "tree type=T32u8u8 slots=0 cap=0 keys=1,2", ["init 0", "ins 1 1", "rlen", "rem 1"])
w("D4b", "same, 8-bit index variant", ["C12", "C01"],
  "tree type=T8u8u8 slots=0 cap=0 keys=1,2", ["init 0", "ins 1 1", "rlen", "rem 1"])
ops = ["init 255"] + [f"ins {k} {k % 251}" for k in range(255)] + ["full", "ins 255 0"] + \
      [f"rem {k}" for k in range(255)] + ["empty"] + [f"ins {k} {k % 7}" for k in range(254, -1, -1)] + ["full", "rlow", "ins 255 1"]
w("D5", "u8 tree with capacity 255 overflowed the sequence on the last insertion (fixed e4f687a)", ["C12", "C07", "C01", "C04", "C10", "C09"],
  "tree type=T8u8u8 slots=255 cap=255 keys=" + ",".join(str(k) for k in range(256)), ops)
w("D6", "hash set contains divided by zero on an all-zero or capacity-zero set (fixed 91fcc3f)", ["C12", "C02"],
  "hset type=HU64 slots=3 cap=0 vals=0,1", ["rhas 1", "has 1", "iter", "rsize", "init 0", "rhas 1", "ins 1", "rem 1"])
w("D7", "array set length prefix overflowed with more slots than the prefix can count (fixed 51e4ad4)", ["C12", "C03", "C09", "C04"],
  "aset type=A8u16 slots=300 vals=" + ",".join(str(k) for k in range(300)),
  [f"ins {k}" for k in range(258)] + ["rlen", "full", "rfull", "rempty", "rhas 255", "rhas 256", "take 0", "ins 256", "rlen"])
# D11: a length prefix larger than the slot count (truncated / foreign buffer): u8 prefix 3 over 2 slots, u16 prefix over 1 slot
w("D11", "array set trusted a length prefix larger than the number of value slots: out-of-bounds raw copy (fixed c509816)", ["C05", "C12"],
  "aset type=A8u8 slots=2 vals=1,2,9,10", ["state x030909", "rlen", "ins 1", "rem 9", "take 9", "ins 10", "rview", "has 9", "rhas 1"], nodriver=True)
w("D11b", "same, 16-bit prefix and 4-byte elements, prefix far beyond the buffer", ["C05", "C12"],
  "aset type=A16u32 slots=1 vals=1,2,9", ["state xff0009000000", "rlen", "ins 1", "take 9", "ins 2", "rview"], nodriver=True)
w("D8", "prefix str copy_from_str split a multi-byte character (fixed 8a60168)", ["C11", "C13"],
  "pstr w=1 size=5 chars=1", ["new", "copy " + blob("abcé"), "load", "copy " + blob("€€"), "copy " + blob("a")])
w("D8b", "same, 16-bit prefix", ["C11", "C13"],
  "pstr w=2 size=5 chars=1", ["new", "copy " + blob("a\U0001f600"), "load"])
w("D9", "prefix str new wrapped the recorded length beyond the prefix range (fixed 74e686c)", ["C13"],
  "pstr w=1 size=257 chars=1 bytes=0", ["new", "size", "copy " + blob("abc"), "size"])
w("D9b", "same, 16-bit prefix", ["C13"],
  "pstr w=2 size=65538 chars=1 bytes=0", ["new", "size"])
w("D10", "PodStr Display rendered the NUL padding (fixed 752e9f6)", ["C14"],
  "podstr n=5 chars=1", ["from " + blob("ab"), "disp", "asstr", "copy " + blob("ééé"), "disp", "asstr"])


def fib_level_order(h):
    """keys 1..minNodes(h) arranged as the sparsest AVL tree of height h; returned in level order
    (inserting in this order never rotates and reproduces the shape)."""
    def build(h, lo):
        if h == 0:
            return None, lo
        if h == 1:
            return (lo, None, None), lo + 1
        l, nxt = build(h - 1, lo)
        root = nxt
        r, nxt2 = build(h - 2, nxt + 1)
        return (root, l, r), nxt2
    t, n = build(h, 1)
    out, q = [], [t]
    while q:
        x = q.pop(0)
        if x is None:
            continue
        out.append(x[0])
        q += [x[1], x[2]]
    return out, n - 1


order, n = fib_level_order(11)   # 232 nodes, 11 levels: the worst shape a 255-slot tree can hold
ops = ["init 255"] + [f"ins {k} {k % 97}" for k in order] + ["rlen", "rlow", "rget 1", "get 232", "rem 0", "rem 233", "has 117"]
# an insertion below the deepest leaf (the search path then has as many entries as an AVL tree of <= 255 nodes allows), undone again
ops += ["ins 0 7", "rlen", "rem 0", "rem 0"]
# operations along the deepest path, removals that trigger cascades of rebalancing, refill
ops += [f"rem {k}" for k in (order[0], 1, 2, 232, 231, order[1], order[2], 100, 50, 150, 200)] + [f"ins {k} 5" for k in (233, 234, 235, 236, 0)] + ["rlen", "full"]
w("FIB8", "sparsest AVL tree of height 11 (232 nodes) in a 255-capacity 8-bit tree: deepest search paths, cascading rebalancing", ["C06", "C12", "C01", "C10", "C07", "C09", "C04"],
  "tree type=T8u32u16 slots=255 cap=255 keys=" + ",".join(str(k) for k in range(0, 237)), ops)
ops32 = [o.replace("init 255", "init 300") for o in ops]
w("FIB32", "same shape in a 32-bit tree with instrumented keys (comparison logs along the deepest paths)", ["C06", "C12", "C01", "C07", "C09"],
  "tree type=T32logu8 slots=300 cap=300 keys=" + ",".join(str(k) for k in range(0, 237)), ops32)

# a tree that is filled, drained completely, grown while empty and refilled (stale registers of recycled records
# must not matter; the u8 tree's registers are compared as i8 heights)
for nm, ty, n0, k in (("DRAIN8", "T8u32u16", 200, 20), ("DRAIN32", "T32u64u64", 260, 40)):
    first = list(range(1, n0 + 1))
    second = list(range(1001, 1001 + n0 + k))
    w(nm, f"fill {n0}, remove everything, grow by {k} while empty, refill completely", ["C08", "C07", "C12", "C01", "C10"],
      f"tree type={ty} slots={n0} cap={n0} max_slots={n0 + k} keys=" + ",".join(str(x) for x in first + second + [5000, 5001]),
      [f"init {n0}"] + [f"ins {x} {x % 89}" for x in first] + ["rlen", "full"] + [f"rem {x}" for x in first] + ["rlen", "empty", f"ext {k}", "rcap", "open", "cap"]
      + [f"ins {x} {x % 83}" for x in second] + ["rlen", "full", "ins 5000 1", "get 1001", f"rem {1000 + n0}", "ins 5001 2", "full"])

# very large collections (oracle-only: the by-lookup layout of the model is quadratic), built with bulk operations
w("BIG32", "32-bit tree with more than 65535 entries: counts, lookups, refill, drain", ["C01", "C07", "C10", "C12", "C06"],
  "tree type=T32u64u64 slots=70000 cap=70000 keys=3,999,1000,33000,66999,67000,69999,200000",
  ["init 70000", "bulk 1000 66000", "rlen", "full", "get 1000", "get 33000", "get 66999", "get 67000", "low", "ins 3 9", "low", "rem 3",
   "ins 67000 1", "bulk 100000 5000", "rlen", "full", "ins 999 1", "rget 69999", "bulkrem 1000 66000", "rlen", "low", "get 33000",
   "bulk 200000 70000", "rlen", "full", "rget 200000", "bulkrem 100000 5000", "bulkrem 200000 70000", "rlen", "rget 67000", "rem 67000", "empty"], nodriver=True)
w("BIGH", "hash set with more than 65535 members", ["C02", "C07", "C12", "C10"],
  "hset type=HU64 slots=70000 cap=70000 vals=3,999,1000,33000,66999,67000,200000",
  ["init 70000", "bulk 1000 66000", "rsize", "full", "has 1000", "has 33000", "has 66999", "has 67000", "ins 3", "rem 3", "ins 67000",
   "bulk 100000 5000", "rsize", "full", "ins 999", "bulkrem 1000 66000", "rsize", "has 33000", "bulk 200000 70000", "rsize", "full",
   "rhas 200000", "bulkrem 200000 70000", "bulkrem 100000 5000", "rsize", "rem 67000", "empty"], nodriver=True)
w("BIGA16", "array set behind a u16 prefix over more than 65535 slots: the prefix maximum", ["C03", "C12", "C09", "C08"],
  "aset type=A16u32 slots=65540 vals=0,1,2,65535,65536,70000,70001",
  ["bulk 1 65535", "rlen", "full", "ins 70000", "ins 0", "rhas 65535", "rhas 1", "take 1", "rlen", "full", "ins 70000", "rlen", "full",
   "ins 70001", "rhas 70000", "take 70000", "ins 0", "rlen", "ext 10", "full", "ins 70001"], nodriver=True)
print("corpus written")
