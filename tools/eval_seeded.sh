#!/bin/sh
# usage: eval_seeded.sh <mutation dir> <tag> <Cxx> [<Cyy> ...]
# Evaluates a seeded mutation WITHOUT touching /repo: scratch worktree with the patch applied + a scratch copy of
# /verif whose harness points at that worktree. (The sanctioned in-place way — git -C /repo apply, run, git checkout —
# is what tools/run_seeded_inplace.sh does; this one exists so that several can run side by side.)
d=$1; tag=$2; shift 2
base=/tmp/mut/ev_$tag
git -C /repo worktree prune
rm -rf $base; mkdir -p $base
git -C /repo worktree add --detach $base/repo HEAD -q || exit 2
git -C $base/repo apply $d/patch.diff || { echo "patch does not apply"; exit 2; }
mkdir -p $base/verif
( cd /verif && tar cf - --exclude=./work --exclude=./replays --exclude=./.git . ) | ( cd $base/verif && tar xf - )
sed -i "s#path = \"/repo\"#path = \"$base/repo\"#" $base/verif/harness/Cargo.toml
for p in "$@"; do
  (cd $base/verif && STEVIA_REPO=$base/repo ./check $p > $base/out_$p.txt 2>&1)
  r=$( (grep -E '^  - ' $base/out_$p.txt | head -2; grep -E '^VIOLATION|^check .* ok' $base/out_$p.txt | tail -1) | cut -c1-300 | tr '\n' '|')
  echo "$tag [$p]: $r"
  [ -d $base/verif/replays ] && mkdir -p /tmp/mut/replays_$tag && cp -r $base/verif/replays/. /tmp/mut/replays_$tag/ 2>/dev/null
done
git -C /repo worktree remove --force $base/repo
rm -rf $base
