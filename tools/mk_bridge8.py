#!/usr/bin/env python3
"""The 8-bit bridge files (Proofs/GenTree*8.lean) are the 32-bit ones with the names swapped; the proof scripts are
written so that they close both. Usage: mk_bridge8.py [lean dir]"""
import glob, os, sys
root = sys.argv[1] if len(sys.argv) > 1 else os.path.join(os.path.dirname(os.path.dirname(os.path.abspath(__file__))), "lean")
for p in glob.glob(os.path.join(root, "Stevia", "Proofs", "GenTree*32.lean")):
    s = open(p).read()
    s = (s.replace("Gen32", "Gen8").replace("Avl32", "Avl8").replace("cfgU32", "cfgU8").replace("`avl_tree.rs`", "`u8_avl_tree.rs`")
          .replace("32-bit", "8-bit"))
    import re
    s = re.sub(r"(GenTree\w*?)32", r"\g<1>8", s)
    # the accepted configurations differ: up to 255 records with wrap-around instead of fewer than 2^32 - 1
    s = s.replace("(h2 : n < 4294967295)", "(h2 : n ≤ 255)").replace("(Nat.le_of_lt h2) (Or.inr h2)", "h2 (Or.inl rfl)")
    open(p[:-len("32.lean")] + "8.lean", "w").write(s)
