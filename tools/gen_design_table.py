#!/usr/bin/env python3
"""Rewrites the theorem column of the table in DESIGN.md §0 from the theorems stated in lean/Stevia/Props/Cxx.lean."""
import os, re
ROOT = os.path.dirname(os.path.dirname(os.path.abspath(__file__)))
def theorems(pid):
    code = open(os.path.join(ROOT, "lean", "Stevia", "Props", pid + ".lean")).read()
    code = re.sub(r"/-.*?-/", "", code, flags=re.S)
    return re.findall(r"^\s*theorem\s+(\S+)", code, flags=re.M)
p = os.path.join(ROOT, "DESIGN.md")
out = []
for line in open(p).read().split("\n"):
    m = re.match(r"\| (C\d\d) \| (.*?) \| (.*?) \| (.*?) \|$", line)
    if m and os.path.exists(os.path.join(ROOT, "lean", "Stevia", "Props", m.group(1) + ".lean")):
        line = f"| {m.group(1)} | " + ", ".join(f"`{t}`" for t in theorems(m.group(1))) + f" | {m.group(3)} | {m.group(4)} |"
    out.append(line)
open(p, "w").write("\n".join(out))
