#!/usr/bin/env python3
"""Writes /verif/MANIFEST.json. Usage: gen_manifest.py C01 C02 ...  (the claimed properties)."""
import json
import os
import sys

ROOT = os.path.dirname(os.path.dirname(os.path.abspath(__file__)))

TEXT = {
    "C01": ("Theorems (Lean 4, all histories, all key types with a strict linear order, both index widths, every capacity): the tree "
            "state machine refines a capacity-bounded ordered map (Stevia.C01.refines*). Tie to the code: every transition of the real "
            "AVLTreeMut/U8AVLTreeMut in the explored scopes is decoded by the model's decoder, stepped by the model and compared (results, "
            "contents, every byte); exhaustive over reachable byte states in small scopes, seeded random beyond. Second tie (translator): avl_tree.rs / u8_avl_tree.rs are re-translated into Lean on every run and proved equal to the model: from the layout of any reachable state the translated from_bytes_mut + insert/remove yield the layout of a reachable state with the model's answer (Stevia.C01.translated_*).", "§5 C01"),
    "C02": ("Theorems: for an arbitrary hash function the hash-set state machine refines a capacity-bounded set and iteration equals the "
            "members without duplicates (Stevia.C02.*). Tie: byte-exact correspondence with HashSetMut/HashSet incl. real SipHash placement, "
            "weak-hash value type for long chains. Second tie (translator): hash_set.rs is re-translated into Lean on every run; the translated insert/remove/contains equal the model on the layout of every well-formed set and repeated calls of the translated iterator's next yield exactly the model's iteration (Stevia.C02.translated_*).", "§5 C02"),
    "C03": ("Theorems: the array-set model (literal binary-search loop, element shifting) refines a bounded sorted set; the view is strictly "
            "ascending in every reachable state (Stevia.C03.*). Tie: byte-exact correspondence for all four prefix widths, several element "
            "types incl. one ordered by part of the value. Second tie (translator): array_set.rs (binary-search loop, checked accesses, both ptr::copy shifts) is re-translated on every run and proved equal to the model, unconditionally (Stevia.C03.translated_*).", "§5 C03"),
    "C04": ("Theorems: the independent decoder applied to the layout of any reachable state returns that state, hence any operation after a "
            "round trip through the bytes equals the uninterrupted one; re-opening with matching size is the identity (Stevia.C04.*). Tie: "
            "every explored transition is executed through a fresh handle on a relocated copy at two different addresses.", "§5 C04"),
    "C05": ("Theorems: the footprint of every raw copy of array_set.rs, as extracted from the source on this run, stays inside the value "
            "slots under the guards the code establishes (Stevia.C05.*), and the model's copyWithin never reports out-of-bounds on reachable "
            "states. Tie: extractor regenerates the copy expressions from /repo; guard regions with two patterns around every buffer in every "
            "explored transition; Miri in the thorough tier. Second tie (translator): in the translated insert/take of array_set.rs no raw copy and no index leaves the values slice on any well-formed set (Stevia.C05.translated_copies_stay_inside).", "§5 C05"),
    "C06": ("Theorems: every reachable tree state is height-balanced with exact height registers; minNodes(height) <= entries with minNodes "
            "attained; searches follow one root-to-leaf path; array-set lookups probe at most floor(log2 n)+1 elements (Stevia.C06.*). Tie: "
            "balance/heights decoded from the real bytes after every transition, comparison logs of an instrumented key type equal the model's path. Second tie (translator): the translated balance_factor / rotations / update_child / rebalance loop of both tree files equal the literal model's (Stevia.C06.translated_rebalance_u32/u8).", "§5 C06"),
    "C07": ("Theorems: from every reachable state exactly cap-n further fresh entries fit, then insert is refused; allocated slots are fresh; "
            "released slots are reused first; is_full iff n = cap (Stevia.C07.*), trees and hash set. Tie: fill-up probe from every explored state. Second tie (translator): the translated add / remove_node of both tree files equal the literal model's allocator (Stevia.C07.translated_allocator_*).", "§5 C07"),
    "C08": ("Theorems: extending by n records and re-opening preserves the tree, sets capacity to records+n, stays reachable (so repeated growth "
            "and every continuation are covered), exactly n more entries fit; read-only view keeps old capacity; array-set growth "
            "(Stevia.C08.*). Tie: growth is an ordinary operation at every explored state. Second tie (translator): the translated from_bytes_mut of both tree files is the model's openMut on layouts (Stevia.C08.translated_open_*).", "§5 C08"),
    "C09": ("Theorems: every refused operation of the three models returns the identical state; queries return no new state (Stevia.C09.*). "
            "Tie: byte snapshot around every refused call and query on the implementation, plus model/implementation byte equality.", "§5 C09"),
    "C10": ("Theorems: decoder∘layout = id on reachable states, decoder accepts only layouts, slot trichotomy, data_len formula, returned index "
            "holds the entry, live entries keep their slot, hash placement (Stevia.C10.*). Tie: exact byte equality between the model's layout "
            "and the real buffer after every transition, for key/value types with and without padding. Second tie (translator): what the translated insert/remove of both tree files write, from the layout of a reachable state, is exactly the layout of a reachable state (Stevia.C10.translated_source_keeps_format_*).", "§5 C10"),
    "C11": ("Theorems: in every state reachable through the safe API of the prefixed strings the payload is valid UTF-8 (core Lean's "
            "ByteArray.IsValidUTF8); the loading constructors accept exactly valid payloads; PodStr::as_str returns Ok only for valid text "
            "(Stevia.C11.*). Tie: every &str obtained by the harness is re-validated; Ok/Err compared with the model on exhaustive small "
            "byte strings and structured 4-byte cases. Second tie (translator): prefix_str.rs / pod_str.rs are re-translated on every run; from_bytes, new, copy_from_str, as_str equal the model and whatever the translated new hands out as Ok is valid UTF-8 (Stevia.C11.translated_*).", "§5 C11"),
    "C12": ("Theorems: no operation of any model faults in any reachable state of an accepted configuration (every checked-arithmetic, "
            "modulo, panic and index site is an explicit fault in the model); all-zero buffers read as empty (Stevia.C12.*). Tie: edge "
            "configurations (capacity 0,1,2,255; MIN/MAX keys) explored with overflow checks on; any panic is a violation. Second tie (translator): every translated array-set operation returns normally (no failed bounds check, no out-of-range copy) in every reachable state (Stevia.C12.translated_array_set_total).", "§5 C12"),
    "C13": ("Theorems: new/copy_from_str/reload/size specifications of the prefixed strings incl. clamping at the prefix maximum and maximality "
            "of the copied prefix (Stevia.C13.*). Tie: exhaustive small strings and boundary buffer sizes through the model. Second tie (translator): the translated new / copy_from_str / size of prefix_str.rs equal the model (Stevia.C13.translated_prefix_str_is_the_model).", "§5 C13"),
    "C14": ("Theorems: PodStr from/copy/as_str/Display/load specifications (Stevia.C14.*). Tie: exhaustive small strings and byte patterns. Second tie (translator): the translated From<&str> / copy_from_slice / copy_from_str / as_str of pod_str.rs equal the model (Stevia.C14.translated_pod_str_is_the_model).", "§5 C14"),
    "C15": ("Theorems: PodBool decode/encode over all 256 bytes (decide over the complete table), PodOption value/value_mut, load/load_mut as "
            "pure views (Stevia.C15.*). Tie: all byte values and lengths around size_of through the model. Second tie (translator): the translated PodBool conversions, PodOption::value/value_mut and ZeroCopy::load/load_mut equal the model (Stevia.C15.translated_pod_is_the_model).", "§5 C15"),
}

NOTE = ("Trusted: Lean 4.33 kernel; axioms propext, Classical.choice, Quot.sound only (audited with #print axioms on every run; no sorry, "
        "native_decide, bv_decide). The model (lean/Stevia/Model) is hand-written; it is tied to /repo's working tree on every run (a) by the "
        "translator tools/rust2lean.py (trusted: its mapping of Rust constructs and primitive accesses to Lean; its output is proved equal "
        "to the model, for all inputs) and (b) by the correspondence check (harness built against /repo, every explored transition replayed "
        "through the model's decoder and step function) — exhaustive only within the scopes recorded in the evidence. Harness, driver, "
        "byte codecs and scope selection are trusted.")

NOT_YET = {}

TECH_DEFAULT = ("machine-checked proof in Lean 4 (model + theorems); the model is tied to the code (a) by a Rust->Lean translator run on "
                "every check whose output is proved equal to the model and (b) by a byte-exact differential correspondence check")
TECH = {
    "C04": "machine-checked proof in Lean 4 (model + theorems: decoder o layout = id on reachable states) tied to the code by a byte-exact differential correspondence check (every transition re-executed through fresh handles on relocated copies)",
    "C09": "machine-checked proof in Lean 4 (model + theorems: refused operations return the identical state) tied to the code by a byte-exact differential correspondence check with byte snapshots around every refused call",
}


def main():
    claimed = sys.argv[1:]
    checks = []
    for pid in claimed:
        text, ref = TEXT[pid]
        checks.append({
            "property_id": pid,
            "quick_cmd": f"./check {pid} --tier quick",
            "thorough_cmd": f"./check {pid} --tier thorough",
            "evidence_file": f"/verif/evidence/{pid}.json",
            "replay_cmd_template": f"./check {pid} --replay {{path}}",
            "engine": "lean4-model+correspondence",
            "level_claimed": {"category": "proof", "text": text, "design_ref": ref},
            "level_note": NOTE,
            "technique": TECH.get(pid, TECH_DEFAULT),
        })
    na = []
    for pid in sorted(TEXT):
        if pid not in claimed:
            na.append({"property_id": pid, "reason": NOT_YET.get(pid, "not claimed yet: model/proofs/correspondence for this property are still being built in this session (see DESIGN.md §9); the technique applies")})
    m = {
        "version": 1,
        "setup_cmd": "./setup.sh",
        "hooks": {
            "guard": "stevia_verif",
            "enable": "no source hooks are needed: buffers, guard regions, comparison logs and hash placement are observable from outside the crate; checks build /repo as a path dependency of /verif/harness",
            "baseline_off_cmd": "cd /repo && cargo test --workspace --no-fail-fast --offline",
            "source_commits": json.load(open(os.path.join(ROOT, "tools", "fix_commits.json"))),
            "add_only": True,
        },
        "engines": [{
            "name": "lean4-model+correspondence",
            "path": "/verif/check",
            "serves_properties": claimed,
            "kind_free_text": "Lean 4 model and theorems (lean/), Rust->Lean translator (tools/rust2lean.py) and source-facts extractor run on every check, Rust harness built against /repo (harness/), line-protocol driver (lean/Driver.lean), orchestrated by ./check",
        }],
        "checks": checks,
        "not_applicable": na,
        "notes": "All ten defects found while reading the code were repaired by fix: commits in /repo (listed in hooks.source_commits and in known_findings.txt as fixed: entries); there are no guarded hook commits.",
    }
    with open(os.path.join(ROOT, "MANIFEST.json"), "w") as f:
        json.dump(m, f, indent=1)
    print("wrote MANIFEST.json with", len(checks), "checks,", len(na), "not_applicable")


if __name__ == "__main__":
    main()
