#!/usr/bin/env python3
"""Regenerates seeded/INDEX.md from seeded/*/meta.json."""
import json, os
ROOT = os.path.dirname(os.path.dirname(os.path.abspath(__file__)))
S = os.path.join(ROOT, "seeded")
rows = []
for d in sorted(os.listdir(S)):
    mp = os.path.join(S, d, "meta.json")
    if not os.path.exists(mp):
        continue
    m = json.load(open(mp))
    v = m.get("verdicts", {}).get(m["property"], {})
    verdict = ("alarm, concrete input" if v.get("concrete_input") else "alarm, no-failing-input-found") if v.get("alarm") else "MISSED"
    def c(x, n):
        return (x or "").replace("|", "/").replace("\n", " ")[:n]
    rows.append(f"| {d} | {m['property']} | {c(m.get('title'), 100)} | {verdict} | {c(v.get('first'), 200)} | {c(m.get('history') or 'caught as delivered', 1200)} |")
head = open(os.path.join(S, "INDEX.md")).read().split("| id |")[0] if os.path.exists(os.path.join(S, "INDEX.md")) else "# Seeded breaking changes\n\n"
open(os.path.join(S, "INDEX.md"), "w").write(head + "| id | property | change | verdict of `./check <property>` (quick) | first finding | history |\n|---|---|---|---|---|---|\n" + "\n".join(rows) + "\n")
print(len(rows), "entries")
