#!/bin/sh
# Revert each fix: commit in turn (working tree only) and run the checks that must alarm.
cd /verif
out=work/selftest_fixes.txt; mkdir -p work; : > $out
run() { # hash, properties...
  h=$1; shift
  git -C /repo show $h | git -C /repo apply -R || { echo "cannot revert $h" >> $out; return; }
  for p in "$@"; do
    r=$(./check $p 2>&1 | grep -E '^VIOLATION|^check .* ok' | head -1)
    echo "revert $h [$p]: $r" >> $out
  done
  git -C /repo checkout -- .
}
run bb69b51 C02 C07
run 0abaeb6 C05 C03
run 3b922bd C08 C07 C12
run 11a05c4 C12
run e4f687a C12
run 91fcc3f C12
run 51e4ad4 C12 C03
run 8a60168 C11 C13
run 74e686c C13
run 752e9f6 C14
run c509816 C05
cat $out
git -C /repo status --short
