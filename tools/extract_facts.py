#!/usr/bin/env python3
"""
Source-facts extractor (DESIGN.md §0, §2.4 step 2).

Re-derives, from /repo's *current* sources, the facts the byte-level model and a
few theorems depend on, and writes them as Lean definitions to
/verif/lean/Stevia/Generated/Facts.lean (only when the content changes).  The
theorems in Stevia/Props/*.lean that mention `Stevia.Facts.*` are therefore
re-proved against what the code says now.

A fact that cannot be parsed is *not* an alarm: the definition falls back to the
model's own value and the fact is listed under "unparsed" (the run is then tied
to the code by the correspondence check only for that fact).

Prints one JSON line (last line of stdout) describing what was extracted.
"""
import json
import os
import re
import sys

REPO = os.environ.get("STEVIA_REPO", "/repo")
OUT = os.path.join(os.path.dirname(os.path.dirname(os.path.abspath(__file__))), "lean", "Stevia", "Generated", "Facts.lean")


def read(rel):
    try:
        return open(os.path.join(REPO, rel)).read()
    except OSError:
        return ""


def strip_tests(src):
    i = src.find("#[cfg(test)]")
    return src if i < 0 else src[:i]


def strip_comments(src):
    src = re.sub(r"//[^\n]*", "", src)
    return re.sub(r"/\*.*?\*/", "", src, flags=re.S)


# --- expression translation (usize arithmetic over index / len / slots) -------

TOK = re.compile(r"\s*(self\.values\.len\(\)|self\.len\(\)|\*self\.length as usize|index|\d+|[()+\-])")


def to_lean(expr):
    """Translate a Rust usize expression over `index`, `self.len()`, `self.values.len()` into Lean."""
    expr = expr.strip()
    pos, out = 0, []
    while pos < len(expr):
        m = TOK.match(expr, pos)
        if not m:
            return None
        t = m.group(1)
        out.append({"self.values.len()": "slots", "self.len()": "len", "*self.length as usize": "len"}.get(t, t))
        pos = m.end()
    return " ".join(out)


def function_body(src, name):
    m = re.search(r"pub fn " + name + r"\s*\(", src)
    if not m:
        return None
    i = src.find("{", m.end())
    depth, j = 0, i
    while j < len(src):
        if src[j] == "{":
            depth += 1
        elif src[j] == "}":
            depth -= 1
            if depth == 0:
                return src[i:j + 1]
        j += 1
    return None


def copy_args(body):
    """(src, dst, cnt) Lean expressions of the single ptr::copy in a function body."""
    if body is None:
        return None
    copies = re.findall(r"(?:std::)?ptr::copy(?:_nonoverlapping)?\s*\(\s*([^,]+),\s*([^,]+),\s*([^;]+?)\)\s*;", body)
    if len(copies) == 0 and not re.search(r"\bptr::\w+", body):
        return "absent"
    if len(copies) != 1:
        return None
    s, d, c = [x.strip() for x in copies[0]]

    def resolve(p):
        m = re.search(r"let\s+" + re.escape(p) + r"\s*=\s*ptr\.add\(([^;]+)\)\s*;", body)
        if m:
            return to_lean(m.group(1))
        m = re.fullmatch(r"ptr\.add\((.+)\)", p)
        if m:
            return to_lean(m.group(1))
        if p == "ptr":
            return "0"
        return None
    rs, rd, rc = resolve(s), resolve(d), to_lean(c)
    if None in (rs, rd, rc):
        return None
    return rs, rd, rc


def enum_variants(src, name):
    m = re.search(r"enum\s+" + name + r"\s*\{([^}]*)\}", src)
    if not m:
        return None
    return [v.strip() for v in strip_comments(m.group(1)).split(",") if v.strip()]


def init_vector(src):
    m = re.search(r"self\.fields\s*=\s*\[([^\]]*)\]", src)
    if not m:
        return None
    return [x.strip() for x in m.group(1).split(",") if x.strip()]


def macro_base(src, name):
    m = re.search(r"macro_rules!\s*" + name + r"\s*\{.*?=>\s*\{\s*\$array\[(.*?)\]\s*;?\s*\}", src, re.S)
    if not m:
        return None
    e = m.group(1).replace(" ", "")
    if e == "($index-1)asusize":
        return 1
    if e == "$indexasusize":
        return 0
    return None


def count_unsafe(src):
    code = strip_comments(strip_tests(src))
    blocks = len(re.findall(r"\bunsafe\s*\{", code))
    fns = len(re.findall(r"\bunsafe\s+fn\b", code))
    impls = len(re.findall(r"\bunsafe\s+impl\b", code))
    # raw memory *access* primitives (pointer arithmetic such as `ptr.add` / `as_mut_ptr` is not an access)
    raw = len(re.findall(r"\bptr::\w+|get_unchecked|from_raw_parts|transmute|from_ptr\b|\.offset\(|[.:]read_unaligned\(|[.:]write_unaligned\(|[.:]read_volatile\(|[.:]write_volatile\(|\.as_ref\(\)\.unwrap_unchecked", code))
    # dereferences of raw pointers: the re-borrow idioms `&*p` / `&mut *p`, and every `as_ptr()` / `as_mut_ptr()` that does
    # not feed one of the `ptr::copy` calls counted above
    raw += len(re.findall(r"&\s*(?:mut\s+)?\*\s*[\w$(]", code))
    raw += max(0, len(re.findall(r"\.as_(?:mut_)?ptr\(\)", code)) - len(re.findall(r"\bptr::copy\w*", code)))
    return blocks, fns, impls, raw


CMP = re.compile(r"^\s*(-?\w+)\s*(<=|>=|<|>|==|!=)\s*(-?\w+)\s*$")


def cmp_to_lean(expr, var):
    """`balance_factor > 1` / `1 < balance_factor` -> Lean Bool term over `(x : Int)`; None if not of that shape."""
    m = CMP.match(expr)
    if not m:
        return None
    a, op, b = m.groups()
    def term(t):
        if t == var:
            return "x"
        if re.fullmatch(r"-?\d+", t):
            return f"({t} : Int)"
        return None
    ta, tb = term(a), term(b)
    if ta is None or tb is None or "x" not in (ta, tb):
        return None
    return f"decide ({ta} {op} {tb})"


def rebalance_conditions(src):
    """The four conditions of `rebalance`: (balance_factor heavy-left, left child's factor, heavy-right, right child's factor)."""
    body = function_body(src.replace("fn rebalance", "pub fn rebalance"), "rebalance")
    if body is None:
        return None
    body = strip_comments(body)
    conds = re.findall(r"\bif\s+([^\{]+?)\s*\{", body)
    out = []
    for var in ("balance_factor", "left_balance_factor", "balance_factor", "right_balance_factor"):
        hit = None
        for c in conds:
            # each variable's conditions in order of appearance; balance_factor occurs twice
            if re.search(r"(?<![a-z_])" + var + r"(?![a-z_])", c) and not (var == "balance_factor" and ("left_" in c or "right_" in c)):
                hit = c
                conds.remove(c)
                break
        if hit is None:
            return None
        t = cmp_to_lean(hit, var)
        if t is None:
            return None
        out.append(t)
    return out


def lean_list(xs):
    return "[" + ", ".join('"' + x + '"' for x in xs) + "]"


def main():
    facts, unparsed = {}, []
    aset = strip_tests(read("src/collections/array_set.rs"))
    ins = copy_args(function_body(aset, "insert"))
    take = copy_args(function_body(aset, "take"))
    modelled = 0
    if ins == "absent":
        ins = ("0", "0", "0")   # no raw copy in `insert` any more: nothing to bound
    elif ins is None:
        unparsed.append("array_set.rs insert: ptr::copy arguments")
        ins = ("index", "index + 1", "len - index")
        modelled += 1
    else:
        modelled += 1
    if take == "absent":
        take = ("0", "0", "0")
    elif take is None:
        unparsed.append("array_set.rs take: ptr::copy arguments")
        take = ("index + 1", "index", "len - index - 1")
        modelled += 1
    else:
        modelled += 1
    facts["insert_copy"] = ins
    facts["take_copy"] = take

    lines = [
        "/-",
        "  GENERATED by /verif/tools/extract_facts.py from /repo's sources on every run of ./check.",
        "  Do not edit. Theorems over these definitions: Stevia/Props/C05.lean, C10.lean, C15.lean.",
        "-/",
        "namespace Stevia.Facts",
        "",
        "/-- `ptr::copy(ptr.add(src), ptr.add(dst), cnt)` in `insert` of array_set.rs, as written in the source. -/",
        f"def insertCopySrc (index len slots : Nat) : Nat := {ins[0]}",
        f"def insertCopyDst (index len slots : Nat) : Nat := {ins[1]}",
        f"def insertCopyCnt (index len slots : Nat) : Nat := {ins[2]}",
        "/-- … and in `take`. -/",
        f"def takeCopySrc (index len slots : Nat) : Nat := {take[0]}",
        f"def takeCopyDst (index len slots : Nat) : Nat := {take[1]}",
        f"def takeCopyCnt (index len slots : Nat) : Nat := {take[2]}",
        "/-- number of raw copies of array_set.rs that the definitions above describe -/",
        f"def modelledCopies : Nat := {modelled}",
        "",
    ]

    # unsafe / raw-access inventory per file: (unsafe blocks, unsafe fns, unsafe impls, raw-pointer tokens)
    inv = {}
    for rel, nm in [("src/collections/array_set.rs", "arraySet"), ("src/collections/avl_tree.rs", "avlTree"),
                    ("src/collections/u8_avl_tree.rs", "u8AvlTree"), ("src/collections/hash_set.rs", "hashSet"),
                    ("src/types/prefix_str.rs", "prefixStr"), ("src/pod/pod_str.rs", "podStr"),
                    ("src/pod/pod_bool.rs", "podBool"), ("src/pod/pod_option.rs", "podOption"), ("src/lib.rs", "lib")]:
        inv[nm] = count_unsafe(read(rel))
        b, f, i, r = inv[nm]
        lines.append(f"/-- {rel}: unsafe blocks, unsafe fns, unsafe impls, raw memory-access primitives (non-test code). -/")
        lines.append(f"def unsafe_{nm} : Nat × Nat × Nat × Nat := ({b}, {f}, {i}, {r})")
    facts["unsafe_inventory"] = inv
    lines.append("")

    # header / register layout facts
    for rel, nm in [("src/collections/avl_tree.rs", "tree32"), ("src/collections/u8_avl_tree.rs", "tree8"), ("src/collections/hash_set.rs", "hset")]:
        src = strip_tests(read(rel))
        fields = enum_variants(src, "Field")
        regs = enum_variants(src, "Register")
        init = init_vector(src)
        base = macro_base(src, "node")
        if fields is None:
            unparsed.append(f"{rel}: enum Field")
            fields = ["Root", "Size", "Capacity", "FreeListHead", "Sequence"] if nm != "hset" else ["Size", "Capacity", "FreeListHead", "Sequence"]
        if regs is None:
            unparsed.append(f"{rel}: enum Register")
            regs = ["Left", "Right", "Height"] if nm != "hset" else ["Bucket", "Next"]
        if init is None:
            unparsed.append(f"{rel}: allocator init vector")
            init = (["SENTINEL", "0", "capacity", "1", "1", "0"] + (["0", "0"] if nm == "tree8" else [])) if nm != "hset" else ["0", "capacity", "1", "1"]
        if base is None:
            unparsed.append(f"{rel}: node! macro index base")
            base = 1
        facts[nm] = {"fields": fields, "registers": regs, "init": init, "node_base": base}
        lines.append(f"/-- {rel}: header word order, node register order, `initialize` vector, `node!` index base. -/")
        lines.append(f"def {nm}Fields : List String := {lean_list(fields)}")
        lines.append(f"def {nm}Registers : List String := {lean_list(regs)}")
        lines.append(f"def {nm}Init : List String := {lean_list(init)}")
        lines.append(f"def {nm}NodeBase : Nat := {base}")
    # rebalance thresholds (as Bool functions of the balance factor)
    for rel, nm in [("src/collections/avl_tree.rs", "tree32"), ("src/collections/u8_avl_tree.rs", "tree8")]:
        rc = rebalance_conditions(strip_tests(read(rel)))
        if rc is None:
            unparsed.append(f"{rel}: rebalance conditions")
            rc = ["decide (x > (1 : Int))", "decide (x < (0 : Int))", "decide (x < (-1 : Int))", "decide (x > (0 : Int))"]
        facts[nm]["rebalance"] = rc
        lines.append(f"/-- {rel}: the conditions of `rebalance` on the balance factor (left height - right height): rotate right,")
        lines.append("    rotate the left child left first, rotate left, rotate the right child right first. -/")
        for name, t in zip(("HeavyLeft", "LeftChildRightHeavy", "HeavyRight", "RightChildLeftHeavy"), rc):
            lines.append(f"def {nm}{name} (x : Int) : Bool := {t}")
    lines.append("")
    hs = strip_tests(read("src/collections/hash_set.rs"))
    bb = macro_base(hs, "bucket_node")
    if bb is None:
        unparsed.append("hash_set.rs: bucket_node! macro index base")
        bb = 0
    lines.append(f"def hsetBucketBase : Nat := {bb}")
    lines.append("")

    # PodBool predicate
    pb = strip_comments(read("src/pod/pod_bool.rs"))
    preds = re.findall(r"impl From<&?PodBool> for bool\s*\{\s*fn from\(b: &?PodBool\) -> Self\s*\{\s*([^}]*?)\s*\}", pb)
    trans = {"b.0 != 0": "b != 0", "b.0 == 0": "b == 0", "b.0 > 0": "b > 0", "b.0 == 1": "b == 1", "b.0 != 1": "b != 1", "b.0 & 1 == 1": "b &&& 1 == 1",
             "b.0 & 1 != 0": "b &&& 1 != 0"}
    pl = [trans.get(" ".join(p.split())) for p in preds]
    if len(preds) != 2 or None in pl:
        unparsed.append("pod_bool.rs: bool::from(PodBool) predicate")
        pl = ["b != 0", "b != 0"]
    facts["podbool_predicates"] = pl
    lines.append("/-- `bool::from(PodBool)` and `bool::from(&PodBool)` as written in pod_bool.rs. -/")
    lines.append(f"def podBoolPred (b : UInt8) : Bool := {pl[0]}")
    lines.append(f"def podBoolPredRef (b : UInt8) : Bool := {pl[1]}")
    lines.append("")
    lines.append(f"def unparsed : List String := {lean_list(unparsed)}")
    lines.append("")
    lines.append("end Stevia.Facts")
    text = "\n".join(lines) + "\n"
    os.makedirs(os.path.dirname(OUT), exist_ok=True)
    old = open(OUT).read() if os.path.exists(OUT) else None
    changed = old != text
    if changed:
        with open(OUT, "w") as f:
            f.write(text)
    print(json.dumps({"applied": True, "changed": changed, "unparsed": unparsed, "facts": facts}))


if __name__ == "__main__":
    sys.exit(main())
