"""
Scopes and verdict filters per property (DESIGN.md §2.5, §5).

PROPERTIES[id] = {
  scopes(tier)      -> list of {"collection":..., "args": {...}} harness runs piped through the Lean driver
  relevant(kind,op,detail) -> does a driver mismatch of this kind break this property's tie?
  rule, trusted, assumptions -> texts for the evidence file
}
"""
import json
import os
import re
import subprocess


def S(collection, **args):
    nodriver = bool(args.pop("nodriver", 0))
    d = {"collection": collection, "args": {k: str(v) for k, v in args.items()}}
    if nodriver:
        d["nodriver"] = True
    return d


def keys(n, start=0):
    return ",".join(str(i) for i in range(start, start + n))


I64 = "-9223372036854775808,-1,0,9223372036854775807"

# ---------------------------------------------------------------------------
# tree scopes
# ---------------------------------------------------------------------------


def tree_scopes(tier, updates=1, ro=1, fill=1, growth=True, logs=True, rnd=True):
    q = [
        # exhaustive: every reachable byte state x every operation
        S("tree", type="T8u8u8", mode="bfs", slots=4, cap=4, keys=keys(5), updates=updates, ro=ro, fill=fill),
        S("tree", type="T32u8u64", mode="bfs", slots=4, cap=4, keys=keys(5), updates=0, ro=ro, fill=fill),
        S("tree", type="T8u64u8", mode="bfs", slots=5, cap=5, keys=keys(6), updates=0, ro=0, fill=fill),
        S("tree", type="T8i64u64", mode="bfs", slots=3, cap=3, keys=I64, updates=updates, ro=ro, fill=fill, fresh_base=100),
        # 32-byte array keys / values (public-key-like), record = 16 + 32 + 8 resp. 4 + 32 + 32 bytes
        S("tree", type="T32a32u64", mode="bfs", slots=3, cap=3, keys="0,1,2,255", updates=0, ro=ro, fill=fill),
        S("tree", type="T8a32a32", mode="bfs", slots=3, cap=3, keys="0,1,2,255", updates=updates, ro=0, fill=fill),
        # 16-byte keys with 16-byte alignment (the buffer then has to start at 8 mod 16)
        S("tree", type="T32u128u64", mode="bfs", slots=3, cap=3, keys="0,1,2,3", updates=0, ro=ro, fill=fill),
        S("tree", type="T8u128u8", mode="bfs", slots=3, cap=3, keys="0,1,2,3", updates=0, ro=0, fill=fill),
        # unusual sizes: 3-byte keys, 12-byte values (odd record sizes), zero-sized values
        S("tree", type="T8b3b12", mode="bfs", slots=3, cap=3, max_slots=4, keys="0,1,2,3", updates=0, ro=0, fill=fill),
        S("tree", type="T32b3u32", mode="bfs", slots=3, cap=3, keys="0,1,2,255", updates=updates, ro=ro, fill=fill),
        S("tree", type="T32u32unit", mode="bfs", slots=3, cap=3, keys="0,1,2,3", updates=0, ro=ro, fill=fill),
        S("tree", type="T8u8unit", mode="bfs", slots=3, cap=3, max_slots=4, keys="0,1,2,3", updates=0, ro=0, fill=fill),
        # oracle-only: a value type whose Default is not all-zero bytes
        S("tree", type="T32u32bps", mode="bfs", slots=3, cap=3, keys="0,1,2,3", updates=0, ro=ro, fill=fill, nodriver=1),
        S("tree", type="T8u8bps", mode="bfs", slots=3, cap=3, max_slots=4, keys="0,1,2,3", updates=0, ro=0, fill=fill, nodriver=1),
        # oracle-only: a key type whose ordering ignores part of the key (duplicate inserts carry other bytes)
        S("tree", type="T8idtagu8", mode="bfs", slots=3, cap=3, keys="0,1,2,3", updates=0, ro=0, fill=0, nodriver=1),
        S("tree", type="T32idtagu8", mode="bfs", slots=3, cap=3, keys="0,1,2,3", updates=updates, ro=ro, fill=0, nodriver=1),
    ]
    # odd record sizes x every small slot count
    for n in range(0, 11):
        q.append(S("tree", type="T8b3b12", mode="random", slots=n, cap=n, keys=keys(2 * n + 3), histories=2, length=24 + 6 * n, fill=fill))
    if growth:
        q += [
            S("tree", type="T8u8u8", mode="bfs", slots=2, cap=2, max_slots=4, keys=keys(5), updates=0, ro=ro, fill=fill),
            S("tree", type="T32u32u16", mode="bfs", slots=3, cap=3, max_slots=4, keys=keys(5), updates=0, ro=ro, fill=fill),
            S("tree", type="T8u8u8", mode="bfs", slots=1, cap=1, max_slots=3, keys=keys(4), updates=1, ro=ro, fill=fill),
            S("tree", type="T32u8u8", mode="bfs", slots=3, cap=1, max_slots=3, keys=keys(4), updates=0, ro=ro, fill=fill),
            # growth of a header-only buffer (capacity 0)
            S("tree", type="T8u8u8", mode="bfs", slots=0, cap=0, max_slots=2, keys=keys(3), updates=0, ro=ro, fill=fill),
            S("tree", type="T32u8u8", mode="bfs", slots=0, cap=0, max_slots=2, keys=keys(3), updates=0, ro=ro, fill=fill),
        ]
    # every height-balanced shape with at most 10 nodes x every single insertion (into every gap) / removal
    # (of every key) / lookup, instrumented keys
    q += [
        S("tree", type="T8logu8", mode="shapes", nodes=10, slots=12, cap=12, keys=keys(24, 1), fill=0),
        S("tree", type="T32logu8", mode="shapes", nodes=10, slots=12, cap=12, keys=keys(24, 1), fill=0),
    ]
    if logs:
        q += [
            S("tree", type="T32logu8", mode="bfs", slots=4, cap=4, keys=keys(5, 1), updates=0, ro=ro, fill=0),
            S("tree", type="T8logu8", mode="bfs", slots=4, cap=4, keys=keys(5, 1), updates=0, ro=0, fill=0),
        ]
    if rnd:
        q += [
            S("tree", type="T32u64u64", mode="random", slots=24, cap=24, max_slots=40, keys=keys(60), histories=150, length=300, fill=fill),
            S("tree", type="T8u32u16", mode="random", slots=40, cap=40, max_slots=64, keys=keys(90), histories=100, length=400, fill=fill),
            S("tree", type="T32logu8", mode="random", slots=64, cap=64, keys=keys(120, 1), histories=60, length=600, fill=0),
            # records with padding (1-byte key before an 8-byte value; 22 bytes of fields in a 24-byte record) growing past
            # the sizes at which unpadded and padded record arithmetic part ways
            S("tree", type="T32u8u64", mode="random", slots=5, cap=5, max_slots=14, keys=keys(24), histories=80, length=150, fill=fill),
            S("tree", type="T32u32u16", mode="random", slots=10, cap=10, max_slots=30, keys=keys(50), histories=60, length=250, fill=fill),
            # hundreds of entries: heights up to 10-12, long free lists, growth by many records
            S("tree", type="T32u64u64", mode="random", slots=500, cap=500, max_slots=900, keys=keys(1500), histories=2, length=9000, checkpoint=150, fill=fill, fresh_base=100000),
            S("tree", type="T8u32u16", mode="random", slots=120, cap=120, max_slots=255, keys=keys(400), histories=3, length=4000, checkpoint=80, fill=fill, fresh_base=100000),
        ]
    if tier == "quick":
        return q
    t = list(q)
    t += [
        S("tree", type="T8u8u8", mode="bfs", slots=5, cap=5, keys=keys(6), updates=0, ro=ro, fill=fill),
        S("tree", type="T32u64u64", mode="bfs", slots=5, cap=5, keys=keys(6), updates=0, ro=0, fill=fill),
        S("tree", type="T8u64u8", mode="bfs", slots=6, cap=6, keys=keys(6), updates=0, ro=0, fill=fill, timeout=3000),
        S("tree", type="T32u8u8", mode="bfs", slots=6, cap=6, keys=keys(6), updates=0, ro=0, fill=0, timeout=3000),
        S("tree", type="T8logu8", mode="bfs", slots=5, cap=5, keys=keys(6, 1), updates=0, ro=0, fill=0),
        S("tree", type="T32logu8", mode="bfs", slots=5, cap=5, keys=keys(6, 1), updates=0, ro=0, fill=0),
        S("tree", type="T8logu8", mode="shapes", nodes=14, slots=16, cap=16, keys=keys(32, 1), fill=0, timeout=3000),
        S("tree", type="T32u64u64", mode="shapes", nodes=13, slots=14, cap=14, keys=keys(30, 1), fill=0, timeout=3000),
    ]
    if growth:
        t += [
            S("tree", type="T8u8u8", mode="bfs", slots=3, cap=3, max_slots=5, keys=keys(5), updates=0, ro=ro, fill=fill, timeout=3000),
            S("tree", type="T32u8u64", mode="bfs", slots=2, cap=2, max_slots=5, keys=keys(5), updates=0, ro=0, fill=fill, timeout=3000),
        ]
    if rnd:
        t += [
            S("tree", type="T8u32u16", mode="random", slots=200, cap=200, max_slots=254, keys=keys(400), histories=40, length=3000, checkpoint=25, fill=fill, fresh_base=100000),
            S("tree", type="T8u32u16", mode="random", slots=255, cap=255, keys=keys(300), histories=30, length=3000, checkpoint=25, fill=fill, fresh_base=100000),
            S("tree", type="T32u64u64", mode="random", slots=1000, cap=1000, max_slots=2000, keys=keys(3000), histories=6, length=20000, checkpoint=500, fill=0),
            S("tree", type="T32i64u64", mode="random", slots=100, cap=100, max_slots=150, keys=keys(300, -150), histories=100, length=1500, checkpoint=10, fill=fill, fresh_base=100000),
            S("tree", type="T32u32u16", mode="random", slots=30, cap=30, max_slots=60, keys=keys(70), histories=1500, length=300, fill=fill),
        ]
    return t


def edge_tree_scopes(tier):
    """C12: capacities 0, 1, 2 exhaustively, the u8 maximum, extreme keys."""
    q = [
        S("tree", type="T8u8u8", mode="bfs", slots=0, cap=0, keys="0,1,255", updates=1),
        S("tree", type="T32u8u8", mode="bfs", slots=0, cap=0, keys="0,1,255", updates=1),
        S("tree", type="T8u8u8", mode="bfs", slots=1, cap=1, keys="0,1,255", updates=1),
        S("tree", type="T32u8u8", mode="bfs", slots=1, cap=1, keys="0,1,255", updates=1),
        S("tree", type="T8u8u8", mode="bfs", slots=2, cap=2, keys="0,1,254,255", updates=1),
        S("tree", type="T32u64u64", mode="bfs", slots=2, cap=2, keys="0,1,18446744073709551615", updates=1),
        S("tree", type="T8i64u64", mode="bfs", slots=2, cap=2, keys=I64, updates=1),
        S("tree", type="T32i64u64", mode="bfs", slots=2, cap=2, keys=I64, updates=1),
        S("tree", type="T8u8u8", mode="bfs", slots=2, cap=0, keys="0,1,255", updates=0),
        S("tree", type="T8u32u16", mode="random", slots=255, cap=255, keys=keys(300), histories=6, length=2500, checkpoint=50, fresh_base=100000),
        S("tree", type="T8u8u8", mode="random", slots=255, cap=255, keys=keys(256), histories=6, length=2500, checkpoint=50, fill=0),
        S("tree", type="T8u32u16", mode="random", slots=254, cap=254, keys=keys(300), histories=3, length=1500, checkpoint=50, fresh_base=100000),
        S("tree", type="T8u8u8", mode="bfs", slots=1, cap=1, max_slots=3, keys=keys(4), updates=0),
        S("tree", type="T32u8u8", mode="bfs", slots=2, cap=2, max_slots=3, keys=keys(4), updates=0),
    ]
    if tier == "thorough":
        q += [
            S("tree", type="T8u32u16", mode="random", slots=255, cap=255, keys=keys(300), histories=60, length=4000, checkpoint=50),
            S("tree", type="T8u32u16", mode="random", slots=254, cap=254, keys=keys(300), histories=40, length=4000, checkpoint=50),
        ]
    return q


# ---------------------------------------------------------------------------
# hash set / array set scopes
# ---------------------------------------------------------------------------


def hset_scopes(tier, fill=1, rnd=True):
    q = [
        S("hset", type="HU64", mode="bfs", slots=4, cap=4, vals=keys(6), fill=fill),
        S("hset", type="HWeak", mode="bfs", slots=4, cap=4, vals=keys(6), fill=fill),
        S("hset", type="HU8", mode="bfs", slots=3, cap=3, vals="0,1,2,3,4,255", fill=fill),
        S("hset", type="HU32", mode="bfs", slots=3, cap=2, vals=keys(5), fill=fill),
        S("hset", type="HWeak", mode="bfs", slots=1, cap=1, vals=keys(4), fill=fill),
        S("hset", type="HA32", mode="bfs", slots=3, cap=3, vals=keys(5), fill=fill),
        S("hset", type="HU128", mode="bfs", slots=3, cap=3, vals=keys(5), fill=fill),
        S("hset", type="HB12", mode="bfs", slots=3, cap=3, vals=keys(5), fill=fill),
        # oracle-only (types outside the model): equality/hash on part of the value; non-zero Default
        S("hset", type="HTicket", mode="bfs", slots=3, cap=3, vals=keys(4), fill=0, nodriver=1),
        S("hset", type="HBps", mode="bfs", slots=3, cap=3, vals="0,1,2,10000", fill=fill, nodriver=1),
    ]
    for n in range(0, 11):
        q.append(S("hset", type="HB12", mode="random", slots=n, cap=n, vals=keys(2 * n + 3), histories=2, length=24 + 6 * n, fill=fill))
    if rnd:
        q += [
            S("hset", type="HU64", mode="random", slots=32, cap=32, vals=keys(80), histories=100, length=400, fill=fill),
            S("hset", type="HWeak", mode="random", slots=24, cap=24, vals=keys(60), histories=100, length=400, fill=fill),
            S("hset", type="HWeak", mode="random", slots=48, cap=48, vals=keys(110), histories=20, length=700, fill=fill, fresh_base=100000),
            S("hset", type="HU64", mode="random", slots=600, cap=600, vals=keys(1500), histories=2, length=9000, checkpoint=150, fill=fill, fresh_base=100000),
        ]
    if tier == "quick":
        return q
    t = list(q)
    t += [
        S("hset", type="HU32", mode="bfs", slots=5, cap=5, vals=keys(7), fill=fill, timeout=3000),
        S("hset", type="HWeak", mode="bfs", slots=5, cap=5, vals=keys(7), fill=fill, timeout=3000),
        S("hset", type="HU64", mode="bfs", slots=5, cap=4, vals=keys(7), fill=fill, timeout=3000),
        S("hset", type="HU8", mode="bfs", slots=6, cap=6, vals=keys(7), fill=0, max_states=300000, timeout=3000),
    ]
    if rnd:
        t += [
            S("hset", type="HU64", mode="random", slots=1000, cap=1000, vals=keys(2500), histories=6, length=20000, checkpoint=500, fill=0),
            S("hset", type="HU32", mode="random", slots=100, cap=100, vals=keys(250), histories=200, length=1500, checkpoint=10, fill=fill, fresh_base=100000),
            S("hset", type="HWeak", mode="random", slots=40, cap=40, vals=keys(100), histories=1000, length=400, fill=fill, fresh_base=100000),
        ]
    return t


def aset_scopes(tier, fill=1, rnd=True, logs=True):
    q = [
        S("aset", type="A8u8", mode="bfs", slots=4, vals=keys(6, 1), fill=fill),
        S("aset", type="A8u16", mode="bfs", slots=3, max_slots=5, vals=keys(6, 1), fill=fill),
        S("aset", type="A16keyed", mode="bfs", slots=4, vals=keys(5, 1), updates=1, fill=fill),
        S("aset", type="A64u64", mode="bfs", slots=4, vals="0,1,5,18446744073709551615,7", fill=fill),
        S("aset", type="A32u64", mode="bfs", slots=0, max_slots=2, vals="1,2,3", fill=fill),
        S("aset", type="A16u32", mode="bfs", slots=4, vals=keys(6, 1), fill=fill),
        S("aset", type="A8b3", mode="bfs", slots=3, max_slots=4, vals=keys(5, 1), fill=fill),
        S("aset", type="A16b12", mode="bfs", slots=3, vals=keys(4, 1), fill=fill),
    ]
    # odd element sizes x every small slot count (byte lengths with every combination of low bits)
    for n in range(0, 11):
        q.append(S("aset", type="A8b3", mode="random", slots=n, vals=keys(2 * n + 3, 1), histories=2, length=24 + 6 * n, fill=fill))
        q.append(S("aset", type="A16b12", mode="random", slots=n, vals=keys(2 * n + 3, 1), histories=2, length=24 + 6 * n, fill=fill))
    if logs:
        q += [
            S("aset", type="A16log", mode="bfs", slots=5, vals=keys(6, 1), fill=0),
            S("aset", type="A8log", mode="random", slots=70, vals=keys(150, 1), histories=40, length=500, fill=0),
            # hundreds of members: probe counts of lookups among 200-300 elements
            S("aset", type="A16log", mode="random", slots=300, vals=keys(600, 1), histories=2, length=3500, checkpoint=100, fill=0),
            S("aset", type="A8log", mode="random", slots=255, vals=keys(500, 1), histories=2, length=3000, checkpoint=100, fill=0),
        ]
    if rnd:
        q += [
            S("aset", type="A32u16", mode="random", slots=40, max_slots=60, vals=keys(100, 1), histories=100, length=400, fill=fill, fresh_base=1000),
            S("aset", type="A32keyed", mode="random", slots=30, vals=keys(70, 1), updates=1, histories=100, length=400, fill=fill),
            S("aset", type="A16u32", mode="random", slots=400, max_slots=700, vals=keys(1200, 1), histories=2, length=7000, checkpoint=150, fill=fill, fresh_base=100000),
        ]
    if tier == "quick":
        return q
    t = list(q)
    t += [
        S("aset", type="A8u8", mode="bfs", slots=5, vals=keys(7, 1), fill=fill, timeout=3000),
        S("aset", type="A64u8", mode="bfs", slots=5, vals=keys(7, 1), fill=fill, timeout=3000),
        S("aset", type="A32keyed", mode="bfs", slots=4, max_slots=5, vals=keys(5, 1), updates=1, fill=fill, timeout=3000),
        S("aset", type="A16log", mode="bfs", slots=6, vals=keys(7, 1), fill=0, timeout=3000),
    ]
    if rnd:
        t += [
            S("aset", type="A16u32", mode="random", slots=1000, vals=keys(2500, 1), histories=4, length=8000, checkpoint=200, fill=0),
            S("aset", type="A8u64", mode="random", slots=300, vals=keys(600, 1), histories=10, length=4000, checkpoint=50, fill=0),
            S("aset", type="A16log", mode="random", slots=2000, vals=keys(4000, 1), histories=2, length=12000, checkpoint=400, fill=0),
            S("aset", type="A8log", mode="random", slots=255, vals=keys(500, 1), histories=10, length=3000, checkpoint=50, fill=0),
        ]
    return t


def edge_other_scopes(tier):
    return [
        S("hset", type="HU64", mode="bfs", slots=0, cap=0, vals="0,1"),
        S("hset", type="HU64", mode="bfs", slots=1, cap=1, vals="0,1,18446744073709551615"),
        S("hset", type="HU8", mode="bfs", slots=2, cap=2, vals="0,1,255"),
        S("hset", type="HWeak", mode="bfs", slots=2, cap=2, vals="0,1,2,4294967295"),
        S("hset", type="HU32", mode="bfs", slots=2, cap=0, vals="0,1"),
        # oracle-only: value types whose Default is not all-zero bytes
        S("hset", type="HBps", mode="bfs", slots=2, cap=2, vals="0,1,10000", nodriver=1),
        S("tree", type="T32u32bps", mode="bfs", slots=2, cap=2, keys="0,1,2", updates=0, nodriver=1),
        S("tree", type="T8u8bps", mode="bfs", slots=2, cap=2, max_slots=3, keys="0,1,2", updates=0, nodriver=1),
        S("aset", type="A8u8", mode="bfs", slots=0, vals="0,1,255"),
        S("aset", type="A8u8", mode="bfs", slots=1, vals="0,1,255"),
        S("aset", type="A16u32", mode="bfs", slots=2, vals="0,1,4294967295"),
        S("aset", type="A64u64", mode="bfs", slots=2, vals="0,1,18446744073709551615"),
        S("aset", type="A8u16", mode="random", slots=300, vals=keys(400), histories=4, length=2500, checkpoint=50, fresh_base=1000),
        S("aset", type="A8u64", mode="random", slots=256, vals=keys(400), histories=4, length=2500, checkpoint=50, fresh_base=1000),
        S("aset", type="A8u16", mode="random", slots=255, vals=keys(400), histories=2, length=1500, checkpoint=50, fresh_base=1000),
    ]


def edge_value_scopes(tier):
    """C12 is anchored in the collections; the value types (strings, pods) are swept at their smallest sizes too, and an
    unexpected panic of one of their operations is counted as a C12 finding (`finding_counts_for` in check)."""
    return [S("podstr", n=n, chars=2) for n in (0, 1, 3)] + [S("pstr", w=w, size=w + 2, chars=2) for w in (1, 2)] + \
           [S("pstr", w=1, size=0, chars=1), S("pod", kind=0), S("pod", kind=4)]


# ---------------------------------------------------------------------------
# strings / pods
# ---------------------------------------------------------------------------


def pstr_scopes(tier):
    q = []
    for w in (1, 2):
        for size in (0, 1, 2, 3, 4, 5, 6, 9):
            q.append(S("pstr", w=w, size=w - 1 + size if size else max(w - 1, 0), chars=2))
        q.append(S("pstr", w=w, size=w + 4, chars=3, bytes=0))
        q.append(S("pstr", w=w, size=w + 19, chars=1, bytes=0, long=1))
    # sources longer than the prefix range (256+k / 65536+k bytes) copied into small payloads, a character across the cut
    for pay in (2, 4, 5):
        q.append(S("pstr", w=1, size=1 + pay, chars=1, bytes=0, wrap=1))
        # (65536-byte texts: oracle-only, the Lean driver's string handling is too slow for them)
        q.append(S("pstr", w=2, size=2 + pay, chars=1, bytes=0, wrap=1, nodriver=1))
    # prefix maximum: 254/255/256/257 payload bytes behind a u8 prefix, 65534..65537 behind u16
    for pay in (254, 255, 256, 257):
        q.append(S("pstr", w=1, size=1 + pay, chars=1, bytes=0))
    for pay in (65534, 65535, 65536, 65537):
        q.append(S("pstr", w=2, size=2 + pay, chars=1, bytes=0, alphabet="61,e9"))
    if tier == "thorough":
        for w in (1, 2):
            for size in range(0, 18):
                q.append(S("pstr", w=w, size=w + size, chars=3, bytes=1 if size <= 4 else 0))
            q.append(S("pstr", w=w, size=w + 7, chars=4, bytes=0, timeout=3000))
            q.append(S("pstr", w=w, size=w + 16, chars=4, bytes=0, timeout=3000))
    return q


def podstr_scopes(tier):
    q = [S("podstr", n=n, chars=2) for n in (0, 1, 2, 3, 4)]
    q += [S("podstr", n=5, chars=2, bytes=0), S("podstr", n=7, chars=3, bytes=0), S("podstr", n=10, chars=3, bytes=0)]
    # capacities around and beyond 16 with texts of every length up to the capacity and a little more
    q += [S("podstr", n=n, chars=1, bytes=0, long=1) for n in (10, 16, 17, 20, 33)]
    # texts ending in low control characters (the bytes just above the NUL terminator), capacities around 8 and 16
    q += [S("podstr", n=n, chars=1, bytes=0, ctl=1) for n in (7, 8, 9, 15, 16, 17, 24)]
    if tier == "thorough":
        q += [S("podstr", n=n, chars=4, bytes=0, timeout=3000) for n in (3, 4, 5, 7, 10)]
    return q


def pod_scopes(tier):
    return [S("pod", kind=k) for k in (0, 1, 2, 4, 8, 32)]


def rel_str(kind, op, detail):
    return kind in ("decode", "parse", "result", "abs", "state", "bytes")


# ---------------------------------------------------------------------------
# relevance filters: which driver mismatch kinds break which property's tie
# ---------------------------------------------------------------------------

GROW_OPS = {"ext", "open", "cap", "rcap"}


def only_slot_differs(detail):
    """A tree `ins` result mismatch where both sides succeeded and only the returned record index differs
    (a format matter, C10 — C01/C07 compare insert as "succeeded or not")."""
    m = re.search(r"implementation (some \d+|none|fault \w+), model (some \d+|none|fault \w+)\s*$", detail or "")
    return bool(m) and m.group(1).startswith("some") and m.group(2).startswith("some")


def rel_C01(kind, op, detail):
    if kind in ("decode", "parse", "wf-bst"):
        return True
    if kind == "result" and op == "ins" and only_slot_differs(detail):
        return False
    if kind in ("result", "abs") and op not in GROW_OPS and op not in ("fill", "dlen"):
        return True
    return False


def rel_C04(kind, op, detail):
    return kind in ("decode", "parse")


def rel_C06(kind, op, detail):
    return kind in ("decode", "parse", "wf-bal", "trace")


def rel_C07(kind, op, detail):
    if kind in ("decode", "parse", "wf-alloc"):
        return True
    if kind == "result" and op == "ins" and only_slot_differs(detail):
        return False
    return kind == "result" and op in ("fill", "full", "rfull", "ins")


def rel_C08(kind, op, detail):
    if kind in ("decode", "parse"):
        return True
    return kind in ("result", "abs", "state", "bytes") and op in GROW_OPS | {"fill"}


MUTATORS = ("ins", "rem", "upd", "init", "ext", "open", "take")


def rel_C09(kind, op, detail):
    # a refused operation or a query must leave the state as it was: the model does so by definition
    # (theorem), so any state/bytes difference on such a line is a broken tie for this property
    if kind in ("decode", "parse"):
        return True
    return kind in ("abs", "state", "bytes") and op not in MUTATORS


def rel_C10(kind, op, detail):
    return True


def rel_C12(kind, op, detail):
    if kind in ("decode", "parse"):
        return True
    return kind == "result" and "fault" in detail


def rel_none(kind, op, detail):
    return kind in ("parse",)


COMMON_ASSUME = [
    "little-endian target; rustc leaves padding bytes inside a record untouched when fields are assigned one by one (a mismatch would show as a C10 byte difference)",
    "key/value types used by the harness have all-zero Default and a total order / Hash consistent with Eq",
]

def rel_C02(kind, op, detail):
    if kind in ("decode", "parse", "wf-placed"):
        return True
    return kind in ("result", "abs") and op != "fill"


def rel_C03(kind, op, detail):
    if kind in ("decode", "parse", "wf-sorted"):
        return True
    return kind in ("result", "abs") and op not in ("ext", "fill")


PROPERTIES = {
    "C02": {
        "scopes": lambda tier: hset_scopes(tier),
        "relevant": rel_C02,
        "assumptions": COMMON_ASSUME + ["SipHash-1-3 is only executable in the model (validated against DefaultHasher on every placement); the theorems hold for every hash function"],
        "rule": "implementation transitions (byte state x operation); non-trivial = distinct byte states with a chain of >= 2 values and a non-empty free list",
    },
    "C03": {
        "scopes": lambda tier: aset_scopes(tier),
        "relevant": rel_C03,
        "assumptions": COMMON_ASSUME,
        "rule": "implementation transitions (byte state x operation); non-trivial = distinct byte states with >= 2 members and a free slot",
    },
    "C01": {
        "scopes": lambda tier: tree_scopes(tier),
        "relevant": rel_C01,
        "assumptions": COMMON_ASSUME,
    },
    "C04": {
        "scopes": lambda tier: tree_scopes(tier, logs=False) + hset_scopes(tier) + aset_scopes(tier, logs=False) + [x for x in edge_tree_scopes(tier) + edge_other_scopes(tier) if x["args"].get("mode") == "random"],
        "relevant": rel_C04,
        "assumptions": COMMON_ASSUME + ["addresses are not part of the model: relocation independence is checked on the implementation (every transition is executed twice, at two addresses), not proved"],
    },
    "C05": {
        # `missized=1`: from every fifth state the buffer is also cut short by one / two records (the header still claims
        # them) and every operation is run on it between guards - it may panic, it must not touch memory outside
        "scopes": lambda tier: [dict(x, args=dict(x["args"], missized="1")) for x in
                                aset_scopes(tier) + tree_scopes(tier, logs=False, rnd=False)[:8] + tree_scopes(tier, logs=False)[-3:] + hset_scopes(tier, rnd=False)[:3] + hset_scopes(tier)[-2:]]
                               + pstr_scopes("quick") + podstr_scopes("quick") + pod_scopes("quick"),
        "relevant": rel_none,
        "assumptions": COMMON_ASSUME + ["memory safety of safe Rust and of bytemuck's checked casts is trusted; guard regions and Miri support the search, they are not the proof"],
        "rule": "implementation transitions, each executed twice between 64-byte guard regions of two different patterns at two different addresses; non-trivial = distinct byte states with >= 2 members and a free slot",
        "trusted": ["tools/extract_facts.py (translation of the ptr::copy argument expressions of array_set.rs into Lean)"],
    },
    "C06": {
        "scopes": lambda tier: tree_scopes(tier, updates=0, fill=0) + [x for x in aset_scopes(tier, fill=0) if "log" in x["args"]["type"]],
        "relevant": rel_C06,
        "assumptions": COMMON_ASSUME,
    },
    "C07": {
        "scopes": lambda tier: tree_scopes(tier, updates=0, logs=False) + hset_scopes(tier),
        "relevant": rel_C07,
        "assumptions": COMMON_ASSUME,
    },
    "C08": {
        "scopes": lambda tier: [s for s in tree_scopes(tier, updates=0, logs=False) + aset_scopes(tier, logs=False) if "max_slots" in s["args"]],
        "relevant": rel_C08,
        "assumptions": COMMON_ASSUME,
    },
    "C09": {
        "scopes": lambda tier: tree_scopes(tier, logs=False, rnd=False) + hset_scopes(tier, rnd=False) + aset_scopes(tier, logs=False, rnd=False) + [x for x in edge_tree_scopes(tier) + edge_other_scopes(tier) if x["args"].get("mode") == "random"],
        "relevant": rel_C09,
        "assumptions": COMMON_ASSUME,
    },
    "C10": {
        "scopes": lambda tier: tree_scopes(tier, logs=False) + hset_scopes(tier) + aset_scopes(tier, logs=False),
        "relevant": rel_C10,
        "assumptions": COMMON_ASSUME,
    },
    "C11": {
        "scopes": lambda tier: pstr_scopes(tier) + podstr_scopes(tier),
        "relevant": rel_str,
        "assumptions": ["core Lean's ByteArray.validateUTF8/IsValidUTF8 coincide with Rust's str::from_utf8 (compared on every explored byte pattern: all byte strings of length <= 3 over 12 bytes covering every UTF-8 byte class, structured 4-byte cases)",
                        "deref_mut hands out &mut str: in-place mutation through safe str methods preserves UTF-8 by the standard library's contract and is not modelled"],
        "rule": "implementation transitions (buffer contents x operation), all strings of <= 2..3 chars over {NUL, a, e-acute, euro sign, U+1F600} at every buffer size listed; non-trivial = distinct buffers containing a non-ASCII byte",
    },
    "C13": {
        "scopes": lambda tier: pstr_scopes(tier),
        "relevant": rel_str,
        "assumptions": [],
        "rule": "implementation transitions (buffer contents x operation) incl. buffer sizes around the prefix maximum; non-trivial = distinct buffers containing a non-ASCII byte",
    },
    "C14": {
        "scopes": lambda tier: podstr_scopes(tier),
        "relevant": rel_str,
        "assumptions": ["lossy Display of invalid text is compared with Rust's own String::from_utf8_lossy of the text before the first NUL (implementation-side oracle); the model only specifies Display for valid text"],
        "rule": "implementation transitions (value bytes x operation); non-trivial = distinct values containing a non-ASCII byte",
    },
    "C15": {
        "scopes": lambda tier: pod_scopes(tier),
        "relevant": rel_str,
        "assumptions": ["bytemuck's alignment panics are out of scope (all inner types used have alignment 1 or the harness aligns the buffer)"],
        "rule": "implementation transitions (buffer x operation): all 256 byte values for PodBool at lengths 0,1,2,8; none-pattern and other patterns for PodOption over inner types of 1, 4, 8 (non-zero none-pattern) and 32 bytes at lengths n-1, n, n+1, n+7; non-trivial = distinct non-zero buffers",
    },
    "C12": {
        "scopes": lambda tier: edge_tree_scopes(tier) + edge_other_scopes(tier) + edge_value_scopes(tier),
        "relevant": rel_C12,
        "assumptions": COMMON_ASSUME + ["termination of the Rust loops is only watched (timeouts), the model terminates by structural recursion"],
    },
}


def run_extractor(root, log):
    """Source-facts extractor (tools/extract_facts.py), if present."""
    p = os.path.join(root, "tools", "extract_facts.py")
    if not os.path.exists(p):
        return {"applied": False, "note": "no extractor yet"}
    try:
        out = subprocess.run(["python3", p], stdout=subprocess.PIPE, stderr=subprocess.STDOUT, text=True, timeout=120)
        log.write(out.stdout)
        last = out.stdout.strip().splitlines()[-1] if out.stdout.strip() else "{}"
        note = json.loads(last)
    except Exception as e:  # noqa: BLE001
        note = {"applied": False, "note": f"extractor failed to run: {e}"}
    note["translator"] = run_translator(root, log)
    return note


def run_translator(root, log):
    """Rust -> Lean translator (tools/rust2lean.py): regenerates Stevia/Generated/*.lean from /repo's sources."""
    p = os.path.join(root, "tools", "rust2lean.py")
    if not os.path.exists(p):
        return []
    try:
        out = subprocess.run(["python3", p], stdout=subprocess.PIPE, stderr=subprocess.STDOUT, text=True, timeout=120)
        log.write(out.stdout)
        last = out.stdout.strip().splitlines()[-1] if out.stdout.strip() else "{}"
        return json.loads(last).get("translator", [])
    except Exception as e:  # noqa: BLE001
        return [{"source": "?", "untranslatable": {"<translator>": f"failed to run: {e}"}, "translated": [], "missing": []}]


MIRI_SCOPES = [
    ("aset", dict(type="A8u16", mode="bfs", slots=2, max_slots=2, vals="1,2,3", fill=0)),
    ("podstr", dict(n=2, chars=1, bytes=0)),
    ("pstr", dict(w=1, size=3, chars=1, bytes=0)),
]


def run_extras(pid, tier, seed, hbin, wd, env, log):
    """Property-specific additional programs. C05/thorough: the exhaustive small array-set and string scopes
    under Miri (support for the failing-input search: it pinpoints out-of-bounds raw accesses; not the proof)."""
    out = []
    if pid == "C05" and tier == "thorough":
        hdir = os.path.join(os.path.dirname(os.path.dirname(os.path.abspath(__file__))), "harness")
        for j, (coll, args) in enumerate(MIRI_SCOPES):
            stats = os.path.join(wd, f"miri{j}.stats.json")
            journal = os.path.join(wd, f"miri{j}.journal.txt")
            argv = ["cargo", "+nightly", "miri", "run", "--offline", "--", coll] + [f"{k}={v}" for k, v in args.items()] + \
                   ["out=/dev/null", f"stats={stats}", "op_timeout=3000"]
            e = dict(env, MIRIFLAGS="-Zmiri-disable-isolation", VERIF_JOURNAL=journal)
            rec = {"kind": "miri", "cmd": " ".join(argv[5:]), "evaluations": 0, "distinct_nontrivial": 0, "samples": []}
            try:
                p = subprocess.run(argv, cwd=hdir, env=e, stdout=subprocess.PIPE, stderr=subprocess.STDOUT, text=True, timeout=1200)
                log.write(p.stdout[-3000:])
                if "Undefined Behavior" in p.stdout or (p.returncode != 0 and "error:" in p.stdout):
                    ub = [l for l in p.stdout.splitlines() if "Undefined Behavior" in l or l.startswith("error")][:2]
                    last = open(journal).read().splitlines() if os.path.exists(journal) else []
                    rec["violation"] = f"Miri: {' / '.join(ub)[:400]} while executing `{last[-1] if last else '?'}`"
                    rec["replay"] = ["# " + " ".join([hbin, coll] + [f"{k}={v}" for k, v in args.items()]), "# reported by Miri (cargo +nightly miri run)"] + last
                    rec["found_input"] = bool(last)
                elif p.returncode != 0:
                    rec["note"] = f"miri did not run (exit {p.returncode}); not counted"
                else:
                    st = json.load(open(stats))
                    rec["evaluations"] = st.get("transitions", 0)
                    rec["distinct_nontrivial"] = st.get("nontrivial_states", 0)
                    rec["samples"] = [{"miri_scope": rec["cmd"], "case": x} for x in st.get("samples", [])[:1]]
                    for f in st.get("findings", []):
                        if f["property"] == pid and "violation" not in rec:
                            rec["violation"] = f["what"]
                            rec["replay"] = ["# " + " ".join([hbin, coll] + [f"{k}={v}" for k, v in args.items()])] + f["history"]
            except subprocess.TimeoutExpired:
                rec["note"] = "miri timed out; not counted"
            out.append(rec)
    if tier == "thorough":
        # independent re-check of the compiled property module by leanchecker
        ldir = os.path.join(os.path.dirname(os.path.dirname(os.path.abspath(__file__))), "lean")
        try:
            p = subprocess.run(["lake", "env", "leanchecker", f"Stevia.Props.{pid}"], cwd=ldir, stdout=subprocess.PIPE, stderr=subprocess.STDOUT, text=True, timeout=1200)
            rec = {"kind": "leanchecker", "cmd": f"lake env leanchecker Stevia.Props.{pid}", "exit": p.returncode, "evaluations": 0, "distinct_nontrivial": 0, "samples": []}
            if p.returncode != 0:
                rec["violation"] = f"leanchecker rejects Stevia.Props.{pid}: {p.stdout[-300:]}"
                rec["replay"] = [f"# lake env leanchecker Stevia.Props.{pid}", "# " + p.stdout[-300:].replace("\n", " ")]
                rec["found_input"] = False
            out.append(rec)
        except Exception as e:  # noqa: BLE001
            out.append({"kind": "leanchecker", "note": f"did not run: {e}", "evaluations": 0, "distinct_nontrivial": 0, "samples": []})
    return out
