#!/usr/bin/env python3
"""
Rust -> Lean translator for the algorithmic core of /repo/src (DESIGN.md §2.6).

Reads the *current* sources and writes Lean `do`-block transliterations of the listed functions to
lean/Stevia/Generated/*.lean.  `Stevia/Proofs/Gen*.lean` proves every generated function equal to the
literal model (`Stevia.Imp.*`, `Stevia.HImp.*`, ...), which in turn is proved equal to the functional model the
property theorems are about — so the theorems are re-checked against what the code says now.

What the translation does (this is the trusted part; it is kept syntax-directed and small):
  * one Lean `def` per Rust `fn`; `&mut self` methods take the image `m0` and return the new image (paired with
    the result); `let mut m := m0` is threaded exactly where Rust mutates through `self`;
  * statements map one-to-one onto Lean `do` notation (`let`, `let mut`, `:=`, `if`, `match`, `return`, `break`,
    `for`); `while c {b}` is `for _ in Fuel.mk fuel do if ¬c then break; b`, `loop {b}` is the same without the
    test and, if the fuel runs out, the function *fails* (`none`), like a panic;
  * primitive accesses are mapped by a per-file table (`node!(self.nodes, i).get_register(Register::Left)` is
    `(rd d m i).left`, `self.allocator.set_field(Field::Root, v)` is `m := {m with hdr := {m.hdr with root := v}}`,
    ...); `let e = &mut node!(..)` is tracked as an alias of that record;
  * unsigned arithmetic is arithmetic on `Nat` (`-` truncates at 0, `wrapping_add/sub` are modular, narrowing `as`
    casts are `% 2^N`), `as iN` is the embedding into `Int`; `panic!` is `failure`; `unwrap/expect` on an `Option`
    is `.getD default` (the C12 theorems of the functional model carry the absence of panics);
  * `Vec` is `List` (`push` appends, `pop` is `getLast?`/`dropLast`, `iter().rev()` is `reverse`).
Anything outside the subset makes the function untranslatable: it is then reported (and the corresponding bridge
theorem cannot be built), never guessed.
"""
import json
import os
import re
import sys

sys.path.insert(0, os.path.dirname(os.path.abspath(__file__)))
from rustparse import scan_functions, ParseError, N  # noqa: E402

REPO = os.environ.get("STEVIA_REPO", "/repo")
GEN = os.environ.get("STEVIA_GEN") or os.path.join(os.path.dirname(os.path.dirname(os.path.abspath(__file__))), "lean", "Stevia", "Generated")

LEAN_KEYWORDS = {"end", "from", "at", "then", "else", "do", "fun", "match", "with", "let", "in", "have", "show", "if",
                 "where", "open", "namespace", "section", "variable", "def", "theorem", "instance", "structure",
                 "class", "inductive", "for", "return", "break", "continue", "mut", "by", "this", "Type", "Prop", "Sort",
                 "deriving", "extends", "import", "export", "local", "private", "protected", "partial", "unsafe",
                 "macro", "syntax", "notation", "infix", "prefix", "postfix", "attribute", "set_option", "calc",
                 "try", "catch", "finally", "throw", "unless", "using", "obtain", "suffices", "nomatch", "nofun",
                 "abbrev", "axiom", "example", "universe", "mutual", "termination_by", "decreasing_by", "initialize"}


class Untranslatable(Exception):
    pass


FN_NAMES = set()


def lname(n):
    if n in LEAN_KEYWORDS:
        return n + "_"
    if n in FN_NAMES:
        return n + "_v"
    return n


class FnInfo:
    def __init__(self, fn, lean_name):
        self.fn = fn
        self.lean_name = lean_name
        self.can_fail = False       # contains panic! / out-of-fuel `loop` / calls something that can fail


class Emitter:
    def __init__(self):
        self.lines = []
        self.ind = 1

    def w(self, s):
        self.lines.append("  " * self.ind + s)


class Translator:
    """Generic part. A profile subclass supplies the primitive-access table and the signature conventions."""

    INT_BITS = 32
    STATE_TY = "TreeImage α β"
    PRE_PARAMS = ""            # e.g. "(d : Rec α β)"
    PRE_ARGS = ""              # e.g. "d"
    FUEL = "m0.recs.length + 1"
    TYPE_MAP = {}
    SELF_METHOD_RENAME = {}
    NO_AUTO = ()               # method names that a profile renders itself (never auto-included as helpers)

    def __init__(self, src, wanted):
        self.src = src
        self.fns = {}
        for f in scan_functions(src):
            if f.name in wanted and f.name not in self.fns and self.accept_fn(f):
                if f.body is not None:
                    self.preprocess(f)
                self.fns[f.name] = FnInfo(f, wanted[f.name] if isinstance(wanted, dict) else f.name)
                continue
            # `name@owner`: a second function of the same Rust name, told apart by its `impl` header
            for key in wanted:
                if "@" in key and key not in self.fns:
                    nm, own = key.split("@", 1)
                    if f.name == nm and own in f.owner.replace(" ", ""):
                        if f.body is not None:
                            self.preprocess(f)
                        self.fns[key] = FnInfo(f, wanted[key])
        self.missing = [w for w in wanted if w not in self.fns]
        self.errors = {}
        # private helpers: a function of this file that a translated function calls on `self` / `Self::` and that is not
        # in the list is translated as well (transitively), so that extracting a helper does not leave the subset
        self.auto = []
        by_name = {}
        for f in scan_functions(src):
            if f.body is not None and f.name not in by_name and not f.name.startswith("test"):
                by_name[f.name] = f
        rust_names = {fi.fn.name for fi in self.fns.values()}
        grew = True
        while grew:
            grew = False
            for fi in list(self.fns.values()):
                if fi.fn.body is None:
                    continue
                found = []

                def visit(n):
                    nm = None
                    if n.kind == "mcall" and self.is_self(n.recv):
                        nm = n.name
                    elif n.kind == "call" and n.f.kind == "path" and len(n.f.path) == 2 and n.f.path[0] == "Self":
                        nm = n.f.path[1]
                    if nm and nm not in self.fns and nm not in rust_names and nm in by_name and nm not in self.NO_AUTO:
                        found.append(nm)
                self.walk(fi.fn.body, visit)
                for nm in found:
                    if nm in self.fns:
                        continue
                    f = by_name[nm]
                    if not self.accept_fn(f):
                        continue
                    self.preprocess(f)
                    self.fns[nm] = FnInfo(f, nm)
                    self.auto.append(nm)
                    grew = True
        FN_NAMES.clear()
        FN_NAMES.update(fi.lean_name for fi in self.fns.values())
        # which functions can fail (fixpoint)
        changed = True
        while changed:
            changed = False
            for fi in self.fns.values():
                if not fi.can_fail and fi.fn.body is not None and self.body_can_fail(fi.fn.body):
                    fi.can_fail = True
                    changed = True

    def accept_fn(self, f):
        return True

    def preprocess(self, f):
        pass

    # ----------------------------------------------------------------- analysis helpers
    def walk(self, node, fn):
        if isinstance(node, N):
            fn(node)
            for v in node.__dict__.values():
                self.walk(v, fn)
        elif isinstance(node, (list, tuple)):
            for v in node:
                self.walk(v, fn)

    def body_can_fail(self, body):
        found = []

        def visit(n):
            if n.kind == "macro" and n.name in ("panic", "unreachable", "todo", "unimplemented", "assert", "debug_assert"):
                found.append(1)
            if n.kind in ("loop", "while"):
                found.append(1)
            if n.kind == "mcall" and self.is_self(n.recv) and n.name in self.fns and self.fns[n.name].can_fail:
                found.append(1)
        self.walk(body, visit)
        return bool(found)

    def is_self(self, e):
        return e.kind == "path" and e.path == ["self"]

    def diverges(self, block):
        """Does the block end in return / break / continue / panic (so it has no value)?"""
        if block.kind != "block":
            return block.kind in ("return", "break", "continue") or (block.kind == "macro" and block.name == "panic")
        if block.tail is not None:
            return self.diverges(block.tail)
        if block.stmts:
            s = block.stmts[-1]
            if s.kind == "sexpr":
                return self.diverges(s.e)
        return False

    def is_simple_value(self, e):
        """An expression that can be written as one pure Lean term (no statements inside, no effects)."""
        if e.kind == "block":
            return not e.stmts and e.tail is not None and self.is_simple_value(e.tail)
        if e.kind == "if":
            return e.els is not None and self.is_simple_value(e.then) and self.is_simple_value(e.els) and not self.effectful(e.cond)
        if e.kind in ("iflet", "match", "while", "loop", "for", "return", "break", "continue", "assign"):
            return False
        return not self.effectful(e)

    def effectful(self, e):
        found = []

        def visit(n):
            if n.kind == "mcall":
                if self.is_self(n.recv) and n.name in self.fns and self.fns[n.name].fn.self_kind == "mut":
                    found.append(1)
                if self.is_self(n.recv) and n.name in self.fns and self.fns[n.name].can_fail:
                    found.append(1)
                if n.name in ("pop", "push", "extend") and n.recv.kind == "path" and len(n.recv.path) == 1:
                    found.append(1)
                if self.effect_mcall(n):
                    found.append(1)
            if n.kind in ("return", "break", "continue", "assign", "while", "loop", "for"):
                found.append(1)
            if n.kind == "macro" and n.name == "panic":
                found.append(1)
        self.walk(e, visit)
        return bool(found)

    def effect_mcall(self, n):
        return False

    # ----------------------------------------------------------------- types
    def lean_type(self, ty):
        if ty is None:
            return "Unit"
        t = ty.replace(" ", "")
        t = t.lstrip("&")
        if t.startswith("mut"):
            t = t[3:]
        if t.startswith("'a"):
            t = t[2:]
        if t in self.TYPE_MAP:
            return self.TYPE_MAP[t]
        if t in ("u8", "u16", "u32", "u64", "u128", "usize"):
            return "Nat"
        if t in ("i8", "i16", "i32", "i64", "isize"):
            return "Int"
        if t == "bool":
            return "Bool"
        m = re.match(r"Option<(.*)>$", t)
        if m:
            return "Option " + self.paren_ty(self.lean_type(m.group(1)))
        m = re.match(r"Vec<(.*)>$", t)
        if m:
            return "List " + self.paren_ty(self.lean_type(m.group(1)))
        if t.startswith("(") and t.endswith(")"):
            parts = self.split_top(t[1:-1])
            return " × ".join(self.paren_ty(self.lean_type(p)) for p in parts)
        raise Untranslatable(f"type {ty!r}")

    def paren_ty(self, t):
        return f"({t})" if " " in t else t

    def split_top(self, s):
        out, depth, cur = [], 0, ""
        for ch in s:
            if ch in "<([":
                depth += 1
            elif ch in ">)]":
                depth -= 1
            if ch == "," and depth == 0:
                out.append(cur)
                cur = ""
            else:
                cur += ch
        if cur:
            out.append(cur)
        return out

    # ----------------------------------------------------------------- function translation
    def translate_all(self):
        out = []
        self.outputs = {}          # lean name -> text (translated functions only)
        for name, fi in self.fns.items():
            try:
                if fi.fn.body is None:
                    raise Untranslatable("parse error: " + str(fi.fn.error))
                t = self.translate_fn(fi)
                if name in getattr(self, "auto", ()):
                    # an extracted helper: `simp` may unfold it wherever it is called (the bridge proofs do not know its name)
                    t = t.replace("\ndef ", "\n@[reducible, simp] def ", 1)
                    # a single-expression pure helper is emitted without the `Id.run do` wrapper, so that it unfolds to its
                    # expression under reducible transparency (what `simp only`/`rw` match with)
                    m_ = re.search(r":= Id\.run do\n  return (.*)\Z", t)
                    if m_ and "\n" not in m_.group(1):
                        t = t[:m_.start()] + ":=\n  " + m_.group(1)
                out.append(t)
                self.outputs[fi.lean_name] = t
            except (Untranslatable, ParseError) as ex:
                self.errors[name] = str(ex)
        # an extracted helper that cannot be translated matters only if a translated function really calls it
        # (e.g. a capacity hint for `Vec::with_capacity` is dropped by the translation, and its helper with it)
        for name in list(self.errors):
            if name in getattr(self, "auto", ()):
                ln = self.fns[name].lean_name
                if not any(re.search(r"\b" + re.escape(ln) + r"\b", t) for t in self.outputs.values()):
                    del self.errors[name]
                    del self.fns[name]
                    self.auto.remove(name)
        return "\n\n".join(out)

    def translate_fn(self, fi):
        f = fi.fn
        self.cur = fi
        self.tmp = 0
        self.aliases = {}
        self.muts = self.assigned_vars(f.body)
        self.loop_depth = 0
        self.broke_flags = []
        self.exit_n = 0
        self.env = [{}]
        self.mutset = set()
        em = Emitter()
        self.em = em
        mutself = f.self_kind == "mut" or self.treat_as_mut(f)
        self.mutself = mutself
        params = []
        for pn, pt in f.params:
            lt = self.param_type(f, pn, pt)
            if lt is not None:
                params.append(f"({lname(pn)} : {lt})")
        ret = self.lean_type(f.ret) if f.ret else "Unit"
        ret = self.ret_type_override(f, ret)
        self.ret_unit = (ret == "Unit")
        if mutself:
            full = self.STATE_TY if self.ret_unit else f"{self.STATE_TY} × {self.paren_ty(ret)}"
        else:
            full = ret
        self.bool_ret = (ret == "Bool")
        if fi.can_fail:
            full = f"Option ({full})"
        state_param = "m0" if mutself else "m"
        hdr = f"def {fi.lean_name} {self.PRE_PARAMS} ({state_param} : {self.STATE_TY})" + "".join(" " + p for p in params) + f" :\n    {full} := " + ("do" if fi.can_fail else "Id.run do")
        if mutself:
            em.w("let mut m := m0")
        if self.uses_fuel(f.body):
            em.w(f"let fuel := {self.FUEL if mutself else self.FUEL.replace('m0', 'm')}")
        self.block_stmts(f.body, is_fn_body=True)
        doc = f"/-- `{f.name}` (line {f.src_line}). -/\n"
        return doc + hdr + "\n" + "\n".join(em.lines)

    def treat_as_mut(self, f):
        return False

    def param_type(self, f, pn, pt):
        return self.lean_type(pt)

    def ret_type_override(self, f, ret):
        return ret

    def uses_fuel(self, body):
        found = []
        self.walk(body, lambda n: found.append(1) if n.kind in ("while", "loop") else None)
        return bool(found)

    def assigned_vars(self, body):
        vs = set()

        def visit(n):
            if n.kind == "assign" and n.lhs.kind == "path" and len(n.lhs.path) == 1:
                vs.add(n.lhs.path[0])
            if n.kind == "mcall" and n.name in ("push", "pop", "extend") and n.recv.kind == "path" and len(n.recv.path) == 1:
                vs.add(n.recv.path[0])
            if n.kind == "let" and n.pat.kind == "pident" and n.init is not None and not self.is_simple_value(n.init) and n.init.kind in ("if", "match", "block", "iflet"):
                vs.add(n.pat.name)
        self.walk(body, visit)
        return vs

    # ----------------------------------------------------------------- statements
    def fresh(self):
        self.tmp += 1
        return f"__t{self.tmp}"

    # -- lexical scopes (Lean forbids shadowing a `let mut` variable; Rust does not)
    def push_scope(self):
        self.env.append({})

    def pop_scope(self):
        self.env.pop()

    def lookup(self, n):
        for sc in reversed(self.env):
            if n in sc:
                return sc[n]
        return lname(n)

    def bind(self, n, mutable=False):
        ln = lname(n)
        visible = {v for sc in self.env for v in sc.values()}
        if ln in visible and ln in self.mutset:
            k = 1
            while f"{ln}_{k}" in visible:
                k += 1
            ln = f"{ln}_{k}"
        self.env[-1][n] = ln
        if mutable:
            self.mutset.add(ln)
        return ln

    def ret_value(self, val):
        """Lean text of the value a `return` yields, given the Rust-level value text (None for unit)."""
        if self.mutself:
            return "m" if (self.ret_unit or val is None) else f"(m, {val})"
        return "()" if val is None else val

    def emit_return(self, e):
        if e is None:
            self.em.w(f"return {self.ret_value(None)}")
            return
        v = self.ex(e, hoist=True)
        if self.bool_ret:
            v = self.as_bool(e, v)
        self.em.w(f"return {self.ret_value(v)}")

    def as_bool(self, e, v):
        e0 = e
        while e0.kind == "paren":
            e0 = e0.e
        if e0.kind == "bin" and e0.op in ("==", "!=", "<", ">", "<=", ">=", "&&", "||"):
            return f"decide ({v})"
        if e0.kind == "un" and e0.op == "!":
            return f"decide ({v})"
        return v

    def block_stmts(self, block, is_fn_body=False, value_target=None):
        """Emit the statements of a block. `value_target`: variable receiving the block's value (if any)."""
        self.push_scope()
        try:
            self.block_stmts_(block, is_fn_body, value_target)
        finally:
            self.pop_scope()

    def block_stmts_(self, block, is_fn_body, value_target):
        for s in block.stmts:
            self.stmt(s)
        if block.tail is not None:
            t = block.tail
            if is_fn_body:
                if t.kind in ("if", "iflet", "match") and not self.is_simple_value(t):
                    self.value_stmt(t, ("return", None))
                elif t.kind in ("return", "break", "continue"):
                    self.expr_stmt(t)
                elif t.kind in ("for", "while", "loop") or (self.ret_unit and t.kind in ("if", "iflet", "match", "mcall", "call", "macro", "block", "unsafe")):
                    self.expr_stmt(t)
                    self.em.w(f"return {self.ret_value(None)}")
                else:
                    self.emit_return(t)
            elif value_target is not None:
                self.value_stmt(t, value_target)
            else:
                self.expr_stmt(t)
        elif is_fn_body and not self.diverges(block):
            self.em.w(f"return {self.ret_value(None)}")

    def value_stmt(self, e, target):
        """Evaluate `e` and deliver its value to target: ("var", name) | ("return", None)."""
        while e.kind == "paren":
            e = e.e
        if e.kind in ("return", "break", "continue") or (e.kind == "macro" and e.name == "panic"):
            self.expr_stmt(e)
            return
        if e.kind == "block":
            self.block_stmts(e, value_target=target)
            return
        if e.kind == "unsafe":
            self.block_stmts(e.body, value_target=target)
            return
        if e.kind == "if" and not self.is_simple_value(e):
            c = self.cond(e.cond)
            self.em.w(f"if {c} then")
            self.em.ind += 1
            self.block_stmts(e.then, value_target=target)
            self.em.ind -= 1
            if e.els is not None:
                self.em.w("else")
                self.em.ind += 1
                self.value_stmt(e.els, target)
                self.em.ind -= 1
            return
        if e.kind == "match" and not self.is_simple_value(e):
            self.match_stmt(e, target)
            return
        if e.kind == "iflet" and not self.is_simple_value(e):
            self.iflet_stmt(e, target)
            return
        if target[0] == "return":
            self.emit_return(e)
        else:
            v = self.ex(e, hoist=True)
            self.em.w(f"{target[1]} := {v}")

    def infer_type(self, e):
        """Lean type of the value of a block-like expression (from its tails)."""
        tails = []

        def collect(x):
            while x.kind == "paren":
                x = x.e
            if x.kind == "block":
                if x.tail is not None:
                    collect(x.tail)
            elif x.kind == "if":
                collect(x.then)
                if x.els is not None:
                    collect(x.els)
            elif x.kind == "iflet":
                collect(x.then)
                if x.els is not None:
                    collect(x.els)
            elif x.kind == "match":
                for _, _, b in x.arms:
                    collect(b)
            elif x.kind in ("return", "break", "continue"):
                pass
            else:
                tails.append(x)
        collect(e)
        for t in tails:
            ty = self.expr_type(t)
            if ty:
                return ty
        return "Nat"

    def expr_type(self, t):
        if t.kind == "path" and t.path[0] == "Register":
            return "Bool"
        if t.kind == "call" and t.f.kind == "path" and t.f.path == ["Some"]:
            return "Option Nat"
        if t.kind == "path" and t.path == ["None"]:
            return "Option Nat"
        if t.kind == "path" and t.path in (["true"], ["false"]):
            return "Bool"
        return None

    def stmt(self, s):
        k = s.kind
        if k == "let":
            self.let_stmt(s)
        elif k == "assign":
            self.assign_stmt(s)
        elif k == "sexpr":
            self.expr_stmt(s.e)
        else:
            raise Untranslatable(f"statement {k}")

    def let_stmt(self, s):
        pat, init = s.pat, s.init
        if init is None:
            raise Untranslatable("let without initializer")
        if self.skip_let(s):
            return
        if pat.kind == "pident":
            name = pat.name
            # alias of a record: let e = &mut node!(..)
            al = self.alias_target(init)
            if al is not None:
                self.aliases[name] = al
                return
            if self.vec_new(init):
                ty = self.lean_type(s.ty) if s.ty else "List Ancestor"
                self.em.w(f"let mut {self.bind(name, True)} : {ty} := []")
                return
            if init.kind in ("if", "match", "block", "iflet") and not self.is_simple_value(init):
                ty = self.infer_type(init)
                ln = self.bind(name, True)
                self.em.w(f"let mut {ln} : {ty} := default")
                self.value_stmt(init, ("var", ln))
                return
            v = self.ex(init, hoist=True)
            ismut = pat.mut and name in self.muts
            self.aliases.pop(name, None)
            self.em.w(f"let {'mut ' if ismut else ''}{self.bind(name, ismut)} := {v}")
            return
        if pat.kind == "ptuple":
            v = self.ex(init, hoist=True)
            names = [self.pat_text(p) for p in pat.items]
            self.em.w(f"let ({', '.join(names)}) := {v}")
            return
        raise Untranslatable(f"let pattern {pat.kind}")

    def skip_let(self, s):
        return False

    def vec_new(self, e):
        return e.kind == "call" and e.f.kind == "path" and e.f.path[0] == "Vec" and e.f.path[-1] in ("with_capacity", "new")

    def alias_target(self, init):
        return None

    def pat_text(self, p):
        if p.kind == "pwild":
            return "_"
        if p.kind == "pident":
            return self.bind(p.name)
        if p.kind == "ptuple":
            return "(" + ", ".join(self.pat_text(x) for x in p.items) + ")"
        if p.kind == "pctor":
            head = p.path[-1]
            if head == "Some":
                return "some " + self.pat_text(p.items[0])
            if head == "None":
                return "none"
            m = self.ctor_pattern(p)
            if m is not None:
                return m
        raise Untranslatable(f"pattern {p!r}")

    def ctor_pattern(self, p):
        return None

    def assign_stmt(self, s):
        lhs = s.lhs
        if lhs.kind == "path" and len(lhs.path) == 1:
            x = self.lookup(lhs.path[0])
            if s.op == "=" and s.rhs.kind in ("if", "match", "block", "iflet") and not self.is_simple_value(s.rhs):
                # `x = if c { a } else { return r };` — each branch assigns (or leaves) by itself
                self.value_stmt(s.rhs, ("var", x))
                return
            r = self.ex(s.rhs, hoist=True)
            if s.op == "=":
                self.em.w(f"{x} := {r}")
            elif s.op in ("+=", "-="):
                self.em.w(f"{x} := {self.arith(s.op[0], x, r)}")
            else:
                raise Untranslatable(f"assignment operator {s.op}")
            return
        if self.profile_assign(s):
            return
        raise Untranslatable(f"assignment target {lhs!r}")

    def profile_assign(self, s):
        return False

    def expr_stmt(self, e):
        while e.kind == "paren":
            e = e.e
        k = e.kind
        if k == "return":
            self.emit_return(e.e)
        elif k == "break":
            if self.broke_flags and self.broke_flags[-1]:
                self.em.w(f"{self.broke_flags[-1]} := true")
            self.em.w("break")
        elif k == "continue":
            self.em.w("continue")
        elif k == "if":
            c = self.cond(e.cond)
            self.em.w(f"if {c} then")
            self.em.ind += 1
            n0 = len(self.em.lines)
            self.block_stmts(e.then)
            if len(self.em.lines) == n0:
                self.em.w("pure ()")
            self.em.ind -= 1
            if e.els is not None:
                self.em.w("else")
                self.em.ind += 1
                n0 = len(self.em.lines)
                if e.els.kind == "block":
                    self.block_stmts(e.els)
                else:
                    self.expr_stmt(e.els)
                if len(self.em.lines) == n0:
                    self.em.w("pure ()")
                self.em.ind -= 1
        elif k == "iflet":
            self.iflet_stmt(e, None)
        elif k == "match":
            self.match_stmt(e, None)
        elif k == "block":
            self.block_stmts(e)
        elif k == "unsafe":
            self.block_stmts(e.body)
        elif k == "while":
            # like `loop`: leaving the loop because the fuel ran out (and not because the condition failed or a
            # `break` was taken) is failure - the translated function then answers `none`, never a made-up value
            flag = f"__exit{self.exit_counter()}"
            self.em.w(f"let mut {flag} := false")
            self.em.w("for _ in Fuel.mk fuel do")
            self.em.ind += 1
            self.broke_flags.append(flag)
            c = self.cond(e.cond)
            self.em.w(f"if ¬ ({c}) then")
            self.em.w(f"  {flag} := true")
            self.em.w("  break")
            self.block_stmts(e.body)
            self.broke_flags.pop()
            self.em.ind -= 1
            self.em.w(f"if ¬ {flag} then failure")
        elif k == "loop":
            flag = f"__exit{self.exit_counter()}"
            self.em.w(f"let mut {flag} := false")
            self.em.w("for _ in Fuel.mk fuel do")
            self.em.ind += 1
            self.broke_flags.append(flag)
            self.block_stmts(e.body)
            self.broke_flags.pop()
            self.em.ind -= 1
            self.em.w(f"if ¬ {flag} then failure")
        elif k == "for":
            it = self.iter_expr(e.iter)
            self.push_scope()
            self.em.w(f"for {self.pat_text(e.pat)} in {it} do")
            self.em.ind += 1
            self.broke_flags.append(None)
            self.block_stmts(e.body)
            self.broke_flags.pop()
            self.em.ind -= 1
            self.pop_scope()
        elif k == "macro" and e.name == "panic":
            self.em.w("failure")
        elif k == "macro" and e.name in ("debug_assert", "assert") and e.args:
            # `assert!(c, ..)` panics when `c` is false; `debug_assert!` is read the same way (it does in builds with
            # debug assertions), so an assertion that can fail shows as a failing translated function
            c = self.ex(e.args[0], hoist=True)
            self.em.w(f"if ¬ ({c}) then failure")
        elif k == "assign":
            self.assign_stmt(e)
        elif k in ("mcall", "call", "macro"):
            if not self.effect_stmt(e):
                raise Untranslatable(f"expression statement without effect: {e!r}")
        else:
            raise Untranslatable(f"expression statement {k}")

    def exit_counter(self):
        self.exit_n = getattr(self, "exit_n", 0) + 1
        return self.exit_n

    def iter_expr(self, it):
        # path.iter().rev()  |  path.iter()
        if it.kind == "mcall" and it.name == "rev" and it.recv.kind == "mcall" and it.recv.name == "iter":
            return f"({self.ex(it.recv.recv)}).reverse"
        if it.kind == "mcall" and it.name == "iter":
            return self.ex(it.recv)
        raise Untranslatable(f"iterator {it!r}")

    def iflet_stmt(self, e, target):
        v = self.ex(e.e, hoist=True)
        self.em.w(f"match {v} with")
        self.push_scope()
        self.em.w(f"| {self.pat_text(e.pat)} =>")
        self.em.ind += 1
        n0 = len(self.em.lines)
        self.block_stmts(e.then, value_target=target)
        if len(self.em.lines) == n0:
            self.em.w("pure ()")
        self.em.ind -= 1
        self.pop_scope()
        self.em.w("| _ =>")
        self.em.ind += 1
        n0 = len(self.em.lines)
        if e.els is not None:
            if target is not None:
                self.value_stmt(e.els, target)
            elif e.els.kind == "block":
                self.block_stmts(e.els)
            else:
                self.expr_stmt(e.els)
        if len(self.em.lines) == n0:
            self.em.w("pure ()")
        self.em.ind -= 1

    def match_stmt(self, e, target):
        v = self.ex(e.e, hoist=True)
        self.em.w(f"match {v} with")
        for pats, guard, body in e.arms:
            if len(pats) != 1:
                raise Untranslatable("or-pattern")
            if guard is not None:
                raise Untranslatable("match guard")
            self.push_scope()
            self.em.w(f"| {self.pat_text(pats[0])} =>")
            self.em.ind += 1
            n0 = len(self.em.lines)
            if target is not None:
                self.value_stmt(body, target)
            elif body.kind == "block":
                self.block_stmts(body)
            else:
                self.expr_stmt(body)
            if len(self.em.lines) == n0:
                self.em.w("pure ()")
            self.em.ind -= 1
            self.pop_scope()

    def effect_stmt(self, e):
        """A call / macro in statement position that has an effect. Returns False if unknown."""
        if e.kind == "mcall":
            # Vec operations on locals
            if e.recv.kind == "path" and len(e.recv.path) == 1 and e.recv.path[0] != "self":
                x = self.lookup(e.recv.path[0])
                if e.name == "push":
                    self.em.w(f"{x} := {x} ++ [{self.ex(e.args[0], hoist=True)}]")
                    return True
                if e.name == "pop":
                    self.em.w(f"{x} := {x}.dropLast")
                    return True
                if e.name == "extend":
                    self.em.w(f"{x} := {x} ++ {self.ex(e.args[0], hoist=True)}")
                    return True
            if self.is_self(e.recv) and e.name in self.fns:
                callee = self.fns[e.name]
                call = self.self_call(callee, e.args)
                if callee.fn.self_kind == "mut":
                    if callee.fn.ret:
                        t = self.fresh()
                        self.em.w(f"let {t} {'←' if callee.can_fail else ':='} {call}")
                        self.em.w(f"m := {t}.1")
                    elif callee.can_fail:
                        self.em.w(f"m ← {call}")
                    else:
                        self.em.w(f"m := {call}")
                    return True
                return False
        return self.profile_effect(e)

    def profile_effect(self, e):
        return False

    def self_call(self, callee, args):
        a = " ".join(self.atom(self.ex(x, hoist=True)) for x in args)
        pre = (" " + self.PRE_ARGS) if self.PRE_ARGS else ""
        return f"{callee.lean_name}{pre} m" + (" " + a if a else "")

    # ----------------------------------------------------------------- expressions
    def atom(self, s):
        if re.fullmatch(r"[A-Za-z_][A-Za-z_0-9.']*|\d+|\(.*\)|\[.*\]", s) and self.balanced(s):
            return s
        return f"({s})"

    def balanced(self, s):
        if not (s.startswith("(") or s.startswith("[")):
            return True
        depth = 0
        for i, ch in enumerate(s):
            if ch in "([":
                depth += 1
            elif ch in ")]":
                depth -= 1
                if depth == 0 and i != len(s) - 1:
                    return False
        return True

    def cond(self, e):
        return self.ex(e, hoist=True)

    def arith(self, op, a, b):
        return f"{self.atom(a)} {op} {self.atom(b)}"

    def ex(self, e, hoist=False):
        """Lean term for a Rust expression. With hoist=True effectful sub-calls are emitted as statements first."""
        k = e.kind
        if k == "paren":
            return self.atom(self.ex(e.e, hoist))
        if k == "num":
            return str(int(e.val, 0)) if not e.val.startswith("0x") else str(int(e.val, 16))
        if k == "path":
            return self.path_expr(e)
        if k == "deref":
            return self.ex(e.e, hoist)
        if k == "ref":
            return self.ex(e.e, hoist)
        if k == "un":
            v = self.ex(e.e, hoist)
            if e.op == "!":
                return f"¬ {self.atom(v)}"
            return f"(-{self.atom(v)})"
        if k == "bin":
            return self.bin_expr(e, hoist)
        if k == "cast":
            return self.cast_expr(e, hoist)
        if k == "tuple":
            return "(" + ", ".join(self.ex(x, hoist) for x in e.items) + ")"
        if k == "if":
            if not self.is_simple_value(e):
                raise Untranslatable("if-expression with statements in expression position")
            c = self.ex(e.cond, hoist)
            return f"if {c} then {self.ex(e.then, hoist)} else {self.ex(e.els, hoist)}"
        if k == "block":
            if e.stmts or e.tail is None:
                raise Untranslatable("block with statements in expression position")
            return self.ex(e.tail, hoist)
        if k == "call":
            return self.call_expr(e, hoist)
        if k == "mcall":
            return self.mcall_expr(e, hoist)
        if k == "field":
            return self.field_expr(e, hoist)
        if k == "tfield":
            return f"{self.atom(self.ex(e.e, hoist))}.{e.idx + 1}"
        if k == "macro":
            return self.macro_expr(e, hoist)
        if k == "closure":
            self.push_scope()
            ps = " ".join(self.pat_text(p) for p in e.params)
            r = f"fun {ps} => {self.ex(e.body)}"
            self.pop_scope()
            return r
        if k == "index":
            return self.index_expr(e, hoist)
        raise Untranslatable(f"expression {k}")

    def path_expr(self, e):
        p = e.path
        if len(p) == 1:
            n = p[0]
            if n == "true" or n == "false":
                return n
            if n == "None":
                return "none"
            if n in self.CONSTS:
                return self.CONSTS[n]
            return self.lookup(n)
        v = self.const_path(p)
        if v is not None:
            return v
        raise Untranslatable(f"path {'::'.join(p)}")

    CONSTS = {"SENTINEL": "0"}

    def const_path(self, p):
        return None

    def bin_expr(self, e, hoist):
        a = self.ex(e.l, hoist)
        b = self.ex(e.r, hoist)
        op = e.op
        A, B = self.atom(a), self.atom(b)
        if op in ("==", "!="):
            # `==` is symmetric. To be insensitive to which side the source writes first, the orientation is taken from
            # a memo of the orientations in the reference source (tools/eq_orient.json, recorded with
            # STEVIA_RECORD_EQ=1): a comparison whose mirror image is in the memo is emitted mirrored; a constant
            # goes to the right. Swapping the operands of `=` / `≠` never changes the meaning.
            if EQ_RECORD is not None:
                EQ_RECORD.add((A, B))
            elif ((B, A) in EQ_ORIENT and (A, B) not in EQ_ORIENT) or \
                    (re.fullmatch(r"[0-9]+", A) is not None and re.fullmatch(r"[0-9]+", B) is None):
                A, B = B, A
            return f"{A} = {B}" if op == "==" else f"{A} ≠ {B}"
        if op == "<":
            return f"{A} < {B}"
        if op == ">":
            return f"{B} < {A}"
        if op == "<=":
            return f"{A} ≤ {B}"
        if op == ">=":
            return f"{A} ≥ {B}"
        if op == "&&":
            return f"{A} ∧ {B}"
        if op == "||":
            return f"{A} ∨ {B}"
        if op in ("+", "-", "*", "/", "%"):
            return f"{A} {op} {B}"
        raise Untranslatable(f"operator {op}")

    def cast_expr(self, e, hoist):
        v = self.ex(e.e, hoist)
        ty = e.ty.replace(" ", "")
        if ty == "usize" or ty == "u64" or ty == "u128":
            return v
        if ty in ("i8", "i16", "i32", "i64", "isize"):
            return f"(({v} : Nat) : Int)"
        if ty in ("u8", "u16", "u32"):
            bits = int(ty[1:])
            if self.known_narrow(e.e, bits):
                return v
            return f"{self.atom(v)} % {2 ** bits}"
        raise Untranslatable(f"cast to {e.ty}")

    def known_narrow(self, e, bits):
        """Is the operand already known to be below 2^bits (same or narrower source type)?"""
        return False

    def call_expr(self, e, hoist):
        f = e.f
        if f.kind == "path":
            p = f.path
            if p == ["Some"]:
                return f"some {self.atom(self.ex(e.args[0], hoist))}"
            if len(p) == 2 and p[1] == "from" and p[0] in ("usize", "u16", "u32", "u64", "u128") and len(e.args) == 1:
                # `usize::from(x)`, `u32::from(x)`, …: `From` between unsigned integers exists only for widening
                # conversions, which are the identity on the value
                return self.ex(e.args[0], hoist)
            if p[-1] == "max" and len(e.args) == 2:
                return f"max {self.atom(self.ex(e.args[0], hoist))} {self.atom(self.ex(e.args[1], hoist))}"
            if p[-1] == "min" and len(e.args) == 2:
                return f"min {self.atom(self.ex(e.args[0], hoist))} {self.atom(self.ex(e.args[1], hoist))}"
            if p[-1] == "default" and not e.args:
                return self.default_of(p[0])
        v = self.profile_call(e, hoist)
        if v is not None:
            return v
        raise Untranslatable(f"call {e!r}")

    def default_of(self, ty):
        raise Untranslatable(f"default of {ty}")

    def profile_call(self, e, hoist):
        return None

    def mcall_expr(self, e, hoist):
        v = self.profile_mcall(e, hoist)
        if v is not None:
            return v
        # self methods
        if self.is_self(e.recv) and e.name in self.fns:
            callee = self.fns[e.name]
            if callee.fn.self_kind == "mut" or callee.can_fail:
                if not hoist:
                    raise Untranslatable(f"effectful call {e.name} in a position where it cannot be hoisted")
                call = self.self_call(callee, e.args)
                t = self.fresh()
                self.em.w(f"let {t} {'←' if callee.can_fail else ':='} {call}")
                if callee.fn.self_kind == "mut":
                    self.em.w(f"m := {t}.1")
                    return f"{t}.2"
                return t
            return self.self_call(callee, e.args)
        # Vec / Option / integer helpers on values
        r = e.recv
        if e.name == "pop" and r.kind == "path" and len(r.path) == 1:
            if not hoist:
                raise Untranslatable("pop in non-hoistable position")
            x = self.lookup(r.path[0])
            t = self.fresh()
            self.em.w(f"let {t} := {x}.getLast?")
            self.em.w(f"{x} := {x}.dropLast")
            return t
        rv = self.ex(r, hoist)
        R = self.atom(rv)
        if e.name in ("unwrap", "expect"):
            return f"{R}.getD default"
        if e.name == "is_empty":
            return f"{R}.isEmpty"
        if e.name == "is_some":
            return f"{R}.isSome"
        if e.name == "is_none":
            return f"{R}.isNone"
        if e.name == "len" and not e.args:
            return f"{R}.length"
        if e.name == "map" and len(e.args) == 1:
            return f"{R}.map ({self.ex(e.args[0])})"
        if e.name == "wrapping_add":
            return f"({R} + {self.atom(self.ex(e.args[0], hoist))}) % {2 ** self.INT_BITS}"
        if e.name == "wrapping_sub":
            return f"({R} + ({2 ** self.INT_BITS} - {self.atom(self.ex(e.args[0], hoist))})) % {2 ** self.INT_BITS}"
        if e.name == "saturating_sub":
            return f"{R} - {self.atom(self.ex(e.args[0], hoist))}"
        if e.name == "saturating_add":
            return self.saturating_add(R, self.atom(self.ex(e.args[0], hoist)))
        if e.name in ("min", "max") and len(e.args) == 1:
            # `a.min(b)` on integers = `std::cmp::min(a, b)`
            return f"{e.name} {R} {self.atom(self.ex(e.args[0], hoist))}"
        if e.name in ("clone", "copied", "cloned", "iter", "as_ref", "as_mut"):
            return rv
        raise Untranslatable(f"method {e.name}")

    def saturating_add(self, a, b):
        raise Untranslatable("saturating_add")

    def profile_mcall(self, e, hoist):
        return None

    def field_expr(self, e, hoist):
        v = self.profile_field(e, hoist)
        if v is not None:
            return v
        raise Untranslatable(f"field {e.name} of {e.e!r}")

    def profile_field(self, e, hoist):
        return None

    def macro_expr(self, e, hoist):
        v = self.profile_macro(e, hoist)
        if v is not None:
            return v
        raise Untranslatable(f"macro {e.name}!")

    def profile_macro(self, e, hoist):
        return None

    def index_expr(self, e, hoist):
        v = self.profile_index(e, hoist)
        if v is not None:
            return v
        raise Untranslatable("indexing")

    def profile_index(self, e, hoist):
        return None


# ======================================================================================== tree profile
class TreeProfile(Translator):
    STATE_TY = "TreeImage α β"
    PRE_PARAMS = "(d : Rec α β)"
    PRE_ARGS = "d"
    FUEL = "m0.recs.length + 1"
    TYPE_MAP = {"K": "α", "V": "β", "Register": "Bool", "Ancestor": "Ancestor", "Vec<Ancestor>": "List Ancestor"}
    FIELDS = {"Root": "root", "Size": "size", "Capacity": "cap", "FreeListHead": "flh", "Sequence": "seq"}
    REGS = {"Left": "left", "Right": "right", "Height": "height"}
    BRANCH_OK = True
    REC_FIELDS = {"key": "key", "value": "val"}

    def __init__(self, src, wanted, bits):
        self.INT_BITS = bits
        super().__init__(src, wanted)
        # `Register::Height` must never flow into a branch value: it may only select a register
        self.check_height_use()

    def accept_fn(self, f):
        # `initialize` exists on the tree, the allocator and the node: keep the one we ask for by owner
        if f.name == "initialize":
            return "Node" in f.owner and "Allocator" not in f.owner
        if f.name in ("get_register", "set_register", "get_field", "set_field"):
            return False
        return True

    def check_height_use(self):
        self.height_ok = True
        for fi in self.fns.values():
            if fi.fn.body is None:
                continue

            def visit(n, ok=[True]):
                pass
            # every Register::Height must be the first argument of get_register / set_register
            allowed = set()

            def collect(n):
                if n.kind == "mcall" and n.name in ("get_register", "set_register") and n.args and n.args[0].kind == "path" and n.args[0].path[0] == "Register":
                    allowed.add(id(n.args[0]))
            self.walk(fi.fn.body, collect)

            def check(n):
                if n.kind == "path" and n.path == ["Register", "Height"] and id(n) not in allowed:
                    self.height_ok = False
            self.walk(fi.fn.body, check)

    # -- signature conventions
    def treat_as_mut(self, f):
        return f.name == "from_bytes_mut"

    def param_type(self, f, pn, pt):
        if f.name in ("from_bytes_mut",) and pn == "bytes":
            return None
        return self.lean_type(pt)

    def ret_type_override(self, f, ret):
        if f.name == "from_bytes_mut":
            return "Unit"
        if f.name == "get_mut":
            return "Option Nat"       # the *place* `&mut node!(nodes, i).value` is represented by its index i
        return ret

    def lean_type(self, ty):
        if ty is not None and ty.replace(" ", "") == "Self":
            return "Unit"
        return super().lean_type(ty)

    def skip_let(self, s):
        # the byte-level preamble of from_bytes(_mut): split_at / bytemuck casts (the byte codec is modelled apart)
        found = []

        def visit(n):
            if n.kind == "mcall" and n.name in ("split_at", "split_at_mut"):
                found.append(1)
            if n.kind in ("call",) and n.f.kind == "path" and n.f.path[0] == "bytemuck":
                found.append(1)
        self.walk(s.init, visit)
        return bool(found)

    def alias_target(self, init):
        if init.kind == "ref" and init.e.kind == "macro" and init.e.name == "node":
            idx = init.e.args[1]
            if idx.kind != "path" or len(idx.path) != 1:
                raise Untranslatable("alias of a record at a computed index")
            if idx.path[0] in self.muts:
                raise Untranslatable("alias of a record at an index variable that is reassigned")
            return self.lookup(idx.path[0])
        return None

    def default_of(self, ty):
        if ty == "K":
            return "d.key"
        if ty == "V":
            return "d.val"
        raise Untranslatable(f"default of {ty}")

    def const_path(self, p):
        if p[0] == "Register" and p[1] in ("Left", "Right"):
            return "false" if p[1] == "Left" else "true"
        return None

    def ctor_pattern(self, p):
        if p.path[0] == "Register" and p.path[1] in ("Left", "Right"):
            return "false" if p.path[1] == "Left" else "true"
        return None

    def preprocess(self, f):
        # `match branch { Register::Left => .., Register::Right => .., _ => panic!(..) }`: with branches encoded as
        # Bool (sound because Register::Height never flows into a branch value, see check_height_use) the wildcard
        # arm is unreachable and is dropped
        def visit(n):
            if n.kind == "match":
                # `Register::Left | Register::Right => body` (+ an unreachable `_ => panic!`): both branch values take
                # the same arm, so the match is its body
                arms = [a for a in n.arms if not (len(a[0]) == 1 and a[0][0].kind == "pwild" and a[2].kind == "macro" and a[2].name == "panic")]
                if len(arms) == 1 and arms[0][1] is None and len(arms[0][0]) == 2 and all(p.kind == "pctor" for p in arms[0][0]) \
                        and sorted(tuple(p.path) for p in arms[0][0]) == [("Register", "Left"), ("Register", "Right")]:
                    body = arms[0][2]
                    if body.kind != "block":
                        body = N("block", stmts=[], tail=body)
                    n.__dict__.clear()
                    n.__dict__.update(body.__dict__)
                    return
                heads = [tuple(a[0][0].path) if (len(a[0]) == 1 and a[0][0].kind == "pctor") else None for a in n.arms]
                if ("Register", "Left") in heads and ("Register", "Right") in heads:
                    n.arms = [a for a in n.arms if not (len(a[0]) == 1 and a[0][0].kind == "pwild" and a[2].kind == "macro" and a[2].name == "panic")]
        self.walk(f.body, visit)

    def known_narrow(self, e, bits):
        return False

    # -- who is "the allocator" / "the nodes"
    def is_alloc(self, e):
        return (e.kind == "field" and self.is_self(e.e) and e.name == "allocator") or (e.kind == "path" and e.path == ["allocator"])

    def is_nodes(self, e):
        return (e.kind == "field" and self.is_self(e.e) and e.name == "nodes") or (e.kind == "path" and e.path == ["nodes"])

    def reg_name(self, a):
        if a.kind == "path" and a.path[0] == "Register" and a.path[1] in self.REGS:
            return self.REGS[a.path[1]]
        raise Untranslatable(f"register selector {a!r}")

    def reg_var(self, a):
        """A register selected by a local variable: a branch value (Bool: false = Left, true = Right; never Height, see
        check_height_use). Returns the Lean name of the variable, or None."""
        if a.kind == "path" and len(a.path) == 1 and a.path[0] != "self" and hasattr(self, "BRANCH_OK"):
            try:
                return self.lookup(a.path[0])
            except Exception:  # noqa: BLE001
                return None
        return None

    def field_name(self, a):
        if a.kind == "path" and a.path[0] == "Field" and a.path[1] in self.FIELDS:
            return self.FIELDS[a.path[1]]
        raise Untranslatable(f"field selector {a!r}")

    def record_of(self, e, hoist):
        """If `e` denotes a record (node!(nodes, i), an alias, or a by-value copy), its index text."""
        if e.kind == "macro" and e.name == "node" and self.is_nodes(e.args[0]):
            return self.ex(e.args[1], hoist)
        if e.kind == "path" and len(e.path) == 1 and e.path[0] in self.aliases:
            return self.aliases[e.path[0]]
        if e.kind in ("ref", "deref", "paren"):
            return self.record_of(e.e, hoist)
        return None

    def profile_mcall(self, e, hoist):
        if e.name == "get_field" and self.is_alloc(e.recv):
            return f"m.hdr.{self.field_name(e.args[0])}"
        if e.name == "get_register":
            idx = self.record_of(e.recv, hoist)
            if idx is not None:
                b = self.reg_var(e.args[0])
                if b is not None:
                    return f"(if {b} then (rd d m {self.atom(idx)}).right else (rd d m {self.atom(idx)}).left)"
                return f"(rd d m {self.atom(idx)}).{self.reg_name(e.args[0])}"
        if e.name == "len" and self.is_nodes(e.recv):
            return "m.recs.length"
        if e.name == "log2":
            raise Untranslatable("log2 outside a capacity hint")
        return None

    def profile_field(self, e, hoist):
        idx = self.record_of(e.e, hoist)
        if idx is not None and e.name in self.REC_FIELDS:
            return f"(rd d m {self.atom(idx)}).{self.REC_FIELDS[e.name]}"
        return None

    def profile_macro(self, e, hoist):
        return None

    def ex(self, e, hoist=False):
        # the place `&mut node!(nodes, i).value` (get_mut) is represented by the index i
        if e.kind == "ref" and e.mut and e.e.kind == "field" and e.e.name == "value":
            idx = self.record_of(e.e.e, hoist)
            if idx is not None and self.cur.fn.name == "get_mut":
                return idx
        if e.kind == "struct" and e.path == ["Self"]:
            return "()"
        return super().ex(e, hoist)

    def emit_return(self, e):
        if e is not None and e.kind == "struct" and e.path == ["Self"]:
            self.em.w(f"return {self.ret_value(None)}")
            return
        super().emit_return(e)

    def profile_effect(self, e):
        if e.kind != "mcall":
            return False
        if e.name == "set_field" and self.is_alloc(e.recv):
            f = self.field_name(e.args[0])
            v = self.ex(e.args[1], hoist=True)
            self.em.w(f"m := {{ m with hdr := {{ m.hdr with {f} := {v} }} }}")
            return True
        if e.name == "set_register":
            idx = self.record_of(e.recv, True)
            if idx is not None:
                b = self.reg_var(e.args[0])
                if b is not None:
                    v = self.ex(e.args[1], hoist=True)
                    self.em.w(f"m := wr m {self.atom(idx)} fun r => if {b} then {{ r with right := {v} }} else {{ r with left := {v} }}")
                    return True
                r = self.reg_name(e.args[0])
                v = self.ex(e.args[1], hoist=True)
                self.em.w(f"m := wr m {self.atom(idx)} fun r => {{ r with {r} := {v} }}")
                return True
        if e.name == "initialize":
            idx = self.record_of(e.recv, True)
            if idx is not None and "initialize" in self.fns:
                a = " ".join(self.atom(self.ex(x, hoist=True)) for x in e.args)
                self.em.w(f"m := wr m {self.atom(idx)} fun r => {self.fns['initialize'].lean_name} r {a}")
                return True
            if self.is_alloc(e.recv):
                a = " ".join(self.atom(self.ex(x, hoist=True)) for x in e.args)
                self.em.w(f"m := alloc_initialize m {a}")
                return True
        return False

    def profile_assign(self, s):
        lhs = s.lhs
        if lhs.kind == "field" and s.op == "=":
            idx = self.record_of(lhs.e, True)
            if idx is not None and lhs.name in self.REC_FIELDS:
                v = self.ex(s.rhs, hoist=True)
                self.em.w(f"m := wr m {self.atom(idx)} fun r => {{ r with {self.REC_FIELDS[lhs.name]} := {v} }}")
                return True
        return False

    # Node::initialize is a record -> record function
    def translate_fn(self, fi):
        if fi.fn.name == "initialize" and fi.lean_name == "node_initialize":
            return self.translate_node_initialize(fi)
        return super().translate_fn(fi)

    def translate_node_initialize(self, fi):
        f = fi.fn
        vals = {}
        for s in f.body.stmts:
            if s.kind != "assign" or s.op != "=" or s.lhs.kind != "field" or not self.is_self(s.lhs.e):
                raise Untranslatable("Node::initialize: unexpected statement")
            vals[s.lhs.name] = s.rhs
        if set(vals) != {"registers", "key", "value"} or vals["registers"].kind != "array" or len(vals["registers"].items) != 4:
            raise Untranslatable("Node::initialize: unexpected shape")
        self.cur = fi
        self.aliases = {}
        self.muts = set()
        regs = [self.ex(x) for x in vals["registers"].items]
        return (f"/-- `Node::initialize` (line {f.src_line}). -/\n"
                f"def {fi.lean_name} (_r : Rec α β) (key : α) (value : β) : Rec α β :=\n"
                f"  {{ left := {regs[0]}, right := {regs[1]}, height := {regs[2]}, pad := {regs[3]}, key := {self.ex(vals['key'])}, val := {self.ex(vals['value'])} }}")


# ==================================================================================== hash set profile
class HashSetProfile(TreeProfile):
    STATE_TY = "HImage β"
    PRE_PARAMS = "(hash : β → Nat) (d : HRec β)"
    PRE_ARGS = "hash d"
    FUEL = "m0.recs.length + 1"
    TYPE_MAP = {"V": "β"}
    FIELDS = {"Size": "size", "Capacity": "cap", "FreeListHead": "flh", "Sequence": "seq"}
    REGS = {"Bucket": "bucket", "Next": "next"}
    REC_FIELDS = {"value": "val"}

    def __init__(self, src, wanted):
        self.recvals = set()
        self.hashers = {}
        Translator.__init__(self, src, wanted)
        self.INT_BITS = 32
        self.height_ok = True

    def accept_fn(self, f):
        if f.name in ("get_register", "set_register", "get_field", "set_field", "initialize"):
            return False
        return True

    def preprocess(self, f):
        if f.name == "next":
            # the iterator: `self.bucket` / `self.node` are its own state, `self.hash_set` is the set it walks
            def rewrite(n):
                for k, v in list(n.__dict__.items()):
                    if isinstance(v, N):
                        n.__dict__[k] = fix(v)
                    elif isinstance(v, list):
                        n.__dict__[k] = [fix(x) if isinstance(x, N) else (tuple(fix(y) if isinstance(y, N) else ([fix(z) if isinstance(z, N) else z for z in y] if isinstance(y, list) else y) for y in x) if isinstance(x, tuple) else x) for x in v]

            def fix(n):
                if n.kind == "field" and n.e.kind == "path" and n.e.path == ["self"]:
                    if n.name == "bucket":
                        return N("path", path=["it_bucket"], generics=None)
                    if n.name == "node":
                        return N("path", path=["it_node"], generics=None)
                    if n.name == "hash_set":
                        return N("path", path=["self"], generics=None)
                rewrite(n)
                return n
            rewrite(f.body)

    def translate_fn(self, fi):
        self.recvals = set()
        self.hashers = {}
        if fi.fn.name == "next":
            return self.translate_next(fi)
        if fi.fn.name == "iter":
            return self.translate_iter(fi)
        return Translator.translate_fn(self, fi)

    def translate_iter(self, fi):
        """`iter(&self)`: the initial state `(bucket, node)` of the iterator it constructs."""
        f = fi.fn
        t = f.body.tail
        if f.body.stmts or t is None or t.kind != "struct":
            raise Untranslatable("iter(): expected a struct literal")
        vals = dict((k, v) for k, v in t.fields)
        if set(vals) != {"hash_set", "bucket", "node"} or not self.is_self(vals["hash_set"]):
            raise Untranslatable("iter(): unexpected iterator fields")
        self.cur = fi
        self.env = [{}]
        self.mutset = set()
        self.aliases = {}
        b, n = self.ex(vals["bucket"]), self.ex(vals["node"])
        return (f"/-- `iter` (line {f.src_line}): the iterator's initial `bucket` / `node`. -/\n"
                f"def {fi.lean_name} {self.PRE_PARAMS} (m : HImage β) : Nat × Nat := ({b}, {n})")

    def translate_next(self, fi):
        f = fi.fn
        self.cur = fi
        self.tmp = 0
        self.aliases = {}
        self.muts = {"it_bucket", "it_node"}
        self.broke_flags = []
        self.exit_n = 0
        self.env = [{"it_bucket": "it_bucket", "it_node": "it_node"}]
        self.mutset = {"it_bucket", "it_node"}
        self.mutself = False
        self.ret_unit = False
        self.bool_ret = False
        self.em = Emitter()
        self.em.w("let mut it_bucket := it_bucket0")
        self.em.w("let mut it_node := it_node0")
        self.em.w("let fuel := m.recs.length + 1")
        self.next_mode = True
        try:
            self.block_stmts(f.body, is_fn_body=True)
        finally:
            self.next_mode = False
        hdr = (f"def {fi.lean_name} {self.PRE_PARAMS} (m : HImage β) (it_bucket0 it_node0 : Nat) :\n"
               f"    Option (Option β × Nat × Nat) := do")
        return f"/-- `HashSetIterator::next` (line {f.src_line}): the item, and the iterator's `bucket` / `node` afterwards. -/\n" + hdr + "\n" + "\n".join(self.em.lines)

    next_mode = False

    def ret_value(self, val):
        if self.next_mode:
            return f"({val}, it_bucket, it_node)"
        return Translator.ret_value(self, val)

    def known_narrow(self, e, bits):
        return False

    def treat_as_mut(self, f):
        return False

    def param_type(self, f, pn, pt):
        return self.lean_type(pt)

    def ret_type_override(self, f, ret):
        return ret

    def default_of(self, ty):
        if ty == "V":
            return "d.val"
        raise Untranslatable(f"default of {ty}")

    def const_path(self, p):
        return None

    def ctor_pattern(self, p):
        return None

    def alias_target(self, init):
        if init.kind == "ref" and init.e.kind == "macro" and init.e.name in ("node", "bucket_node"):
            if init.e.name == "bucket_node":
                raise Untranslatable("alias of a bucket record")
            return TreeProfile.alias_target(self, init)
        return None

    def let_stmt(self, s):
        pat, init = s.pat, s.init
        if pat.kind == "pident" and init is not None:
            # `let mut hasher = DefaultHasher::new();`
            if init.kind == "call" and init.f.kind == "path" and init.f.path == ["DefaultHasher", "new"]:
                self.hashers[pat.name] = None
                return
            # by-value copy of a record: `let node = node!(self.nodes, current);` — a shared borrow `&node!(..)` is
            # the same thing (nothing can be written while it is alive)
            if init.kind == "ref" and not init.mut and init.e.kind == "macro":
                init = init.e
            if init.kind == "macro" and init.name == "node" and self.is_nodes(init.args[0]):
                idx = self.ex(init.args[1], hoist=True)
                self.em.w(f"let {self.bind(pat.name)} := rd d m {self.atom(idx)}")
                self.recvals.add(pat.name)
                return
            self.recvals.discard(pat.name)
        return Translator.let_stmt(self, s)

    def effect_stmt(self, e):
        # `value.hash(&mut hasher);`
        if e.kind == "mcall" and e.name == "hash" and len(e.args) == 1:
            a = e.args[0]
            while a.kind == "ref":
                a = a.e
            if a.kind == "path" and len(a.path) == 1 and a.path[0] in self.hashers:
                if self.hashers[a.path[0]] is not None:
                    raise Untranslatable("hasher fed twice")
                self.hashers[a.path[0]] = self.ex(e.recv)
                return True
        return Translator.effect_stmt(self, e)

    def record_of(self, e, hoist):
        if e.kind == "macro" and e.name == "node" and self.is_nodes(e.args[0]):
            return ("rd", self.ex(e.args[1], hoist))
        if e.kind == "macro" and e.name == "bucket_node" and self.is_nodes(e.args[0]):
            return ("rdB", self.ex(e.args[1], hoist))
        if e.kind == "path" and len(e.path) == 1 and e.path[0] in self.aliases:
            return ("rd", self.aliases[e.path[0]])
        if e.kind in ("ref", "deref", "paren"):
            return self.record_of(e.e, hoist)
        return None

    def rec_read(self, e, hoist):
        """Lean term for a record-valued expression."""
        if e.kind in ("ref", "deref", "paren"):
            return self.rec_read(e.e, hoist)
        if e.kind == "path" and len(e.path) == 1 and e.path[0] in self.recvals:
            return self.lookup(e.path[0])
        r = self.record_of(e, hoist)
        if r is not None:
            return f"({r[0]} d m {self.atom(r[1])})"
        return None

    def profile_mcall(self, e, hoist):
        if e.name == "get_field" and self.is_alloc(e.recv):
            return f"m.hdr.{self.field_name(e.args[0])}"
        if e.name == "get_register":
            r = self.rec_read(e.recv, hoist)
            if r is not None:
                return f"{r}.{self.reg_name(e.args[0])}"
        if e.name == "finish" and e.recv.kind == "path" and len(e.recv.path) == 1 and e.recv.path[0] in self.hashers:
            fed = self.hashers[e.recv.path[0]]
            if fed is None:
                raise Untranslatable("hasher finished before it was fed")
            return f"(hash {self.atom(fed)})"
        if e.name == "len" and self.is_nodes(e.recv):
            return "m.recs.length"
        return None

    def profile_field(self, e, hoist):
        r = self.rec_read(e.e, hoist)
        if r is not None and e.name in self.REC_FIELDS:
            return f"{r}.{self.REC_FIELDS[e.name]}"
        return None

    def ex(self, e, hoist=False):
        return Translator.ex(self, e, hoist)

    def emit_return(self, e):
        Translator.emit_return(self, e)

    def wr_fn(self, r):
        return "wr" if r[0] == "rd" else "wrB"

    def profile_effect(self, e):
        if e.kind != "mcall":
            return False
        if e.name == "set_field" and self.is_alloc(e.recv):
            f = self.field_name(e.args[0])
            v = self.ex(e.args[1], hoist=True)
            self.em.w(f"m := {{ m with hdr := {{ m.hdr with {f} := {v} }} }}")
            return True
        if e.name == "initialize" and self.is_alloc(e.recv):
            a = " ".join(self.atom(self.ex(x, hoist=True)) for x in e.args)
            self.em.w(f"m := alloc_initialize m {a}")
            return True
        if e.name == "set_register":
            r = self.record_of(e.recv, True)
            if r is not None:
                reg = self.reg_name(e.args[0])
                v = self.ex(e.args[1], hoist=True)
                self.em.w(f"m := {self.wr_fn(r)} m {self.atom(r[1])} fun r => {{ r with {reg} := {v} }}")
                return True
        return False

    def profile_assign(self, s):
        lhs = s.lhs
        if lhs.kind == "field" and s.op == "=":
            r = self.record_of(lhs.e, True)
            if r is not None and lhs.name in self.REC_FIELDS:
                v = self.ex(s.rhs, hoist=True)
                self.em.w(f"m := {self.wr_fn(r)} m {self.atom(r[1])} fun r => {{ r with {self.REC_FIELDS[lhs.name]} := {v} }}")
                return True
        return False


HSET_FUNCS = {"initialize@HashSetMut<": "initialize_set"}
HSET_FUNCS.update({n: n for n in ["capacity", "size", "is_full", "is_empty", "contains", "add_node", "remove_node", "insert", "remove", "next", "iter"]})

HSET_HEADER = '''/-
  GENERATED by tools/rust2lean.py from {path} — do not edit.
  A syntax-directed transliteration of the Rust functions into Lean `do` notation (see the translator's
  docstring for the conventions). `hash` stands for `DefaultHasher` applied to the value (`hasher.finish()`).
  `Stevia/Proofs/GenHSet.lean` proves each definition equal to the literal model `Stevia.HImp.*`.
-/
import Stevia.Model.HashSetImp
import Stevia.Model.Fuel

namespace Stevia
namespace {ns}
open HImp
variable {{β : Type}} [DecidableEq β]
set_option linter.unusedVariables false

'''


def gen_hset(rel, ns, outname):
    path = os.path.join(REPO, rel)
    report = {"source": rel, "namespace": ns, "translated": [], "untranslatable": {}, "missing": []}
    try:
        src = open(path).read()
        tr = HashSetProfile(src, HSET_FUNCS)
        order = order_functions(tr)
        tr.fns = {n: tr.fns[n] for n in order}
        body = tr.translate_all()
        report["translated"] = [n for n in tr.fns if n not in tr.errors]
        report["untranslatable"] = tr.errors
        report["missing"] = tr.missing
        d_, err_ = alloc_initialize(src, r"impl\s+Allocator", HashSetProfile.FIELDS, ["size", "cap", "flh", "seq"], "HImage β")
        if d_:
            body = d_ + "\n\n" + body
            report["translated"].append("alloc_initialize")
        else:
            report["untranslatable"]["alloc_initialize"] = err_
    except (OSError, ParseError) as ex:
        body = ""
        report["untranslatable"]["<file>"] = str(ex)
    text = HSET_HEADER.format(path=rel, ns=ns) + body + f"\n\nend {ns}\nend Stevia\n"
    write_if_changed(os.path.join(GEN, outname), text)
    return report


# =================================================================================== array set profile
class ArraySetProfile(Translator):
    """`array_set.rs`: state = the length prefix and all value slots (`ASet α`). Elements are compared through the
    key projection `key : α → κ` (`Ord::cmp`). `P` is the largest value of the prefix type (`checked_add`).
    Bounds-checked indexing fails (`none`) out of range; `ptr::copy` is `copyWithin`, which fails where the Rust
    would leave the slice (undefined behaviour)."""
    STATE_TY = "ASet α"
    PRE_PARAMS = "(key : α → κ) (P : Nat)"
    PRE_ARGS = "key P"
    FUEL = "m0.len + 1"
    TYPE_MAP = {"V": "α", "usize": "Nat"}
    CONSTS = {}
    INT_BITS = 64

    def __init__(self, src, wanted):
        self.ptrs = {}
        super().__init__(src, wanted)

    def accept_fn(self, f):
        return f.name not in ("from_bytes", "from_bytes_mut")

    def translate_fn(self, fi):
        self.ptrs = {}
        return super().translate_fn(fi)

    def body_can_fail(self, body):
        found = []

        def visit(n):
            if n.kind == "index":
                found.append(1)
            if n.kind == "call" and n.f.kind == "path" and n.f.path[-2:] == ["ptr", "copy"]:
                found.append(1)
        self.walk(body, visit)
        return bool(found) or super().body_can_fail(body)

    def effectful(self, e):
        found = []
        self.walk(e, lambda n: found.append(1) if n.kind == "index" else None)
        return bool(found) or super().effectful(e)

    def ret_type_override(self, f, ret):
        if f.name in ("get", "get_mut"):
            return "Option Nat" if f.name == "get_mut" else "Option α"
        return ret

    def lean_type(self, ty):
        if ty is not None:
            t = ty.replace(" ", "")
            if t in ("Option<&V>", "Option<&mutV>"):
                return "Option α"
            if t in ("&Self::Target", "&[V]"):
                return "List α"
        return super().lean_type(ty)

    # -- places
    def is_values(self, e):
        return e.kind == "field" and self.is_self(e.e) and e.name == "values"

    def is_length(self, e):
        while e.kind in ("deref", "paren"):
            e = e.e
        return e.kind == "field" and self.is_self(e.e) and e.name == "length"

    def cond(self, e):
        return self.ex(e, hoist=True)

    def profile_mcall(self, e, hoist):
        if e.name == "len" and self.is_values(e.recv):
            return "m.vals.length"
        if e.name == "is_none" and e.recv.kind == "mcall" and e.recv.name == "checked_add" and self.is_length(e.recv.recv):
            return f"¬ (m.len + {self.atom(self.ex(e.recv.args[0], hoist))} ≤ P)"
        # `found.map(|i| &self.values[i])` / `found.map(|i| &mut self.values[i])`: the element at a found index
        if e.name == "map" and len(e.args) == 1 and e.args[0].kind == "closure" and len(e.args[0].params) == 1 \
                and e.args[0].params[0].kind == "pident":
            body = e.args[0].body
            isref = body.kind == "ref"
            inner = body.e if isref else body
            pn = e.args[0].params[0].name
            if inner.kind == "index" and self.is_values(inner.e) and inner.idx.kind == "path" and inner.idx.path == [pn]:
                R = self.atom(self.ex(e.recv, hoist))
                if isref and body.mut and self.cur.fn.name == "get_mut":
                    return R          # the place is represented by its index
                if not hoist:
                    raise Untranslatable("indexing in a position where the bounds check cannot be hoisted")
                t = self.fresh()
                self.em.w(f"let {t} ← (match {R} with | some __i => (m.vals[__i]?).map some | none => some none)")
                return t
        if e.name == "as_mut_ptr" and self.is_values(e.recv):
            return "0"
        if e.name == "add" and e.recv.kind == "path" and len(e.recv.path) == 1 and e.recv.path[0] in self.ptrs:
            return f"{self.atom(self.lookup(e.recv.path[0]))} + {self.atom(self.ex(e.args[0], hoist))}"
        return None

    def saturating_add(self, a, b):
        # usize indices of a slice never reach usize::MAX (a slice has fewer than 2^63 elements)
        return f"{a} + {b}"

    def cast_expr(self, e, hoist):
        if self.is_length(e.e) and e.ty.replace(" ", "") == "usize":
            return "m.len"
        return super().cast_expr(e, hoist)

    def ex(self, e, hoist=False):
        if e.kind == "deref" and self.is_length(e):
            return "m.len"
        # the place `&mut self.values[i]` (get_mut) is represented by the index i
        if e.kind == "ref" and e.mut and e.e.kind == "index" and self.is_values(e.e.e) and self.cur.fn.name == "get_mut":
            return self.ex(e.e.idx, hoist)
        return super().ex(e, hoist)

    def profile_index(self, e, hoist):
        if self.is_values(e.e) and e.idx.kind == "range":
            # the slice view `&self.values[..n]`
            if e.idx.lo is not None or e.idx.hi is None or not hoist:
                raise Untranslatable("unexpected slice of the values")
            n = self.ex(e.idx.hi, hoist)
            self.em.w(f"if ¬ ({n} ≤ m.vals.length) then failure")
            return f"m.vals.take {self.atom(n)}"
        if self.is_values(e.e):
            if not hoist:
                raise Untranslatable("indexing in a position where the bounds check cannot be hoisted")
            i = self.ex(e.idx, hoist)
            t = self.fresh()
            self.em.w(f"let {t} ← m.vals[{i}]?")
            return t
        return None

    def let_stmt(self, s):
        if s.pat.kind == "pident" and s.init is not None:
            init = s.init
            is_ptr = (init.kind == "mcall" and init.name == "as_mut_ptr") or \
                     (init.kind == "mcall" and init.name == "add" and init.recv.kind == "path" and init.recv.path[0] in self.ptrs)
            if is_ptr:
                v = self.ex(init, hoist=True)
                self.em.w(f"let {self.bind(s.pat.name)} := {v}")
                self.ptrs[s.pat.name] = True
                return
        return super().let_stmt(s)

    def effect_stmt(self, e):
        if e.kind == "call" and e.f.kind == "path" and e.f.path[-2:] == ["ptr", "copy"] and len(e.args) == 3:
            a = [self.ex(x, hoist=True) for x in e.args]
            t = self.fresh()
            self.em.w(f"let {t} ← (ASet.copyWithin m.vals {self.atom(a[0])} {self.atom(a[1])} {self.atom(a[2])}).toOption")
            self.em.w(f"m := {{ m with vals := {t} }}")
            return True
        # the safe form of the same move: `self.values.copy_within(lo..hi, dest)` (panics where the ranges leave the slice)
        if e.kind == "mcall" and e.name == "copy_within" and self.is_values(e.recv) and len(e.args) == 2 \
                and e.args[0].kind == "range" and not e.args[0].incl and e.args[0].lo is not None and e.args[0].hi is not None:
            lo = self.ex(e.args[0].lo, hoist=True)
            hi = self.ex(e.args[0].hi, hoist=True)
            dest = self.ex(e.args[1], hoist=True)
            t = self.fresh()
            self.em.w(f"if ¬ ({lo} ≤ {hi}) then failure")
            self.em.w(f"let {t} ← (ASet.copyWithin m.vals {self.atom(lo)} {self.atom(dest)} ({hi} - {lo})).toOption")
            self.em.w(f"m := {{ m with vals := {t} }}")
            return True
        return super().effect_stmt(e)

    def profile_assign(self, s):
        lhs = s.lhs
        if lhs.kind == "index" and self.is_values(lhs.e) and s.op == "=":
            i = self.ex(lhs.idx, hoist=True)
            v = self.ex(s.rhs, hoist=True)
            self.em.w(f"if ¬ ({i} < m.vals.length) then failure")
            self.em.w(f"m := {{ m with vals := m.vals.set {self.atom(i)} {self.atom(v)} }}")
            return True
        if self.is_length(lhs) and s.op in ("+=", "-="):
            v = self.ex(s.rhs, hoist=True)
            self.em.w(f"m := {{ m with len := m.len {s.op[0]} {self.atom(v)} }}")
            return True
        if self.is_length(lhs) and s.op == "=":
            v = self.ex(s.rhs, hoist=True)
            self.em.w(f"m := {{ m with len := {v} }}")
            return True
        return False

    # `match a.cmp(b) { Ordering::Less [if g] => .., Ordering::Greater => .., Ordering::Equal => .. }`
    def match_stmt(self, e, target):
        sc = e.e
        if sc.kind == "mcall" and sc.name == "cmp" and len(sc.args) == 1:
            a = self.ex(sc.recv, hoist=True)
            b = self.ex(sc.args[0], hoist=True)
            first = True
            n = len(e.arms)
            depth = 0
            for pats, _, _ in e.arms:
                if len(pats) != 1 or pats[0].kind != "pctor" or pats[0].path[-1] not in ("Less", "Greater", "Equal"):
                    raise Untranslatable("match on cmp: unexpected arm")
            # arms of different `Ordering` constructors are disjoint, so their relative order is immaterial: they are
            # taken in the order Less, Greater, Equal (arms of one constructor keep their order: guards)
            rank = {"Less": 0, "Greater": 1, "Equal": 2}
            arms = sorted(e.arms, key=lambda a_: rank[a_[0][0].path[-1]])
            for j, (pats, guard, body) in enumerate(arms):
                if len(pats) != 1 or pats[0].kind != "pctor" or pats[0].path[-1] not in ("Less", "Greater", "Equal"):
                    raise Untranslatable("match on cmp: unexpected arm")
                o = pats[0].path[-1]
                c = {"Less": f"key {self.atom(a)} < key {self.atom(b)}", "Greater": f"key {self.atom(b)} < key {self.atom(a)}", "Equal": None}[o]
                if guard is not None:
                    g = self.ex(guard)
                    c = f"({c}) ∧ ({g})" if c else g
                last = (j == n - 1)
                if last and o == "Equal" and guard is None:
                    if not first:
                        self.em.w("else")
                        self.em.ind += 1
                        depth += 1
                    self.arm_body(body, target)
                else:
                    if c is None:
                        raise Untranslatable("match on cmp: Equal arm before the end")
                    if not first:
                        self.em.w("else")
                        self.em.ind += 1
                        depth += 1
                    self.em.w(f"if {c} then")
                    self.em.ind += 1
                    self.arm_body(body, target)
                    self.em.ind -= 1
                first = False
            self.em.ind -= depth
            return
        return super().match_stmt(e, target)

    def arm_body(self, body, target):
        n0 = len(self.em.lines)
        if target is not None:
            self.value_stmt(body, target)
        elif body.kind == "block":
            self.block_stmts(body)
        else:
            self.expr_stmt(body)
        if len(self.em.lines) == n0:
            self.em.w("pure ()")


ASET_FUNCS = {n: n for n in ["len", "is_empty", "is_full", "index", "get", "contains", "get_mut", "insert", "take", "remove", "deref"]}

ASET_HEADER = '''/-
  GENERATED by tools/rust2lean.py from {path} — do not edit.
  A syntax-directed transliteration of the Rust functions into Lean `do` notation (see the translator's
  docstring for the conventions). `key` is the projection `Ord::cmp` compares, `P` the largest value of the
  length-prefix type. `Stevia/Proofs/GenASet.lean` proves each definition equal to the model `Stevia.ASet.*`.
-/
import Stevia.Model.ArraySet
import Stevia.Model.Fuel

namespace Stevia
namespace {ns}
variable {{α κ : Type}} [LinOrd κ]
set_option linter.unusedVariables false

'''


def gen_aset(rel, ns, outname):
    path = os.path.join(REPO, rel)
    report = {"source": rel, "namespace": ns, "translated": [], "untranslatable": {}, "missing": []}
    try:
        src = open(path).read()
        tr = ArraySetProfile(src, ASET_FUNCS)
        order = order_functions(tr)
        tr.fns = {n: tr.fns[n] for n in order}
        body = tr.translate_all()
        report["translated"] = [n for n in tr.fns if n not in tr.errors]
        report["untranslatable"] = tr.errors
        report["missing"] = tr.missing
    except (OSError, ParseError) as ex:
        body = ""
        report["untranslatable"]["<file>"] = str(ex)
    text = ASET_HEADER.format(path=rel, ns=ns) + body + f"\n\nend {ns}\nend Stevia\n"
    write_if_changed(os.path.join(GEN, outname), text)
    return report


# ==================================================================================== strings profile
class StrProfile(Translator):
    """`prefix_str.rs` / `pod_str.rs`: byte slices are `ByteArray`s, `&str` arguments are `String`s. `W` is the size of
    the length prefix, `P` its largest value, `N` the capacity of a `PodStr`. Slicing, `split_at` and
    `copy_from_slice`/`clone_from_slice` fail (`none`) where the Rust panics; `Result<_, Utf8Error>` is an inner
    `Option` (`from_utf8` is `ByteArray.validateUTF8`)."""
    STATE_TY = "ByteArray"
    PRE_PARAMS = "(W P N : Nat)"
    PRE_ARGS = "W P N"
    TYPE_MAP = {"usize": "Nat"}
    CONSTS = {"MAX_SIZE": "N"}

    def __init__(self, src, wanted, accept=None):
        self.accept = accept
        super().__init__(src, wanted)
        for fi in self.fns.values():
            fi.can_fail = True

    def accept_fn(self, f):
        return self.accept(f) if self.accept else True

    def lean_type(self, ty):
        if ty is None:
            return "Unit"
        t = ty.replace(" ", "").replace("'a", "").replace("'_", "")
        if t in ("&[u8]", "&mut[u8]"):
            return "ByteArray"
        if t in ("&str", "&mutstr"):
            return "String"
        if t == "Self":
            return "ByteArray"
        m = re.match(r"Result<(.*),(?:std::str::)?Utf8Error>$", t)
        if m:
            inner = m.group(1)
            return "Option " + ("ByteArray" if inner in ("&str", "&mutstr") else self.paren_ty(self.lean_type(inner)))
        return super().lean_type(ty)

    # -- function shape: `self.value` is the state of &mut self methods; a `&mut [u8]` parameter is in-out
    def translate_fn(self, fi):
        f = fi.fn
        self.cur = fi
        self.tmp = 0
        self.aliases = {}
        self.muts = self.assigned_vars(f.body)
        self.broke_flags = []
        self.env = [{}]
        self.mutset = set()
        self.strings = {pn for pn, pt in f.params if "str" in pt.replace(" ", "") and "[" not in pt}
        self.subslices = {}
        self.selfvals = set()
        em = Emitter()
        self.em = em
        self.inout = None
        params = []
        self.is_fmt = f.name == "fmt" and len(f.params) == 1 and "Formatter" in f.params[0][1]
        for pn, pt in f.params:
            if self.is_fmt:
                # `Display::fmt`: the formatter is the output; the function returns the text written to it
                self.formatter = pn
                continue
            t = self.lean_type(pt)
            if "mut" in pt and "[u8]" in pt.replace(" ", ""):
                self.inout = pn
                params.append(f"({pn}0 : {t})")
            else:
                params.append(f"({lname(pn)} : {t})")
        self.has_self = f.self_kind is not None
        self.mutself = f.self_kind == "mut"
        ret = "ByteArray" if self.is_fmt else (self.lean_type(f.ret) if f.ret else "Unit")
        if f.ret and f.ret.replace(" ", "").replace("'a", "").replace("'_", "") in ("&str", "&mutstr"):
            ret = "ByteArray"      # a returned `&str` is represented by its bytes
        self.result_ret = bool(f.ret) and "Result<" in f.ret.replace(" ", "")
        self.ret_unit = ret == "Unit"
        self.bool_ret = False
        parts = []
        if self.mutself:
            parts.append("ByteArray")
        if self.inout:
            parts.append("ByteArray")
        if not self.ret_unit:
            parts.append(self.paren_ty(ret))
        full = " × ".join(parts) if parts else "Unit"
        state = " (value0 : ByteArray)" if self.mutself else (" (value : ByteArray)" if self.has_self else "")
        pre = self.PRE_PARAMS + (" (lossy : ByteArray → ByteArray)" if self.is_fmt else "")
        hdr = f"def {fi.lean_name} {pre}{state}" + "".join(" " + p for p in params) + f" :\n    Option ({full}) := do"
        if self.mutself:
            em.w("let mut value := value0")
            self.env[0]["value"] = "value"
            self.mutset.add("value")
        if self.inout:
            em.w(f"let mut {self.inout} := {self.inout}0")
            self.mutset.add(self.inout)
        if self.uses_fuel(f.body):
            em.w("let fuel := " + self.fuel_expr(f))
        self.block_stmts(f.body, is_fn_body=True)
        return f"/-- `{f.name}` (line {f.src_line}). -/\n" + hdr + "\n" + "\n".join(em.lines)

    def fuel_expr(self, f):
        return "string.utf8ByteSize + 1"

    def ret_value(self, val):
        parts = []
        if self.mutself:
            parts.append("value")
        if self.inout:
            parts.append(self.inout)
        if val is not None and not self.ret_unit:
            parts.append(val)
        if not parts:
            return "()"
        return parts[0] if len(parts) == 1 else "(" + ", ".join(parts) + ")"

    def emit_return(self, e):
        if e is None:
            self.em.w(f"return {self.ret_value(None)}")
            return
        e0 = e
        while e0.kind == "paren":
            e0 = e0.e
        if getattr(self, "is_fmt", False):
            # the tail must hand the text to the formatter in one piece: `formatter.write_str(&x)`
            if not (e0.kind == "mcall" and e0.name == "write_str" and e0.recv.kind == "path" and e0.recv.path == [self.formatter] and len(e0.args) == 1):
                raise Untranslatable("Display::fmt: expected `formatter.write_str(&text)` as the result")
            v = self.ex(e0.args[0], hoist=True)
            self.em.w(f"return {self.ret_value(v)}")
            return
        # tail `str::from_utf8(x)` of a function returning Result<&str, _>
        if e0.kind == "call" and e0.f.kind == "path" and e0.f.path[-1] == "from_utf8":
            x = self.ex(e0.args[0], hoist=True)
            self.em.w(f"return {self.ret_value(f'(if ({x}).validateUTF8 then some {self.atom(x)} else none)')}")
            return
        if e0.kind == "call" and e0.f.kind == "path" and e0.f.path == ["Ok"]:
            v = self.ex(e0.args[0], hoist=True)
            self.em.w(f"return {self.ret_value(f'some {self.atom(v)}')}")
            return
        v = self.ex(e0, hoist=True)
        self.em.w(f"return {self.ret_value(v)}")

    # -- places and slices
    def place(self, e):
        """Name of the mutable byte buffer an expression denotes, if it is one."""
        while e.kind in ("ref", "deref", "paren"):
            e = e.e
        if e.kind == "field" and self.is_self(e.e) and e.name == "value":
            return "value"
        if e.kind == "path" and len(e.path) == 1:
            return self.lookup(e.path[0])
        return None

    def slice_parts(self, e):
        """(base expr node, lo node or None, hi node or None) for `x[lo..hi]`."""
        while e.kind in ("ref", "paren"):
            e = e.e
        if e.kind == "index" and e.idx.kind == "range":
            return e.e, e.idx.lo, e.idx.hi
        return None

    def ex(self, e, hoist=False):
        k = e.kind
        if k == "field" and self.is_self(e.e) and e.name == "value":
            return "value"
        if k == "field" and e.name == "value" and e.e.kind == "path":
            return self.ex(e.e, hoist)          # `to_return.value`: Self is represented by its value
        if k == "struct" and e.path == ["Self"]:
            return self.ex(e.fields[0][1], hoist)
        if k == "unsafe":
            if e.body.stmts or e.body.tail is None:
                raise Untranslatable("unsafe block with statements in expression position")
            return self.ex(e.body.tail, hoist)
        if k == "arrayrep":
            v = self.ex(e.e, hoist)
            if v != "0":
                raise Untranslatable("array repeat of a non-zero value")
            return f"zerosBA {self.atom(self.ex(e.n, hoist))}"
        sp = self.slice_parts(e) if k in ("ref", "index", "paren") else None
        if sp is not None:
            base, lo, hi = sp
            if not hoist:
                raise Untranslatable("slicing in a position where the bounds check cannot be hoisted")
            b = self.ex(base, hoist)
            lo_t = self.ex(lo, hoist) if lo is not None else "0"
            hi_t = self.ex(hi, hoist) if hi is not None else f"{self.atom(b)}.size"
            self.em.w(f"if ¬ ({lo_t} ≤ {hi_t} ∧ {hi_t} ≤ {self.atom(b)}.size) then failure")
            return f"{self.atom(b)}.extract {self.atom(lo_t)} {self.atom(hi_t)}"
        if k == "call" and e.f.kind == "path" and e.f.path[-1] in ("from_utf8_unchecked", "from_utf8_unchecked_mut") and len(e.args) == 1:
            return self.ex(e.args[0], hoist)   # a `&str` is represented by its bytes: the unchecked conversion is the identity on them
        if k == "path" and e.path == ["self"] and getattr(self, "has_self", False):
            return "value"                      # `self` where a `&str` is expected: `Deref`, i.e. the payload
        if k == "call" and e.f.kind == "path" and e.f.path[-1] == "from_utf8_lossy" and len(e.args) == 1:
            if not getattr(self, "is_fmt", False):
                raise Untranslatable("from_utf8_lossy outside Display::fmt")
            return f"lossy {self.atom(self.ex(e.args[0], hoist))}"
        if k == "chr":
            if e.val in ("b'\\0'",):
                return "0"
            raise Untranslatable(f"char literal {e.val}")
        return super().ex(e, hoist)

    def path_expr(self, e):
        p = e.path
        if len(p) == 2 and p[0].startswith("<") and p[1] == "MAX":
            return "P"
        return super().path_expr(e)

    def default_of(self, ty):
        if ty == "Self" and "default" in self.fns:
            return "zerosBA N"        # `Self::default()`: the translated `default` is `zerosBA N` (checked by its own bridge)
        return super().default_of(ty)

    def cast_expr(self, e, hoist):
        ty = e.ty.replace(" ", "")
        v = self.ex(e.e, hoist)
        if ty == "usize":
            return v
        if ty == "$prefix_type":
            return f"{self.atom(v)} % (P + 1)"
        raise Untranslatable(f"cast to {e.ty}")

    def call_expr(self, e, hoist):
        f = e.f
        if f.kind == "path":
            p = f.path
            if p[-1] == "size_of" and f.generics and "prefix_type" in f.generics:
                return "W"
            if p[-1] in ("pod_read_unaligned",):
                return f"leOfBA {self.atom(self.ex(e.args[0], hoist))}"
            if p[-1] in ("cast_slice", "cast_slice_mut"):
                return self.ex(e.args[0], hoist)
            if p[0] == "Self" and len(p) == 2 and p[1] in self.fns:
                if not hoist:
                    raise Untranslatable("call in non-hoistable position")
                callee = self.fns[p[1]]
                args = []
                inout_arg = None
                for a, (pn, pt) in zip(e.args, callee.fn.params):
                    args.append(self.atom(self.ex(a, hoist)))
                    if "mut" in pt and "[u8]" in pt.replace(" ", ""):
                        inout_arg = self.place(a)
                t = self.fresh()
                self.em.w(f"let {t} ← {callee.lean_name} {self.PRE_ARGS} {' '.join(args)}")
                if inout_arg is not None:
                    self.em.w(f"{inout_arg} := {t}.1")
                    return f"{t}.2"
                return t
        return super().call_expr(e, hoist)

    def mcall_expr(self, e, hoist):
        r = e.recv
        n = e.name
        if n == "len" and not e.args:
            if r.kind == "path" and len(r.path) == 1 and r.path[0] in self.strings:
                return f"{self.lookup(r.path[0])}.utf8ByteSize"
            return f"{self.atom(self.ex(r, hoist))}.size"
        if n == "as_bytes":
            return f"{self.atom(self.ex(r, hoist))}.toByteArray"
        if n == "is_char_boundary":
            return f"(String.Pos.Raw.mk {self.atom(self.ex(e.args[0], hoist))}).isValid {self.atom(self.ex(r, hoist))}"
        if n == "to_le_bytes":
            inner = r
            while inner.kind == "paren":
                inner = inner.e
            if inner.kind == "cast" and inner.ty.replace(" ", "") == "$prefix_type":
                return f"leBA W ({self.ex(inner.e, hoist)} % (P + 1))"
            raise Untranslatable("to_le_bytes of an unexpected value")
        if n == "unwrap_or" and r.kind == "mcall" and r.name == "position" and r.recv.kind == "mcall" and r.recv.name == "iter":
            # x.iter().position(|&b| b == c).unwrap_or(d)
            base = self.ex(r.recv.recv, hoist)
            cl = r.args[0]
            if cl.kind != "closure" or cl.body.kind != "bin" or cl.body.op != "==" or len(cl.params) != 1 or cl.params[0].kind != "pident":
                raise Untranslatable("position with an unexpected predicate")
            # the predicate must compare the element itself (`|&x| x == c` / `|x| *x == c`) with a constant
            lhs = cl.body.l
            while lhs.kind in ("deref", "paren"):
                lhs = lhs.e
            mentions = []
            self.walk(cl.body.r, lambda n_: mentions.append(1) if (n_.kind == "path" and n_.path == [cl.params[0].name]) else None)
            if not (lhs.kind == "path" and lhs.path == [cl.params[0].name]) or mentions:
                raise Untranslatable("position with an unexpected predicate")
            c = self.ex(cl.body.r)
            return f"({self.atom(base)}.toList.findIdx? (· == {c})).getD {self.atom(self.ex(e.args[0], hoist))}"
        if n in ("split_at", "split_at_mut"):
            if not hoist:
                raise Untranslatable("split_at in non-hoistable position")
            b = self.ex(r, hoist)
            k = self.ex(e.args[0], hoist)
            self.em.w(f"if ¬ ({k} ≤ {self.atom(b)}.size) then failure")
            return f"({self.atom(b)}.extract 0 {self.atom(k)}, {self.atom(b)}.extract {self.atom(k)} {self.atom(b)}.size)"
        if self.is_self(r) and n in self.fns:
            callee = self.fns[n]
            if not hoist:
                raise Untranslatable("call in non-hoistable position")
            args = " ".join(self.atom(self.ex(a, hoist)) for a in e.args)
            t = self.fresh()
            self.em.w(f"let {t} ← {callee.lean_name} {self.PRE_ARGS} value {args}")
            if callee.fn.self_kind == "mut":
                self.em.w(f"value := {t}")
                return "()"
            return t
        if n == "into":
            raise Untranslatable("into")
        return super().mcall_expr(e, hoist)

    def effect_stmt(self, e):
        sub = getattr(self, "subslices", {})
        if e.kind == "mcall" and e.name in ("copy_from_slice", "clone_from_slice", "fill") and e.recv.kind == "path" \
                and len(e.recv.path) == 1 and e.recv.path[0] in sub:
            x, lo_t, hi_t = sub[e.recv.path[0]]
            if e.name == "fill":
                if lo_t is None or self.ex(e.args[0]) != "0":
                    raise Untranslatable("fill of an unexpected slice")
                self.em.w(f"if ¬ ({lo_t} ≤ {x}.size) then failure")
                self.em.w(f"{x} := {x}.extract 0 {self.atom(lo_t)} ++ zerosBA ({x}.size - {self.atom(lo_t)})")
                return True
            if hi_t is None:
                raise Untranslatable("copy into an unexpected slice")
            src = self.ex(e.args[0], hoist=True)
            self.em.w(f"if ¬ ({hi_t} ≤ {x}.size) then failure")
            self.em.w(f"if ¬ ({self.atom(src)}.size = {hi_t}) then failure")
            self.em.w(f"{x} := {self.atom(src)} ++ {x}.extract {self.atom(hi_t)} {x}.size")
            return True
        if e.kind == "mcall" and e.name in ("copy_from_slice", "clone_from_slice") and not self.is_self(e.recv):
            sp = self.slice_parts(e.recv)
            if sp is None:
                raise Untranslatable("copy into something that is not a slice of a buffer")
            base, lo, hi = sp
            x = self.place(base)
            if x is None or lo is not None or hi is None:
                raise Untranslatable("copy into an unexpected slice")
            n = self.ex(hi, hoist=True)
            src = self.ex(e.args[0], hoist=True)
            self.em.w(f"if ¬ ({n} ≤ {x}.size) then failure")
            self.em.w(f"if ¬ ({self.atom(src)}.size = {n}) then failure")
            self.em.w(f"{x} := {self.atom(src)} ++ {x}.extract {self.atom(n)} {x}.size")
            return True
        if e.kind == "mcall" and e.name == "fill":
            sp = self.slice_parts(e.recv)
            if sp is None:
                raise Untranslatable("fill of something that is not a slice of a buffer")
            base, lo, hi = sp
            x = self.place(base)
            if x is None or lo is None or hi is not None or self.ex(e.args[0]) != "0":
                raise Untranslatable("fill of an unexpected slice")
            n = self.ex(lo, hoist=True)
            self.em.w(f"if ¬ ({n} ≤ {x}.size) then failure")
            self.em.w(f"{x} := {x}.extract 0 {self.atom(n)} ++ zerosBA ({x}.size - {self.atom(n)})")
            return True
        if e.kind == "mcall" and self.is_self(e.recv) and e.name in self.fns:
            self.mcall_expr(e, True)
            return True
        # `x.copy_from_str(s)` on a local `x: Self` under construction: the callee's new value replaces `x`
        if e.kind == "mcall" and e.recv.kind == "path" and len(e.recv.path) == 1 and e.recv.path[0] in getattr(self, "selfvals", ()) \
                and e.name in self.fns and self.fns[e.name].fn.self_kind == "mut" and self.fns[e.name].fn.ret is None:
            x = self.lookup(e.recv.path[0])
            args = " ".join(self.atom(self.ex(a, True)) for a in e.args)
            t = self.fresh()
            self.em.w(f"let {t} ← {self.fns[e.name].lean_name} {self.PRE_ARGS} {x} {args}")
            self.em.w(f"{x} := {t}")
            return True
        if e.kind == "try":
            inner = e.e
            if inner.kind == "call" and inner.f.kind == "path" and inner.f.path[-1] == "from_utf8":
                x = self.ex(inner.args[0], hoist=True)
                self.em.w(f"if ¬ ({x}).validateUTF8 then")
                self.em.w(f"  return {self.ret_value('none')}")
                return True
            raise Untranslatable("? on an unexpected expression")
        return super().effect_stmt(e)

    def expr_stmt(self, e):
        if e.kind == "try":
            if not self.effect_stmt(e):
                raise Untranslatable("?")
            return
        if e.kind == "unsafe":
            self.block_stmts(e.body)
            return
        super().expr_stmt(e)

    def let_stmt(self, s):
        # `let (a, b) = self.value.split_at_mut(n)`: `a` and `b` are the sub-slices `[..n]` and `[n..]` of that buffer;
        # writes through them are writes to the buffer
        if s.pat.kind == "ptuple" and len(s.pat.items) == 2 and all(x.kind == "pident" for x in s.pat.items) and s.init is not None \
                and s.init.kind == "mcall" and s.init.name == "split_at_mut" and len(s.init.args) == 1 \
                and s.init.recv.kind == "field" and self.is_self(s.init.recv.e) and self.place(s.init.recv) == "value":
            x = self.place(s.init.recv)
            n = self.ex(s.init.args[0], hoist=True)
            self.em.w(f"if ¬ ({n} ≤ {x}.size) then failure")
            if not hasattr(self, "subslices"):
                self.subslices = {}
            self.subslices[s.pat.items[0].name] = (x, None, n)
            self.subslices[s.pat.items[1].name] = (x, n, None)
            return
        # `let value = [0; MAX_SIZE]` etc. are ordinary; a `let mut x = <byte buffer>` must be mutable
        if s.pat.kind == "pident" and s.init is not None and s.pat.mut:
            v = self.ex(s.init, hoist=True)
            name = s.pat.name
            init = s.init
            if init.kind == "call" and init.f.kind == "path" and init.f.path == ["Self", "default"]:
                # a value of type Self under construction (methods may be called on it)
                if not hasattr(self, "selfvals"):
                    self.selfvals = set()
                self.selfvals.add(name)
            used_as_place = name in self.muts or True
            self.em.w(f"let mut {self.bind(name, True)} := {v}")
            return
        super().let_stmt(s)


PSTR_FUNCS = {n: n for n in ["from_bytes_unchecked", "from_bytes", "from_bytes_mut", "new_unchecked", "new", "copy_from_slice", "copy_from_str", "size", "deref", "deref_mut", "as_str"]}
PODSTR_FUNCS = {"copy_from_slice": "copy_from_slice", "copy_from_str": "copy_from_str", "as_str": "as_str", "from": "from_str", "fmt": "fmt", "as_str_unchecked": "as_str_unchecked", "default": "default_value"}

STR_HEADER = '''/-
  GENERATED by tools/rust2lean.py from {path} — do not edit.
  A syntax-directed transliteration of the Rust functions into Lean `do` notation (see the translator's
  docstring for the conventions). `W` = size of the length prefix, `P` = its largest value, `N` = `MAX_SIZE`.
  `Stevia/Proofs/GenStr.lean` relates each definition to the model (`Stevia.PStr.*`, `Stevia.PodStr.*`).
-/
import Stevia.Model.Str
import Stevia.Model.Fuel

namespace Stevia
namespace {ns}
set_option linter.unusedVariables false

'''


def gen_str(rel, ns, outname, funcs, accept=None):
    path = os.path.join(REPO, rel)
    report = {"source": rel, "namespace": ns, "translated": [], "untranslatable": {}, "missing": []}
    try:
        src = open(path).read()
        tr = StrProfile(src, funcs, accept)
        order = order_functions(tr)
        tr.fns = {n: tr.fns[n] for n in order}
        body = tr.translate_all()
        report["translated"] = [n for n in tr.fns if n not in tr.errors]
        report["untranslatable"] = tr.errors
        report["missing"] = tr.missing
    except (OSError, ParseError) as ex:
        body = ""
        report["untranslatable"]["<file>"] = str(ex)
    text = STR_HEADER.format(path=rel, ns=ns) + body + f"\n\nend {ns}\nend Stevia\n"
    write_if_changed(os.path.join(GEN, outname), text)
    return report


# ======================================================================== pod bool / option / ZeroCopy::load
POD_HEADER = '''/-
  GENERATED by tools/rust2lean.py from src/pod/pod_bool.rs, src/pod/pod_option.rs, src/lib.rs — do not edit.
  `PodBool` is its byte, a `PodOption<T>` is the bytes of its inner value (`isSome` = `Nullable::is_some`),
  `n` = `size_of::<Self>()`. `Stevia/Proofs/GenPod.lean` proves each definition equal to the model `Stevia.Pod.*`.
-/
import Stevia.Model.Str

namespace Stevia
namespace GenPod
set_option linter.unusedVariables false

'''


def gen_pod():
    report = {"source": "src/pod/pod_bool.rs, src/pod/pod_option.rs, src/lib.rs", "namespace": "GenPod", "translated": [], "untranslatable": {}, "missing": []}
    defs = []

    def is_path(e, *p):
        return e.kind == "path" and e.path == list(p)

    def strip(e):
        while e.kind in ("paren", "deref", "ref"):
            e = e.e
        return e

    def subst(node, name, repl):
        """node with every use of the local `name` replaced by the expression `repl`"""
        if isinstance(node, N):
            if node.kind == "path" and node.path == [name]:
                return repl
            return N(node.kind, **{k: subst(v, name, repl) for k, v in node.__dict__.items() if k != "kind"})
        if isinstance(node, list):
            return [subst(v, name, repl) for v in node]
        if isinstance(node, tuple):
            return tuple(subst(v, name, repl) for v in node)
        return node

    def single(body):
        """The body as one expression. Accepted besides a bare tail expression: leading `let x = e;` of an immutable
        local (substituted), and `if c { return a; }` before the tail `b` (read as `if c { a } else { b }`)."""
        if body is None or body.tail is None:
            raise Untranslatable("not a single expression")
        tail = body.tail
        for st in reversed(body.stmts):
            if st.kind == "let" and st.pat.kind == "pident" and not st.pat.mut and st.init is not None:
                tail = subst(tail, st.pat.name, st.init)
                continue
            e = st.e if st.kind == "sexpr" else st

            def unwrap(x):
                return x.e if x.kind == "sexpr" else x
            if e.kind == "if" and e.els is None and len(e.then.stmts) == 1 and e.then.tail is None and unwrap(e.then.stmts[0]).kind == "return" and unwrap(e.then.stmts[0]).e is not None:
                tail = N("if", cond=e.cond, then=N("block", stmts=[], tail=unwrap(e.then.stmts[0]).e), els=N("block", stmts=[], tail=tail))
                continue
            if e.kind == "if" and e.els is None and not e.then.stmts and e.then.tail is not None and e.then.tail.kind == "return" and e.then.tail.e is not None:
                tail = N("if", cond=e.cond, then=N("block", stmts=[], tail=e.then.tail.e), els=N("block", stmts=[], tail=tail))
                continue
            if e.kind == "if" and e.els is None and len(e.then.stmts) == 1 and e.then.tail is None and e.then.stmts[0].kind == "return" and e.then.stmts[0].e is not None:
                tail = N("if", cond=e.cond, then=N("block", stmts=[], tail=e.then.stmts[0].e), els=N("block", stmts=[], tail=tail))
                continue
            raise Untranslatable("not a single expression")
        return norm(tail)

    def norm(e):
        """`match c { true => a, false => b }` is `if c { a } else { b }`; `!(x == y)` is `x != y` (and the reverse)."""
        if e.kind == "match" and len(e.arms) == 2 and all(len(p) == 1 and g is None and p[0].kind == "pident" for p, g, _ in e.arms) \
                and sorted(p[0].name for p, _, _ in e.arms) == ["false", "true"]:
            arm = {p[0].name: b for p, _, b in e.arms}
            blk = lambda b: b if b.kind == "block" else N("block", stmts=[], tail=b)  # noqa: E731
            return N("if", cond=e.e, then=blk(arm["true"]), els=blk(arm["false"]))
        if e.kind == "un" and e.op == "!":
            x = e.e
            while x.kind == "paren":
                x = x.e
            if x.kind == "bin" and x.op in ("==", "!="):
                return N("bin", op="!=" if x.op == "==" else "==", l=x.l, r=x.r)
        # `c.then_some(v)` is `if c { Some(v) } else { None }`
        if e.kind == "mcall" and e.name == "then_some" and len(e.args) == 1:
            return N("if", cond=e.recv, then=N("block", stmts=[], tail=N("call", f=N("path", path=["Some"], generics=None), args=[e.args[0]])),
                     els=N("block", stmts=[], tail=N("path", path=["None"], generics=None)))
        return e

    delegated = []

    def emit(name, text):
        defs.append(text)
        report["translated"].append(name)

    def fail(name, why):
        report["untranslatable"][name] = why

    try:
        fns = scan_functions(open(os.path.join(REPO, "src/pod/pod_bool.rs")).read())
    except OSError as ex:
        fns = []
        fail("<pod_bool.rs>", str(ex))
    for f in fns:
        if f.name != "from":
            continue
        pt = f.params[0][1].replace(" ", "")
        pn = f.params[0][0]
        nm = {"bool": "bool_to_pod", "&bool": "bool_ref_to_pod", "&PodBool": "pod_ref_to_bool", "PodBool": "pod_to_bool"}.get(pt)
        if nm is None:
            continue
        try:
            e = single(f.body)
            # one impl delegating to its sibling: `Self::from(&b)` / `Self::from(*b)` / `bool::from(&b)`
            if e.kind == "call" and e.f.kind == "path" and len(e.f.path) == 2 and e.f.path[1] == "from" and e.f.path[0] in ("Self", "bool", "PodBool") \
                    and len(e.args) == 1 and is_path(strip(e.args[0]), pn) and (e.args[0].kind in ("ref", "deref")):
                other = {"bool_to_pod": "bool_ref_to_pod", "bool_ref_to_pod": "bool_to_pod", "pod_to_bool": "pod_ref_to_bool", "pod_ref_to_bool": "pod_to_bool"}[nm]
                ty_in, ty_out = ("Bool", "UInt8") if pt in ("bool", "&bool") else ("UInt8", "Bool")
                delegated.append((nm, other, f"/-- `From<{pt}>` (line {f.src_line}) delegates to the impl for the {'owned' if e.args[0].kind == 'deref' else 'borrowed'} value. -/\ndef {nm} ({pn} : {ty_in}) : {ty_out} := {other} {pn}"))
                continue
            if pt in ("bool", "&bool"):
                # Self(b.into()) / Self((*b).into()) / Self(u8::from(b))
                if not (e.kind == "call" and is_path(e.f, "Self") and len(e.args) == 1):
                    raise Untranslatable("expected Self(..)")
                a = e.args[0]
                conv = (a.kind == "mcall" and a.name == "into" and is_path(strip(a.recv), pn)) or \
                       (a.kind == "call" and a.f.kind == "path" and a.f.path == ["u8", "from"] and len(a.args) == 1 and is_path(strip(a.args[0]), pn))
                if not conv:
                    raise Untranslatable("expected b.into()")
                emit(nm, f"/-- `From<{pt}> for PodBool` (line {f.src_line}): `bool::into::<u8>` is 1 for true, 0 for false. -/\ndef {nm} ({pn} : Bool) : UInt8 := if {pn} then 1 else 0")
            else:
                # b.0 != 0
                if not (e.kind == "bin" and e.op in ("!=", "==") and e.l.kind == "tfield" and e.l.idx == 0 and is_path(strip(e.l.e), pn) and e.r.kind == "num"):
                    raise Untranslatable("expected b.0 != <literal>")
                op = "≠" if e.op == "!=" else "="
                emit(nm, f"/-- `From<{pt}> for bool` (line {f.src_line}). -/\ndef {nm} ({pn} : UInt8) : Bool := decide ({pn} {op} {int(e.r.val, 0)})")
        except (Untranslatable, ParseError) as ex:
            fail(nm, str(ex))
    for nm, other, text in delegated:
        # a delegation is only meaningful towards an impl that computes by itself (no cycles)
        if other in report["translated"] and other not in [d[0] for d in delegated]:
            emit(nm, text)
        else:
            fail(nm, f"delegates to `{other}`, which is not translated")
    for want in ("bool_to_pod", "bool_ref_to_pod", "pod_ref_to_bool", "pod_to_bool"):
        if want not in report["translated"] and want not in report["untranslatable"]:
            report["missing"].append(want)

    try:
        fns = scan_functions(open(os.path.join(REPO, "src/pod/pod_option.rs")).read())
    except OSError as ex:
        fns = []
        fail("<pod_option.rs>", str(ex))
    for f in fns:
        if f.name not in ("value", "value_mut") or f.body is None:
            continue
        nm = "option_" + f.name
        try:
            e = single(f.body)
            if e.kind != "if" or e.els is None:
                raise Untranslatable("expected if/else")
            c = e.cond
            neg = False
            if c.kind == "un" and c.op == "!":
                neg, c = True, c.e
            if not (c.kind == "mcall" and c.name in ("is_some", "is_none") and strip(c.recv).kind == "tfield" and strip(c.recv).idx == 0 and is_path(strip(strip(c.recv).e), "self")):
                raise Untranslatable("expected self.0.is_some()")
            pred = "isSome inner" if c.name == "is_some" else "isNone inner"
            if neg:
                pred = f"¬ {pred}"

            def arm(b):
                t = single(b) if b.kind == "block" else b
                if is_path(t, "None"):
                    return "none"
                if t.kind == "call" and is_path(t.f, "Some") and strip(t.args[0]).kind == "tfield" and is_path(strip(strip(t.args[0]).e), "self"):
                    return "some inner"
                raise Untranslatable("unexpected arm")
            emit(nm, f"/-- `PodOption::{f.name}` (line {f.src_line}). -/\ndef {nm} (isSome isNone : ByteArray → Bool) (inner : ByteArray) : Option ByteArray :=\n  if {pred} then {arm(e.then)} else {arm(e.els)}")
        except (Untranslatable, ParseError) as ex:
            fail(nm, str(ex))
    for f in fns:
        if f.name != "new" or f.body is None or len(f.params) != 1:
            continue
        try:
            e = single(f.body)
            pn = f.params[0][0]
            if not (e.kind == "call" and is_path(e.f, "Self") and len(e.args) == 1 and is_path(strip(e.args[0]), pn)):
                raise Untranslatable("expected Self(value)")
            emit("option_new", f"/-- `PodOption::new` (line {f.src_line}): the wrapper is its inner value (`repr(C)`, one field). -/\ndef option_new ({pn} : ByteArray) : ByteArray := {pn}")
        except (Untranslatable, ParseError) as ex:
            fail("option_new", str(ex))
    for want in ("option_value", "option_value_mut", "option_new"):
        if want not in report["translated"] and want not in report["untranslatable"]:
            report["missing"].append(want)

    try:
        fns = scan_functions(open(os.path.join(REPO, "src/lib.rs")).read())
    except OSError as ex:
        fns = []
        fail("<lib.rs>", str(ex))
    for f in fns:
        if f.name not in ("load", "load_mut") or f.body is None:
            continue
        try:
            e = single(f.body)
            if not (e.kind == "call" and e.f.kind == "path" and e.f.path[0] == "bytemuck" and e.f.path[-1] in ("from_bytes", "from_bytes_mut") and len(e.args) == 1):
                raise Untranslatable("expected bytemuck::from_bytes(..)")
            a = strip(e.args[0])
            if not (a.kind == "index" and is_path(strip(a.e), "data") and a.idx.kind == "range" and a.idx.lo is None and a.idx.hi is not None):
                raise Untranslatable("expected &data[..n]")
            hi = a.idx.hi
            if not (hi.kind == "call" and hi.f.kind == "path" and hi.f.path[-1] == "size_of" and (hi.f.generics or "").replace(" ", "") == "Self"):
                raise Untranslatable("expected size_of::<Self>()")
            emit(f.name, f"/-- `ZeroCopy::{f.name}` (line {f.src_line}): the view of the first `n = size_of::<Self>()` bytes; the slice index panics if there are fewer. -/\ndef {f.name} (n : Nat) (data : ByteArray) : Option ByteArray :=\n  if n ≤ data.size then some (data.extract 0 n) else none")
        except (Untranslatable, ParseError) as ex:
            fail(f.name, str(ex))
    for want in ("load", "load_mut"):
        if want not in report["translated"] and want not in report["untranslatable"]:
            report["missing"].append(want)
    text = POD_HEADER + "\n\n".join(defs) + "\n\nend GenPod\nend Stevia\n"
    write_if_changed(os.path.join(GEN, "Pod.lean"), text)
    return report


VIEWS_HEADER = """/-
  GENERATED by tools/rust2lean.py from the `from_bytes` / `from_bytes_mut` / `data_len` functions of
  src/collections/{avl_tree,u8_avl_tree,hash_set,array_set}.rs — do not edit.
  The byte-level preamble of every view constructor: where the buffer is split, which checked casts guard the two
  parts, and that the handle keeps exactly those two parts (`Self { header, records }`, nothing derived).
  `H` = `size_of` of the header type (`Allocator`, resp. the length prefix), `R` = `size_of` of one record
  (`Node<..>`, resp. one value). `split_at(n)` panics unless `n <= len`; `bytemuck::from_bytes` refuses a slice whose
  length is not `H`; `bytemuck::cast_slice` refuses a length that is not a multiple of `R` (`castOk`). Alignment of
  the casts is not modelled (the harness runs every scope from differently aligned addresses).
  The statements of the tree's `from_bytes_mut` after this preamble (capacity re-synchronisation) are translated in
  `Avl*Open.lean`. `Stevia/Proofs/GenViews.lean` proves every definition equal to `View.split` / `View.dataLen`.
-/
import Stevia.Model.Views

namespace Stevia
namespace GenV
set_option linter.unusedVariables false

"""


def gen_views():
    """Byte-level preamble of the view constructors and `data_len` (see VIEWS_HEADER)."""
    report = {"source": "src/collections/*.rs (from_bytes, from_bytes_mut, data_len)", "namespace": "GenV", "translated": [], "untranslatable": {}, "missing": []}
    defs = []
    HDR_TYPES = ("Allocator", "U8Allocator", "$prefix_type")

    def size_sym(generics):
        g = (generics or "").replace(" ", "")
        if g in HDR_TYPES:
            return "H"
        if re.fullmatch(r"(U8)?Node<[A-Z](,[A-Z])?>", g):
            return "R"
        raise Untranslatable(f"size_of::<{g}> is neither the header nor the record type")

    def expr(e, names):
        """usize arithmetic over `capacity` and size_of (data_len)"""
        if e.kind == "paren":
            return "(" + expr(e.e, names) + ")"
        if e.kind == "bin" and e.op in ("+", "*"):
            return f"{expr(e.l, names)} {e.op} {expr(e.r, names)}"
        if e.kind == "path" and len(e.path) == 1 and e.path[0] in names:
            return e.path[0]
        if e.kind == "call" and e.f.kind == "path" and e.f.path[-1] == "size_of" and not e.args:
            return size_sym(e.f.generics)
        if e.kind == "cast" and getattr(e, "ty", "").replace(" ", "") == "usize":
            return expr(e.e, names)
        raise Untranslatable(f"unsupported expression ({e.kind}) in data_len")

    def is_name(e, env):
        return e.kind == "path" and len(e.path) == 1 and e.path[0] in env

    def cast_of(e, env):
        """bytemuck::from_bytes[_mut](x) / bytemuck::cast_slice[_mut](x) over a bound slice -> (role, x)"""
        if e.kind == "call" and e.f.kind == "path" and e.f.path[0] == "bytemuck" and len(e.args) == 1 and is_name(e.args[0], env):
            fn = e.f.path[-1]
            g = (e.f.generics or "").replace(" ", "")
            if fn in ("from_bytes", "from_bytes_mut"):
                if g and g not in HDR_TYPES:
                    raise Untranslatable(f"bytemuck::{fn}::<{g}>: not the header type")
                return "hdr", e.args[0].path[0]
            if fn in ("cast_slice", "cast_slice_mut"):
                return "recs", e.args[0].path[0]
        return None

    def view(f, prefix, allow_rest):
        lines = []
        env = {}      # name -> role: raw | hdr | recs
        bytes_name = f.params[0][0]
        if len(f.params) != 1 or "u8" not in f.params[0][1]:
            raise Untranslatable("expected a single byte-slice parameter")
        stmts = list(f.body.stmts)
        i = 0
        while i < len(stmts):
            st = stmts[i]
            if st.kind != "let":
                break
            init = st.init
            if init.kind == "mcall" and init.name in ("split_at", "split_at_mut") and init.recv.kind == "path" and init.recv.path == [bytes_name]:
                if env:
                    raise Untranslatable("buffer split twice")
                if st.pat.kind != "ptuple" or len(st.pat.items) != 2 or any(x.kind != "pident" for x in st.pat.items):
                    raise Untranslatable("split_at: expected a pair pattern")
                a = init.args[0]
                if not (a.kind == "call" and a.f.kind == "path" and a.f.path[-1] == "size_of" and not a.args and size_sym(a.f.generics) == "H"):
                    raise Untranslatable("split point is not size_of::<header type>()")
                x, y = st.pat.items[0].name, st.pat.items[1].name
                lines.append(f"  if ¬ (H ≤ {bytes_name}.size) then failure")
                lines.append(f"  let ({x}, {y}) := ({bytes_name}.extract 0 H, {bytes_name}.extract H {bytes_name}.size)")
                env[x] = "raw0"
                env[y] = "raw1"
                i += 1
                continue
            c = cast_of(init, env) if env else None
            if c is not None and st.pat.kind == "pident":
                role, src = c
                want = {"hdr": "raw0", "recs": "raw1"}[role]
                if env[src] != want:
                    raise Untranslatable(f"{'header' if role == 'hdr' else 'record'} cast applied to the wrong part of the buffer")
                if role == "recs" and st.ty is not None and not re.search(r"\[\s*((U8)?Node\s*<|V\s*\])", st.ty):
                    raise Untranslatable(f"record slice annotated as {st.ty}")
                lines.append(f"  if ¬ ({src}.size = H) then failure" if role == "hdr" else f"  if ¬ (castOk R {src}.size) then failure")
                lines.append(f"  let {st.pat.name} := {src}")
                if st.pat.name != src:
                    del env[src]
                env[st.pat.name] = role
                i += 1
                continue
            break
        rest = stmts[i:]
        if rest and not allow_rest:
            raise Untranslatable(f"statement after the split/cast preamble (line {f.src_line}): the handle is expected to keep no derived state")
        # the rest (tree from_bytes_mut: capacity re-synchronisation, translated by the tree profile) must not rebind the parts
        def binds(n):
            if n.kind == "let":
                pats = [n.pat] if n.pat.kind == "pident" else list(getattr(n.pat, "items", []))
                for p_ in pats:
                    if getattr(p_, "name", None) in env:
                        raise Untranslatable(f"`{p_.name}` is re-bound after the preamble")
        def walk(node):
            if isinstance(node, N):
                binds(node)
                for v in node.__dict__.values():
                    walk(v)
            elif isinstance(node, (list, tuple)):
                for v in node:
                    walk(v)
        for st in rest:
            walk(st)
        tail = f.body.tail
        if tail is None or tail.kind != "struct" or tail.path != ["Self"] or len(tail.fields) != 2:
            raise Untranslatable("expected `Self { header, records }` as the result")
        out = {}
        for fname, fe in tail.fields:
            if is_name(fe, env) and env[fe.path[0]] in ("hdr", "recs"):
                out[env[fe.path[0]]] = fe.path[0]
                continue
            c = cast_of(fe, env)
            if c is None:
                raise Untranslatable(f"field `{fname}` is not one of the two parts of the buffer")
            role, src = c
            if env[src] != {"hdr": "raw0", "recs": "raw1"}[role]:
                raise Untranslatable(f"field `{fname}`: cast applied to the wrong part of the buffer")
            lines.append(f"  if ¬ ({src}.size = H) then failure" if role == "hdr" else f"  if ¬ (castOk R {src}.size) then failure")
            out[role] = src
        if set(out) != {"hdr", "recs"}:
            raise Untranslatable("the handle does not keep exactly the header and the records")
        lines.append(f"  return ({out['hdr']}, {out['recs']})")
        nm = f"{prefix}_{f.name}"
        more = " (preamble; the remaining statements are `from_bytes_mut` of the tree translation)" if rest else ""
        return nm, f"/-- `{f.name}` of `{prefix}` (line {f.src_line}){more}. -/\ndef {nm} (H R : Nat) ({bytes_name} : ByteArray) :\n    Option (ByteArray × ByteArray) := do\n" + "\n".join(lines)

    files = [
        ("avl32", "src/collections/avl_tree.rs", True, True),
        ("avl8", "src/collections/u8_avl_tree.rs", True, True),
        ("hset", "src/collections/hash_set.rs", True, False),
        ("aset", "src/collections/array_set.rs", False, False),
    ]
    def accessor(f, prefix):
        """`get_field`/`get_register`: `self.<words>[<selector> as usize]`; `set_*`: `self.<words>[<selector> as usize] = value;`"""
        arr = {"get_field": "fields", "set_field": "fields", "get_register": "registers", "set_register": "registers"}[f.name]

        def is_word(e, sel):
            return (e.kind == "index" and e.e.kind == "field" and e.e.name == arr and e.e.e.kind == "path" and e.e.e.path == ["self"]
                    and e.idx.kind == "cast" and e.idx.ty.replace(" ", "") == "usize" and e.idx.e.kind == "path" and e.idx.e.path == [sel])
        nm = f"{prefix}_{f.name}"
        if f.name.startswith("get_"):
            if len(f.params) != 1 or f.body.stmts or f.body.tail is None or not is_word(f.body.tail, f.params[0][0]):
                raise Untranslatable(f"expected `self.{arr}[selector as usize]`")
            sel = f.params[0][0]
            return nm, f"/-- `{f.name}` of `{prefix}` (line {f.src_line}): the selected word; indexing panics outside the array. -/\ndef {nm} ({arr} : List Nat) ({sel} : Nat) : Option Nat :=\n  {arr}[{sel}]?"
        st = f.body.stmts
        a = st[0] if len(st) == 1 and f.body.tail is None else (f.body.tail if not st else None)
        if len(f.params) != 2 or a is None or a.kind != "assign" or a.op != "=" or not is_word(a.lhs, f.params[0][0]) or not (a.rhs.kind == "path" and a.rhs.path == [f.params[1][0]]):
            raise Untranslatable(f"expected `self.{arr}[selector as usize] = value`")
        sel, val = f.params[0][0], f.params[1][0]
        return nm, f"/-- `{f.name}` of `{prefix}` (line {f.src_line}): overwrites the selected word and nothing else. -/\ndef {nm} ({arr} : List Nat) ({sel} {val} : Nat) : Option (List Nat) :=\n  if {sel} < {arr}.length then some ({arr}.set {sel} {val}) else none"

    for prefix, rel, has_len, mut_rest in files:
        want = ([f"{prefix}_data_len"] if has_len else []) + [f"{prefix}_from_bytes", f"{prefix}_from_bytes_mut"]
        if has_len:
            want += [f"{prefix}_{a}" for a in ("get_field", "set_field", "get_register", "set_register")]
        try:
            src = open(os.path.join(REPO, rel)).read()
            fns = scan_functions(src)
        except (OSError, ParseError) as ex:
            report["untranslatable"][f"<{rel}>"] = str(ex)
            continue
        seen = {}
        for f in fns:
            if f.body is None or f.name not in ("data_len", "from_bytes", "from_bytes_mut", "get_field", "set_field", "get_register", "set_register"):
                continue
            nm = f"{prefix}_{f.name}"
            try:
                if f.name == "data_len":
                    if f.body.stmts or f.body.tail is None or len(f.params) != 1:
                        raise Untranslatable("expected a single expression over one parameter")
                    pn = f.params[0][0]
                    text = f"/-- `data_len` of `{prefix}` (line {f.src_line}); `usize` arithmetic read as unbounded. -/\ndef {nm} (H R : Nat) ({pn} : Nat) : Nat :=\n  {expr(f.body.tail, [pn])}"
                elif f.name.startswith(("get_", "set_")):
                    _, text = accessor(f, prefix)
                else:
                    _, text = view(f, prefix, mut_rest and f.name == "from_bytes_mut")
                # the macro-generated types share one definition; a second, textually different one is an error
                body_only = re.sub(r"\(line \d+\)", "", text)
                if nm in seen and seen[nm] != body_only:
                    raise Untranslatable("two different definitions in one file")
                if nm not in seen:
                    seen[nm] = body_only
                    defs.append(text)
                    report["translated"].append(nm)
            except (Untranslatable, ParseError, AttributeError, KeyError) as ex:
                report["untranslatable"][nm] = str(ex)
        for w in want:
            if w not in report["translated"] and w not in report["untranslatable"]:
                report["missing"].append(w)
    bad = set(report["untranslatable"]) | set(report["missing"])
    text = VIEWS_HEADER + "\n\n".join(d for d in defs if not any(d.find(f"def {b} ") >= 0 for b in bad)) + "\n\nend GenV\nend Stevia\n"
    write_if_changed(os.path.join(GEN, "Views.lean"), text)
    return report


def alloc_initialize(src, alloc_owner_re, field_names, lean_hdr_fields, state_ty, hdr_ctor_extra=""):
    """`Allocator::initialize(&mut self, capacity)`: `self.fields = [ .. ]` — entry i of the literal is the i-th variant of
    `enum Field` (declaration order); further entries are padding and must be 0. Returns (lean def text | None, error)."""
    m = re.search(r"enum\s+Field\s*\{([^}]*)\}", rustparse_strip(src))
    if not m:
        return None, "enum Field not found"
    variants = [v.strip() for v in m.group(1).split(",") if v.strip()]
    if [v for v in variants if v not in field_names]:
        return None, f"unexpected Field variants {variants}"
    for f in scan_functions(src):
        if f.name == "initialize" and re.search(alloc_owner_re, f.owner) and f.body is not None:
            st = f.body.stmts
            tail = f.body.tail
            node = None
            if len(st) == 1 and tail is None and st[0].kind == "assign":
                node = st[0]
            elif not st and tail is not None and tail.kind == "assign":
                node = tail
            if node is None or node.op != "=" or node.lhs.kind != "field" or node.lhs.name != "fields" or node.rhs.kind != "array":
                return None, "Allocator::initialize: expected `self.fields = [..]`"
            items = node.rhs.items
            if len(items) < len(variants):
                return None, "Allocator::initialize: literal shorter than enum Field"

            def lit(e):
                if e.kind == "num":
                    return str(int(e.val, 0))
                if e.kind == "path" and e.path == ["SENTINEL"]:
                    return "0"
                if e.kind == "path" and len(e.path) == 1 and e.path[0] == f.params[0][0]:
                    return e.path[0]
                raise Untranslatable("Allocator::initialize: unexpected entry")
            try:
                vals = [lit(e) for e in items]
            except Untranslatable as ex:
                return None, str(ex)
            if any(v != "0" for v in vals[len(variants):]):
                return None, "Allocator::initialize: non-zero padding"
            assign = ", ".join(f"{field_names[v]} := {vals[i]}" for i, v in enumerate(variants))
            missing = [h for h in lean_hdr_fields if h not in [field_names[v] for v in variants]]
            assign += "".join(f", {h} := 0" for h in missing)
            pn = f.params[0][0]
            return (f"/-- `Allocator::initialize` (line {f.src_line}): header words in the declaration order of `enum Field`. -/\n"
                    f"def alloc_initialize (m0 : {state_ty}) ({pn} : Nat) : {state_ty} :=\n  {{ m0 with hdr := {{ {assign} }} }}"), None
    return None, "Allocator::initialize not found"


def rustparse_strip(src):
    i = src.find("#[cfg(test)]")
    src = src if i < 0 else src[:i]
    src = re.sub(r"//[^\n]*", "", src)
    return src


TREE_FUNCS = {"initialize": "node_initialize", "initialize@TreeMut<": "initialize_tree"}
TREE_FUNCS.update({n: n for n in ["capacity", "len", "is_full", "is_empty", "find", "get", "lowest", "contains", "update_height",
              "update_child", "balance_factor", "left_rotate", "right_rotate", "rebalance", "add", "remove_node",
              "insert", "remove", "get_mut", "from_bytes_mut"]})

TREE_HEADER = '''/-
  GENERATED by tools/rust2lean.py from {path} (group {group}) — do not edit.
  A syntax-directed transliteration of the Rust functions into Lean `do` notation (see the translator's
  docstring for the conventions). `Stevia/Proofs/GenTree.lean` proves each definition equal to the literal
  model `Stevia.Imp.*`.
-/
import Stevia.Model.TreeImp
import Stevia.Model.Fuel
{imports}
namespace Stevia
namespace {ns}
open Imp
variable {{α β : Type}} [LinOrd α]
set_option linter.unusedVariables false

'''


def order_functions(tr):
    """Definitions before uses (the call graph among translated functions is acyclic)."""
    names = list(tr.fns)
    deps = {}
    for n in names:
        d = set()
        body = tr.fns[n].fn.body
        if body is not None:
            def visit(x):
                if x.kind == "mcall" and x.name in tr.fns and x.name != n:
                    d.add(x.name)
                if x.kind == "call" and x.f.kind == "path" and len(x.f.path) == 2 and x.f.path[0] == "Self" and x.f.path[1] in tr.fns and x.f.path[1] != n:
                    d.add(x.f.path[1])
            tr.walk(body, visit)
        deps[n] = d
    out = []
    seen = set()

    def visit(n, stack=()):
        if n in seen or n in stack:
            return
        for m in sorted(deps[n], key=names.index):
            visit(m, stack + (n,))
        seen.add(n)
        out.append(n)
    for n in names:
        visit(n)
    return out


# The tree files are emitted as five modules per source, so that a function that cannot be translated (or whose bridge
# no longer closes) takes down only the theorems that depend on it: `<Out>Bal` (height registers, rotations, rebalance),
# `<Out>Alloc` (slot allocator, initialize), `<Out>Query` (read-only queries, get_mut), `<Out>Open` (from_bytes_mut),
# `<Out>Ops` (insert, remove - imports the first three).
TREE_GROUPS = [
    ("Bal", ["update_height", "update_child", "balance_factor", "left_rotate", "right_rotate", "rebalance"], []),
    ("Alloc", ["alloc_initialize", "node_initialize", "initialize_tree", "add", "remove_node"], []),
    ("Query", ["capacity", "len", "is_full", "is_empty", "find", "get", "contains", "lowest", "get_mut"], []),
    ("Open", ["from_bytes_mut"], []),
    ("Ops", ["insert", "remove"], ["Bal", "Alloc", "Query"]),
]


def gen_tree(rel, ns, bits, outname):
    path = os.path.join(REPO, rel)
    report = {"source": rel, "namespace": ns, "translated": [], "untranslatable": {}, "missing": []}
    outputs = {}
    try:
        src = open(path).read()
        tr = TreeProfile(src, TREE_FUNCS, bits)
        order = order_functions(tr)
        tr.fns = {n: tr.fns[n] for n in order}
        tr.translate_all()
        outputs = dict(tr.outputs)
        report["translated"] = [n for n in tr.fns if n not in tr.errors]
        report["untranslatable"] = tr.errors
        report["missing"] = tr.missing
        d_, err_ = alloc_initialize(src, r"impl\s+(U8)?Allocator", TreeProfile.FIELDS, ["root", "size", "cap", "flh", "seq", "pad"], "TreeImage α β")
        if d_:
            outputs["alloc_initialize"] = d_
            report["translated"].append("alloc_initialize")
        else:
            report["untranslatable"]["alloc_initialize"] = err_
        if not tr.height_ok:
            report["untranslatable"]["<Register::Height used as a branch value>"] = "Bool encoding of branches unsound"
            outputs = {}
    except (OSError, ParseError) as ex:
        report["untranslatable"]["<file>"] = str(ex)
    base = outname[:-len(".lean")]
    groups = list(TREE_GROUPS)
    aux = [n for n in (tr.fns if outputs else []) if n in tr.auto and n in outputs]
    aux_path = os.path.join(GEN, f"{base}Aux.lean")
    if aux:
        # helpers extracted from the listed functions: one module before all others
        groups = [("Aux", aux, [])] + [(g, ns_, ["Aux"] + d) for g, ns_, d in groups]
    elif os.path.exists(aux_path):
        os.remove(aux_path)
    for group, names, deps in groups:
        imports = "".join(f"import Stevia.Generated.{base}{d}\n" for d in deps)
        body = "\n\n".join(outputs[n] for n in names if n in outputs)
        text = TREE_HEADER.format(path=rel, ns=ns, group=group, imports=imports) + body + f"\n\nend {ns}\nend Stevia\n"
        write_if_changed(os.path.join(GEN, f"{base}{group}.lean"), text)
    # the former single-file output
    try:
        os.remove(os.path.join(GEN, outname))
    except OSError:
        pass
    return report


def write_if_changed(path, text):
    try:
        if open(path).read() == text:
            return
    except OSError:
        pass
    os.makedirs(os.path.dirname(path), exist_ok=True)
    open(path, "w").write(text)


EQ_RECORD = set() if os.environ.get("STEVIA_RECORD_EQ") else None
try:
    EQ_ORIENT = {tuple(x) for x in json.load(open(os.path.join(os.path.dirname(os.path.abspath(__file__)), "eq_orient.json")))}
except (OSError, ValueError):
    EQ_ORIENT = set()


def _guard(fn, source):
    """A translator crash (an AST shape no profile anticipates) is reported, never silently survived: the generated files
    of that source may be stale, so `check` treats the report as a broken obligation."""
    def run(*a):
        try:
            return fn(*a)
        except Exception as ex:  # noqa: BLE001
            import traceback
            sys.stderr.write(traceback.format_exc())
            return {"source": source if not a else str(a[0]), "namespace": "?", "translated": [], "untranslatable": {"<crash>": f"{type(ex).__name__}: {ex}"[:300]}, "missing": []}
    return run


def main():
    global gen_tree, gen_hset, gen_aset, gen_str, gen_pod, gen_views
    gen_tree, gen_hset, gen_aset, gen_str = (_guard(f, "?") for f in (gen_tree, gen_hset, gen_aset, gen_str))
    gen_pod = _guard(gen_pod, "src/pod/pod_bool.rs, src/pod/pod_option.rs, src/lib.rs")
    gen_views = _guard(gen_views, "src/collections/*.rs (from_bytes, from_bytes_mut, data_len)")
    reports = [
        gen_tree("src/collections/avl_tree.rs", "Gen32", 32, "Avl32.lean"),
        gen_tree("src/collections/u8_avl_tree.rs", "Gen8", 8, "Avl8.lean"),
        gen_hset("src/collections/hash_set.rs", "GenH", "HSet.lean"),
        gen_aset("src/collections/array_set.rs", "GenA", "ASet.lean"),
        gen_str("src/types/prefix_str.rs", "GenP", "PStr.lean", PSTR_FUNCS,
                lambda f: not (f.name in ("from_bytes", "from_bytes_unchecked") and False)),
        gen_str("src/pod/pod_str.rs", "GenS", "PodStr.lean", PODSTR_FUNCS,
                lambda f: not (f.name == "from" and "String" in "".join(t for _, t in f.params))),
        gen_pod(),
        gen_views(),
    ]
    if EQ_RECORD is not None:
        json.dump(sorted(EQ_RECORD), open(os.path.join(os.path.dirname(os.path.abspath(__file__)), "eq_orient.json"), "w"), indent=0)
    print(json.dumps({"translator": reports}))


if __name__ == "__main__":
    main()
